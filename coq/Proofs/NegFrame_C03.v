(* Frame infrastructure for the NegModel connection automaton (used by NegProofs_C03).
   - sproj: projections of setters by cbn over a whitelist (all record fields / setters);
   - case_step: destruct one if / match scrutinee at a time, keeping pairs as fst/snd;
   - Fr: the reflexive-transitive "frame" relation satisfied by every function that runs inside
     an event-loop iteration (configuration unchanged, ghost counters unchanged, offers and
     other received-facts only grow, sendq only grows, state never leaves Disconnected ...).
   The setter lemmas are generated (one per benign field); everything else is per model function. *)
Require Import LV.Common.Bytes LV.Gen.Gen_neg LV.Model.NegState LV.Model.NegModel LV.Spec.NegSpec.
Local Open Scope Z_scope.

(* ------------------------------------------------------------------ tactics *)
Ltac sproj := cbn [fst snd upg f_tls_disabled f_tls_mandatory f_legacy_ssl f_tls_trust f_legacy_auth f_sm_disable f_comp_allowed f_comp_dont_reset jid_set jid_node jid_res pass_set cert_set is_raw typ user_handler user_timed tlsnew_ok cb_avail tls_verdicts next_cands cands cur_ep st stamp err stream_error secured tls_present tls_failed tls_support sasl bind_required session_required comp_supported comp_active sm_alloc sm_support sm_enabled sm_can_resume sm_resume sm_dont_request sm_has_previd sm_has_id sm_parked sm_r_sent sm_bind_saved bound_jid stream_id neg_done reset_parser oh ps handlers idhandlers timed sendq rxq smq sm_sent scram_serial crashed gh set_f_tls_disabled set_f_tls_mandatory set_f_legacy_ssl set_f_tls_trust set_f_legacy_auth set_f_sm_disable set_f_comp_allowed set_f_comp_dont_reset set_jid_set set_jid_node set_jid_res set_pass_set set_cert_set set_is_raw set_typ set_user_handler set_user_timed set_tlsnew_ok set_cb_avail set_tls_verdicts set_next_cands set_cands set_cur_ep set_st set_stamp set_err set_stream_error set_secured set_tls_present set_tls_failed set_tls_support set_sasl set_bind_required set_session_required set_comp_supported set_comp_active set_sm_alloc set_sm_support set_sm_enabled set_sm_can_resume set_sm_resume set_sm_dont_request set_sm_has_previd set_sm_has_id set_sm_parked set_sm_r_sent set_sm_bind_saved set_bound_jid set_stream_id set_neg_done set_reset_parser set_oh set_ps set_handlers set_idhandlers set_timed set_sendq set_rxq set_smq set_sm_sent set_scram_serial set_crashed set_gh g_offer_tls g_offered g_offer_zlib g_offer_bind g_offer_session g_offer_sm g_feat_seen g_strong g_tls_up g_auth_w g_auth_ok g_bind_w g_bound g_resume_w g_resumed g_legacy_w g_legacy_ok g_hs_w g_hs_ok g_hdr_w g_raw_open g_attempt g_connects g_disconnects g_rawc g_conn_unjust g_serr g_se_bad set_g_offer_tls set_g_offered set_g_offer_zlib set_g_offer_bind set_g_offer_session set_g_offer_sm set_g_feat_seen set_g_strong set_g_tls_up set_g_auth_w set_g_auth_ok set_g_bind_w set_g_bound set_g_resume_w set_g_resumed set_g_legacy_w set_g_legacy_ok set_g_hs_w set_g_hs_ok set_g_hdr_w set_g_raw_open set_g_attempt set_g_connects set_g_disconnects set_g_rawc set_g_conn_unjust set_g_serr set_g_se_bad].
Ltac sproj_in H := cbn [fst snd upg f_tls_disabled f_tls_mandatory f_legacy_ssl f_tls_trust f_legacy_auth f_sm_disable f_comp_allowed f_comp_dont_reset jid_set jid_node jid_res pass_set cert_set is_raw typ user_handler user_timed tlsnew_ok cb_avail tls_verdicts next_cands cands cur_ep st stamp err stream_error secured tls_present tls_failed tls_support sasl bind_required session_required comp_supported comp_active sm_alloc sm_support sm_enabled sm_can_resume sm_resume sm_dont_request sm_has_previd sm_has_id sm_parked sm_r_sent sm_bind_saved bound_jid stream_id neg_done reset_parser oh ps handlers idhandlers timed sendq rxq smq sm_sent scram_serial crashed gh set_f_tls_disabled set_f_tls_mandatory set_f_legacy_ssl set_f_tls_trust set_f_legacy_auth set_f_sm_disable set_f_comp_allowed set_f_comp_dont_reset set_jid_set set_jid_node set_jid_res set_pass_set set_cert_set set_is_raw set_typ set_user_handler set_user_timed set_tlsnew_ok set_cb_avail set_tls_verdicts set_next_cands set_cands set_cur_ep set_st set_stamp set_err set_stream_error set_secured set_tls_present set_tls_failed set_tls_support set_sasl set_bind_required set_session_required set_comp_supported set_comp_active set_sm_alloc set_sm_support set_sm_enabled set_sm_can_resume set_sm_resume set_sm_dont_request set_sm_has_previd set_sm_has_id set_sm_parked set_sm_r_sent set_sm_bind_saved set_bound_jid set_stream_id set_neg_done set_reset_parser set_oh set_ps set_handlers set_idhandlers set_timed set_sendq set_rxq set_smq set_sm_sent set_scram_serial set_crashed set_gh g_offer_tls g_offered g_offer_zlib g_offer_bind g_offer_session g_offer_sm g_feat_seen g_strong g_tls_up g_auth_w g_auth_ok g_bind_w g_bound g_resume_w g_resumed g_legacy_w g_legacy_ok g_hs_w g_hs_ok g_hdr_w g_raw_open g_attempt g_connects g_disconnects g_rawc g_conn_unjust g_serr g_se_bad set_g_offer_tls set_g_offered set_g_offer_zlib set_g_offer_bind set_g_offer_session set_g_offer_sm set_g_feat_seen set_g_strong set_g_tls_up set_g_auth_w set_g_auth_ok set_g_bind_w set_g_bound set_g_resume_w set_g_resumed set_g_legacy_w set_g_legacy_ok set_g_hs_w set_g_hs_ok set_g_hdr_w set_g_raw_open set_g_attempt set_g_connects set_g_disconnects set_g_rawc set_g_conn_unjust set_g_serr set_g_se_bad] in H.
Ltac sproj_all := cbn [fst snd upg f_tls_disabled f_tls_mandatory f_legacy_ssl f_tls_trust f_legacy_auth f_sm_disable f_comp_allowed f_comp_dont_reset jid_set jid_node jid_res pass_set cert_set is_raw typ user_handler user_timed tlsnew_ok cb_avail tls_verdicts next_cands cands cur_ep st stamp err stream_error secured tls_present tls_failed tls_support sasl bind_required session_required comp_supported comp_active sm_alloc sm_support sm_enabled sm_can_resume sm_resume sm_dont_request sm_has_previd sm_has_id sm_parked sm_r_sent sm_bind_saved bound_jid stream_id neg_done reset_parser oh ps handlers idhandlers timed sendq rxq smq sm_sent scram_serial crashed gh set_f_tls_disabled set_f_tls_mandatory set_f_legacy_ssl set_f_tls_trust set_f_legacy_auth set_f_sm_disable set_f_comp_allowed set_f_comp_dont_reset set_jid_set set_jid_node set_jid_res set_pass_set set_cert_set set_is_raw set_typ set_user_handler set_user_timed set_tlsnew_ok set_cb_avail set_tls_verdicts set_next_cands set_cands set_cur_ep set_st set_stamp set_err set_stream_error set_secured set_tls_present set_tls_failed set_tls_support set_sasl set_bind_required set_session_required set_comp_supported set_comp_active set_sm_alloc set_sm_support set_sm_enabled set_sm_can_resume set_sm_resume set_sm_dont_request set_sm_has_previd set_sm_has_id set_sm_parked set_sm_r_sent set_sm_bind_saved set_bound_jid set_stream_id set_neg_done set_reset_parser set_oh set_ps set_handlers set_idhandlers set_timed set_sendq set_rxq set_smq set_sm_sent set_scram_serial set_crashed set_gh g_offer_tls g_offered g_offer_zlib g_offer_bind g_offer_session g_offer_sm g_feat_seen g_strong g_tls_up g_auth_w g_auth_ok g_bind_w g_bound g_resume_w g_resumed g_legacy_w g_legacy_ok g_hs_w g_hs_ok g_hdr_w g_raw_open g_attempt g_connects g_disconnects g_rawc g_conn_unjust g_serr g_se_bad set_g_offer_tls set_g_offered set_g_offer_zlib set_g_offer_bind set_g_offer_session set_g_offer_sm set_g_feat_seen set_g_strong set_g_tls_up set_g_auth_w set_g_auth_ok set_g_bind_w set_g_bound set_g_resume_w set_g_resumed set_g_legacy_w set_g_legacy_ok set_g_hs_w set_g_hs_ok set_g_hdr_w set_g_raw_open set_g_attempt set_g_connects set_g_disconnects set_g_rawc set_g_conn_unjust set_g_serr set_g_se_bad] in *.

Ltac split_pair c :=
  let x := fresh "x" in let y := fresh "y" in let E := fresh "E" in
  destruct c as [x y] eqn:E;
  let Hx := fresh in let Hy := fresh in
  assert (Hx : x = fst c) by (rewrite E; reflexivity);
  assert (Hy : y = snd c) by (rewrite E; reflexivity);
  clear E; subst x y.

(* one scrutinee at a time, innermost first; pair-valued scrutinees are not destructed but
   replaced by (fst c, snd c) so that lemmas about fst (f s) / snd (f s) stay applicable *)
Ltac case_on c :=
  let T := type of c in let T' := eval hnf in T in
  lazymatch T' with
  | prod _ _ => first [ is_var c; destruct c | split_pair c ]
  | _ => destruct c eqn:?
  end.
Ltac case_step :=
  first
  [ match goal with
    | |- context [match ?c with _ => _ end] =>
        lazymatch c with
        | context [match _ with _ => _ end] => fail
        | _ => idtac
        end;
        case_on c
    end
  | match goal with
    | |- context [match ?c with _ => _ end] => case_on c
    end ].
(* auth is a fixpoint on its fuel: a literal fuel lets the kernel unfold it when re-checking
   conversions at Qed (exponential); abstract the fuel first *)
Ltac gen_fuel :=
  repeat match goal with
         | |- context [auth (S ?k)] =>
             let F := fresh "fuel" in pose (F := S k); change (auth (S k)) with (auth F); clearbody F
         end.
Ltac cases := gen_fuel; cbv zeta; repeat case_step.

(* Results of pair-valued model functions are named (with the defining equation put back in the
   goal) before the function is unfolded: reducing fst/snd of big terms by conversion is what the
   kernel is slow at. *)
Ltac name_result :=
  match goal with
  | |- context [fst (fst ?c)] => let E := fresh "E" in destruct c as [[? ?] ?] eqn:E; cbn [fst snd]; revert E
  | |- context [snd (fst ?c)] => let E := fresh "E" in destruct c as [[? ?] ?] eqn:E; cbn [fst snd]; revert E
  | |- context [fst ?c] => let E := fresh "E" in destruct c as [? ?] eqn:E; cbn [fst snd]; revert E
  | |- context [snd ?c] => let E := fresh "E" in destruct c as [? ?] eqn:E; cbn [fst snd]; revert E
  end.
Ltac inj_pairs :=
  repeat match goal with
         | H : (_, _) = (_, _) |- _ => apply pair_equal_spec in H; destruct H
         end; subst.
Ltac unname_results :=
  repeat match goal with
         | H : ?c = (?a, ?b, ?d) |- _ =>
             is_var a; is_var b; is_var d;
             let Ha := fresh in let Hb := fresh in let Hd := fresh in
             assert (Ha : a = fst (fst c)) by (rewrite H; reflexivity);
             assert (Hb : b = snd (fst c)) by (rewrite H; reflexivity);
             assert (Hd : d = snd c) by (rewrite H; reflexivity);
             clear H; subst a b d
         | H : ?c = (?a, ?b) |- _ =>
             is_var a; is_var b;
             let Ha := fresh in let Hb := fresh in
             assert (Ha : a = fst c) by (rewrite H; reflexivity);
             assert (Hb : b = snd c) by (rewrite H; reflexivity);
             clear H; subst a b
         end.
Ltac leaf := intros; inj_pairs; unname_results.

Lemma fold_left_inv {A B} (P : A -> Prop) (f : A -> B -> A) :
  (forall a b, P a -> P (f a b)) -> forall l a, P a -> P (fold_left f l a).
Proof. intros H l; induction l; cbn; auto. Qed.

(* ------------------------------------------------------------------ ghost frame *)
Record GFr (g g' : ghost) : Prop := mkGFr {
  gfr_connects : g_connects g' = g_connects g;
  gfr_disconnects : g_disconnects g' = g_disconnects g;
  gfr_rawc : g_rawc g' = g_rawc g;
  gfr_attempt : g_attempt g' = g_attempt g;
  gfr_tls_up : g_tls_up g' = g_tls_up g;
  gfr_offer_tls : g_offer_tls g = true -> g_offer_tls g' = true;
  gfr_offer_zlib : g_offer_zlib g = true -> g_offer_zlib g' = true;
  gfr_offer_bind : g_offer_bind g = true -> g_offer_bind g' = true;
  gfr_offer_session : g_offer_session g = true -> g_offer_session g' = true;
  gfr_offer_sm : g_offer_sm g = true -> g_offer_sm g' = true;
  gfr_auth_ok : g_auth_ok g = true -> g_auth_ok g' = true;
  gfr_bound : g_bound g = true -> g_bound g' = true;
  gfr_resumed : g_resumed g = true -> g_resumed g' = true;
  gfr_legacy_ok : g_legacy_ok g = true -> g_legacy_ok g' = true;
  gfr_hs_ok : g_hs_ok g = true -> g_hs_ok g' = true;
  gfr_raw_open : g_raw_open g = true -> g_raw_open g' = true;
  gfr_conn_unjust : g_conn_unjust g = true -> g_conn_unjust g' = true;
  gfr_offered : forall m, mem_mech m (g_offered g) = true -> mem_mech m (g_offered g') = true
}.
Lemma GFr_refl : forall g, GFr g g.
Proof. intros; constructor; auto. Qed.
Lemma GFr_trans : forall a b c, GFr a b -> GFr b c -> GFr a c.
Proof.
  intros a b c [] []; constructor; try congruence; auto.
Qed.
Ltac GFr_prim := constructor; cbn; intros; auto.
#[export] Hint Resolve GFr_refl : frdb.
Lemma GFr_set_g_feat_seen : forall v g0 g, GFr g0 g -> GFr g0 (set_g_feat_seen v g).
Proof. intros v g0 g H; apply (GFr_trans _ _ _ H); destruct g; GFr_prim. Qed.
#[export] Hint Resolve GFr_set_g_feat_seen : frdb.
Lemma GFr_set_g_strong : forall v g0 g, GFr g0 g -> GFr g0 (set_g_strong v g).
Proof. intros v g0 g H; apply (GFr_trans _ _ _ H); destruct g; GFr_prim. Qed.
#[export] Hint Resolve GFr_set_g_strong : frdb.
Lemma GFr_set_g_auth_w : forall v g0 g, GFr g0 g -> GFr g0 (set_g_auth_w v g).
Proof. intros v g0 g H; apply (GFr_trans _ _ _ H); destruct g; GFr_prim. Qed.
#[export] Hint Resolve GFr_set_g_auth_w : frdb.
Lemma GFr_set_g_bind_w : forall v g0 g, GFr g0 g -> GFr g0 (set_g_bind_w v g).
Proof. intros v g0 g H; apply (GFr_trans _ _ _ H); destruct g; GFr_prim. Qed.
#[export] Hint Resolve GFr_set_g_bind_w : frdb.
Lemma GFr_set_g_resume_w : forall v g0 g, GFr g0 g -> GFr g0 (set_g_resume_w v g).
Proof. intros v g0 g H; apply (GFr_trans _ _ _ H); destruct g; GFr_prim. Qed.
#[export] Hint Resolve GFr_set_g_resume_w : frdb.
Lemma GFr_set_g_legacy_w : forall v g0 g, GFr g0 g -> GFr g0 (set_g_legacy_w v g).
Proof. intros v g0 g H; apply (GFr_trans _ _ _ H); destruct g; GFr_prim. Qed.
#[export] Hint Resolve GFr_set_g_legacy_w : frdb.
Lemma GFr_set_g_hs_w : forall v g0 g, GFr g0 g -> GFr g0 (set_g_hs_w v g).
Proof. intros v g0 g H; apply (GFr_trans _ _ _ H); destruct g; GFr_prim. Qed.
#[export] Hint Resolve GFr_set_g_hs_w : frdb.
Lemma GFr_set_g_hdr_w : forall v g0 g, GFr g0 g -> GFr g0 (set_g_hdr_w v g).
Proof. intros v g0 g H; apply (GFr_trans _ _ _ H); destruct g; GFr_prim. Qed.
#[export] Hint Resolve GFr_set_g_hdr_w : frdb.
Lemma GFr_set_g_serr : forall v g0 g, GFr g0 g -> GFr g0 (set_g_serr v g).
Proof. intros v g0 g H; apply (GFr_trans _ _ _ H); destruct g; GFr_prim. Qed.
#[export] Hint Resolve GFr_set_g_serr : frdb.
Lemma GFr_set_g_se_bad : forall v g0 g, GFr g0 g -> GFr g0 (set_g_se_bad v g).
Proof. intros v g0 g H; apply (GFr_trans _ _ _ H); destruct g; GFr_prim. Qed.
#[export] Hint Resolve GFr_set_g_se_bad : frdb.

Lemma GFr_set_true_conn_unjust : forall g0 g, GFr g0 g -> GFr g0 (set_g_conn_unjust true g).
Proof. intros g0 g H; apply (GFr_trans _ _ _ H); destruct g; GFr_prim. Qed.
#[export] Hint Resolve GFr_set_true_conn_unjust : frdb.

(* ------------------------------------------------------------------ state frame *)
Record Fr (s s' : state) : Prop := mkFr {
  fr_f_tls_disabled : f_tls_disabled s' = f_tls_disabled s;
  fr_f_tls_mandatory : f_tls_mandatory s' = f_tls_mandatory s;
  fr_f_legacy_ssl : f_legacy_ssl s' = f_legacy_ssl s;
  fr_f_tls_trust : f_tls_trust s' = f_tls_trust s;
  fr_f_legacy_auth : f_legacy_auth s' = f_legacy_auth s;
  fr_f_sm_disable : f_sm_disable s' = f_sm_disable s;
  fr_f_comp_allowed : f_comp_allowed s' = f_comp_allowed s;
  fr_f_comp_dont_reset : f_comp_dont_reset s' = f_comp_dont_reset s;
  fr_jid_set : jid_set s' = jid_set s;
  fr_jid_node : jid_node s' = jid_node s;
  fr_jid_res : jid_res s' = jid_res s;
  fr_pass_set : pass_set s' = pass_set s;
  fr_cert_set : cert_set s' = cert_set s;
  fr_is_raw : is_raw s' = is_raw s;
  fr_typ : typ s' = typ s;
  fr_user_handler : user_handler s' = user_handler s;
  fr_user_timed : user_timed s' = user_timed s;
  fr_tlsnew_ok : tlsnew_ok s' = tlsnew_ok s;
  fr_cb_avail : cb_avail s' = cb_avail s;
  fr_sm_alloc : sm_alloc s' = sm_alloc s;
  fr_st : st s' = st s \/ st s' = Disconnected;
  fr_reset : reset_parser s = true -> reset_parser s' = true;
  fr_sendq : exists l, sendq s' = sendq s ++ l;
  fr_secured : secured s = true -> secured s' = true;
  fr_gh : GFr (gh s) (gh s')
}.
Lemma Fr_refl : forall s, Fr s s.
Proof. intros; constructor; auto using GFr_refl. exists []; symmetry; apply app_nil_r. Qed.
Lemma Fr_trans : forall a b c, Fr a b -> Fr b c -> Fr a c.
Proof.
  intros a b c [] []; constructor; try congruence; auto.
  - repeat match goal with H : _ \/ _ |- _ => destruct H end; try (left; congruence); right; congruence.
  - repeat match goal with H : exists _, _ |- _ => destruct H end.
    eexists. etransitivity; [eassumption|]. match goal with H : sendq b = _ |- _ => rewrite H end.
    rewrite <- app_assoc. reflexivity.
  - eauto using GFr_trans.
Qed.
Ltac Fr_prim := constructor; cbn; intros; auto using GFr_refl; try (exists []; symmetry; apply app_nil_r).
#[export] Hint Resolve Fr_refl : frdb.
Lemma Fr_set_tls_verdicts : forall v s0 s, Fr s0 s -> Fr s0 (set_tls_verdicts v s).
Proof. intros v s0 s H; apply (Fr_trans _ _ _ H); destruct s; Fr_prim. Qed.
#[export] Hint Resolve Fr_set_tls_verdicts : frdb.
Lemma Fr_set_next_cands : forall v s0 s, Fr s0 s -> Fr s0 (set_next_cands v s).
Proof. intros v s0 s H; apply (Fr_trans _ _ _ H); destruct s; Fr_prim. Qed.
#[export] Hint Resolve Fr_set_next_cands : frdb.
Lemma Fr_set_cands : forall v s0 s, Fr s0 s -> Fr s0 (set_cands v s).
Proof. intros v s0 s H; apply (Fr_trans _ _ _ H); destruct s; Fr_prim. Qed.
#[export] Hint Resolve Fr_set_cands : frdb.
Lemma Fr_set_cur_ep : forall v s0 s, Fr s0 s -> Fr s0 (set_cur_ep v s).
Proof. intros v s0 s H; apply (Fr_trans _ _ _ H); destruct s; Fr_prim. Qed.
#[export] Hint Resolve Fr_set_cur_ep : frdb.
Lemma Fr_set_stamp : forall v s0 s, Fr s0 s -> Fr s0 (set_stamp v s).
Proof. intros v s0 s H; apply (Fr_trans _ _ _ H); destruct s; Fr_prim. Qed.
#[export] Hint Resolve Fr_set_stamp : frdb.
Lemma Fr_set_err : forall v s0 s, Fr s0 s -> Fr s0 (set_err v s).
Proof. intros v s0 s H; apply (Fr_trans _ _ _ H); destruct s; Fr_prim. Qed.
#[export] Hint Resolve Fr_set_err : frdb.
Lemma Fr_set_stream_error : forall v s0 s, Fr s0 s -> Fr s0 (set_stream_error v s).
Proof. intros v s0 s H; apply (Fr_trans _ _ _ H); destruct s; Fr_prim. Qed.
#[export] Hint Resolve Fr_set_stream_error : frdb.
Lemma Fr_set_tls_present : forall v s0 s, Fr s0 s -> Fr s0 (set_tls_present v s).
Proof. intros v s0 s H; apply (Fr_trans _ _ _ H); destruct s; Fr_prim. Qed.
#[export] Hint Resolve Fr_set_tls_present : frdb.
Lemma Fr_set_tls_failed : forall v s0 s, Fr s0 s -> Fr s0 (set_tls_failed v s).
Proof. intros v s0 s H; apply (Fr_trans _ _ _ H); destruct s; Fr_prim. Qed.
#[export] Hint Resolve Fr_set_tls_failed : frdb.
Lemma Fr_set_tls_support : forall v s0 s, Fr s0 s -> Fr s0 (set_tls_support v s).
Proof. intros v s0 s H; apply (Fr_trans _ _ _ H); destruct s; Fr_prim. Qed.
#[export] Hint Resolve Fr_set_tls_support : frdb.
Lemma Fr_set_sasl : forall v s0 s, Fr s0 s -> Fr s0 (set_sasl v s).
Proof. intros v s0 s H; apply (Fr_trans _ _ _ H); destruct s; Fr_prim. Qed.
#[export] Hint Resolve Fr_set_sasl : frdb.
Lemma Fr_set_bind_required : forall v s0 s, Fr s0 s -> Fr s0 (set_bind_required v s).
Proof. intros v s0 s H; apply (Fr_trans _ _ _ H); destruct s; Fr_prim. Qed.
#[export] Hint Resolve Fr_set_bind_required : frdb.
Lemma Fr_set_session_required : forall v s0 s, Fr s0 s -> Fr s0 (set_session_required v s).
Proof. intros v s0 s H; apply (Fr_trans _ _ _ H); destruct s; Fr_prim. Qed.
#[export] Hint Resolve Fr_set_session_required : frdb.
Lemma Fr_set_comp_supported : forall v s0 s, Fr s0 s -> Fr s0 (set_comp_supported v s).
Proof. intros v s0 s H; apply (Fr_trans _ _ _ H); destruct s; Fr_prim. Qed.
#[export] Hint Resolve Fr_set_comp_supported : frdb.
Lemma Fr_set_comp_active : forall v s0 s, Fr s0 s -> Fr s0 (set_comp_active v s).
Proof. intros v s0 s H; apply (Fr_trans _ _ _ H); destruct s; Fr_prim. Qed.
#[export] Hint Resolve Fr_set_comp_active : frdb.
Lemma Fr_set_sm_support : forall v s0 s, Fr s0 s -> Fr s0 (set_sm_support v s).
Proof. intros v s0 s H; apply (Fr_trans _ _ _ H); destruct s; Fr_prim. Qed.
#[export] Hint Resolve Fr_set_sm_support : frdb.
Lemma Fr_set_sm_enabled : forall v s0 s, Fr s0 s -> Fr s0 (set_sm_enabled v s).
Proof. intros v s0 s H; apply (Fr_trans _ _ _ H); destruct s; Fr_prim. Qed.
#[export] Hint Resolve Fr_set_sm_enabled : frdb.
Lemma Fr_set_sm_can_resume : forall v s0 s, Fr s0 s -> Fr s0 (set_sm_can_resume v s).
Proof. intros v s0 s H; apply (Fr_trans _ _ _ H); destruct s; Fr_prim. Qed.
#[export] Hint Resolve Fr_set_sm_can_resume : frdb.
Lemma Fr_set_sm_resume : forall v s0 s, Fr s0 s -> Fr s0 (set_sm_resume v s).
Proof. intros v s0 s H; apply (Fr_trans _ _ _ H); destruct s; Fr_prim. Qed.
#[export] Hint Resolve Fr_set_sm_resume : frdb.
Lemma Fr_set_sm_dont_request : forall v s0 s, Fr s0 s -> Fr s0 (set_sm_dont_request v s).
Proof. intros v s0 s H; apply (Fr_trans _ _ _ H); destruct s; Fr_prim. Qed.
#[export] Hint Resolve Fr_set_sm_dont_request : frdb.
Lemma Fr_set_sm_has_previd : forall v s0 s, Fr s0 s -> Fr s0 (set_sm_has_previd v s).
Proof. intros v s0 s H; apply (Fr_trans _ _ _ H); destruct s; Fr_prim. Qed.
#[export] Hint Resolve Fr_set_sm_has_previd : frdb.
Lemma Fr_set_sm_has_id : forall v s0 s, Fr s0 s -> Fr s0 (set_sm_has_id v s).
Proof. intros v s0 s H; apply (Fr_trans _ _ _ H); destruct s; Fr_prim. Qed.
#[export] Hint Resolve Fr_set_sm_has_id : frdb.
Lemma Fr_set_sm_parked : forall v s0 s, Fr s0 s -> Fr s0 (set_sm_parked v s).
Proof. intros v s0 s H; apply (Fr_trans _ _ _ H); destruct s; Fr_prim. Qed.
#[export] Hint Resolve Fr_set_sm_parked : frdb.
Lemma Fr_set_sm_r_sent : forall v s0 s, Fr s0 s -> Fr s0 (set_sm_r_sent v s).
Proof. intros v s0 s H; apply (Fr_trans _ _ _ H); destruct s; Fr_prim. Qed.
#[export] Hint Resolve Fr_set_sm_r_sent : frdb.
Lemma Fr_set_sm_bind_saved : forall v s0 s, Fr s0 s -> Fr s0 (set_sm_bind_saved v s).
Proof. intros v s0 s H; apply (Fr_trans _ _ _ H); destruct s; Fr_prim. Qed.
#[export] Hint Resolve Fr_set_sm_bind_saved : frdb.
Lemma Fr_set_bound_jid : forall v s0 s, Fr s0 s -> Fr s0 (set_bound_jid v s).
Proof. intros v s0 s H; apply (Fr_trans _ _ _ H); destruct s; Fr_prim. Qed.
#[export] Hint Resolve Fr_set_bound_jid : frdb.
Lemma Fr_set_stream_id : forall v s0 s, Fr s0 s -> Fr s0 (set_stream_id v s).
Proof. intros v s0 s H; apply (Fr_trans _ _ _ H); destruct s; Fr_prim. Qed.
#[export] Hint Resolve Fr_set_stream_id : frdb.
Lemma Fr_set_neg_done : forall v s0 s, Fr s0 s -> Fr s0 (set_neg_done v s).
Proof. intros v s0 s H; apply (Fr_trans _ _ _ H); destruct s; Fr_prim. Qed.
#[export] Hint Resolve Fr_set_neg_done : frdb.
Lemma Fr_set_oh : forall v s0 s, Fr s0 s -> Fr s0 (set_oh v s).
Proof. intros v s0 s H; apply (Fr_trans _ _ _ H); destruct s; Fr_prim. Qed.
#[export] Hint Resolve Fr_set_oh : frdb.
Lemma Fr_set_ps : forall v s0 s, Fr s0 s -> Fr s0 (set_ps v s).
Proof. intros v s0 s H; apply (Fr_trans _ _ _ H); destruct s; Fr_prim. Qed.
#[export] Hint Resolve Fr_set_ps : frdb.
Lemma Fr_set_handlers : forall v s0 s, Fr s0 s -> Fr s0 (set_handlers v s).
Proof. intros v s0 s H; apply (Fr_trans _ _ _ H); destruct s; Fr_prim. Qed.
#[export] Hint Resolve Fr_set_handlers : frdb.
Lemma Fr_set_idhandlers : forall v s0 s, Fr s0 s -> Fr s0 (set_idhandlers v s).
Proof. intros v s0 s H; apply (Fr_trans _ _ _ H); destruct s; Fr_prim. Qed.
#[export] Hint Resolve Fr_set_idhandlers : frdb.
Lemma Fr_set_timed : forall v s0 s, Fr s0 s -> Fr s0 (set_timed v s).
Proof. intros v s0 s H; apply (Fr_trans _ _ _ H); destruct s; Fr_prim. Qed.
#[export] Hint Resolve Fr_set_timed : frdb.
Lemma Fr_set_rxq : forall v s0 s, Fr s0 s -> Fr s0 (set_rxq v s).
Proof. intros v s0 s H; apply (Fr_trans _ _ _ H); destruct s; Fr_prim. Qed.
#[export] Hint Resolve Fr_set_rxq : frdb.
Lemma Fr_set_smq : forall v s0 s, Fr s0 s -> Fr s0 (set_smq v s).
Proof. intros v s0 s H; apply (Fr_trans _ _ _ H); destruct s; Fr_prim. Qed.
#[export] Hint Resolve Fr_set_smq : frdb.
Lemma Fr_set_sm_sent : forall v s0 s, Fr s0 s -> Fr s0 (set_sm_sent v s).
Proof. intros v s0 s H; apply (Fr_trans _ _ _ H); destruct s; Fr_prim. Qed.
#[export] Hint Resolve Fr_set_sm_sent : frdb.
Lemma Fr_set_scram_serial : forall v s0 s, Fr s0 s -> Fr s0 (set_scram_serial v s).
Proof. intros v s0 s H; apply (Fr_trans _ _ _ H); destruct s; Fr_prim. Qed.
#[export] Hint Resolve Fr_set_scram_serial : frdb.
Lemma Fr_set_crashed : forall v s0 s, Fr s0 s -> Fr s0 (set_crashed v s).
Proof. intros v s0 s H; apply (Fr_trans _ _ _ H); destruct s; Fr_prim. Qed.
#[export] Hint Resolve Fr_set_crashed : frdb.

(* ------------------------------------------------------------------ non-benign primitives *)
Lemma Fr_set_sendq_app : forall l s0 s, Fr s0 s -> Fr s0 (set_sendq (sendq s ++ l) s).
Proof. intros l s0 s H; apply (Fr_trans _ _ _ H); destruct s; Fr_prim. eexists; reflexivity. Qed.
Lemma Fr_set_st_disc : forall s0 s, Fr s0 s -> Fr s0 (set_st Disconnected s).
Proof. intros s0 s H; apply (Fr_trans _ _ _ H); destruct s; Fr_prim. Qed.
Lemma Fr_set_reset_true : forall s0 s, Fr s0 s -> Fr s0 (set_reset_parser true s).
Proof. intros s0 s H; apply (Fr_trans _ _ _ H); destruct s; Fr_prim. Qed.
Lemma Fr_set_secured_true : forall s0 s, Fr s0 s -> Fr s0 (set_secured true s).
Proof. intros s0 s H; apply (Fr_trans _ _ _ H); destruct s; Fr_prim. Qed.
Lemma Fr_set_gh : forall g s0 s, GFr (gh s) g -> Fr s0 s -> Fr s0 (set_gh g s).
Proof. intros g s0 s Hg H; apply (Fr_trans _ _ _ H); destruct s; cbn in Hg; Fr_prim. Qed.
Lemma Fr_upg : forall f s0 s, GFr (gh s) (f (gh s)) -> Fr s0 s -> Fr s0 (upg f s).
Proof. intros; unfold upg; apply Fr_set_gh; auto. Qed.
#[export] Hint Resolve Fr_set_sendq_app Fr_set_st_disc Fr_set_reset_true Fr_set_secured_true Fr_upg : frdb.

Ltac fr := intros; cases; eauto 30 with frdb.
Ltac frR := intros; name_result; cases; leaf; eauto 30 with frdb.

Lemma Fr_set_sendq_app' : forall l s0 s s1, sendq s1 = sendq s -> Fr s0 s -> Fr s0 (set_sendq (sendq s1 ++ l) s).
Proof. intros l s0 s s1 E H; rewrite E; apply Fr_set_sendq_app; auto. Qed.
Lemma Fr_q_append : forall w u o s0 s, Fr s0 s -> Fr s0 (q_append w u o s).
Proof.
  intros w u o s0 s H. unfold q_append. cbv zeta.
  match goal with |- context [if ?c then _ else _] => destruct c end.
  - eapply Fr_set_sendq_app'; [reflexivity|]. eauto with frdb.
  - eauto with frdb.
Qed.
#[export] Hint Resolve Fr_q_append : frdb.
Lemma Fr_send_gated : forall w u o s0 s, Fr s0 s -> Fr s0 (send_gated w u o s).
Proof. unfold send_gated; fr. Qed.
Lemma Fr_send_raw_m : forall w u o s0 s, Fr s0 s -> Fr s0 (send_raw_m w u o s).
Proof. unfold send_raw_m; fr. Qed.
#[export] Hint Resolve Fr_send_gated Fr_send_raw_m : frdb.
Lemma Fr_timed_add : forall k n s0 s, Fr s0 s -> Fr s0 (timed_add k n s).
Proof. unfold timed_add; fr. Qed.
Lemma Fr_timed_del : forall k s0 s, Fr s0 s -> Fr s0 (timed_del k s).
Proof. unfold timed_del; fr. Qed.
Lemma Fr_timed_reset_all : forall n s0 s, Fr s0 s -> Fr s0 (timed_reset_all n s).
Proof. unfold timed_reset_all; fr. Qed.
Lemma Fr_timed_set_stamp : forall k n s0 s, Fr s0 s -> Fr s0 (timed_set_stamp k n s).
Proof. unfold timed_set_stamp; fr. Qed.
Lemma Fr_h_add : forall k s0 s, Fr s0 s -> Fr s0 (h_add k s).
Proof. unfold h_add; fr. Qed.
Lemma Fr_h_del : forall k s0 s, Fr s0 s -> Fr s0 (h_del k s).
Proof. unfold h_del; fr. Qed.
Lemma Fr_id_add : forall k s0 s, Fr s0 s -> Fr s0 (id_add k s).
Proof. unfold id_add; fr. Qed.
Lemma Fr_id_del : forall k s0 s, Fr s0 s -> Fr s0 (id_del k s).
Proof. unfold id_del; fr. Qed.
#[export] Hint Resolve Fr_timed_add Fr_timed_del Fr_timed_reset_all Fr_timed_set_stamp Fr_h_add Fr_h_del Fr_id_add Fr_id_del : frdb.
Lemma Fr_reset_sm_for_reconnect : forall s0 s, Fr s0 s -> Fr s0 (reset_sm_for_reconnect s).
Proof. unfold reset_sm_for_reconnect; fr. Qed.
Lemma Fr_sm_queue_cleanup : forall h s0 s, Fr s0 s -> Fr s0 (sm_queue_cleanup h s).
Proof. unfold sm_queue_cleanup; fr. Qed.
#[export] Hint Resolve Fr_reset_sm_for_reconnect Fr_sm_queue_cleanup : frdb.
Lemma Fr_sm_queue_resend : forall s0 s, Fr s0 s -> Fr s0 (sm_queue_resend s).
Proof.
  intros; unfold sm_queue_resend. apply fold_left_inv; eauto with frdb.
Qed.
#[export] Hint Resolve Fr_sm_queue_resend : frdb.
Lemma Fr_conn_disconnect : forall s0 s, Fr s0 s -> Fr s0 (fst (conn_disconnect s)).
Proof. unfold conn_disconnect, ret; frR. Qed.
#[export] Hint Resolve Fr_conn_disconnect : frdb.
Lemma Fr_xmpp_disconnect : forall n s0 s, Fr s0 s -> Fr s0 (xmpp_disconnect n s).
Proof. unfold xmpp_disconnect; fr. Qed.
Lemma Fr_prepare_reset : forall h s0 s, Fr s0 s -> Fr s0 (prepare_reset h s).
Proof. unfold prepare_reset; fr. Qed.
Lemma Fr_conn_open_stream : forall s0 s, Fr s0 s -> Fr s0 (conn_open_stream s).
Proof. unfold conn_open_stream; fr. Qed.
#[export] Hint Resolve Fr_xmpp_disconnect Fr_prepare_reset Fr_conn_open_stream : frdb.
Lemma Fr_conn_tls_start : forall s0 s, Fr s0 s -> Fr s0 (fst (fst (conn_tls_start s))).
Proof. unfold conn_tls_start; frR. Qed.
Lemma Fr_stream_negotiation_success : forall s0 s, Fr s0 s -> Fr s0 (fst (stream_negotiation_success s)).
Proof. unfold stream_negotiation_success, ret; frR. Qed.
#[export] Hint Resolve Fr_conn_tls_start Fr_stream_negotiation_success : frdb.
Lemma Fr_do_bind : forall n b s0 s, Fr s0 s -> Fr s0 (fst (do_bind n b s)).
Proof. unfold do_bind, ret; frR. Qed.
Lemma Fr_session_start : forall n s0 s, Fr s0 s -> Fr s0 (session_start n s).
Proof. unfold session_start; fr. Qed.
Lemma Fr_sm_enable : forall s0 s, Fr s0 s -> Fr s0 (sm_enable s).
Proof. unfold sm_enable; fr. Qed.
Lemma Fr_auth_legacy : forall n s0 s, Fr s0 s -> Fr s0 (auth_legacy n s).
Proof. unfold auth_legacy; fr. Qed.
#[export] Hint Resolve Fr_do_bind Fr_session_start Fr_sm_enable Fr_auth_legacy : frdb.
Lemma Fr_auth : forall fuel n s0 s, Fr s0 s -> Fr s0 (fst (auth fuel n s)).
Proof. induction fuel; intros; name_result; cbn [auth]; unfold ret; cases; leaf; eauto 30 with frdb. Qed.
#[export] Hint Resolve Fr_auth : frdb.
Lemma Fr_sasl_result : forall n e s0 s, Fr s0 s -> Fr s0 (fst (sasl_result n e s)).
Proof. unfold sasl_result, ret; frR. Qed.
Lemma Fr_features_sasl : forall n e s0 s, Fr s0 s -> Fr s0 (fst (features_sasl n e s)).
Proof. unfold features_sasl, ret; frR. Qed.
#[export] Hint Resolve Fr_sasl_result Fr_features_sasl : frdb.
Lemma Fr_call_handler : forall k n e s0 s, Fr s0 s -> Fr s0 (fst (fst (call_handler k n e s))).
Proof. intros k; destruct k; intros; name_result; unfold call_handler, ret; cases; leaf; eauto 30 with frdb. Qed.
Lemma Fr_call_id_handler : forall k n e s0 s, Fr s0 s -> Fr s0 (fst (call_id_handler k n e s)).
Proof. intros k; destruct k; intros; name_result; unfold call_id_handler, ret; cases; leaf; eauto 30 with frdb. Qed.
#[export] Hint Resolve Fr_call_handler Fr_call_id_handler : frdb.
Lemma mem_mech_app : forall m l l', mem_mech m (l ++ l') = mem_mech m l || mem_mech m l'.
Proof. intros; unfold mem_mech; apply existsb_app. Qed.

(* monotone ghost setters *)
Lemma GFr_set_true_auth_ok : forall g0 g, GFr g0 g -> GFr g0 (set_g_auth_ok true g).
Proof. intros g0 g H; apply (GFr_trans _ _ _ H); destruct g; GFr_prim. Qed.
Lemma GFr_set_true_bound : forall g0 g, GFr g0 g -> GFr g0 (set_g_bound true g).
Proof. intros g0 g H; apply (GFr_trans _ _ _ H); destruct g; GFr_prim. Qed.
Lemma GFr_set_true_legacy_ok : forall g0 g, GFr g0 g -> GFr g0 (set_g_legacy_ok true g).
Proof. intros g0 g H; apply (GFr_trans _ _ _ H); destruct g; GFr_prim. Qed.
Lemma GFr_set_true_resumed : forall g0 g, GFr g0 g -> GFr g0 (set_g_resumed true g).
Proof. intros g0 g H; apply (GFr_trans _ _ _ H); destruct g; GFr_prim. Qed.
Lemma GFr_set_true_hs_ok : forall g0 g, GFr g0 g -> GFr g0 (set_g_hs_ok true g).
Proof. intros g0 g H; apply (GFr_trans _ _ _ H); destruct g; GFr_prim. Qed.
Lemma GFr_set_or_raw_open : forall b g0 g, GFr g0 g -> GFr g0 (set_g_raw_open (b || g_raw_open g) g).
Proof. intros b g0 g H; apply (GFr_trans _ _ _ H); destruct g; GFr_prim. subst; apply orb_true_r. Qed.
#[export] Hint Resolve GFr_set_true_auth_ok GFr_set_true_bound GFr_set_true_legacy_ok GFr_set_true_resumed
  GFr_set_true_hs_ok GFr_set_or_raw_open : frdb.
Lemma GFr_offers : forall g a l b c d f,
  GFr g (set_g_offer_tls (g_offer_tls g || a) (set_g_offered (g_offered g ++ l)
        (set_g_offer_zlib (g_offer_zlib g || b) (set_g_offer_bind (g_offer_bind g || c)
        (set_g_offer_session (g_offer_session g || d) (set_g_offer_sm (g_offer_sm g || f) g)))))).
Proof.
  intros; destruct g; constructor; cbn; intros; subst; auto.
  fold (mem_mech m (g_offered ++ l)). rewrite mem_mech_app. unfold mem_mech. rewrite H. reflexivity.
Qed.

Ltac gstage :=
  match goal with
  | |- GFr ?g0 (if ?c then _ else ?B) =>
      let H := fresh in
      assert (H : GFr g0 B); [ | revert H; generalize B; intros; destruct c; eauto with frdb ]
  end.

Lemma GFr_note_rx : forall e s, GFr (gh s) (gh (note_rx e s)).
Proof.
  intros e s. unfold note_rx. cbv zeta. sproj. generalize (gh s). intros g.
  do 3 gstage.
  match goal with |- GFr ?g0 ?T => match T with context [set_g_bound true ?B] =>
    let H := fresh in assert (H : GFr g0 B);
    [ | revert H; generalize B; intros; destruct (e_id e); destruct (e_type e); cases; eauto with frdb ] end end.
  gstage.
  cases; eauto using GFr_offers, GFr_trans with frdb.
Qed.
Lemma Fr_note_rx : forall e s0 s, Fr s0 s -> Fr s0 (note_rx e s).
Proof.
  intros e s0 s H. pose proof (GFr_note_rx e s) as G.
  unfold note_rx in *. cbv zeta in *. sproj_in G. apply Fr_set_gh; assumption.
Qed.
#[export] Hint Resolve Fr_note_rx : frdb.

Lemma Fr_fold_visit : forall (f : R -> hkind -> R) l,
  (forall s0 r k, Fr s0 (fst r) -> Fr s0 (fst (f r k))) ->
  forall s0 r, Fr s0 (fst r) -> Fr s0 (fst (fold_left f l r)).
Proof. intros f l Hf s0. apply (fold_left_inv (fun r => Fr s0 (fst r))). intros; auto. Qed.

Lemma Fr_visit : forall n e s0 r k, Fr s0 (fst r) -> Fr s0 (fst (visit n e r k)).
Proof.
  intros n e s0 [s o] k H. cbn [fst] in H. name_result. unfold visit. cases; leaf; eauto 30 with frdb.
Qed.
Lemma Fr_sm_handle : forall e s0 s, Fr s0 s -> Fr s0 (sm_handle e s).
Proof. unfold sm_handle; fr. Qed.
#[export] Hint Resolve Fr_visit Fr_sm_handle : frdb.

Lemma Fr_fst_pair : forall s0 (a : state) (b : emit), Fr s0 a -> Fr s0 (fst (a, b)).
Proof. intros; assumption. Qed.
Lemma Fr_fold_visit_fst : forall n e l s0 r, Fr s0 (fst r) -> Fr s0 (fst (fold_left (visit n e) l r)).
Proof. intros; apply Fr_fold_visit; auto using Fr_visit. Qed.
#[export] Hint Resolve Fr_fst_pair Fr_fold_visit_fst : frdb.
Lemma Fr_dispatch : forall n e s0 s, Fr s0 s -> Fr s0 (fst (dispatch n e s)).
Proof.
  intros. name_result. unfold dispatch, ret. cases; leaf; eauto 30 with frdb.
Qed.
#[export] Hint Resolve Fr_dispatch : frdb.
Lemma Fr_open_handler : forall n s0 s, Fr s0 s -> Fr s0 (fst (open_handler n s)).
Proof. unfold open_handler, ret; frR. Qed.
#[export] Hint Resolve Fr_open_handler : frdb.
Lemma GFr_stream_start_upd : forall b g,
  GFr g ((fun g : ghost => set_g_raw_open (b || g_raw_open g) (set_g_feat_seen false g)) g).
Proof. intros b g; destruct g; GFr_prim. subst; apply orb_true_r. Qed.
#[export] Hint Resolve GFr_stream_start_upd : frdb.
Lemma Fr_stream_start : forall n a b s0 s, Fr s0 s -> Fr s0 (fst (stream_start n a b s)).
Proof. unfold stream_start; frR. Qed.
Lemma Fr_stream_end : forall s0 s, Fr s0 s -> Fr s0 (fst (stream_end s)).
Proof. unfold stream_end; frR. Qed.
#[export] Hint Resolve Fr_stream_start Fr_stream_end : frdb.
Lemma Fr_feed_item : forall n it s0 s, Fr s0 s -> Fr s0 (fst (fst (feed_item n it s))).
Proof. unfold feed_item; frR. Qed.
#[export] Hint Resolve Fr_feed_item : frdb.
Lemma Fr_feed_items : forall n its s0 s, Fr s0 s -> Fr s0 (fst (fst (feed_items n its s))).
Proof. induction its; intros; name_result; cbn [feed_items]; cases; leaf; eauto 30 with frdb. Qed.
#[export] Hint Resolve Fr_feed_items : frdb.
Lemma Fr_call_timed : forall k n s0 s, Fr s0 s -> Fr s0 (fst (fst (call_timed k n s))).
Proof. intros k; destruct k; intros; name_result; unfold call_timed; cases; leaf; eauto 30 with frdb. Qed.
#[export] Hint Resolve Fr_call_timed : frdb.
Lemma Fr_visit_timed : forall n s0 r k, Fr s0 (fst r) -> Fr s0 (fst (visit_timed n r k)).
Proof.
  intros n s0 [s o] k H. cbn [fst] in H. name_result. unfold visit_timed. cases; leaf; eauto 30 with frdb.
Qed.
Lemma Fr_fold_visit_timed : forall n l s0 r, Fr s0 (fst r) -> Fr s0 (fst (fold_left (visit_timed n) l r)).
Proof. intros n l s0. apply (fold_left_inv (fun r => Fr s0 (fst r))). intros; apply Fr_visit_timed; auto. Qed.
#[export] Hint Resolve Fr_visit_timed Fr_fold_visit_timed : frdb.
Lemma Fr_fire_timed : forall n s0 s, Fr s0 s -> Fr s0 (fst (fire_timed n s)).
Proof. unfold fire_timed, ret; frR. Qed.
Lemma Fr_connect_next : forall n s0 s, Fr s0 s -> Fr s0 (fst (fst (connect_next n s))).
Proof. unfold connect_next; frR. Qed.
#[export] Hint Resolve Fr_fire_timed Fr_connect_next : frdb.
Lemma Fr_conn_established : forall n s0 s, Fr s0 s -> Fr s0 (fst (conn_established n s)).
Proof. unfold conn_established; frR. Qed.
#[export] Hint Resolve Fr_conn_established : frdb.

(* ================================================================== the phases of run_once *)
Definition ph_pre (rd0 : rdev) (s0 : state) : state :=
  match rd0, st s0 with
  | RdNone, _ => s0
  | _, Disconnected => s0
  | _, _ => set_rxq (rxq s0 ++ [rd0]) s0
  end.
Definition ph_reset (s1 : state) : state :=
  if reset_parser s1 then set_ps PDepth0 (set_reset_parser false s1) else s1.
Definition ph_watch (now : Z) (s3 : state) : R :=
  match st s3 with
  | Connecting =>
      if now - stamp s3 <=? CONNECT_TIMEOUT then ret s3
      else let '(s', o', ok) := connect_next now s3 in
           if ok then (s', o')
           else
             let s'' := set_neg_done false (set_st Disconnected (set_err ETIMEDOUT s')) in
             (reset_sm_for_reconnect s'', o' ++ [ODisconnect ETIMEDOUT (stream_error s'')])
  | _ => ret s3
  end.
Definition ph_ready (s4 : state) : bool :=
  match st s4 with
  | Connecting => match cur_ep s4 with EpHang => false | _ => true end
  | Connected => (match rxq s4 with [] => false | _ => true end) || negb (Nat.eqb (List.length (sendq s4)) 0)
  | Disconnected => false
  end.
Definition ph_io (now : Z) (s4 : state) : R :=
  match st s4 with
  | Connecting =>
      match cur_ep s4 with
      | EpAccept => conn_established now (set_st Connected s4)
      | EpLate =>
          let '(s', o', ok) := connect_next now s4 in
          if ok then (s', o')
          else let s'' := set_neg_done false (set_st Disconnected (set_err (-1) s')) in
               (reset_sm_for_reconnect s'', o' ++ [ODisconnect (-1) (stream_error s'')])
      | _ => ret s4
      end
  | Connected =>
      let rd := match rxq s4 with [] => RdNone | x :: _ => x end in
      let s4 := set_rxq (tl (rxq s4)) s4 in
      match rd with
      | RdNone => ret s4
      | RdChunk its =>
          let '(s', o', bad) := feed_items now its s4 in
          if bad then (send_gated WStreamErr false false s', o') else (s', o')
      | RdClose =>
          if tls_present s4 then conn_disconnect (set_err ECONNRESET s4)
          else conn_disconnect (set_err ECONNRESET s4)
      | RdReset => conn_disconnect (set_err ECONNRESET s4)
      end
  | Disconnected => ret s4
  end.

Lemma run_once_eq : forall now rd0 s0, run_once now rd0 s0 =
  if crashed s0 then ret s0 else
  let s := ph_pre rd0 s0 in
  let '(s1, o1) := send_phase s in
  if crashed s1 then (s1, o1) else
  let s2 := ph_reset s1 in
  let '(s3, o3) := fire_timed now s2 in
  if crashed s3 then (s3, o1 ++ o3) else
  let '(s4, o4) := ph_watch now s3 in
  if negb (ph_ready s4) then (s4, o1 ++ o3 ++ o4 ++ [OIter]) else
  let '(s5, o5) := ph_io now s4 in
  if crashed s5 then (s5, o1 ++ o3 ++ o4 ++ o5) else
  let '(s6, o6) := fire_timed now s5 in
  (s6, o1 ++ o3 ++ o4 ++ o5 ++ o6 ++ [OIter]).
Proof. reflexivity. Qed.

Lemma run_once_ind : forall (P1 P2 P3 P4 P5 P6 Rr : state -> list out -> Prop) n rd s0,
  (crashed s0 = true -> Rr s0 []) ->
  (crashed s0 = false -> P1 (fst (send_phase (ph_pre rd s0))) (snd (send_phase (ph_pre rd s0)))) ->
  (forall s o, P1 s o -> Rr s o) ->
  (forall s o, P1 s o -> P2 (ph_reset s) o) ->
  (forall s o, P2 s o -> P3 (fst (fire_timed n s)) (o ++ snd (fire_timed n s))) ->
  (forall s o, P3 s o -> Rr s o) ->
  (forall s o, P3 s o -> P4 (fst (ph_watch n s)) (o ++ snd (ph_watch n s))) ->
  (forall s o, P4 s o -> Rr s (o ++ [OIter])) ->
  (forall s o, P4 s o -> P5 (fst (ph_io n s)) (o ++ snd (ph_io n s))) ->
  (forall s o, P5 s o -> Rr s o) ->
  (forall s o, P5 s o -> P6 (fst (fire_timed n s)) (o ++ snd (fire_timed n s))) ->
  (forall s o, P6 s o -> Rr s (o ++ [OIter])) ->
  Rr (fst (run_once n rd s0)) (snd (run_once n rd s0)).
Proof.
  intros P1 P2 P3 P4 P5 P6 Rr n rd s0 Hc H1 H1r H2 H3 H3r H4 H4r H5 H5r H6 H6r.
  rewrite run_once_eq. destruct (crashed s0) eqn:C; [exact (Hc eq_refl)|]. specialize (H1 eq_refl). cbv zeta.
  destruct (send_phase (ph_pre rd s0)) as [s1 o1]. cbn [fst snd] in H1.
  destruct (crashed s1); [apply H1r; exact H1|].
  pose proof (H3 _ _ (H2 _ _ H1)) as K3. destruct (fire_timed n (ph_reset s1)) as [s3 o3]. cbn [fst snd] in *.
  destruct (crashed s3); [apply H3r; exact K3|].
  pose proof (H4 _ _ K3) as K4. destruct (ph_watch n s3) as [s4 o4]. cbn [fst snd] in *.
  destruct (negb (ph_ready s4)).
  { replace (o1 ++ o3 ++ o4 ++ [OIter]) with (((o1 ++ o3) ++ o4) ++ [OIter]) by (rewrite <- !app_assoc; reflexivity).
    apply H4r; exact K4. }
  pose proof (H5 _ _ K4) as K5. destruct (ph_io n s4) as [s5 o5]. cbn [fst snd] in *.
  destruct (crashed s5).
  { replace (o1 ++ o3 ++ o4 ++ o5) with (((o1 ++ o3) ++ o4) ++ o5) by (rewrite <- !app_assoc; reflexivity).
    apply H5r; exact K5. }
  pose proof (H6 _ _ K5) as K6. destruct (fire_timed n s5) as [s6 o6]. cbn [fst snd] in *.
  replace (o1 ++ o3 ++ o4 ++ o5 ++ o6 ++ [OIter]) with (((((o1 ++ o3) ++ o4) ++ o5) ++ o6) ++ [OIter])
    by (rewrite <- !app_assoc; reflexivity).
  apply H6r; exact K6.
Qed.


(* step-level helpers *)
Lemma step_eq : forall s o, step s o = (note_outs (snd (step0 s o)) (fst (step0 s o)), snd (step0 s o)).
Proof. intros; unfold step; destruct (step0 s o); reflexivity. Qed.
Lemma check_run_inv : forall (ok : state -> op -> state -> list out -> bool) (Inv : state -> Prop),
  (forall s o, Inv s -> Inv (fst (step s o))) ->
  (forall s o, Inv s -> ok s o (fst (step s o)) (snd (step s o)) = true) ->
  forall ops s, Inv s -> check_run ok s ops = true.
Proof.
  intros ok Inv Hp Ho. induction ops as [|o r IH]; intros s Hs; cbn [check_run]; auto.
  specialize (Hp s o Hs). specialize (Ho s o Hs). destruct (step s o) as [s' outs]. cbn [fst snd] in *.
  rewrite Ho. cbn. auto.
Qed.

(* ================================================================== negotiation "tokens" *)
(* The negotiation handlers form a token game: at rest at most one of them (or a pending client
   stream restart) is present.  marks counts them; Bd is the relation satisfied by the code that
   runs inside one handler / id handler / timed handler / open handler. *)
Definition b2n (b : bool) : nat := if b then 1%nat else 0%nat.
Definition is_main (k : hkind) : bool := match k with HUser | HError | HComponentHs => false | _ => true end.
Definition is_main_id (k : idk) : bool := match k with IKBind | IKSession => true | IKLegacy | IKUser => false end.
Definition client_oh (h : openh) : bool := match h with OpenAuth | OpenTls | OpenSasl | OpenCompress => true | _ => false end.
Definition is_depth0 (p : pstate) : bool := match p with PDepth0 => true | _ => false end.
Definition hmarks (s : state) : nat := List.length (filter (fun x => is_main (fst x)) (handlers s)).
Definition imarks (s : state) : nat := List.length (filter (fun x => is_main_id (fst x)) (idhandlers s)).
Definition pending (s : state) : nat := b2n (client_oh (oh s) && (reset_parser s || is_depth0 (ps s))).
Definition marks (s : state) : nat := (hmarks s + imarks s + pending s)%nat.

Record Bd (d : nat) (s0 s : state) : Prop := mkBd {
  bd_marks : (marks s <= marks s0 + d)%nat;
  bd_h : exists l, handlers s = handlers s0 ++ l;
  bd_i : exists l, idhandlers s = idhandlers s0 ++ l;
  bd_ps : ps s = ps s0
}.
Lemma Bd_refl : forall s, Bd 0 s s.
Proof. intros; constructor; auto; try lia; exists []; symmetry; apply app_nil_r. Qed.
Lemma Bd_weaken : forall d d' s0 s, Bd d s0 s -> (d <= d')%nat -> Bd d' s0 s.
Proof. intros d d' s0 s [] L; constructor; auto; lia. Qed.
Lemma Bd_trans : forall d1 d2 a b c, Bd d1 a b -> Bd d2 b c -> Bd (d2 + d1) a c.
Proof.
  intros d1 d2 a b c [] []; constructor; try lia; try congruence.
  - destruct bd_h0 as [l1 E1], bd_h1 as [l2 E2]. exists (l1 ++ l2). rewrite E2, E1, app_assoc. reflexivity.
  - destruct bd_i0 as [l1 E1], bd_i1 as [l2 E2]. exists (l1 ++ l2). rewrite E2, E1, app_assoc. reflexivity.
Qed.
(* a step that leaves handlers, idhandlers, oh, reset_parser and ps alone *)
Lemma Bd_same : forall d s0 s s', Bd d s0 s ->
  handlers s' = handlers s -> idhandlers s' = idhandlers s -> oh s' = oh s -> reset_parser s' = reset_parser s -> ps s' = ps s ->
  Bd d s0 s'.
Proof.
  intros d s0 s s' [] A B C D E. constructor.
  - unfold marks, hmarks, imarks, pending in *. rewrite A, B, C, D, E. assumption.
  - rewrite A. assumption.
  - rewrite B. assumption.
  - congruence.
Qed.
Lemma Bd_set_f_tls_disabled : forall v d s0 s, Bd d s0 s -> Bd d s0 (set_f_tls_disabled v s).
Proof. intros v d s0 s H; apply (Bd_same _ _ _ _ H); destruct s; reflexivity. Qed.
#[export] Hint Resolve Bd_set_f_tls_disabled : bddb.
Lemma Bd_set_f_tls_mandatory : forall v d s0 s, Bd d s0 s -> Bd d s0 (set_f_tls_mandatory v s).
Proof. intros v d s0 s H; apply (Bd_same _ _ _ _ H); destruct s; reflexivity. Qed.
#[export] Hint Resolve Bd_set_f_tls_mandatory : bddb.
Lemma Bd_set_f_legacy_ssl : forall v d s0 s, Bd d s0 s -> Bd d s0 (set_f_legacy_ssl v s).
Proof. intros v d s0 s H; apply (Bd_same _ _ _ _ H); destruct s; reflexivity. Qed.
#[export] Hint Resolve Bd_set_f_legacy_ssl : bddb.
Lemma Bd_set_f_tls_trust : forall v d s0 s, Bd d s0 s -> Bd d s0 (set_f_tls_trust v s).
Proof. intros v d s0 s H; apply (Bd_same _ _ _ _ H); destruct s; reflexivity. Qed.
#[export] Hint Resolve Bd_set_f_tls_trust : bddb.
Lemma Bd_set_f_legacy_auth : forall v d s0 s, Bd d s0 s -> Bd d s0 (set_f_legacy_auth v s).
Proof. intros v d s0 s H; apply (Bd_same _ _ _ _ H); destruct s; reflexivity. Qed.
#[export] Hint Resolve Bd_set_f_legacy_auth : bddb.
Lemma Bd_set_f_sm_disable : forall v d s0 s, Bd d s0 s -> Bd d s0 (set_f_sm_disable v s).
Proof. intros v d s0 s H; apply (Bd_same _ _ _ _ H); destruct s; reflexivity. Qed.
#[export] Hint Resolve Bd_set_f_sm_disable : bddb.
Lemma Bd_set_f_comp_allowed : forall v d s0 s, Bd d s0 s -> Bd d s0 (set_f_comp_allowed v s).
Proof. intros v d s0 s H; apply (Bd_same _ _ _ _ H); destruct s; reflexivity. Qed.
#[export] Hint Resolve Bd_set_f_comp_allowed : bddb.
Lemma Bd_set_f_comp_dont_reset : forall v d s0 s, Bd d s0 s -> Bd d s0 (set_f_comp_dont_reset v s).
Proof. intros v d s0 s H; apply (Bd_same _ _ _ _ H); destruct s; reflexivity. Qed.
#[export] Hint Resolve Bd_set_f_comp_dont_reset : bddb.
Lemma Bd_set_jid_set : forall v d s0 s, Bd d s0 s -> Bd d s0 (set_jid_set v s).
Proof. intros v d s0 s H; apply (Bd_same _ _ _ _ H); destruct s; reflexivity. Qed.
#[export] Hint Resolve Bd_set_jid_set : bddb.
Lemma Bd_set_jid_node : forall v d s0 s, Bd d s0 s -> Bd d s0 (set_jid_node v s).
Proof. intros v d s0 s H; apply (Bd_same _ _ _ _ H); destruct s; reflexivity. Qed.
#[export] Hint Resolve Bd_set_jid_node : bddb.
Lemma Bd_set_jid_res : forall v d s0 s, Bd d s0 s -> Bd d s0 (set_jid_res v s).
Proof. intros v d s0 s H; apply (Bd_same _ _ _ _ H); destruct s; reflexivity. Qed.
#[export] Hint Resolve Bd_set_jid_res : bddb.
Lemma Bd_set_pass_set : forall v d s0 s, Bd d s0 s -> Bd d s0 (set_pass_set v s).
Proof. intros v d s0 s H; apply (Bd_same _ _ _ _ H); destruct s; reflexivity. Qed.
#[export] Hint Resolve Bd_set_pass_set : bddb.
Lemma Bd_set_cert_set : forall v d s0 s, Bd d s0 s -> Bd d s0 (set_cert_set v s).
Proof. intros v d s0 s H; apply (Bd_same _ _ _ _ H); destruct s; reflexivity. Qed.
#[export] Hint Resolve Bd_set_cert_set : bddb.
Lemma Bd_set_is_raw : forall v d s0 s, Bd d s0 s -> Bd d s0 (set_is_raw v s).
Proof. intros v d s0 s H; apply (Bd_same _ _ _ _ H); destruct s; reflexivity. Qed.
#[export] Hint Resolve Bd_set_is_raw : bddb.
Lemma Bd_set_typ : forall v d s0 s, Bd d s0 s -> Bd d s0 (set_typ v s).
Proof. intros v d s0 s H; apply (Bd_same _ _ _ _ H); destruct s; reflexivity. Qed.
#[export] Hint Resolve Bd_set_typ : bddb.
Lemma Bd_set_user_handler : forall v d s0 s, Bd d s0 s -> Bd d s0 (set_user_handler v s).
Proof. intros v d s0 s H; apply (Bd_same _ _ _ _ H); destruct s; reflexivity. Qed.
#[export] Hint Resolve Bd_set_user_handler : bddb.
Lemma Bd_set_user_timed : forall v d s0 s, Bd d s0 s -> Bd d s0 (set_user_timed v s).
Proof. intros v d s0 s H; apply (Bd_same _ _ _ _ H); destruct s; reflexivity. Qed.
#[export] Hint Resolve Bd_set_user_timed : bddb.
Lemma Bd_set_tlsnew_ok : forall v d s0 s, Bd d s0 s -> Bd d s0 (set_tlsnew_ok v s).
Proof. intros v d s0 s H; apply (Bd_same _ _ _ _ H); destruct s; reflexivity. Qed.
#[export] Hint Resolve Bd_set_tlsnew_ok : bddb.
Lemma Bd_set_cb_avail : forall v d s0 s, Bd d s0 s -> Bd d s0 (set_cb_avail v s).
Proof. intros v d s0 s H; apply (Bd_same _ _ _ _ H); destruct s; reflexivity. Qed.
#[export] Hint Resolve Bd_set_cb_avail : bddb.
Lemma Bd_set_tls_verdicts : forall v d s0 s, Bd d s0 s -> Bd d s0 (set_tls_verdicts v s).
Proof. intros v d s0 s H; apply (Bd_same _ _ _ _ H); destruct s; reflexivity. Qed.
#[export] Hint Resolve Bd_set_tls_verdicts : bddb.
Lemma Bd_set_next_cands : forall v d s0 s, Bd d s0 s -> Bd d s0 (set_next_cands v s).
Proof. intros v d s0 s H; apply (Bd_same _ _ _ _ H); destruct s; reflexivity. Qed.
#[export] Hint Resolve Bd_set_next_cands : bddb.
Lemma Bd_set_cands : forall v d s0 s, Bd d s0 s -> Bd d s0 (set_cands v s).
Proof. intros v d s0 s H; apply (Bd_same _ _ _ _ H); destruct s; reflexivity. Qed.
#[export] Hint Resolve Bd_set_cands : bddb.
Lemma Bd_set_cur_ep : forall v d s0 s, Bd d s0 s -> Bd d s0 (set_cur_ep v s).
Proof. intros v d s0 s H; apply (Bd_same _ _ _ _ H); destruct s; reflexivity. Qed.
#[export] Hint Resolve Bd_set_cur_ep : bddb.
Lemma Bd_set_st : forall v d s0 s, Bd d s0 s -> Bd d s0 (set_st v s).
Proof. intros v d s0 s H; apply (Bd_same _ _ _ _ H); destruct s; reflexivity. Qed.
#[export] Hint Resolve Bd_set_st : bddb.
Lemma Bd_set_stamp : forall v d s0 s, Bd d s0 s -> Bd d s0 (set_stamp v s).
Proof. intros v d s0 s H; apply (Bd_same _ _ _ _ H); destruct s; reflexivity. Qed.
#[export] Hint Resolve Bd_set_stamp : bddb.
Lemma Bd_set_err : forall v d s0 s, Bd d s0 s -> Bd d s0 (set_err v s).
Proof. intros v d s0 s H; apply (Bd_same _ _ _ _ H); destruct s; reflexivity. Qed.
#[export] Hint Resolve Bd_set_err : bddb.
Lemma Bd_set_stream_error : forall v d s0 s, Bd d s0 s -> Bd d s0 (set_stream_error v s).
Proof. intros v d s0 s H; apply (Bd_same _ _ _ _ H); destruct s; reflexivity. Qed.
#[export] Hint Resolve Bd_set_stream_error : bddb.
Lemma Bd_set_secured : forall v d s0 s, Bd d s0 s -> Bd d s0 (set_secured v s).
Proof. intros v d s0 s H; apply (Bd_same _ _ _ _ H); destruct s; reflexivity. Qed.
#[export] Hint Resolve Bd_set_secured : bddb.
Lemma Bd_set_tls_present : forall v d s0 s, Bd d s0 s -> Bd d s0 (set_tls_present v s).
Proof. intros v d s0 s H; apply (Bd_same _ _ _ _ H); destruct s; reflexivity. Qed.
#[export] Hint Resolve Bd_set_tls_present : bddb.
Lemma Bd_set_tls_failed : forall v d s0 s, Bd d s0 s -> Bd d s0 (set_tls_failed v s).
Proof. intros v d s0 s H; apply (Bd_same _ _ _ _ H); destruct s; reflexivity. Qed.
#[export] Hint Resolve Bd_set_tls_failed : bddb.
Lemma Bd_set_tls_support : forall v d s0 s, Bd d s0 s -> Bd d s0 (set_tls_support v s).
Proof. intros v d s0 s H; apply (Bd_same _ _ _ _ H); destruct s; reflexivity. Qed.
#[export] Hint Resolve Bd_set_tls_support : bddb.
Lemma Bd_set_sasl : forall v d s0 s, Bd d s0 s -> Bd d s0 (set_sasl v s).
Proof. intros v d s0 s H; apply (Bd_same _ _ _ _ H); destruct s; reflexivity. Qed.
#[export] Hint Resolve Bd_set_sasl : bddb.
Lemma Bd_set_bind_required : forall v d s0 s, Bd d s0 s -> Bd d s0 (set_bind_required v s).
Proof. intros v d s0 s H; apply (Bd_same _ _ _ _ H); destruct s; reflexivity. Qed.
#[export] Hint Resolve Bd_set_bind_required : bddb.
Lemma Bd_set_session_required : forall v d s0 s, Bd d s0 s -> Bd d s0 (set_session_required v s).
Proof. intros v d s0 s H; apply (Bd_same _ _ _ _ H); destruct s; reflexivity. Qed.
#[export] Hint Resolve Bd_set_session_required : bddb.
Lemma Bd_set_comp_supported : forall v d s0 s, Bd d s0 s -> Bd d s0 (set_comp_supported v s).
Proof. intros v d s0 s H; apply (Bd_same _ _ _ _ H); destruct s; reflexivity. Qed.
#[export] Hint Resolve Bd_set_comp_supported : bddb.
Lemma Bd_set_comp_active : forall v d s0 s, Bd d s0 s -> Bd d s0 (set_comp_active v s).
Proof. intros v d s0 s H; apply (Bd_same _ _ _ _ H); destruct s; reflexivity. Qed.
#[export] Hint Resolve Bd_set_comp_active : bddb.
Lemma Bd_set_sm_alloc : forall v d s0 s, Bd d s0 s -> Bd d s0 (set_sm_alloc v s).
Proof. intros v d s0 s H; apply (Bd_same _ _ _ _ H); destruct s; reflexivity. Qed.
#[export] Hint Resolve Bd_set_sm_alloc : bddb.
Lemma Bd_set_sm_support : forall v d s0 s, Bd d s0 s -> Bd d s0 (set_sm_support v s).
Proof. intros v d s0 s H; apply (Bd_same _ _ _ _ H); destruct s; reflexivity. Qed.
#[export] Hint Resolve Bd_set_sm_support : bddb.
Lemma Bd_set_sm_enabled : forall v d s0 s, Bd d s0 s -> Bd d s0 (set_sm_enabled v s).
Proof. intros v d s0 s H; apply (Bd_same _ _ _ _ H); destruct s; reflexivity. Qed.
#[export] Hint Resolve Bd_set_sm_enabled : bddb.
Lemma Bd_set_sm_can_resume : forall v d s0 s, Bd d s0 s -> Bd d s0 (set_sm_can_resume v s).
Proof. intros v d s0 s H; apply (Bd_same _ _ _ _ H); destruct s; reflexivity. Qed.
#[export] Hint Resolve Bd_set_sm_can_resume : bddb.
Lemma Bd_set_sm_resume : forall v d s0 s, Bd d s0 s -> Bd d s0 (set_sm_resume v s).
Proof. intros v d s0 s H; apply (Bd_same _ _ _ _ H); destruct s; reflexivity. Qed.
#[export] Hint Resolve Bd_set_sm_resume : bddb.
Lemma Bd_set_sm_dont_request : forall v d s0 s, Bd d s0 s -> Bd d s0 (set_sm_dont_request v s).
Proof. intros v d s0 s H; apply (Bd_same _ _ _ _ H); destruct s; reflexivity. Qed.
#[export] Hint Resolve Bd_set_sm_dont_request : bddb.
Lemma Bd_set_sm_has_previd : forall v d s0 s, Bd d s0 s -> Bd d s0 (set_sm_has_previd v s).
Proof. intros v d s0 s H; apply (Bd_same _ _ _ _ H); destruct s; reflexivity. Qed.
#[export] Hint Resolve Bd_set_sm_has_previd : bddb.
Lemma Bd_set_sm_has_id : forall v d s0 s, Bd d s0 s -> Bd d s0 (set_sm_has_id v s).
Proof. intros v d s0 s H; apply (Bd_same _ _ _ _ H); destruct s; reflexivity. Qed.
#[export] Hint Resolve Bd_set_sm_has_id : bddb.
Lemma Bd_set_sm_parked : forall v d s0 s, Bd d s0 s -> Bd d s0 (set_sm_parked v s).
Proof. intros v d s0 s H; apply (Bd_same _ _ _ _ H); destruct s; reflexivity. Qed.
#[export] Hint Resolve Bd_set_sm_parked : bddb.
Lemma Bd_set_sm_r_sent : forall v d s0 s, Bd d s0 s -> Bd d s0 (set_sm_r_sent v s).
Proof. intros v d s0 s H; apply (Bd_same _ _ _ _ H); destruct s; reflexivity. Qed.
#[export] Hint Resolve Bd_set_sm_r_sent : bddb.
Lemma Bd_set_sm_bind_saved : forall v d s0 s, Bd d s0 s -> Bd d s0 (set_sm_bind_saved v s).
Proof. intros v d s0 s H; apply (Bd_same _ _ _ _ H); destruct s; reflexivity. Qed.
#[export] Hint Resolve Bd_set_sm_bind_saved : bddb.
Lemma Bd_set_bound_jid : forall v d s0 s, Bd d s0 s -> Bd d s0 (set_bound_jid v s).
Proof. intros v d s0 s H; apply (Bd_same _ _ _ _ H); destruct s; reflexivity. Qed.
#[export] Hint Resolve Bd_set_bound_jid : bddb.
Lemma Bd_set_stream_id : forall v d s0 s, Bd d s0 s -> Bd d s0 (set_stream_id v s).
Proof. intros v d s0 s H; apply (Bd_same _ _ _ _ H); destruct s; reflexivity. Qed.
#[export] Hint Resolve Bd_set_stream_id : bddb.
Lemma Bd_set_neg_done : forall v d s0 s, Bd d s0 s -> Bd d s0 (set_neg_done v s).
Proof. intros v d s0 s H; apply (Bd_same _ _ _ _ H); destruct s; reflexivity. Qed.
#[export] Hint Resolve Bd_set_neg_done : bddb.
Lemma Bd_set_timed : forall v d s0 s, Bd d s0 s -> Bd d s0 (set_timed v s).
Proof. intros v d s0 s H; apply (Bd_same _ _ _ _ H); destruct s; reflexivity. Qed.
#[export] Hint Resolve Bd_set_timed : bddb.
Lemma Bd_set_sendq : forall v d s0 s, Bd d s0 s -> Bd d s0 (set_sendq v s).
Proof. intros v d s0 s H; apply (Bd_same _ _ _ _ H); destruct s; reflexivity. Qed.
#[export] Hint Resolve Bd_set_sendq : bddb.
Lemma Bd_set_rxq : forall v d s0 s, Bd d s0 s -> Bd d s0 (set_rxq v s).
Proof. intros v d s0 s H; apply (Bd_same _ _ _ _ H); destruct s; reflexivity. Qed.
#[export] Hint Resolve Bd_set_rxq : bddb.
Lemma Bd_set_smq : forall v d s0 s, Bd d s0 s -> Bd d s0 (set_smq v s).
Proof. intros v d s0 s H; apply (Bd_same _ _ _ _ H); destruct s; reflexivity. Qed.
#[export] Hint Resolve Bd_set_smq : bddb.
Lemma Bd_set_sm_sent : forall v d s0 s, Bd d s0 s -> Bd d s0 (set_sm_sent v s).
Proof. intros v d s0 s H; apply (Bd_same _ _ _ _ H); destruct s; reflexivity. Qed.
#[export] Hint Resolve Bd_set_sm_sent : bddb.
Lemma Bd_set_scram_serial : forall v d s0 s, Bd d s0 s -> Bd d s0 (set_scram_serial v s).
Proof. intros v d s0 s H; apply (Bd_same _ _ _ _ H); destruct s; reflexivity. Qed.
#[export] Hint Resolve Bd_set_scram_serial : bddb.
Lemma Bd_set_crashed : forall v d s0 s, Bd d s0 s -> Bd d s0 (set_crashed v s).
Proof. intros v d s0 s H; apply (Bd_same _ _ _ _ H); destruct s; reflexivity. Qed.
#[export] Hint Resolve Bd_set_crashed : bddb.
Lemma Bd_set_gh : forall v d s0 s, Bd d s0 s -> Bd d s0 (set_gh v s).
Proof. intros v d s0 s H; apply (Bd_same _ _ _ _ H); destruct s; reflexivity. Qed.
#[export] Hint Resolve Bd_set_gh : bddb.
Lemma Bd_upg : forall f d s0 s, Bd d s0 s -> Bd d s0 (upg f s).
Proof. intros f d s0 s H; apply (Bd_same _ _ _ _ H); destruct s; reflexivity. Qed.
#[export] Hint Resolve Bd_upg : bddb.

Lemma filter_length_app : forall {A} (f : A -> bool) a b,
  List.length (filter f (a ++ b)) = (List.length (filter f a) + List.length (filter f b))%nat.
Proof. intros. rewrite filter_app, app_length. reflexivity. Qed.

Lemma Bd_h_add : forall k d s0 s, Bd d s0 s -> Bd (b2n (is_main k) + d) s0 (h_add k s).
Proof.
  intros k d s0 s H. unfold h_add. destruct (h_has k s).
  - apply (Bd_weaken _ _ _ _ H). lia.
  - destruct H. constructor.
    + unfold marks, hmarks, imarks, pending in *. sproj. rewrite filter_length_app. cbn [filter fst].
      destruct (is_main k); cbn [List.length b2n]; lia.
    + sproj. destruct bd_h0 as [l E]. exists (l ++ [(k, false)]). rewrite E, app_assoc. reflexivity.
    + sproj. assumption.
    + sproj. assumption.
Qed.
Lemma Bd_id_add : forall k d s0 s, Bd d s0 s -> Bd (b2n (is_main_id k) + d) s0 (id_add k s).
Proof.
  intros k d s0 s H. unfold id_add. destruct (id_has k s).
  - apply (Bd_weaken _ _ _ _ H). lia.
  - destruct H. constructor.
    + unfold marks, hmarks, imarks, pending in *. sproj. rewrite filter_length_app. cbn [filter fst].
      destruct (is_main_id k); cbn [List.length b2n]; lia.
    + sproj. assumption.
    + sproj. destruct bd_i0 as [l E]. exists (l ++ [(k, false)]). rewrite E, app_assoc. reflexivity.
    + sproj. assumption.
Qed.
Lemma Bd_prepare_reset : forall h d s0 s, Bd d s0 s -> Bd (1 + d) s0 (prepare_reset h s).
Proof.
  intros h d s0 s []. unfold prepare_reset. constructor; sproj; auto.
  unfold marks, hmarks, imarks, pending in *. sproj.
  destruct (client_oh h && (true || is_depth0 (ps s))), (client_oh (oh s) && (reset_parser s || is_depth0 (ps s))); cbn [b2n] in *; lia.
Qed.
#[export] Hint Resolve Bd_h_add Bd_id_add Bd_prepare_reset : bddb.

Ltac bd := cases; leaf; (eapply Bd_weaken; [eauto 40 with bddb | sproj; cbn [b2n is_main is_main_id client_oh andb negb Nat.add]; lia]).
Lemma Bd_q_append : forall w u sm d s0 s, Bd d s0 s -> Bd (0 + d) s0 (q_append w u sm s).
Proof. intros w u sm d s0 s H; apply (Bd_same _ _ _ _ H); unfold q_append; cases; reflexivity. Qed.
#[export] Hint Resolve Bd_q_append : bddb.
Lemma Bd_send_gated : forall w u sm d s0 s, Bd d s0 s -> Bd (0 + d) s0 (send_gated w u sm s).
Proof. intros; unfold send_gated, ret; bd. Qed.
#[export] Hint Resolve Bd_send_gated : bddb.
Lemma Bd_send_raw_m : forall w u sm d s0 s, Bd d s0 s -> Bd (0 + d) s0 (send_raw_m w u sm s).
Proof. intros; unfold send_raw_m, ret; bd. Qed.
#[export] Hint Resolve Bd_send_raw_m : bddb.
Lemma Bd_timed_add : forall k n d s0 s, Bd d s0 s -> Bd (0 + d) s0 (timed_add k n s).
Proof. intros; unfold timed_add, ret; bd. Qed.
#[export] Hint Resolve Bd_timed_add : bddb.
Lemma Bd_timed_del : forall k d s0 s, Bd d s0 s -> Bd (0 + d) s0 (timed_del k s).
Proof. intros; unfold timed_del, ret; bd. Qed.
#[export] Hint Resolve Bd_timed_del : bddb.
Lemma Bd_timed_reset_all : forall n d s0 s, Bd d s0 s -> Bd (0 + d) s0 (timed_reset_all n s).
Proof. intros; unfold timed_reset_all, ret; bd. Qed.
#[export] Hint Resolve Bd_timed_reset_all : bddb.
Lemma Bd_timed_set_stamp : forall k n d s0 s, Bd d s0 s -> Bd (0 + d) s0 (timed_set_stamp k n s).
Proof. intros; unfold timed_set_stamp, ret; bd. Qed.
#[export] Hint Resolve Bd_timed_set_stamp : bddb.
Lemma Bd_reset_sm_for_reconnect : forall d s0 s, Bd d s0 s -> Bd (0 + d) s0 (reset_sm_for_reconnect s).
Proof. intros; unfold reset_sm_for_reconnect, ret; bd. Qed.
#[export] Hint Resolve Bd_reset_sm_for_reconnect : bddb.
Lemma Bd_sm_queue_cleanup : forall h d s0 s, Bd d s0 s -> Bd (0 + d) s0 (sm_queue_cleanup h s).
Proof. intros; unfold sm_queue_cleanup, ret; bd. Qed.
#[export] Hint Resolve Bd_sm_queue_cleanup : bddb.
Lemma Bd_sm_queue_resend : forall d s0 s, Bd d s0 s -> Bd (0 + d) s0 (sm_queue_resend s).
Proof.
  intros d s0 s H. unfold sm_queue_resend. apply (fold_left_inv (Bd (0 + d) s0)).
  - intros a b Ha. eapply Bd_weaken; [apply Bd_send_raw_m; exact Ha | lia].
  - apply (Bd_weaken d); [eauto with bddb | lia].
Qed.
#[export] Hint Resolve Bd_sm_queue_resend : bddb.
Lemma Bd_conn_disconnect : forall d s0 s, Bd d s0 s -> Bd (0 + d) s0 (fst (conn_disconnect s)).
Proof. intros; name_result; unfold conn_disconnect, ret; bd. Qed.
#[export] Hint Resolve Bd_conn_disconnect : bddb.
Lemma Bd_xmpp_disconnect : forall n d s0 s, Bd d s0 s -> Bd (0 + d) s0 (xmpp_disconnect n s).
Proof. intros; unfold xmpp_disconnect, ret; bd. Qed.
#[export] Hint Resolve Bd_xmpp_disconnect : bddb.
Lemma Bd_conn_open_stream : forall d s0 s, Bd d s0 s -> Bd (0 + d) s0 (conn_open_stream s).
Proof. intros; unfold conn_open_stream, ret; bd. Qed.
#[export] Hint Resolve Bd_conn_open_stream : bddb.
Lemma Bd_conn_tls_start : forall d s0 s, Bd d s0 s -> Bd (0 + d) s0 (fst (fst (conn_tls_start s))).
Proof. intros; name_result; unfold conn_tls_start; bd. Qed.
#[export] Hint Resolve Bd_conn_tls_start : bddb.
Lemma Bd_stream_negotiation_success : forall d s0 s, Bd d s0 s -> Bd (0 + d) s0 (fst (stream_negotiation_success s)).
Proof. intros; name_result; unfold stream_negotiation_success, ret; bd. Qed.
#[export] Hint Resolve Bd_stream_negotiation_success : bddb.
Lemma Bd_do_bind : forall n b d s0 s, Bd d s0 s -> Bd (1 + d) s0 (fst (do_bind n b s)).
Proof. intros; name_result; unfold do_bind, ret; bd. Qed.
#[export] Hint Resolve Bd_do_bind : bddb.
Lemma Bd_session_start : forall n d s0 s, Bd d s0 s -> Bd (1 + d) s0 (session_start n s).
Proof. intros; unfold session_start, ret; bd. Qed.
#[export] Hint Resolve Bd_session_start : bddb.
Lemma Bd_sm_enable : forall d s0 s, Bd d s0 s -> Bd (1 + d) s0 (sm_enable s).
Proof. intros; unfold sm_enable, ret; bd. Qed.
#[export] Hint Resolve Bd_sm_enable : bddb.
Lemma Bd_auth_legacy : forall n d s0 s, Bd d s0 s -> Bd (0 + d) s0 (auth_legacy n s).
Proof. intros; unfold auth_legacy, ret; bd. Qed.
#[export] Hint Resolve Bd_auth_legacy : bddb.
Lemma Bd_auth : forall fuel n d s0 s, Bd d s0 s -> Bd (1 + d) s0 (fst (auth fuel n s)).
Proof.
  induction fuel; intros; name_result; cbn [auth]; unfold ret; cases; leaf;
    try (eapply Bd_weaken; [eauto 40 with bddb | sproj; cbn [b2n is_main is_main_id client_oh andb negb Nat.add]; lia]).
Qed.
#[export] Hint Resolve Bd_auth : bddb.
Lemma Bd_sasl_result : forall n e d s0 s, Bd d s0 s -> Bd (1 + d) s0 (fst (sasl_result n e s)).
Proof. intros; name_result; unfold sasl_result, ret; bd. Qed.
#[export] Hint Resolve Bd_sasl_result : bddb.
Lemma Bd_features_sasl : forall n e d s0 s, Bd d s0 s -> Bd (1 + d) s0 (fst (features_sasl n e s)).
Proof. intros; name_result; unfold features_sasl, ret; bd. Qed.
#[export] Hint Resolve Bd_features_sasl : bddb.
Lemma Bd_call_id_handler : forall k n e d s0 s, Bd d s0 s -> Bd (b2n (is_main_id k) + d) s0 (fst (call_id_handler k n e s)).
Proof. intros k; destruct k; intros; name_result; unfold call_id_handler, ret; bd. Qed.
#[export] Hint Resolve Bd_call_id_handler : bddb.
Lemma Bd_note_rx : forall e d s0 s, Bd d s0 s -> Bd (0 + d) s0 (note_rx e s).
Proof. intros e d s0 s H; apply (Bd_same _ _ _ _ H); unfold note_rx; reflexivity. Qed.
#[export] Hint Resolve Bd_note_rx : bddb.
Lemma Bd_sm_handle : forall e d s0 s, Bd d s0 s -> Bd (0 + d) s0 (sm_handle e s).
Proof. intros; unfold sm_handle, ret; bd. Qed.
#[export] Hint Resolve Bd_sm_handle : bddb.
Lemma Bd_open_handler : forall n d s0 s, Bd d s0 s -> Bd (b2n (client_oh (oh s)) + d) s0 (fst (open_handler n s)).
Proof. intros; name_result; unfold open_handler, ret; bd. Qed.
#[export] Hint Resolve Bd_open_handler : bddb.
Lemma Bd_stream_start : forall n a b d s0 s, Bd d s0 s -> Bd (b2n (client_oh (oh s)) + d) s0 (fst (stream_start n a b s)).
Proof. intros; name_result; unfold stream_start, ret; bd. Qed.
#[export] Hint Resolve Bd_stream_start : bddb.
Lemma Bd_stream_end : forall d s0 s, Bd d s0 s -> Bd (0 + d) s0 (fst (stream_end s)).
Proof. intros; name_result; unfold stream_end, ret; bd. Qed.
#[export] Hint Resolve Bd_stream_end : bddb.
Lemma Bd_connect_next : forall n d s0 s, Bd d s0 s -> Bd (0 + d) s0 (fst (fst (connect_next n s))).
Proof. intros; name_result; unfold connect_next, ret; bd. Qed.
#[export] Hint Resolve Bd_connect_next : bddb.

(* ------------------------------------------------------------------ list observables *)
Lemma h_has_app : forall k (s : state) l, existsb (fun x : hkind * bool => hkind_eqb k (fst x)) (handlers s ++ l) =
  h_has k s || existsb (fun x : hkind * bool => hkind_eqb k (fst x)) l.
Proof. intros; unfold h_has; apply existsb_app. Qed.
Lemma hkind_eqb_refl : forall k, hkind_eqb k k = true.
Proof.
  destruct k; cbn; auto.
  - destruct m; cbn; auto. apply Nat.eqb_refl.
  - rewrite !Nat.eqb_refl. reflexivity.
Qed.
Lemma mech_eqb_eq : forall a b, mech_eqb a b = true -> a = b.
Proof. destruct a, b; cbn; intros H; try discriminate; auto. apply Nat.eqb_eq in H. congruence. Qed.
Lemma hkind_eqb_eq : forall a b, hkind_eqb a b = true -> a = b.
Proof.
  destruct a, b; cbn; intros H; try discriminate; auto.
  - apply mech_eqb_eq in H. congruence.
  - apply andb_prop in H. destruct H as [A B]. apply Nat.eqb_eq in A. apply Nat.eqb_eq in B. congruence.
Qed.
Lemma h_has_h_add : forall k' k s, h_has k' (h_add k s) = h_has k' s || hkind_eqb k' k.
Proof.
  intros k' k s. unfold h_add. destruct (h_has k s) eqn:E.
  - destruct (hkind_eqb k' k) eqn:E2; [|rewrite orb_false_r; reflexivity].
    apply hkind_eqb_eq in E2. subst k'. rewrite E. reflexivity.
  - unfold h_has at 1. sproj. rewrite h_has_app. cbn. rewrite orb_false_r. reflexivity.
Qed.
Lemma h_has_h_del : forall k' k s, h_has k' (h_del k s) = h_has k' s && negb (hkind_eqb k' k).
Proof.
  intros k' k s. unfold h_del, h_has. sproj. induction (handlers s) as [|x l IH]; [reflexivity|].
  cbn [filter existsb]. destruct (hkind_eqb k (fst x)) eqn:E; cbn [negb].
  - rewrite IH. apply hkind_eqb_eq in E. subst k.
    destruct (hkind_eqb k' (fst x)) eqn:E2; cbn [orb negb]; rewrite ?andb_false_r; reflexivity.
  - cbn [existsb]. rewrite IH. destruct (hkind_eqb k' (fst x)) eqn:E2; cbn [orb]; [|reflexivity].
    apply hkind_eqb_eq in E2. subst k'.
    assert (hkind_eqb (fst x) k = false) as ->.
    { destruct (hkind_eqb (fst x) k) eqn:E3; auto. apply hkind_eqb_eq in E3. subst k. rewrite hkind_eqb_refl in E. discriminate. }
    reflexivity.
Qed.
Lemma h_has_enable_all : forall k s, h_has k (set_handlers (map (fun x => (fst x, true)) (handlers s)) s) = h_has k s.
Proof.
  intros. unfold h_has. sproj. induction (handlers s) as [|x l IH]; [reflexivity|]. cbn. rewrite IH. reflexivity.
Qed.

(* ================================================================== TI: TLS bookkeeping at rest *)
Definition TI (s : state) : Prop :=
  tls_support s = false /\
  (tls_present s = true -> secured s = true) /\
  (secured s = true -> h_has HProceedTls s = false).
Ltac ti_split := refine (conj _ (conj _ _)).
Lemma TI_set_f_tls_disabled : forall v s, TI s -> TI (set_f_tls_disabled v s).
Proof. intros v []; exact (fun h => h). Qed.
#[export] Hint Resolve TI_set_f_tls_disabled : tidb.
Lemma TI_set_f_tls_mandatory : forall v s, TI s -> TI (set_f_tls_mandatory v s).
Proof. intros v []; exact (fun h => h). Qed.
#[export] Hint Resolve TI_set_f_tls_mandatory : tidb.
Lemma TI_set_f_legacy_ssl : forall v s, TI s -> TI (set_f_legacy_ssl v s).
Proof. intros v []; exact (fun h => h). Qed.
#[export] Hint Resolve TI_set_f_legacy_ssl : tidb.
Lemma TI_set_f_tls_trust : forall v s, TI s -> TI (set_f_tls_trust v s).
Proof. intros v []; exact (fun h => h). Qed.
#[export] Hint Resolve TI_set_f_tls_trust : tidb.
Lemma TI_set_f_legacy_auth : forall v s, TI s -> TI (set_f_legacy_auth v s).
Proof. intros v []; exact (fun h => h). Qed.
#[export] Hint Resolve TI_set_f_legacy_auth : tidb.
Lemma TI_set_f_sm_disable : forall v s, TI s -> TI (set_f_sm_disable v s).
Proof. intros v []; exact (fun h => h). Qed.
#[export] Hint Resolve TI_set_f_sm_disable : tidb.
Lemma TI_set_f_comp_allowed : forall v s, TI s -> TI (set_f_comp_allowed v s).
Proof. intros v []; exact (fun h => h). Qed.
#[export] Hint Resolve TI_set_f_comp_allowed : tidb.
Lemma TI_set_f_comp_dont_reset : forall v s, TI s -> TI (set_f_comp_dont_reset v s).
Proof. intros v []; exact (fun h => h). Qed.
#[export] Hint Resolve TI_set_f_comp_dont_reset : tidb.
Lemma TI_set_jid_set : forall v s, TI s -> TI (set_jid_set v s).
Proof. intros v []; exact (fun h => h). Qed.
#[export] Hint Resolve TI_set_jid_set : tidb.
Lemma TI_set_jid_node : forall v s, TI s -> TI (set_jid_node v s).
Proof. intros v []; exact (fun h => h). Qed.
#[export] Hint Resolve TI_set_jid_node : tidb.
Lemma TI_set_jid_res : forall v s, TI s -> TI (set_jid_res v s).
Proof. intros v []; exact (fun h => h). Qed.
#[export] Hint Resolve TI_set_jid_res : tidb.
Lemma TI_set_pass_set : forall v s, TI s -> TI (set_pass_set v s).
Proof. intros v []; exact (fun h => h). Qed.
#[export] Hint Resolve TI_set_pass_set : tidb.
Lemma TI_set_cert_set : forall v s, TI s -> TI (set_cert_set v s).
Proof. intros v []; exact (fun h => h). Qed.
#[export] Hint Resolve TI_set_cert_set : tidb.
Lemma TI_set_is_raw : forall v s, TI s -> TI (set_is_raw v s).
Proof. intros v []; exact (fun h => h). Qed.
#[export] Hint Resolve TI_set_is_raw : tidb.
Lemma TI_set_typ : forall v s, TI s -> TI (set_typ v s).
Proof. intros v []; exact (fun h => h). Qed.
#[export] Hint Resolve TI_set_typ : tidb.
Lemma TI_set_user_handler : forall v s, TI s -> TI (set_user_handler v s).
Proof. intros v []; exact (fun h => h). Qed.
#[export] Hint Resolve TI_set_user_handler : tidb.
Lemma TI_set_user_timed : forall v s, TI s -> TI (set_user_timed v s).
Proof. intros v []; exact (fun h => h). Qed.
#[export] Hint Resolve TI_set_user_timed : tidb.
Lemma TI_set_tlsnew_ok : forall v s, TI s -> TI (set_tlsnew_ok v s).
Proof. intros v []; exact (fun h => h). Qed.
#[export] Hint Resolve TI_set_tlsnew_ok : tidb.
Lemma TI_set_cb_avail : forall v s, TI s -> TI (set_cb_avail v s).
Proof. intros v []; exact (fun h => h). Qed.
#[export] Hint Resolve TI_set_cb_avail : tidb.
Lemma TI_set_tls_verdicts : forall v s, TI s -> TI (set_tls_verdicts v s).
Proof. intros v []; exact (fun h => h). Qed.
#[export] Hint Resolve TI_set_tls_verdicts : tidb.
Lemma TI_set_next_cands : forall v s, TI s -> TI (set_next_cands v s).
Proof. intros v []; exact (fun h => h). Qed.
#[export] Hint Resolve TI_set_next_cands : tidb.
Lemma TI_set_cands : forall v s, TI s -> TI (set_cands v s).
Proof. intros v []; exact (fun h => h). Qed.
#[export] Hint Resolve TI_set_cands : tidb.
Lemma TI_set_cur_ep : forall v s, TI s -> TI (set_cur_ep v s).
Proof. intros v []; exact (fun h => h). Qed.
#[export] Hint Resolve TI_set_cur_ep : tidb.
Lemma TI_set_st : forall v s, TI s -> TI (set_st v s).
Proof. intros v []; exact (fun h => h). Qed.
#[export] Hint Resolve TI_set_st : tidb.
Lemma TI_set_stamp : forall v s, TI s -> TI (set_stamp v s).
Proof. intros v []; exact (fun h => h). Qed.
#[export] Hint Resolve TI_set_stamp : tidb.
Lemma TI_set_err : forall v s, TI s -> TI (set_err v s).
Proof. intros v []; exact (fun h => h). Qed.
#[export] Hint Resolve TI_set_err : tidb.
Lemma TI_set_stream_error : forall v s, TI s -> TI (set_stream_error v s).
Proof. intros v []; exact (fun h => h). Qed.
#[export] Hint Resolve TI_set_stream_error : tidb.
Lemma TI_set_tls_failed : forall v s, TI s -> TI (set_tls_failed v s).
Proof. intros v []; exact (fun h => h). Qed.
#[export] Hint Resolve TI_set_tls_failed : tidb.
Lemma TI_set_sasl : forall v s, TI s -> TI (set_sasl v s).
Proof. intros v []; exact (fun h => h). Qed.
#[export] Hint Resolve TI_set_sasl : tidb.
Lemma TI_set_bind_required : forall v s, TI s -> TI (set_bind_required v s).
Proof. intros v []; exact (fun h => h). Qed.
#[export] Hint Resolve TI_set_bind_required : tidb.
Lemma TI_set_session_required : forall v s, TI s -> TI (set_session_required v s).
Proof. intros v []; exact (fun h => h). Qed.
#[export] Hint Resolve TI_set_session_required : tidb.
Lemma TI_set_comp_supported : forall v s, TI s -> TI (set_comp_supported v s).
Proof. intros v []; exact (fun h => h). Qed.
#[export] Hint Resolve TI_set_comp_supported : tidb.
Lemma TI_set_comp_active : forall v s, TI s -> TI (set_comp_active v s).
Proof. intros v []; exact (fun h => h). Qed.
#[export] Hint Resolve TI_set_comp_active : tidb.
Lemma TI_set_sm_alloc : forall v s, TI s -> TI (set_sm_alloc v s).
Proof. intros v []; exact (fun h => h). Qed.
#[export] Hint Resolve TI_set_sm_alloc : tidb.
Lemma TI_set_sm_support : forall v s, TI s -> TI (set_sm_support v s).
Proof. intros v []; exact (fun h => h). Qed.
#[export] Hint Resolve TI_set_sm_support : tidb.
Lemma TI_set_sm_enabled : forall v s, TI s -> TI (set_sm_enabled v s).
Proof. intros v []; exact (fun h => h). Qed.
#[export] Hint Resolve TI_set_sm_enabled : tidb.
Lemma TI_set_sm_can_resume : forall v s, TI s -> TI (set_sm_can_resume v s).
Proof. intros v []; exact (fun h => h). Qed.
#[export] Hint Resolve TI_set_sm_can_resume : tidb.
Lemma TI_set_sm_resume : forall v s, TI s -> TI (set_sm_resume v s).
Proof. intros v []; exact (fun h => h). Qed.
#[export] Hint Resolve TI_set_sm_resume : tidb.
Lemma TI_set_sm_dont_request : forall v s, TI s -> TI (set_sm_dont_request v s).
Proof. intros v []; exact (fun h => h). Qed.
#[export] Hint Resolve TI_set_sm_dont_request : tidb.
Lemma TI_set_sm_has_previd : forall v s, TI s -> TI (set_sm_has_previd v s).
Proof. intros v []; exact (fun h => h). Qed.
#[export] Hint Resolve TI_set_sm_has_previd : tidb.
Lemma TI_set_sm_has_id : forall v s, TI s -> TI (set_sm_has_id v s).
Proof. intros v []; exact (fun h => h). Qed.
#[export] Hint Resolve TI_set_sm_has_id : tidb.
Lemma TI_set_sm_parked : forall v s, TI s -> TI (set_sm_parked v s).
Proof. intros v []; exact (fun h => h). Qed.
#[export] Hint Resolve TI_set_sm_parked : tidb.
Lemma TI_set_sm_r_sent : forall v s, TI s -> TI (set_sm_r_sent v s).
Proof. intros v []; exact (fun h => h). Qed.
#[export] Hint Resolve TI_set_sm_r_sent : tidb.
Lemma TI_set_sm_bind_saved : forall v s, TI s -> TI (set_sm_bind_saved v s).
Proof. intros v []; exact (fun h => h). Qed.
#[export] Hint Resolve TI_set_sm_bind_saved : tidb.
Lemma TI_set_bound_jid : forall v s, TI s -> TI (set_bound_jid v s).
Proof. intros v []; exact (fun h => h). Qed.
#[export] Hint Resolve TI_set_bound_jid : tidb.
Lemma TI_set_stream_id : forall v s, TI s -> TI (set_stream_id v s).
Proof. intros v []; exact (fun h => h). Qed.
#[export] Hint Resolve TI_set_stream_id : tidb.
Lemma TI_set_neg_done : forall v s, TI s -> TI (set_neg_done v s).
Proof. intros v []; exact (fun h => h). Qed.
#[export] Hint Resolve TI_set_neg_done : tidb.
Lemma TI_set_reset_parser : forall v s, TI s -> TI (set_reset_parser v s).
Proof. intros v []; exact (fun h => h). Qed.
#[export] Hint Resolve TI_set_reset_parser : tidb.
Lemma TI_set_oh : forall v s, TI s -> TI (set_oh v s).
Proof. intros v []; exact (fun h => h). Qed.
#[export] Hint Resolve TI_set_oh : tidb.
Lemma TI_set_ps : forall v s, TI s -> TI (set_ps v s).
Proof. intros v []; exact (fun h => h). Qed.
#[export] Hint Resolve TI_set_ps : tidb.
Lemma TI_set_idhandlers : forall v s, TI s -> TI (set_idhandlers v s).
Proof. intros v []; exact (fun h => h). Qed.
#[export] Hint Resolve TI_set_idhandlers : tidb.
Lemma TI_set_timed : forall v s, TI s -> TI (set_timed v s).
Proof. intros v []; exact (fun h => h). Qed.
#[export] Hint Resolve TI_set_timed : tidb.
Lemma TI_set_sendq : forall v s, TI s -> TI (set_sendq v s).
Proof. intros v []; exact (fun h => h). Qed.
#[export] Hint Resolve TI_set_sendq : tidb.
Lemma TI_set_rxq : forall v s, TI s -> TI (set_rxq v s).
Proof. intros v []; exact (fun h => h). Qed.
#[export] Hint Resolve TI_set_rxq : tidb.
Lemma TI_set_smq : forall v s, TI s -> TI (set_smq v s).
Proof. intros v []; exact (fun h => h). Qed.
#[export] Hint Resolve TI_set_smq : tidb.
Lemma TI_set_sm_sent : forall v s, TI s -> TI (set_sm_sent v s).
Proof. intros v []; exact (fun h => h). Qed.
#[export] Hint Resolve TI_set_sm_sent : tidb.
Lemma TI_set_scram_serial : forall v s, TI s -> TI (set_scram_serial v s).
Proof. intros v []; exact (fun h => h). Qed.
#[export] Hint Resolve TI_set_scram_serial : tidb.
Lemma TI_set_crashed : forall v s, TI s -> TI (set_crashed v s).
Proof. intros v []; exact (fun h => h). Qed.
#[export] Hint Resolve TI_set_crashed : tidb.
Lemma TI_set_gh : forall v s, TI s -> TI (set_gh v s).
Proof. intros v []; exact (fun h => h). Qed.
#[export] Hint Resolve TI_set_gh : tidb.
Lemma TI_upg : forall f s, TI s -> TI (upg f s).
Proof. intros f []; exact (fun h => h). Qed.
Lemma TI_set_tls_present_false : forall s, TI s -> TI (set_tls_present false s).
Proof. intros s (ti_ts & ti_i6 & ti_i2). ti_split; sproj; auto. intros; discriminate. Qed.
Lemma TI_enable_all : forall s, TI s -> TI (set_handlers (map (fun x => (fst x, true)) (handlers s)) s).
Proof. intros s (ti_ts & ti_i6 & ti_i2). ti_split; sproj; auto. intros S. rewrite h_has_enable_all. auto. Qed.
#[export] Hint Resolve TI_upg TI_set_tls_present_false TI_enable_all : tidb.
Lemma TI_q_append : forall w u sm s, TI s -> TI (q_append w u sm s).
Proof. intros; unfold q_append; cases; eauto 10 with tidb. Qed.
#[export] Hint Resolve TI_q_append : tidb.
Lemma TI_send_gated : forall w u sm s, TI s -> TI (send_gated w u sm s).
Proof. intros; unfold send_gated, ret; cases; leaf; eauto 30 with tidb. Qed.
#[export] Hint Resolve TI_send_gated : tidb.
Lemma TI_send_raw_m : forall w u sm s, TI s -> TI (send_raw_m w u sm s).
Proof. intros; unfold send_raw_m, ret; cases; leaf; eauto 30 with tidb. Qed.
#[export] Hint Resolve TI_send_raw_m : tidb.
Lemma TI_timed_add : forall k n s, TI s -> TI (timed_add k n s).
Proof. intros; unfold timed_add, ret; cases; leaf; eauto 30 with tidb. Qed.
#[export] Hint Resolve TI_timed_add : tidb.
Lemma TI_timed_del : forall k s, TI s -> TI (timed_del k s).
Proof. intros; unfold timed_del, ret; cases; leaf; eauto 30 with tidb. Qed.
#[export] Hint Resolve TI_timed_del : tidb.
Lemma TI_timed_reset_all : forall n s, TI s -> TI (timed_reset_all n s).
Proof. intros; unfold timed_reset_all, ret; cases; leaf; eauto 30 with tidb. Qed.
#[export] Hint Resolve TI_timed_reset_all : tidb.
Lemma TI_timed_set_stamp : forall k n s, TI s -> TI (timed_set_stamp k n s).
Proof. intros; unfold timed_set_stamp, ret; cases; leaf; eauto 30 with tidb. Qed.
#[export] Hint Resolve TI_timed_set_stamp : tidb.
Lemma TI_h_add : forall k s, hkind_eqb HProceedTls k = false -> TI s -> TI (h_add k s).
Proof.
  intros k s E (ti_ts & ti_i6 & ti_i2). ti_split; try (unfold h_add; cases; sproj; assumption).
  intros S. rewrite h_has_h_add, E, orb_false_r. apply ti_i2. revert S. unfold h_add; cases; sproj; auto.
Qed.
#[export] Hint Extern 1 (TI (h_add _ _)) => (apply TI_h_add; [reflexivity | ]) : tidb.
Lemma TI_h_del : forall k s, TI s -> TI (h_del k s).
Proof.
  intros k s (ti_ts & ti_i6 & ti_i2). ti_split; try (unfold h_del; sproj; assumption).
  intros S. rewrite h_has_h_del, ti_i2; auto.
Qed.
#[export] Hint Resolve TI_h_del : tidb.
Lemma TI_id_add : forall k s, TI s -> TI (id_add k s).
Proof. intros; unfold id_add, ret; cases; leaf; eauto 30 with tidb. Qed.
#[export] Hint Resolve TI_id_add : tidb.
Lemma TI_id_del : forall k s, TI s -> TI (id_del k s).
Proof. intros; unfold id_del, ret; cases; leaf; eauto 30 with tidb. Qed.
#[export] Hint Resolve TI_id_del : tidb.
Lemma TI_reset_sm_for_reconnect : forall s, TI s -> TI (reset_sm_for_reconnect s).
Proof. intros; unfold reset_sm_for_reconnect, ret; cases; leaf; eauto 30 with tidb. Qed.
#[export] Hint Resolve TI_reset_sm_for_reconnect : tidb.
Lemma TI_sm_queue_cleanup : forall h s, TI s -> TI (sm_queue_cleanup h s).
Proof. intros; unfold sm_queue_cleanup, ret; cases; leaf; eauto 30 with tidb. Qed.
#[export] Hint Resolve TI_sm_queue_cleanup : tidb.
Lemma TI_sm_queue_resend : forall s, TI s -> TI (sm_queue_resend s).
Proof. intros; unfold sm_queue_resend. apply fold_left_inv; eauto with tidb. Qed.
#[export] Hint Resolve TI_sm_queue_resend : tidb.
Lemma TI_conn_disconnect : forall s, TI s -> TI (fst (conn_disconnect s)).
Proof. intros; name_result; unfold conn_disconnect, ret; cases; leaf; eauto 30 with tidb. Qed.
#[export] Hint Resolve TI_conn_disconnect : tidb.
Lemma TI_xmpp_disconnect : forall n s, TI s -> TI (xmpp_disconnect n s).
Proof. intros; unfold xmpp_disconnect, ret; cases; leaf; eauto 30 with tidb. Qed.
#[export] Hint Resolve TI_xmpp_disconnect : tidb.
Lemma TI_prepare_reset : forall h s, TI s -> TI (prepare_reset h s).
Proof. intros; unfold prepare_reset, ret; cases; leaf; eauto 30 with tidb. Qed.
#[export] Hint Resolve TI_prepare_reset : tidb.
Lemma TI_conn_open_stream : forall s, TI s -> TI (conn_open_stream s).
Proof. intros; unfold conn_open_stream, ret; cases; leaf; eauto 30 with tidb. Qed.
#[export] Hint Resolve TI_conn_open_stream : tidb.
(* conn_tls_start: TLS comes up while the handler that asked for it is still registered; TI is
   re-established when visit removes that handler (TI_proceed below) *)
Lemma TI_conn_tls_start_weak : forall s, TI s ->
  tls_support (fst (fst (conn_tls_start s))) = false /\
  (tls_present (fst (fst (conn_tls_start s))) = true -> secured (fst (fst (conn_tls_start s))) = true) /\
  handlers (fst (fst (conn_tls_start s))) = handlers s.
Proof.
  intros s (ti_ts & ti_i6 & ti_i2). name_result. unfold conn_tls_start. cases; leaf; sproj; repeat split; auto; intros; discriminate.
Qed.
Lemma TI_stream_negotiation_success : forall s, TI s -> TI (fst (stream_negotiation_success s)).
Proof. intros; name_result; unfold stream_negotiation_success, ret; cases; leaf; eauto 30 with tidb. Qed.
#[export] Hint Resolve TI_stream_negotiation_success : tidb.
Lemma TI_do_bind : forall n b s, TI s -> TI (fst (do_bind n b s)).
Proof. intros; name_result; unfold do_bind, ret; cases; leaf; eauto 30 with tidb. Qed.
#[export] Hint Resolve TI_do_bind : tidb.
Lemma TI_session_start : forall n s, TI s -> TI (session_start n s).
Proof. intros; unfold session_start, ret; cases; leaf; eauto 30 with tidb. Qed.
#[export] Hint Resolve TI_session_start : tidb.
Lemma TI_sm_enable : forall s, TI s -> TI (sm_enable s).
Proof. intros; unfold sm_enable, ret; cases; leaf; eauto 30 with tidb. Qed.
#[export] Hint Resolve TI_sm_enable : tidb.
Lemma TI_auth_legacy : forall n s, TI s -> TI (auth_legacy n s).
Proof. intros; unfold auth_legacy, ret; cases; leaf; eauto 30 with tidb. Qed.
#[export] Hint Resolve TI_auth_legacy : tidb.
(* _auth ends with tls_support cleared; it registers the <proceed/> handler only when tls_support was set *)
Lemma TI_auth_gen : forall fuel n s,
  (fuel <> O \/ tls_support s = false) ->
  (tls_present s = true -> secured s = true) ->
  (secured s = true -> h_has HProceedTls s = false /\ tls_support s = false) ->
  TI (fst (auth fuel n s)).
Proof.
  induction fuel; intros n s F A B; name_result; cbn [auth]; unfold ret.
  - destruct F as [F|F]; [congruence|]. rewrite F.
    assert (T0 : TI s) by (ti_split; auto; apply B).
    cases; leaf; eauto 30 with tidb.
  - destruct (tls_support s) eqn:T.
    + assert (S0 : secured s = false) by (destruct (secured s); auto; destruct (B eq_refl); congruence).
      cases; leaf.
      * apply IHfuel; sproj; auto. intros; congruence.
      * match goal with |- TI (set_tls_support false ?x) =>
          assert (E1 : secured x = secured s) by (unfold send_gated, q_append, h_add; cases; reflexivity);
          assert (E2 : tls_present x = tls_present s) by (unfold send_gated, q_append, h_add; cases; reflexivity)
        end.
        ti_split; sproj; auto; rewrite ?E1, ?E2; auto. intros; congruence.
    + assert (T0 : TI s) by (ti_split; auto; apply B).
      cases; leaf; eauto 30 with tidb.
Qed.
Lemma TI_auth : forall fuel n s, TI s -> TI (fst (auth fuel n s)).
Proof. intros fuel n s (A & B & C). apply TI_auth_gen; auto. Qed.
#[export] Hint Resolve TI_auth : tidb.
Lemma TI_sasl_result : forall n e s, TI s -> TI (fst (sasl_result n e s)).
Proof. intros; name_result; unfold sasl_result, ret; cases; leaf; eauto 30 with tidb. Qed.
#[export] Hint Resolve TI_sasl_result : tidb.
Lemma TI_features_sasl : forall n e s, TI s -> TI (fst (features_sasl n e s)).
Proof. intros; name_result; unfold features_sasl, ret; cases; leaf; eauto 30 with tidb. Qed.
#[export] Hint Resolve TI_features_sasl : tidb.
Lemma TI_call_handler_other : forall k n e s, hkind_eqb k HFeatures = false -> hkind_eqb k HProceedTls = false ->
  TI s -> TI (fst (fst (call_handler k n e s))).
Proof.
  intros k; destruct k; intros n0 e s K1 K2 H; try discriminate;
    name_result; unfold call_handler, ret; cases; leaf; eauto 30 with tidb.
Qed.
Lemma TI_call_handler_visit : forall k n e s, TI s -> h_has k s = true ->
  TI (if snd (call_handler k n e s) then fst (fst (call_handler k n e s)) else h_del k (fst (fst (call_handler k n e s)))).
Proof.
  intros k n e s H Hk.
  destruct (hkind_eqb k HFeatures) eqn:K1; [apply hkind_eqb_eq in K1; subst k|].
  { (* _handle_features *)
    unfold call_handler. cbv zeta.
    match goal with |- context [auth 1 n ?x] =>
      assert (T : TI (fst (auth 1 n x))); [ | destruct (auth 1 n x) as [s4 o4]; cbn [fst snd] in *; apply TI_h_del; exact T ] end.
    destruct H as (ti_ts & ti_i6 & ti_i2). apply TI_auth_gen; [left; discriminate | | ].
    - cases; sproj; unfold timed_del; sproj; auto.
    - cases; intros S; unfold timed_del in *; sproj_all; try congruence;
        (split; [unfold h_has; sproj; auto | sproj; auto]). }
  destruct (hkind_eqb k HProceedTls) eqn:K2; [apply hkind_eqb_eq in K2; subst k|].
  { (* _handle_proceedtls_default *)
    unfold call_handler. destruct (e_name e); try (cbn [fst snd]; apply TI_h_del; exact H).
    destruct (TI_conn_tls_start_weak s H) as (W1 & W2 & W3).
    destruct (conn_tls_start s) as [[s1 o1] ok]. cbn [fst snd] in *.
    assert (F : forall x, tls_support x = tls_support s1 -> tls_present x = tls_present s1 -> secured x = secured s1 ->
                TI (h_del HProceedTls x)).
    { intros x A B C. ti_split.
      - unfold h_del; sproj. congruence.
      - unfold h_del; sproj. rewrite B, C. exact W2.
      - intros _. rewrite h_has_h_del, hkind_eqb_refl. apply andb_false_r. }
    destruct ok; cbn [fst snd]; apply F;
      unfold conn_open_stream, prepare_reset, xmpp_disconnect, send_gated, q_append, timed_add; cases; reflexivity. }
  pose proof (TI_call_handler_other k n e s K1 K2 H) as T.
  destruct (call_handler k n e s) as [[s1 o1] keep]. cbn [fst snd] in *. destruct keep; auto with tidb.
Qed.
Lemma TI_call_id_handler : forall k n e s, TI s -> TI (fst (call_id_handler k n e s)).
Proof. intros k; destruct k; intros; name_result; unfold call_id_handler, ret; cases; leaf; eauto 30 with tidb. Qed.
#[export] Hint Resolve TI_call_id_handler : tidb.
Lemma TI_note_rx : forall e s, TI s -> TI (note_rx e s).
Proof. intros; unfold note_rx; cbv zeta; eauto with tidb. Qed.
#[export] Hint Resolve TI_note_rx : tidb.
Lemma TI_visit : forall n e r k, TI (fst r) -> TI (fst (visit n e r k)).
Proof.
  intros n e [s o] k H. cbn [fst] in H. unfold visit.
  destruct (crashed s); auto. destruct (negb (h_has k s)) eqn:E; auto. apply negb_false_iff in E.
  destruct (hkind_eqb k HUser && negb (neg_done s)); auto. destruct (negb (filter_match k e)); auto.
  pose proof (TI_call_handler_visit k n e s H E) as T.
  destruct (call_handler k n e s) as [[s1 o1] keep]. cbn [fst snd] in *. exact T.
Qed.
Lemma TI_fold_visit : forall n e l s o, TI s -> TI (fst (fold_left (visit n e) l (s, o))).
Proof. intros n e l s o H. apply (fold_left_inv (fun r => TI (fst r))); auto. intros; apply TI_visit; auto. Qed.
#[export] Hint Resolve TI_fold_visit : tidb.
Lemma TI_sm_handle : forall e s, TI s -> TI (sm_handle e s).
Proof. intros; unfold sm_handle, ret; cases; leaf; eauto 30 with tidb. Qed.
#[export] Hint Resolve TI_sm_handle : tidb.
Lemma TI_dispatch : forall n e s, TI s -> TI (fst (dispatch n e s)).
Proof. intros; name_result; unfold dispatch, ret; cases; leaf; eauto 30 with tidb. Qed.
#[export] Hint Resolve TI_dispatch : tidb.
Lemma TI_open_handler : forall n s, TI s -> TI (fst (open_handler n s)).
Proof. intros; name_result; unfold open_handler, ret; cases; leaf; eauto 30 with tidb. Qed.
#[export] Hint Resolve TI_open_handler : tidb.
Lemma TI_stream_start : forall n a b s, TI s -> TI (fst (stream_start n a b s)).
Proof. intros; name_result; unfold stream_start, ret; cases; leaf; eauto 30 with tidb. Qed.
#[export] Hint Resolve TI_stream_start : tidb.
Lemma TI_stream_end : forall s, TI s -> TI (fst (stream_end s)).
Proof. intros; name_result; unfold stream_end, ret; cases; leaf; eauto 30 with tidb. Qed.
#[export] Hint Resolve TI_stream_end : tidb.
Lemma TI_feed_item : forall n it s, TI s -> TI (fst (fst (feed_item n it s))).
Proof. intros; name_result; unfold feed_item, ret; cases; leaf; eauto 30 with tidb. Qed.
#[export] Hint Resolve TI_feed_item : tidb.
Lemma TI_feed_items : forall n its s, TI s -> TI (fst (fst (feed_items n its s))).
Proof. induction its; intros; name_result; cbn [feed_items]; cases; leaf; eauto 30 with tidb. Qed.
#[export] Hint Resolve TI_feed_items : tidb.
Lemma TI_call_timed : forall k n s, TI s -> TI (fst (fst (call_timed k n s))).
Proof. intros k; destruct k; intros; name_result; unfold call_timed, ret; cases; leaf; eauto 30 with tidb. Qed.
#[export] Hint Resolve TI_call_timed : tidb.
Lemma TI_visit_timed : forall n r k, TI (fst r) -> TI (fst (visit_timed n r k)).
Proof. intros n [s o] k H. cbn [fst] in H. name_result. unfold visit_timed. cases; leaf; eauto 30 with tidb. Qed.
Lemma TI_fold_visit_timed : forall n l s o, TI s -> TI (fst (fold_left (visit_timed n) l (s, o))).
Proof. intros n l s o H. apply (fold_left_inv (fun r => TI (fst r))); auto. intros; apply TI_visit_timed; auto. Qed.
#[export] Hint Resolve TI_fold_visit_timed : tidb.
Lemma TI_fire_timed : forall n s, TI s -> TI (fst (fire_timed n s)).
Proof. intros; name_result; unfold fire_timed, ret; cases; leaf; eauto 30 with tidb. Qed.
#[export] Hint Resolve TI_fire_timed : tidb.
Lemma TI_connect_next : forall n s, TI s -> TI (fst (fst (connect_next n s))).
Proof. intros; name_result; unfold connect_next, ret; cases; leaf; eauto 30 with tidb. Qed.
#[export] Hint Resolve TI_connect_next : tidb.
Lemma TI_conn_established : forall n s, h_has HProceedTls s = false -> TI s -> TI (fst (conn_established n s)).
Proof.
  intros n s Hp H. name_result. unfold conn_established.
  destruct (f_legacy_ssl s && negb (is_raw s)).
  - destruct (TI_conn_tls_start_weak s H) as (W1 & W2 & W3).
    destruct (conn_tls_start s) as [[s1 o1] ok]. cbn [fst snd] in *.
    assert (T1 : TI s1).
    { ti_split; auto. intros _. unfold h_has. rewrite W3. exact Hp. }
    cases; leaf; eauto 30 with tidb.
  - cases; leaf; eauto 30 with tidb.
Qed.

(* ================================================================== marks through deletions *)
Lemma hmarks_h_del : forall k s, (hmarks (h_del k s) + b2n (is_main k && h_has k s) <= hmarks s)%nat.
Proof.
  intros k s. unfold hmarks, h_del, h_has. sproj. induction (handlers s) as [|x l IH]; [cbn; rewrite andb_false_r; cbn; lia|].
  cbn [filter existsb]. destruct (hkind_eqb k (fst x)) eqn:E; cbn [negb].
  - apply hkind_eqb_eq in E. subst k. cbn [orb]. rewrite andb_true_r.
    destruct (is_main (fst x)) eqn:M; cbn [b2n List.length] in *; [|rewrite andb_false_l in IH; cbn [b2n] in IH; lia].
    destruct (existsb (fun x0 : hkind * bool => hkind_eqb (fst x) (fst x0)) l); rewrite ?andb_true_r, ?andb_false_r in IH; cbn [b2n] in IH; lia.
  - cbn [filter orb]. destruct (is_main (fst x)); cbn [List.length]; lia.
Qed.
Lemma imarks_id_del : forall k s, (imarks (id_del k s) + b2n (is_main_id k && id_has k s) <= imarks s)%nat.
Proof.
  intros k s. unfold imarks, id_del, id_has. sproj. induction (idhandlers s) as [|x l IH]; [cbn; rewrite andb_false_r; cbn; lia|].
  cbn [filter existsb]. destruct (idk_eqb k (fst x)) eqn:E; cbn [negb].
  - assert (k = fst x) by (destruct k, (fst x); cbn in E; congruence). subst k. cbn [orb]. rewrite andb_true_r.
    destruct (is_main_id (fst x)) eqn:M; cbn [b2n List.length] in *; [|rewrite andb_false_l in IH; cbn [b2n] in IH; lia].
    destruct (existsb (fun x0 : idk * bool => idk_eqb (fst x) (fst x0)) l); rewrite ?andb_true_r, ?andb_false_r in IH; cbn [b2n] in IH; lia.
  - cbn [filter orb]. destruct (is_main_id (fst x)); cbn [List.length]; lia.
Qed.
Lemma marks_h_del : forall k s, (marks (h_del k s) + b2n (is_main k && h_has k s) <= marks s)%nat.
Proof.
  intros k s. pose proof (hmarks_h_del k s). unfold marks.
  assert (imarks (h_del k s) = imarks s) as -> by reflexivity.
  assert (pending (h_del k s) = pending s) as -> by reflexivity. lia.
Qed.
Lemma marks_id_del : forall k s, (marks (id_del k s) + b2n (is_main_id k && id_has k s) <= marks s)%nat.
Proof.
  intros k s. pose proof (imarks_id_del k s). unfold marks.
  assert (hmarks (id_del k s) = hmarks s) as -> by reflexivity.
  assert (pending (id_del k s) = pending s) as -> by reflexivity. lia.
Qed.
Lemma hmarks_enable_all : forall s, hmarks (set_handlers (map (fun x => (fst x, true)) (handlers s)) s) = hmarks s.
Proof.
  intros. unfold hmarks. sproj. induction (handlers s) as [|x l IH]; [reflexivity|]. cbn [map filter fst].
  destruct (is_main (fst x)); cbn [List.length]; rewrite IH; reflexivity.
Qed.
Lemma marks_enable_all : forall s, marks (set_handlers (map (fun x => (fst x, true)) (handlers s)) s) = marks s.
Proof. intros. unfold marks. rewrite hmarks_enable_all. reflexivity. Qed.
Lemma h_has_Bd : forall d s0 s k, Bd d s0 s -> h_has k s0 = true -> h_has k s = true.
Proof. intros d s0 s k [] H. destruct bd_h0 as [l E]. unfold h_has at 1. rewrite E, h_has_app, H. reflexivity. Qed.
Lemma id_has_Bd : forall d s0 s k, Bd d s0 s -> id_has k s0 = true -> id_has k s = true.
Proof. intros d s0 s k [] H. destruct bd_i0 as [l E]. unfold id_has in *. rewrite E, existsb_app, H. reflexivity. Qed.

Lemma Bd_call_handler : forall k n e d s0 s, Bd d s0 s ->
  Bd (b2n (is_main k && negb (snd (call_handler k n e s))) + d) s0 (fst (fst (call_handler k n e s))).
Proof. intros k; destruct k; intros; name_result; unfold call_handler, ret; bd. Qed.
Lemma first_scram_nil : forall k i, first_scram i k [] = None.
Proof. induction k; intros; cbn; auto. Qed.
(* _auth started by the features time-out: nothing was offered, so no SASL / STARTTLS handler *)
Lemma Bd_auth0 : forall fuel n d s0 s, tls_support s = false -> sasl s = [] -> Bd d s0 s -> Bd (0 + d) s0 (fst (auth fuel n s)).
Proof.
  intros fuel n d s0 s T S H. name_result.
  destruct fuel; cbn [auth]; unfold ret; rewrite T, S, first_scram_nil; cbn [mem_mech existsb andb]; bd.
Qed.
Lemma st_q_append : forall w u sm s, st (q_append w u sm s) = st s.
Proof. intros; unfold q_append, ret; cases; leaf; repeat (autorewrite with stdb; sproj); first [reflexivity | congruence]. Qed.
#[export] Hint Rewrite st_q_append : stdb.
Lemma st_send_gated : forall w u sm s, st (send_gated w u sm s) = st s.
Proof. intros; unfold send_gated, ret; cases; leaf; repeat (autorewrite with stdb; sproj); first [reflexivity | congruence]. Qed.
#[export] Hint Rewrite st_send_gated : stdb.
Lemma st_send_raw_m : forall w u sm s, st (send_raw_m w u sm s) = st s.
Proof. intros; unfold send_raw_m, ret; cases; leaf; repeat (autorewrite with stdb; sproj); first [reflexivity | congruence]. Qed.
#[export] Hint Rewrite st_send_raw_m : stdb.
Lemma st_timed_add : forall k n s, st (timed_add k n s) = st s.
Proof. intros; unfold timed_add, ret; cases; leaf; repeat (autorewrite with stdb; sproj); first [reflexivity | congruence]. Qed.
#[export] Hint Rewrite st_timed_add : stdb.
Lemma st_timed_del : forall k s, st (timed_del k s) = st s.
Proof. intros; unfold timed_del, ret; cases; leaf; repeat (autorewrite with stdb; sproj); first [reflexivity | congruence]. Qed.
#[export] Hint Rewrite st_timed_del : stdb.
Lemma st_timed_reset_all : forall n s, st (timed_reset_all n s) = st s.
Proof. intros; unfold timed_reset_all, ret; cases; leaf; repeat (autorewrite with stdb; sproj); first [reflexivity | congruence]. Qed.
#[export] Hint Rewrite st_timed_reset_all : stdb.
Lemma st_timed_set_stamp : forall k n s, st (timed_set_stamp k n s) = st s.
Proof. intros; unfold timed_set_stamp, ret; cases; leaf; repeat (autorewrite with stdb; sproj); first [reflexivity | congruence]. Qed.
#[export] Hint Rewrite st_timed_set_stamp : stdb.
Lemma st_h_add : forall k s, st (h_add k s) = st s.
Proof. intros; unfold h_add, ret; cases; leaf; repeat (autorewrite with stdb; sproj); first [reflexivity | congruence]. Qed.
#[export] Hint Rewrite st_h_add : stdb.
Lemma st_h_del : forall k s, st (h_del k s) = st s.
Proof. intros; unfold h_del, ret; cases; leaf; repeat (autorewrite with stdb; sproj); first [reflexivity | congruence]. Qed.
#[export] Hint Rewrite st_h_del : stdb.
Lemma st_id_add : forall k s, st (id_add k s) = st s.
Proof. intros; unfold id_add, ret; cases; leaf; repeat (autorewrite with stdb; sproj); first [reflexivity | congruence]. Qed.
#[export] Hint Rewrite st_id_add : stdb.
Lemma st_id_del : forall k s, st (id_del k s) = st s.
Proof. intros; unfold id_del, ret; cases; leaf; repeat (autorewrite with stdb; sproj); first [reflexivity | congruence]. Qed.
#[export] Hint Rewrite st_id_del : stdb.
Lemma st_reset_sm_for_reconnect : forall s, st (reset_sm_for_reconnect s) = st s.
Proof. intros; unfold reset_sm_for_reconnect, ret; cases; leaf; repeat (autorewrite with stdb; sproj); first [reflexivity | congruence]. Qed.
#[export] Hint Rewrite st_reset_sm_for_reconnect : stdb.
Lemma st_sm_queue_cleanup : forall h s, st (sm_queue_cleanup h s) = st s.
Proof. intros; unfold sm_queue_cleanup, ret; cases; leaf; repeat (autorewrite with stdb; sproj); first [reflexivity | congruence]. Qed.
#[export] Hint Rewrite st_sm_queue_cleanup : stdb.
Lemma st_sm_queue_resend : forall s, st (sm_queue_resend s) = st s.
Proof. intros; unfold sm_queue_resend. match goal with |- st (fold_left ?f ?l ?a) = _ => change (st s) with (st a); apply (fold_left_inv (fun x => st x = st a)); [intros x y E; rewrite <- E; autorewrite with stdb; reflexivity | reflexivity] end. Qed.
#[export] Hint Rewrite st_sm_queue_resend : stdb.
Lemma st_xmpp_disconnect : forall n s, st (xmpp_disconnect n s) = st s.
Proof. intros; unfold xmpp_disconnect, ret; cases; leaf; repeat (autorewrite with stdb; sproj); first [reflexivity | congruence]. Qed.
#[export] Hint Rewrite st_xmpp_disconnect : stdb.
Lemma st_prepare_reset : forall h s, st (prepare_reset h s) = st s.
Proof. intros; unfold prepare_reset, ret; cases; leaf; repeat (autorewrite with stdb; sproj); first [reflexivity | congruence]. Qed.
#[export] Hint Rewrite st_prepare_reset : stdb.
Lemma st_conn_open_stream : forall s, st (conn_open_stream s) = st s.
Proof. intros; unfold conn_open_stream, ret; cases; leaf; repeat (autorewrite with stdb; sproj); first [reflexivity | congruence]. Qed.
#[export] Hint Rewrite st_conn_open_stream : stdb.
Lemma st_conn_tls_start : forall s, st (fst (fst (conn_tls_start s))) = st s.
Proof. intros; name_result; unfold conn_tls_start, ret; cases; leaf; repeat (autorewrite with stdb; sproj); first [reflexivity | congruence]. Qed.
#[export] Hint Rewrite st_conn_tls_start : stdb.
Lemma st_stream_negotiation_success : forall s, st (fst (stream_negotiation_success s)) = st s.
Proof. intros; name_result; unfold stream_negotiation_success, ret; cases; leaf; repeat (autorewrite with stdb; sproj); first [reflexivity | congruence]. Qed.
#[export] Hint Rewrite st_stream_negotiation_success : stdb.
Lemma st_do_bind : forall n b s, st (fst (do_bind n b s)) = st s.
Proof. intros; name_result; unfold do_bind, ret; cases; leaf; repeat (autorewrite with stdb; sproj); first [reflexivity | congruence]. Qed.
#[export] Hint Rewrite st_do_bind : stdb.
Lemma st_session_start : forall n s, st (session_start n s) = st s.
Proof. intros; unfold session_start, ret; cases; leaf; repeat (autorewrite with stdb; sproj); first [reflexivity | congruence]. Qed.
#[export] Hint Rewrite st_session_start : stdb.
Lemma st_sm_enable : forall s, st (sm_enable s) = st s.
Proof. intros; unfold sm_enable, ret; cases; leaf; repeat (autorewrite with stdb; sproj); first [reflexivity | congruence]. Qed.
#[export] Hint Rewrite st_sm_enable : stdb.
Lemma st_auth_legacy : forall n s, st (auth_legacy n s) = st s.
Proof. intros; unfold auth_legacy, ret; cases; leaf; repeat (autorewrite with stdb; sproj); first [reflexivity | congruence]. Qed.
#[export] Hint Rewrite st_auth_legacy : stdb.
Lemma st_features_sasl : forall n e s, st (fst (features_sasl n e s)) = st s.
Proof. intros; name_result; unfold features_sasl, ret; cases; leaf; repeat (autorewrite with stdb; sproj); first [reflexivity | congruence]. Qed.
#[export] Hint Rewrite st_features_sasl : stdb.
Lemma st_note_rx : forall e s, st (note_rx e s) = st s.
Proof. intros; unfold note_rx; reflexivity. Qed.
#[export] Hint Rewrite st_note_rx : stdb.
Lemma st_sm_handle : forall e s, st (sm_handle e s) = st s.
Proof. intros; unfold sm_handle, ret; cases; leaf; repeat (autorewrite with stdb; sproj); first [reflexivity | congruence]. Qed.
#[export] Hint Rewrite st_sm_handle : stdb.
Lemma st_open_handler : forall n s, st (fst (open_handler n s)) = st s.
Proof. intros; name_result; unfold open_handler, ret; cases; leaf; repeat (autorewrite with stdb; sproj); first [reflexivity | congruence]. Qed.
#[export] Hint Rewrite st_open_handler : stdb.
Lemma st_connect_next : forall n s, st (fst (fst (connect_next n s))) = st s.
Proof. intros; name_result; unfold connect_next, ret; cases; leaf; repeat (autorewrite with stdb; sproj); first [reflexivity | congruence]. Qed.
#[export] Hint Rewrite st_connect_next : stdb.

(* ================================================================== HFr: handlers, id handlers and parser bookkeeping untouched *)
Record HFr (s0 s : state) : Prop := mkHFr {
  hfr_h : handlers s = handlers s0;
  hfr_i : idhandlers s = idhandlers s0;
  hfr_oh : oh s = oh s0;
  hfr_rp : reset_parser s = reset_parser s0;
  hfr_ps : ps s = ps s0
}.
Lemma HFr_refl : forall s, HFr s s. Proof. intros; constructor; reflexivity. Qed.
Lemma HFr_trans : forall a b c, HFr a b -> HFr b c -> HFr a c.
Proof. intros a b c [] []; constructor; congruence. Qed.
#[export] Hint Resolve HFr_refl : hfrdb.
Lemma HFr_set_f_tls_disabled : forall v s0 s, HFr s0 s -> HFr s0 (set_f_tls_disabled v s).
Proof. intros v s0 s H; apply (HFr_trans _ _ _ H); destruct s; constructor; reflexivity. Qed.
#[export] Hint Resolve HFr_set_f_tls_disabled : hfrdb.
Lemma HFr_set_f_tls_mandatory : forall v s0 s, HFr s0 s -> HFr s0 (set_f_tls_mandatory v s).
Proof. intros v s0 s H; apply (HFr_trans _ _ _ H); destruct s; constructor; reflexivity. Qed.
#[export] Hint Resolve HFr_set_f_tls_mandatory : hfrdb.
Lemma HFr_set_f_legacy_ssl : forall v s0 s, HFr s0 s -> HFr s0 (set_f_legacy_ssl v s).
Proof. intros v s0 s H; apply (HFr_trans _ _ _ H); destruct s; constructor; reflexivity. Qed.
#[export] Hint Resolve HFr_set_f_legacy_ssl : hfrdb.
Lemma HFr_set_f_tls_trust : forall v s0 s, HFr s0 s -> HFr s0 (set_f_tls_trust v s).
Proof. intros v s0 s H; apply (HFr_trans _ _ _ H); destruct s; constructor; reflexivity. Qed.
#[export] Hint Resolve HFr_set_f_tls_trust : hfrdb.
Lemma HFr_set_f_legacy_auth : forall v s0 s, HFr s0 s -> HFr s0 (set_f_legacy_auth v s).
Proof. intros v s0 s H; apply (HFr_trans _ _ _ H); destruct s; constructor; reflexivity. Qed.
#[export] Hint Resolve HFr_set_f_legacy_auth : hfrdb.
Lemma HFr_set_f_sm_disable : forall v s0 s, HFr s0 s -> HFr s0 (set_f_sm_disable v s).
Proof. intros v s0 s H; apply (HFr_trans _ _ _ H); destruct s; constructor; reflexivity. Qed.
#[export] Hint Resolve HFr_set_f_sm_disable : hfrdb.
Lemma HFr_set_f_comp_allowed : forall v s0 s, HFr s0 s -> HFr s0 (set_f_comp_allowed v s).
Proof. intros v s0 s H; apply (HFr_trans _ _ _ H); destruct s; constructor; reflexivity. Qed.
#[export] Hint Resolve HFr_set_f_comp_allowed : hfrdb.
Lemma HFr_set_f_comp_dont_reset : forall v s0 s, HFr s0 s -> HFr s0 (set_f_comp_dont_reset v s).
Proof. intros v s0 s H; apply (HFr_trans _ _ _ H); destruct s; constructor; reflexivity. Qed.
#[export] Hint Resolve HFr_set_f_comp_dont_reset : hfrdb.
Lemma HFr_set_jid_set : forall v s0 s, HFr s0 s -> HFr s0 (set_jid_set v s).
Proof. intros v s0 s H; apply (HFr_trans _ _ _ H); destruct s; constructor; reflexivity. Qed.
#[export] Hint Resolve HFr_set_jid_set : hfrdb.
Lemma HFr_set_jid_node : forall v s0 s, HFr s0 s -> HFr s0 (set_jid_node v s).
Proof. intros v s0 s H; apply (HFr_trans _ _ _ H); destruct s; constructor; reflexivity. Qed.
#[export] Hint Resolve HFr_set_jid_node : hfrdb.
Lemma HFr_set_jid_res : forall v s0 s, HFr s0 s -> HFr s0 (set_jid_res v s).
Proof. intros v s0 s H; apply (HFr_trans _ _ _ H); destruct s; constructor; reflexivity. Qed.
#[export] Hint Resolve HFr_set_jid_res : hfrdb.
Lemma HFr_set_pass_set : forall v s0 s, HFr s0 s -> HFr s0 (set_pass_set v s).
Proof. intros v s0 s H; apply (HFr_trans _ _ _ H); destruct s; constructor; reflexivity. Qed.
#[export] Hint Resolve HFr_set_pass_set : hfrdb.
Lemma HFr_set_cert_set : forall v s0 s, HFr s0 s -> HFr s0 (set_cert_set v s).
Proof. intros v s0 s H; apply (HFr_trans _ _ _ H); destruct s; constructor; reflexivity. Qed.
#[export] Hint Resolve HFr_set_cert_set : hfrdb.
Lemma HFr_set_is_raw : forall v s0 s, HFr s0 s -> HFr s0 (set_is_raw v s).
Proof. intros v s0 s H; apply (HFr_trans _ _ _ H); destruct s; constructor; reflexivity. Qed.
#[export] Hint Resolve HFr_set_is_raw : hfrdb.
Lemma HFr_set_typ : forall v s0 s, HFr s0 s -> HFr s0 (set_typ v s).
Proof. intros v s0 s H; apply (HFr_trans _ _ _ H); destruct s; constructor; reflexivity. Qed.
#[export] Hint Resolve HFr_set_typ : hfrdb.
Lemma HFr_set_user_handler : forall v s0 s, HFr s0 s -> HFr s0 (set_user_handler v s).
Proof. intros v s0 s H; apply (HFr_trans _ _ _ H); destruct s; constructor; reflexivity. Qed.
#[export] Hint Resolve HFr_set_user_handler : hfrdb.
Lemma HFr_set_user_timed : forall v s0 s, HFr s0 s -> HFr s0 (set_user_timed v s).
Proof. intros v s0 s H; apply (HFr_trans _ _ _ H); destruct s; constructor; reflexivity. Qed.
#[export] Hint Resolve HFr_set_user_timed : hfrdb.
Lemma HFr_set_tlsnew_ok : forall v s0 s, HFr s0 s -> HFr s0 (set_tlsnew_ok v s).
Proof. intros v s0 s H; apply (HFr_trans _ _ _ H); destruct s; constructor; reflexivity. Qed.
#[export] Hint Resolve HFr_set_tlsnew_ok : hfrdb.
Lemma HFr_set_cb_avail : forall v s0 s, HFr s0 s -> HFr s0 (set_cb_avail v s).
Proof. intros v s0 s H; apply (HFr_trans _ _ _ H); destruct s; constructor; reflexivity. Qed.
#[export] Hint Resolve HFr_set_cb_avail : hfrdb.
Lemma HFr_set_tls_verdicts : forall v s0 s, HFr s0 s -> HFr s0 (set_tls_verdicts v s).
Proof. intros v s0 s H; apply (HFr_trans _ _ _ H); destruct s; constructor; reflexivity. Qed.
#[export] Hint Resolve HFr_set_tls_verdicts : hfrdb.
Lemma HFr_set_next_cands : forall v s0 s, HFr s0 s -> HFr s0 (set_next_cands v s).
Proof. intros v s0 s H; apply (HFr_trans _ _ _ H); destruct s; constructor; reflexivity. Qed.
#[export] Hint Resolve HFr_set_next_cands : hfrdb.
Lemma HFr_set_cands : forall v s0 s, HFr s0 s -> HFr s0 (set_cands v s).
Proof. intros v s0 s H; apply (HFr_trans _ _ _ H); destruct s; constructor; reflexivity. Qed.
#[export] Hint Resolve HFr_set_cands : hfrdb.
Lemma HFr_set_cur_ep : forall v s0 s, HFr s0 s -> HFr s0 (set_cur_ep v s).
Proof. intros v s0 s H; apply (HFr_trans _ _ _ H); destruct s; constructor; reflexivity. Qed.
#[export] Hint Resolve HFr_set_cur_ep : hfrdb.
Lemma HFr_set_st : forall v s0 s, HFr s0 s -> HFr s0 (set_st v s).
Proof. intros v s0 s H; apply (HFr_trans _ _ _ H); destruct s; constructor; reflexivity. Qed.
#[export] Hint Resolve HFr_set_st : hfrdb.
Lemma HFr_set_stamp : forall v s0 s, HFr s0 s -> HFr s0 (set_stamp v s).
Proof. intros v s0 s H; apply (HFr_trans _ _ _ H); destruct s; constructor; reflexivity. Qed.
#[export] Hint Resolve HFr_set_stamp : hfrdb.
Lemma HFr_set_err : forall v s0 s, HFr s0 s -> HFr s0 (set_err v s).
Proof. intros v s0 s H; apply (HFr_trans _ _ _ H); destruct s; constructor; reflexivity. Qed.
#[export] Hint Resolve HFr_set_err : hfrdb.
Lemma HFr_set_stream_error : forall v s0 s, HFr s0 s -> HFr s0 (set_stream_error v s).
Proof. intros v s0 s H; apply (HFr_trans _ _ _ H); destruct s; constructor; reflexivity. Qed.
#[export] Hint Resolve HFr_set_stream_error : hfrdb.
Lemma HFr_set_secured : forall v s0 s, HFr s0 s -> HFr s0 (set_secured v s).
Proof. intros v s0 s H; apply (HFr_trans _ _ _ H); destruct s; constructor; reflexivity. Qed.
#[export] Hint Resolve HFr_set_secured : hfrdb.
Lemma HFr_set_tls_present : forall v s0 s, HFr s0 s -> HFr s0 (set_tls_present v s).
Proof. intros v s0 s H; apply (HFr_trans _ _ _ H); destruct s; constructor; reflexivity. Qed.
#[export] Hint Resolve HFr_set_tls_present : hfrdb.
Lemma HFr_set_tls_failed : forall v s0 s, HFr s0 s -> HFr s0 (set_tls_failed v s).
Proof. intros v s0 s H; apply (HFr_trans _ _ _ H); destruct s; constructor; reflexivity. Qed.
#[export] Hint Resolve HFr_set_tls_failed : hfrdb.
Lemma HFr_set_tls_support : forall v s0 s, HFr s0 s -> HFr s0 (set_tls_support v s).
Proof. intros v s0 s H; apply (HFr_trans _ _ _ H); destruct s; constructor; reflexivity. Qed.
#[export] Hint Resolve HFr_set_tls_support : hfrdb.
Lemma HFr_set_sasl : forall v s0 s, HFr s0 s -> HFr s0 (set_sasl v s).
Proof. intros v s0 s H; apply (HFr_trans _ _ _ H); destruct s; constructor; reflexivity. Qed.
#[export] Hint Resolve HFr_set_sasl : hfrdb.
Lemma HFr_set_bind_required : forall v s0 s, HFr s0 s -> HFr s0 (set_bind_required v s).
Proof. intros v s0 s H; apply (HFr_trans _ _ _ H); destruct s; constructor; reflexivity. Qed.
#[export] Hint Resolve HFr_set_bind_required : hfrdb.
Lemma HFr_set_session_required : forall v s0 s, HFr s0 s -> HFr s0 (set_session_required v s).
Proof. intros v s0 s H; apply (HFr_trans _ _ _ H); destruct s; constructor; reflexivity. Qed.
#[export] Hint Resolve HFr_set_session_required : hfrdb.
Lemma HFr_set_comp_supported : forall v s0 s, HFr s0 s -> HFr s0 (set_comp_supported v s).
Proof. intros v s0 s H; apply (HFr_trans _ _ _ H); destruct s; constructor; reflexivity. Qed.
#[export] Hint Resolve HFr_set_comp_supported : hfrdb.
Lemma HFr_set_comp_active : forall v s0 s, HFr s0 s -> HFr s0 (set_comp_active v s).
Proof. intros v s0 s H; apply (HFr_trans _ _ _ H); destruct s; constructor; reflexivity. Qed.
#[export] Hint Resolve HFr_set_comp_active : hfrdb.
Lemma HFr_set_sm_alloc : forall v s0 s, HFr s0 s -> HFr s0 (set_sm_alloc v s).
Proof. intros v s0 s H; apply (HFr_trans _ _ _ H); destruct s; constructor; reflexivity. Qed.
#[export] Hint Resolve HFr_set_sm_alloc : hfrdb.
Lemma HFr_set_sm_support : forall v s0 s, HFr s0 s -> HFr s0 (set_sm_support v s).
Proof. intros v s0 s H; apply (HFr_trans _ _ _ H); destruct s; constructor; reflexivity. Qed.
#[export] Hint Resolve HFr_set_sm_support : hfrdb.
Lemma HFr_set_sm_enabled : forall v s0 s, HFr s0 s -> HFr s0 (set_sm_enabled v s).
Proof. intros v s0 s H; apply (HFr_trans _ _ _ H); destruct s; constructor; reflexivity. Qed.
#[export] Hint Resolve HFr_set_sm_enabled : hfrdb.
Lemma HFr_set_sm_can_resume : forall v s0 s, HFr s0 s -> HFr s0 (set_sm_can_resume v s).
Proof. intros v s0 s H; apply (HFr_trans _ _ _ H); destruct s; constructor; reflexivity. Qed.
#[export] Hint Resolve HFr_set_sm_can_resume : hfrdb.
Lemma HFr_set_sm_resume : forall v s0 s, HFr s0 s -> HFr s0 (set_sm_resume v s).
Proof. intros v s0 s H; apply (HFr_trans _ _ _ H); destruct s; constructor; reflexivity. Qed.
#[export] Hint Resolve HFr_set_sm_resume : hfrdb.
Lemma HFr_set_sm_dont_request : forall v s0 s, HFr s0 s -> HFr s0 (set_sm_dont_request v s).
Proof. intros v s0 s H; apply (HFr_trans _ _ _ H); destruct s; constructor; reflexivity. Qed.
#[export] Hint Resolve HFr_set_sm_dont_request : hfrdb.
Lemma HFr_set_sm_has_previd : forall v s0 s, HFr s0 s -> HFr s0 (set_sm_has_previd v s).
Proof. intros v s0 s H; apply (HFr_trans _ _ _ H); destruct s; constructor; reflexivity. Qed.
#[export] Hint Resolve HFr_set_sm_has_previd : hfrdb.
Lemma HFr_set_sm_has_id : forall v s0 s, HFr s0 s -> HFr s0 (set_sm_has_id v s).
Proof. intros v s0 s H; apply (HFr_trans _ _ _ H); destruct s; constructor; reflexivity. Qed.
#[export] Hint Resolve HFr_set_sm_has_id : hfrdb.
Lemma HFr_set_sm_parked : forall v s0 s, HFr s0 s -> HFr s0 (set_sm_parked v s).
Proof. intros v s0 s H; apply (HFr_trans _ _ _ H); destruct s; constructor; reflexivity. Qed.
#[export] Hint Resolve HFr_set_sm_parked : hfrdb.
Lemma HFr_set_sm_r_sent : forall v s0 s, HFr s0 s -> HFr s0 (set_sm_r_sent v s).
Proof. intros v s0 s H; apply (HFr_trans _ _ _ H); destruct s; constructor; reflexivity. Qed.
#[export] Hint Resolve HFr_set_sm_r_sent : hfrdb.
Lemma HFr_set_sm_bind_saved : forall v s0 s, HFr s0 s -> HFr s0 (set_sm_bind_saved v s).
Proof. intros v s0 s H; apply (HFr_trans _ _ _ H); destruct s; constructor; reflexivity. Qed.
#[export] Hint Resolve HFr_set_sm_bind_saved : hfrdb.
Lemma HFr_set_bound_jid : forall v s0 s, HFr s0 s -> HFr s0 (set_bound_jid v s).
Proof. intros v s0 s H; apply (HFr_trans _ _ _ H); destruct s; constructor; reflexivity. Qed.
#[export] Hint Resolve HFr_set_bound_jid : hfrdb.
Lemma HFr_set_stream_id : forall v s0 s, HFr s0 s -> HFr s0 (set_stream_id v s).
Proof. intros v s0 s H; apply (HFr_trans _ _ _ H); destruct s; constructor; reflexivity. Qed.
#[export] Hint Resolve HFr_set_stream_id : hfrdb.
Lemma HFr_set_neg_done : forall v s0 s, HFr s0 s -> HFr s0 (set_neg_done v s).
Proof. intros v s0 s H; apply (HFr_trans _ _ _ H); destruct s; constructor; reflexivity. Qed.
#[export] Hint Resolve HFr_set_neg_done : hfrdb.
Lemma HFr_set_timed : forall v s0 s, HFr s0 s -> HFr s0 (set_timed v s).
Proof. intros v s0 s H; apply (HFr_trans _ _ _ H); destruct s; constructor; reflexivity. Qed.
#[export] Hint Resolve HFr_set_timed : hfrdb.
Lemma HFr_set_sendq : forall v s0 s, HFr s0 s -> HFr s0 (set_sendq v s).
Proof. intros v s0 s H; apply (HFr_trans _ _ _ H); destruct s; constructor; reflexivity. Qed.
#[export] Hint Resolve HFr_set_sendq : hfrdb.
Lemma HFr_set_rxq : forall v s0 s, HFr s0 s -> HFr s0 (set_rxq v s).
Proof. intros v s0 s H; apply (HFr_trans _ _ _ H); destruct s; constructor; reflexivity. Qed.
#[export] Hint Resolve HFr_set_rxq : hfrdb.
Lemma HFr_set_smq : forall v s0 s, HFr s0 s -> HFr s0 (set_smq v s).
Proof. intros v s0 s H; apply (HFr_trans _ _ _ H); destruct s; constructor; reflexivity. Qed.
#[export] Hint Resolve HFr_set_smq : hfrdb.
Lemma HFr_set_sm_sent : forall v s0 s, HFr s0 s -> HFr s0 (set_sm_sent v s).
Proof. intros v s0 s H; apply (HFr_trans _ _ _ H); destruct s; constructor; reflexivity. Qed.
#[export] Hint Resolve HFr_set_sm_sent : hfrdb.
Lemma HFr_set_scram_serial : forall v s0 s, HFr s0 s -> HFr s0 (set_scram_serial v s).
Proof. intros v s0 s H; apply (HFr_trans _ _ _ H); destruct s; constructor; reflexivity. Qed.
#[export] Hint Resolve HFr_set_scram_serial : hfrdb.
Lemma HFr_set_crashed : forall v s0 s, HFr s0 s -> HFr s0 (set_crashed v s).
Proof. intros v s0 s H; apply (HFr_trans _ _ _ H); destruct s; constructor; reflexivity. Qed.
#[export] Hint Resolve HFr_set_crashed : hfrdb.
Lemma HFr_set_gh : forall v s0 s, HFr s0 s -> HFr s0 (set_gh v s).
Proof. intros v s0 s H; apply (HFr_trans _ _ _ H); destruct s; constructor; reflexivity. Qed.
#[export] Hint Resolve HFr_set_gh : hfrdb.
Lemma HFr_upg : forall f s0 s, HFr s0 s -> HFr s0 (upg f s).
Proof. intros f s0 s H; apply (HFr_trans _ _ _ H); destruct s; constructor; reflexivity. Qed.
#[export] Hint Resolve HFr_upg : hfrdb.
Lemma HFr_q_append : forall w u sm s0 s, HFr s0 s -> HFr s0 (q_append w u sm s).
Proof. intros; unfold q_append, ret; cases; leaf; eauto 30 with hfrdb. Qed.
#[export] Hint Resolve HFr_q_append : hfrdb.
Lemma HFr_send_gated : forall w u sm s0 s, HFr s0 s -> HFr s0 (send_gated w u sm s).
Proof. intros; unfold send_gated, ret; cases; leaf; eauto 30 with hfrdb. Qed.
#[export] Hint Resolve HFr_send_gated : hfrdb.
Lemma HFr_send_raw_m : forall w u sm s0 s, HFr s0 s -> HFr s0 (send_raw_m w u sm s).
Proof. intros; unfold send_raw_m, ret; cases; leaf; eauto 30 with hfrdb. Qed.
#[export] Hint Resolve HFr_send_raw_m : hfrdb.
Lemma HFr_timed_add : forall k n s0 s, HFr s0 s -> HFr s0 (timed_add k n s).
Proof. intros; unfold timed_add, ret; cases; leaf; eauto 30 with hfrdb. Qed.
#[export] Hint Resolve HFr_timed_add : hfrdb.
Lemma HFr_timed_del : forall k s0 s, HFr s0 s -> HFr s0 (timed_del k s).
Proof. intros; unfold timed_del, ret; cases; leaf; eauto 30 with hfrdb. Qed.
#[export] Hint Resolve HFr_timed_del : hfrdb.
Lemma HFr_timed_reset_all : forall n s0 s, HFr s0 s -> HFr s0 (timed_reset_all n s).
Proof. intros; unfold timed_reset_all, ret; cases; leaf; eauto 30 with hfrdb. Qed.
#[export] Hint Resolve HFr_timed_reset_all : hfrdb.
Lemma HFr_timed_set_stamp : forall k n s0 s, HFr s0 s -> HFr s0 (timed_set_stamp k n s).
Proof. intros; unfold timed_set_stamp, ret; cases; leaf; eauto 30 with hfrdb. Qed.
#[export] Hint Resolve HFr_timed_set_stamp : hfrdb.
Lemma HFr_reset_sm_for_reconnect : forall s0 s, HFr s0 s -> HFr s0 (reset_sm_for_reconnect s).
Proof. intros; unfold reset_sm_for_reconnect, ret; cases; leaf; eauto 30 with hfrdb. Qed.
#[export] Hint Resolve HFr_reset_sm_for_reconnect : hfrdb.
Lemma HFr_sm_queue_cleanup : forall h s0 s, HFr s0 s -> HFr s0 (sm_queue_cleanup h s).
Proof. intros; unfold sm_queue_cleanup, ret; cases; leaf; eauto 30 with hfrdb. Qed.
#[export] Hint Resolve HFr_sm_queue_cleanup : hfrdb.
Lemma HFr_sm_queue_resend : forall s0 s, HFr s0 s -> HFr s0 (sm_queue_resend s).
Proof. intros; unfold sm_queue_resend; apply fold_left_inv; eauto with hfrdb. Qed.
#[export] Hint Resolve HFr_sm_queue_resend : hfrdb.
Lemma HFr_conn_disconnect : forall s0 s, HFr s0 s -> HFr s0 (fst (conn_disconnect s)).
Proof. intros; name_result; unfold conn_disconnect, ret; cases; leaf; eauto 30 with hfrdb. Qed.
#[export] Hint Resolve HFr_conn_disconnect : hfrdb.
Lemma HFr_xmpp_disconnect : forall n s0 s, HFr s0 s -> HFr s0 (xmpp_disconnect n s).
Proof. intros; unfold xmpp_disconnect, ret; cases; leaf; eauto 30 with hfrdb. Qed.
#[export] Hint Resolve HFr_xmpp_disconnect : hfrdb.
Lemma HFr_conn_open_stream : forall s0 s, HFr s0 s -> HFr s0 (conn_open_stream s).
Proof. intros; unfold conn_open_stream, ret; cases; leaf; eauto 30 with hfrdb. Qed.
#[export] Hint Resolve HFr_conn_open_stream : hfrdb.
Lemma HFr_conn_tls_start : forall s0 s, HFr s0 s -> HFr s0 (fst (fst (conn_tls_start s))).
Proof. intros; name_result; unfold conn_tls_start, ret; cases; leaf; eauto 30 with hfrdb. Qed.
#[export] Hint Resolve HFr_conn_tls_start : hfrdb.
Lemma HFr_stream_negotiation_success : forall s0 s, HFr s0 s -> HFr s0 (fst (stream_negotiation_success s)).
Proof. intros; name_result; unfold stream_negotiation_success, ret; cases; leaf; eauto 30 with hfrdb. Qed.
#[export] Hint Resolve HFr_stream_negotiation_success : hfrdb.
Lemma HFr_note_rx : forall e s0 s, HFr s0 s -> HFr s0 (note_rx e s).
Proof. intros; unfold note_rx; cbv zeta; eauto with hfrdb. Qed.
#[export] Hint Resolve HFr_note_rx : hfrdb.
Lemma HFr_sm_handle : forall e s0 s, HFr s0 s -> HFr s0 (sm_handle e s).
Proof. intros; unfold sm_handle, ret; cases; leaf; eauto 30 with hfrdb. Qed.
#[export] Hint Resolve HFr_sm_handle : hfrdb.
Lemma HFr_connect_next : forall n s0 s, HFr s0 s -> HFr s0 (fst (fst (connect_next n s))).
Proof. intros; name_result; unfold connect_next; destruct (sock_connect (cands s)) as [oo [[k r]|]]; leaf; eauto 20 with hfrdb. Qed.
#[export] Hint Resolve HFr_connect_next : hfrdb.
Lemma marks_HFr : forall s0 s, HFr s0 s -> marks s = marks s0.
Proof. intros s0 s []. unfold marks, hmarks, imarks, pending. rewrite hfr_h0, hfr_i0, hfr_oh0, hfr_rp0, hfr_ps0. reflexivity. Qed.

(* ------------------------------------------------------------------ timed-list observables *)
Lemma tkind_eqb_eq : forall a b, tkind_eqb a b = true -> a = b.
Proof. destruct a, b; cbn; intros; try discriminate; reflexivity. Qed.
Lemma tkind_eqb_refl : forall a, tkind_eqb a a = true.
Proof. destruct a; reflexivity. Qed.
Lemma timed_has_timed_add : forall k' k n s, timed_has k' (timed_add k n s) = timed_has k' s || tkind_eqb k' k.
Proof.
  intros. unfold timed_add. destruct (timed_has k s) eqn:E.
  - destruct (tkind_eqb k' k) eqn:E2; [apply tkind_eqb_eq in E2; subst; rewrite E; reflexivity | rewrite orb_false_r; reflexivity].
  - unfold timed_has. sproj. cbn [existsb fst]. apply orb_comm.
Qed.
Lemma timed_has_timed_del : forall k' k s, timed_has k' (timed_del k s) = timed_has k' s && negb (tkind_eqb k' k).
Proof.
  intros k' k s. unfold timed_del, timed_has. sproj. induction (timed s) as [|x l IH]; [reflexivity|].
  cbn [filter existsb]. destruct (tkind_eqb k (fst (fst x))) eqn:E; cbn [negb].
  - rewrite IH. apply tkind_eqb_eq in E. subst k.
    destruct (tkind_eqb k' (fst (fst x))) eqn:E2; cbn [orb negb]; rewrite ?andb_false_r; reflexivity.
  - cbn [existsb]. rewrite IH. destruct (tkind_eqb k' (fst (fst x))) eqn:E2; cbn [orb]; [|reflexivity].
    apply tkind_eqb_eq in E2. subst k'.
    assert (tkind_eqb (fst (fst x)) k = false) as ->.
    { destruct (tkind_eqb (fst (fst x)) k) eqn:E3; auto. apply tkind_eqb_eq in E3. subst k. rewrite tkind_eqb_refl in E. discriminate. }
    reflexivity.
Qed.
Lemma timed_has_timed_reset_all : forall k n s, timed_has k (timed_reset_all n s) = timed_has k s.
Proof.
  intros. unfold timed_reset_all, timed_has. sproj. induction (timed s) as [|x l IH]; [reflexivity|]. cbn. rewrite IH. reflexivity.
Qed.
Lemma timed_has_timed_set_stamp : forall k k' n s, timed_has k (timed_set_stamp k' n s) = timed_has k s.
Proof.
  intros. unfold timed_set_stamp, timed_has. sproj. induction (timed s) as [|x l IH]; [reflexivity|]. cbn [map existsb].
  rewrite IH. destruct (tkind_eqb k' (fst (fst x))); reflexivity.
Qed.
Lemma del_mech_nil : forall m, del_mech m [] = []. Proof. reflexivity. Qed.

(* ================================================================== T01: what the features time-out may rely on *)
Definition T0 (s : state) : Prop := oh s = OpenAuth -> (reset_parser s || is_depth0 (ps s)) = true -> sasl s = [].
Definition T1 (s : state) : Prop := timed_has TMissingFeatures s = true -> sasl s = [] /\ h_has HFeatures s = true.
Definition T01 (s : state) : Prop := T0 s /\ T1 s.
Lemma T01_set_f_tls_disabled : forall v s, T01 s -> T01 (set_f_tls_disabled v s).
Proof. intros v []; exact (fun h => h). Qed.
#[export] Hint Resolve T01_set_f_tls_disabled : t01db.
Lemma T01_set_f_tls_mandatory : forall v s, T01 s -> T01 (set_f_tls_mandatory v s).
Proof. intros v []; exact (fun h => h). Qed.
#[export] Hint Resolve T01_set_f_tls_mandatory : t01db.
Lemma T01_set_f_legacy_ssl : forall v s, T01 s -> T01 (set_f_legacy_ssl v s).
Proof. intros v []; exact (fun h => h). Qed.
#[export] Hint Resolve T01_set_f_legacy_ssl : t01db.
Lemma T01_set_f_tls_trust : forall v s, T01 s -> T01 (set_f_tls_trust v s).
Proof. intros v []; exact (fun h => h). Qed.
#[export] Hint Resolve T01_set_f_tls_trust : t01db.
Lemma T01_set_f_legacy_auth : forall v s, T01 s -> T01 (set_f_legacy_auth v s).
Proof. intros v []; exact (fun h => h). Qed.
#[export] Hint Resolve T01_set_f_legacy_auth : t01db.
Lemma T01_set_f_sm_disable : forall v s, T01 s -> T01 (set_f_sm_disable v s).
Proof. intros v []; exact (fun h => h). Qed.
#[export] Hint Resolve T01_set_f_sm_disable : t01db.
Lemma T01_set_f_comp_allowed : forall v s, T01 s -> T01 (set_f_comp_allowed v s).
Proof. intros v []; exact (fun h => h). Qed.
#[export] Hint Resolve T01_set_f_comp_allowed : t01db.
Lemma T01_set_f_comp_dont_reset : forall v s, T01 s -> T01 (set_f_comp_dont_reset v s).
Proof. intros v []; exact (fun h => h). Qed.
#[export] Hint Resolve T01_set_f_comp_dont_reset : t01db.
Lemma T01_set_jid_set : forall v s, T01 s -> T01 (set_jid_set v s).
Proof. intros v []; exact (fun h => h). Qed.
#[export] Hint Resolve T01_set_jid_set : t01db.
Lemma T01_set_jid_node : forall v s, T01 s -> T01 (set_jid_node v s).
Proof. intros v []; exact (fun h => h). Qed.
#[export] Hint Resolve T01_set_jid_node : t01db.
Lemma T01_set_jid_res : forall v s, T01 s -> T01 (set_jid_res v s).
Proof. intros v []; exact (fun h => h). Qed.
#[export] Hint Resolve T01_set_jid_res : t01db.
Lemma T01_set_pass_set : forall v s, T01 s -> T01 (set_pass_set v s).
Proof. intros v []; exact (fun h => h). Qed.
#[export] Hint Resolve T01_set_pass_set : t01db.
Lemma T01_set_cert_set : forall v s, T01 s -> T01 (set_cert_set v s).
Proof. intros v []; exact (fun h => h). Qed.
#[export] Hint Resolve T01_set_cert_set : t01db.
Lemma T01_set_is_raw : forall v s, T01 s -> T01 (set_is_raw v s).
Proof. intros v []; exact (fun h => h). Qed.
#[export] Hint Resolve T01_set_is_raw : t01db.
Lemma T01_set_typ : forall v s, T01 s -> T01 (set_typ v s).
Proof. intros v []; exact (fun h => h). Qed.
#[export] Hint Resolve T01_set_typ : t01db.
Lemma T01_set_user_handler : forall v s, T01 s -> T01 (set_user_handler v s).
Proof. intros v []; exact (fun h => h). Qed.
#[export] Hint Resolve T01_set_user_handler : t01db.
Lemma T01_set_user_timed : forall v s, T01 s -> T01 (set_user_timed v s).
Proof. intros v []; exact (fun h => h). Qed.
#[export] Hint Resolve T01_set_user_timed : t01db.
Lemma T01_set_tlsnew_ok : forall v s, T01 s -> T01 (set_tlsnew_ok v s).
Proof. intros v []; exact (fun h => h). Qed.
#[export] Hint Resolve T01_set_tlsnew_ok : t01db.
Lemma T01_set_cb_avail : forall v s, T01 s -> T01 (set_cb_avail v s).
Proof. intros v []; exact (fun h => h). Qed.
#[export] Hint Resolve T01_set_cb_avail : t01db.
Lemma T01_set_tls_verdicts : forall v s, T01 s -> T01 (set_tls_verdicts v s).
Proof. intros v []; exact (fun h => h). Qed.
#[export] Hint Resolve T01_set_tls_verdicts : t01db.
Lemma T01_set_next_cands : forall v s, T01 s -> T01 (set_next_cands v s).
Proof. intros v []; exact (fun h => h). Qed.
#[export] Hint Resolve T01_set_next_cands : t01db.
Lemma T01_set_cands : forall v s, T01 s -> T01 (set_cands v s).
Proof. intros v []; exact (fun h => h). Qed.
#[export] Hint Resolve T01_set_cands : t01db.
Lemma T01_set_cur_ep : forall v s, T01 s -> T01 (set_cur_ep v s).
Proof. intros v []; exact (fun h => h). Qed.
#[export] Hint Resolve T01_set_cur_ep : t01db.
Lemma T01_set_st : forall v s, T01 s -> T01 (set_st v s).
Proof. intros v []; exact (fun h => h). Qed.
#[export] Hint Resolve T01_set_st : t01db.
Lemma T01_set_stamp : forall v s, T01 s -> T01 (set_stamp v s).
Proof. intros v []; exact (fun h => h). Qed.
#[export] Hint Resolve T01_set_stamp : t01db.
Lemma T01_set_err : forall v s, T01 s -> T01 (set_err v s).
Proof. intros v []; exact (fun h => h). Qed.
#[export] Hint Resolve T01_set_err : t01db.
Lemma T01_set_stream_error : forall v s, T01 s -> T01 (set_stream_error v s).
Proof. intros v []; exact (fun h => h). Qed.
#[export] Hint Resolve T01_set_stream_error : t01db.
Lemma T01_set_secured : forall v s, T01 s -> T01 (set_secured v s).
Proof. intros v []; exact (fun h => h). Qed.
#[export] Hint Resolve T01_set_secured : t01db.
Lemma T01_set_tls_present : forall v s, T01 s -> T01 (set_tls_present v s).
Proof. intros v []; exact (fun h => h). Qed.
#[export] Hint Resolve T01_set_tls_present : t01db.
Lemma T01_set_tls_failed : forall v s, T01 s -> T01 (set_tls_failed v s).
Proof. intros v []; exact (fun h => h). Qed.
#[export] Hint Resolve T01_set_tls_failed : t01db.
Lemma T01_set_tls_support : forall v s, T01 s -> T01 (set_tls_support v s).
Proof. intros v []; exact (fun h => h). Qed.
#[export] Hint Resolve T01_set_tls_support : t01db.
Lemma T01_set_bind_required : forall v s, T01 s -> T01 (set_bind_required v s).
Proof. intros v []; exact (fun h => h). Qed.
#[export] Hint Resolve T01_set_bind_required : t01db.
Lemma T01_set_session_required : forall v s, T01 s -> T01 (set_session_required v s).
Proof. intros v []; exact (fun h => h). Qed.
#[export] Hint Resolve T01_set_session_required : t01db.
Lemma T01_set_comp_supported : forall v s, T01 s -> T01 (set_comp_supported v s).
Proof. intros v []; exact (fun h => h). Qed.
#[export] Hint Resolve T01_set_comp_supported : t01db.
Lemma T01_set_comp_active : forall v s, T01 s -> T01 (set_comp_active v s).
Proof. intros v []; exact (fun h => h). Qed.
#[export] Hint Resolve T01_set_comp_active : t01db.
Lemma T01_set_sm_alloc : forall v s, T01 s -> T01 (set_sm_alloc v s).
Proof. intros v []; exact (fun h => h). Qed.
#[export] Hint Resolve T01_set_sm_alloc : t01db.
Lemma T01_set_sm_support : forall v s, T01 s -> T01 (set_sm_support v s).
Proof. intros v []; exact (fun h => h). Qed.
#[export] Hint Resolve T01_set_sm_support : t01db.
Lemma T01_set_sm_enabled : forall v s, T01 s -> T01 (set_sm_enabled v s).
Proof. intros v []; exact (fun h => h). Qed.
#[export] Hint Resolve T01_set_sm_enabled : t01db.
Lemma T01_set_sm_can_resume : forall v s, T01 s -> T01 (set_sm_can_resume v s).
Proof. intros v []; exact (fun h => h). Qed.
#[export] Hint Resolve T01_set_sm_can_resume : t01db.
Lemma T01_set_sm_resume : forall v s, T01 s -> T01 (set_sm_resume v s).
Proof. intros v []; exact (fun h => h). Qed.
#[export] Hint Resolve T01_set_sm_resume : t01db.
Lemma T01_set_sm_dont_request : forall v s, T01 s -> T01 (set_sm_dont_request v s).
Proof. intros v []; exact (fun h => h). Qed.
#[export] Hint Resolve T01_set_sm_dont_request : t01db.
Lemma T01_set_sm_has_previd : forall v s, T01 s -> T01 (set_sm_has_previd v s).
Proof. intros v []; exact (fun h => h). Qed.
#[export] Hint Resolve T01_set_sm_has_previd : t01db.
Lemma T01_set_sm_has_id : forall v s, T01 s -> T01 (set_sm_has_id v s).
Proof. intros v []; exact (fun h => h). Qed.
#[export] Hint Resolve T01_set_sm_has_id : t01db.
Lemma T01_set_sm_parked : forall v s, T01 s -> T01 (set_sm_parked v s).
Proof. intros v []; exact (fun h => h). Qed.
#[export] Hint Resolve T01_set_sm_parked : t01db.
Lemma T01_set_sm_r_sent : forall v s, T01 s -> T01 (set_sm_r_sent v s).
Proof. intros v []; exact (fun h => h). Qed.
#[export] Hint Resolve T01_set_sm_r_sent : t01db.
Lemma T01_set_sm_bind_saved : forall v s, T01 s -> T01 (set_sm_bind_saved v s).
Proof. intros v []; exact (fun h => h). Qed.
#[export] Hint Resolve T01_set_sm_bind_saved : t01db.
Lemma T01_set_bound_jid : forall v s, T01 s -> T01 (set_bound_jid v s).
Proof. intros v []; exact (fun h => h). Qed.
#[export] Hint Resolve T01_set_bound_jid : t01db.
Lemma T01_set_stream_id : forall v s, T01 s -> T01 (set_stream_id v s).
Proof. intros v []; exact (fun h => h). Qed.
#[export] Hint Resolve T01_set_stream_id : t01db.
Lemma T01_set_neg_done : forall v s, T01 s -> T01 (set_neg_done v s).
Proof. intros v []; exact (fun h => h). Qed.
#[export] Hint Resolve T01_set_neg_done : t01db.
Lemma T01_set_idhandlers : forall v s, T01 s -> T01 (set_idhandlers v s).
Proof. intros v []; exact (fun h => h). Qed.
#[export] Hint Resolve T01_set_idhandlers : t01db.
Lemma T01_set_sendq : forall v s, T01 s -> T01 (set_sendq v s).
Proof. intros v []; exact (fun h => h). Qed.
#[export] Hint Resolve T01_set_sendq : t01db.
Lemma T01_set_rxq : forall v s, T01 s -> T01 (set_rxq v s).
Proof. intros v []; exact (fun h => h). Qed.
#[export] Hint Resolve T01_set_rxq : t01db.
Lemma T01_set_smq : forall v s, T01 s -> T01 (set_smq v s).
Proof. intros v []; exact (fun h => h). Qed.
#[export] Hint Resolve T01_set_smq : t01db.
Lemma T01_set_sm_sent : forall v s, T01 s -> T01 (set_sm_sent v s).
Proof. intros v []; exact (fun h => h). Qed.
#[export] Hint Resolve T01_set_sm_sent : t01db.
Lemma T01_set_scram_serial : forall v s, T01 s -> T01 (set_scram_serial v s).
Proof. intros v []; exact (fun h => h). Qed.
#[export] Hint Resolve T01_set_scram_serial : t01db.
Lemma T01_set_crashed : forall v s, T01 s -> T01 (set_crashed v s).
Proof. intros v []; exact (fun h => h). Qed.
#[export] Hint Resolve T01_set_crashed : t01db.
Lemma T01_set_gh : forall v s, T01 s -> T01 (set_gh v s).
Proof. intros v []; exact (fun h => h). Qed.
#[export] Hint Resolve T01_set_gh : t01db.
Lemma T01_upg : forall f s, T01 s -> T01 (upg f s).
Proof. intros f []; exact (fun h => h). Qed.
Ltac fe := intros; unfold h_add, timed_add, timed_has; cases; reflexivity.
Lemma T01_same : forall s s', oh s' = oh s -> reset_parser s' = reset_parser s -> ps s' = ps s -> sasl s' = sasl s ->
  timed_has TMissingFeatures s' = timed_has TMissingFeatures s -> (h_has HFeatures s = true -> h_has HFeatures s' = true) ->
  T01 s -> T01 s'.
Proof.
  intros s s' E1 E2 E3 E4 E5 E6 [A B]. split.
  - intros O R. rewrite E4. apply A; congruence.
  - unfold T1 in *. rewrite E5, E4. intros T. destruct (B T). auto.
Qed.
Lemma T01_h_add : forall k s, T01 s -> T01 (h_add k s).
Proof.
  intros k s. apply T01_same; try (unfold h_add; cases; reflexivity).
  intros H. rewrite h_has_h_add, H. reflexivity.
Qed.
Lemma T01_h_del : forall k s, hkind_eqb HFeatures k = false -> T01 s -> T01 (h_del k s).
Proof.
  intros k s E [A B]. split.
  - exact A.
  - intros T. destruct (B T) as [B1 B2]. split; [exact B1 | rewrite h_has_h_del, B2, E; reflexivity].
Qed.
Lemma T01_enable_all : forall s, T01 s -> T01 (set_handlers (map (fun x => (fst x, true)) (handlers s)) s).
Proof. intros s [A B]. split; [exact A|]. intros T. destruct (B T) as [B1 B2]. split; [exact B1 | rewrite h_has_enable_all; exact B2]. Qed.
Lemma T01_timed_add : forall k n s, tkind_eqb TMissingFeatures k = false -> T01 s -> T01 (timed_add k n s).
Proof.
  intros k n s E. apply T01_same; try (unfold timed_add; cases; reflexivity).
  - rewrite timed_has_timed_add, E, orb_false_r. reflexivity.
  - unfold timed_add, h_has; cases; auto.
Qed.
Lemma T01_timed_del : forall k s, T01 s -> T01 (timed_del k s).
Proof.
  intros k s [A B]. split; [exact A|]. unfold T1. rewrite timed_has_timed_del. intros T. apply andb_prop in T. destruct T as [T _]. exact (B T).
Qed.
Lemma T01_timed_reset_all : forall n s, T01 s -> T01 (timed_reset_all n s).
Proof. intros n s [A B]. split; [exact A|]. unfold T1. rewrite timed_has_timed_reset_all. exact B. Qed.
Lemma T01_timed_set_stamp : forall k n s, T01 s -> T01 (timed_set_stamp k n s).
Proof. intros k n s [A B]. split; [exact A|]. unfold T1. rewrite timed_has_timed_set_stamp. exact B. Qed.
Lemma T01_set_sasl : forall l s, (sasl s = [] -> l = []) -> T01 s -> T01 (set_sasl l s).
Proof.
  intros l s L [A B]. split.
  - intros O R. sproj. apply L. apply A; revert O R; sproj; auto.
  - intros T. destruct (B T) as [B1 B2]. split; [sproj; auto | exact B2].
Qed.
Lemma T01_prepare_reset : forall h s, h <> OpenAuth -> T01 s -> T01 (prepare_reset h s).
Proof. intros h s N [A B]. split; [intros O; revert O; unfold prepare_reset; sproj; congruence | exact B]. Qed.
Lemma T01_set_ps : forall p s, is_depth0 p = false -> T01 s -> T01 (set_ps p s).
Proof.
  intros p s D [A B]. split; [|exact B]. intros O R. sproj. apply A; [exact O|]. revert R. sproj. rewrite D, orb_false_r. intros ->. reflexivity.
Qed.
#[export] Hint Resolve T01_upg T01_h_add T01_enable_all T01_timed_del T01_timed_reset_all T01_timed_set_stamp : t01db.
#[export] Hint Extern 1 (T01 (h_del _ _)) => (apply T01_h_del; [reflexivity | ]) : t01db.
#[export] Hint Extern 1 (T01 (timed_add _ _ _)) => (apply T01_timed_add; [reflexivity | ]) : t01db.
#[export] Hint Extern 1 (T01 (prepare_reset _ _)) => (apply T01_prepare_reset; [discriminate | ]) : t01db.
#[export] Hint Extern 1 (T01 (set_ps _ _)) => (apply T01_set_ps; [reflexivity | ]) : t01db.
Lemma timed_has_enable_all : forall k s, timed_has k (set_timed (map (fun x => (fst (fst x), true, snd x)) (timed s)) s) = timed_has k s.
Proof. intros. unfold timed_has. sproj. induction (timed s) as [|x l IH]; [reflexivity|]. cbn. rewrite IH. reflexivity. Qed.
Lemma T01_enable_timed : forall s, T01 s -> T01 (set_timed (map (fun x => (fst (fst x), true, snd x)) (timed s)) s).
Proof. intros s [A B]. split; [exact A|]. unfold T1. rewrite timed_has_enable_all. exact B. Qed.
#[export] Hint Resolve T01_enable_timed : t01db.

(* NT1: the features time-out is not armed *)
Definition NT1 (s : state) : Prop := timed_has TMissingFeatures s = false.
Lemma NT1_set_f_tls_disabled : forall v s, NT1 s -> NT1 (set_f_tls_disabled v s).
Proof. intros v []; exact (fun h => h). Qed.
#[export] Hint Resolve NT1_set_f_tls_disabled : nt1db.
Lemma NT1_set_f_tls_mandatory : forall v s, NT1 s -> NT1 (set_f_tls_mandatory v s).
Proof. intros v []; exact (fun h => h). Qed.
#[export] Hint Resolve NT1_set_f_tls_mandatory : nt1db.
Lemma NT1_set_f_legacy_ssl : forall v s, NT1 s -> NT1 (set_f_legacy_ssl v s).
Proof. intros v []; exact (fun h => h). Qed.
#[export] Hint Resolve NT1_set_f_legacy_ssl : nt1db.
Lemma NT1_set_f_tls_trust : forall v s, NT1 s -> NT1 (set_f_tls_trust v s).
Proof. intros v []; exact (fun h => h). Qed.
#[export] Hint Resolve NT1_set_f_tls_trust : nt1db.
Lemma NT1_set_f_legacy_auth : forall v s, NT1 s -> NT1 (set_f_legacy_auth v s).
Proof. intros v []; exact (fun h => h). Qed.
#[export] Hint Resolve NT1_set_f_legacy_auth : nt1db.
Lemma NT1_set_f_sm_disable : forall v s, NT1 s -> NT1 (set_f_sm_disable v s).
Proof. intros v []; exact (fun h => h). Qed.
#[export] Hint Resolve NT1_set_f_sm_disable : nt1db.
Lemma NT1_set_f_comp_allowed : forall v s, NT1 s -> NT1 (set_f_comp_allowed v s).
Proof. intros v []; exact (fun h => h). Qed.
#[export] Hint Resolve NT1_set_f_comp_allowed : nt1db.
Lemma NT1_set_f_comp_dont_reset : forall v s, NT1 s -> NT1 (set_f_comp_dont_reset v s).
Proof. intros v []; exact (fun h => h). Qed.
#[export] Hint Resolve NT1_set_f_comp_dont_reset : nt1db.
Lemma NT1_set_jid_set : forall v s, NT1 s -> NT1 (set_jid_set v s).
Proof. intros v []; exact (fun h => h). Qed.
#[export] Hint Resolve NT1_set_jid_set : nt1db.
Lemma NT1_set_jid_node : forall v s, NT1 s -> NT1 (set_jid_node v s).
Proof. intros v []; exact (fun h => h). Qed.
#[export] Hint Resolve NT1_set_jid_node : nt1db.
Lemma NT1_set_jid_res : forall v s, NT1 s -> NT1 (set_jid_res v s).
Proof. intros v []; exact (fun h => h). Qed.
#[export] Hint Resolve NT1_set_jid_res : nt1db.
Lemma NT1_set_pass_set : forall v s, NT1 s -> NT1 (set_pass_set v s).
Proof. intros v []; exact (fun h => h). Qed.
#[export] Hint Resolve NT1_set_pass_set : nt1db.
Lemma NT1_set_cert_set : forall v s, NT1 s -> NT1 (set_cert_set v s).
Proof. intros v []; exact (fun h => h). Qed.
#[export] Hint Resolve NT1_set_cert_set : nt1db.
Lemma NT1_set_is_raw : forall v s, NT1 s -> NT1 (set_is_raw v s).
Proof. intros v []; exact (fun h => h). Qed.
#[export] Hint Resolve NT1_set_is_raw : nt1db.
Lemma NT1_set_typ : forall v s, NT1 s -> NT1 (set_typ v s).
Proof. intros v []; exact (fun h => h). Qed.
#[export] Hint Resolve NT1_set_typ : nt1db.
Lemma NT1_set_user_handler : forall v s, NT1 s -> NT1 (set_user_handler v s).
Proof. intros v []; exact (fun h => h). Qed.
#[export] Hint Resolve NT1_set_user_handler : nt1db.
Lemma NT1_set_user_timed : forall v s, NT1 s -> NT1 (set_user_timed v s).
Proof. intros v []; exact (fun h => h). Qed.
#[export] Hint Resolve NT1_set_user_timed : nt1db.
Lemma NT1_set_tlsnew_ok : forall v s, NT1 s -> NT1 (set_tlsnew_ok v s).
Proof. intros v []; exact (fun h => h). Qed.
#[export] Hint Resolve NT1_set_tlsnew_ok : nt1db.
Lemma NT1_set_cb_avail : forall v s, NT1 s -> NT1 (set_cb_avail v s).
Proof. intros v []; exact (fun h => h). Qed.
#[export] Hint Resolve NT1_set_cb_avail : nt1db.
Lemma NT1_set_tls_verdicts : forall v s, NT1 s -> NT1 (set_tls_verdicts v s).
Proof. intros v []; exact (fun h => h). Qed.
#[export] Hint Resolve NT1_set_tls_verdicts : nt1db.
Lemma NT1_set_next_cands : forall v s, NT1 s -> NT1 (set_next_cands v s).
Proof. intros v []; exact (fun h => h). Qed.
#[export] Hint Resolve NT1_set_next_cands : nt1db.
Lemma NT1_set_cands : forall v s, NT1 s -> NT1 (set_cands v s).
Proof. intros v []; exact (fun h => h). Qed.
#[export] Hint Resolve NT1_set_cands : nt1db.
Lemma NT1_set_cur_ep : forall v s, NT1 s -> NT1 (set_cur_ep v s).
Proof. intros v []; exact (fun h => h). Qed.
#[export] Hint Resolve NT1_set_cur_ep : nt1db.
Lemma NT1_set_st : forall v s, NT1 s -> NT1 (set_st v s).
Proof. intros v []; exact (fun h => h). Qed.
#[export] Hint Resolve NT1_set_st : nt1db.
Lemma NT1_set_stamp : forall v s, NT1 s -> NT1 (set_stamp v s).
Proof. intros v []; exact (fun h => h). Qed.
#[export] Hint Resolve NT1_set_stamp : nt1db.
Lemma NT1_set_err : forall v s, NT1 s -> NT1 (set_err v s).
Proof. intros v []; exact (fun h => h). Qed.
#[export] Hint Resolve NT1_set_err : nt1db.
Lemma NT1_set_stream_error : forall v s, NT1 s -> NT1 (set_stream_error v s).
Proof. intros v []; exact (fun h => h). Qed.
#[export] Hint Resolve NT1_set_stream_error : nt1db.
Lemma NT1_set_secured : forall v s, NT1 s -> NT1 (set_secured v s).
Proof. intros v []; exact (fun h => h). Qed.
#[export] Hint Resolve NT1_set_secured : nt1db.
Lemma NT1_set_tls_present : forall v s, NT1 s -> NT1 (set_tls_present v s).
Proof. intros v []; exact (fun h => h). Qed.
#[export] Hint Resolve NT1_set_tls_present : nt1db.
Lemma NT1_set_tls_failed : forall v s, NT1 s -> NT1 (set_tls_failed v s).
Proof. intros v []; exact (fun h => h). Qed.
#[export] Hint Resolve NT1_set_tls_failed : nt1db.
Lemma NT1_set_tls_support : forall v s, NT1 s -> NT1 (set_tls_support v s).
Proof. intros v []; exact (fun h => h). Qed.
#[export] Hint Resolve NT1_set_tls_support : nt1db.
Lemma NT1_set_sasl : forall v s, NT1 s -> NT1 (set_sasl v s).
Proof. intros v []; exact (fun h => h). Qed.
#[export] Hint Resolve NT1_set_sasl : nt1db.
Lemma NT1_set_bind_required : forall v s, NT1 s -> NT1 (set_bind_required v s).
Proof. intros v []; exact (fun h => h). Qed.
#[export] Hint Resolve NT1_set_bind_required : nt1db.
Lemma NT1_set_session_required : forall v s, NT1 s -> NT1 (set_session_required v s).
Proof. intros v []; exact (fun h => h). Qed.
#[export] Hint Resolve NT1_set_session_required : nt1db.
Lemma NT1_set_comp_supported : forall v s, NT1 s -> NT1 (set_comp_supported v s).
Proof. intros v []; exact (fun h => h). Qed.
#[export] Hint Resolve NT1_set_comp_supported : nt1db.
Lemma NT1_set_comp_active : forall v s, NT1 s -> NT1 (set_comp_active v s).
Proof. intros v []; exact (fun h => h). Qed.
#[export] Hint Resolve NT1_set_comp_active : nt1db.
Lemma NT1_set_sm_alloc : forall v s, NT1 s -> NT1 (set_sm_alloc v s).
Proof. intros v []; exact (fun h => h). Qed.
#[export] Hint Resolve NT1_set_sm_alloc : nt1db.
Lemma NT1_set_sm_support : forall v s, NT1 s -> NT1 (set_sm_support v s).
Proof. intros v []; exact (fun h => h). Qed.
#[export] Hint Resolve NT1_set_sm_support : nt1db.
Lemma NT1_set_sm_enabled : forall v s, NT1 s -> NT1 (set_sm_enabled v s).
Proof. intros v []; exact (fun h => h). Qed.
#[export] Hint Resolve NT1_set_sm_enabled : nt1db.
Lemma NT1_set_sm_can_resume : forall v s, NT1 s -> NT1 (set_sm_can_resume v s).
Proof. intros v []; exact (fun h => h). Qed.
#[export] Hint Resolve NT1_set_sm_can_resume : nt1db.
Lemma NT1_set_sm_resume : forall v s, NT1 s -> NT1 (set_sm_resume v s).
Proof. intros v []; exact (fun h => h). Qed.
#[export] Hint Resolve NT1_set_sm_resume : nt1db.
Lemma NT1_set_sm_dont_request : forall v s, NT1 s -> NT1 (set_sm_dont_request v s).
Proof. intros v []; exact (fun h => h). Qed.
#[export] Hint Resolve NT1_set_sm_dont_request : nt1db.
Lemma NT1_set_sm_has_previd : forall v s, NT1 s -> NT1 (set_sm_has_previd v s).
Proof. intros v []; exact (fun h => h). Qed.
#[export] Hint Resolve NT1_set_sm_has_previd : nt1db.
Lemma NT1_set_sm_has_id : forall v s, NT1 s -> NT1 (set_sm_has_id v s).
Proof. intros v []; exact (fun h => h). Qed.
#[export] Hint Resolve NT1_set_sm_has_id : nt1db.
Lemma NT1_set_sm_parked : forall v s, NT1 s -> NT1 (set_sm_parked v s).
Proof. intros v []; exact (fun h => h). Qed.
#[export] Hint Resolve NT1_set_sm_parked : nt1db.
Lemma NT1_set_sm_r_sent : forall v s, NT1 s -> NT1 (set_sm_r_sent v s).
Proof. intros v []; exact (fun h => h). Qed.
#[export] Hint Resolve NT1_set_sm_r_sent : nt1db.
Lemma NT1_set_sm_bind_saved : forall v s, NT1 s -> NT1 (set_sm_bind_saved v s).
Proof. intros v []; exact (fun h => h). Qed.
#[export] Hint Resolve NT1_set_sm_bind_saved : nt1db.
Lemma NT1_set_bound_jid : forall v s, NT1 s -> NT1 (set_bound_jid v s).
Proof. intros v []; exact (fun h => h). Qed.
#[export] Hint Resolve NT1_set_bound_jid : nt1db.
Lemma NT1_set_stream_id : forall v s, NT1 s -> NT1 (set_stream_id v s).
Proof. intros v []; exact (fun h => h). Qed.
#[export] Hint Resolve NT1_set_stream_id : nt1db.
Lemma NT1_set_neg_done : forall v s, NT1 s -> NT1 (set_neg_done v s).
Proof. intros v []; exact (fun h => h). Qed.
#[export] Hint Resolve NT1_set_neg_done : nt1db.
Lemma NT1_set_reset_parser : forall v s, NT1 s -> NT1 (set_reset_parser v s).
Proof. intros v []; exact (fun h => h). Qed.
#[export] Hint Resolve NT1_set_reset_parser : nt1db.
Lemma NT1_set_oh : forall v s, NT1 s -> NT1 (set_oh v s).
Proof. intros v []; exact (fun h => h). Qed.
#[export] Hint Resolve NT1_set_oh : nt1db.
Lemma NT1_set_ps : forall v s, NT1 s -> NT1 (set_ps v s).
Proof. intros v []; exact (fun h => h). Qed.
#[export] Hint Resolve NT1_set_ps : nt1db.
Lemma NT1_set_handlers : forall v s, NT1 s -> NT1 (set_handlers v s).
Proof. intros v []; exact (fun h => h). Qed.
#[export] Hint Resolve NT1_set_handlers : nt1db.
Lemma NT1_set_idhandlers : forall v s, NT1 s -> NT1 (set_idhandlers v s).
Proof. intros v []; exact (fun h => h). Qed.
#[export] Hint Resolve NT1_set_idhandlers : nt1db.
Lemma NT1_set_sendq : forall v s, NT1 s -> NT1 (set_sendq v s).
Proof. intros v []; exact (fun h => h). Qed.
#[export] Hint Resolve NT1_set_sendq : nt1db.
Lemma NT1_set_rxq : forall v s, NT1 s -> NT1 (set_rxq v s).
Proof. intros v []; exact (fun h => h). Qed.
#[export] Hint Resolve NT1_set_rxq : nt1db.
Lemma NT1_set_smq : forall v s, NT1 s -> NT1 (set_smq v s).
Proof. intros v []; exact (fun h => h). Qed.
#[export] Hint Resolve NT1_set_smq : nt1db.
Lemma NT1_set_sm_sent : forall v s, NT1 s -> NT1 (set_sm_sent v s).
Proof. intros v []; exact (fun h => h). Qed.
#[export] Hint Resolve NT1_set_sm_sent : nt1db.
Lemma NT1_set_scram_serial : forall v s, NT1 s -> NT1 (set_scram_serial v s).
Proof. intros v []; exact (fun h => h). Qed.
#[export] Hint Resolve NT1_set_scram_serial : nt1db.
Lemma NT1_set_crashed : forall v s, NT1 s -> NT1 (set_crashed v s).
Proof. intros v []; exact (fun h => h). Qed.
#[export] Hint Resolve NT1_set_crashed : nt1db.
Lemma NT1_set_gh : forall v s, NT1 s -> NT1 (set_gh v s).
Proof. intros v []; exact (fun h => h). Qed.
#[export] Hint Resolve NT1_set_gh : nt1db.
Lemma NT1_upg : forall f s, NT1 s -> NT1 (upg f s).
Proof. intros f []; exact (fun h => h). Qed.
Lemma NT1_timed_add : forall k n s, tkind_eqb TMissingFeatures k = false -> NT1 s -> NT1 (timed_add k n s).
Proof. intros k n s E H. unfold NT1. rewrite timed_has_timed_add, H, E. reflexivity. Qed.
Lemma NT1_timed_del : forall k s, NT1 s -> NT1 (timed_del k s).
Proof. intros k s H. unfold NT1. rewrite timed_has_timed_del, H. reflexivity. Qed.
#[export] Hint Resolve NT1_upg NT1_timed_del : nt1db.
#[export] Hint Extern 1 (NT1 (timed_add _ _ _)) => (apply NT1_timed_add; [reflexivity | ]) : nt1db.
Lemma NT1_q_append : forall w u sm s, NT1 s -> NT1 (q_append w u sm s).
Proof. intros; unfold q_append; cases; eauto 10 with nt1db. Qed.
#[export] Hint Resolve NT1_q_append : nt1db.
Lemma NT1_send_gated : forall w u sm s, NT1 s -> NT1 (send_gated w u sm s).
Proof. intros; unfold send_gated, ret; cases; leaf; eauto 30 with nt1db. Qed.
#[export] Hint Resolve NT1_send_gated : nt1db.
Lemma NT1_send_raw_m : forall w u sm s, NT1 s -> NT1 (send_raw_m w u sm s).
Proof. intros; unfold send_raw_m, ret; cases; leaf; eauto 30 with nt1db. Qed.
#[export] Hint Resolve NT1_send_raw_m : nt1db.
Lemma NT1_h_add : forall k s, NT1 s -> NT1 (h_add k s).
Proof. intros; unfold h_add, ret; cases; leaf; eauto 30 with nt1db. Qed.
#[export] Hint Resolve NT1_h_add : nt1db.
Lemma NT1_id_add : forall k s, NT1 s -> NT1 (id_add k s).
Proof. intros; unfold id_add, ret; cases; leaf; eauto 30 with nt1db. Qed.
#[export] Hint Resolve NT1_id_add : nt1db.
Lemma NT1_reset_sm_for_reconnect : forall s, NT1 s -> NT1 (reset_sm_for_reconnect s).
Proof. intros; unfold reset_sm_for_reconnect, ret; cases; leaf; eauto 30 with nt1db. Qed.
#[export] Hint Resolve NT1_reset_sm_for_reconnect : nt1db.
Lemma NT1_conn_disconnect : forall s, NT1 s -> NT1 (fst (conn_disconnect s)).
Proof. intros; name_result; unfold conn_disconnect, ret; cases; leaf; eauto 30 with nt1db. Qed.
#[export] Hint Resolve NT1_conn_disconnect : nt1db.
Lemma NT1_xmpp_disconnect : forall n s, NT1 s -> NT1 (xmpp_disconnect n s).
Proof. intros; unfold xmpp_disconnect, ret; cases; leaf; eauto 30 with nt1db. Qed.
#[export] Hint Resolve NT1_xmpp_disconnect : nt1db.
Lemma NT1_conn_open_stream : forall s, NT1 s -> NT1 (conn_open_stream s).
Proof. intros; unfold conn_open_stream, ret; cases; leaf; eauto 30 with nt1db. Qed.
#[export] Hint Resolve NT1_conn_open_stream : nt1db.
Lemma NT1_auth_legacy : forall n s, NT1 s -> NT1 (auth_legacy n s).
Proof. intros; unfold auth_legacy, ret; cases; leaf; eauto 30 with nt1db. Qed.
#[export] Hint Resolve NT1_auth_legacy : nt1db.
Lemma NT1_auth : forall fuel n s, NT1 s -> NT1 (fst (auth fuel n s)).
Proof. induction fuel; intros; name_result; cbn [auth]; unfold ret; cases; leaf; eauto 30 with nt1db. Qed.

(* PZ: an initial client stream is not pending *)
Definition PZ (s : state) : Prop := oh s = OpenAuth -> (reset_parser s || is_depth0 (ps s)) = false.
Lemma PZ_set_f_tls_disabled : forall v s, PZ s -> PZ (set_f_tls_disabled v s).
Proof. intros v []; exact (fun h => h). Qed.
#[export] Hint Resolve PZ_set_f_tls_disabled : pzdb.
Lemma PZ_set_f_tls_mandatory : forall v s, PZ s -> PZ (set_f_tls_mandatory v s).
Proof. intros v []; exact (fun h => h). Qed.
#[export] Hint Resolve PZ_set_f_tls_mandatory : pzdb.
Lemma PZ_set_f_legacy_ssl : forall v s, PZ s -> PZ (set_f_legacy_ssl v s).
Proof. intros v []; exact (fun h => h). Qed.
#[export] Hint Resolve PZ_set_f_legacy_ssl : pzdb.
Lemma PZ_set_f_tls_trust : forall v s, PZ s -> PZ (set_f_tls_trust v s).
Proof. intros v []; exact (fun h => h). Qed.
#[export] Hint Resolve PZ_set_f_tls_trust : pzdb.
Lemma PZ_set_f_legacy_auth : forall v s, PZ s -> PZ (set_f_legacy_auth v s).
Proof. intros v []; exact (fun h => h). Qed.
#[export] Hint Resolve PZ_set_f_legacy_auth : pzdb.
Lemma PZ_set_f_sm_disable : forall v s, PZ s -> PZ (set_f_sm_disable v s).
Proof. intros v []; exact (fun h => h). Qed.
#[export] Hint Resolve PZ_set_f_sm_disable : pzdb.
Lemma PZ_set_f_comp_allowed : forall v s, PZ s -> PZ (set_f_comp_allowed v s).
Proof. intros v []; exact (fun h => h). Qed.
#[export] Hint Resolve PZ_set_f_comp_allowed : pzdb.
Lemma PZ_set_f_comp_dont_reset : forall v s, PZ s -> PZ (set_f_comp_dont_reset v s).
Proof. intros v []; exact (fun h => h). Qed.
#[export] Hint Resolve PZ_set_f_comp_dont_reset : pzdb.
Lemma PZ_set_jid_set : forall v s, PZ s -> PZ (set_jid_set v s).
Proof. intros v []; exact (fun h => h). Qed.
#[export] Hint Resolve PZ_set_jid_set : pzdb.
Lemma PZ_set_jid_node : forall v s, PZ s -> PZ (set_jid_node v s).
Proof. intros v []; exact (fun h => h). Qed.
#[export] Hint Resolve PZ_set_jid_node : pzdb.
Lemma PZ_set_jid_res : forall v s, PZ s -> PZ (set_jid_res v s).
Proof. intros v []; exact (fun h => h). Qed.
#[export] Hint Resolve PZ_set_jid_res : pzdb.
Lemma PZ_set_pass_set : forall v s, PZ s -> PZ (set_pass_set v s).
Proof. intros v []; exact (fun h => h). Qed.
#[export] Hint Resolve PZ_set_pass_set : pzdb.
Lemma PZ_set_cert_set : forall v s, PZ s -> PZ (set_cert_set v s).
Proof. intros v []; exact (fun h => h). Qed.
#[export] Hint Resolve PZ_set_cert_set : pzdb.
Lemma PZ_set_is_raw : forall v s, PZ s -> PZ (set_is_raw v s).
Proof. intros v []; exact (fun h => h). Qed.
#[export] Hint Resolve PZ_set_is_raw : pzdb.
Lemma PZ_set_typ : forall v s, PZ s -> PZ (set_typ v s).
Proof. intros v []; exact (fun h => h). Qed.
#[export] Hint Resolve PZ_set_typ : pzdb.
Lemma PZ_set_user_handler : forall v s, PZ s -> PZ (set_user_handler v s).
Proof. intros v []; exact (fun h => h). Qed.
#[export] Hint Resolve PZ_set_user_handler : pzdb.
Lemma PZ_set_user_timed : forall v s, PZ s -> PZ (set_user_timed v s).
Proof. intros v []; exact (fun h => h). Qed.
#[export] Hint Resolve PZ_set_user_timed : pzdb.
Lemma PZ_set_tlsnew_ok : forall v s, PZ s -> PZ (set_tlsnew_ok v s).
Proof. intros v []; exact (fun h => h). Qed.
#[export] Hint Resolve PZ_set_tlsnew_ok : pzdb.
Lemma PZ_set_cb_avail : forall v s, PZ s -> PZ (set_cb_avail v s).
Proof. intros v []; exact (fun h => h). Qed.
#[export] Hint Resolve PZ_set_cb_avail : pzdb.
Lemma PZ_set_tls_verdicts : forall v s, PZ s -> PZ (set_tls_verdicts v s).
Proof. intros v []; exact (fun h => h). Qed.
#[export] Hint Resolve PZ_set_tls_verdicts : pzdb.
Lemma PZ_set_next_cands : forall v s, PZ s -> PZ (set_next_cands v s).
Proof. intros v []; exact (fun h => h). Qed.
#[export] Hint Resolve PZ_set_next_cands : pzdb.
Lemma PZ_set_cands : forall v s, PZ s -> PZ (set_cands v s).
Proof. intros v []; exact (fun h => h). Qed.
#[export] Hint Resolve PZ_set_cands : pzdb.
Lemma PZ_set_cur_ep : forall v s, PZ s -> PZ (set_cur_ep v s).
Proof. intros v []; exact (fun h => h). Qed.
#[export] Hint Resolve PZ_set_cur_ep : pzdb.
Lemma PZ_set_st : forall v s, PZ s -> PZ (set_st v s).
Proof. intros v []; exact (fun h => h). Qed.
#[export] Hint Resolve PZ_set_st : pzdb.
Lemma PZ_set_stamp : forall v s, PZ s -> PZ (set_stamp v s).
Proof. intros v []; exact (fun h => h). Qed.
#[export] Hint Resolve PZ_set_stamp : pzdb.
Lemma PZ_set_err : forall v s, PZ s -> PZ (set_err v s).
Proof. intros v []; exact (fun h => h). Qed.
#[export] Hint Resolve PZ_set_err : pzdb.
Lemma PZ_set_stream_error : forall v s, PZ s -> PZ (set_stream_error v s).
Proof. intros v []; exact (fun h => h). Qed.
#[export] Hint Resolve PZ_set_stream_error : pzdb.
Lemma PZ_set_secured : forall v s, PZ s -> PZ (set_secured v s).
Proof. intros v []; exact (fun h => h). Qed.
#[export] Hint Resolve PZ_set_secured : pzdb.
Lemma PZ_set_tls_present : forall v s, PZ s -> PZ (set_tls_present v s).
Proof. intros v []; exact (fun h => h). Qed.
#[export] Hint Resolve PZ_set_tls_present : pzdb.
Lemma PZ_set_tls_failed : forall v s, PZ s -> PZ (set_tls_failed v s).
Proof. intros v []; exact (fun h => h). Qed.
#[export] Hint Resolve PZ_set_tls_failed : pzdb.
Lemma PZ_set_tls_support : forall v s, PZ s -> PZ (set_tls_support v s).
Proof. intros v []; exact (fun h => h). Qed.
#[export] Hint Resolve PZ_set_tls_support : pzdb.
Lemma PZ_set_sasl : forall v s, PZ s -> PZ (set_sasl v s).
Proof. intros v []; exact (fun h => h). Qed.
#[export] Hint Resolve PZ_set_sasl : pzdb.
Lemma PZ_set_bind_required : forall v s, PZ s -> PZ (set_bind_required v s).
Proof. intros v []; exact (fun h => h). Qed.
#[export] Hint Resolve PZ_set_bind_required : pzdb.
Lemma PZ_set_session_required : forall v s, PZ s -> PZ (set_session_required v s).
Proof. intros v []; exact (fun h => h). Qed.
#[export] Hint Resolve PZ_set_session_required : pzdb.
Lemma PZ_set_comp_supported : forall v s, PZ s -> PZ (set_comp_supported v s).
Proof. intros v []; exact (fun h => h). Qed.
#[export] Hint Resolve PZ_set_comp_supported : pzdb.
Lemma PZ_set_comp_active : forall v s, PZ s -> PZ (set_comp_active v s).
Proof. intros v []; exact (fun h => h). Qed.
#[export] Hint Resolve PZ_set_comp_active : pzdb.
Lemma PZ_set_sm_alloc : forall v s, PZ s -> PZ (set_sm_alloc v s).
Proof. intros v []; exact (fun h => h). Qed.
#[export] Hint Resolve PZ_set_sm_alloc : pzdb.
Lemma PZ_set_sm_support : forall v s, PZ s -> PZ (set_sm_support v s).
Proof. intros v []; exact (fun h => h). Qed.
#[export] Hint Resolve PZ_set_sm_support : pzdb.
Lemma PZ_set_sm_enabled : forall v s, PZ s -> PZ (set_sm_enabled v s).
Proof. intros v []; exact (fun h => h). Qed.
#[export] Hint Resolve PZ_set_sm_enabled : pzdb.
Lemma PZ_set_sm_can_resume : forall v s, PZ s -> PZ (set_sm_can_resume v s).
Proof. intros v []; exact (fun h => h). Qed.
#[export] Hint Resolve PZ_set_sm_can_resume : pzdb.
Lemma PZ_set_sm_resume : forall v s, PZ s -> PZ (set_sm_resume v s).
Proof. intros v []; exact (fun h => h). Qed.
#[export] Hint Resolve PZ_set_sm_resume : pzdb.
Lemma PZ_set_sm_dont_request : forall v s, PZ s -> PZ (set_sm_dont_request v s).
Proof. intros v []; exact (fun h => h). Qed.
#[export] Hint Resolve PZ_set_sm_dont_request : pzdb.
Lemma PZ_set_sm_has_previd : forall v s, PZ s -> PZ (set_sm_has_previd v s).
Proof. intros v []; exact (fun h => h). Qed.
#[export] Hint Resolve PZ_set_sm_has_previd : pzdb.
Lemma PZ_set_sm_has_id : forall v s, PZ s -> PZ (set_sm_has_id v s).
Proof. intros v []; exact (fun h => h). Qed.
#[export] Hint Resolve PZ_set_sm_has_id : pzdb.
Lemma PZ_set_sm_parked : forall v s, PZ s -> PZ (set_sm_parked v s).
Proof. intros v []; exact (fun h => h). Qed.
#[export] Hint Resolve PZ_set_sm_parked : pzdb.
Lemma PZ_set_sm_r_sent : forall v s, PZ s -> PZ (set_sm_r_sent v s).
Proof. intros v []; exact (fun h => h). Qed.
#[export] Hint Resolve PZ_set_sm_r_sent : pzdb.
Lemma PZ_set_sm_bind_saved : forall v s, PZ s -> PZ (set_sm_bind_saved v s).
Proof. intros v []; exact (fun h => h). Qed.
#[export] Hint Resolve PZ_set_sm_bind_saved : pzdb.
Lemma PZ_set_bound_jid : forall v s, PZ s -> PZ (set_bound_jid v s).
Proof. intros v []; exact (fun h => h). Qed.
#[export] Hint Resolve PZ_set_bound_jid : pzdb.
Lemma PZ_set_stream_id : forall v s, PZ s -> PZ (set_stream_id v s).
Proof. intros v []; exact (fun h => h). Qed.
#[export] Hint Resolve PZ_set_stream_id : pzdb.
Lemma PZ_set_neg_done : forall v s, PZ s -> PZ (set_neg_done v s).
Proof. intros v []; exact (fun h => h). Qed.
#[export] Hint Resolve PZ_set_neg_done : pzdb.
Lemma PZ_set_handlers : forall v s, PZ s -> PZ (set_handlers v s).
Proof. intros v []; exact (fun h => h). Qed.
#[export] Hint Resolve PZ_set_handlers : pzdb.
Lemma PZ_set_idhandlers : forall v s, PZ s -> PZ (set_idhandlers v s).
Proof. intros v []; exact (fun h => h). Qed.
#[export] Hint Resolve PZ_set_idhandlers : pzdb.
Lemma PZ_set_timed : forall v s, PZ s -> PZ (set_timed v s).
Proof. intros v []; exact (fun h => h). Qed.
#[export] Hint Resolve PZ_set_timed : pzdb.
Lemma PZ_set_sendq : forall v s, PZ s -> PZ (set_sendq v s).
Proof. intros v []; exact (fun h => h). Qed.
#[export] Hint Resolve PZ_set_sendq : pzdb.
Lemma PZ_set_rxq : forall v s, PZ s -> PZ (set_rxq v s).
Proof. intros v []; exact (fun h => h). Qed.
#[export] Hint Resolve PZ_set_rxq : pzdb.
Lemma PZ_set_smq : forall v s, PZ s -> PZ (set_smq v s).
Proof. intros v []; exact (fun h => h). Qed.
#[export] Hint Resolve PZ_set_smq : pzdb.
Lemma PZ_set_sm_sent : forall v s, PZ s -> PZ (set_sm_sent v s).
Proof. intros v []; exact (fun h => h). Qed.
#[export] Hint Resolve PZ_set_sm_sent : pzdb.
Lemma PZ_set_scram_serial : forall v s, PZ s -> PZ (set_scram_serial v s).
Proof. intros v []; exact (fun h => h). Qed.
#[export] Hint Resolve PZ_set_scram_serial : pzdb.
Lemma PZ_set_crashed : forall v s, PZ s -> PZ (set_crashed v s).
Proof. intros v []; exact (fun h => h). Qed.
#[export] Hint Resolve PZ_set_crashed : pzdb.
Lemma PZ_set_gh : forall v s, PZ s -> PZ (set_gh v s).
Proof. intros v []; exact (fun h => h). Qed.
#[export] Hint Resolve PZ_set_gh : pzdb.
Lemma T01_q_append : forall w u sm s, T01 s -> T01 (q_append w u sm s).
Proof. intros; unfold q_append; cases; eauto 10 with t01db. Qed.
#[export] Hint Resolve T01_q_append : t01db.
Lemma T01_send_gated : forall w u sm s, T01 s -> T01 (send_gated w u sm s).
Proof. intros; unfold send_gated, ret; cases; leaf; eauto 30 with t01db. Qed.
#[export] Hint Resolve T01_send_gated : t01db.
Lemma T01_send_raw_m : forall w u sm s, T01 s -> T01 (send_raw_m w u sm s).
Proof. intros; unfold send_raw_m, ret; cases; leaf; eauto 30 with t01db. Qed.
#[export] Hint Resolve T01_send_raw_m : t01db.






Lemma T01_id_add : forall k s, T01 s -> T01 (id_add k s).
Proof. intros; unfold id_add, ret; cases; leaf; eauto 30 with t01db. Qed.
#[export] Hint Resolve T01_id_add : t01db.
Lemma T01_id_del : forall k s, T01 s -> T01 (id_del k s).
Proof. intros; unfold id_del, ret; cases; leaf; eauto 30 with t01db. Qed.
#[export] Hint Resolve T01_id_del : t01db.
Lemma T01_reset_sm_for_reconnect : forall s, T01 s -> T01 (reset_sm_for_reconnect s).
Proof. intros; unfold reset_sm_for_reconnect, ret; cases; leaf; eauto 30 with t01db. Qed.
#[export] Hint Resolve T01_reset_sm_for_reconnect : t01db.
Lemma T01_sm_queue_cleanup : forall h s, T01 s -> T01 (sm_queue_cleanup h s).
Proof. intros; unfold sm_queue_cleanup, ret; cases; leaf; eauto 30 with t01db. Qed.
#[export] Hint Resolve T01_sm_queue_cleanup : t01db.
Lemma T01_sm_queue_resend : forall s, T01 s -> T01 (sm_queue_resend s).
Proof. intros; unfold sm_queue_resend. apply fold_left_inv; eauto with t01db. Qed.
#[export] Hint Resolve T01_sm_queue_resend : t01db.
Lemma T01_conn_disconnect : forall s, T01 s -> T01 (fst (conn_disconnect s)).
Proof. intros; name_result; unfold conn_disconnect, ret; cases; leaf; eauto 30 with t01db. Qed.
#[export] Hint Resolve T01_conn_disconnect : t01db.
Lemma T01_xmpp_disconnect : forall n s, T01 s -> T01 (xmpp_disconnect n s).
Proof. intros; unfold xmpp_disconnect, ret; cases; leaf; eauto 30 with t01db. Qed.
#[export] Hint Resolve T01_xmpp_disconnect : t01db.

Lemma T01_conn_open_stream : forall s, T01 s -> T01 (conn_open_stream s).
Proof. intros; unfold conn_open_stream, ret; cases; leaf; eauto 30 with t01db. Qed.
#[export] Hint Resolve T01_conn_open_stream : t01db.
Lemma T01_conn_tls_start : forall s, T01 s -> T01 (fst (fst (conn_tls_start s))).
Proof. intros; name_result; unfold conn_tls_start, ret; cases; leaf; eauto 30 with t01db. Qed.
#[export] Hint Resolve T01_conn_tls_start : t01db.
Lemma T01_stream_negotiation_success : forall s, T01 s -> T01 (fst (stream_negotiation_success s)).
Proof. intros; name_result; unfold stream_negotiation_success, ret; cases; leaf; eauto 30 with t01db. Qed.
#[export] Hint Resolve T01_stream_negotiation_success : t01db.
Lemma T01_do_bind : forall n b s, T01 s -> T01 (fst (do_bind n b s)).
Proof. intros; name_result; unfold do_bind, ret; cases; leaf; eauto 30 with t01db. Qed.
#[export] Hint Resolve T01_do_bind : t01db.
Lemma T01_session_start : forall n s, T01 s -> T01 (session_start n s).
Proof. intros; unfold session_start, ret; cases; leaf; eauto 30 with t01db. Qed.
#[export] Hint Resolve T01_session_start : t01db.
Lemma T01_sm_enable : forall s, T01 s -> T01 (sm_enable s).
Proof. intros; unfold sm_enable, ret; cases; leaf; eauto 30 with t01db. Qed.
#[export] Hint Resolve T01_sm_enable : t01db.
Lemma T01_auth_legacy : forall n s, T01 s -> T01 (auth_legacy n s).
Proof. intros; unfold auth_legacy, ret; cases; leaf; eauto 30 with t01db. Qed.
#[export] Hint Resolve T01_auth_legacy : t01db.
Ltac t01_sasl :=
  match goal with
  | |- T01 (set_sasl (del_mech ?m (sasl ?s)) ?x) =>
      apply T01_set_sasl;
      [ let E := fresh in intros E;
        assert (sasl s = []) as -> by (revert E; unfold send_gated, q_append, h_add; cases; sproj; auto); reflexivity
      | ]
  end.
#[export] Hint Extern 1 (T01 (set_sasl (del_mech _ _) _)) => t01_sasl : t01db.
Lemma T01_auth : forall fuel n s, T01 s -> T01 (fst (auth fuel n s)).
Proof. induction fuel; intros; name_result; cbn [auth]; unfold ret; cases; leaf; eauto 30 with t01db. Qed.
#[export] Hint Resolve T01_auth : t01db.
Lemma T01_sasl_result : forall n e s, T01 s -> T01 (fst (sasl_result n e s)).
Proof. intros; name_result; unfold sasl_result, ret; cases; leaf; eauto 30 with t01db. Qed.
#[export] Hint Resolve T01_sasl_result : t01db.
Lemma T01_features_sasl : forall n e s, T01 s -> T01 (fst (features_sasl n e s)).
Proof. intros; name_result; unfold features_sasl, ret; cases; leaf; eauto 30 with t01db. Qed.
#[export] Hint Resolve T01_features_sasl : t01db.
Lemma T01_call_handler_other : forall k n e s, hkind_eqb k HFeatures = false -> T01 s -> T01 (fst (fst (call_handler k n e s))).
Proof.
  intros k; destruct k; intros n0 e s K1 H; try discriminate;
    name_result; unfold call_handler, ret; cases; leaf; eauto 30 with t01db.
Qed.
Lemma T01_of_PZ_NT1 : forall s, PZ s -> NT1 s -> T01 s.
Proof.
  intros s P N. split.
  - intros O R. rewrite (P O) in R. discriminate.
  - intros T. unfold NT1 in N. congruence.
Qed.
Lemma T01_h_del_NT1 : forall k s, NT1 s -> T01 s -> T01 (h_del k s).
Proof. intros k s N [A B]. split; [exact A|]. intros T. unfold NT1 in N. unfold h_del, timed_has in T. revert T. sproj. fold (timed_has TMissingFeatures s). congruence. Qed.
Lemma hmarks_pos : forall k s, is_main k = true -> h_has k s = true -> (1 <= hmarks s)%nat.
Proof.
  intros k s M. unfold hmarks, h_has. induction (handlers s) as [|x l IH]; cbn; [discriminate|].
  destruct (hkind_eqb k (fst x)) eqn:E; [apply hkind_eqb_eq in E; rewrite <- E, M; cbn; lia|].
  cbn [orb]. intros Hl. specialize (IH Hl). destruct (is_main (fst x)); cbn; lia.
Qed.
(* _handle_features is the only place where the mechanism list grows; it has removed the features
   time-out before, and it runs on an open stream (its own registration is the one token) *)
Lemma T01_call_handler_visit : forall k n e s, T01 s -> (marks s <= 1)%nat -> h_has k s = true ->
  T01 (if snd (call_handler k n e s) then fst (fst (call_handler k n e s)) else h_del k (fst (fst (call_handler k n e s)))).
Proof.
  intros k n e s H M Hk.
  destruct (hkind_eqb k HFeatures) eqn:K1; [apply hkind_eqb_eq in K1; subst k|].
  { (* _handle_features *)
    assert (P0 : PZ s).
    { intros O. unfold marks, pending in M. rewrite O in M. cbn [client_oh andb] in M.
      pose proof (hmarks_pos HFeatures s eq_refl Hk).
      destruct (reset_parser s || is_depth0 (ps s)); auto. cbn [b2n] in M. lia. }
    unfold call_handler. cbv zeta.
    match goal with |- context [auth 1 n ?x] => assert (T : PZ x /\ NT1 x) end.
    { split.
      - cases; unfold timed_del; eauto 10 with pzdb.
      - assert (N0 : NT1 (timed_del TMissingFeaturesSasl (timed_del TMissingFeatures s))).
        { unfold NT1. rewrite !timed_has_timed_del. cbn. rewrite andb_false_r. reflexivity. }
        cases; eauto 10 with nt1db. }
    destruct T as [T1' T2'].
    match goal with |- context [auth 1 n ?x] =>
      pose proof (T01_auth 1 n x (T01_of_PZ_NT1 _ T1' T2')) as T3; pose proof (NT1_auth 1 n x T2') as T4;
      destruct (auth 1 n x) as [s4 o4] end.
    cbn [fst snd] in *. apply T01_h_del_NT1; assumption. }
  pose proof (T01_call_handler_other k n e s K1 H) as T.
  destruct (call_handler k n e s) as [[s1 o1] keep]. cbn [fst snd] in *. destruct keep; auto.
  apply T01_h_del; auto.
  all: try (destruct (hkind_eqb HFeatures k) eqn:E; auto; apply hkind_eqb_eq in E; subst k; rewrite hkind_eqb_refl in K1; discriminate).
Qed.
Lemma T01_call_id_handler : forall k n e s, T01 s -> T01 (fst (call_id_handler k n e s)).
Proof. intros k; destruct k; intros; name_result; unfold call_id_handler, ret; cases; leaf; eauto 30 with t01db. Qed.
#[export] Hint Resolve T01_call_id_handler : t01db.
Lemma T01_note_rx : forall e s, T01 s -> T01 (note_rx e s).
Proof. intros; unfold note_rx; cbv zeta; eauto with t01db. Qed.
#[export] Hint Resolve T01_note_rx : t01db.
Lemma T01_sm_handle : forall e s, T01 s -> T01 (sm_handle e s).
Proof. intros; unfold sm_handle, ret; cases; leaf; eauto 30 with t01db. Qed.
#[export] Hint Resolve T01_sm_handle : t01db.
Lemma T01_open_handler : forall n s, (oh s = OpenAuth -> sasl s = []) -> T01 s -> T01 (fst (open_handler n s)).
Proof.
  intros n s O H. name_result. unfold open_handler, ret. destruct (oh s) eqn:E; try (cases; leaf; eauto 30 with t01db; fail).
  specialize (O eq_refl). leaf.
  match goal with |- T01 (timed_add TMissingFeatures n ?x) =>
    assert (Hx : T01 x) by eauto 30 with t01db;
    assert (Sx : sasl x = []) by (rewrite <- O; unfold h_add, timed_reset_all; cases; reflexivity);
    assert (Fx : h_has HFeatures x = true) by (rewrite h_has_h_add, hkind_eqb_refl; apply orb_true_r);
    revert Hx Sx Fx; generalize x end.
  intros x [A B] Sx Fx. split.
  - intros O1 R. rewrite <- Sx. unfold timed_add; cases; reflexivity.
  - intros _. split; [rewrite <- Sx; unfold timed_add; cases; reflexivity | revert Fx; unfold timed_add, h_has; cases; auto].
Qed.
Lemma T01_stream_start : forall n a b s, (oh s = OpenAuth -> sasl s = []) -> T01 s -> T01 (fst (stream_start n a b s)).
Proof.
  intros n a b s O H. name_result. unfold stream_start. cases; leaf; eauto 30 with t01db.
  all: apply T01_open_handler; eauto 30 with t01db.
Qed.
Lemma T01_stream_end : forall s, T01 s -> T01 (fst (stream_end s)).
Proof. intros; name_result; unfold stream_end, ret; cases; leaf; eauto 30 with t01db. Qed.
#[export] Hint Resolve T01_stream_end : t01db.
Lemma T01_call_timed : forall k n s, T01 s -> T01 (fst (fst (call_timed k n s))).
Proof. intros k; destruct k; intros; name_result; unfold call_timed, ret; cases; leaf; eauto 30 with t01db. Qed.
#[export] Hint Resolve T01_call_timed : t01db.
Lemma T01_visit_timed : forall n r k, T01 (fst r) -> T01 (fst (visit_timed n r k)).
Proof. intros n [s o] k H. cbn [fst] in H. name_result. unfold visit_timed. cases; leaf; eauto 30 with t01db. Qed.
Lemma T01_fold_visit_timed : forall n l s o, T01 s -> T01 (fst (fold_left (visit_timed n) l (s, o))).
Proof. intros n l s o H. apply (fold_left_inv (fun r => T01 (fst r))); auto. intros; apply T01_visit_timed; auto. Qed.
#[export] Hint Resolve T01_fold_visit_timed : t01db.
Lemma T01_fire_timed : forall n s, T01 s -> T01 (fst (fire_timed n s)).
Proof. intros; name_result; unfold fire_timed, ret; cases; leaf; eauto 30 with t01db. Qed.
#[export] Hint Resolve T01_fire_timed : t01db.
Lemma T01_connect_next : forall n s, T01 s -> T01 (fst (fst (connect_next n s))).
Proof. intros; name_result; unfold connect_next, ret; cases; leaf; eauto 30 with t01db. Qed.
#[export] Hint Resolve T01_connect_next : t01db.
Lemma T01_conn_established : forall n s, T01 s -> T01 (fst (conn_established n s)).
Proof. intros; name_result; unfold conn_established, ret; cases; leaf; eauto 30 with t01db. Qed.
#[export] Hint Resolve T01_conn_established : t01db.

(* CS: the mandatory-TLS check passes (or is irrelevant) *)
Definition CS (s : state) : Prop := st s = Disconnected \/ f_tls_mandatory s = false \/ is_secured s = true.
Lemma CS_set_f_tls_disabled : forall v s, CS s -> CS (set_f_tls_disabled v s).
Proof. intros v []; exact (fun h => h). Qed.
#[export] Hint Resolve CS_set_f_tls_disabled : csdb.
Lemma CS_set_f_legacy_ssl : forall v s, CS s -> CS (set_f_legacy_ssl v s).
Proof. intros v []; exact (fun h => h). Qed.
#[export] Hint Resolve CS_set_f_legacy_ssl : csdb.
Lemma CS_set_f_tls_trust : forall v s, CS s -> CS (set_f_tls_trust v s).
Proof. intros v []; exact (fun h => h). Qed.
#[export] Hint Resolve CS_set_f_tls_trust : csdb.
Lemma CS_set_f_legacy_auth : forall v s, CS s -> CS (set_f_legacy_auth v s).
Proof. intros v []; exact (fun h => h). Qed.
#[export] Hint Resolve CS_set_f_legacy_auth : csdb.
Lemma CS_set_f_sm_disable : forall v s, CS s -> CS (set_f_sm_disable v s).
Proof. intros v []; exact (fun h => h). Qed.
#[export] Hint Resolve CS_set_f_sm_disable : csdb.
Lemma CS_set_f_comp_allowed : forall v s, CS s -> CS (set_f_comp_allowed v s).
Proof. intros v []; exact (fun h => h). Qed.
#[export] Hint Resolve CS_set_f_comp_allowed : csdb.
Lemma CS_set_f_comp_dont_reset : forall v s, CS s -> CS (set_f_comp_dont_reset v s).
Proof. intros v []; exact (fun h => h). Qed.
#[export] Hint Resolve CS_set_f_comp_dont_reset : csdb.
Lemma CS_set_jid_set : forall v s, CS s -> CS (set_jid_set v s).
Proof. intros v []; exact (fun h => h). Qed.
#[export] Hint Resolve CS_set_jid_set : csdb.
Lemma CS_set_jid_node : forall v s, CS s -> CS (set_jid_node v s).
Proof. intros v []; exact (fun h => h). Qed.
#[export] Hint Resolve CS_set_jid_node : csdb.
Lemma CS_set_jid_res : forall v s, CS s -> CS (set_jid_res v s).
Proof. intros v []; exact (fun h => h). Qed.
#[export] Hint Resolve CS_set_jid_res : csdb.
Lemma CS_set_pass_set : forall v s, CS s -> CS (set_pass_set v s).
Proof. intros v []; exact (fun h => h). Qed.
#[export] Hint Resolve CS_set_pass_set : csdb.
Lemma CS_set_cert_set : forall v s, CS s -> CS (set_cert_set v s).
Proof. intros v []; exact (fun h => h). Qed.
#[export] Hint Resolve CS_set_cert_set : csdb.
Lemma CS_set_is_raw : forall v s, CS s -> CS (set_is_raw v s).
Proof. intros v []; exact (fun h => h). Qed.
#[export] Hint Resolve CS_set_is_raw : csdb.
Lemma CS_set_typ : forall v s, CS s -> CS (set_typ v s).
Proof. intros v []; exact (fun h => h). Qed.
#[export] Hint Resolve CS_set_typ : csdb.
Lemma CS_set_user_handler : forall v s, CS s -> CS (set_user_handler v s).
Proof. intros v []; exact (fun h => h). Qed.
#[export] Hint Resolve CS_set_user_handler : csdb.
Lemma CS_set_user_timed : forall v s, CS s -> CS (set_user_timed v s).
Proof. intros v []; exact (fun h => h). Qed.
#[export] Hint Resolve CS_set_user_timed : csdb.
Lemma CS_set_tlsnew_ok : forall v s, CS s -> CS (set_tlsnew_ok v s).
Proof. intros v []; exact (fun h => h). Qed.
#[export] Hint Resolve CS_set_tlsnew_ok : csdb.
Lemma CS_set_cb_avail : forall v s, CS s -> CS (set_cb_avail v s).
Proof. intros v []; exact (fun h => h). Qed.
#[export] Hint Resolve CS_set_cb_avail : csdb.
Lemma CS_set_tls_verdicts : forall v s, CS s -> CS (set_tls_verdicts v s).
Proof. intros v []; exact (fun h => h). Qed.
#[export] Hint Resolve CS_set_tls_verdicts : csdb.
Lemma CS_set_next_cands : forall v s, CS s -> CS (set_next_cands v s).
Proof. intros v []; exact (fun h => h). Qed.
#[export] Hint Resolve CS_set_next_cands : csdb.
Lemma CS_set_cands : forall v s, CS s -> CS (set_cands v s).
Proof. intros v []; exact (fun h => h). Qed.
#[export] Hint Resolve CS_set_cands : csdb.
Lemma CS_set_cur_ep : forall v s, CS s -> CS (set_cur_ep v s).
Proof. intros v []; exact (fun h => h). Qed.
#[export] Hint Resolve CS_set_cur_ep : csdb.
Lemma CS_set_stamp : forall v s, CS s -> CS (set_stamp v s).
Proof. intros v []; exact (fun h => h). Qed.
#[export] Hint Resolve CS_set_stamp : csdb.
Lemma CS_set_err : forall v s, CS s -> CS (set_err v s).
Proof. intros v []; exact (fun h => h). Qed.
#[export] Hint Resolve CS_set_err : csdb.
Lemma CS_set_stream_error : forall v s, CS s -> CS (set_stream_error v s).
Proof. intros v []; exact (fun h => h). Qed.
#[export] Hint Resolve CS_set_stream_error : csdb.
Lemma CS_set_tls_support : forall v s, CS s -> CS (set_tls_support v s).
Proof. intros v []; exact (fun h => h). Qed.
#[export] Hint Resolve CS_set_tls_support : csdb.
Lemma CS_set_sasl : forall v s, CS s -> CS (set_sasl v s).
Proof. intros v []; exact (fun h => h). Qed.
#[export] Hint Resolve CS_set_sasl : csdb.
Lemma CS_set_bind_required : forall v s, CS s -> CS (set_bind_required v s).
Proof. intros v []; exact (fun h => h). Qed.
#[export] Hint Resolve CS_set_bind_required : csdb.
Lemma CS_set_session_required : forall v s, CS s -> CS (set_session_required v s).
Proof. intros v []; exact (fun h => h). Qed.
#[export] Hint Resolve CS_set_session_required : csdb.
Lemma CS_set_comp_supported : forall v s, CS s -> CS (set_comp_supported v s).
Proof. intros v []; exact (fun h => h). Qed.
#[export] Hint Resolve CS_set_comp_supported : csdb.
Lemma CS_set_comp_active : forall v s, CS s -> CS (set_comp_active v s).
Proof. intros v []; exact (fun h => h). Qed.
#[export] Hint Resolve CS_set_comp_active : csdb.
Lemma CS_set_sm_alloc : forall v s, CS s -> CS (set_sm_alloc v s).
Proof. intros v []; exact (fun h => h). Qed.
#[export] Hint Resolve CS_set_sm_alloc : csdb.
Lemma CS_set_sm_support : forall v s, CS s -> CS (set_sm_support v s).
Proof. intros v []; exact (fun h => h). Qed.
#[export] Hint Resolve CS_set_sm_support : csdb.
Lemma CS_set_sm_enabled : forall v s, CS s -> CS (set_sm_enabled v s).
Proof. intros v []; exact (fun h => h). Qed.
#[export] Hint Resolve CS_set_sm_enabled : csdb.
Lemma CS_set_sm_can_resume : forall v s, CS s -> CS (set_sm_can_resume v s).
Proof. intros v []; exact (fun h => h). Qed.
#[export] Hint Resolve CS_set_sm_can_resume : csdb.
Lemma CS_set_sm_resume : forall v s, CS s -> CS (set_sm_resume v s).
Proof. intros v []; exact (fun h => h). Qed.
#[export] Hint Resolve CS_set_sm_resume : csdb.
Lemma CS_set_sm_dont_request : forall v s, CS s -> CS (set_sm_dont_request v s).
Proof. intros v []; exact (fun h => h). Qed.
#[export] Hint Resolve CS_set_sm_dont_request : csdb.
Lemma CS_set_sm_has_previd : forall v s, CS s -> CS (set_sm_has_previd v s).
Proof. intros v []; exact (fun h => h). Qed.
#[export] Hint Resolve CS_set_sm_has_previd : csdb.
Lemma CS_set_sm_has_id : forall v s, CS s -> CS (set_sm_has_id v s).
Proof. intros v []; exact (fun h => h). Qed.
#[export] Hint Resolve CS_set_sm_has_id : csdb.
Lemma CS_set_sm_parked : forall v s, CS s -> CS (set_sm_parked v s).
Proof. intros v []; exact (fun h => h). Qed.
#[export] Hint Resolve CS_set_sm_parked : csdb.
Lemma CS_set_sm_r_sent : forall v s, CS s -> CS (set_sm_r_sent v s).
Proof. intros v []; exact (fun h => h). Qed.
#[export] Hint Resolve CS_set_sm_r_sent : csdb.
Lemma CS_set_sm_bind_saved : forall v s, CS s -> CS (set_sm_bind_saved v s).
Proof. intros v []; exact (fun h => h). Qed.
#[export] Hint Resolve CS_set_sm_bind_saved : csdb.
Lemma CS_set_bound_jid : forall v s, CS s -> CS (set_bound_jid v s).
Proof. intros v []; exact (fun h => h). Qed.
#[export] Hint Resolve CS_set_bound_jid : csdb.
Lemma CS_set_stream_id : forall v s, CS s -> CS (set_stream_id v s).
Proof. intros v []; exact (fun h => h). Qed.
#[export] Hint Resolve CS_set_stream_id : csdb.
Lemma CS_set_neg_done : forall v s, CS s -> CS (set_neg_done v s).
Proof. intros v []; exact (fun h => h). Qed.
#[export] Hint Resolve CS_set_neg_done : csdb.
Lemma CS_set_reset_parser : forall v s, CS s -> CS (set_reset_parser v s).
Proof. intros v []; exact (fun h => h). Qed.
#[export] Hint Resolve CS_set_reset_parser : csdb.
Lemma CS_set_oh : forall v s, CS s -> CS (set_oh v s).
Proof. intros v []; exact (fun h => h). Qed.
#[export] Hint Resolve CS_set_oh : csdb.
Lemma CS_set_ps : forall v s, CS s -> CS (set_ps v s).
Proof. intros v []; exact (fun h => h). Qed.
#[export] Hint Resolve CS_set_ps : csdb.
Lemma CS_set_handlers : forall v s, CS s -> CS (set_handlers v s).
Proof. intros v []; exact (fun h => h). Qed.
#[export] Hint Resolve CS_set_handlers : csdb.
Lemma CS_set_idhandlers : forall v s, CS s -> CS (set_idhandlers v s).
Proof. intros v []; exact (fun h => h). Qed.
#[export] Hint Resolve CS_set_idhandlers : csdb.
Lemma CS_set_timed : forall v s, CS s -> CS (set_timed v s).
Proof. intros v []; exact (fun h => h). Qed.
#[export] Hint Resolve CS_set_timed : csdb.
Lemma CS_set_sendq : forall v s, CS s -> CS (set_sendq v s).
Proof. intros v []; exact (fun h => h). Qed.
#[export] Hint Resolve CS_set_sendq : csdb.
Lemma CS_set_rxq : forall v s, CS s -> CS (set_rxq v s).
Proof. intros v []; exact (fun h => h). Qed.
#[export] Hint Resolve CS_set_rxq : csdb.
Lemma CS_set_smq : forall v s, CS s -> CS (set_smq v s).
Proof. intros v []; exact (fun h => h). Qed.
#[export] Hint Resolve CS_set_smq : csdb.
Lemma CS_set_sm_sent : forall v s, CS s -> CS (set_sm_sent v s).
Proof. intros v []; exact (fun h => h). Qed.
#[export] Hint Resolve CS_set_sm_sent : csdb.
Lemma CS_set_scram_serial : forall v s, CS s -> CS (set_scram_serial v s).
Proof. intros v []; exact (fun h => h). Qed.
#[export] Hint Resolve CS_set_scram_serial : csdb.
Lemma CS_set_crashed : forall v s, CS s -> CS (set_crashed v s).
Proof. intros v []; exact (fun h => h). Qed.
#[export] Hint Resolve CS_set_crashed : csdb.
Lemma CS_set_gh : forall v s, CS s -> CS (set_gh v s).
Proof. intros v []; exact (fun h => h). Qed.
#[export] Hint Resolve CS_set_gh : csdb.
Lemma CS_upg : forall f s, CS s -> CS (upg f s).
Proof. intros f []; exact (fun h => h). Qed.
Lemma CS_set_st_disc : forall s, CS (set_st Disconnected s).
Proof. intros; left; destruct s; reflexivity. Qed.
Lemma CS_disc : forall s, st s = Disconnected -> CS s.
Proof. intros; left; assumption. Qed.
Lemma CS_set_tls_present_false_disc : forall s, st s = Disconnected -> CS (set_tls_present false s).
Proof. intros s H; left; destruct s; exact H. Qed.
#[export] Hint Resolve CS_upg CS_set_st_disc : csdb.
Lemma CS_q_append : forall w u sm s, CS s -> CS (q_append w u sm s).
Proof. intros; unfold q_append; cases; eauto 10 with csdb. Qed.
#[export] Hint Resolve CS_q_append : csdb.
Lemma CS_send_gated : forall w u sm s, CS s -> CS (send_gated w u sm s).
Proof. intros; unfold send_gated, ret; cases; leaf; eauto 30 with csdb. Qed.
#[export] Hint Resolve CS_send_gated : csdb.
Lemma CS_send_raw_m : forall w u sm s, CS s -> CS (send_raw_m w u sm s).
Proof. intros; unfold send_raw_m, ret; cases; leaf; eauto 30 with csdb. Qed.
#[export] Hint Resolve CS_send_raw_m : csdb.
Lemma CS_timed_add : forall k n s, CS s -> CS (timed_add k n s).
Proof. intros; unfold timed_add, ret; cases; leaf; eauto 30 with csdb. Qed.
#[export] Hint Resolve CS_timed_add : csdb.
Lemma CS_timed_del : forall k s, CS s -> CS (timed_del k s).
Proof. intros; unfold timed_del, ret; cases; leaf; eauto 30 with csdb. Qed.
#[export] Hint Resolve CS_timed_del : csdb.
Lemma CS_timed_reset_all : forall n s, CS s -> CS (timed_reset_all n s).
Proof. intros; unfold timed_reset_all, ret; cases; leaf; eauto 30 with csdb. Qed.
#[export] Hint Resolve CS_timed_reset_all : csdb.
Lemma CS_timed_set_stamp : forall k n s, CS s -> CS (timed_set_stamp k n s).
Proof. intros; unfold timed_set_stamp, ret; cases; leaf; eauto 30 with csdb. Qed.
#[export] Hint Resolve CS_timed_set_stamp : csdb.
Lemma CS_h_add : forall k s, CS s -> CS (h_add k s).
Proof. intros; unfold h_add, ret; cases; leaf; eauto 30 with csdb. Qed.
#[export] Hint Resolve CS_h_add : csdb.
Lemma CS_h_del : forall k s, CS s -> CS (h_del k s).
Proof. intros; unfold h_del, ret; cases; leaf; eauto 30 with csdb. Qed.
#[export] Hint Resolve CS_h_del : csdb.
Lemma CS_id_add : forall k s, CS s -> CS (id_add k s).
Proof. intros; unfold id_add, ret; cases; leaf; eauto 30 with csdb. Qed.
#[export] Hint Resolve CS_id_add : csdb.
Lemma CS_id_del : forall k s, CS s -> CS (id_del k s).
Proof. intros; unfold id_del, ret; cases; leaf; eauto 30 with csdb. Qed.
#[export] Hint Resolve CS_id_del : csdb.
Lemma CS_reset_sm_for_reconnect : forall s, CS s -> CS (reset_sm_for_reconnect s).
Proof. intros; unfold reset_sm_for_reconnect, ret; cases; leaf; eauto 30 with csdb. Qed.
#[export] Hint Resolve CS_reset_sm_for_reconnect : csdb.
Lemma CS_sm_queue_cleanup : forall h s, CS s -> CS (sm_queue_cleanup h s).
Proof. intros; unfold sm_queue_cleanup, ret; cases; leaf; eauto 30 with csdb. Qed.
#[export] Hint Resolve CS_sm_queue_cleanup : csdb.
Lemma CS_sm_queue_resend : forall s, CS s -> CS (sm_queue_resend s).
Proof. intros; unfold sm_queue_resend. apply fold_left_inv; eauto with csdb. Qed.
#[export] Hint Resolve CS_sm_queue_resend : csdb.
Lemma CS_conn_disconnect : forall s, CS s -> CS (fst (conn_disconnect s)).
Proof.
  intros s H. name_result. unfold conn_disconnect, ret. cases; leaf; auto with csdb;
    left; unfold reset_sm_for_reconnect; cases; reflexivity.
Qed.
#[export] Hint Resolve CS_conn_disconnect : csdb.
Lemma CS_xmpp_disconnect : forall n s, CS s -> CS (xmpp_disconnect n s).
Proof. intros; unfold xmpp_disconnect, ret; cases; leaf; eauto 30 with csdb. Qed.
#[export] Hint Resolve CS_xmpp_disconnect : csdb.
Lemma CS_prepare_reset : forall h s, CS s -> CS (prepare_reset h s).
Proof. intros; unfold prepare_reset, ret; cases; leaf; eauto 30 with csdb. Qed.
#[export] Hint Resolve CS_prepare_reset : csdb.
Lemma CS_conn_open_stream : forall s, CS s -> CS (conn_open_stream s).
Proof. intros; unfold conn_open_stream, ret; cases; leaf; eauto 30 with csdb. Qed.
#[export] Hint Resolve CS_conn_open_stream : csdb.
Lemma CS_stream_negotiation_success : forall s, CS s -> CS (fst (stream_negotiation_success s)).
Proof. intros; name_result; unfold stream_negotiation_success, ret; cases; leaf; eauto 30 with csdb. Qed.
#[export] Hint Resolve CS_stream_negotiation_success : csdb.
Lemma CS_do_bind : forall n b s, CS s -> CS (fst (do_bind n b s)).
Proof. intros; name_result; unfold do_bind, ret; cases; leaf; eauto 30 with csdb. Qed.
#[export] Hint Resolve CS_do_bind : csdb.
Lemma CS_session_start : forall n s, CS s -> CS (session_start n s).
Proof. intros; unfold session_start, ret; cases; leaf; eauto 30 with csdb. Qed.
#[export] Hint Resolve CS_session_start : csdb.
Lemma CS_sm_enable : forall s, CS s -> CS (sm_enable s).
Proof. intros; unfold sm_enable, ret; cases; leaf; eauto 30 with csdb. Qed.
#[export] Hint Resolve CS_sm_enable : csdb.
Lemma CS_auth_legacy : forall n s, CS s -> CS (auth_legacy n s).
Proof. intros; unfold auth_legacy, ret; cases; leaf; eauto 30 with csdb. Qed.
#[export] Hint Resolve CS_auth_legacy : csdb.
Lemma CS_auth : forall fuel n s, CS s -> CS (fst (auth fuel n s)).
Proof. induction fuel; intros; name_result; cbn [auth]; unfold ret; cases; leaf; eauto 30 with csdb. Qed.
#[export] Hint Resolve CS_auth : csdb.
Lemma CS_sasl_result : forall n e s, CS s -> CS (fst (sasl_result n e s)).
Proof. intros; name_result; unfold sasl_result, ret; cases; leaf; eauto 30 with csdb. Qed.
#[export] Hint Resolve CS_sasl_result : csdb.
Lemma CS_features_sasl : forall n e s, CS s -> CS (fst (features_sasl n e s)).
Proof. intros; name_result; unfold features_sasl, ret; cases; leaf; eauto 30 with csdb. Qed.
#[export] Hint Resolve CS_features_sasl : csdb.
Lemma CS_call_handler : forall k n e s, hkind_eqb k HProceedTls = false -> CS s -> CS (fst (fst (call_handler k n e s))).
Proof.
  intros k; destruct k; intros n0 e s K H; try discriminate;
    name_result; unfold call_handler, ret; cases; leaf; eauto 30 with csdb.
Qed.
Lemma CS_call_id_handler : forall k n e s, CS s -> CS (fst (call_id_handler k n e s)).
Proof. intros k; destruct k; intros; name_result; unfold call_id_handler, ret; cases; leaf; eauto 30 with csdb. Qed.
#[export] Hint Resolve CS_call_id_handler : csdb.
Lemma CS_note_rx : forall e s, CS s -> CS (note_rx e s).
Proof. intros; unfold note_rx; cbv zeta; eauto with csdb. Qed.
#[export] Hint Resolve CS_note_rx : csdb.
Lemma CS_sm_handle : forall e s, CS s -> CS (sm_handle e s).
Proof. intros; unfold sm_handle, ret; cases; leaf; eauto 30 with csdb. Qed.
#[export] Hint Resolve CS_sm_handle : csdb.
Lemma CS_open_handler : forall n s, CS s -> CS (fst (open_handler n s)).
Proof. intros; name_result; unfold open_handler, ret; cases; leaf; eauto 30 with csdb. Qed.
#[export] Hint Resolve CS_open_handler : csdb.
Lemma CS_stream_start : forall n a b s, CS s -> CS (fst (stream_start n a b s)).
Proof. intros; name_result; unfold stream_start, ret; cases; leaf; eauto 30 with csdb. Qed.
#[export] Hint Resolve CS_stream_start : csdb.
Lemma CS_stream_end : forall s, CS s -> CS (fst (stream_end s)).
Proof. intros; name_result; unfold stream_end, ret; cases; leaf; eauto 30 with csdb. Qed.
#[export] Hint Resolve CS_stream_end : csdb.
Lemma CS_call_timed : forall k n s, CS s -> CS (fst (fst (call_timed k n s))).
Proof. intros k; destruct k; intros; name_result; unfold call_timed, ret; cases; leaf; eauto 30 with csdb. Qed.
#[export] Hint Resolve CS_call_timed : csdb.
Lemma CS_visit_timed : forall n r k, CS (fst r) -> CS (fst (visit_timed n r k)).
Proof. intros n [s o] k H. cbn [fst] in H. name_result. unfold visit_timed. cases; leaf; eauto 30 with csdb. Qed.
Lemma CS_fold_visit_timed : forall n l s o, CS s -> CS (fst (fold_left (visit_timed n) l (s, o))).
Proof. intros n l s o H. apply (fold_left_inv (fun r => CS (fst r))); auto. intros; apply CS_visit_timed; auto. Qed.
#[export] Hint Resolve CS_fold_visit_timed : csdb.
Lemma CS_fire_timed : forall n s, CS s -> CS (fst (fire_timed n s)).
Proof. intros; name_result; unfold fire_timed, ret; cases; leaf; eauto 30 with csdb. Qed.
#[export] Hint Resolve CS_fire_timed : csdb.
Lemma CS_connect_next : forall n s, CS s -> CS (fst (fst (connect_next n s))).
Proof. intros; name_result; unfold connect_next, ret; cases; leaf; eauto 30 with csdb. Qed.
#[export] Hint Resolve CS_connect_next : csdb.

(* PL: no handler that could report "connected" without further negotiation *)
Definition PL (s : state) : Prop := id_has IKLegacy s = false /\ h_has HComponentHs s = false /\ oh s <> OpenComponent.
Lemma PL_set_f_tls_disabled : forall v s, PL s -> PL (set_f_tls_disabled v s).
Proof. intros v []; exact (fun h => h). Qed.
#[export] Hint Resolve PL_set_f_tls_disabled : pldb.
Lemma PL_set_f_tls_mandatory : forall v s, PL s -> PL (set_f_tls_mandatory v s).
Proof. intros v []; exact (fun h => h). Qed.
#[export] Hint Resolve PL_set_f_tls_mandatory : pldb.
Lemma PL_set_f_legacy_ssl : forall v s, PL s -> PL (set_f_legacy_ssl v s).
Proof. intros v []; exact (fun h => h). Qed.
#[export] Hint Resolve PL_set_f_legacy_ssl : pldb.
Lemma PL_set_f_tls_trust : forall v s, PL s -> PL (set_f_tls_trust v s).
Proof. intros v []; exact (fun h => h). Qed.
#[export] Hint Resolve PL_set_f_tls_trust : pldb.
Lemma PL_set_f_legacy_auth : forall v s, PL s -> PL (set_f_legacy_auth v s).
Proof. intros v []; exact (fun h => h). Qed.
#[export] Hint Resolve PL_set_f_legacy_auth : pldb.
Lemma PL_set_f_sm_disable : forall v s, PL s -> PL (set_f_sm_disable v s).
Proof. intros v []; exact (fun h => h). Qed.
#[export] Hint Resolve PL_set_f_sm_disable : pldb.
Lemma PL_set_f_comp_allowed : forall v s, PL s -> PL (set_f_comp_allowed v s).
Proof. intros v []; exact (fun h => h). Qed.
#[export] Hint Resolve PL_set_f_comp_allowed : pldb.
Lemma PL_set_f_comp_dont_reset : forall v s, PL s -> PL (set_f_comp_dont_reset v s).
Proof. intros v []; exact (fun h => h). Qed.
#[export] Hint Resolve PL_set_f_comp_dont_reset : pldb.
Lemma PL_set_jid_set : forall v s, PL s -> PL (set_jid_set v s).
Proof. intros v []; exact (fun h => h). Qed.
#[export] Hint Resolve PL_set_jid_set : pldb.
Lemma PL_set_jid_node : forall v s, PL s -> PL (set_jid_node v s).
Proof. intros v []; exact (fun h => h). Qed.
#[export] Hint Resolve PL_set_jid_node : pldb.
Lemma PL_set_jid_res : forall v s, PL s -> PL (set_jid_res v s).
Proof. intros v []; exact (fun h => h). Qed.
#[export] Hint Resolve PL_set_jid_res : pldb.
Lemma PL_set_pass_set : forall v s, PL s -> PL (set_pass_set v s).
Proof. intros v []; exact (fun h => h). Qed.
#[export] Hint Resolve PL_set_pass_set : pldb.
Lemma PL_set_cert_set : forall v s, PL s -> PL (set_cert_set v s).
Proof. intros v []; exact (fun h => h). Qed.
#[export] Hint Resolve PL_set_cert_set : pldb.
Lemma PL_set_is_raw : forall v s, PL s -> PL (set_is_raw v s).
Proof. intros v []; exact (fun h => h). Qed.
#[export] Hint Resolve PL_set_is_raw : pldb.
Lemma PL_set_typ : forall v s, PL s -> PL (set_typ v s).
Proof. intros v []; exact (fun h => h). Qed.
#[export] Hint Resolve PL_set_typ : pldb.
Lemma PL_set_user_handler : forall v s, PL s -> PL (set_user_handler v s).
Proof. intros v []; exact (fun h => h). Qed.
#[export] Hint Resolve PL_set_user_handler : pldb.
Lemma PL_set_user_timed : forall v s, PL s -> PL (set_user_timed v s).
Proof. intros v []; exact (fun h => h). Qed.
#[export] Hint Resolve PL_set_user_timed : pldb.
Lemma PL_set_tlsnew_ok : forall v s, PL s -> PL (set_tlsnew_ok v s).
Proof. intros v []; exact (fun h => h). Qed.
#[export] Hint Resolve PL_set_tlsnew_ok : pldb.
Lemma PL_set_cb_avail : forall v s, PL s -> PL (set_cb_avail v s).
Proof. intros v []; exact (fun h => h). Qed.
#[export] Hint Resolve PL_set_cb_avail : pldb.
Lemma PL_set_tls_verdicts : forall v s, PL s -> PL (set_tls_verdicts v s).
Proof. intros v []; exact (fun h => h). Qed.
#[export] Hint Resolve PL_set_tls_verdicts : pldb.
Lemma PL_set_next_cands : forall v s, PL s -> PL (set_next_cands v s).
Proof. intros v []; exact (fun h => h). Qed.
#[export] Hint Resolve PL_set_next_cands : pldb.
Lemma PL_set_cands : forall v s, PL s -> PL (set_cands v s).
Proof. intros v []; exact (fun h => h). Qed.
#[export] Hint Resolve PL_set_cands : pldb.
Lemma PL_set_cur_ep : forall v s, PL s -> PL (set_cur_ep v s).
Proof. intros v []; exact (fun h => h). Qed.
#[export] Hint Resolve PL_set_cur_ep : pldb.
Lemma PL_set_st : forall v s, PL s -> PL (set_st v s).
Proof. intros v []; exact (fun h => h). Qed.
#[export] Hint Resolve PL_set_st : pldb.
Lemma PL_set_stamp : forall v s, PL s -> PL (set_stamp v s).
Proof. intros v []; exact (fun h => h). Qed.
#[export] Hint Resolve PL_set_stamp : pldb.
Lemma PL_set_err : forall v s, PL s -> PL (set_err v s).
Proof. intros v []; exact (fun h => h). Qed.
#[export] Hint Resolve PL_set_err : pldb.
Lemma PL_set_stream_error : forall v s, PL s -> PL (set_stream_error v s).
Proof. intros v []; exact (fun h => h). Qed.
#[export] Hint Resolve PL_set_stream_error : pldb.
Lemma PL_set_secured : forall v s, PL s -> PL (set_secured v s).
Proof. intros v []; exact (fun h => h). Qed.
#[export] Hint Resolve PL_set_secured : pldb.
Lemma PL_set_tls_present : forall v s, PL s -> PL (set_tls_present v s).
Proof. intros v []; exact (fun h => h). Qed.
#[export] Hint Resolve PL_set_tls_present : pldb.
Lemma PL_set_tls_failed : forall v s, PL s -> PL (set_tls_failed v s).
Proof. intros v []; exact (fun h => h). Qed.
#[export] Hint Resolve PL_set_tls_failed : pldb.
Lemma PL_set_tls_support : forall v s, PL s -> PL (set_tls_support v s).
Proof. intros v []; exact (fun h => h). Qed.
#[export] Hint Resolve PL_set_tls_support : pldb.
Lemma PL_set_sasl : forall v s, PL s -> PL (set_sasl v s).
Proof. intros v []; exact (fun h => h). Qed.
#[export] Hint Resolve PL_set_sasl : pldb.
Lemma PL_set_bind_required : forall v s, PL s -> PL (set_bind_required v s).
Proof. intros v []; exact (fun h => h). Qed.
#[export] Hint Resolve PL_set_bind_required : pldb.
Lemma PL_set_session_required : forall v s, PL s -> PL (set_session_required v s).
Proof. intros v []; exact (fun h => h). Qed.
#[export] Hint Resolve PL_set_session_required : pldb.
Lemma PL_set_comp_supported : forall v s, PL s -> PL (set_comp_supported v s).
Proof. intros v []; exact (fun h => h). Qed.
#[export] Hint Resolve PL_set_comp_supported : pldb.
Lemma PL_set_comp_active : forall v s, PL s -> PL (set_comp_active v s).
Proof. intros v []; exact (fun h => h). Qed.
#[export] Hint Resolve PL_set_comp_active : pldb.
Lemma PL_set_sm_alloc : forall v s, PL s -> PL (set_sm_alloc v s).
Proof. intros v []; exact (fun h => h). Qed.
#[export] Hint Resolve PL_set_sm_alloc : pldb.
Lemma PL_set_sm_support : forall v s, PL s -> PL (set_sm_support v s).
Proof. intros v []; exact (fun h => h). Qed.
#[export] Hint Resolve PL_set_sm_support : pldb.
Lemma PL_set_sm_enabled : forall v s, PL s -> PL (set_sm_enabled v s).
Proof. intros v []; exact (fun h => h). Qed.
#[export] Hint Resolve PL_set_sm_enabled : pldb.
Lemma PL_set_sm_can_resume : forall v s, PL s -> PL (set_sm_can_resume v s).
Proof. intros v []; exact (fun h => h). Qed.
#[export] Hint Resolve PL_set_sm_can_resume : pldb.
Lemma PL_set_sm_resume : forall v s, PL s -> PL (set_sm_resume v s).
Proof. intros v []; exact (fun h => h). Qed.
#[export] Hint Resolve PL_set_sm_resume : pldb.
Lemma PL_set_sm_dont_request : forall v s, PL s -> PL (set_sm_dont_request v s).
Proof. intros v []; exact (fun h => h). Qed.
#[export] Hint Resolve PL_set_sm_dont_request : pldb.
Lemma PL_set_sm_has_previd : forall v s, PL s -> PL (set_sm_has_previd v s).
Proof. intros v []; exact (fun h => h). Qed.
#[export] Hint Resolve PL_set_sm_has_previd : pldb.
Lemma PL_set_sm_has_id : forall v s, PL s -> PL (set_sm_has_id v s).
Proof. intros v []; exact (fun h => h). Qed.
#[export] Hint Resolve PL_set_sm_has_id : pldb.
Lemma PL_set_sm_parked : forall v s, PL s -> PL (set_sm_parked v s).
Proof. intros v []; exact (fun h => h). Qed.
#[export] Hint Resolve PL_set_sm_parked : pldb.
Lemma PL_set_sm_r_sent : forall v s, PL s -> PL (set_sm_r_sent v s).
Proof. intros v []; exact (fun h => h). Qed.
#[export] Hint Resolve PL_set_sm_r_sent : pldb.
Lemma PL_set_sm_bind_saved : forall v s, PL s -> PL (set_sm_bind_saved v s).
Proof. intros v []; exact (fun h => h). Qed.
#[export] Hint Resolve PL_set_sm_bind_saved : pldb.
Lemma PL_set_bound_jid : forall v s, PL s -> PL (set_bound_jid v s).
Proof. intros v []; exact (fun h => h). Qed.
#[export] Hint Resolve PL_set_bound_jid : pldb.
Lemma PL_set_stream_id : forall v s, PL s -> PL (set_stream_id v s).
Proof. intros v []; exact (fun h => h). Qed.
#[export] Hint Resolve PL_set_stream_id : pldb.
Lemma PL_set_neg_done : forall v s, PL s -> PL (set_neg_done v s).
Proof. intros v []; exact (fun h => h). Qed.
#[export] Hint Resolve PL_set_neg_done : pldb.
Lemma PL_set_reset_parser : forall v s, PL s -> PL (set_reset_parser v s).
Proof. intros v []; exact (fun h => h). Qed.
#[export] Hint Resolve PL_set_reset_parser : pldb.
Lemma PL_set_ps : forall v s, PL s -> PL (set_ps v s).
Proof. intros v []; exact (fun h => h). Qed.
#[export] Hint Resolve PL_set_ps : pldb.
Lemma PL_set_timed : forall v s, PL s -> PL (set_timed v s).
Proof. intros v []; exact (fun h => h). Qed.
#[export] Hint Resolve PL_set_timed : pldb.
Lemma PL_set_sendq : forall v s, PL s -> PL (set_sendq v s).
Proof. intros v []; exact (fun h => h). Qed.
#[export] Hint Resolve PL_set_sendq : pldb.
Lemma PL_set_rxq : forall v s, PL s -> PL (set_rxq v s).
Proof. intros v []; exact (fun h => h). Qed.
#[export] Hint Resolve PL_set_rxq : pldb.
Lemma PL_set_smq : forall v s, PL s -> PL (set_smq v s).
Proof. intros v []; exact (fun h => h). Qed.
#[export] Hint Resolve PL_set_smq : pldb.
Lemma PL_set_sm_sent : forall v s, PL s -> PL (set_sm_sent v s).
Proof. intros v []; exact (fun h => h). Qed.
#[export] Hint Resolve PL_set_sm_sent : pldb.
Lemma PL_set_scram_serial : forall v s, PL s -> PL (set_scram_serial v s).
Proof. intros v []; exact (fun h => h). Qed.
#[export] Hint Resolve PL_set_scram_serial : pldb.
Lemma PL_set_crashed : forall v s, PL s -> PL (set_crashed v s).
Proof. intros v []; exact (fun h => h). Qed.
#[export] Hint Resolve PL_set_crashed : pldb.
Lemma PL_set_gh : forall v s, PL s -> PL (set_gh v s).
Proof. intros v []; exact (fun h => h). Qed.
#[export] Hint Resolve PL_set_gh : pldb.
Lemma PL_upg : forall f s, PL s -> PL (upg f s).
Proof. intros f []; exact (fun h => h). Qed.
Lemma id_has_id_add : forall k' k s, id_has k' (id_add k s) = id_has k' s || idk_eqb k' k.
Proof.
  intros k' k s. unfold id_add. destruct (id_has k s) eqn:E.
  - destruct (idk_eqb k' k) eqn:E2; [|rewrite orb_false_r; reflexivity].
    assert (k' = k) by (destruct k', k; cbn in E2; congruence). subst. rewrite E. reflexivity.
  - unfold id_has. sproj. rewrite existsb_app. cbn. rewrite orb_false_r. reflexivity.
Qed.
Lemma id_has_id_del : forall k' k s, id_has k' (id_del k s) = id_has k' s && negb (idk_eqb k' k).
Proof.
  intros k' k s. unfold id_del, id_has. sproj. induction (idhandlers s) as [|x l IH]; [reflexivity|].
  cbn [filter existsb]. destruct (idk_eqb k (fst x)) eqn:E; cbn [negb].
  - rewrite IH. assert (k = fst x) by (destruct k, (fst x); cbn in E; congruence). subst k.
    destruct (idk_eqb k' (fst x)) eqn:E2; cbn [orb negb]; rewrite ?andb_false_r; reflexivity.
  - cbn [existsb]. rewrite IH. destruct (idk_eqb k' (fst x)) eqn:E2; cbn [orb]; [|reflexivity].
    assert (k' = fst x) by (destruct k', (fst x); cbn in E2; congruence). subst k'.
    assert (idk_eqb (fst x) k = false) as -> by (destruct (fst x), k; cbn in *; congruence).
    reflexivity.
Qed.
Lemma PL_h_add : forall k s, hkind_eqb HComponentHs k = false -> PL s -> PL (h_add k s).
Proof.
  intros k s E (A & B & C). refine (conj _ (conj _ _)).
  - revert A. unfold h_add, id_has; cases; auto.
  - rewrite h_has_h_add, B, E. reflexivity.
  - revert C. unfold h_add; cases; auto.
Qed.
Lemma PL_h_del : forall k s, PL s -> PL (h_del k s).
Proof. intros k s (A & B & C). refine (conj _ (conj _ _)); auto. rewrite h_has_h_del, B. reflexivity. Qed.
Lemma PL_id_add : forall k s, idk_eqb IKLegacy k = false -> PL s -> PL (id_add k s).
Proof.
  intros k s E (A & B & C). refine (conj _ (conj _ _)).
  - rewrite id_has_id_add, A, E. reflexivity.
  - revert B. unfold id_add, h_has; cases; auto.
  - revert C. unfold id_add; cases; auto.
Qed.
Lemma PL_id_del : forall k s, PL s -> PL (id_del k s).
Proof. intros k s (A & B & C). refine (conj _ (conj _ _)); auto. rewrite id_has_id_del, A. reflexivity. Qed.
Lemma PL_prepare_reset : forall h s, h <> OpenComponent -> PL s -> PL (prepare_reset h s).
Proof. intros h s N (A & B & C). refine (conj _ (conj _ _)); auto. Qed.
Lemma PL_enable_all : forall s, PL s -> PL (set_handlers (map (fun x => (fst x, true)) (handlers s)) s).
Proof. intros s (A & B & C). refine (conj _ (conj _ _)); auto. rewrite h_has_enable_all. exact B. Qed.
#[export] Hint Resolve PL_upg PL_h_del PL_id_del PL_enable_all : pldb.
#[export] Hint Extern 1 (PL (h_add _ _)) => (apply PL_h_add; [reflexivity | ]) : pldb.
#[export] Hint Extern 1 (PL (id_add _ _)) => (apply PL_id_add; [reflexivity | ]) : pldb.
#[export] Hint Extern 1 (PL (prepare_reset _ _)) => (apply PL_prepare_reset; [discriminate | ]) : pldb.
Lemma PL_q_append : forall w u sm s, PL s -> PL (q_append w u sm s).
Proof. intros; unfold q_append; cases; eauto 10 with pldb. Qed.
#[export] Hint Resolve PL_q_append : pldb.
Lemma PL_send_gated : forall w u sm s, PL s -> PL (send_gated w u sm s).
Proof. intros; unfold send_gated, ret; cases; leaf; eauto 30 with pldb. Qed.
#[export] Hint Resolve PL_send_gated : pldb.
Lemma PL_send_raw_m : forall w u sm s, PL s -> PL (send_raw_m w u sm s).
Proof. intros; unfold send_raw_m, ret; cases; leaf; eauto 30 with pldb. Qed.
#[export] Hint Resolve PL_send_raw_m : pldb.
Lemma PL_timed_add : forall k n s, PL s -> PL (timed_add k n s).
Proof. intros; unfold timed_add, ret; cases; leaf; eauto 30 with pldb. Qed.
#[export] Hint Resolve PL_timed_add : pldb.
Lemma PL_timed_del : forall k s, PL s -> PL (timed_del k s).
Proof. intros; unfold timed_del, ret; cases; leaf; eauto 30 with pldb. Qed.
#[export] Hint Resolve PL_timed_del : pldb.
Lemma PL_timed_reset_all : forall n s, PL s -> PL (timed_reset_all n s).
Proof. intros; unfold timed_reset_all, ret; cases; leaf; eauto 30 with pldb. Qed.
#[export] Hint Resolve PL_timed_reset_all : pldb.
Lemma PL_timed_set_stamp : forall k n s, PL s -> PL (timed_set_stamp k n s).
Proof. intros; unfold timed_set_stamp, ret; cases; leaf; eauto 30 with pldb. Qed.
#[export] Hint Resolve PL_timed_set_stamp : pldb.




Lemma PL_reset_sm_for_reconnect : forall s, PL s -> PL (reset_sm_for_reconnect s).
Proof. intros; unfold reset_sm_for_reconnect, ret; cases; leaf; eauto 30 with pldb. Qed.
#[export] Hint Resolve PL_reset_sm_for_reconnect : pldb.
Lemma PL_sm_queue_cleanup : forall h s, PL s -> PL (sm_queue_cleanup h s).
Proof. intros; unfold sm_queue_cleanup, ret; cases; leaf; eauto 30 with pldb. Qed.
#[export] Hint Resolve PL_sm_queue_cleanup : pldb.
Lemma PL_sm_queue_resend : forall s, PL s -> PL (sm_queue_resend s).
Proof. intros; unfold sm_queue_resend. apply fold_left_inv; eauto with pldb. Qed.
#[export] Hint Resolve PL_sm_queue_resend : pldb.
Lemma PL_conn_disconnect : forall s, PL s -> PL (fst (conn_disconnect s)).
Proof. intros; name_result; unfold conn_disconnect, ret; cases; leaf; eauto 30 with pldb. Qed.
#[export] Hint Resolve PL_conn_disconnect : pldb.
Lemma PL_xmpp_disconnect : forall n s, PL s -> PL (xmpp_disconnect n s).
Proof. intros; unfold xmpp_disconnect, ret; cases; leaf; eauto 30 with pldb. Qed.
#[export] Hint Resolve PL_xmpp_disconnect : pldb.

Lemma PL_conn_open_stream : forall s, PL s -> PL (conn_open_stream s).
Proof. intros; unfold conn_open_stream, ret; cases; leaf; eauto 30 with pldb. Qed.
#[export] Hint Resolve PL_conn_open_stream : pldb.
Lemma PL_conn_tls_start : forall s, PL s -> PL (fst (fst (conn_tls_start s))).
Proof. intros; name_result; unfold conn_tls_start, ret; cases; leaf; eauto 30 with pldb. Qed.
#[export] Hint Resolve PL_conn_tls_start : pldb.
Lemma PL_stream_negotiation_success : forall s, PL s -> PL (fst (stream_negotiation_success s)).
Proof. intros; name_result; unfold stream_negotiation_success, ret; cases; leaf; eauto 30 with pldb. Qed.
#[export] Hint Resolve PL_stream_negotiation_success : pldb.
Lemma PL_do_bind : forall n b s, PL s -> PL (fst (do_bind n b s)).
Proof. intros; name_result; unfold do_bind, ret; cases; leaf; eauto 30 with pldb. Qed.
#[export] Hint Resolve PL_do_bind : pldb.
Lemma PL_session_start : forall n s, PL s -> PL (session_start n s).
Proof. intros; unfold session_start, ret; cases; leaf; eauto 30 with pldb. Qed.
#[export] Hint Resolve PL_session_start : pldb.
Lemma PL_sm_enable : forall s, PL s -> PL (sm_enable s).
Proof. intros; unfold sm_enable, ret; cases; leaf; eauto 30 with pldb. Qed.
#[export] Hint Resolve PL_sm_enable : pldb.
Lemma PL_features_sasl : forall n e s, PL s -> PL (fst (features_sasl n e s)).
Proof. intros; name_result; unfold features_sasl, ret; cases; leaf; eauto 30 with pldb. Qed.
#[export] Hint Resolve PL_features_sasl : pldb.
Lemma PL_call_id_handler : forall k n e s, PL s -> PL (fst (call_id_handler k n e s)).
Proof. intros k; destruct k; intros; name_result; unfold call_id_handler, ret; cases; leaf; eauto 30 with pldb. Qed.
#[export] Hint Resolve PL_call_id_handler : pldb.
Lemma PL_note_rx : forall e s, PL s -> PL (note_rx e s).
Proof. intros; unfold note_rx; cbv zeta; eauto with pldb. Qed.
#[export] Hint Resolve PL_note_rx : pldb.
Lemma PL_sm_handle : forall e s, PL s -> PL (sm_handle e s).
Proof. intros; unfold sm_handle, ret; cases; leaf; eauto 30 with pldb. Qed.
#[export] Hint Resolve PL_sm_handle : pldb.
Lemma PL_stream_end : forall s, PL s -> PL (fst (stream_end s)).
Proof. intros; name_result; unfold stream_end, ret; cases; leaf; eauto 30 with pldb. Qed.
#[export] Hint Resolve PL_stream_end : pldb.
Lemma PL_connect_next : forall n s, PL s -> PL (fst (fst (connect_next n s))).
Proof. intros; name_result; unfold connect_next, ret; cases; leaf; eauto 30 with pldb. Qed.
#[export] Hint Resolve PL_connect_next : pldb.

(* SmOff: a disconnected object has no stream-management negotiation state left *)
Definition SmOff (s : state) : Prop :=
  st s = Disconnected -> sm_enabled s = false /\ sm_support s = false /\ sm_bind_saved s = false.
Lemma SmOff_set_f_tls_disabled : forall v s, SmOff s -> SmOff (set_f_tls_disabled v s).
Proof. intros v []; exact (fun h => h). Qed.
#[export] Hint Resolve SmOff_set_f_tls_disabled : smoffdb.
Lemma SmOff_set_f_tls_mandatory : forall v s, SmOff s -> SmOff (set_f_tls_mandatory v s).
Proof. intros v []; exact (fun h => h). Qed.
#[export] Hint Resolve SmOff_set_f_tls_mandatory : smoffdb.
Lemma SmOff_set_f_legacy_ssl : forall v s, SmOff s -> SmOff (set_f_legacy_ssl v s).
Proof. intros v []; exact (fun h => h). Qed.
#[export] Hint Resolve SmOff_set_f_legacy_ssl : smoffdb.
Lemma SmOff_set_f_tls_trust : forall v s, SmOff s -> SmOff (set_f_tls_trust v s).
Proof. intros v []; exact (fun h => h). Qed.
#[export] Hint Resolve SmOff_set_f_tls_trust : smoffdb.
Lemma SmOff_set_f_legacy_auth : forall v s, SmOff s -> SmOff (set_f_legacy_auth v s).
Proof. intros v []; exact (fun h => h). Qed.
#[export] Hint Resolve SmOff_set_f_legacy_auth : smoffdb.
Lemma SmOff_set_f_sm_disable : forall v s, SmOff s -> SmOff (set_f_sm_disable v s).
Proof. intros v []; exact (fun h => h). Qed.
#[export] Hint Resolve SmOff_set_f_sm_disable : smoffdb.
Lemma SmOff_set_f_comp_allowed : forall v s, SmOff s -> SmOff (set_f_comp_allowed v s).
Proof. intros v []; exact (fun h => h). Qed.
#[export] Hint Resolve SmOff_set_f_comp_allowed : smoffdb.
Lemma SmOff_set_f_comp_dont_reset : forall v s, SmOff s -> SmOff (set_f_comp_dont_reset v s).
Proof. intros v []; exact (fun h => h). Qed.
#[export] Hint Resolve SmOff_set_f_comp_dont_reset : smoffdb.
Lemma SmOff_set_jid_set : forall v s, SmOff s -> SmOff (set_jid_set v s).
Proof. intros v []; exact (fun h => h). Qed.
#[export] Hint Resolve SmOff_set_jid_set : smoffdb.
Lemma SmOff_set_jid_node : forall v s, SmOff s -> SmOff (set_jid_node v s).
Proof. intros v []; exact (fun h => h). Qed.
#[export] Hint Resolve SmOff_set_jid_node : smoffdb.
Lemma SmOff_set_jid_res : forall v s, SmOff s -> SmOff (set_jid_res v s).
Proof. intros v []; exact (fun h => h). Qed.
#[export] Hint Resolve SmOff_set_jid_res : smoffdb.
Lemma SmOff_set_pass_set : forall v s, SmOff s -> SmOff (set_pass_set v s).
Proof. intros v []; exact (fun h => h). Qed.
#[export] Hint Resolve SmOff_set_pass_set : smoffdb.
Lemma SmOff_set_cert_set : forall v s, SmOff s -> SmOff (set_cert_set v s).
Proof. intros v []; exact (fun h => h). Qed.
#[export] Hint Resolve SmOff_set_cert_set : smoffdb.
Lemma SmOff_set_is_raw : forall v s, SmOff s -> SmOff (set_is_raw v s).
Proof. intros v []; exact (fun h => h). Qed.
#[export] Hint Resolve SmOff_set_is_raw : smoffdb.
Lemma SmOff_set_typ : forall v s, SmOff s -> SmOff (set_typ v s).
Proof. intros v []; exact (fun h => h). Qed.
#[export] Hint Resolve SmOff_set_typ : smoffdb.
Lemma SmOff_set_user_handler : forall v s, SmOff s -> SmOff (set_user_handler v s).
Proof. intros v []; exact (fun h => h). Qed.
#[export] Hint Resolve SmOff_set_user_handler : smoffdb.
Lemma SmOff_set_user_timed : forall v s, SmOff s -> SmOff (set_user_timed v s).
Proof. intros v []; exact (fun h => h). Qed.
#[export] Hint Resolve SmOff_set_user_timed : smoffdb.
Lemma SmOff_set_tlsnew_ok : forall v s, SmOff s -> SmOff (set_tlsnew_ok v s).
Proof. intros v []; exact (fun h => h). Qed.
#[export] Hint Resolve SmOff_set_tlsnew_ok : smoffdb.
Lemma SmOff_set_cb_avail : forall v s, SmOff s -> SmOff (set_cb_avail v s).
Proof. intros v []; exact (fun h => h). Qed.
#[export] Hint Resolve SmOff_set_cb_avail : smoffdb.
Lemma SmOff_set_tls_verdicts : forall v s, SmOff s -> SmOff (set_tls_verdicts v s).
Proof. intros v []; exact (fun h => h). Qed.
#[export] Hint Resolve SmOff_set_tls_verdicts : smoffdb.
Lemma SmOff_set_next_cands : forall v s, SmOff s -> SmOff (set_next_cands v s).
Proof. intros v []; exact (fun h => h). Qed.
#[export] Hint Resolve SmOff_set_next_cands : smoffdb.
Lemma SmOff_set_cands : forall v s, SmOff s -> SmOff (set_cands v s).
Proof. intros v []; exact (fun h => h). Qed.
#[export] Hint Resolve SmOff_set_cands : smoffdb.
Lemma SmOff_set_cur_ep : forall v s, SmOff s -> SmOff (set_cur_ep v s).
Proof. intros v []; exact (fun h => h). Qed.
#[export] Hint Resolve SmOff_set_cur_ep : smoffdb.
Lemma SmOff_set_stamp : forall v s, SmOff s -> SmOff (set_stamp v s).
Proof. intros v []; exact (fun h => h). Qed.
#[export] Hint Resolve SmOff_set_stamp : smoffdb.
Lemma SmOff_set_err : forall v s, SmOff s -> SmOff (set_err v s).
Proof. intros v []; exact (fun h => h). Qed.
#[export] Hint Resolve SmOff_set_err : smoffdb.
Lemma SmOff_set_stream_error : forall v s, SmOff s -> SmOff (set_stream_error v s).
Proof. intros v []; exact (fun h => h). Qed.
#[export] Hint Resolve SmOff_set_stream_error : smoffdb.
Lemma SmOff_set_secured : forall v s, SmOff s -> SmOff (set_secured v s).
Proof. intros v []; exact (fun h => h). Qed.
#[export] Hint Resolve SmOff_set_secured : smoffdb.
Lemma SmOff_set_tls_present : forall v s, SmOff s -> SmOff (set_tls_present v s).
Proof. intros v []; exact (fun h => h). Qed.
#[export] Hint Resolve SmOff_set_tls_present : smoffdb.
Lemma SmOff_set_tls_failed : forall v s, SmOff s -> SmOff (set_tls_failed v s).
Proof. intros v []; exact (fun h => h). Qed.
#[export] Hint Resolve SmOff_set_tls_failed : smoffdb.
Lemma SmOff_set_tls_support : forall v s, SmOff s -> SmOff (set_tls_support v s).
Proof. intros v []; exact (fun h => h). Qed.
#[export] Hint Resolve SmOff_set_tls_support : smoffdb.
Lemma SmOff_set_sasl : forall v s, SmOff s -> SmOff (set_sasl v s).
Proof. intros v []; exact (fun h => h). Qed.
#[export] Hint Resolve SmOff_set_sasl : smoffdb.
Lemma SmOff_set_bind_required : forall v s, SmOff s -> SmOff (set_bind_required v s).
Proof. intros v []; exact (fun h => h). Qed.
#[export] Hint Resolve SmOff_set_bind_required : smoffdb.
Lemma SmOff_set_session_required : forall v s, SmOff s -> SmOff (set_session_required v s).
Proof. intros v []; exact (fun h => h). Qed.
#[export] Hint Resolve SmOff_set_session_required : smoffdb.
Lemma SmOff_set_comp_supported : forall v s, SmOff s -> SmOff (set_comp_supported v s).
Proof. intros v []; exact (fun h => h). Qed.
#[export] Hint Resolve SmOff_set_comp_supported : smoffdb.
Lemma SmOff_set_comp_active : forall v s, SmOff s -> SmOff (set_comp_active v s).
Proof. intros v []; exact (fun h => h). Qed.
#[export] Hint Resolve SmOff_set_comp_active : smoffdb.
Lemma SmOff_set_sm_alloc : forall v s, SmOff s -> SmOff (set_sm_alloc v s).
Proof. intros v []; exact (fun h => h). Qed.
#[export] Hint Resolve SmOff_set_sm_alloc : smoffdb.
Lemma SmOff_set_sm_can_resume : forall v s, SmOff s -> SmOff (set_sm_can_resume v s).
Proof. intros v []; exact (fun h => h). Qed.
#[export] Hint Resolve SmOff_set_sm_can_resume : smoffdb.
Lemma SmOff_set_sm_resume : forall v s, SmOff s -> SmOff (set_sm_resume v s).
Proof. intros v []; exact (fun h => h). Qed.
#[export] Hint Resolve SmOff_set_sm_resume : smoffdb.
Lemma SmOff_set_sm_dont_request : forall v s, SmOff s -> SmOff (set_sm_dont_request v s).
Proof. intros v []; exact (fun h => h). Qed.
#[export] Hint Resolve SmOff_set_sm_dont_request : smoffdb.
Lemma SmOff_set_sm_has_previd : forall v s, SmOff s -> SmOff (set_sm_has_previd v s).
Proof. intros v []; exact (fun h => h). Qed.
#[export] Hint Resolve SmOff_set_sm_has_previd : smoffdb.
Lemma SmOff_set_sm_has_id : forall v s, SmOff s -> SmOff (set_sm_has_id v s).
Proof. intros v []; exact (fun h => h). Qed.
#[export] Hint Resolve SmOff_set_sm_has_id : smoffdb.
Lemma SmOff_set_sm_parked : forall v s, SmOff s -> SmOff (set_sm_parked v s).
Proof. intros v []; exact (fun h => h). Qed.
#[export] Hint Resolve SmOff_set_sm_parked : smoffdb.
Lemma SmOff_set_sm_r_sent : forall v s, SmOff s -> SmOff (set_sm_r_sent v s).
Proof. intros v []; exact (fun h => h). Qed.
#[export] Hint Resolve SmOff_set_sm_r_sent : smoffdb.
Lemma SmOff_set_bound_jid : forall v s, SmOff s -> SmOff (set_bound_jid v s).
Proof. intros v []; exact (fun h => h). Qed.
#[export] Hint Resolve SmOff_set_bound_jid : smoffdb.
Lemma SmOff_set_stream_id : forall v s, SmOff s -> SmOff (set_stream_id v s).
Proof. intros v []; exact (fun h => h). Qed.
#[export] Hint Resolve SmOff_set_stream_id : smoffdb.
Lemma SmOff_set_neg_done : forall v s, SmOff s -> SmOff (set_neg_done v s).
Proof. intros v []; exact (fun h => h). Qed.
#[export] Hint Resolve SmOff_set_neg_done : smoffdb.
Lemma SmOff_set_reset_parser : forall v s, SmOff s -> SmOff (set_reset_parser v s).
Proof. intros v []; exact (fun h => h). Qed.
#[export] Hint Resolve SmOff_set_reset_parser : smoffdb.
Lemma SmOff_set_oh : forall v s, SmOff s -> SmOff (set_oh v s).
Proof. intros v []; exact (fun h => h). Qed.
#[export] Hint Resolve SmOff_set_oh : smoffdb.
Lemma SmOff_set_ps : forall v s, SmOff s -> SmOff (set_ps v s).
Proof. intros v []; exact (fun h => h). Qed.
#[export] Hint Resolve SmOff_set_ps : smoffdb.
Lemma SmOff_set_handlers : forall v s, SmOff s -> SmOff (set_handlers v s).
Proof. intros v []; exact (fun h => h). Qed.
#[export] Hint Resolve SmOff_set_handlers : smoffdb.
Lemma SmOff_set_idhandlers : forall v s, SmOff s -> SmOff (set_idhandlers v s).
Proof. intros v []; exact (fun h => h). Qed.
#[export] Hint Resolve SmOff_set_idhandlers : smoffdb.
Lemma SmOff_set_timed : forall v s, SmOff s -> SmOff (set_timed v s).
Proof. intros v []; exact (fun h => h). Qed.
#[export] Hint Resolve SmOff_set_timed : smoffdb.
Lemma SmOff_set_sendq : forall v s, SmOff s -> SmOff (set_sendq v s).
Proof. intros v []; exact (fun h => h). Qed.
#[export] Hint Resolve SmOff_set_sendq : smoffdb.
Lemma SmOff_set_rxq : forall v s, SmOff s -> SmOff (set_rxq v s).
Proof. intros v []; exact (fun h => h). Qed.
#[export] Hint Resolve SmOff_set_rxq : smoffdb.
Lemma SmOff_set_smq : forall v s, SmOff s -> SmOff (set_smq v s).
Proof. intros v []; exact (fun h => h). Qed.
#[export] Hint Resolve SmOff_set_smq : smoffdb.
Lemma SmOff_set_sm_sent : forall v s, SmOff s -> SmOff (set_sm_sent v s).
Proof. intros v []; exact (fun h => h). Qed.
#[export] Hint Resolve SmOff_set_sm_sent : smoffdb.
Lemma SmOff_set_scram_serial : forall v s, SmOff s -> SmOff (set_scram_serial v s).
Proof. intros v []; exact (fun h => h). Qed.
#[export] Hint Resolve SmOff_set_scram_serial : smoffdb.
Lemma SmOff_set_crashed : forall v s, SmOff s -> SmOff (set_crashed v s).
Proof. intros v []; exact (fun h => h). Qed.
#[export] Hint Resolve SmOff_set_crashed : smoffdb.
Lemma SmOff_set_gh : forall v s, SmOff s -> SmOff (set_gh v s).
Proof. intros v []; exact (fun h => h). Qed.
#[export] Hint Resolve SmOff_set_gh : smoffdb.
Lemma SmOff_upg : forall f s, SmOff s -> SmOff (upg f s).
Proof. intros f []; exact (fun h => h). Qed.
Lemma SmOff_live : forall s, st s <> Disconnected -> SmOff s.
Proof. intros s H D. congruence. Qed.
Lemma SmOff_set_sm_enabled_false : forall s, SmOff s -> SmOff (set_sm_enabled false s).
Proof. intros s H D. destruct (H D) as (A & B & C). revert D. sproj. auto. Qed.
Lemma SmOff_set_sm_bind_saved_false : forall s, SmOff s -> SmOff (set_sm_bind_saved false s).
Proof. intros s H D. destruct (H D) as (A & B & C). revert D. sproj. auto. Qed.
Lemma SmOff_set_sm_support_false : forall s, SmOff s -> SmOff (set_sm_support false s).
Proof. intros s H D. destruct (H D) as (A & B & C). revert D. sproj. auto. Qed.
Lemma SmOff_reset : forall s, SmOff (reset_sm_for_reconnect s).
Proof. intros s D. unfold reset_sm_for_reconnect; cases; sproj; auto. Qed.
#[export] Hint Resolve SmOff_upg SmOff_set_sm_enabled_false SmOff_set_sm_bind_saved_false SmOff_set_sm_support_false SmOff_reset : smoffdb.
Lemma SmOff_q_append : forall w u sm s, SmOff s -> SmOff (q_append w u sm s).
Proof. intros; unfold q_append; cases; eauto 10 with smoffdb. Qed.
#[export] Hint Resolve SmOff_q_append : smoffdb.
Lemma SmOff_send_gated : forall w u sm s, SmOff s -> SmOff (send_gated w u sm s).
Proof. intros; unfold send_gated, ret; cases; leaf; eauto 30 with smoffdb. Qed.
#[export] Hint Resolve SmOff_send_gated : smoffdb.
Lemma SmOff_send_raw_m : forall w u sm s, SmOff s -> SmOff (send_raw_m w u sm s).
Proof. intros; unfold send_raw_m, ret; cases; leaf; eauto 30 with smoffdb. Qed.
#[export] Hint Resolve SmOff_send_raw_m : smoffdb.
Lemma SmOff_timed_add : forall k n s, SmOff s -> SmOff (timed_add k n s).
Proof. intros; unfold timed_add, ret; cases; leaf; eauto 30 with smoffdb. Qed.
#[export] Hint Resolve SmOff_timed_add : smoffdb.
Lemma SmOff_timed_del : forall k s, SmOff s -> SmOff (timed_del k s).
Proof. intros; unfold timed_del, ret; cases; leaf; eauto 30 with smoffdb. Qed.
#[export] Hint Resolve SmOff_timed_del : smoffdb.
Lemma SmOff_timed_reset_all : forall n s, SmOff s -> SmOff (timed_reset_all n s).
Proof. intros; unfold timed_reset_all, ret; cases; leaf; eauto 30 with smoffdb. Qed.
#[export] Hint Resolve SmOff_timed_reset_all : smoffdb.
Lemma SmOff_timed_set_stamp : forall k n s, SmOff s -> SmOff (timed_set_stamp k n s).
Proof. intros; unfold timed_set_stamp, ret; cases; leaf; eauto 30 with smoffdb. Qed.
#[export] Hint Resolve SmOff_timed_set_stamp : smoffdb.
Lemma SmOff_h_add : forall k s, SmOff s -> SmOff (h_add k s).
Proof. intros; unfold h_add, ret; cases; leaf; eauto 30 with smoffdb. Qed.
#[export] Hint Resolve SmOff_h_add : smoffdb.
Lemma SmOff_h_del : forall k s, SmOff s -> SmOff (h_del k s).
Proof. intros; unfold h_del, ret; cases; leaf; eauto 30 with smoffdb. Qed.
#[export] Hint Resolve SmOff_h_del : smoffdb.
Lemma SmOff_id_add : forall k s, SmOff s -> SmOff (id_add k s).
Proof. intros; unfold id_add, ret; cases; leaf; eauto 30 with smoffdb. Qed.
#[export] Hint Resolve SmOff_id_add : smoffdb.
Lemma SmOff_id_del : forall k s, SmOff s -> SmOff (id_del k s).
Proof. intros; unfold id_del, ret; cases; leaf; eauto 30 with smoffdb. Qed.
#[export] Hint Resolve SmOff_id_del : smoffdb.

Lemma SmOff_sm_queue_cleanup : forall h s, SmOff s -> SmOff (sm_queue_cleanup h s).
Proof. intros; unfold sm_queue_cleanup, ret; cases; leaf; eauto 30 with smoffdb. Qed.
#[export] Hint Resolve SmOff_sm_queue_cleanup : smoffdb.
Lemma SmOff_sm_queue_resend : forall s, SmOff s -> SmOff (sm_queue_resend s).
Proof. intros; unfold sm_queue_resend. apply fold_left_inv; eauto with smoffdb. Qed.
#[export] Hint Resolve SmOff_sm_queue_resend : smoffdb.
Lemma SmOff_conn_disconnect : forall s, SmOff s -> SmOff (fst (conn_disconnect s)).
Proof. intros s H. name_result. unfold conn_disconnect, ret. cases; leaf; eauto 20 with smoffdb. Qed.
#[export] Hint Resolve SmOff_conn_disconnect : smoffdb.
Lemma SmOff_xmpp_disconnect : forall n s, SmOff s -> SmOff (xmpp_disconnect n s).
Proof. intros; unfold xmpp_disconnect, ret; cases; leaf; eauto 30 with smoffdb. Qed.
#[export] Hint Resolve SmOff_xmpp_disconnect : smoffdb.
Lemma SmOff_prepare_reset : forall h s, SmOff s -> SmOff (prepare_reset h s).
Proof. intros; unfold prepare_reset, ret; cases; leaf; eauto 30 with smoffdb. Qed.
#[export] Hint Resolve SmOff_prepare_reset : smoffdb.
Lemma SmOff_conn_open_stream : forall s, SmOff s -> SmOff (conn_open_stream s).
Proof. intros; unfold conn_open_stream, ret; cases; leaf; eauto 30 with smoffdb. Qed.
#[export] Hint Resolve SmOff_conn_open_stream : smoffdb.
Lemma SmOff_conn_tls_start : forall s, SmOff s -> SmOff (fst (fst (conn_tls_start s))).
Proof. intros; name_result; unfold conn_tls_start, ret; cases; leaf; eauto 30 with smoffdb. Qed.
#[export] Hint Resolve SmOff_conn_tls_start : smoffdb.
Lemma SmOff_stream_negotiation_success : forall s, SmOff s -> SmOff (fst (stream_negotiation_success s)).
Proof. intros; name_result; unfold stream_negotiation_success, ret; cases; leaf; eauto 30 with smoffdb. Qed.
#[export] Hint Resolve SmOff_stream_negotiation_success : smoffdb.
Lemma SmOff_do_bind : forall n b s, SmOff s -> SmOff (fst (do_bind n b s)).
Proof. intros; name_result; unfold do_bind, ret; cases; leaf; eauto 30 with smoffdb. Qed.
#[export] Hint Resolve SmOff_do_bind : smoffdb.
Lemma SmOff_session_start : forall n s, SmOff s -> SmOff (session_start n s).
Proof. intros; unfold session_start, ret; cases; leaf; eauto 30 with smoffdb. Qed.
#[export] Hint Resolve SmOff_session_start : smoffdb.
Lemma SmOff_sm_enable : forall s, st s <> Disconnected -> SmOff (sm_enable s).
Proof. intros. apply SmOff_live. rewrite st_sm_enable. assumption. Qed.
Lemma SmOff_auth_legacy : forall n s, SmOff s -> SmOff (auth_legacy n s).
Proof. intros; unfold auth_legacy, ret; cases; leaf; eauto 30 with smoffdb. Qed.
#[export] Hint Resolve SmOff_auth_legacy : smoffdb.
Lemma SmOff_auth : forall fuel n s, SmOff s -> SmOff (fst (auth fuel n s)).
Proof. induction fuel; intros; name_result; cbn [auth]; unfold ret; cases; leaf; eauto 30 with smoffdb. Qed.
#[export] Hint Resolve SmOff_auth : smoffdb.
Lemma SmOff_sasl_result : forall n e s, SmOff s -> SmOff (fst (sasl_result n e s)).
Proof. intros; name_result; unfold sasl_result, ret; cases; leaf; eauto 30 with smoffdb. Qed.
#[export] Hint Resolve SmOff_sasl_result : smoffdb.
Lemma SmOff_features_sasl : forall n e s, st s <> Disconnected -> SmOff (fst (features_sasl n e s)).
Proof. intros. apply SmOff_live. rewrite st_features_sasl. assumption. Qed.
Lemma SmOff_note_rx : forall e s, SmOff s -> SmOff (note_rx e s).
Proof. intros; unfold note_rx; cbv zeta; eauto with smoffdb. Qed.
#[export] Hint Resolve SmOff_note_rx : smoffdb.
Lemma SmOff_sm_handle : forall e s, SmOff s -> SmOff (sm_handle e s).
Proof. intros; unfold sm_handle, ret; cases; leaf; eauto 30 with smoffdb. Qed.
#[export] Hint Resolve SmOff_sm_handle : smoffdb.
Lemma SmOff_open_handler : forall n s, SmOff s -> SmOff (fst (open_handler n s)).
Proof. intros; name_result; unfold open_handler, ret; cases; leaf; eauto 30 with smoffdb. Qed.
#[export] Hint Resolve SmOff_open_handler : smoffdb.
Lemma SmOff_stream_start : forall n a b s, SmOff s -> SmOff (fst (stream_start n a b s)).
Proof. intros; name_result; unfold stream_start, ret; cases; leaf; eauto 30 with smoffdb. Qed.
#[export] Hint Resolve SmOff_stream_start : smoffdb.
Lemma SmOff_stream_end : forall s, SmOff s -> SmOff (fst (stream_end s)).
Proof. intros; name_result; unfold stream_end, ret; cases; leaf; eauto 30 with smoffdb. Qed.
#[export] Hint Resolve SmOff_stream_end : smoffdb.
Lemma SmOff_call_timed : forall k n s, SmOff s -> SmOff (fst (fst (call_timed k n s))).
Proof. intros k; destruct k; intros; name_result; unfold call_timed, ret; cases; leaf; eauto 30 with smoffdb. Qed.
#[export] Hint Resolve SmOff_call_timed : smoffdb.
Lemma SmOff_visit_timed : forall n r k, SmOff (fst r) -> SmOff (fst (visit_timed n r k)).
Proof. intros n [s o] k H. cbn [fst] in H. name_result. unfold visit_timed. cases; leaf; eauto 30 with smoffdb. Qed.
Lemma SmOff_fold_visit_timed : forall n l s o, SmOff s -> SmOff (fst (fold_left (visit_timed n) l (s, o))).
Proof. intros n l s o H. apply (fold_left_inv (fun r => SmOff (fst r))); auto. intros; apply SmOff_visit_timed; auto. Qed.
#[export] Hint Resolve SmOff_fold_visit_timed : smoffdb.
Lemma SmOff_fire_timed : forall n s, SmOff s -> SmOff (fst (fire_timed n s)).
Proof. intros; name_result; unfold fire_timed, ret; cases; leaf; eauto 30 with smoffdb. Qed.
#[export] Hint Resolve SmOff_fire_timed : smoffdb.
Lemma SmOff_connect_next : forall n s, SmOff s -> SmOff (fst (fst (connect_next n s))).
Proof. intros; name_result; unfold connect_next, ret; cases; leaf; eauto 30 with smoffdb. Qed.
#[export] Hint Resolve SmOff_connect_next : smoffdb.
Lemma SmOff_conn_established : forall n s, SmOff s -> SmOff (fst (conn_established n s)).
Proof. intros; name_result; unfold conn_established, ret; cases; leaf; eauto 30 with smoffdb. Qed.
#[export] Hint Resolve SmOff_conn_established : smoffdb.

(* RPF: the parser bookkeeping is untouched *)
Record RPF (s0 s : state) : Prop := mkRPF { rpf_rp : reset_parser s = reset_parser s0; rpf_ps : ps s = ps s0; rpf_oh : oh s = oh s0 }.
Lemma RPF_refl : forall s, RPF s s. Proof. intros; constructor; reflexivity. Qed.
Lemma RPF_trans : forall a b c, RPF a b -> RPF b c -> RPF a c.
Proof. intros a b c [] []; constructor; congruence. Qed.
#[export] Hint Resolve RPF_refl : rpfdb.
Lemma RPF_set_f_tls_disabled : forall v s0 s, RPF s0 s -> RPF s0 (set_f_tls_disabled v s).
Proof. intros v s0 s H; apply (RPF_trans _ _ _ H); destruct s; constructor; reflexivity. Qed.
#[export] Hint Resolve RPF_set_f_tls_disabled : rpfdb.
Lemma RPF_set_f_tls_mandatory : forall v s0 s, RPF s0 s -> RPF s0 (set_f_tls_mandatory v s).
Proof. intros v s0 s H; apply (RPF_trans _ _ _ H); destruct s; constructor; reflexivity. Qed.
#[export] Hint Resolve RPF_set_f_tls_mandatory : rpfdb.
Lemma RPF_set_f_legacy_ssl : forall v s0 s, RPF s0 s -> RPF s0 (set_f_legacy_ssl v s).
Proof. intros v s0 s H; apply (RPF_trans _ _ _ H); destruct s; constructor; reflexivity. Qed.
#[export] Hint Resolve RPF_set_f_legacy_ssl : rpfdb.
Lemma RPF_set_f_tls_trust : forall v s0 s, RPF s0 s -> RPF s0 (set_f_tls_trust v s).
Proof. intros v s0 s H; apply (RPF_trans _ _ _ H); destruct s; constructor; reflexivity. Qed.
#[export] Hint Resolve RPF_set_f_tls_trust : rpfdb.
Lemma RPF_set_f_legacy_auth : forall v s0 s, RPF s0 s -> RPF s0 (set_f_legacy_auth v s).
Proof. intros v s0 s H; apply (RPF_trans _ _ _ H); destruct s; constructor; reflexivity. Qed.
#[export] Hint Resolve RPF_set_f_legacy_auth : rpfdb.
Lemma RPF_set_f_sm_disable : forall v s0 s, RPF s0 s -> RPF s0 (set_f_sm_disable v s).
Proof. intros v s0 s H; apply (RPF_trans _ _ _ H); destruct s; constructor; reflexivity. Qed.
#[export] Hint Resolve RPF_set_f_sm_disable : rpfdb.
Lemma RPF_set_f_comp_allowed : forall v s0 s, RPF s0 s -> RPF s0 (set_f_comp_allowed v s).
Proof. intros v s0 s H; apply (RPF_trans _ _ _ H); destruct s; constructor; reflexivity. Qed.
#[export] Hint Resolve RPF_set_f_comp_allowed : rpfdb.
Lemma RPF_set_f_comp_dont_reset : forall v s0 s, RPF s0 s -> RPF s0 (set_f_comp_dont_reset v s).
Proof. intros v s0 s H; apply (RPF_trans _ _ _ H); destruct s; constructor; reflexivity. Qed.
#[export] Hint Resolve RPF_set_f_comp_dont_reset : rpfdb.
Lemma RPF_set_jid_set : forall v s0 s, RPF s0 s -> RPF s0 (set_jid_set v s).
Proof. intros v s0 s H; apply (RPF_trans _ _ _ H); destruct s; constructor; reflexivity. Qed.
#[export] Hint Resolve RPF_set_jid_set : rpfdb.
Lemma RPF_set_jid_node : forall v s0 s, RPF s0 s -> RPF s0 (set_jid_node v s).
Proof. intros v s0 s H; apply (RPF_trans _ _ _ H); destruct s; constructor; reflexivity. Qed.
#[export] Hint Resolve RPF_set_jid_node : rpfdb.
Lemma RPF_set_jid_res : forall v s0 s, RPF s0 s -> RPF s0 (set_jid_res v s).
Proof. intros v s0 s H; apply (RPF_trans _ _ _ H); destruct s; constructor; reflexivity. Qed.
#[export] Hint Resolve RPF_set_jid_res : rpfdb.
Lemma RPF_set_pass_set : forall v s0 s, RPF s0 s -> RPF s0 (set_pass_set v s).
Proof. intros v s0 s H; apply (RPF_trans _ _ _ H); destruct s; constructor; reflexivity. Qed.
#[export] Hint Resolve RPF_set_pass_set : rpfdb.
Lemma RPF_set_cert_set : forall v s0 s, RPF s0 s -> RPF s0 (set_cert_set v s).
Proof. intros v s0 s H; apply (RPF_trans _ _ _ H); destruct s; constructor; reflexivity. Qed.
#[export] Hint Resolve RPF_set_cert_set : rpfdb.
Lemma RPF_set_is_raw : forall v s0 s, RPF s0 s -> RPF s0 (set_is_raw v s).
Proof. intros v s0 s H; apply (RPF_trans _ _ _ H); destruct s; constructor; reflexivity. Qed.
#[export] Hint Resolve RPF_set_is_raw : rpfdb.
Lemma RPF_set_typ : forall v s0 s, RPF s0 s -> RPF s0 (set_typ v s).
Proof. intros v s0 s H; apply (RPF_trans _ _ _ H); destruct s; constructor; reflexivity. Qed.
#[export] Hint Resolve RPF_set_typ : rpfdb.
Lemma RPF_set_user_handler : forall v s0 s, RPF s0 s -> RPF s0 (set_user_handler v s).
Proof. intros v s0 s H; apply (RPF_trans _ _ _ H); destruct s; constructor; reflexivity. Qed.
#[export] Hint Resolve RPF_set_user_handler : rpfdb.
Lemma RPF_set_user_timed : forall v s0 s, RPF s0 s -> RPF s0 (set_user_timed v s).
Proof. intros v s0 s H; apply (RPF_trans _ _ _ H); destruct s; constructor; reflexivity. Qed.
#[export] Hint Resolve RPF_set_user_timed : rpfdb.
Lemma RPF_set_tlsnew_ok : forall v s0 s, RPF s0 s -> RPF s0 (set_tlsnew_ok v s).
Proof. intros v s0 s H; apply (RPF_trans _ _ _ H); destruct s; constructor; reflexivity. Qed.
#[export] Hint Resolve RPF_set_tlsnew_ok : rpfdb.
Lemma RPF_set_cb_avail : forall v s0 s, RPF s0 s -> RPF s0 (set_cb_avail v s).
Proof. intros v s0 s H; apply (RPF_trans _ _ _ H); destruct s; constructor; reflexivity. Qed.
#[export] Hint Resolve RPF_set_cb_avail : rpfdb.
Lemma RPF_set_tls_verdicts : forall v s0 s, RPF s0 s -> RPF s0 (set_tls_verdicts v s).
Proof. intros v s0 s H; apply (RPF_trans _ _ _ H); destruct s; constructor; reflexivity. Qed.
#[export] Hint Resolve RPF_set_tls_verdicts : rpfdb.
Lemma RPF_set_next_cands : forall v s0 s, RPF s0 s -> RPF s0 (set_next_cands v s).
Proof. intros v s0 s H; apply (RPF_trans _ _ _ H); destruct s; constructor; reflexivity. Qed.
#[export] Hint Resolve RPF_set_next_cands : rpfdb.
Lemma RPF_set_cands : forall v s0 s, RPF s0 s -> RPF s0 (set_cands v s).
Proof. intros v s0 s H; apply (RPF_trans _ _ _ H); destruct s; constructor; reflexivity. Qed.
#[export] Hint Resolve RPF_set_cands : rpfdb.
Lemma RPF_set_cur_ep : forall v s0 s, RPF s0 s -> RPF s0 (set_cur_ep v s).
Proof. intros v s0 s H; apply (RPF_trans _ _ _ H); destruct s; constructor; reflexivity. Qed.
#[export] Hint Resolve RPF_set_cur_ep : rpfdb.
Lemma RPF_set_st : forall v s0 s, RPF s0 s -> RPF s0 (set_st v s).
Proof. intros v s0 s H; apply (RPF_trans _ _ _ H); destruct s; constructor; reflexivity. Qed.
#[export] Hint Resolve RPF_set_st : rpfdb.
Lemma RPF_set_stamp : forall v s0 s, RPF s0 s -> RPF s0 (set_stamp v s).
Proof. intros v s0 s H; apply (RPF_trans _ _ _ H); destruct s; constructor; reflexivity. Qed.
#[export] Hint Resolve RPF_set_stamp : rpfdb.
Lemma RPF_set_err : forall v s0 s, RPF s0 s -> RPF s0 (set_err v s).
Proof. intros v s0 s H; apply (RPF_trans _ _ _ H); destruct s; constructor; reflexivity. Qed.
#[export] Hint Resolve RPF_set_err : rpfdb.
Lemma RPF_set_stream_error : forall v s0 s, RPF s0 s -> RPF s0 (set_stream_error v s).
Proof. intros v s0 s H; apply (RPF_trans _ _ _ H); destruct s; constructor; reflexivity. Qed.
#[export] Hint Resolve RPF_set_stream_error : rpfdb.
Lemma RPF_set_secured : forall v s0 s, RPF s0 s -> RPF s0 (set_secured v s).
Proof. intros v s0 s H; apply (RPF_trans _ _ _ H); destruct s; constructor; reflexivity. Qed.
#[export] Hint Resolve RPF_set_secured : rpfdb.
Lemma RPF_set_tls_present : forall v s0 s, RPF s0 s -> RPF s0 (set_tls_present v s).
Proof. intros v s0 s H; apply (RPF_trans _ _ _ H); destruct s; constructor; reflexivity. Qed.
#[export] Hint Resolve RPF_set_tls_present : rpfdb.
Lemma RPF_set_tls_failed : forall v s0 s, RPF s0 s -> RPF s0 (set_tls_failed v s).
Proof. intros v s0 s H; apply (RPF_trans _ _ _ H); destruct s; constructor; reflexivity. Qed.
#[export] Hint Resolve RPF_set_tls_failed : rpfdb.
Lemma RPF_set_tls_support : forall v s0 s, RPF s0 s -> RPF s0 (set_tls_support v s).
Proof. intros v s0 s H; apply (RPF_trans _ _ _ H); destruct s; constructor; reflexivity. Qed.
#[export] Hint Resolve RPF_set_tls_support : rpfdb.
Lemma RPF_set_sasl : forall v s0 s, RPF s0 s -> RPF s0 (set_sasl v s).
Proof. intros v s0 s H; apply (RPF_trans _ _ _ H); destruct s; constructor; reflexivity. Qed.
#[export] Hint Resolve RPF_set_sasl : rpfdb.
Lemma RPF_set_bind_required : forall v s0 s, RPF s0 s -> RPF s0 (set_bind_required v s).
Proof. intros v s0 s H; apply (RPF_trans _ _ _ H); destruct s; constructor; reflexivity. Qed.
#[export] Hint Resolve RPF_set_bind_required : rpfdb.
Lemma RPF_set_session_required : forall v s0 s, RPF s0 s -> RPF s0 (set_session_required v s).
Proof. intros v s0 s H; apply (RPF_trans _ _ _ H); destruct s; constructor; reflexivity. Qed.
#[export] Hint Resolve RPF_set_session_required : rpfdb.
Lemma RPF_set_comp_supported : forall v s0 s, RPF s0 s -> RPF s0 (set_comp_supported v s).
Proof. intros v s0 s H; apply (RPF_trans _ _ _ H); destruct s; constructor; reflexivity. Qed.
#[export] Hint Resolve RPF_set_comp_supported : rpfdb.
Lemma RPF_set_comp_active : forall v s0 s, RPF s0 s -> RPF s0 (set_comp_active v s).
Proof. intros v s0 s H; apply (RPF_trans _ _ _ H); destruct s; constructor; reflexivity. Qed.
#[export] Hint Resolve RPF_set_comp_active : rpfdb.
Lemma RPF_set_sm_alloc : forall v s0 s, RPF s0 s -> RPF s0 (set_sm_alloc v s).
Proof. intros v s0 s H; apply (RPF_trans _ _ _ H); destruct s; constructor; reflexivity. Qed.
#[export] Hint Resolve RPF_set_sm_alloc : rpfdb.
Lemma RPF_set_sm_support : forall v s0 s, RPF s0 s -> RPF s0 (set_sm_support v s).
Proof. intros v s0 s H; apply (RPF_trans _ _ _ H); destruct s; constructor; reflexivity. Qed.
#[export] Hint Resolve RPF_set_sm_support : rpfdb.
Lemma RPF_set_sm_enabled : forall v s0 s, RPF s0 s -> RPF s0 (set_sm_enabled v s).
Proof. intros v s0 s H; apply (RPF_trans _ _ _ H); destruct s; constructor; reflexivity. Qed.
#[export] Hint Resolve RPF_set_sm_enabled : rpfdb.
Lemma RPF_set_sm_can_resume : forall v s0 s, RPF s0 s -> RPF s0 (set_sm_can_resume v s).
Proof. intros v s0 s H; apply (RPF_trans _ _ _ H); destruct s; constructor; reflexivity. Qed.
#[export] Hint Resolve RPF_set_sm_can_resume : rpfdb.
Lemma RPF_set_sm_resume : forall v s0 s, RPF s0 s -> RPF s0 (set_sm_resume v s).
Proof. intros v s0 s H; apply (RPF_trans _ _ _ H); destruct s; constructor; reflexivity. Qed.
#[export] Hint Resolve RPF_set_sm_resume : rpfdb.
Lemma RPF_set_sm_dont_request : forall v s0 s, RPF s0 s -> RPF s0 (set_sm_dont_request v s).
Proof. intros v s0 s H; apply (RPF_trans _ _ _ H); destruct s; constructor; reflexivity. Qed.
#[export] Hint Resolve RPF_set_sm_dont_request : rpfdb.
Lemma RPF_set_sm_has_previd : forall v s0 s, RPF s0 s -> RPF s0 (set_sm_has_previd v s).
Proof. intros v s0 s H; apply (RPF_trans _ _ _ H); destruct s; constructor; reflexivity. Qed.
#[export] Hint Resolve RPF_set_sm_has_previd : rpfdb.
Lemma RPF_set_sm_has_id : forall v s0 s, RPF s0 s -> RPF s0 (set_sm_has_id v s).
Proof. intros v s0 s H; apply (RPF_trans _ _ _ H); destruct s; constructor; reflexivity. Qed.
#[export] Hint Resolve RPF_set_sm_has_id : rpfdb.
Lemma RPF_set_sm_parked : forall v s0 s, RPF s0 s -> RPF s0 (set_sm_parked v s).
Proof. intros v s0 s H; apply (RPF_trans _ _ _ H); destruct s; constructor; reflexivity. Qed.
#[export] Hint Resolve RPF_set_sm_parked : rpfdb.
Lemma RPF_set_sm_r_sent : forall v s0 s, RPF s0 s -> RPF s0 (set_sm_r_sent v s).
Proof. intros v s0 s H; apply (RPF_trans _ _ _ H); destruct s; constructor; reflexivity. Qed.
#[export] Hint Resolve RPF_set_sm_r_sent : rpfdb.
Lemma RPF_set_sm_bind_saved : forall v s0 s, RPF s0 s -> RPF s0 (set_sm_bind_saved v s).
Proof. intros v s0 s H; apply (RPF_trans _ _ _ H); destruct s; constructor; reflexivity. Qed.
#[export] Hint Resolve RPF_set_sm_bind_saved : rpfdb.
Lemma RPF_set_bound_jid : forall v s0 s, RPF s0 s -> RPF s0 (set_bound_jid v s).
Proof. intros v s0 s H; apply (RPF_trans _ _ _ H); destruct s; constructor; reflexivity. Qed.
#[export] Hint Resolve RPF_set_bound_jid : rpfdb.
Lemma RPF_set_stream_id : forall v s0 s, RPF s0 s -> RPF s0 (set_stream_id v s).
Proof. intros v s0 s H; apply (RPF_trans _ _ _ H); destruct s; constructor; reflexivity. Qed.
#[export] Hint Resolve RPF_set_stream_id : rpfdb.
Lemma RPF_set_neg_done : forall v s0 s, RPF s0 s -> RPF s0 (set_neg_done v s).
Proof. intros v s0 s H; apply (RPF_trans _ _ _ H); destruct s; constructor; reflexivity. Qed.
#[export] Hint Resolve RPF_set_neg_done : rpfdb.
Lemma RPF_set_handlers : forall v s0 s, RPF s0 s -> RPF s0 (set_handlers v s).
Proof. intros v s0 s H; apply (RPF_trans _ _ _ H); destruct s; constructor; reflexivity. Qed.
#[export] Hint Resolve RPF_set_handlers : rpfdb.
Lemma RPF_set_idhandlers : forall v s0 s, RPF s0 s -> RPF s0 (set_idhandlers v s).
Proof. intros v s0 s H; apply (RPF_trans _ _ _ H); destruct s; constructor; reflexivity. Qed.
#[export] Hint Resolve RPF_set_idhandlers : rpfdb.
Lemma RPF_set_timed : forall v s0 s, RPF s0 s -> RPF s0 (set_timed v s).
Proof. intros v s0 s H; apply (RPF_trans _ _ _ H); destruct s; constructor; reflexivity. Qed.
#[export] Hint Resolve RPF_set_timed : rpfdb.
Lemma RPF_set_sendq : forall v s0 s, RPF s0 s -> RPF s0 (set_sendq v s).
Proof. intros v s0 s H; apply (RPF_trans _ _ _ H); destruct s; constructor; reflexivity. Qed.
#[export] Hint Resolve RPF_set_sendq : rpfdb.
Lemma RPF_set_rxq : forall v s0 s, RPF s0 s -> RPF s0 (set_rxq v s).
Proof. intros v s0 s H; apply (RPF_trans _ _ _ H); destruct s; constructor; reflexivity. Qed.
#[export] Hint Resolve RPF_set_rxq : rpfdb.
Lemma RPF_set_smq : forall v s0 s, RPF s0 s -> RPF s0 (set_smq v s).
Proof. intros v s0 s H; apply (RPF_trans _ _ _ H); destruct s; constructor; reflexivity. Qed.
#[export] Hint Resolve RPF_set_smq : rpfdb.
Lemma RPF_set_sm_sent : forall v s0 s, RPF s0 s -> RPF s0 (set_sm_sent v s).
Proof. intros v s0 s H; apply (RPF_trans _ _ _ H); destruct s; constructor; reflexivity. Qed.
#[export] Hint Resolve RPF_set_sm_sent : rpfdb.
Lemma RPF_set_scram_serial : forall v s0 s, RPF s0 s -> RPF s0 (set_scram_serial v s).
Proof. intros v s0 s H; apply (RPF_trans _ _ _ H); destruct s; constructor; reflexivity. Qed.
#[export] Hint Resolve RPF_set_scram_serial : rpfdb.
Lemma RPF_set_crashed : forall v s0 s, RPF s0 s -> RPF s0 (set_crashed v s).
Proof. intros v s0 s H; apply (RPF_trans _ _ _ H); destruct s; constructor; reflexivity. Qed.
#[export] Hint Resolve RPF_set_crashed : rpfdb.
Lemma RPF_set_gh : forall v s0 s, RPF s0 s -> RPF s0 (set_gh v s).
Proof. intros v s0 s H; apply (RPF_trans _ _ _ H); destruct s; constructor; reflexivity. Qed.
#[export] Hint Resolve RPF_set_gh : rpfdb.
Lemma RPF_upg : forall f s0 s, RPF s0 s -> RPF s0 (upg f s).
Proof. intros f s0 s H; apply (RPF_trans _ _ _ H); destruct s; constructor; reflexivity. Qed.
#[export] Hint Resolve RPF_upg : rpfdb.
Lemma RPF_q_append : forall w u sm s0 s, RPF s0 s -> RPF s0 (q_append w u sm s).
Proof. intros; unfold q_append, ret; cases; leaf; eauto 30 with rpfdb. Qed.
#[export] Hint Resolve RPF_q_append : rpfdb.
Lemma RPF_send_gated : forall w u sm s0 s, RPF s0 s -> RPF s0 (send_gated w u sm s).
Proof. intros; unfold send_gated, ret; cases; leaf; eauto 30 with rpfdb. Qed.
#[export] Hint Resolve RPF_send_gated : rpfdb.
Lemma RPF_send_raw_m : forall w u sm s0 s, RPF s0 s -> RPF s0 (send_raw_m w u sm s).
Proof. intros; unfold send_raw_m, ret; cases; leaf; eauto 30 with rpfdb. Qed.
#[export] Hint Resolve RPF_send_raw_m : rpfdb.
Lemma RPF_timed_add : forall k n s0 s, RPF s0 s -> RPF s0 (timed_add k n s).
Proof. intros; unfold timed_add, ret; cases; leaf; eauto 30 with rpfdb. Qed.
#[export] Hint Resolve RPF_timed_add : rpfdb.
Lemma RPF_timed_del : forall k s0 s, RPF s0 s -> RPF s0 (timed_del k s).
Proof. intros; unfold timed_del, ret; cases; leaf; eauto 30 with rpfdb. Qed.
#[export] Hint Resolve RPF_timed_del : rpfdb.
Lemma RPF_timed_reset_all : forall n s0 s, RPF s0 s -> RPF s0 (timed_reset_all n s).
Proof. intros; unfold timed_reset_all, ret; cases; leaf; eauto 30 with rpfdb. Qed.
#[export] Hint Resolve RPF_timed_reset_all : rpfdb.
Lemma RPF_timed_set_stamp : forall k n s0 s, RPF s0 s -> RPF s0 (timed_set_stamp k n s).
Proof. intros; unfold timed_set_stamp, ret; cases; leaf; eauto 30 with rpfdb. Qed.
#[export] Hint Resolve RPF_timed_set_stamp : rpfdb.
Lemma RPF_h_add : forall k s0 s, RPF s0 s -> RPF s0 (h_add k s).
Proof. intros; unfold h_add, ret; cases; leaf; eauto 30 with rpfdb. Qed.
#[export] Hint Resolve RPF_h_add : rpfdb.
Lemma RPF_h_del : forall k s0 s, RPF s0 s -> RPF s0 (h_del k s).
Proof. intros; unfold h_del, ret; cases; leaf; eauto 30 with rpfdb. Qed.
#[export] Hint Resolve RPF_h_del : rpfdb.
Lemma RPF_id_add : forall k s0 s, RPF s0 s -> RPF s0 (id_add k s).
Proof. intros; unfold id_add, ret; cases; leaf; eauto 30 with rpfdb. Qed.
#[export] Hint Resolve RPF_id_add : rpfdb.
Lemma RPF_id_del : forall k s0 s, RPF s0 s -> RPF s0 (id_del k s).
Proof. intros; unfold id_del, ret; cases; leaf; eauto 30 with rpfdb. Qed.
#[export] Hint Resolve RPF_id_del : rpfdb.
Lemma RPF_reset_sm_for_reconnect : forall s0 s, RPF s0 s -> RPF s0 (reset_sm_for_reconnect s).
Proof. intros; unfold reset_sm_for_reconnect, ret; cases; leaf; eauto 30 with rpfdb. Qed.
#[export] Hint Resolve RPF_reset_sm_for_reconnect : rpfdb.
Lemma RPF_sm_queue_cleanup : forall h s0 s, RPF s0 s -> RPF s0 (sm_queue_cleanup h s).
Proof. intros; unfold sm_queue_cleanup, ret; cases; leaf; eauto 30 with rpfdb. Qed.
#[export] Hint Resolve RPF_sm_queue_cleanup : rpfdb.
Lemma RPF_sm_queue_resend : forall s0 s, RPF s0 s -> RPF s0 (sm_queue_resend s).
Proof. intros; unfold sm_queue_resend; apply fold_left_inv; eauto with rpfdb. Qed.
#[export] Hint Resolve RPF_sm_queue_resend : rpfdb.
Lemma RPF_conn_disconnect : forall s0 s, RPF s0 s -> RPF s0 (fst (conn_disconnect s)).
Proof. intros; name_result; unfold conn_disconnect, ret; cases; leaf; eauto 30 with rpfdb. Qed.
#[export] Hint Resolve RPF_conn_disconnect : rpfdb.
Lemma RPF_xmpp_disconnect : forall n s0 s, RPF s0 s -> RPF s0 (xmpp_disconnect n s).
Proof. intros; unfold xmpp_disconnect, ret; cases; leaf; eauto 30 with rpfdb. Qed.
#[export] Hint Resolve RPF_xmpp_disconnect : rpfdb.
Lemma RPF_conn_open_stream : forall s0 s, RPF s0 s -> RPF s0 (conn_open_stream s).
Proof. intros; unfold conn_open_stream, ret; cases; leaf; eauto 30 with rpfdb. Qed.
#[export] Hint Resolve RPF_conn_open_stream : rpfdb.
Lemma RPF_conn_tls_start : forall s0 s, RPF s0 s -> RPF s0 (fst (fst (conn_tls_start s))).
Proof. intros; name_result; unfold conn_tls_start, ret; cases; leaf; eauto 30 with rpfdb. Qed.
#[export] Hint Resolve RPF_conn_tls_start : rpfdb.
Lemma RPF_stream_negotiation_success : forall s0 s, RPF s0 s -> RPF s0 (fst (stream_negotiation_success s)).
Proof. intros; name_result; unfold stream_negotiation_success, ret; cases; leaf; eauto 30 with rpfdb. Qed.
#[export] Hint Resolve RPF_stream_negotiation_success : rpfdb.
Lemma RPF_do_bind : forall n b s0 s, RPF s0 s -> RPF s0 (fst (do_bind n b s)).
Proof. intros; name_result; unfold do_bind, ret; cases; leaf; eauto 30 with rpfdb. Qed.
#[export] Hint Resolve RPF_do_bind : rpfdb.
Lemma RPF_session_start : forall n s0 s, RPF s0 s -> RPF s0 (session_start n s).
Proof. intros; unfold session_start, ret; cases; leaf; eauto 30 with rpfdb. Qed.
#[export] Hint Resolve RPF_session_start : rpfdb.
Lemma RPF_sm_enable : forall s0 s, RPF s0 s -> RPF s0 (sm_enable s).
Proof. intros; unfold sm_enable, ret; cases; leaf; eauto 30 with rpfdb. Qed.
#[export] Hint Resolve RPF_sm_enable : rpfdb.
Lemma RPF_auth_legacy : forall n s0 s, RPF s0 s -> RPF s0 (auth_legacy n s).
Proof. intros; unfold auth_legacy, ret; cases; leaf; eauto 30 with rpfdb. Qed.
#[export] Hint Resolve RPF_auth_legacy : rpfdb.
Lemma RPF_auth : forall fuel n s0 s, RPF s0 s -> RPF s0 (fst (auth fuel n s)).
Proof. induction fuel; intros; name_result; cbn [auth]; unfold ret; cases; leaf; eauto 30 with rpfdb. Qed.
#[export] Hint Resolve RPF_auth : rpfdb.
Lemma RPF_note_rx : forall e s0 s, RPF s0 s -> RPF s0 (note_rx e s).
Proof. intros; unfold note_rx; cbv zeta; eauto with rpfdb. Qed.
#[export] Hint Resolve RPF_note_rx : rpfdb.
Lemma RPF_sm_handle : forall e s0 s, RPF s0 s -> RPF s0 (sm_handle e s).
Proof. intros; unfold sm_handle, ret; cases; leaf; eauto 30 with rpfdb. Qed.
#[export] Hint Resolve RPF_sm_handle : rpfdb.
Lemma RPF_call_timed : forall k n s0 s, RPF s0 s -> RPF s0 (fst (fst (call_timed k n s))).
Proof. intros k; destruct k; intros; name_result; unfold call_timed, ret; cases; leaf; eauto 30 with rpfdb. Qed.
#[export] Hint Resolve RPF_call_timed : rpfdb.
Lemma RPF_visit_timed : forall n s0 r k, RPF s0 (fst r) -> RPF s0 (fst (visit_timed n r k)).
Proof. intros n s0 [s o] k H. cbn [fst] in H. name_result. unfold visit_timed. cases; leaf; eauto 30 with rpfdb. Qed.
Lemma RPF_fold_visit_timed : forall n l s0 s o, RPF s0 s -> RPF s0 (fst (fold_left (visit_timed n) l (s, o))).
Proof. intros n l s0 s o H. apply (fold_left_inv (fun r => RPF s0 (fst r))); auto. intros; apply RPF_visit_timed; auto. Qed.
#[export] Hint Resolve RPF_fold_visit_timed : rpfdb.
Lemma RPF_fire_timed : forall n s0 s, RPF s0 s -> RPF s0 (fst (fire_timed n s)).
Proof. intros; name_result; unfold fire_timed, ret; cases; leaf; eauto 30 with rpfdb. Qed.
#[export] Hint Resolve RPF_fire_timed : rpfdb.
Lemma RPF_connect_next : forall n s0 s, RPF s0 s -> RPF s0 (fst (fst (connect_next n s))).
Proof. intros; name_result; unfold connect_next; destruct (sock_connect (cands s)) as [oo [[k r]|]]; leaf; eauto 20 with rpfdb. Qed.
#[export] Hint Resolve RPF_connect_next : rpfdb.
Lemma RPF_conn_established : forall n s0 s, RPF s0 s -> RPF s0 (fst (conn_established n s)).
Proof. intros; name_result; unfold conn_established, ret; cases; leaf; eauto 30 with rpfdb. Qed.
#[export] Hint Resolve RPF_conn_established : rpfdb.

(* Sn: stream management is not switched on *)
Definition Sn (s0 s : state) : Prop := sm_enabled s = true -> sm_enabled s0 = true.
Lemma Sn_refl : forall s, Sn s s. Proof. intros s H; exact H. Qed.
#[export] Hint Resolve Sn_refl : sndb.
Lemma Sn_set_f_tls_disabled : forall v s0 s, Sn s0 s -> Sn s0 (set_f_tls_disabled v s).
Proof. intros v s0 []; exact (fun h => h). Qed.
#[export] Hint Resolve Sn_set_f_tls_disabled : sndb.
Lemma Sn_set_f_tls_mandatory : forall v s0 s, Sn s0 s -> Sn s0 (set_f_tls_mandatory v s).
Proof. intros v s0 []; exact (fun h => h). Qed.
#[export] Hint Resolve Sn_set_f_tls_mandatory : sndb.
Lemma Sn_set_f_legacy_ssl : forall v s0 s, Sn s0 s -> Sn s0 (set_f_legacy_ssl v s).
Proof. intros v s0 []; exact (fun h => h). Qed.
#[export] Hint Resolve Sn_set_f_legacy_ssl : sndb.
Lemma Sn_set_f_tls_trust : forall v s0 s, Sn s0 s -> Sn s0 (set_f_tls_trust v s).
Proof. intros v s0 []; exact (fun h => h). Qed.
#[export] Hint Resolve Sn_set_f_tls_trust : sndb.
Lemma Sn_set_f_legacy_auth : forall v s0 s, Sn s0 s -> Sn s0 (set_f_legacy_auth v s).
Proof. intros v s0 []; exact (fun h => h). Qed.
#[export] Hint Resolve Sn_set_f_legacy_auth : sndb.
Lemma Sn_set_f_sm_disable : forall v s0 s, Sn s0 s -> Sn s0 (set_f_sm_disable v s).
Proof. intros v s0 []; exact (fun h => h). Qed.
#[export] Hint Resolve Sn_set_f_sm_disable : sndb.
Lemma Sn_set_f_comp_allowed : forall v s0 s, Sn s0 s -> Sn s0 (set_f_comp_allowed v s).
Proof. intros v s0 []; exact (fun h => h). Qed.
#[export] Hint Resolve Sn_set_f_comp_allowed : sndb.
Lemma Sn_set_f_comp_dont_reset : forall v s0 s, Sn s0 s -> Sn s0 (set_f_comp_dont_reset v s).
Proof. intros v s0 []; exact (fun h => h). Qed.
#[export] Hint Resolve Sn_set_f_comp_dont_reset : sndb.
Lemma Sn_set_jid_set : forall v s0 s, Sn s0 s -> Sn s0 (set_jid_set v s).
Proof. intros v s0 []; exact (fun h => h). Qed.
#[export] Hint Resolve Sn_set_jid_set : sndb.
Lemma Sn_set_jid_node : forall v s0 s, Sn s0 s -> Sn s0 (set_jid_node v s).
Proof. intros v s0 []; exact (fun h => h). Qed.
#[export] Hint Resolve Sn_set_jid_node : sndb.
Lemma Sn_set_jid_res : forall v s0 s, Sn s0 s -> Sn s0 (set_jid_res v s).
Proof. intros v s0 []; exact (fun h => h). Qed.
#[export] Hint Resolve Sn_set_jid_res : sndb.
Lemma Sn_set_pass_set : forall v s0 s, Sn s0 s -> Sn s0 (set_pass_set v s).
Proof. intros v s0 []; exact (fun h => h). Qed.
#[export] Hint Resolve Sn_set_pass_set : sndb.
Lemma Sn_set_cert_set : forall v s0 s, Sn s0 s -> Sn s0 (set_cert_set v s).
Proof. intros v s0 []; exact (fun h => h). Qed.
#[export] Hint Resolve Sn_set_cert_set : sndb.
Lemma Sn_set_is_raw : forall v s0 s, Sn s0 s -> Sn s0 (set_is_raw v s).
Proof. intros v s0 []; exact (fun h => h). Qed.
#[export] Hint Resolve Sn_set_is_raw : sndb.
Lemma Sn_set_typ : forall v s0 s, Sn s0 s -> Sn s0 (set_typ v s).
Proof. intros v s0 []; exact (fun h => h). Qed.
#[export] Hint Resolve Sn_set_typ : sndb.
Lemma Sn_set_user_handler : forall v s0 s, Sn s0 s -> Sn s0 (set_user_handler v s).
Proof. intros v s0 []; exact (fun h => h). Qed.
#[export] Hint Resolve Sn_set_user_handler : sndb.
Lemma Sn_set_user_timed : forall v s0 s, Sn s0 s -> Sn s0 (set_user_timed v s).
Proof. intros v s0 []; exact (fun h => h). Qed.
#[export] Hint Resolve Sn_set_user_timed : sndb.
Lemma Sn_set_tlsnew_ok : forall v s0 s, Sn s0 s -> Sn s0 (set_tlsnew_ok v s).
Proof. intros v s0 []; exact (fun h => h). Qed.
#[export] Hint Resolve Sn_set_tlsnew_ok : sndb.
Lemma Sn_set_cb_avail : forall v s0 s, Sn s0 s -> Sn s0 (set_cb_avail v s).
Proof. intros v s0 []; exact (fun h => h). Qed.
#[export] Hint Resolve Sn_set_cb_avail : sndb.
Lemma Sn_set_tls_verdicts : forall v s0 s, Sn s0 s -> Sn s0 (set_tls_verdicts v s).
Proof. intros v s0 []; exact (fun h => h). Qed.
#[export] Hint Resolve Sn_set_tls_verdicts : sndb.
Lemma Sn_set_next_cands : forall v s0 s, Sn s0 s -> Sn s0 (set_next_cands v s).
Proof. intros v s0 []; exact (fun h => h). Qed.
#[export] Hint Resolve Sn_set_next_cands : sndb.
Lemma Sn_set_cands : forall v s0 s, Sn s0 s -> Sn s0 (set_cands v s).
Proof. intros v s0 []; exact (fun h => h). Qed.
#[export] Hint Resolve Sn_set_cands : sndb.
Lemma Sn_set_cur_ep : forall v s0 s, Sn s0 s -> Sn s0 (set_cur_ep v s).
Proof. intros v s0 []; exact (fun h => h). Qed.
#[export] Hint Resolve Sn_set_cur_ep : sndb.
Lemma Sn_set_st : forall v s0 s, Sn s0 s -> Sn s0 (set_st v s).
Proof. intros v s0 []; exact (fun h => h). Qed.
#[export] Hint Resolve Sn_set_st : sndb.
Lemma Sn_set_stamp : forall v s0 s, Sn s0 s -> Sn s0 (set_stamp v s).
Proof. intros v s0 []; exact (fun h => h). Qed.
#[export] Hint Resolve Sn_set_stamp : sndb.
Lemma Sn_set_err : forall v s0 s, Sn s0 s -> Sn s0 (set_err v s).
Proof. intros v s0 []; exact (fun h => h). Qed.
#[export] Hint Resolve Sn_set_err : sndb.
Lemma Sn_set_stream_error : forall v s0 s, Sn s0 s -> Sn s0 (set_stream_error v s).
Proof. intros v s0 []; exact (fun h => h). Qed.
#[export] Hint Resolve Sn_set_stream_error : sndb.
Lemma Sn_set_secured : forall v s0 s, Sn s0 s -> Sn s0 (set_secured v s).
Proof. intros v s0 []; exact (fun h => h). Qed.
#[export] Hint Resolve Sn_set_secured : sndb.
Lemma Sn_set_tls_present : forall v s0 s, Sn s0 s -> Sn s0 (set_tls_present v s).
Proof. intros v s0 []; exact (fun h => h). Qed.
#[export] Hint Resolve Sn_set_tls_present : sndb.
Lemma Sn_set_tls_failed : forall v s0 s, Sn s0 s -> Sn s0 (set_tls_failed v s).
Proof. intros v s0 []; exact (fun h => h). Qed.
#[export] Hint Resolve Sn_set_tls_failed : sndb.
Lemma Sn_set_tls_support : forall v s0 s, Sn s0 s -> Sn s0 (set_tls_support v s).
Proof. intros v s0 []; exact (fun h => h). Qed.
#[export] Hint Resolve Sn_set_tls_support : sndb.
Lemma Sn_set_sasl : forall v s0 s, Sn s0 s -> Sn s0 (set_sasl v s).
Proof. intros v s0 []; exact (fun h => h). Qed.
#[export] Hint Resolve Sn_set_sasl : sndb.
Lemma Sn_set_bind_required : forall v s0 s, Sn s0 s -> Sn s0 (set_bind_required v s).
Proof. intros v s0 []; exact (fun h => h). Qed.
#[export] Hint Resolve Sn_set_bind_required : sndb.
Lemma Sn_set_session_required : forall v s0 s, Sn s0 s -> Sn s0 (set_session_required v s).
Proof. intros v s0 []; exact (fun h => h). Qed.
#[export] Hint Resolve Sn_set_session_required : sndb.
Lemma Sn_set_comp_supported : forall v s0 s, Sn s0 s -> Sn s0 (set_comp_supported v s).
Proof. intros v s0 []; exact (fun h => h). Qed.
#[export] Hint Resolve Sn_set_comp_supported : sndb.
Lemma Sn_set_comp_active : forall v s0 s, Sn s0 s -> Sn s0 (set_comp_active v s).
Proof. intros v s0 []; exact (fun h => h). Qed.
#[export] Hint Resolve Sn_set_comp_active : sndb.
Lemma Sn_set_sm_alloc : forall v s0 s, Sn s0 s -> Sn s0 (set_sm_alloc v s).
Proof. intros v s0 []; exact (fun h => h). Qed.
#[export] Hint Resolve Sn_set_sm_alloc : sndb.
Lemma Sn_set_sm_support : forall v s0 s, Sn s0 s -> Sn s0 (set_sm_support v s).
Proof. intros v s0 []; exact (fun h => h). Qed.
#[export] Hint Resolve Sn_set_sm_support : sndb.
Lemma Sn_set_sm_can_resume : forall v s0 s, Sn s0 s -> Sn s0 (set_sm_can_resume v s).
Proof. intros v s0 []; exact (fun h => h). Qed.
#[export] Hint Resolve Sn_set_sm_can_resume : sndb.
Lemma Sn_set_sm_resume : forall v s0 s, Sn s0 s -> Sn s0 (set_sm_resume v s).
Proof. intros v s0 []; exact (fun h => h). Qed.
#[export] Hint Resolve Sn_set_sm_resume : sndb.
Lemma Sn_set_sm_dont_request : forall v s0 s, Sn s0 s -> Sn s0 (set_sm_dont_request v s).
Proof. intros v s0 []; exact (fun h => h). Qed.
#[export] Hint Resolve Sn_set_sm_dont_request : sndb.
Lemma Sn_set_sm_has_previd : forall v s0 s, Sn s0 s -> Sn s0 (set_sm_has_previd v s).
Proof. intros v s0 []; exact (fun h => h). Qed.
#[export] Hint Resolve Sn_set_sm_has_previd : sndb.
Lemma Sn_set_sm_has_id : forall v s0 s, Sn s0 s -> Sn s0 (set_sm_has_id v s).
Proof. intros v s0 []; exact (fun h => h). Qed.
#[export] Hint Resolve Sn_set_sm_has_id : sndb.
Lemma Sn_set_sm_parked : forall v s0 s, Sn s0 s -> Sn s0 (set_sm_parked v s).
Proof. intros v s0 []; exact (fun h => h). Qed.
#[export] Hint Resolve Sn_set_sm_parked : sndb.
Lemma Sn_set_sm_r_sent : forall v s0 s, Sn s0 s -> Sn s0 (set_sm_r_sent v s).
Proof. intros v s0 []; exact (fun h => h). Qed.
#[export] Hint Resolve Sn_set_sm_r_sent : sndb.
Lemma Sn_set_sm_bind_saved : forall v s0 s, Sn s0 s -> Sn s0 (set_sm_bind_saved v s).
Proof. intros v s0 []; exact (fun h => h). Qed.
#[export] Hint Resolve Sn_set_sm_bind_saved : sndb.
Lemma Sn_set_bound_jid : forall v s0 s, Sn s0 s -> Sn s0 (set_bound_jid v s).
Proof. intros v s0 []; exact (fun h => h). Qed.
#[export] Hint Resolve Sn_set_bound_jid : sndb.
Lemma Sn_set_stream_id : forall v s0 s, Sn s0 s -> Sn s0 (set_stream_id v s).
Proof. intros v s0 []; exact (fun h => h). Qed.
#[export] Hint Resolve Sn_set_stream_id : sndb.
Lemma Sn_set_neg_done : forall v s0 s, Sn s0 s -> Sn s0 (set_neg_done v s).
Proof. intros v s0 []; exact (fun h => h). Qed.
#[export] Hint Resolve Sn_set_neg_done : sndb.
Lemma Sn_set_reset_parser : forall v s0 s, Sn s0 s -> Sn s0 (set_reset_parser v s).
Proof. intros v s0 []; exact (fun h => h). Qed.
#[export] Hint Resolve Sn_set_reset_parser : sndb.
Lemma Sn_set_oh : forall v s0 s, Sn s0 s -> Sn s0 (set_oh v s).
Proof. intros v s0 []; exact (fun h => h). Qed.
#[export] Hint Resolve Sn_set_oh : sndb.
Lemma Sn_set_ps : forall v s0 s, Sn s0 s -> Sn s0 (set_ps v s).
Proof. intros v s0 []; exact (fun h => h). Qed.
#[export] Hint Resolve Sn_set_ps : sndb.
Lemma Sn_set_handlers : forall v s0 s, Sn s0 s -> Sn s0 (set_handlers v s).
Proof. intros v s0 []; exact (fun h => h). Qed.
#[export] Hint Resolve Sn_set_handlers : sndb.
Lemma Sn_set_idhandlers : forall v s0 s, Sn s0 s -> Sn s0 (set_idhandlers v s).
Proof. intros v s0 []; exact (fun h => h). Qed.
#[export] Hint Resolve Sn_set_idhandlers : sndb.
Lemma Sn_set_timed : forall v s0 s, Sn s0 s -> Sn s0 (set_timed v s).
Proof. intros v s0 []; exact (fun h => h). Qed.
#[export] Hint Resolve Sn_set_timed : sndb.
Lemma Sn_set_sendq : forall v s0 s, Sn s0 s -> Sn s0 (set_sendq v s).
Proof. intros v s0 []; exact (fun h => h). Qed.
#[export] Hint Resolve Sn_set_sendq : sndb.
Lemma Sn_set_rxq : forall v s0 s, Sn s0 s -> Sn s0 (set_rxq v s).
Proof. intros v s0 []; exact (fun h => h). Qed.
#[export] Hint Resolve Sn_set_rxq : sndb.
Lemma Sn_set_smq : forall v s0 s, Sn s0 s -> Sn s0 (set_smq v s).
Proof. intros v s0 []; exact (fun h => h). Qed.
#[export] Hint Resolve Sn_set_smq : sndb.
Lemma Sn_set_sm_sent : forall v s0 s, Sn s0 s -> Sn s0 (set_sm_sent v s).
Proof. intros v s0 []; exact (fun h => h). Qed.
#[export] Hint Resolve Sn_set_sm_sent : sndb.
Lemma Sn_set_scram_serial : forall v s0 s, Sn s0 s -> Sn s0 (set_scram_serial v s).
Proof. intros v s0 []; exact (fun h => h). Qed.
#[export] Hint Resolve Sn_set_scram_serial : sndb.
Lemma Sn_set_crashed : forall v s0 s, Sn s0 s -> Sn s0 (set_crashed v s).
Proof. intros v s0 []; exact (fun h => h). Qed.
#[export] Hint Resolve Sn_set_crashed : sndb.
Lemma Sn_set_gh : forall v s0 s, Sn s0 s -> Sn s0 (set_gh v s).
Proof. intros v s0 []; exact (fun h => h). Qed.
#[export] Hint Resolve Sn_set_gh : sndb.
Lemma Sn_upg : forall f s0 s, Sn s0 s -> Sn s0 (upg f s).
Proof. intros f s0 []; exact (fun h => h). Qed.
Lemma Sn_set_sm_enabled_false : forall s0 s, Sn s0 (set_sm_enabled false s).
Proof. intros s0 [] H; cbn in H; discriminate. Qed.
#[export] Hint Resolve Sn_upg Sn_set_sm_enabled_false : sndb.
Lemma Sn_q_append : forall w u sm s0 s, Sn s0 s -> Sn s0 (q_append w u sm s).
Proof. intros; unfold q_append, ret; cases; leaf; eauto 30 with sndb. Qed.
#[export] Hint Resolve Sn_q_append : sndb.
Lemma Sn_send_gated : forall w u sm s0 s, Sn s0 s -> Sn s0 (send_gated w u sm s).
Proof. intros; unfold send_gated, ret; cases; leaf; eauto 30 with sndb. Qed.
#[export] Hint Resolve Sn_send_gated : sndb.
Lemma Sn_send_raw_m : forall w u sm s0 s, Sn s0 s -> Sn s0 (send_raw_m w u sm s).
Proof. intros; unfold send_raw_m, ret; cases; leaf; eauto 30 with sndb. Qed.
#[export] Hint Resolve Sn_send_raw_m : sndb.
Lemma Sn_timed_add : forall k n s0 s, Sn s0 s -> Sn s0 (timed_add k n s).
Proof. intros; unfold timed_add, ret; cases; leaf; eauto 30 with sndb. Qed.
#[export] Hint Resolve Sn_timed_add : sndb.
Lemma Sn_timed_del : forall k s0 s, Sn s0 s -> Sn s0 (timed_del k s).
Proof. intros; unfold timed_del, ret; cases; leaf; eauto 30 with sndb. Qed.
#[export] Hint Resolve Sn_timed_del : sndb.
Lemma Sn_timed_reset_all : forall n s0 s, Sn s0 s -> Sn s0 (timed_reset_all n s).
Proof. intros; unfold timed_reset_all, ret; cases; leaf; eauto 30 with sndb. Qed.
#[export] Hint Resolve Sn_timed_reset_all : sndb.
Lemma Sn_timed_set_stamp : forall k n s0 s, Sn s0 s -> Sn s0 (timed_set_stamp k n s).
Proof. intros; unfold timed_set_stamp, ret; cases; leaf; eauto 30 with sndb. Qed.
#[export] Hint Resolve Sn_timed_set_stamp : sndb.
Lemma Sn_h_add : forall k s0 s, Sn s0 s -> Sn s0 (h_add k s).
Proof. intros; unfold h_add, ret; cases; leaf; eauto 30 with sndb. Qed.
#[export] Hint Resolve Sn_h_add : sndb.
Lemma Sn_h_del : forall k s0 s, Sn s0 s -> Sn s0 (h_del k s).
Proof. intros; unfold h_del, ret; cases; leaf; eauto 30 with sndb. Qed.
#[export] Hint Resolve Sn_h_del : sndb.
Lemma Sn_id_add : forall k s0 s, Sn s0 s -> Sn s0 (id_add k s).
Proof. intros; unfold id_add, ret; cases; leaf; eauto 30 with sndb. Qed.
#[export] Hint Resolve Sn_id_add : sndb.
Lemma Sn_id_del : forall k s0 s, Sn s0 s -> Sn s0 (id_del k s).
Proof. intros; unfold id_del, ret; cases; leaf; eauto 30 with sndb. Qed.
#[export] Hint Resolve Sn_id_del : sndb.
Lemma Sn_reset_sm_for_reconnect : forall s0 s, Sn s0 s -> Sn s0 (reset_sm_for_reconnect s).
Proof. intros; unfold reset_sm_for_reconnect, ret; cases; leaf; eauto 30 with sndb. Qed.
#[export] Hint Resolve Sn_reset_sm_for_reconnect : sndb.
Lemma Sn_sm_queue_cleanup : forall h s0 s, Sn s0 s -> Sn s0 (sm_queue_cleanup h s).
Proof. intros; unfold sm_queue_cleanup, ret; cases; leaf; eauto 30 with sndb. Qed.
#[export] Hint Resolve Sn_sm_queue_cleanup : sndb.
Lemma Sn_sm_queue_resend : forall s0 s, Sn s0 s -> Sn s0 (sm_queue_resend s).
Proof. intros; unfold sm_queue_resend; apply fold_left_inv; eauto with sndb. Qed.
#[export] Hint Resolve Sn_sm_queue_resend : sndb.
Lemma Sn_conn_disconnect : forall s0 s, Sn s0 s -> Sn s0 (fst (conn_disconnect s)).
Proof. intros; name_result; unfold conn_disconnect, ret; cases; leaf; eauto 30 with sndb. Qed.
#[export] Hint Resolve Sn_conn_disconnect : sndb.
Lemma Sn_xmpp_disconnect : forall n s0 s, Sn s0 s -> Sn s0 (xmpp_disconnect n s).
Proof. intros; unfold xmpp_disconnect, ret; cases; leaf; eauto 30 with sndb. Qed.
#[export] Hint Resolve Sn_xmpp_disconnect : sndb.
Lemma Sn_prepare_reset : forall h s0 s, Sn s0 s -> Sn s0 (prepare_reset h s).
Proof. intros; unfold prepare_reset, ret; cases; leaf; eauto 30 with sndb. Qed.
#[export] Hint Resolve Sn_prepare_reset : sndb.
Lemma Sn_conn_open_stream : forall s0 s, Sn s0 s -> Sn s0 (conn_open_stream s).
Proof. intros; unfold conn_open_stream, ret; cases; leaf; eauto 30 with sndb. Qed.
#[export] Hint Resolve Sn_conn_open_stream : sndb.
Lemma Sn_conn_tls_start : forall s0 s, Sn s0 s -> Sn s0 (fst (fst (conn_tls_start s))).
Proof. intros; name_result; unfold conn_tls_start, ret; cases; leaf; eauto 30 with sndb. Qed.
#[export] Hint Resolve Sn_conn_tls_start : sndb.
Lemma Sn_stream_negotiation_success : forall s0 s, Sn s0 s -> Sn s0 (fst (stream_negotiation_success s)).
Proof. intros; name_result; unfold stream_negotiation_success, ret; cases; leaf; eauto 30 with sndb. Qed.
#[export] Hint Resolve Sn_stream_negotiation_success : sndb.
Lemma Sn_do_bind : forall n b s0 s, Sn s0 s -> Sn s0 (fst (do_bind n b s)).
Proof. intros; name_result; unfold do_bind, ret; cases; leaf; eauto 30 with sndb. Qed.
#[export] Hint Resolve Sn_do_bind : sndb.
Lemma Sn_session_start : forall n s0 s, Sn s0 s -> Sn s0 (session_start n s).
Proof. intros; unfold session_start, ret; cases; leaf; eauto 30 with sndb. Qed.
#[export] Hint Resolve Sn_session_start : sndb.
Lemma Sn_auth_legacy : forall n s0 s, Sn s0 s -> Sn s0 (auth_legacy n s).
Proof. intros; unfold auth_legacy, ret; cases; leaf; eauto 30 with sndb. Qed.
#[export] Hint Resolve Sn_auth_legacy : sndb.
Lemma Sn_auth : forall fuel n s0 s, Sn s0 s -> Sn s0 (fst (auth fuel n s)).
Proof. induction fuel; intros; name_result; cbn [auth]; unfold ret; cases; leaf; eauto 30 with sndb. Qed.
#[export] Hint Resolve Sn_auth : sndb.
Lemma Sn_sasl_result : forall n e s0 s, Sn s0 s -> Sn s0 (fst (sasl_result n e s)).
Proof. intros; name_result; unfold sasl_result, ret; cases; leaf; eauto 30 with sndb. Qed.
#[export] Hint Resolve Sn_sasl_result : sndb.
Lemma Sn_features_sasl : forall n e s0 s, Sn s0 s -> Sn s0 (fst (features_sasl n e s)).
Proof. intros; name_result; unfold features_sasl, ret; cases; leaf; eauto 30 with sndb. Qed.
#[export] Hint Resolve Sn_features_sasl : sndb.
Lemma Sn_note_rx : forall e s0 s, Sn s0 s -> Sn s0 (note_rx e s).
Proof. intros; unfold note_rx; cbv zeta; eauto with sndb. Qed.
#[export] Hint Resolve Sn_note_rx : sndb.
Lemma Sn_sm_handle : forall e s0 s, Sn s0 s -> Sn s0 (sm_handle e s).
Proof. intros; unfold sm_handle, ret; cases; leaf; eauto 30 with sndb. Qed.
#[export] Hint Resolve Sn_sm_handle : sndb.
Lemma Sn_open_handler : forall n s0 s, Sn s0 s -> Sn s0 (fst (open_handler n s)).
Proof. intros; name_result; unfold open_handler, ret; cases; leaf; eauto 30 with sndb. Qed.
#[export] Hint Resolve Sn_open_handler : sndb.
Lemma Sn_stream_start : forall n a b s0 s, Sn s0 s -> Sn s0 (fst (stream_start n a b s)).
Proof. intros; name_result; unfold stream_start, ret; cases; leaf; eauto 30 with sndb. Qed.
#[export] Hint Resolve Sn_stream_start : sndb.
Lemma Sn_stream_end : forall s0 s, Sn s0 s -> Sn s0 (fst (stream_end s)).
Proof. intros; name_result; unfold stream_end, ret; cases; leaf; eauto 30 with sndb. Qed.
#[export] Hint Resolve Sn_stream_end : sndb.
Lemma Sn_call_timed : forall k n s0 s, Sn s0 s -> Sn s0 (fst (fst (call_timed k n s))).
Proof. intros k; destruct k; intros; name_result; unfold call_timed, ret; cases; leaf; eauto 30 with sndb. Qed.
#[export] Hint Resolve Sn_call_timed : sndb.
Lemma Sn_visit_timed : forall n s0 r k, Sn s0 (fst r) -> Sn s0 (fst (visit_timed n r k)).
Proof. intros n s0 [s o] k H. cbn [fst] in H. name_result. unfold visit_timed. cases; leaf; eauto 30 with sndb. Qed.
Lemma Sn_fold_visit_timed : forall n l s0 s o, Sn s0 s -> Sn s0 (fst (fold_left (visit_timed n) l (s, o))).
Proof. intros n l s0 s o H. apply (fold_left_inv (fun r => Sn s0 (fst r))); auto. intros; apply Sn_visit_timed; auto. Qed.
#[export] Hint Resolve Sn_fold_visit_timed : sndb.
Lemma Sn_fire_timed : forall n s0 s, Sn s0 s -> Sn s0 (fst (fire_timed n s)).
Proof. intros; name_result; unfold fire_timed, ret; cases; leaf; eauto 30 with sndb. Qed.
#[export] Hint Resolve Sn_fire_timed : sndb.
Lemma Sn_connect_next : forall n s0 s, Sn s0 s -> Sn s0 (fst (fst (connect_next n s))).
Proof. intros; name_result; unfold connect_next; destruct (sock_connect (cands s)) as [oo [[k r]|]]; leaf; eauto 20 with sndb. Qed.
#[export] Hint Resolve Sn_connect_next : sndb.
Lemma Sn_conn_established : forall n s0 s, Sn s0 s -> Sn s0 (fst (conn_established n s)).
Proof. intros; name_result; unfold conn_established, ret; cases; leaf; eauto 30 with sndb. Qed.
#[export] Hint Resolve Sn_conn_established : sndb.
Lemma Sn_call_handler : forall k n e s0 s, hkind_eqb k HSm = false -> Sn s0 s -> Sn s0 (fst (fst (call_handler k n e s))).
Proof.
  intros k; destruct k; intros n0 e s0 s K H; try discriminate;
    name_result; unfold call_handler, ret; cases; leaf; eauto 30 with sndb.
Qed.

(* ================================================================== MT: handlers that report "connected" directly exist only once the mandatory-TLS check passed *)
Definition MT (s : state) : Prop := CS s \/ PL s.

Lemma MT_auth : forall fuel n s, MT s -> MT (fst (auth fuel n s)).
Proof.
  intros fuel n s [C|P]; [left; apply CS_auth; exact C|].
  revert n s P. induction fuel; intros n s P; name_result; cbn [auth]; unfold ret; cases; leaf;
    try (right; eauto 30 with pldb; fail); try (apply IHfuel; eauto 30 with pldb; fail).
  all: left; apply CS_auth_legacy;
    match goal with H : f_tls_mandatory ?s && negb (is_secured ?s) = false |- _ =>
      apply andb_false_iff in H; destruct H as [H|H]; [right; left; exact H | right; right; apply negb_false_iff in H; exact H] end.
Qed.
Ltac mt_simple := match goal with H : MT _ |- _ => destruct H as [?C|?P]; [left; eauto 30 with csdb | right; eauto 30 with pldb] end.
Lemma MT_sasl_result : forall n e s, MT s -> MT (fst (sasl_result n e s)).
Proof.
  intros n e s H. name_result. unfold sasl_result, ret. cases; leaf; first [apply MT_auth; assumption | mt_simple].
Qed.
Lemma MT_h_del : forall k s, MT s -> MT (h_del k s).
Proof. intros k s [C|P]; [left; unfold h_del; eauto with csdb | right; eauto with pldb]. Qed.
Lemma MT_call_handler_visit : forall k n e s, TI s -> MT s -> h_has k s = true ->
  MT (if snd (call_handler k n e s) then fst (fst (call_handler k n e s)) else h_del k (fst (fst (call_handler k n e s)))).
Proof.
  intros k n e s T H Hk.
  assert (G : MT (fst (fst (call_handler k n e s)))).
  { destruct k; try (name_result; unfold call_handler, ret; cases; leaf;
      first [ apply MT_auth; mt_simple | apply MT_sasl_result; assumption | mt_simple ]; fail).
    (* _handle_proceedtls_default: registered only while not secured *)
    assert (S0 : is_secured s = false).
    { destruct T as (_ & _ & I1). unfold is_secured. destruct (secured s); auto. rewrite (I1 eq_refl) in Hk. discriminate. }
    pose proof (Fr_call_handler HProceedTls n e s s (Fr_refl s)) as F.
    pose proof (fr_st _ _ F) as Fst. pose proof (fr_f_tls_mandatory _ _ F) as Fm.
    destruct H as [[D|[M|I]]|P]; [left; left | left; right; left | congruence | right].
    - destruct Fst as [E|E]; congruence.
    - congruence.
    - name_result; unfold call_handler, ret; cases; leaf; eauto 30 with pldb. }
  destruct (call_handler k n e s) as [[s1 o1] keep]. cbn [fst snd] in *. destruct keep; auto using MT_h_del.
Qed.

(* ================================================================== StEq: code that never (dis)connects *)
Definition StEq (s0 s : state) : Prop := st s = st s0.
Lemma StEq_refl : forall s, StEq s s. Proof. reflexivity. Qed.
#[export] Hint Resolve StEq_refl : steqdb.
Lemma StEq_set_f_tls_disabled : forall v s0 s, StEq s0 s -> StEq s0 (set_f_tls_disabled v s).
Proof. intros v s0 []; exact (fun h => h). Qed.
#[export] Hint Resolve StEq_set_f_tls_disabled : steqdb.
Lemma StEq_set_f_tls_mandatory : forall v s0 s, StEq s0 s -> StEq s0 (set_f_tls_mandatory v s).
Proof. intros v s0 []; exact (fun h => h). Qed.
#[export] Hint Resolve StEq_set_f_tls_mandatory : steqdb.
Lemma StEq_set_f_legacy_ssl : forall v s0 s, StEq s0 s -> StEq s0 (set_f_legacy_ssl v s).
Proof. intros v s0 []; exact (fun h => h). Qed.
#[export] Hint Resolve StEq_set_f_legacy_ssl : steqdb.
Lemma StEq_set_f_tls_trust : forall v s0 s, StEq s0 s -> StEq s0 (set_f_tls_trust v s).
Proof. intros v s0 []; exact (fun h => h). Qed.
#[export] Hint Resolve StEq_set_f_tls_trust : steqdb.
Lemma StEq_set_f_legacy_auth : forall v s0 s, StEq s0 s -> StEq s0 (set_f_legacy_auth v s).
Proof. intros v s0 []; exact (fun h => h). Qed.
#[export] Hint Resolve StEq_set_f_legacy_auth : steqdb.
Lemma StEq_set_f_sm_disable : forall v s0 s, StEq s0 s -> StEq s0 (set_f_sm_disable v s).
Proof. intros v s0 []; exact (fun h => h). Qed.
#[export] Hint Resolve StEq_set_f_sm_disable : steqdb.
Lemma StEq_set_f_comp_allowed : forall v s0 s, StEq s0 s -> StEq s0 (set_f_comp_allowed v s).
Proof. intros v s0 []; exact (fun h => h). Qed.
#[export] Hint Resolve StEq_set_f_comp_allowed : steqdb.
Lemma StEq_set_f_comp_dont_reset : forall v s0 s, StEq s0 s -> StEq s0 (set_f_comp_dont_reset v s).
Proof. intros v s0 []; exact (fun h => h). Qed.
#[export] Hint Resolve StEq_set_f_comp_dont_reset : steqdb.
Lemma StEq_set_jid_set : forall v s0 s, StEq s0 s -> StEq s0 (set_jid_set v s).
Proof. intros v s0 []; exact (fun h => h). Qed.
#[export] Hint Resolve StEq_set_jid_set : steqdb.
Lemma StEq_set_jid_node : forall v s0 s, StEq s0 s -> StEq s0 (set_jid_node v s).
Proof. intros v s0 []; exact (fun h => h). Qed.
#[export] Hint Resolve StEq_set_jid_node : steqdb.
Lemma StEq_set_jid_res : forall v s0 s, StEq s0 s -> StEq s0 (set_jid_res v s).
Proof. intros v s0 []; exact (fun h => h). Qed.
#[export] Hint Resolve StEq_set_jid_res : steqdb.
Lemma StEq_set_pass_set : forall v s0 s, StEq s0 s -> StEq s0 (set_pass_set v s).
Proof. intros v s0 []; exact (fun h => h). Qed.
#[export] Hint Resolve StEq_set_pass_set : steqdb.
Lemma StEq_set_cert_set : forall v s0 s, StEq s0 s -> StEq s0 (set_cert_set v s).
Proof. intros v s0 []; exact (fun h => h). Qed.
#[export] Hint Resolve StEq_set_cert_set : steqdb.
Lemma StEq_set_is_raw : forall v s0 s, StEq s0 s -> StEq s0 (set_is_raw v s).
Proof. intros v s0 []; exact (fun h => h). Qed.
#[export] Hint Resolve StEq_set_is_raw : steqdb.
Lemma StEq_set_typ : forall v s0 s, StEq s0 s -> StEq s0 (set_typ v s).
Proof. intros v s0 []; exact (fun h => h). Qed.
#[export] Hint Resolve StEq_set_typ : steqdb.
Lemma StEq_set_user_handler : forall v s0 s, StEq s0 s -> StEq s0 (set_user_handler v s).
Proof. intros v s0 []; exact (fun h => h). Qed.
#[export] Hint Resolve StEq_set_user_handler : steqdb.
Lemma StEq_set_user_timed : forall v s0 s, StEq s0 s -> StEq s0 (set_user_timed v s).
Proof. intros v s0 []; exact (fun h => h). Qed.
#[export] Hint Resolve StEq_set_user_timed : steqdb.
Lemma StEq_set_tlsnew_ok : forall v s0 s, StEq s0 s -> StEq s0 (set_tlsnew_ok v s).
Proof. intros v s0 []; exact (fun h => h). Qed.
#[export] Hint Resolve StEq_set_tlsnew_ok : steqdb.
Lemma StEq_set_cb_avail : forall v s0 s, StEq s0 s -> StEq s0 (set_cb_avail v s).
Proof. intros v s0 []; exact (fun h => h). Qed.
#[export] Hint Resolve StEq_set_cb_avail : steqdb.
Lemma StEq_set_tls_verdicts : forall v s0 s, StEq s0 s -> StEq s0 (set_tls_verdicts v s).
Proof. intros v s0 []; exact (fun h => h). Qed.
#[export] Hint Resolve StEq_set_tls_verdicts : steqdb.
Lemma StEq_set_next_cands : forall v s0 s, StEq s0 s -> StEq s0 (set_next_cands v s).
Proof. intros v s0 []; exact (fun h => h). Qed.
#[export] Hint Resolve StEq_set_next_cands : steqdb.
Lemma StEq_set_cands : forall v s0 s, StEq s0 s -> StEq s0 (set_cands v s).
Proof. intros v s0 []; exact (fun h => h). Qed.
#[export] Hint Resolve StEq_set_cands : steqdb.
Lemma StEq_set_cur_ep : forall v s0 s, StEq s0 s -> StEq s0 (set_cur_ep v s).
Proof. intros v s0 []; exact (fun h => h). Qed.
#[export] Hint Resolve StEq_set_cur_ep : steqdb.
Lemma StEq_set_stamp : forall v s0 s, StEq s0 s -> StEq s0 (set_stamp v s).
Proof. intros v s0 []; exact (fun h => h). Qed.
#[export] Hint Resolve StEq_set_stamp : steqdb.
Lemma StEq_set_err : forall v s0 s, StEq s0 s -> StEq s0 (set_err v s).
Proof. intros v s0 []; exact (fun h => h). Qed.
#[export] Hint Resolve StEq_set_err : steqdb.
Lemma StEq_set_stream_error : forall v s0 s, StEq s0 s -> StEq s0 (set_stream_error v s).
Proof. intros v s0 []; exact (fun h => h). Qed.
#[export] Hint Resolve StEq_set_stream_error : steqdb.
Lemma StEq_set_secured : forall v s0 s, StEq s0 s -> StEq s0 (set_secured v s).
Proof. intros v s0 []; exact (fun h => h). Qed.
#[export] Hint Resolve StEq_set_secured : steqdb.
Lemma StEq_set_tls_present : forall v s0 s, StEq s0 s -> StEq s0 (set_tls_present v s).
Proof. intros v s0 []; exact (fun h => h). Qed.
#[export] Hint Resolve StEq_set_tls_present : steqdb.
Lemma StEq_set_tls_failed : forall v s0 s, StEq s0 s -> StEq s0 (set_tls_failed v s).
Proof. intros v s0 []; exact (fun h => h). Qed.
#[export] Hint Resolve StEq_set_tls_failed : steqdb.
Lemma StEq_set_tls_support : forall v s0 s, StEq s0 s -> StEq s0 (set_tls_support v s).
Proof. intros v s0 []; exact (fun h => h). Qed.
#[export] Hint Resolve StEq_set_tls_support : steqdb.
Lemma StEq_set_sasl : forall v s0 s, StEq s0 s -> StEq s0 (set_sasl v s).
Proof. intros v s0 []; exact (fun h => h). Qed.
#[export] Hint Resolve StEq_set_sasl : steqdb.
Lemma StEq_set_bind_required : forall v s0 s, StEq s0 s -> StEq s0 (set_bind_required v s).
Proof. intros v s0 []; exact (fun h => h). Qed.
#[export] Hint Resolve StEq_set_bind_required : steqdb.
Lemma StEq_set_session_required : forall v s0 s, StEq s0 s -> StEq s0 (set_session_required v s).
Proof. intros v s0 []; exact (fun h => h). Qed.
#[export] Hint Resolve StEq_set_session_required : steqdb.
Lemma StEq_set_comp_supported : forall v s0 s, StEq s0 s -> StEq s0 (set_comp_supported v s).
Proof. intros v s0 []; exact (fun h => h). Qed.
#[export] Hint Resolve StEq_set_comp_supported : steqdb.
Lemma StEq_set_comp_active : forall v s0 s, StEq s0 s -> StEq s0 (set_comp_active v s).
Proof. intros v s0 []; exact (fun h => h). Qed.
#[export] Hint Resolve StEq_set_comp_active : steqdb.
Lemma StEq_set_sm_alloc : forall v s0 s, StEq s0 s -> StEq s0 (set_sm_alloc v s).
Proof. intros v s0 []; exact (fun h => h). Qed.
#[export] Hint Resolve StEq_set_sm_alloc : steqdb.
Lemma StEq_set_sm_support : forall v s0 s, StEq s0 s -> StEq s0 (set_sm_support v s).
Proof. intros v s0 []; exact (fun h => h). Qed.
#[export] Hint Resolve StEq_set_sm_support : steqdb.
Lemma StEq_set_sm_enabled : forall v s0 s, StEq s0 s -> StEq s0 (set_sm_enabled v s).
Proof. intros v s0 []; exact (fun h => h). Qed.
#[export] Hint Resolve StEq_set_sm_enabled : steqdb.
Lemma StEq_set_sm_can_resume : forall v s0 s, StEq s0 s -> StEq s0 (set_sm_can_resume v s).
Proof. intros v s0 []; exact (fun h => h). Qed.
#[export] Hint Resolve StEq_set_sm_can_resume : steqdb.
Lemma StEq_set_sm_resume : forall v s0 s, StEq s0 s -> StEq s0 (set_sm_resume v s).
Proof. intros v s0 []; exact (fun h => h). Qed.
#[export] Hint Resolve StEq_set_sm_resume : steqdb.
Lemma StEq_set_sm_dont_request : forall v s0 s, StEq s0 s -> StEq s0 (set_sm_dont_request v s).
Proof. intros v s0 []; exact (fun h => h). Qed.
#[export] Hint Resolve StEq_set_sm_dont_request : steqdb.
Lemma StEq_set_sm_has_previd : forall v s0 s, StEq s0 s -> StEq s0 (set_sm_has_previd v s).
Proof. intros v s0 []; exact (fun h => h). Qed.
#[export] Hint Resolve StEq_set_sm_has_previd : steqdb.
Lemma StEq_set_sm_has_id : forall v s0 s, StEq s0 s -> StEq s0 (set_sm_has_id v s).
Proof. intros v s0 []; exact (fun h => h). Qed.
#[export] Hint Resolve StEq_set_sm_has_id : steqdb.
Lemma StEq_set_sm_parked : forall v s0 s, StEq s0 s -> StEq s0 (set_sm_parked v s).
Proof. intros v s0 []; exact (fun h => h). Qed.
#[export] Hint Resolve StEq_set_sm_parked : steqdb.
Lemma StEq_set_sm_r_sent : forall v s0 s, StEq s0 s -> StEq s0 (set_sm_r_sent v s).
Proof. intros v s0 []; exact (fun h => h). Qed.
#[export] Hint Resolve StEq_set_sm_r_sent : steqdb.
Lemma StEq_set_sm_bind_saved : forall v s0 s, StEq s0 s -> StEq s0 (set_sm_bind_saved v s).
Proof. intros v s0 []; exact (fun h => h). Qed.
#[export] Hint Resolve StEq_set_sm_bind_saved : steqdb.
Lemma StEq_set_bound_jid : forall v s0 s, StEq s0 s -> StEq s0 (set_bound_jid v s).
Proof. intros v s0 []; exact (fun h => h). Qed.
#[export] Hint Resolve StEq_set_bound_jid : steqdb.
Lemma StEq_set_stream_id : forall v s0 s, StEq s0 s -> StEq s0 (set_stream_id v s).
Proof. intros v s0 []; exact (fun h => h). Qed.
#[export] Hint Resolve StEq_set_stream_id : steqdb.
Lemma StEq_set_neg_done : forall v s0 s, StEq s0 s -> StEq s0 (set_neg_done v s).
Proof. intros v s0 []; exact (fun h => h). Qed.
#[export] Hint Resolve StEq_set_neg_done : steqdb.
Lemma StEq_set_reset_parser : forall v s0 s, StEq s0 s -> StEq s0 (set_reset_parser v s).
Proof. intros v s0 []; exact (fun h => h). Qed.
#[export] Hint Resolve StEq_set_reset_parser : steqdb.
Lemma StEq_set_oh : forall v s0 s, StEq s0 s -> StEq s0 (set_oh v s).
Proof. intros v s0 []; exact (fun h => h). Qed.
#[export] Hint Resolve StEq_set_oh : steqdb.
Lemma StEq_set_ps : forall v s0 s, StEq s0 s -> StEq s0 (set_ps v s).
Proof. intros v s0 []; exact (fun h => h). Qed.
#[export] Hint Resolve StEq_set_ps : steqdb.
Lemma StEq_set_handlers : forall v s0 s, StEq s0 s -> StEq s0 (set_handlers v s).
Proof. intros v s0 []; exact (fun h => h). Qed.
#[export] Hint Resolve StEq_set_handlers : steqdb.
Lemma StEq_set_idhandlers : forall v s0 s, StEq s0 s -> StEq s0 (set_idhandlers v s).
Proof. intros v s0 []; exact (fun h => h). Qed.
#[export] Hint Resolve StEq_set_idhandlers : steqdb.
Lemma StEq_set_timed : forall v s0 s, StEq s0 s -> StEq s0 (set_timed v s).
Proof. intros v s0 []; exact (fun h => h). Qed.
#[export] Hint Resolve StEq_set_timed : steqdb.
Lemma StEq_set_sendq : forall v s0 s, StEq s0 s -> StEq s0 (set_sendq v s).
Proof. intros v s0 []; exact (fun h => h). Qed.
#[export] Hint Resolve StEq_set_sendq : steqdb.
Lemma StEq_set_rxq : forall v s0 s, StEq s0 s -> StEq s0 (set_rxq v s).
Proof. intros v s0 []; exact (fun h => h). Qed.
#[export] Hint Resolve StEq_set_rxq : steqdb.
Lemma StEq_set_smq : forall v s0 s, StEq s0 s -> StEq s0 (set_smq v s).
Proof. intros v s0 []; exact (fun h => h). Qed.
#[export] Hint Resolve StEq_set_smq : steqdb.
Lemma StEq_set_sm_sent : forall v s0 s, StEq s0 s -> StEq s0 (set_sm_sent v s).
Proof. intros v s0 []; exact (fun h => h). Qed.
#[export] Hint Resolve StEq_set_sm_sent : steqdb.
Lemma StEq_set_scram_serial : forall v s0 s, StEq s0 s -> StEq s0 (set_scram_serial v s).
Proof. intros v s0 []; exact (fun h => h). Qed.
#[export] Hint Resolve StEq_set_scram_serial : steqdb.
Lemma StEq_set_crashed : forall v s0 s, StEq s0 s -> StEq s0 (set_crashed v s).
Proof. intros v s0 []; exact (fun h => h). Qed.
#[export] Hint Resolve StEq_set_crashed : steqdb.
Lemma StEq_set_gh : forall v s0 s, StEq s0 s -> StEq s0 (set_gh v s).
Proof. intros v s0 []; exact (fun h => h). Qed.
#[export] Hint Resolve StEq_set_gh : steqdb.
Lemma StEq_upg : forall f s0 s, StEq s0 s -> StEq s0 (upg f s).
Proof. intros f s0 []; exact (fun h => h). Qed.
#[export] Hint Resolve StEq_upg : steqdb.
Lemma StEq_q_append : forall w u sm s0 s, StEq s0 s -> StEq s0 (q_append w u sm s).
Proof. intros; unfold q_append, ret; cases; leaf; eauto 30 with steqdb. Qed.
#[export] Hint Resolve StEq_q_append : steqdb.
Lemma StEq_send_gated : forall w u sm s0 s, StEq s0 s -> StEq s0 (send_gated w u sm s).
Proof. intros; unfold send_gated, ret; cases; leaf; eauto 30 with steqdb. Qed.
#[export] Hint Resolve StEq_send_gated : steqdb.
Lemma StEq_send_raw_m : forall w u sm s0 s, StEq s0 s -> StEq s0 (send_raw_m w u sm s).
Proof. intros; unfold send_raw_m, ret; cases; leaf; eauto 30 with steqdb. Qed.
#[export] Hint Resolve StEq_send_raw_m : steqdb.
Lemma StEq_timed_add : forall k n s0 s, StEq s0 s -> StEq s0 (timed_add k n s).
Proof. intros; unfold timed_add, ret; cases; leaf; eauto 30 with steqdb. Qed.
#[export] Hint Resolve StEq_timed_add : steqdb.
Lemma StEq_timed_del : forall k s0 s, StEq s0 s -> StEq s0 (timed_del k s).
Proof. intros; unfold timed_del, ret; cases; leaf; eauto 30 with steqdb. Qed.
#[export] Hint Resolve StEq_timed_del : steqdb.
Lemma StEq_timed_reset_all : forall n s0 s, StEq s0 s -> StEq s0 (timed_reset_all n s).
Proof. intros; unfold timed_reset_all, ret; cases; leaf; eauto 30 with steqdb. Qed.
#[export] Hint Resolve StEq_timed_reset_all : steqdb.
Lemma StEq_timed_set_stamp : forall k n s0 s, StEq s0 s -> StEq s0 (timed_set_stamp k n s).
Proof. intros; unfold timed_set_stamp, ret; cases; leaf; eauto 30 with steqdb. Qed.
#[export] Hint Resolve StEq_timed_set_stamp : steqdb.
Lemma StEq_h_add : forall k s0 s, StEq s0 s -> StEq s0 (h_add k s).
Proof. intros; unfold h_add, ret; cases; leaf; eauto 30 with steqdb. Qed.
#[export] Hint Resolve StEq_h_add : steqdb.
Lemma StEq_h_del : forall k s0 s, StEq s0 s -> StEq s0 (h_del k s).
Proof. intros; unfold h_del, ret; cases; leaf; eauto 30 with steqdb. Qed.
#[export] Hint Resolve StEq_h_del : steqdb.
Lemma StEq_id_add : forall k s0 s, StEq s0 s -> StEq s0 (id_add k s).
Proof. intros; unfold id_add, ret; cases; leaf; eauto 30 with steqdb. Qed.
#[export] Hint Resolve StEq_id_add : steqdb.
Lemma StEq_id_del : forall k s0 s, StEq s0 s -> StEq s0 (id_del k s).
Proof. intros; unfold id_del, ret; cases; leaf; eauto 30 with steqdb. Qed.
#[export] Hint Resolve StEq_id_del : steqdb.
Lemma StEq_reset_sm_for_reconnect : forall s0 s, StEq s0 s -> StEq s0 (reset_sm_for_reconnect s).
Proof. intros; unfold reset_sm_for_reconnect, ret; cases; leaf; eauto 30 with steqdb. Qed.
#[export] Hint Resolve StEq_reset_sm_for_reconnect : steqdb.
Lemma StEq_sm_queue_cleanup : forall h s0 s, StEq s0 s -> StEq s0 (sm_queue_cleanup h s).
Proof. intros; unfold sm_queue_cleanup, ret; cases; leaf; eauto 30 with steqdb. Qed.
#[export] Hint Resolve StEq_sm_queue_cleanup : steqdb.
Lemma StEq_sm_queue_resend : forall s0 s, StEq s0 s -> StEq s0 (sm_queue_resend s).
Proof. intros; unfold sm_queue_resend; apply fold_left_inv; eauto with steqdb. Qed.
#[export] Hint Resolve StEq_sm_queue_resend : steqdb.
Lemma StEq_xmpp_disconnect : forall n s0 s, StEq s0 s -> StEq s0 (xmpp_disconnect n s).
Proof. intros; unfold xmpp_disconnect, ret; cases; leaf; eauto 30 with steqdb. Qed.
#[export] Hint Resolve StEq_xmpp_disconnect : steqdb.
Lemma StEq_prepare_reset : forall h s0 s, StEq s0 s -> StEq s0 (prepare_reset h s).
Proof. intros; unfold prepare_reset, ret; cases; leaf; eauto 30 with steqdb. Qed.
#[export] Hint Resolve StEq_prepare_reset : steqdb.
Lemma StEq_conn_open_stream : forall s0 s, StEq s0 s -> StEq s0 (conn_open_stream s).
Proof. intros; unfold conn_open_stream, ret; cases; leaf; eauto 30 with steqdb. Qed.
#[export] Hint Resolve StEq_conn_open_stream : steqdb.
Lemma StEq_conn_tls_start : forall s0 s, StEq s0 s -> StEq s0 (fst (fst (conn_tls_start s))).
Proof. intros; name_result; unfold conn_tls_start, ret; cases; leaf; eauto 30 with steqdb. Qed.
#[export] Hint Resolve StEq_conn_tls_start : steqdb.
Lemma StEq_stream_negotiation_success : forall s0 s, StEq s0 s -> StEq s0 (fst (stream_negotiation_success s)).
Proof. intros; name_result; unfold stream_negotiation_success, ret; cases; leaf; eauto 30 with steqdb. Qed.
#[export] Hint Resolve StEq_stream_negotiation_success : steqdb.
Lemma StEq_do_bind : forall n b s0 s, StEq s0 s -> StEq s0 (fst (do_bind n b s)).
Proof. intros; name_result; unfold do_bind, ret; cases; leaf; eauto 30 with steqdb. Qed.
#[export] Hint Resolve StEq_do_bind : steqdb.
Lemma StEq_session_start : forall n s0 s, StEq s0 s -> StEq s0 (session_start n s).
Proof. intros; unfold session_start, ret; cases; leaf; eauto 30 with steqdb. Qed.
#[export] Hint Resolve StEq_session_start : steqdb.
Lemma StEq_sm_enable : forall s0 s, StEq s0 s -> StEq s0 (sm_enable s).
Proof. intros; unfold sm_enable, ret; cases; leaf; eauto 30 with steqdb. Qed.
#[export] Hint Resolve StEq_sm_enable : steqdb.
Lemma StEq_auth_legacy : forall n s0 s, StEq s0 s -> StEq s0 (auth_legacy n s).
Proof. intros; unfold auth_legacy, ret; cases; leaf; eauto 30 with steqdb. Qed.
#[export] Hint Resolve StEq_auth_legacy : steqdb.
Lemma StEq_features_sasl : forall n e s0 s, StEq s0 s -> StEq s0 (fst (features_sasl n e s)).
Proof. intros; name_result; unfold features_sasl, ret; cases; leaf; eauto 30 with steqdb. Qed.
#[export] Hint Resolve StEq_features_sasl : steqdb.
Lemma StEq_call_id_handler : forall k n e s0 s, StEq s0 s -> StEq s0 (fst (call_id_handler k n e s)).
Proof. intros k; destruct k; intros; name_result; unfold call_id_handler, ret; cases; leaf; eauto 30 with steqdb. Qed.
#[export] Hint Resolve StEq_call_id_handler : steqdb.
Lemma StEq_note_rx : forall e s0 s, StEq s0 s -> StEq s0 (note_rx e s).
Proof. intros; unfold note_rx; cbv zeta; eauto with steqdb. Qed.
#[export] Hint Resolve StEq_note_rx : steqdb.
Lemma StEq_sm_handle : forall e s0 s, StEq s0 s -> StEq s0 (sm_handle e s).
Proof. intros; unfold sm_handle, ret; cases; leaf; eauto 30 with steqdb. Qed.
#[export] Hint Resolve StEq_sm_handle : steqdb.
Lemma StEq_open_handler : forall n s0 s, StEq s0 s -> StEq s0 (fst (open_handler n s)).
Proof. intros; name_result; unfold open_handler, ret; cases; leaf; eauto 30 with steqdb. Qed.
#[export] Hint Resolve StEq_open_handler : steqdb.
Lemma StEq_connect_next : forall n s0 s, StEq s0 s -> StEq s0 (fst (fst (connect_next n s))).
Proof. intros; name_result; unfold connect_next; destruct (sock_connect (cands s)) as [oo [[k r]|]]; leaf; eauto 20 with steqdb. Qed.
#[export] Hint Resolve StEq_connect_next : steqdb.

(* ================================================================== where a connection can be dropped in the middle of a chunk *)
Lemma notCS : forall s, st s <> Disconnected -> f_tls_mandatory s && negb (is_secured s) = true -> ~ CS s.
Proof.
  intros s D H [C|[C|C]]; [congruence | |]; apply andb_prop in H; destruct H as [A B]; [congruence|].
  rewrite C in B. discriminate.
Qed.
Ltac da_leaf :=
  match goal with
  | D : st ?s <> Disconnected, H : st ?x = Disconnected |- _ =>
      let E := fresh in assert (E : StEq s x) by eauto 30 with steqdb; unfold StEq in E; congruence
  end.
Lemma DA_auth : forall fuel n s s1 o, auth fuel n s = (s1, o) -> st s <> Disconnected -> st s1 = Disconnected ->
  HFr s s1 /\ ~ CS s.
Proof.
  induction fuel; intros n s s1 o E D H; revert E; cbn [auth]; unfold ret; cases; leaf; try da_leaf.
  all: try (split; [eauto 10 with hfrdb | apply notCS; assumption]).
  - destruct (IHfuel n (set_tls_support false s) _ _ (surjective_pairing _) D H) as [A B].
    split; [destruct A; constructor; assumption | intros C; apply B; destruct C as [C|[C|C]]; [left|right;left|right;right]; exact C].
Qed.
Lemma DA_auth' : forall fuel n s x, HFr s x -> StEq s x -> (CS s -> CS x) ->
  st s <> Disconnected -> st (fst (auth fuel n x)) = Disconnected -> HFr s (fst (auth fuel n x)) /\ ~ CS s.
Proof.
  intros fuel n s x Hx Sx Cx D H. unfold StEq in Sx.
  destruct (DA_auth fuel n x _ _ (surjective_pairing _)) as [A B]; auto; [congruence|].
  split; [exact (HFr_trans _ _ _ Hx A) | auto].
Qed.
Lemma DA_sasl_result : forall n e s, st s <> Disconnected -> st (fst (sasl_result n e s)) = Disconnected ->
  HFr s (fst (sasl_result n e s)) /\ ~ CS s.
Proof.
  intros n e s D. name_result. unfold sasl_result, ret. cases; leaf; try da_leaf.
  apply DA_auth'; auto with hfrdb steqdb.
Qed.
Lemma DA_call_handler : forall k n e s, st s <> Disconnected -> st (fst (fst (call_handler k n e s))) = Disconnected ->
  (HFr s (fst (fst (call_handler k n e s))) /\ ~ CS s) /\ snd (call_handler k n e s) = false.
Proof.
  intros k n e s D. name_result. destruct k; unfold call_handler, ret; cases; leaf; try da_leaf;
    (split; [|reflexivity]); try (apply DA_sasl_result; assumption).
  all: apply DA_auth'; auto; try solve [eauto 20 with hfrdb]; try solve [unfold timed_del; eauto 20 with steqdb]; try solve [intros; eauto 20 with csdb].
Qed.

Definition is_authcaller (k : hkind) : bool :=
  match k with HFeatures | HSaslResult _ | HDigestChallenge | HDigestRspauth | HScramChallenge _ _ => true | _ => false end.
Lemma StEq_call_handler : forall k n e s0 s, is_authcaller k = false -> StEq s0 s -> StEq s0 (fst (fst (call_handler k n e s))).
Proof.
  intros k; destruct k; intros n0 e s0 s K H; try discriminate;
    name_result; unfold call_handler, ret; cases; leaf; eauto 30 with steqdb.
Qed.
Lemma HFr_call_handler_nonmain : forall k n e s0 s, is_main k = false -> HFr s0 s -> HFr s0 (fst (fst (call_handler k n e s))).
Proof.
  intros k; destruct k; intros n0 e s0 s K H; try discriminate;
    name_result; unfold call_handler, ret; cases; leaf; eauto 30 with hfrdb.
Qed.

(* T25: a disconnected object has no TLS session *)
Definition T25 (s : state) : Prop := st s = Disconnected -> tls_present s = false.
Lemma T25_set_f_tls_disabled : forall v s, T25 s -> T25 (set_f_tls_disabled v s).
Proof. intros v []; exact (fun h => h). Qed.
#[export] Hint Resolve T25_set_f_tls_disabled : t25db.
Lemma T25_set_f_tls_mandatory : forall v s, T25 s -> T25 (set_f_tls_mandatory v s).
Proof. intros v []; exact (fun h => h). Qed.
#[export] Hint Resolve T25_set_f_tls_mandatory : t25db.
Lemma T25_set_f_legacy_ssl : forall v s, T25 s -> T25 (set_f_legacy_ssl v s).
Proof. intros v []; exact (fun h => h). Qed.
#[export] Hint Resolve T25_set_f_legacy_ssl : t25db.
Lemma T25_set_f_tls_trust : forall v s, T25 s -> T25 (set_f_tls_trust v s).
Proof. intros v []; exact (fun h => h). Qed.
#[export] Hint Resolve T25_set_f_tls_trust : t25db.
Lemma T25_set_f_legacy_auth : forall v s, T25 s -> T25 (set_f_legacy_auth v s).
Proof. intros v []; exact (fun h => h). Qed.
#[export] Hint Resolve T25_set_f_legacy_auth : t25db.
Lemma T25_set_f_sm_disable : forall v s, T25 s -> T25 (set_f_sm_disable v s).
Proof. intros v []; exact (fun h => h). Qed.
#[export] Hint Resolve T25_set_f_sm_disable : t25db.
Lemma T25_set_f_comp_allowed : forall v s, T25 s -> T25 (set_f_comp_allowed v s).
Proof. intros v []; exact (fun h => h). Qed.
#[export] Hint Resolve T25_set_f_comp_allowed : t25db.
Lemma T25_set_f_comp_dont_reset : forall v s, T25 s -> T25 (set_f_comp_dont_reset v s).
Proof. intros v []; exact (fun h => h). Qed.
#[export] Hint Resolve T25_set_f_comp_dont_reset : t25db.
Lemma T25_set_jid_set : forall v s, T25 s -> T25 (set_jid_set v s).
Proof. intros v []; exact (fun h => h). Qed.
#[export] Hint Resolve T25_set_jid_set : t25db.
Lemma T25_set_jid_node : forall v s, T25 s -> T25 (set_jid_node v s).
Proof. intros v []; exact (fun h => h). Qed.
#[export] Hint Resolve T25_set_jid_node : t25db.
Lemma T25_set_jid_res : forall v s, T25 s -> T25 (set_jid_res v s).
Proof. intros v []; exact (fun h => h). Qed.
#[export] Hint Resolve T25_set_jid_res : t25db.
Lemma T25_set_pass_set : forall v s, T25 s -> T25 (set_pass_set v s).
Proof. intros v []; exact (fun h => h). Qed.
#[export] Hint Resolve T25_set_pass_set : t25db.
Lemma T25_set_cert_set : forall v s, T25 s -> T25 (set_cert_set v s).
Proof. intros v []; exact (fun h => h). Qed.
#[export] Hint Resolve T25_set_cert_set : t25db.
Lemma T25_set_is_raw : forall v s, T25 s -> T25 (set_is_raw v s).
Proof. intros v []; exact (fun h => h). Qed.
#[export] Hint Resolve T25_set_is_raw : t25db.
Lemma T25_set_typ : forall v s, T25 s -> T25 (set_typ v s).
Proof. intros v []; exact (fun h => h). Qed.
#[export] Hint Resolve T25_set_typ : t25db.
Lemma T25_set_user_handler : forall v s, T25 s -> T25 (set_user_handler v s).
Proof. intros v []; exact (fun h => h). Qed.
#[export] Hint Resolve T25_set_user_handler : t25db.
Lemma T25_set_user_timed : forall v s, T25 s -> T25 (set_user_timed v s).
Proof. intros v []; exact (fun h => h). Qed.
#[export] Hint Resolve T25_set_user_timed : t25db.
Lemma T25_set_tlsnew_ok : forall v s, T25 s -> T25 (set_tlsnew_ok v s).
Proof. intros v []; exact (fun h => h). Qed.
#[export] Hint Resolve T25_set_tlsnew_ok : t25db.
Lemma T25_set_cb_avail : forall v s, T25 s -> T25 (set_cb_avail v s).
Proof. intros v []; exact (fun h => h). Qed.
#[export] Hint Resolve T25_set_cb_avail : t25db.
Lemma T25_set_tls_verdicts : forall v s, T25 s -> T25 (set_tls_verdicts v s).
Proof. intros v []; exact (fun h => h). Qed.
#[export] Hint Resolve T25_set_tls_verdicts : t25db.
Lemma T25_set_next_cands : forall v s, T25 s -> T25 (set_next_cands v s).
Proof. intros v []; exact (fun h => h). Qed.
#[export] Hint Resolve T25_set_next_cands : t25db.
Lemma T25_set_cands : forall v s, T25 s -> T25 (set_cands v s).
Proof. intros v []; exact (fun h => h). Qed.
#[export] Hint Resolve T25_set_cands : t25db.
Lemma T25_set_cur_ep : forall v s, T25 s -> T25 (set_cur_ep v s).
Proof. intros v []; exact (fun h => h). Qed.
#[export] Hint Resolve T25_set_cur_ep : t25db.
Lemma T25_set_stamp : forall v s, T25 s -> T25 (set_stamp v s).
Proof. intros v []; exact (fun h => h). Qed.
#[export] Hint Resolve T25_set_stamp : t25db.
Lemma T25_set_err : forall v s, T25 s -> T25 (set_err v s).
Proof. intros v []; exact (fun h => h). Qed.
#[export] Hint Resolve T25_set_err : t25db.
Lemma T25_set_stream_error : forall v s, T25 s -> T25 (set_stream_error v s).
Proof. intros v []; exact (fun h => h). Qed.
#[export] Hint Resolve T25_set_stream_error : t25db.
Lemma T25_set_secured : forall v s, T25 s -> T25 (set_secured v s).
Proof. intros v []; exact (fun h => h). Qed.
#[export] Hint Resolve T25_set_secured : t25db.
Lemma T25_set_tls_failed : forall v s, T25 s -> T25 (set_tls_failed v s).
Proof. intros v []; exact (fun h => h). Qed.
#[export] Hint Resolve T25_set_tls_failed : t25db.
Lemma T25_set_tls_support : forall v s, T25 s -> T25 (set_tls_support v s).
Proof. intros v []; exact (fun h => h). Qed.
#[export] Hint Resolve T25_set_tls_support : t25db.
Lemma T25_set_sasl : forall v s, T25 s -> T25 (set_sasl v s).
Proof. intros v []; exact (fun h => h). Qed.
#[export] Hint Resolve T25_set_sasl : t25db.
Lemma T25_set_bind_required : forall v s, T25 s -> T25 (set_bind_required v s).
Proof. intros v []; exact (fun h => h). Qed.
#[export] Hint Resolve T25_set_bind_required : t25db.
Lemma T25_set_session_required : forall v s, T25 s -> T25 (set_session_required v s).
Proof. intros v []; exact (fun h => h). Qed.
#[export] Hint Resolve T25_set_session_required : t25db.
Lemma T25_set_comp_supported : forall v s, T25 s -> T25 (set_comp_supported v s).
Proof. intros v []; exact (fun h => h). Qed.
#[export] Hint Resolve T25_set_comp_supported : t25db.
Lemma T25_set_comp_active : forall v s, T25 s -> T25 (set_comp_active v s).
Proof. intros v []; exact (fun h => h). Qed.
#[export] Hint Resolve T25_set_comp_active : t25db.
Lemma T25_set_sm_alloc : forall v s, T25 s -> T25 (set_sm_alloc v s).
Proof. intros v []; exact (fun h => h). Qed.
#[export] Hint Resolve T25_set_sm_alloc : t25db.
Lemma T25_set_sm_support : forall v s, T25 s -> T25 (set_sm_support v s).
Proof. intros v []; exact (fun h => h). Qed.
#[export] Hint Resolve T25_set_sm_support : t25db.
Lemma T25_set_sm_enabled : forall v s, T25 s -> T25 (set_sm_enabled v s).
Proof. intros v []; exact (fun h => h). Qed.
#[export] Hint Resolve T25_set_sm_enabled : t25db.
Lemma T25_set_sm_can_resume : forall v s, T25 s -> T25 (set_sm_can_resume v s).
Proof. intros v []; exact (fun h => h). Qed.
#[export] Hint Resolve T25_set_sm_can_resume : t25db.
Lemma T25_set_sm_resume : forall v s, T25 s -> T25 (set_sm_resume v s).
Proof. intros v []; exact (fun h => h). Qed.
#[export] Hint Resolve T25_set_sm_resume : t25db.
Lemma T25_set_sm_dont_request : forall v s, T25 s -> T25 (set_sm_dont_request v s).
Proof. intros v []; exact (fun h => h). Qed.
#[export] Hint Resolve T25_set_sm_dont_request : t25db.
Lemma T25_set_sm_has_previd : forall v s, T25 s -> T25 (set_sm_has_previd v s).
Proof. intros v []; exact (fun h => h). Qed.
#[export] Hint Resolve T25_set_sm_has_previd : t25db.
Lemma T25_set_sm_has_id : forall v s, T25 s -> T25 (set_sm_has_id v s).
Proof. intros v []; exact (fun h => h). Qed.
#[export] Hint Resolve T25_set_sm_has_id : t25db.
Lemma T25_set_sm_parked : forall v s, T25 s -> T25 (set_sm_parked v s).
Proof. intros v []; exact (fun h => h). Qed.
#[export] Hint Resolve T25_set_sm_parked : t25db.
Lemma T25_set_sm_r_sent : forall v s, T25 s -> T25 (set_sm_r_sent v s).
Proof. intros v []; exact (fun h => h). Qed.
#[export] Hint Resolve T25_set_sm_r_sent : t25db.
Lemma T25_set_sm_bind_saved : forall v s, T25 s -> T25 (set_sm_bind_saved v s).
Proof. intros v []; exact (fun h => h). Qed.
#[export] Hint Resolve T25_set_sm_bind_saved : t25db.
Lemma T25_set_bound_jid : forall v s, T25 s -> T25 (set_bound_jid v s).
Proof. intros v []; exact (fun h => h). Qed.
#[export] Hint Resolve T25_set_bound_jid : t25db.
Lemma T25_set_stream_id : forall v s, T25 s -> T25 (set_stream_id v s).
Proof. intros v []; exact (fun h => h). Qed.
#[export] Hint Resolve T25_set_stream_id : t25db.
Lemma T25_set_neg_done : forall v s, T25 s -> T25 (set_neg_done v s).
Proof. intros v []; exact (fun h => h). Qed.
#[export] Hint Resolve T25_set_neg_done : t25db.
Lemma T25_set_reset_parser : forall v s, T25 s -> T25 (set_reset_parser v s).
Proof. intros v []; exact (fun h => h). Qed.
#[export] Hint Resolve T25_set_reset_parser : t25db.
Lemma T25_set_oh : forall v s, T25 s -> T25 (set_oh v s).
Proof. intros v []; exact (fun h => h). Qed.
#[export] Hint Resolve T25_set_oh : t25db.
Lemma T25_set_ps : forall v s, T25 s -> T25 (set_ps v s).
Proof. intros v []; exact (fun h => h). Qed.
#[export] Hint Resolve T25_set_ps : t25db.
Lemma T25_set_handlers : forall v s, T25 s -> T25 (set_handlers v s).
Proof. intros v []; exact (fun h => h). Qed.
#[export] Hint Resolve T25_set_handlers : t25db.
Lemma T25_set_idhandlers : forall v s, T25 s -> T25 (set_idhandlers v s).
Proof. intros v []; exact (fun h => h). Qed.
#[export] Hint Resolve T25_set_idhandlers : t25db.
Lemma T25_set_timed : forall v s, T25 s -> T25 (set_timed v s).
Proof. intros v []; exact (fun h => h). Qed.
#[export] Hint Resolve T25_set_timed : t25db.
Lemma T25_set_sendq : forall v s, T25 s -> T25 (set_sendq v s).
Proof. intros v []; exact (fun h => h). Qed.
#[export] Hint Resolve T25_set_sendq : t25db.
Lemma T25_set_rxq : forall v s, T25 s -> T25 (set_rxq v s).
Proof. intros v []; exact (fun h => h). Qed.
#[export] Hint Resolve T25_set_rxq : t25db.
Lemma T25_set_smq : forall v s, T25 s -> T25 (set_smq v s).
Proof. intros v []; exact (fun h => h). Qed.
#[export] Hint Resolve T25_set_smq : t25db.
Lemma T25_set_sm_sent : forall v s, T25 s -> T25 (set_sm_sent v s).
Proof. intros v []; exact (fun h => h). Qed.
#[export] Hint Resolve T25_set_sm_sent : t25db.
Lemma T25_set_scram_serial : forall v s, T25 s -> T25 (set_scram_serial v s).
Proof. intros v []; exact (fun h => h). Qed.
#[export] Hint Resolve T25_set_scram_serial : t25db.
Lemma T25_set_crashed : forall v s, T25 s -> T25 (set_crashed v s).
Proof. intros v []; exact (fun h => h). Qed.
#[export] Hint Resolve T25_set_crashed : t25db.
Lemma T25_set_gh : forall v s, T25 s -> T25 (set_gh v s).
Proof. intros v []; exact (fun h => h). Qed.
#[export] Hint Resolve T25_set_gh : t25db.
Lemma T25_upg : forall f s, T25 s -> T25 (upg f s).
Proof. intros f []; exact (fun h => h). Qed.
Lemma T25_live : forall s, st s <> Disconnected -> T25 s.
Proof. intros s H D. congruence. Qed.
Lemma T25_set_tls_present_false : forall s, T25 (set_tls_present false s).
Proof. intros [] D; reflexivity. Qed.
#[export] Hint Resolve T25_upg T25_set_tls_present_false : t25db.
Lemma T25_q_append : forall w u sm s, T25 s -> T25 (q_append w u sm s).
Proof. intros; unfold q_append; cases; eauto 10 with t25db. Qed.
#[export] Hint Resolve T25_q_append : t25db.
Lemma T25_send_gated : forall w u sm s, T25 s -> T25 (send_gated w u sm s).
Proof. intros; unfold send_gated, ret; cases; leaf; eauto 30 with t25db. Qed.
#[export] Hint Resolve T25_send_gated : t25db.
Lemma T25_send_raw_m : forall w u sm s, T25 s -> T25 (send_raw_m w u sm s).
Proof. intros; unfold send_raw_m, ret; cases; leaf; eauto 30 with t25db. Qed.
#[export] Hint Resolve T25_send_raw_m : t25db.
Lemma T25_timed_add : forall k n s, T25 s -> T25 (timed_add k n s).
Proof. intros; unfold timed_add, ret; cases; leaf; eauto 30 with t25db. Qed.
#[export] Hint Resolve T25_timed_add : t25db.
Lemma T25_timed_del : forall k s, T25 s -> T25 (timed_del k s).
Proof. intros; unfold timed_del, ret; cases; leaf; eauto 30 with t25db. Qed.
#[export] Hint Resolve T25_timed_del : t25db.
Lemma T25_timed_reset_all : forall n s, T25 s -> T25 (timed_reset_all n s).
Proof. intros; unfold timed_reset_all, ret; cases; leaf; eauto 30 with t25db. Qed.
#[export] Hint Resolve T25_timed_reset_all : t25db.
Lemma T25_timed_set_stamp : forall k n s, T25 s -> T25 (timed_set_stamp k n s).
Proof. intros; unfold timed_set_stamp, ret; cases; leaf; eauto 30 with t25db. Qed.
#[export] Hint Resolve T25_timed_set_stamp : t25db.
Lemma T25_h_add : forall k s, T25 s -> T25 (h_add k s).
Proof. intros; unfold h_add, ret; cases; leaf; eauto 30 with t25db. Qed.
#[export] Hint Resolve T25_h_add : t25db.
Lemma T25_h_del : forall k s, T25 s -> T25 (h_del k s).
Proof. intros; unfold h_del, ret; cases; leaf; eauto 30 with t25db. Qed.
#[export] Hint Resolve T25_h_del : t25db.
Lemma T25_id_add : forall k s, T25 s -> T25 (id_add k s).
Proof. intros; unfold id_add, ret; cases; leaf; eauto 30 with t25db. Qed.
#[export] Hint Resolve T25_id_add : t25db.
Lemma T25_id_del : forall k s, T25 s -> T25 (id_del k s).
Proof. intros; unfold id_del, ret; cases; leaf; eauto 30 with t25db. Qed.
#[export] Hint Resolve T25_id_del : t25db.
Lemma T25_reset_sm_for_reconnect : forall s, T25 s -> T25 (reset_sm_for_reconnect s).
Proof. intros; unfold reset_sm_for_reconnect, ret; cases; leaf; eauto 30 with t25db. Qed.
#[export] Hint Resolve T25_reset_sm_for_reconnect : t25db.
Lemma T25_sm_queue_cleanup : forall h s, T25 s -> T25 (sm_queue_cleanup h s).
Proof. intros; unfold sm_queue_cleanup, ret; cases; leaf; eauto 30 with t25db. Qed.
#[export] Hint Resolve T25_sm_queue_cleanup : t25db.
Lemma T25_sm_queue_resend : forall s, T25 s -> T25 (sm_queue_resend s).
Proof. intros; unfold sm_queue_resend. apply fold_left_inv; eauto with t25db. Qed.
#[export] Hint Resolve T25_sm_queue_resend : t25db.
Lemma T25_conn_disconnect : forall s, T25 s -> T25 (fst (conn_disconnect s)).
Proof. intros s H. name_result. unfold conn_disconnect, ret. cases; leaf; eauto 20 with t25db. Qed.
#[export] Hint Resolve T25_conn_disconnect : t25db.
Lemma T25_xmpp_disconnect : forall n s, T25 s -> T25 (xmpp_disconnect n s).
Proof. intros; unfold xmpp_disconnect, ret; cases; leaf; eauto 30 with t25db. Qed.
#[export] Hint Resolve T25_xmpp_disconnect : t25db.
Lemma T25_prepare_reset : forall h s, T25 s -> T25 (prepare_reset h s).
Proof. intros; unfold prepare_reset, ret; cases; leaf; eauto 30 with t25db. Qed.
#[export] Hint Resolve T25_prepare_reset : t25db.
Lemma T25_conn_open_stream : forall s, T25 s -> T25 (conn_open_stream s).
Proof. intros; unfold conn_open_stream, ret; cases; leaf; eauto 30 with t25db. Qed.
#[export] Hint Resolve T25_conn_open_stream : t25db.
Lemma T25_conn_tls_start : forall s, st s <> Disconnected -> T25 (fst (fst (conn_tls_start s))).
Proof. intros s D. apply T25_live. pose proof (StEq_conn_tls_start s s (StEq_refl s)) as E. unfold StEq in E. congruence. Qed.
Lemma T25_stream_negotiation_success : forall s, T25 s -> T25 (fst (stream_negotiation_success s)).
Proof. intros; name_result; unfold stream_negotiation_success, ret; cases; leaf; eauto 30 with t25db. Qed.
#[export] Hint Resolve T25_stream_negotiation_success : t25db.
Lemma T25_do_bind : forall n b s, T25 s -> T25 (fst (do_bind n b s)).
Proof. intros; name_result; unfold do_bind, ret; cases; leaf; eauto 30 with t25db. Qed.
#[export] Hint Resolve T25_do_bind : t25db.
Lemma T25_session_start : forall n s, T25 s -> T25 (session_start n s).
Proof. intros; unfold session_start, ret; cases; leaf; eauto 30 with t25db. Qed.
#[export] Hint Resolve T25_session_start : t25db.
Lemma T25_sm_enable : forall s, T25 s -> T25 (sm_enable s).
Proof. intros; unfold sm_enable, ret; cases; leaf; eauto 30 with t25db. Qed.
#[export] Hint Resolve T25_sm_enable : t25db.
Lemma T25_auth_legacy : forall n s, T25 s -> T25 (auth_legacy n s).
Proof. intros; unfold auth_legacy, ret; cases; leaf; eauto 30 with t25db. Qed.
#[export] Hint Resolve T25_auth_legacy : t25db.
Lemma T25_auth : forall fuel n s, T25 s -> T25 (fst (auth fuel n s)).
Proof. induction fuel; intros; name_result; cbn [auth]; unfold ret; cases; leaf; eauto 30 with t25db. Qed.
#[export] Hint Resolve T25_auth : t25db.
Lemma T25_sasl_result : forall n e s, T25 s -> T25 (fst (sasl_result n e s)).
Proof. intros; name_result; unfold sasl_result, ret; cases; leaf; eauto 30 with t25db. Qed.
#[export] Hint Resolve T25_sasl_result : t25db.
Lemma T25_features_sasl : forall n e s, T25 s -> T25 (fst (features_sasl n e s)).
Proof. intros; name_result; unfold features_sasl, ret; cases; leaf; eauto 30 with t25db. Qed.
#[export] Hint Resolve T25_features_sasl : t25db.
Lemma T25_call_id_handler : forall k n e s, T25 s -> T25 (fst (call_id_handler k n e s)).
Proof. intros k; destruct k; intros; name_result; unfold call_id_handler, ret; cases; leaf; eauto 30 with t25db. Qed.
#[export] Hint Resolve T25_call_id_handler : t25db.
Lemma T25_note_rx : forall e s, T25 s -> T25 (note_rx e s).
Proof. intros; unfold note_rx; cbv zeta; eauto with t25db. Qed.
#[export] Hint Resolve T25_note_rx : t25db.
Lemma T25_sm_handle : forall e s, T25 s -> T25 (sm_handle e s).
Proof. intros; unfold sm_handle, ret; cases; leaf; eauto 30 with t25db. Qed.
#[export] Hint Resolve T25_sm_handle : t25db.
Lemma T25_open_handler : forall n s, T25 s -> T25 (fst (open_handler n s)).
Proof. intros; name_result; unfold open_handler, ret; cases; leaf; eauto 30 with t25db. Qed.
#[export] Hint Resolve T25_open_handler : t25db.
Lemma T25_stream_start : forall n a b s, T25 s -> T25 (fst (stream_start n a b s)).
Proof. intros; name_result; unfold stream_start, ret; cases; leaf; eauto 30 with t25db. Qed.
#[export] Hint Resolve T25_stream_start : t25db.
Lemma T25_stream_end : forall s, T25 s -> T25 (fst (stream_end s)).
Proof. intros; name_result; unfold stream_end, ret; cases; leaf; eauto 30 with t25db. Qed.
#[export] Hint Resolve T25_stream_end : t25db.
Lemma T25_call_timed : forall k n s, T25 s -> T25 (fst (fst (call_timed k n s))).
Proof. intros k; destruct k; intros; name_result; unfold call_timed, ret; cases; leaf; eauto 30 with t25db. Qed.
#[export] Hint Resolve T25_call_timed : t25db.
Lemma T25_visit_timed : forall n r k, T25 (fst r) -> T25 (fst (visit_timed n r k)).
Proof. intros n [s o] k H. cbn [fst] in H. name_result. unfold visit_timed. cases; leaf; eauto 30 with t25db. Qed.
Lemma T25_fold_visit_timed : forall n l s o, T25 s -> T25 (fst (fold_left (visit_timed n) l (s, o))).
Proof. intros n l s o H. apply (fold_left_inv (fun r => T25 (fst r))); auto. intros; apply T25_visit_timed; auto. Qed.
#[export] Hint Resolve T25_fold_visit_timed : t25db.
Lemma T25_fire_timed : forall n s, T25 s -> T25 (fst (fire_timed n s)).
Proof. intros; name_result; unfold fire_timed, ret; cases; leaf; eauto 30 with t25db. Qed.
#[export] Hint Resolve T25_fire_timed : t25db.
Lemma T25_connect_next : forall n s, T25 s -> T25 (fst (fst (connect_next n s))).
Proof. intros; name_result; unfold connect_next, ret; cases; leaf; eauto 30 with t25db. Qed.
#[export] Hint Resolve T25_connect_next : t25db.
Lemma T25_call_handler_other : forall k n e s, hkind_eqb k HProceedTls = false -> T25 s -> T25 (fst (fst (call_handler k n e s))).
Proof.
  intros k; destruct k; intros n0 e s K H; try discriminate;
    name_result; unfold call_handler, ret; cases; leaf; eauto 30 with t25db.
Qed.
Lemma T25_call_handler_visit : forall k n e s, st s <> Disconnected \/ hkind_eqb k HProceedTls = false -> T25 s ->
  T25 (if snd (call_handler k n e s) then fst (fst (call_handler k n e s)) else h_del k (fst (fst (call_handler k n e s)))).
Proof.
  intros k n e s C H.
  assert (G : T25 (fst (fst (call_handler k n e s)))).
  { destruct (hkind_eqb k HProceedTls) eqn:K; [|apply T25_call_handler_other; auto].
    destruct C as [C|C]; [|discriminate]. apply T25_live.
    pose proof (StEq_call_handler k n e s s) as E. unfold StEq in E. rewrite E; auto. apply hkind_eqb_eq in K. subst k. reflexivity. }
  destruct (call_handler k n e s) as [[s1 o1] keep]. cbn [fst snd] in *. destruct keep; auto using T25_h_del.
Qed.

(* ================================================================== PH: the phase invariant at rest *)
Definition is_q (k : hkind) : bool := match k with HUser | HError | HComponentHs | HSm => false | _ => true end.
Definition is_sm (k : hkind) : bool := match k with HSm => true | _ => false end.
Definition qmarks (s : state) : nat := List.length (filter (fun x => is_q (fst x)) (handlers s)).
Definition hsm (s : state) : nat := List.length (filter (fun x => is_sm (fst x)) (handlers s)).
Definition SE (s : state) : Prop := sm_enabled s = true -> qmarks s = 0%nat /\ id_has IKBind s = false /\ pending s = 0%nat.
Definition Dead (s : state) : Prop :=
  hmarks s = 0%nat /\ imarks s = 0%nat /\ id_has IKLegacy s = false /\ h_has HComponentHs s = false.
Definition DL (s : state) : Prop := st s = Disconnected -> Dead s.
Record PH (s : state) : Prop := mkPH {
  ph_ti : TI s; ph_amo : (marks s <= 1)%nat; ph_t01 : T01 s; ph_mt : MT s; ph_smoff : SmOff s; ph_se : SE s;
  ph_t25 : T25 s }.

Lemma hmarks_split : forall s, hmarks s = (qmarks s + hsm s)%nat.
Proof.
  intros. unfold hmarks, qmarks, hsm. induction (handlers s) as [|x l IH]; [reflexivity|]. cbn [filter].
  destruct (fst x); cbn [is_main is_q is_sm List.length]; lia.
Qed.
Lemma hsm_pos : forall s, h_has HSm s = true -> (1 <= hsm s)%nat.
Proof.
  intros s. unfold hsm, h_has. induction (handlers s) as [|x l IH]; cbn; [discriminate|].
  destruct (fst x); cbn; auto; lia.
Qed.
Lemma qmarks_pos : forall k s, is_q k = true -> h_has k s = true -> (1 <= qmarks s)%nat.
Proof.
  intros k s M. unfold qmarks, h_has. induction (handlers s) as [|x l IH]; cbn; [discriminate|].
  destruct (hkind_eqb k (fst x)) eqn:E; [apply hkind_eqb_eq in E; rewrite <- E, M; cbn; lia|].
  cbn [orb]. intros Hl. specialize (IH Hl). destruct (is_q (fst x)); cbn; lia.
Qed.
Lemma imarks_pos : forall k s, is_main_id k = true -> id_has k s = true -> (1 <= imarks s)%nat.
Proof.
  intros k s M. unfold imarks, id_has. induction (idhandlers s) as [|x l IH]; cbn; [discriminate|].
  destruct (idk_eqb k (fst x)) eqn:E; [assert (k = fst x) by (destruct k, (fst x); cbn in E; congruence); subst k; rewrite M; cbn; lia|].
  cbn [orb]. intros Hl. specialize (IH Hl). destruct (is_main_id (fst x)); cbn; lia.
Qed.
Lemma qmarks_h_del : forall k s, (qmarks (h_del k s) <= qmarks s)%nat.
Proof.
  intros. unfold qmarks, h_del. sproj. induction (handlers s) as [|x l IH]; [cbn; lia|]. cbn [filter].
  destruct (negb (hkind_eqb k (fst x))); cbn [filter]; destruct (is_q (fst x)); cbn [List.length]; lia.
Qed.
Lemma hmarks_h_del_le : forall k s, (hmarks (h_del k s) <= hmarks s)%nat.
Proof. intros. pose proof (hmarks_h_del k s). lia. Qed.
Lemma HFr_obs : forall s0 s, HFr s0 s ->
  marks s = marks s0 /\ hmarks s = hmarks s0 /\ imarks s = imarks s0 /\ qmarks s = qmarks s0 /\ pending s = pending s0 /\
  (forall k, h_has k s = h_has k s0) /\ (forall k, id_has k s = id_has k s0).
Proof.
  intros s0 s []. unfold marks, hmarks, imarks, qmarks, pending, h_has, id_has.
  rewrite hfr_h0, hfr_i0, hfr_oh0, hfr_rp0, hfr_ps0. repeat split; reflexivity.
Qed.
Lemma Dead_HFr : forall s0 s, HFr s0 s -> Dead s0 -> Dead s.
Proof. intros s0 s F (A & B & C & D). destruct (HFr_obs _ _ F) as (_ & E1 & E2 & _ & _ & E3 & E4). unfold Dead. rewrite E1, E2, E3, E4. auto. Qed.
Lemma Dead_h_del : forall k s, Dead s -> Dead (h_del k s).
Proof.
  intros k s (A & B & C & D). unfold Dead. pose proof (hmarks_h_del_le k s). rewrite h_has_h_del, D.
  repeat split; auto; lia.
Qed.

Lemma SmOff_call_handler_other : forall k n e s, hkind_eqb k HFeaturesSasl = false -> hkind_eqb k HFeaturesCompress = false ->
  hkind_eqb k HSm = false -> SmOff s -> SmOff (fst (fst (call_handler k n e s))).
Proof.
  intros k; destruct k; intros n0 e s K1 K2 K3 H; try discriminate;
    name_result; unfold call_handler, ret; cases; leaf; eauto 30 with smoffdb.
Qed.

(* a handler that may run on a dead connection is one of the two harmless ones *)
Lemma Dead_handler : forall k s, Dead s -> h_has k s = true -> is_main k = false /\ hkind_eqb k HComponentHs = false.
Proof.
  intros k s (A & B & C & D) Hk. split.
  - destruct (is_main k) eqn:M; auto. pose proof (hmarks_pos k s M Hk). lia.
  - destruct (hkind_eqb k HComponentHs) eqn:E; auto. apply hkind_eqb_eq in E. subst k. congruence.
Qed.

Lemma SE_HFr : forall s0 s, HFr s0 s -> (qmarks s0 = 0%nat /\ id_has IKBind s0 = false /\ pending s0 = 0%nat) -> SE s.
Proof.
  intros s0 s F (A & B & C) _. destruct (HFr_obs _ _ F) as (_ & _ & _ & E1 & E2 & _ & E3). rewrite E1, E2, E3. auto.
Qed.
Lemma SE_h_del : forall k s, SE s -> SE (h_del k s).
Proof.
  intros k s H En. destruct (H En) as (A & B & C). pose proof (qmarks_h_del k s). repeat split; auto. lia.
Qed.
Lemma sm_token : forall s, (marks s <= 1)%nat -> h_has HSm s = true ->
  qmarks s = 0%nat /\ id_has IKBind s = false /\ pending s = 0%nat.
Proof.
  intros s M H. pose proof (hsm_pos s H). pose proof (hmarks_split s). unfold marks in M.
  repeat split; try lia. destruct (id_has IKBind s) eqn:E; auto. pose proof (imarks_pos IKBind s eq_refl E). lia.
Qed.
(* _handle_sm: stream management is switched on only by <resumed/>, when _handle_sm is the single token *)
Lemma SE_HSm : forall n e s, (marks s <= 1)%nat -> h_has HSm s = true ->
  SE (if snd (call_handler HSm n e s) then fst (fst (call_handler HSm n e s)) else h_del HSm (fst (fst (call_handler HSm n e s)))).
Proof.
  intros n e s M H. pose proof (sm_token s M H) as Q.
  name_result. unfold call_handler, ret. cases; leaf;
    first [ intros En; exfalso; revert En; unfold h_del; sproj; congruence
          | apply SE_h_del; eapply SE_HFr; [ | exact Q]; eauto 30 with hfrdb ].
Qed.

Section VisitLevel.
Variables (k : hkind) (n : Z) (e : elem) (s : state).
Hypothesis (P : PH s) (L : DL s) (Hk : h_has k s = true).
Let s1 := fst (fst (call_handler k n e s)).
Let keep := snd (call_handler k n e s).
Let s' := if keep then s1 else h_del k s1.

Lemma visit_live_main : is_main k = true -> st s <> Disconnected.
Proof.
  intros M D. destruct (Dead_handler k s (L D) Hk) as [A _]. congruence.
Qed.

Lemma visit_amo : (marks s' <= 1)%nat.
Proof.
  pose proof (Bd_call_handler k n e 0 s s (Bd_refl s)) as B. fold s1 keep in B. destruct P.
  unfold s'. destruct keep eqn:K.
  - pose proof (bd_marks _ _ _ B) as BM. rewrite andb_false_r in BM. cbn in BM. lia.
  - pose proof (marks_h_del k s1) as D. rewrite (h_has_Bd _ _ _ k B Hk) in D. pose proof (bd_marks _ _ _ B) as BM. cbn [negb] in *.
    rewrite andb_true_r in *. lia.
Qed.

Lemma visit_smoff : SmOff s'.
Proof.
  assert (G : SmOff s1).
  { destruct (is_main k) eqn:M.
    - pose proof (visit_live_main M) as D.
      destruct (is_authcaller k) eqn:A.
      + apply SmOff_call_handler_other; try (destruct k; try discriminate; reflexivity). apply P.
      + apply SmOff_live. pose proof (StEq_call_handler k n e s s A (StEq_refl s)) as E. unfold StEq in E. fold s1 in E. congruence.
    - apply SmOff_call_handler_other; try (destruct k; try discriminate; reflexivity). apply P. }
  unfold s'. destruct keep; auto using SmOff_h_del.
Qed.

Lemma visit_dl : DL s'.
Proof.
  assert (Est : st s' = st s1) by (unfold s'; destruct keep; reflexivity).
  intros D. rewrite Est in D.
  destruct (st s) eqn:S0.
  - (* already disconnected: only _handle_error / the user handler can be registered *)
    destruct (Dead_handler k s (L S0) Hk) as [A B].
    pose proof (HFr_call_handler_nonmain k n e s s A (HFr_refl s)) as F. fold s1 in F.
    pose proof (Dead_HFr _ _ F (L S0)) as G. unfold s'. destruct keep; auto using Dead_h_del.
  - assert (S0' : st s <> Disconnected) by congruence. clear S0.
    destruct (DA_call_handler k n e s S0' D) as [[F NC] K]. fold s1 in F. fold keep in K.
    destruct (ph_mt _ P) as [C|(PL1 & PL2 & _)]; [contradiction|].
    assert (A : is_authcaller k = true).
    { destruct (is_authcaller k) eqn:A; auto. pose proof (StEq_call_handler k n e s s A (StEq_refl s)) as E.
      unfold StEq in E. fold s1 in E. congruence. }
    assert (M : is_main k = true) by (destruct k; try discriminate; reflexivity).
    destruct (HFr_obs _ _ F) as (_ & E1 & E2 & _ & _ & E3 & E4).
    pose proof (hmarks_pos k s M Hk). pose proof (ph_amo _ P) as AM. unfold marks in AM.
    pose proof (hmarks_h_del k s1) as HD. rewrite E3, Hk, M in HD. cbn [b2n andb] in HD.
    unfold s'. rewrite K. unfold Dead. rewrite h_has_h_del, E3, PL2.
    assert (imarks (h_del k s1) = imarks s1) as -> by reflexivity.
    assert (id_has IKLegacy (h_del k s1) = id_has IKLegacy s1) as -> by reflexivity.
    rewrite E4, PL1. rewrite ?E2; repeat split; auto; lia.
  - assert (S0' : st s <> Disconnected) by congruence. clear S0.
    destruct (DA_call_handler k n e s S0' D) as [[F NC] K]. fold s1 in F. fold keep in K.
    destruct (ph_mt _ P) as [C|(PL1 & PL2 & _)]; [contradiction|].
    assert (A : is_authcaller k = true).
    { destruct (is_authcaller k) eqn:A; auto. pose proof (StEq_call_handler k n e s s A (StEq_refl s)) as E.
      unfold StEq in E. fold s1 in E. congruence. }
    assert (M : is_main k = true) by (destruct k; try discriminate; reflexivity).
    destruct (HFr_obs _ _ F) as (_ & E1 & E2 & _ & _ & E3 & E4).
    pose proof (hmarks_pos k s M Hk). pose proof (ph_amo _ P) as AM. unfold marks in AM.
    pose proof (hmarks_h_del k s1) as HD. rewrite E3, Hk, M in HD. cbn [b2n andb] in HD.
    unfold s'. rewrite K. unfold Dead. rewrite h_has_h_del, E3, PL2.
    assert (imarks (h_del k s1) = imarks s1) as -> by reflexivity.
    assert (id_has IKLegacy (h_del k s1) = id_has IKLegacy s1) as -> by reflexivity.
    rewrite E4, PL1. rewrite ?E2; repeat split; auto; lia.
Qed.
Lemma visit_se : SE s'.
Proof.
  destruct (hkind_eqb k HSm) eqn:K; [apply hkind_eqb_eq in K; unfold s', keep, s1; subst k; apply SE_HSm; [apply P | exact Hk]|].
  intros En. assert (En1 : sm_enabled s1 = true) by (revert En; unfold s'; destruct keep; auto).
  pose proof (Sn_call_handler k n e s s K (Sn_refl s) En1) as En0.
  destruct (ph_se _ P En0) as (Q0 & B0 & P0).
  assert (NQ : is_q k = false) by (destruct (is_q k) eqn:Q; auto; pose proof (qmarks_pos k s Q Hk); lia).
  assert (NM : is_main k = false) by (destruct k; try discriminate; reflexivity).
  pose proof (HFr_call_handler_nonmain k n e s s NM (HFr_refl s)) as F. fold s1 in F.
  assert (G : SE s1) by (eapply SE_HFr; eauto).
  unfold s' in *. destruct keep; [exact (G En)|exact (SE_h_del k s1 G En)].
Qed.
End VisitLevel.

Lemma PH_visit_step : forall k n e s, PH s -> DL s -> h_has k s = true ->
  let r := call_handler k n e s in
  PH (if snd r then fst (fst r) else h_del k (fst (fst r))) /\ DL (if snd r then fst (fst r) else h_del k (fst (fst r))).
Proof.
  intros k n e s P L Hk. cbv zeta. split; [constructor|].
  - apply TI_call_handler_visit; [apply P | exact Hk].
  - apply visit_amo; assumption.
  - apply T01_call_handler_visit; [apply P | apply P | exact Hk].
  - apply MT_call_handler_visit; [apply P | apply P | exact Hk].
  - apply visit_smoff; assumption.
  - apply visit_se; assumption.
  - apply T25_call_handler_visit; [ | apply P].
    destruct (st s) eqn:S0; [right | left; discriminate | left; discriminate].
    destruct (Dead_handler k s (L S0) Hk) as [A _]. destruct (hkind_eqb k HProceedTls) eqn:K; auto.
    apply hkind_eqb_eq in K. subst k. discriminate.
  - apply visit_dl; assumption.
Qed.
Lemma PH_visit : forall n e r k, PH (fst r) /\ DL (fst r) -> PH (fst (visit n e r k)) /\ DL (fst (visit n e r k)).
Proof.
  intros n e [s o] k [P L]. cbn [fst] in *. unfold visit.
  destruct (crashed s); auto. destruct (negb (h_has k s)) eqn:E; auto. apply negb_false_iff in E.
  destruct (hkind_eqb k HUser && negb (neg_done s)); auto. destruct (negb (filter_match k e)); auto.
  pose proof (PH_visit_step k n e s P L E) as T. cbv zeta in T.
  destruct (call_handler k n e s) as [[s1 o1] keep]. cbn [fst snd] in *. exact T.
Qed.
Lemma PH_fold_visit : forall n e l s o, PH s -> DL s ->
  PH (fst (fold_left (visit n e) l (s, o))) /\ DL (fst (fold_left (visit n e) l (s, o))).
Proof.
  intros n e l s o P L. apply (fold_left_inv (fun r => PH (fst r) /\ DL (fst r))); auto. intros; apply PH_visit; auto.
Qed.

(* steps that do not touch the registrations *)
Lemma PH_neutral : forall s s', HFr s s' -> TI s' -> T01 s' -> MT s' -> SmOff s' -> Sn s s' -> T25 s' -> PH s -> PH s'.
Proof.
  intros s s' F A B C D E T P. destruct (HFr_obs _ _ F) as (M & _). constructor; auto.
  - rewrite M. apply P.
  - intros En. eapply SE_HFr; eauto. apply (ph_se _ P). apply E. exact En.
Qed.
Lemma MT_of : forall f s, (CS s -> CS (f s)) -> (PL s -> PL (f s)) -> MT s -> MT (f s).
Proof. intros f s A B [C|P]; [left|right]; auto. Qed.
Lemma DL_neutral : forall s s', HFr s s' -> st s' = st s -> DL s -> DL s'.
Proof. intros s s' F E L D. apply (Dead_HFr _ _ F). apply L. congruence. Qed.

Lemma PH_note_rx : forall e s, PH s -> PH (note_rx e s).
Proof.
  intros e s P. apply (PH_neutral s (note_rx e s));
    [ apply HFr_note_rx, HFr_refl | apply TI_note_rx, P | apply T01_note_rx, P
    | apply (MT_of (note_rx e)); [apply CS_note_rx | apply PL_note_rx | apply P]
    | apply SmOff_note_rx, P | apply Sn_note_rx, Sn_refl | apply T25_note_rx, P | exact P ].
Qed.

(* QFr: no handler that can queue a negotiation element is added, no restart is scheduled *)
Record QFr (s0 s : state) : Prop := mkQFr {
  qfr_q : qmarks s = qmarks s0; qfr_oh : oh s = oh s0; qfr_rp : reset_parser s = reset_parser s0; qfr_ps : ps s = ps s0;
  qfr_bind : id_has IKBind s = true -> id_has IKBind s0 = true }.
Lemma QFr_refl : forall s, QFr s s. Proof. intros; constructor; auto. Qed.
Lemma QFr_trans : forall a b c, QFr a b -> QFr b c -> QFr a c.
Proof. intros a b c [] []; constructor; try congruence; auto. Qed.
#[export] Hint Resolve QFr_refl : qfrdb.
Lemma QFr_set_f_tls_disabled : forall v s0 s, QFr s0 s -> QFr s0 (set_f_tls_disabled v s).
Proof. intros v s0 s H; apply (QFr_trans _ _ _ H); destruct s; constructor; auto. Qed.
#[export] Hint Resolve QFr_set_f_tls_disabled : qfrdb.
Lemma QFr_set_f_tls_mandatory : forall v s0 s, QFr s0 s -> QFr s0 (set_f_tls_mandatory v s).
Proof. intros v s0 s H; apply (QFr_trans _ _ _ H); destruct s; constructor; auto. Qed.
#[export] Hint Resolve QFr_set_f_tls_mandatory : qfrdb.
Lemma QFr_set_f_legacy_ssl : forall v s0 s, QFr s0 s -> QFr s0 (set_f_legacy_ssl v s).
Proof. intros v s0 s H; apply (QFr_trans _ _ _ H); destruct s; constructor; auto. Qed.
#[export] Hint Resolve QFr_set_f_legacy_ssl : qfrdb.
Lemma QFr_set_f_tls_trust : forall v s0 s, QFr s0 s -> QFr s0 (set_f_tls_trust v s).
Proof. intros v s0 s H; apply (QFr_trans _ _ _ H); destruct s; constructor; auto. Qed.
#[export] Hint Resolve QFr_set_f_tls_trust : qfrdb.
Lemma QFr_set_f_legacy_auth : forall v s0 s, QFr s0 s -> QFr s0 (set_f_legacy_auth v s).
Proof. intros v s0 s H; apply (QFr_trans _ _ _ H); destruct s; constructor; auto. Qed.
#[export] Hint Resolve QFr_set_f_legacy_auth : qfrdb.
Lemma QFr_set_f_sm_disable : forall v s0 s, QFr s0 s -> QFr s0 (set_f_sm_disable v s).
Proof. intros v s0 s H; apply (QFr_trans _ _ _ H); destruct s; constructor; auto. Qed.
#[export] Hint Resolve QFr_set_f_sm_disable : qfrdb.
Lemma QFr_set_f_comp_allowed : forall v s0 s, QFr s0 s -> QFr s0 (set_f_comp_allowed v s).
Proof. intros v s0 s H; apply (QFr_trans _ _ _ H); destruct s; constructor; auto. Qed.
#[export] Hint Resolve QFr_set_f_comp_allowed : qfrdb.
Lemma QFr_set_f_comp_dont_reset : forall v s0 s, QFr s0 s -> QFr s0 (set_f_comp_dont_reset v s).
Proof. intros v s0 s H; apply (QFr_trans _ _ _ H); destruct s; constructor; auto. Qed.
#[export] Hint Resolve QFr_set_f_comp_dont_reset : qfrdb.
Lemma QFr_set_jid_set : forall v s0 s, QFr s0 s -> QFr s0 (set_jid_set v s).
Proof. intros v s0 s H; apply (QFr_trans _ _ _ H); destruct s; constructor; auto. Qed.
#[export] Hint Resolve QFr_set_jid_set : qfrdb.
Lemma QFr_set_jid_node : forall v s0 s, QFr s0 s -> QFr s0 (set_jid_node v s).
Proof. intros v s0 s H; apply (QFr_trans _ _ _ H); destruct s; constructor; auto. Qed.
#[export] Hint Resolve QFr_set_jid_node : qfrdb.
Lemma QFr_set_jid_res : forall v s0 s, QFr s0 s -> QFr s0 (set_jid_res v s).
Proof. intros v s0 s H; apply (QFr_trans _ _ _ H); destruct s; constructor; auto. Qed.
#[export] Hint Resolve QFr_set_jid_res : qfrdb.
Lemma QFr_set_pass_set : forall v s0 s, QFr s0 s -> QFr s0 (set_pass_set v s).
Proof. intros v s0 s H; apply (QFr_trans _ _ _ H); destruct s; constructor; auto. Qed.
#[export] Hint Resolve QFr_set_pass_set : qfrdb.
Lemma QFr_set_cert_set : forall v s0 s, QFr s0 s -> QFr s0 (set_cert_set v s).
Proof. intros v s0 s H; apply (QFr_trans _ _ _ H); destruct s; constructor; auto. Qed.
#[export] Hint Resolve QFr_set_cert_set : qfrdb.
Lemma QFr_set_is_raw : forall v s0 s, QFr s0 s -> QFr s0 (set_is_raw v s).
Proof. intros v s0 s H; apply (QFr_trans _ _ _ H); destruct s; constructor; auto. Qed.
#[export] Hint Resolve QFr_set_is_raw : qfrdb.
Lemma QFr_set_typ : forall v s0 s, QFr s0 s -> QFr s0 (set_typ v s).
Proof. intros v s0 s H; apply (QFr_trans _ _ _ H); destruct s; constructor; auto. Qed.
#[export] Hint Resolve QFr_set_typ : qfrdb.
Lemma QFr_set_user_handler : forall v s0 s, QFr s0 s -> QFr s0 (set_user_handler v s).
Proof. intros v s0 s H; apply (QFr_trans _ _ _ H); destruct s; constructor; auto. Qed.
#[export] Hint Resolve QFr_set_user_handler : qfrdb.
Lemma QFr_set_user_timed : forall v s0 s, QFr s0 s -> QFr s0 (set_user_timed v s).
Proof. intros v s0 s H; apply (QFr_trans _ _ _ H); destruct s; constructor; auto. Qed.
#[export] Hint Resolve QFr_set_user_timed : qfrdb.
Lemma QFr_set_tlsnew_ok : forall v s0 s, QFr s0 s -> QFr s0 (set_tlsnew_ok v s).
Proof. intros v s0 s H; apply (QFr_trans _ _ _ H); destruct s; constructor; auto. Qed.
#[export] Hint Resolve QFr_set_tlsnew_ok : qfrdb.
Lemma QFr_set_cb_avail : forall v s0 s, QFr s0 s -> QFr s0 (set_cb_avail v s).
Proof. intros v s0 s H; apply (QFr_trans _ _ _ H); destruct s; constructor; auto. Qed.
#[export] Hint Resolve QFr_set_cb_avail : qfrdb.
Lemma QFr_set_tls_verdicts : forall v s0 s, QFr s0 s -> QFr s0 (set_tls_verdicts v s).
Proof. intros v s0 s H; apply (QFr_trans _ _ _ H); destruct s; constructor; auto. Qed.
#[export] Hint Resolve QFr_set_tls_verdicts : qfrdb.
Lemma QFr_set_next_cands : forall v s0 s, QFr s0 s -> QFr s0 (set_next_cands v s).
Proof. intros v s0 s H; apply (QFr_trans _ _ _ H); destruct s; constructor; auto. Qed.
#[export] Hint Resolve QFr_set_next_cands : qfrdb.
Lemma QFr_set_cands : forall v s0 s, QFr s0 s -> QFr s0 (set_cands v s).
Proof. intros v s0 s H; apply (QFr_trans _ _ _ H); destruct s; constructor; auto. Qed.
#[export] Hint Resolve QFr_set_cands : qfrdb.
Lemma QFr_set_cur_ep : forall v s0 s, QFr s0 s -> QFr s0 (set_cur_ep v s).
Proof. intros v s0 s H; apply (QFr_trans _ _ _ H); destruct s; constructor; auto. Qed.
#[export] Hint Resolve QFr_set_cur_ep : qfrdb.
Lemma QFr_set_st : forall v s0 s, QFr s0 s -> QFr s0 (set_st v s).
Proof. intros v s0 s H; apply (QFr_trans _ _ _ H); destruct s; constructor; auto. Qed.
#[export] Hint Resolve QFr_set_st : qfrdb.
Lemma QFr_set_stamp : forall v s0 s, QFr s0 s -> QFr s0 (set_stamp v s).
Proof. intros v s0 s H; apply (QFr_trans _ _ _ H); destruct s; constructor; auto. Qed.
#[export] Hint Resolve QFr_set_stamp : qfrdb.
Lemma QFr_set_err : forall v s0 s, QFr s0 s -> QFr s0 (set_err v s).
Proof. intros v s0 s H; apply (QFr_trans _ _ _ H); destruct s; constructor; auto. Qed.
#[export] Hint Resolve QFr_set_err : qfrdb.
Lemma QFr_set_stream_error : forall v s0 s, QFr s0 s -> QFr s0 (set_stream_error v s).
Proof. intros v s0 s H; apply (QFr_trans _ _ _ H); destruct s; constructor; auto. Qed.
#[export] Hint Resolve QFr_set_stream_error : qfrdb.
Lemma QFr_set_secured : forall v s0 s, QFr s0 s -> QFr s0 (set_secured v s).
Proof. intros v s0 s H; apply (QFr_trans _ _ _ H); destruct s; constructor; auto. Qed.
#[export] Hint Resolve QFr_set_secured : qfrdb.
Lemma QFr_set_tls_present : forall v s0 s, QFr s0 s -> QFr s0 (set_tls_present v s).
Proof. intros v s0 s H; apply (QFr_trans _ _ _ H); destruct s; constructor; auto. Qed.
#[export] Hint Resolve QFr_set_tls_present : qfrdb.
Lemma QFr_set_tls_failed : forall v s0 s, QFr s0 s -> QFr s0 (set_tls_failed v s).
Proof. intros v s0 s H; apply (QFr_trans _ _ _ H); destruct s; constructor; auto. Qed.
#[export] Hint Resolve QFr_set_tls_failed : qfrdb.
Lemma QFr_set_tls_support : forall v s0 s, QFr s0 s -> QFr s0 (set_tls_support v s).
Proof. intros v s0 s H; apply (QFr_trans _ _ _ H); destruct s; constructor; auto. Qed.
#[export] Hint Resolve QFr_set_tls_support : qfrdb.
Lemma QFr_set_sasl : forall v s0 s, QFr s0 s -> QFr s0 (set_sasl v s).
Proof. intros v s0 s H; apply (QFr_trans _ _ _ H); destruct s; constructor; auto. Qed.
#[export] Hint Resolve QFr_set_sasl : qfrdb.
Lemma QFr_set_bind_required : forall v s0 s, QFr s0 s -> QFr s0 (set_bind_required v s).
Proof. intros v s0 s H; apply (QFr_trans _ _ _ H); destruct s; constructor; auto. Qed.
#[export] Hint Resolve QFr_set_bind_required : qfrdb.
Lemma QFr_set_session_required : forall v s0 s, QFr s0 s -> QFr s0 (set_session_required v s).
Proof. intros v s0 s H; apply (QFr_trans _ _ _ H); destruct s; constructor; auto. Qed.
#[export] Hint Resolve QFr_set_session_required : qfrdb.
Lemma QFr_set_comp_supported : forall v s0 s, QFr s0 s -> QFr s0 (set_comp_supported v s).
Proof. intros v s0 s H; apply (QFr_trans _ _ _ H); destruct s; constructor; auto. Qed.
#[export] Hint Resolve QFr_set_comp_supported : qfrdb.
Lemma QFr_set_comp_active : forall v s0 s, QFr s0 s -> QFr s0 (set_comp_active v s).
Proof. intros v s0 s H; apply (QFr_trans _ _ _ H); destruct s; constructor; auto. Qed.
#[export] Hint Resolve QFr_set_comp_active : qfrdb.
Lemma QFr_set_sm_alloc : forall v s0 s, QFr s0 s -> QFr s0 (set_sm_alloc v s).
Proof. intros v s0 s H; apply (QFr_trans _ _ _ H); destruct s; constructor; auto. Qed.
#[export] Hint Resolve QFr_set_sm_alloc : qfrdb.
Lemma QFr_set_sm_support : forall v s0 s, QFr s0 s -> QFr s0 (set_sm_support v s).
Proof. intros v s0 s H; apply (QFr_trans _ _ _ H); destruct s; constructor; auto. Qed.
#[export] Hint Resolve QFr_set_sm_support : qfrdb.
Lemma QFr_set_sm_enabled : forall v s0 s, QFr s0 s -> QFr s0 (set_sm_enabled v s).
Proof. intros v s0 s H; apply (QFr_trans _ _ _ H); destruct s; constructor; auto. Qed.
#[export] Hint Resolve QFr_set_sm_enabled : qfrdb.
Lemma QFr_set_sm_can_resume : forall v s0 s, QFr s0 s -> QFr s0 (set_sm_can_resume v s).
Proof. intros v s0 s H; apply (QFr_trans _ _ _ H); destruct s; constructor; auto. Qed.
#[export] Hint Resolve QFr_set_sm_can_resume : qfrdb.
Lemma QFr_set_sm_resume : forall v s0 s, QFr s0 s -> QFr s0 (set_sm_resume v s).
Proof. intros v s0 s H; apply (QFr_trans _ _ _ H); destruct s; constructor; auto. Qed.
#[export] Hint Resolve QFr_set_sm_resume : qfrdb.
Lemma QFr_set_sm_dont_request : forall v s0 s, QFr s0 s -> QFr s0 (set_sm_dont_request v s).
Proof. intros v s0 s H; apply (QFr_trans _ _ _ H); destruct s; constructor; auto. Qed.
#[export] Hint Resolve QFr_set_sm_dont_request : qfrdb.
Lemma QFr_set_sm_has_previd : forall v s0 s, QFr s0 s -> QFr s0 (set_sm_has_previd v s).
Proof. intros v s0 s H; apply (QFr_trans _ _ _ H); destruct s; constructor; auto. Qed.
#[export] Hint Resolve QFr_set_sm_has_previd : qfrdb.
Lemma QFr_set_sm_has_id : forall v s0 s, QFr s0 s -> QFr s0 (set_sm_has_id v s).
Proof. intros v s0 s H; apply (QFr_trans _ _ _ H); destruct s; constructor; auto. Qed.
#[export] Hint Resolve QFr_set_sm_has_id : qfrdb.
Lemma QFr_set_sm_parked : forall v s0 s, QFr s0 s -> QFr s0 (set_sm_parked v s).
Proof. intros v s0 s H; apply (QFr_trans _ _ _ H); destruct s; constructor; auto. Qed.
#[export] Hint Resolve QFr_set_sm_parked : qfrdb.
Lemma QFr_set_sm_r_sent : forall v s0 s, QFr s0 s -> QFr s0 (set_sm_r_sent v s).
Proof. intros v s0 s H; apply (QFr_trans _ _ _ H); destruct s; constructor; auto. Qed.
#[export] Hint Resolve QFr_set_sm_r_sent : qfrdb.
Lemma QFr_set_sm_bind_saved : forall v s0 s, QFr s0 s -> QFr s0 (set_sm_bind_saved v s).
Proof. intros v s0 s H; apply (QFr_trans _ _ _ H); destruct s; constructor; auto. Qed.
#[export] Hint Resolve QFr_set_sm_bind_saved : qfrdb.
Lemma QFr_set_bound_jid : forall v s0 s, QFr s0 s -> QFr s0 (set_bound_jid v s).
Proof. intros v s0 s H; apply (QFr_trans _ _ _ H); destruct s; constructor; auto. Qed.
#[export] Hint Resolve QFr_set_bound_jid : qfrdb.
Lemma QFr_set_stream_id : forall v s0 s, QFr s0 s -> QFr s0 (set_stream_id v s).
Proof. intros v s0 s H; apply (QFr_trans _ _ _ H); destruct s; constructor; auto. Qed.
#[export] Hint Resolve QFr_set_stream_id : qfrdb.
Lemma QFr_set_neg_done : forall v s0 s, QFr s0 s -> QFr s0 (set_neg_done v s).
Proof. intros v s0 s H; apply (QFr_trans _ _ _ H); destruct s; constructor; auto. Qed.
#[export] Hint Resolve QFr_set_neg_done : qfrdb.
Lemma QFr_set_timed : forall v s0 s, QFr s0 s -> QFr s0 (set_timed v s).
Proof. intros v s0 s H; apply (QFr_trans _ _ _ H); destruct s; constructor; auto. Qed.
#[export] Hint Resolve QFr_set_timed : qfrdb.
Lemma QFr_set_sendq : forall v s0 s, QFr s0 s -> QFr s0 (set_sendq v s).
Proof. intros v s0 s H; apply (QFr_trans _ _ _ H); destruct s; constructor; auto. Qed.
#[export] Hint Resolve QFr_set_sendq : qfrdb.
Lemma QFr_set_rxq : forall v s0 s, QFr s0 s -> QFr s0 (set_rxq v s).
Proof. intros v s0 s H; apply (QFr_trans _ _ _ H); destruct s; constructor; auto. Qed.
#[export] Hint Resolve QFr_set_rxq : qfrdb.
Lemma QFr_set_smq : forall v s0 s, QFr s0 s -> QFr s0 (set_smq v s).
Proof. intros v s0 s H; apply (QFr_trans _ _ _ H); destruct s; constructor; auto. Qed.
#[export] Hint Resolve QFr_set_smq : qfrdb.
Lemma QFr_set_sm_sent : forall v s0 s, QFr s0 s -> QFr s0 (set_sm_sent v s).
Proof. intros v s0 s H; apply (QFr_trans _ _ _ H); destruct s; constructor; auto. Qed.
#[export] Hint Resolve QFr_set_sm_sent : qfrdb.
Lemma QFr_set_scram_serial : forall v s0 s, QFr s0 s -> QFr s0 (set_scram_serial v s).
Proof. intros v s0 s H; apply (QFr_trans _ _ _ H); destruct s; constructor; auto. Qed.
#[export] Hint Resolve QFr_set_scram_serial : qfrdb.
Lemma QFr_set_crashed : forall v s0 s, QFr s0 s -> QFr s0 (set_crashed v s).
Proof. intros v s0 s H; apply (QFr_trans _ _ _ H); destruct s; constructor; auto. Qed.
#[export] Hint Resolve QFr_set_crashed : qfrdb.
Lemma QFr_set_gh : forall v s0 s, QFr s0 s -> QFr s0 (set_gh v s).
Proof. intros v s0 s H; apply (QFr_trans _ _ _ H); destruct s; constructor; auto. Qed.
#[export] Hint Resolve QFr_set_gh : qfrdb.
Lemma QFr_upg : forall f s0 s, QFr s0 s -> QFr s0 (upg f s).
Proof. intros f s0 s H; apply (QFr_trans _ _ _ H); destruct s; constructor; auto. Qed.
Lemma QFr_h_add : forall k s0 s, is_q k = false -> QFr s0 s -> QFr s0 (h_add k s).
Proof.
  intros k s0 s Q H. apply (QFr_trans _ _ _ H). unfold h_add. destruct (h_has k s); [apply QFr_refl|].
  constructor; auto. unfold qmarks. sproj. rewrite filter_length_app. cbn [filter fst]. rewrite Q. cbn. lia.
Qed.
Lemma QFr_id_add : forall k s0 s, idk_eqb IKBind k = false -> QFr s0 s -> QFr s0 (id_add k s).
Proof.
  intros k s0 s Q H. apply (QFr_trans _ _ _ H). constructor; try (unfold id_add; cases; reflexivity).
  rewrite id_has_id_add, Q, orb_false_r. auto.
Qed.
Lemma QFr_id_del : forall k s0 s, QFr s0 s -> QFr s0 (id_del k s).
Proof.
  intros k s0 s H. apply (QFr_trans _ _ _ H). constructor; try reflexivity.
  rewrite id_has_id_del. intros E. apply andb_prop in E. apply E.
Qed.
#[export] Hint Resolve QFr_upg QFr_id_del : qfrdb.
#[export] Hint Extern 1 (QFr _ (h_add _ _)) => (apply QFr_h_add; [reflexivity | ]) : qfrdb.
#[export] Hint Extern 1 (QFr _ (id_add _ _)) => (apply QFr_id_add; [reflexivity | ]) : qfrdb.
Lemma QFr_HFr : forall s0 s s', QFr s0 s -> HFr s s' -> QFr s0 s'.
Proof.
  intros s0 s s' H F. apply (QFr_trans _ _ _ H). destruct (HFr_obs _ _ F) as (_ & _ & _ & E1 & _ & _ & E2). destruct F.
  constructor; auto. rewrite E2. auto.
Qed.
Lemma QFr_q_append : forall w u sm s0 s, QFr s0 s -> QFr s0 (q_append w u sm s).
Proof. intros; unfold q_append, ret; cases; leaf; eauto 30 with qfrdb. Qed.
#[export] Hint Resolve QFr_q_append : qfrdb.
Lemma QFr_send_gated : forall w u sm s0 s, QFr s0 s -> QFr s0 (send_gated w u sm s).
Proof. intros; unfold send_gated, ret; cases; leaf; eauto 30 with qfrdb. Qed.
#[export] Hint Resolve QFr_send_gated : qfrdb.
Lemma QFr_send_raw_m : forall w u sm s0 s, QFr s0 s -> QFr s0 (send_raw_m w u sm s).
Proof. intros; unfold send_raw_m, ret; cases; leaf; eauto 30 with qfrdb. Qed.
#[export] Hint Resolve QFr_send_raw_m : qfrdb.
Lemma QFr_timed_add : forall k n s0 s, QFr s0 s -> QFr s0 (timed_add k n s).
Proof. intros; unfold timed_add, ret; cases; leaf; eauto 30 with qfrdb. Qed.
#[export] Hint Resolve QFr_timed_add : qfrdb.
Lemma QFr_timed_del : forall k s0 s, QFr s0 s -> QFr s0 (timed_del k s).
Proof. intros; unfold timed_del, ret; cases; leaf; eauto 30 with qfrdb. Qed.
#[export] Hint Resolve QFr_timed_del : qfrdb.
Lemma QFr_timed_reset_all : forall n s0 s, QFr s0 s -> QFr s0 (timed_reset_all n s).
Proof. intros; unfold timed_reset_all, ret; cases; leaf; eauto 30 with qfrdb. Qed.
#[export] Hint Resolve QFr_timed_reset_all : qfrdb.
Lemma QFr_timed_set_stamp : forall k n s0 s, QFr s0 s -> QFr s0 (timed_set_stamp k n s).
Proof. intros; unfold timed_set_stamp, ret; cases; leaf; eauto 30 with qfrdb. Qed.
#[export] Hint Resolve QFr_timed_set_stamp : qfrdb.
Lemma QFr_reset_sm_for_reconnect : forall s0 s, QFr s0 s -> QFr s0 (reset_sm_for_reconnect s).
Proof. intros; unfold reset_sm_for_reconnect, ret; cases; leaf; eauto 30 with qfrdb. Qed.
#[export] Hint Resolve QFr_reset_sm_for_reconnect : qfrdb.
Lemma QFr_sm_queue_cleanup : forall h s0 s, QFr s0 s -> QFr s0 (sm_queue_cleanup h s).
Proof. intros; unfold sm_queue_cleanup, ret; cases; leaf; eauto 30 with qfrdb. Qed.
#[export] Hint Resolve QFr_sm_queue_cleanup : qfrdb.
Lemma QFr_sm_queue_resend : forall s0 s, QFr s0 s -> QFr s0 (sm_queue_resend s).
Proof. intros; unfold sm_queue_resend; apply fold_left_inv; eauto with qfrdb. Qed.
#[export] Hint Resolve QFr_sm_queue_resend : qfrdb.
Lemma QFr_conn_disconnect : forall s0 s, QFr s0 s -> QFr s0 (fst (conn_disconnect s)).
Proof. intros; name_result; unfold conn_disconnect, ret; cases; leaf; eauto 30 with qfrdb. Qed.
#[export] Hint Resolve QFr_conn_disconnect : qfrdb.
Lemma QFr_xmpp_disconnect : forall n s0 s, QFr s0 s -> QFr s0 (xmpp_disconnect n s).
Proof. intros; unfold xmpp_disconnect, ret; cases; leaf; eauto 30 with qfrdb. Qed.
#[export] Hint Resolve QFr_xmpp_disconnect : qfrdb.
Lemma QFr_conn_open_stream : forall s0 s, QFr s0 s -> QFr s0 (conn_open_stream s).
Proof. intros; unfold conn_open_stream, ret; cases; leaf; eauto 30 with qfrdb. Qed.
#[export] Hint Resolve QFr_conn_open_stream : qfrdb.
Lemma QFr_stream_negotiation_success : forall s0 s, QFr s0 s -> QFr s0 (fst (stream_negotiation_success s)).
Proof. intros; name_result; unfold stream_negotiation_success, ret; cases; leaf; eauto 30 with qfrdb. Qed.
#[export] Hint Resolve QFr_stream_negotiation_success : qfrdb.
Lemma QFr_session_start : forall n s0 s, QFr s0 s -> QFr s0 (session_start n s).
Proof. intros; unfold session_start, ret; cases; leaf; eauto 30 with qfrdb. Qed.
#[export] Hint Resolve QFr_session_start : qfrdb.
Lemma QFr_sm_enable : forall s0 s, QFr s0 s -> QFr s0 (sm_enable s).
Proof. intros; unfold sm_enable, ret; cases; leaf; eauto 30 with qfrdb. Qed.
#[export] Hint Resolve QFr_sm_enable : qfrdb.
Lemma QFr_note_rx : forall e s0 s, QFr s0 s -> QFr s0 (note_rx e s).
Proof. intros; unfold note_rx; cbv zeta; eauto with qfrdb. Qed.
#[export] Hint Resolve QFr_note_rx : qfrdb.
Lemma QFr_sm_handle : forall e s0 s, QFr s0 s -> QFr s0 (sm_handle e s).
Proof. intros; unfold sm_handle, ret; cases; leaf; eauto 30 with qfrdb. Qed.
#[export] Hint Resolve QFr_sm_handle : qfrdb.
Lemma QFr_call_id_handler : forall k n e s0 s, QFr s0 s -> QFr s0 (fst (call_id_handler k n e s)).
Proof. intros k; destruct k; intros; name_result; unfold call_id_handler, ret; cases; leaf; eauto 30 with qfrdb. Qed.

(* (the user's id handler, IKUser, is no part of the negotiation: it may be registered at any time) *)
Lemma Dead_no_id : forall k s, is_user_id k = false -> Dead s -> id_has k s = false.
Proof.
  intros k s U (A & B & C & D). destruct (id_has k s) eqn:E; auto. destruct k; try congruence; try discriminate U;
    match type of E with id_has ?k' _ = _ => pose proof (imarks_pos k' s eq_refl E) end; lia.
Qed.
Lemma idk_eqb_refl : forall k, idk_eqb k k = true. Proof. destruct k; reflexivity. Qed.
Lemma MT_id_del : forall k s, MT s -> MT (id_del k s).
Proof. intros k s [C|P]; [left; unfold id_del; eauto with csdb | right; eauto with pldb]. Qed.

Lemma imarks_pos_l : forall k (l : list (idk * bool)), is_main_id k = true ->
  existsb (fun x => idk_eqb k (fst x)) l = true -> (1 <= List.length (filter (fun x => is_main_id (fst x)) l))%nat.
Proof.
  intros k l M. induction l as [|x l IH]; cbn; [discriminate|].
  destruct (idk_eqb k (fst x)) eqn:E; [assert (k = fst x) by (destruct k, (fst x); cbn in E; congruence); subst k; rewrite M; cbn; lia|].
  cbn [orb]. intros Hl. specialize (IH Hl). destruct (is_main_id (fst x)); cbn; lia.
Qed.
Lemma imarks_two : forall s, id_has IKBind s = true -> id_has IKSession s = true -> (2 <= imarks s)%nat.
Proof.
  intros s. unfold id_has, imarks. induction (idhandlers s) as [|x l IH]; cbn; [discriminate|].
  destruct (fst x); cbn; intros A B.
  - pose proof (imarks_pos_l IKSession l eq_refl B). lia.
  - pose proof (imarks_pos_l IKBind l eq_refl A). lia.
  - auto.
  - auto.
Qed.
Lemma PH_id_step : forall k n e s, is_user_id k = false -> PH s -> DL s -> id_has k s = true ->
  PH (id_del k (fst (call_id_handler k n e s))) /\ DL (id_del k (fst (call_id_handler k n e s))).
Proof.
  intros k n e s Uk P L Hk.
  assert (D : st s <> Disconnected).
  { intros D. rewrite (Dead_no_id k s Uk (L D)) in Hk. discriminate. }
  pose proof (StEq_call_id_handler k n e s s (StEq_refl s)) as E. unfold StEq in E.
  set (s1 := fst (call_id_handler k n e s)) in *.
  assert (D' : st (id_del k s1) <> Disconnected) by (change (st (id_del k s1)) with (st s1); congruence).
  split; [constructor | intros X; congruence].
  - unfold id_del. apply TI_set_idhandlers. apply TI_call_id_handler, P.
  - pose proof (Bd_call_id_handler k n e 0 s s (Bd_refl s)) as B. fold s1 in B.
    pose proof (marks_id_del k s1) as M. rewrite (id_has_Bd _ _ _ k B Hk), andb_true_r in M.
    pose proof (bd_marks _ _ _ B) as BM. pose proof (ph_amo _ P). lia.
  - unfold id_del. apply T01_set_idhandlers. apply T01_call_id_handler, P.
  - apply MT_id_del. apply (MT_of (fun x => fst (call_id_handler k n e x))); [apply CS_call_id_handler | apply PL_call_id_handler | apply P].
  - apply SmOff_live. exact D'.
  - (* stream management is switched on from the bind / session result only *)
    pose proof (QFr_call_id_handler k n e s s (QFr_refl s)) as Q. fold s1 in Q.
    intros En. change (sm_enabled (id_del k s1)) with (sm_enabled s1) in En.
    assert (Base : qmarks s = 0%nat /\ pending s = 0%nat /\ (id_has IKBind s = true -> k = IKBind)).
    { destruct (is_main_id k) eqn:M.
      - pose proof (imarks_pos k s M Hk). pose proof (ph_amo _ P) as AM. pose proof (hmarks_split s). unfold marks in AM.
        repeat split; try lia. intros B. destruct k; auto; try discriminate.
        pose proof (imarks_two s B Hk). lia.
      - assert (k = IKLegacy) by (destruct k; try discriminate; reflexivity). subst k.
        assert (En0 : sm_enabled s = true).
        { revert En. clear. unfold s1. name_result. unfold call_id_handler, ret. cases; leaf;
            match goal with En : sm_enabled ?x = true |- sm_enabled ?s = true =>
              let Sx := fresh in assert (Sx : Sn s x) by eauto 30 with sndb; exact (Sx En) end. }
        destruct (ph_se _ P En0) as (A & B & C). repeat split; auto. congruence. }
    destruct Base as (B1 & B2 & B3).
    pose proof (qfr_q _ _ Q) as Q1. pose proof (qfr_oh _ _ Q) as Q2. pose proof (qfr_rp _ _ Q) as Q3.
    pose proof (qfr_ps _ _ Q) as Q4. pose proof (qfr_bind _ _ Q) as Q5.
    assert (pending (id_del k s1) = pending s1) as -> by reflexivity.
    assert (qmarks (id_del k s1) = qmarks s1) as -> by reflexivity.
    unfold pending. rewrite Q1, Q2, Q3, Q4. fold (pending s). repeat split; auto.
    rewrite id_has_id_del. destruct (id_has IKBind s1) eqn:E1; auto.
    rewrite (B3 (Q5 eq_refl)). reflexivity.
  - apply T25_live. exact D'.
Qed.

Lemma qmarks_enable_all : forall s, qmarks (set_handlers (map (fun x => (fst x, true)) (handlers s)) s) = qmarks s.
Proof.
  intros. unfold qmarks. sproj. induction (handlers s) as [|x l IH]; [reflexivity|]. cbn [map filter fst].
  destruct (is_q (fst x)); cbn [List.length]; rewrite IH; reflexivity.
Qed.
Lemma PH_enable_all : forall s, PH s -> PH (set_handlers (map (fun x => (fst x, true)) (handlers s)) s).
Proof.
  intros s P. constructor.
  - apply TI_enable_all, P.
  - rewrite marks_enable_all. apply P.
  - apply T01_enable_all, P.
  - destruct (ph_mt _ P) as [C|Q]; [left; apply CS_set_handlers; exact C | right; apply PL_enable_all; exact Q].
  - apply SmOff_set_handlers, P.
  - intros En. destruct (ph_se _ P En) as (A & B & C). rewrite qmarks_enable_all. repeat split; assumption.
  - apply T25_set_handlers, P.
Qed.
Lemma DL_enable_all : forall s, DL s -> DL (set_handlers (map (fun x => (fst x, true)) (handlers s)) s).
Proof.
  intros s L D. destruct (L D) as (A & B & C & E). unfold Dead. rewrite hmarks_enable_all, h_has_enable_all. repeat split; assumption.
Qed.
Lemma PH_set_crashed : forall v s, PH s -> PH (set_crashed v s).
Proof.
  intros v s P. apply (PH_neutral s); [eauto with hfrdb | apply TI_set_crashed, P | apply T01_set_crashed, P
    | apply (MT_of (set_crashed v)); [apply CS_set_crashed | apply PL_set_crashed | apply P]
    | apply SmOff_set_crashed, P | apply Sn_set_crashed, Sn_refl | apply T25_set_crashed, P | exact P].
Qed.
Lemma PH_sm_handle : forall e s, PH s -> PH (sm_handle e s).
Proof.
  intros e s P. apply (PH_neutral s); [apply HFr_sm_handle, HFr_refl | apply TI_sm_handle, P | apply T01_sm_handle, P
    | apply (MT_of (sm_handle e)); [apply CS_sm_handle | apply PL_sm_handle | apply P]
    | apply SmOff_sm_handle, P | apply Sn_sm_handle, Sn_refl | apply T25_sm_handle, P | exact P].
Qed.
Lemma DL_sm_handle : forall e s, DL s -> DL (sm_handle e s).
Proof. intros e s L. apply (DL_neutral s); auto. apply HFr_sm_handle, HFr_refl. apply (StEq_sm_handle e s s (StEq_refl s)). Qed.
Lemma DL_note_rx : forall e s, DL s -> DL (note_rx e s).
Proof. intros e s L. apply (DL_neutral s); auto. apply HFr_note_rx, HFr_refl. Qed.
Lemma DL_set_crashed : forall v s, DL s -> DL (set_crashed v s).
Proof. intros v s L. apply (DL_neutral s); auto. eauto with hfrdb. Qed.

Lemma PH_dispatch : forall n e s, PH s -> DL s -> PH (fst (dispatch n e s)) /\ DL (fst (dispatch n e s)).
Proof.
  intros n e s0 P0 L0. unfold dispatch.
  pose proof (PH_note_rx e s0 P0) as P1. pose proof (DL_note_rx e s0 L0) as L1.
  generalize dependent (note_rx e s0). clear s0 P0 L0. intros s P1 L1.
  destruct (negb (sm_alloc s)); [cbn [fst]; auto using PH_set_crashed, DL_set_crashed|].
  pose proof (PH_enable_all s P1) as P2. pose proof (DL_enable_all s L1) as L2.
  generalize dependent (set_handlers (map (fun x : hkind * bool => (fst x, true)) (handlers s)) s). clear s P1 L1. intros s P2 L2.
  cbv zeta.
  match goal with |- context [let '(s1, o1) := ?r in _] => assert (R : PH (fst r) /\ DL (fst r)) end.
  { destruct (idk_of (e_id e)) as [k|]; [|cbn; auto]. destruct (id_has k s) eqn:Hk; [|cbn; auto].
    destruct (is_user_id k) eqn:Uk; cbn [andb].
    { (* the user's id handler leaves the state alone *)
      destruct k; try discriminate Uk. destruct (negb (neg_done s)); cbn; auto. }
    pose proof (PH_id_step k n e s Uk P2 L2 Hk) as T. destruct (call_id_handler k n e s) as [s1 o1]. cbn [fst] in *. exact T. }
  match goal with |- context [let '(s1, o1) := ?r in _] => destruct r as [s1 o1] end. cbn [fst] in R. destruct R as [P3 L3].
  pose proof (PH_fold_visit n e (map fst (filter (fun x => snd x) (handlers s1))) s1 o1 P3 L3) as [P4 L4].
  destruct (fold_left (visit n e) (map fst (filter (fun x => snd x) (handlers s1))) (s1, o1)) as [s3 o3]. cbn [fst] in *.
  destruct (crashed s3); [cbn; auto|]. destruct (sm_enabled s3); cbn [fst]; auto using PH_sm_handle, DL_sm_handle.
Qed.

(* PsEq: only the parser layer moves the parser state *)
Definition PsEq (s0 s : state) : Prop := ps s = ps s0.
Lemma PsEq_refl : forall s, PsEq s s. Proof. reflexivity. Qed.
#[export] Hint Resolve PsEq_refl : pseqdb.
Lemma PsEq_set_f_tls_disabled : forall v s0 s, PsEq s0 s -> PsEq s0 (set_f_tls_disabled v s).
Proof. intros v s0 []; exact (fun h => h). Qed.
#[export] Hint Resolve PsEq_set_f_tls_disabled : pseqdb.
Lemma PsEq_set_f_tls_mandatory : forall v s0 s, PsEq s0 s -> PsEq s0 (set_f_tls_mandatory v s).
Proof. intros v s0 []; exact (fun h => h). Qed.
#[export] Hint Resolve PsEq_set_f_tls_mandatory : pseqdb.
Lemma PsEq_set_f_legacy_ssl : forall v s0 s, PsEq s0 s -> PsEq s0 (set_f_legacy_ssl v s).
Proof. intros v s0 []; exact (fun h => h). Qed.
#[export] Hint Resolve PsEq_set_f_legacy_ssl : pseqdb.
Lemma PsEq_set_f_tls_trust : forall v s0 s, PsEq s0 s -> PsEq s0 (set_f_tls_trust v s).
Proof. intros v s0 []; exact (fun h => h). Qed.
#[export] Hint Resolve PsEq_set_f_tls_trust : pseqdb.
Lemma PsEq_set_f_legacy_auth : forall v s0 s, PsEq s0 s -> PsEq s0 (set_f_legacy_auth v s).
Proof. intros v s0 []; exact (fun h => h). Qed.
#[export] Hint Resolve PsEq_set_f_legacy_auth : pseqdb.
Lemma PsEq_set_f_sm_disable : forall v s0 s, PsEq s0 s -> PsEq s0 (set_f_sm_disable v s).
Proof. intros v s0 []; exact (fun h => h). Qed.
#[export] Hint Resolve PsEq_set_f_sm_disable : pseqdb.
Lemma PsEq_set_f_comp_allowed : forall v s0 s, PsEq s0 s -> PsEq s0 (set_f_comp_allowed v s).
Proof. intros v s0 []; exact (fun h => h). Qed.
#[export] Hint Resolve PsEq_set_f_comp_allowed : pseqdb.
Lemma PsEq_set_f_comp_dont_reset : forall v s0 s, PsEq s0 s -> PsEq s0 (set_f_comp_dont_reset v s).
Proof. intros v s0 []; exact (fun h => h). Qed.
#[export] Hint Resolve PsEq_set_f_comp_dont_reset : pseqdb.
Lemma PsEq_set_jid_set : forall v s0 s, PsEq s0 s -> PsEq s0 (set_jid_set v s).
Proof. intros v s0 []; exact (fun h => h). Qed.
#[export] Hint Resolve PsEq_set_jid_set : pseqdb.
Lemma PsEq_set_jid_node : forall v s0 s, PsEq s0 s -> PsEq s0 (set_jid_node v s).
Proof. intros v s0 []; exact (fun h => h). Qed.
#[export] Hint Resolve PsEq_set_jid_node : pseqdb.
Lemma PsEq_set_jid_res : forall v s0 s, PsEq s0 s -> PsEq s0 (set_jid_res v s).
Proof. intros v s0 []; exact (fun h => h). Qed.
#[export] Hint Resolve PsEq_set_jid_res : pseqdb.
Lemma PsEq_set_pass_set : forall v s0 s, PsEq s0 s -> PsEq s0 (set_pass_set v s).
Proof. intros v s0 []; exact (fun h => h). Qed.
#[export] Hint Resolve PsEq_set_pass_set : pseqdb.
Lemma PsEq_set_cert_set : forall v s0 s, PsEq s0 s -> PsEq s0 (set_cert_set v s).
Proof. intros v s0 []; exact (fun h => h). Qed.
#[export] Hint Resolve PsEq_set_cert_set : pseqdb.
Lemma PsEq_set_is_raw : forall v s0 s, PsEq s0 s -> PsEq s0 (set_is_raw v s).
Proof. intros v s0 []; exact (fun h => h). Qed.
#[export] Hint Resolve PsEq_set_is_raw : pseqdb.
Lemma PsEq_set_typ : forall v s0 s, PsEq s0 s -> PsEq s0 (set_typ v s).
Proof. intros v s0 []; exact (fun h => h). Qed.
#[export] Hint Resolve PsEq_set_typ : pseqdb.
Lemma PsEq_set_user_handler : forall v s0 s, PsEq s0 s -> PsEq s0 (set_user_handler v s).
Proof. intros v s0 []; exact (fun h => h). Qed.
#[export] Hint Resolve PsEq_set_user_handler : pseqdb.
Lemma PsEq_set_user_timed : forall v s0 s, PsEq s0 s -> PsEq s0 (set_user_timed v s).
Proof. intros v s0 []; exact (fun h => h). Qed.
#[export] Hint Resolve PsEq_set_user_timed : pseqdb.
Lemma PsEq_set_tlsnew_ok : forall v s0 s, PsEq s0 s -> PsEq s0 (set_tlsnew_ok v s).
Proof. intros v s0 []; exact (fun h => h). Qed.
#[export] Hint Resolve PsEq_set_tlsnew_ok : pseqdb.
Lemma PsEq_set_cb_avail : forall v s0 s, PsEq s0 s -> PsEq s0 (set_cb_avail v s).
Proof. intros v s0 []; exact (fun h => h). Qed.
#[export] Hint Resolve PsEq_set_cb_avail : pseqdb.
Lemma PsEq_set_tls_verdicts : forall v s0 s, PsEq s0 s -> PsEq s0 (set_tls_verdicts v s).
Proof. intros v s0 []; exact (fun h => h). Qed.
#[export] Hint Resolve PsEq_set_tls_verdicts : pseqdb.
Lemma PsEq_set_next_cands : forall v s0 s, PsEq s0 s -> PsEq s0 (set_next_cands v s).
Proof. intros v s0 []; exact (fun h => h). Qed.
#[export] Hint Resolve PsEq_set_next_cands : pseqdb.
Lemma PsEq_set_cands : forall v s0 s, PsEq s0 s -> PsEq s0 (set_cands v s).
Proof. intros v s0 []; exact (fun h => h). Qed.
#[export] Hint Resolve PsEq_set_cands : pseqdb.
Lemma PsEq_set_cur_ep : forall v s0 s, PsEq s0 s -> PsEq s0 (set_cur_ep v s).
Proof. intros v s0 []; exact (fun h => h). Qed.
#[export] Hint Resolve PsEq_set_cur_ep : pseqdb.
Lemma PsEq_set_st : forall v s0 s, PsEq s0 s -> PsEq s0 (set_st v s).
Proof. intros v s0 []; exact (fun h => h). Qed.
#[export] Hint Resolve PsEq_set_st : pseqdb.
Lemma PsEq_set_stamp : forall v s0 s, PsEq s0 s -> PsEq s0 (set_stamp v s).
Proof. intros v s0 []; exact (fun h => h). Qed.
#[export] Hint Resolve PsEq_set_stamp : pseqdb.
Lemma PsEq_set_err : forall v s0 s, PsEq s0 s -> PsEq s0 (set_err v s).
Proof. intros v s0 []; exact (fun h => h). Qed.
#[export] Hint Resolve PsEq_set_err : pseqdb.
Lemma PsEq_set_stream_error : forall v s0 s, PsEq s0 s -> PsEq s0 (set_stream_error v s).
Proof. intros v s0 []; exact (fun h => h). Qed.
#[export] Hint Resolve PsEq_set_stream_error : pseqdb.
Lemma PsEq_set_secured : forall v s0 s, PsEq s0 s -> PsEq s0 (set_secured v s).
Proof. intros v s0 []; exact (fun h => h). Qed.
#[export] Hint Resolve PsEq_set_secured : pseqdb.
Lemma PsEq_set_tls_present : forall v s0 s, PsEq s0 s -> PsEq s0 (set_tls_present v s).
Proof. intros v s0 []; exact (fun h => h). Qed.
#[export] Hint Resolve PsEq_set_tls_present : pseqdb.
Lemma PsEq_set_tls_failed : forall v s0 s, PsEq s0 s -> PsEq s0 (set_tls_failed v s).
Proof. intros v s0 []; exact (fun h => h). Qed.
#[export] Hint Resolve PsEq_set_tls_failed : pseqdb.
Lemma PsEq_set_tls_support : forall v s0 s, PsEq s0 s -> PsEq s0 (set_tls_support v s).
Proof. intros v s0 []; exact (fun h => h). Qed.
#[export] Hint Resolve PsEq_set_tls_support : pseqdb.
Lemma PsEq_set_sasl : forall v s0 s, PsEq s0 s -> PsEq s0 (set_sasl v s).
Proof. intros v s0 []; exact (fun h => h). Qed.
#[export] Hint Resolve PsEq_set_sasl : pseqdb.
Lemma PsEq_set_bind_required : forall v s0 s, PsEq s0 s -> PsEq s0 (set_bind_required v s).
Proof. intros v s0 []; exact (fun h => h). Qed.
#[export] Hint Resolve PsEq_set_bind_required : pseqdb.
Lemma PsEq_set_session_required : forall v s0 s, PsEq s0 s -> PsEq s0 (set_session_required v s).
Proof. intros v s0 []; exact (fun h => h). Qed.
#[export] Hint Resolve PsEq_set_session_required : pseqdb.
Lemma PsEq_set_comp_supported : forall v s0 s, PsEq s0 s -> PsEq s0 (set_comp_supported v s).
Proof. intros v s0 []; exact (fun h => h). Qed.
#[export] Hint Resolve PsEq_set_comp_supported : pseqdb.
Lemma PsEq_set_comp_active : forall v s0 s, PsEq s0 s -> PsEq s0 (set_comp_active v s).
Proof. intros v s0 []; exact (fun h => h). Qed.
#[export] Hint Resolve PsEq_set_comp_active : pseqdb.
Lemma PsEq_set_sm_alloc : forall v s0 s, PsEq s0 s -> PsEq s0 (set_sm_alloc v s).
Proof. intros v s0 []; exact (fun h => h). Qed.
#[export] Hint Resolve PsEq_set_sm_alloc : pseqdb.
Lemma PsEq_set_sm_support : forall v s0 s, PsEq s0 s -> PsEq s0 (set_sm_support v s).
Proof. intros v s0 []; exact (fun h => h). Qed.
#[export] Hint Resolve PsEq_set_sm_support : pseqdb.
Lemma PsEq_set_sm_enabled : forall v s0 s, PsEq s0 s -> PsEq s0 (set_sm_enabled v s).
Proof. intros v s0 []; exact (fun h => h). Qed.
#[export] Hint Resolve PsEq_set_sm_enabled : pseqdb.
Lemma PsEq_set_sm_can_resume : forall v s0 s, PsEq s0 s -> PsEq s0 (set_sm_can_resume v s).
Proof. intros v s0 []; exact (fun h => h). Qed.
#[export] Hint Resolve PsEq_set_sm_can_resume : pseqdb.
Lemma PsEq_set_sm_resume : forall v s0 s, PsEq s0 s -> PsEq s0 (set_sm_resume v s).
Proof. intros v s0 []; exact (fun h => h). Qed.
#[export] Hint Resolve PsEq_set_sm_resume : pseqdb.
Lemma PsEq_set_sm_dont_request : forall v s0 s, PsEq s0 s -> PsEq s0 (set_sm_dont_request v s).
Proof. intros v s0 []; exact (fun h => h). Qed.
#[export] Hint Resolve PsEq_set_sm_dont_request : pseqdb.
Lemma PsEq_set_sm_has_previd : forall v s0 s, PsEq s0 s -> PsEq s0 (set_sm_has_previd v s).
Proof. intros v s0 []; exact (fun h => h). Qed.
#[export] Hint Resolve PsEq_set_sm_has_previd : pseqdb.
Lemma PsEq_set_sm_has_id : forall v s0 s, PsEq s0 s -> PsEq s0 (set_sm_has_id v s).
Proof. intros v s0 []; exact (fun h => h). Qed.
#[export] Hint Resolve PsEq_set_sm_has_id : pseqdb.
Lemma PsEq_set_sm_parked : forall v s0 s, PsEq s0 s -> PsEq s0 (set_sm_parked v s).
Proof. intros v s0 []; exact (fun h => h). Qed.
#[export] Hint Resolve PsEq_set_sm_parked : pseqdb.
Lemma PsEq_set_sm_r_sent : forall v s0 s, PsEq s0 s -> PsEq s0 (set_sm_r_sent v s).
Proof. intros v s0 []; exact (fun h => h). Qed.
#[export] Hint Resolve PsEq_set_sm_r_sent : pseqdb.
Lemma PsEq_set_sm_bind_saved : forall v s0 s, PsEq s0 s -> PsEq s0 (set_sm_bind_saved v s).
Proof. intros v s0 []; exact (fun h => h). Qed.
#[export] Hint Resolve PsEq_set_sm_bind_saved : pseqdb.
Lemma PsEq_set_bound_jid : forall v s0 s, PsEq s0 s -> PsEq s0 (set_bound_jid v s).
Proof. intros v s0 []; exact (fun h => h). Qed.
#[export] Hint Resolve PsEq_set_bound_jid : pseqdb.
Lemma PsEq_set_stream_id : forall v s0 s, PsEq s0 s -> PsEq s0 (set_stream_id v s).
Proof. intros v s0 []; exact (fun h => h). Qed.
#[export] Hint Resolve PsEq_set_stream_id : pseqdb.
Lemma PsEq_set_neg_done : forall v s0 s, PsEq s0 s -> PsEq s0 (set_neg_done v s).
Proof. intros v s0 []; exact (fun h => h). Qed.
#[export] Hint Resolve PsEq_set_neg_done : pseqdb.
Lemma PsEq_set_reset_parser : forall v s0 s, PsEq s0 s -> PsEq s0 (set_reset_parser v s).
Proof. intros v s0 []; exact (fun h => h). Qed.
#[export] Hint Resolve PsEq_set_reset_parser : pseqdb.
Lemma PsEq_set_oh : forall v s0 s, PsEq s0 s -> PsEq s0 (set_oh v s).
Proof. intros v s0 []; exact (fun h => h). Qed.
#[export] Hint Resolve PsEq_set_oh : pseqdb.
Lemma PsEq_set_handlers : forall v s0 s, PsEq s0 s -> PsEq s0 (set_handlers v s).
Proof. intros v s0 []; exact (fun h => h). Qed.
#[export] Hint Resolve PsEq_set_handlers : pseqdb.
Lemma PsEq_set_idhandlers : forall v s0 s, PsEq s0 s -> PsEq s0 (set_idhandlers v s).
Proof. intros v s0 []; exact (fun h => h). Qed.
#[export] Hint Resolve PsEq_set_idhandlers : pseqdb.
Lemma PsEq_set_timed : forall v s0 s, PsEq s0 s -> PsEq s0 (set_timed v s).
Proof. intros v s0 []; exact (fun h => h). Qed.
#[export] Hint Resolve PsEq_set_timed : pseqdb.
Lemma PsEq_set_sendq : forall v s0 s, PsEq s0 s -> PsEq s0 (set_sendq v s).
Proof. intros v s0 []; exact (fun h => h). Qed.
#[export] Hint Resolve PsEq_set_sendq : pseqdb.
Lemma PsEq_set_rxq : forall v s0 s, PsEq s0 s -> PsEq s0 (set_rxq v s).
Proof. intros v s0 []; exact (fun h => h). Qed.
#[export] Hint Resolve PsEq_set_rxq : pseqdb.
Lemma PsEq_set_smq : forall v s0 s, PsEq s0 s -> PsEq s0 (set_smq v s).
Proof. intros v s0 []; exact (fun h => h). Qed.
#[export] Hint Resolve PsEq_set_smq : pseqdb.
Lemma PsEq_set_sm_sent : forall v s0 s, PsEq s0 s -> PsEq s0 (set_sm_sent v s).
Proof. intros v s0 []; exact (fun h => h). Qed.
#[export] Hint Resolve PsEq_set_sm_sent : pseqdb.
Lemma PsEq_set_scram_serial : forall v s0 s, PsEq s0 s -> PsEq s0 (set_scram_serial v s).
Proof. intros v s0 []; exact (fun h => h). Qed.
#[export] Hint Resolve PsEq_set_scram_serial : pseqdb.
Lemma PsEq_set_crashed : forall v s0 s, PsEq s0 s -> PsEq s0 (set_crashed v s).
Proof. intros v s0 []; exact (fun h => h). Qed.
#[export] Hint Resolve PsEq_set_crashed : pseqdb.
Lemma PsEq_set_gh : forall v s0 s, PsEq s0 s -> PsEq s0 (set_gh v s).
Proof. intros v s0 []; exact (fun h => h). Qed.
#[export] Hint Resolve PsEq_set_gh : pseqdb.
Lemma PsEq_upg : forall f s0 s, PsEq s0 s -> PsEq s0 (upg f s).
Proof. intros f s0 []; exact (fun h => h). Qed.
#[export] Hint Resolve PsEq_upg : pseqdb.
Lemma PsEq_q_append : forall w u sm s0 s, PsEq s0 s -> PsEq s0 (q_append w u sm s).
Proof. intros; unfold q_append, ret; cases; leaf; eauto 30 with pseqdb. Qed.
#[export] Hint Resolve PsEq_q_append : pseqdb.
Lemma PsEq_send_gated : forall w u sm s0 s, PsEq s0 s -> PsEq s0 (send_gated w u sm s).
Proof. intros; unfold send_gated, ret; cases; leaf; eauto 30 with pseqdb. Qed.
#[export] Hint Resolve PsEq_send_gated : pseqdb.
Lemma PsEq_send_raw_m : forall w u sm s0 s, PsEq s0 s -> PsEq s0 (send_raw_m w u sm s).
Proof. intros; unfold send_raw_m, ret; cases; leaf; eauto 30 with pseqdb. Qed.
#[export] Hint Resolve PsEq_send_raw_m : pseqdb.
Lemma PsEq_timed_add : forall k n s0 s, PsEq s0 s -> PsEq s0 (timed_add k n s).
Proof. intros; unfold timed_add, ret; cases; leaf; eauto 30 with pseqdb. Qed.
#[export] Hint Resolve PsEq_timed_add : pseqdb.
Lemma PsEq_timed_del : forall k s0 s, PsEq s0 s -> PsEq s0 (timed_del k s).
Proof. intros; unfold timed_del, ret; cases; leaf; eauto 30 with pseqdb. Qed.
#[export] Hint Resolve PsEq_timed_del : pseqdb.
Lemma PsEq_timed_reset_all : forall n s0 s, PsEq s0 s -> PsEq s0 (timed_reset_all n s).
Proof. intros; unfold timed_reset_all, ret; cases; leaf; eauto 30 with pseqdb. Qed.
#[export] Hint Resolve PsEq_timed_reset_all : pseqdb.
Lemma PsEq_timed_set_stamp : forall k n s0 s, PsEq s0 s -> PsEq s0 (timed_set_stamp k n s).
Proof. intros; unfold timed_set_stamp, ret; cases; leaf; eauto 30 with pseqdb. Qed.
#[export] Hint Resolve PsEq_timed_set_stamp : pseqdb.
Lemma PsEq_h_add : forall k s0 s, PsEq s0 s -> PsEq s0 (h_add k s).
Proof. intros; unfold h_add, ret; cases; leaf; eauto 30 with pseqdb. Qed.
#[export] Hint Resolve PsEq_h_add : pseqdb.
Lemma PsEq_h_del : forall k s0 s, PsEq s0 s -> PsEq s0 (h_del k s).
Proof. intros; unfold h_del, ret; cases; leaf; eauto 30 with pseqdb. Qed.
#[export] Hint Resolve PsEq_h_del : pseqdb.
Lemma PsEq_id_add : forall k s0 s, PsEq s0 s -> PsEq s0 (id_add k s).
Proof. intros; unfold id_add, ret; cases; leaf; eauto 30 with pseqdb. Qed.
#[export] Hint Resolve PsEq_id_add : pseqdb.
Lemma PsEq_id_del : forall k s0 s, PsEq s0 s -> PsEq s0 (id_del k s).
Proof. intros; unfold id_del, ret; cases; leaf; eauto 30 with pseqdb. Qed.
#[export] Hint Resolve PsEq_id_del : pseqdb.
Lemma PsEq_reset_sm_for_reconnect : forall s0 s, PsEq s0 s -> PsEq s0 (reset_sm_for_reconnect s).
Proof. intros; unfold reset_sm_for_reconnect, ret; cases; leaf; eauto 30 with pseqdb. Qed.
#[export] Hint Resolve PsEq_reset_sm_for_reconnect : pseqdb.
Lemma PsEq_sm_queue_cleanup : forall h s0 s, PsEq s0 s -> PsEq s0 (sm_queue_cleanup h s).
Proof. intros; unfold sm_queue_cleanup, ret; cases; leaf; eauto 30 with pseqdb. Qed.
#[export] Hint Resolve PsEq_sm_queue_cleanup : pseqdb.
Lemma PsEq_sm_queue_resend : forall s0 s, PsEq s0 s -> PsEq s0 (sm_queue_resend s).
Proof. intros; unfold sm_queue_resend; apply fold_left_inv; eauto with pseqdb. Qed.
#[export] Hint Resolve PsEq_sm_queue_resend : pseqdb.
Lemma PsEq_conn_disconnect : forall s0 s, PsEq s0 s -> PsEq s0 (fst (conn_disconnect s)).
Proof. intros; name_result; unfold conn_disconnect, ret; cases; leaf; eauto 30 with pseqdb. Qed.
#[export] Hint Resolve PsEq_conn_disconnect : pseqdb.
Lemma PsEq_xmpp_disconnect : forall n s0 s, PsEq s0 s -> PsEq s0 (xmpp_disconnect n s).
Proof. intros; unfold xmpp_disconnect, ret; cases; leaf; eauto 30 with pseqdb. Qed.
#[export] Hint Resolve PsEq_xmpp_disconnect : pseqdb.
Lemma PsEq_prepare_reset : forall h s0 s, PsEq s0 s -> PsEq s0 (prepare_reset h s).
Proof. intros; unfold prepare_reset, ret; cases; leaf; eauto 30 with pseqdb. Qed.
#[export] Hint Resolve PsEq_prepare_reset : pseqdb.
Lemma PsEq_conn_open_stream : forall s0 s, PsEq s0 s -> PsEq s0 (conn_open_stream s).
Proof. intros; unfold conn_open_stream, ret; cases; leaf; eauto 30 with pseqdb. Qed.
#[export] Hint Resolve PsEq_conn_open_stream : pseqdb.
Lemma PsEq_conn_tls_start : forall s0 s, PsEq s0 s -> PsEq s0 (fst (fst (conn_tls_start s))).
Proof. intros; name_result; unfold conn_tls_start, ret; cases; leaf; eauto 30 with pseqdb. Qed.
#[export] Hint Resolve PsEq_conn_tls_start : pseqdb.
Lemma PsEq_stream_negotiation_success : forall s0 s, PsEq s0 s -> PsEq s0 (fst (stream_negotiation_success s)).
Proof. intros; name_result; unfold stream_negotiation_success, ret; cases; leaf; eauto 30 with pseqdb. Qed.
#[export] Hint Resolve PsEq_stream_negotiation_success : pseqdb.
Lemma PsEq_do_bind : forall n b s0 s, PsEq s0 s -> PsEq s0 (fst (do_bind n b s)).
Proof. intros; name_result; unfold do_bind, ret; cases; leaf; eauto 30 with pseqdb. Qed.
#[export] Hint Resolve PsEq_do_bind : pseqdb.
Lemma PsEq_session_start : forall n s0 s, PsEq s0 s -> PsEq s0 (session_start n s).
Proof. intros; unfold session_start, ret; cases; leaf; eauto 30 with pseqdb. Qed.
#[export] Hint Resolve PsEq_session_start : pseqdb.
Lemma PsEq_sm_enable : forall s0 s, PsEq s0 s -> PsEq s0 (sm_enable s).
Proof. intros; unfold sm_enable, ret; cases; leaf; eauto 30 with pseqdb. Qed.
#[export] Hint Resolve PsEq_sm_enable : pseqdb.
Lemma PsEq_auth_legacy : forall n s0 s, PsEq s0 s -> PsEq s0 (auth_legacy n s).
Proof. intros; unfold auth_legacy, ret; cases; leaf; eauto 30 with pseqdb. Qed.
#[export] Hint Resolve PsEq_auth_legacy : pseqdb.
Lemma PsEq_auth : forall fuel n s0 s, PsEq s0 s -> PsEq s0 (fst (auth fuel n s)).
Proof. induction fuel; intros; name_result; cbn [auth]; unfold ret; cases; leaf; eauto 30 with pseqdb. Qed.
#[export] Hint Resolve PsEq_auth : pseqdb.
Lemma PsEq_sasl_result : forall n e s0 s, PsEq s0 s -> PsEq s0 (fst (sasl_result n e s)).
Proof. intros; name_result; unfold sasl_result, ret; cases; leaf; eauto 30 with pseqdb. Qed.
#[export] Hint Resolve PsEq_sasl_result : pseqdb.
Lemma PsEq_features_sasl : forall n e s0 s, PsEq s0 s -> PsEq s0 (fst (features_sasl n e s)).
Proof. intros; name_result; unfold features_sasl, ret; cases; leaf; eauto 30 with pseqdb. Qed.
#[export] Hint Resolve PsEq_features_sasl : pseqdb.
Lemma PsEq_call_handler : forall k n e s0 s, PsEq s0 s -> PsEq s0 (fst (fst (call_handler k n e s))).
Proof. intros k; destruct k; intros; name_result; unfold call_handler, ret; cases; leaf; eauto 30 with pseqdb. Qed.
#[export] Hint Resolve PsEq_call_handler : pseqdb.
Lemma PsEq_call_id_handler : forall k n e s0 s, PsEq s0 s -> PsEq s0 (fst (call_id_handler k n e s)).
Proof. intros k; destruct k; intros; name_result; unfold call_id_handler, ret; cases; leaf; eauto 30 with pseqdb. Qed.
#[export] Hint Resolve PsEq_call_id_handler : pseqdb.
Lemma PsEq_note_rx : forall e s0 s, PsEq s0 s -> PsEq s0 (note_rx e s).
Proof. intros; unfold note_rx; cbv zeta; eauto with pseqdb. Qed.
#[export] Hint Resolve PsEq_note_rx : pseqdb.
Lemma PsEq_visit : forall n e s0 r k, PsEq s0 (fst r) -> PsEq s0 (fst (visit n e r k)).
Proof. intros n e s0 [s o] k H. cbn [fst] in H. name_result. unfold visit. cases; leaf; eauto 30 with pseqdb. Qed.
Lemma PsEq_fold_visit : forall n e l s0 s o, PsEq s0 s -> PsEq s0 (fst (fold_left (visit n e) l (s, o))).
Proof. intros n e l s0 s o H. apply (fold_left_inv (fun r => PsEq s0 (fst r))); auto. intros; apply PsEq_visit; auto. Qed.
#[export] Hint Resolve PsEq_fold_visit : pseqdb.
Lemma PsEq_sm_handle : forall e s0 s, PsEq s0 s -> PsEq s0 (sm_handle e s).
Proof. intros; unfold sm_handle, ret; cases; leaf; eauto 30 with pseqdb. Qed.
#[export] Hint Resolve PsEq_sm_handle : pseqdb.
Lemma PsEq_dispatch : forall n e s0 s, PsEq s0 s -> PsEq s0 (fst (dispatch n e s)).
Proof. intros; name_result; unfold dispatch, ret; cases; leaf; eauto 30 with pseqdb. Qed.
#[export] Hint Resolve PsEq_dispatch : pseqdb.
Lemma PsEq_open_handler : forall n s0 s, PsEq s0 s -> PsEq s0 (fst (open_handler n s)).
Proof. intros; name_result; unfold open_handler, ret; cases; leaf; eauto 30 with pseqdb. Qed.
#[export] Hint Resolve PsEq_open_handler : pseqdb.
Lemma PsEq_stream_start : forall n a b s0 s, PsEq s0 s -> PsEq s0 (fst (stream_start n a b s)).
Proof. intros; name_result; unfold stream_start, ret; cases; leaf; eauto 30 with pseqdb. Qed.
#[export] Hint Resolve PsEq_stream_start : pseqdb.
Lemma PsEq_stream_end : forall s0 s, PsEq s0 s -> PsEq s0 (fst (stream_end s)).
Proof. intros; name_result; unfold stream_end, ret; cases; leaf; eauto 30 with pseqdb. Qed.
#[export] Hint Resolve PsEq_stream_end : pseqdb.
Lemma PsEq_call_timed : forall k n s0 s, PsEq s0 s -> PsEq s0 (fst (fst (call_timed k n s))).
Proof. intros k; destruct k; intros; name_result; unfold call_timed, ret; cases; leaf; eauto 30 with pseqdb. Qed.
#[export] Hint Resolve PsEq_call_timed : pseqdb.
Lemma PsEq_visit_timed : forall n s0 r k, PsEq s0 (fst r) -> PsEq s0 (fst (visit_timed n r k)).
Proof. intros n s0 [s o] k H. cbn [fst] in H. name_result. unfold visit_timed. cases; leaf; eauto 30 with pseqdb. Qed.
Lemma PsEq_fold_visit_timed : forall n l s0 s o, PsEq s0 s -> PsEq s0 (fst (fold_left (visit_timed n) l (s, o))).
Proof. intros n l s0 s o H. apply (fold_left_inv (fun r => PsEq s0 (fst r))); auto. intros; apply PsEq_visit_timed; auto. Qed.
#[export] Hint Resolve PsEq_fold_visit_timed : pseqdb.
Lemma PsEq_fire_timed : forall n s0 s, PsEq s0 s -> PsEq s0 (fst (fire_timed n s)).
Proof. intros; name_result; unfold fire_timed, ret; cases; leaf; eauto 30 with pseqdb. Qed.
#[export] Hint Resolve PsEq_fire_timed : pseqdb.
Lemma PsEq_connect_next : forall n s0 s, PsEq s0 s -> PsEq s0 (fst (fst (connect_next n s))).
Proof. intros; name_result; unfold connect_next; destruct (sock_connect (cands s)) as [oo [[k r]|]]; leaf; eauto 20 with pseqdb. Qed.
#[export] Hint Resolve PsEq_connect_next : pseqdb.
Lemma PsEq_conn_established : forall n s0 s, PsEq s0 s -> PsEq s0 (fst (conn_established n s)).
Proof. intros; name_result; unfold conn_established, ret; cases; leaf; eauto 30 with pseqdb. Qed.
#[export] Hint Resolve PsEq_conn_established : pseqdb.

(* ------------------------------------------------------------------ parser-layer steps *)
Lemma pending_set_ps : forall p s, is_depth0 p = false -> (pending (set_ps p s) <= pending s)%nat.
Proof.
  intros p s D. unfold pending. sproj. rewrite D, orb_false_r.
  destruct (client_oh (oh s)), (reset_parser s), (is_depth0 (ps s)); cbn; lia.
Qed.
Lemma PH_set_ps : forall p s, is_depth0 p = false -> PH s -> PH (set_ps p s).
Proof.
  intros p s D P. pose proof (pending_set_ps p s D) as Pe. constructor.
  - apply TI_set_ps, P.
  - pose proof (ph_amo _ P) as M. unfold marks in *.
    assert (hmarks (set_ps p s) = hmarks s) as -> by reflexivity. assert (imarks (set_ps p s) = imarks s) as -> by reflexivity. lia.
  - apply T01_set_ps; [exact D | apply P].
  - apply (MT_of (set_ps p)); [apply CS_set_ps | apply PL_set_ps | apply P].
  - apply SmOff_set_ps, P.
  - intros En. destruct (ph_se _ P En) as (A & B & C). repeat split; auto. lia.
  - apply T25_set_ps, P.
Qed.
Lemma DL_set_ps : forall p s, DL s -> DL (set_ps p s).
Proof. intros p s L D. exact (L D). Qed.

Lemma PH_conn_disconnect : forall s, PH s -> PH (fst (conn_disconnect s)).
Proof.
  intros s P. apply (PH_neutral s); [apply HFr_conn_disconnect, HFr_refl | apply TI_conn_disconnect, P | apply T01_conn_disconnect, P
    | apply (MT_of (fun x => fst (conn_disconnect x))); [apply CS_conn_disconnect | apply PL_conn_disconnect | apply P]
    | apply SmOff_conn_disconnect, P | apply Sn_conn_disconnect, Sn_refl | apply T25_conn_disconnect, P | exact P].
Qed.
Lemma PH_stream_end : forall s, PH s -> PH (fst (stream_end s)).
Proof.
  intros s P. apply (PH_neutral s); [ | apply TI_stream_end, P | apply T01_stream_end, P
    | apply (MT_of (fun x => fst (stream_end x))); [apply CS_stream_end | apply PL_stream_end | apply P]
    | apply SmOff_stream_end, P | apply Sn_stream_end, Sn_refl | apply T25_stream_end, P | exact P].
  name_result. unfold stream_end. cases; leaf; eauto 20 with hfrdb.
Qed.

(* the open handlers: the pending client restart becomes a registered features handler *)
Lemma QFr_open_handler : forall n s0 s, client_oh (oh s) = false -> QFr s0 s -> QFr s0 (fst (open_handler n s)).
Proof.
  intros n s0 s C H. name_result. unfold open_handler, ret. destruct (oh s); try discriminate; cases; leaf; eauto 30 with qfrdb.
Qed.
Lemma MT_open_handler : forall n s, MT s -> MT (fst (open_handler n s)).
Proof.
  intros n s [C|P]; [left; apply CS_open_handler; exact C|].
  right. assert (O : oh s <> OpenComponent) by apply P.
  name_result. unfold open_handler, ret. destruct (oh s) eqn:E; try congruence; cases; leaf; eauto 30 with pldb.
Qed.
Lemma MT_stream_start : forall n a b s, MT s -> MT (fst (stream_start n a b s)).
Proof.
  intros n a b s H. name_result. unfold stream_start. cases; leaf.
  - apply MT_open_handler. destruct H as [C|P]; [left; eauto 10 with csdb | right; eauto 10 with pldb].
  - destruct H as [C|P]; [left; eauto 10 with csdb | right; eauto 10 with pldb].
Qed.
Lemma QFr_stream_start : forall n a b s0 s, client_oh (oh s) = false -> QFr s0 s -> QFr s0 (fst (stream_start n a b s)).
Proof.
  intros n a b s0 s C H. name_result. unfold stream_start. cases; leaf.
  - apply QFr_open_handler; [exact C | eauto 10 with qfrdb].
  - apply (QFr_HFr s0 s); auto. eauto 10 with hfrdb.
Qed.
Lemma StEq_stream_start_ok : forall n b s0 s, StEq s0 s -> StEq s0 (fst (stream_start n true b s)).
Proof. intros n b s0 s H. name_result. unfold stream_start. leaf. eauto 10 with steqdb. Qed.

Lemma PH_stream_start : forall n a b s p, PH s -> ps s = PDepth0 -> reset_parser s = false -> is_depth0 p = false ->
  PH (fst (stream_start n a b (set_ps p s))).
Proof.
  intros n a b s p P D R Dp. set (x := set_ps p s).
  assert (Px : PH x) by (apply PH_set_ps; assumption).
  constructor.
  - apply TI_stream_start, Px.
  - pose proof (Bd_stream_start n a b 0 x x (Bd_refl x)) as B. destruct B as [B _ _ _].
    pose proof (ph_amo _ P) as M. unfold marks, pending in *.
    assert (hmarks x = hmarks s) as E1 by reflexivity. assert (imarks x = imarks s) as E2 by reflexivity.
    assert (oh x = oh s) as E3 by reflexivity. assert (reset_parser x = reset_parser s) as E4 by reflexivity.
    assert (ps x = p) as E5 by reflexivity.
    rewrite E1, E2, E3, E4, E5, R, Dp in B. rewrite R, D in M. cbn [orb is_depth0] in *. rewrite andb_false_r in B. rewrite andb_true_r in M.
    cbn [b2n] in B. lia.
  - apply T01_stream_start; [ | apply Px]. intros O. change (sasl x) with (sasl s). apply (proj1 (ph_t01 _ P)); [exact O|].
    rewrite D. apply orb_true_r.
  - apply MT_stream_start, Px.
  - apply SmOff_stream_start, Px.
  - intros En. pose proof (Sn_stream_start n a b x x (Sn_refl x) En) as En0. change (sm_enabled x) with (sm_enabled s) in En0.
    destruct (ph_se _ P En0) as (A & B & C).
    assert (Cl : client_oh (oh s) = false).
    { unfold pending in C. rewrite D in C. cbn [is_depth0] in C. rewrite orb_true_r, andb_true_r in C. destruct (client_oh (oh s)); auto; discriminate. }
    pose proof (QFr_stream_start n a b x x Cl (QFr_refl x)) as Q.
    pose proof (qfr_q _ _ Q) as Q1. pose proof (qfr_oh _ _ Q) as Q2. pose proof (qfr_bind _ _ Q) as Q5.
    change (qmarks x) with (qmarks s) in Q1. change (oh x) with (oh s) in Q2. change (id_has IKBind x) with (id_has IKBind s) in Q5.
    rewrite Q1. unfold pending. rewrite Q2, Cl. repeat split; auto.
    destruct (id_has IKBind (fst (stream_start n a b x))); auto. rewrite Q5 in B; auto.
  - apply T25_stream_start, Px.
Qed.

(* ------------------------------------------------------------------ one chunk *)
Definition ps_live (p : pstate) : bool := match p with PClosed | PDead => false | _ => true end.
Definition FI (s : state) : Prop :=
  PH s /\ (ps_live (ps s) = true -> DL s) /\ (is_depth0 (ps s) = true -> st s = Connected /\ reset_parser s = false).

Lemma FI_intro : forall s, PH s -> (ps_live (ps s) = true -> DL s) -> is_depth0 (ps s) = false -> FI s.
Proof. intros s P L D. refine (conj P (conj L _)). rewrite D. discriminate. Qed.

Lemma FI_feed_item : forall n it s, FI s -> FI (fst (fst (feed_item n it s))).
Proof.
  intros n it s (P & L & F). unfold feed_item.
  destruct (ps s) eqn:Ps; cbn [ps_live is_depth0] in *.
  - (* PDepth0 *)
    destruct (F eq_refl) as [Fc Fr]. clear F. destruct it as [h|e| |].
    + (* stream header *)
      pose proof (PH_stream_start n true h s POpen P Ps Fr eq_refl) as P1.
      pose proof (PsEq_stream_start n true h _ _ (PsEq_refl (set_ps POpen s))) as E1. unfold PsEq in E1.
      pose proof (StEq_stream_start_ok n h _ _ (StEq_refl (set_ps POpen s))) as E2. unfold StEq in E2.
      destruct (stream_start n true h (set_ps POpen s)) as [s1 o1]. cbn [fst] in *.
      apply FI_intro; auto; [ | rewrite E1; reflexivity]. intros _ D. change (st (set_ps POpen s)) with (st s) in E2. congruence.
    + destruct (ns_eqb (e_ns e) NsStreams).
      * cbn [fst]. apply FI_intro; [apply PH_set_ps; auto | discriminate | reflexivity].
      * pose proof (PH_stream_start n (ename_eqb (e_name e) NmStream) false s PClosed P Ps Fr eq_refl) as P1.
        pose proof (PsEq_stream_start n (ename_eqb (e_name e) NmStream) false _ _ (PsEq_refl (set_ps PClosed s))) as E1. unfold PsEq in E1.
        destruct (stream_start n (ename_eqb (e_name e) NmStream) false (set_ps PClosed s)) as [s1 o1]. cbn [fst] in *.
        change (ps (set_ps PClosed s)) with PClosed in E1.
        destruct (crashed s1); [cbn [fst]; apply FI_intro; auto; rewrite E1; [discriminate|reflexivity]|].
        pose proof (PH_stream_end s1 P1) as P2. pose proof (PsEq_stream_end s1 s1 (PsEq_refl s1)) as E2. unfold PsEq in E2.
        destruct (stream_end s1) as [s2 o2]. cbn [fst] in *. apply FI_intro; auto; rewrite E2, E1; [discriminate|reflexivity].
    + cbn [fst]. apply FI_intro; [apply PH_set_ps; auto | discriminate | reflexivity].
    + cbn [fst]. apply FI_intro; [apply PH_set_ps; auto | discriminate | reflexivity].
  - (* POpen *)
    specialize (L eq_refl). destruct it as [h|e| |].
    + cbn [fst]. apply FI_intro; [apply PH_set_ps; auto | intros _; apply DL_set_ps; exact L | reflexivity].
    + pose proof (PH_dispatch n e s P L) as [P1 L1]. pose proof (PsEq_dispatch n e s s (PsEq_refl s)) as E1. unfold PsEq in E1.
      destruct (dispatch n e s) as [s1 o1]. cbn [fst] in *. apply FI_intro; auto; rewrite E1, Ps; reflexivity.
    + pose proof (PH_stream_end _ (PH_set_ps PClosed s eq_refl P)) as P1.
      pose proof (PsEq_stream_end _ _ (PsEq_refl (set_ps PClosed s))) as E1. unfold PsEq in E1.
      destruct (stream_end (set_ps PClosed s)) as [s1 o1]. cbn [fst] in *. change (ps (set_ps PClosed s)) with PClosed in E1.
      apply FI_intro; auto; rewrite E1; [discriminate|reflexivity].
    + cbn [fst]. apply FI_intro; [apply PH_set_ps; auto | discriminate | reflexivity].
  - (* PSwallow *)
    specialize (L eq_refl). destruct it as [h|e| |].
    + cbn [fst]. apply FI_intro; [apply PH_set_ps; auto | intros _; apply DL_set_ps; exact L | reflexivity].
    + cbn [fst]. apply FI_intro; [apply PH_set_ps; auto | intros _; apply DL_set_ps; exact L | reflexivity].
    + destruct n0 as [|[|m]].
      * cbn [fst]. apply FI_intro; [apply PH_set_ps; auto | intros _; apply DL_set_ps; exact L | reflexivity].
      * pose proof (PH_dispatch n (nested_stream_elem cns) _ (PH_set_ps POpen s eq_refl P) (DL_set_ps POpen s L)) as [P1 L1].
        pose proof (PsEq_dispatch n (nested_stream_elem cns) _ _ (PsEq_refl (set_ps POpen s))) as E1. unfold PsEq in E1.
        destruct (dispatch n (nested_stream_elem cns) (set_ps POpen s)) as [s1 o1]. cbn [fst] in *.
        change (ps (set_ps POpen s)) with POpen in E1. apply FI_intro; auto; rewrite E1; reflexivity.
      * cbn [fst]. apply FI_intro; [apply PH_set_ps; auto | intros _; apply DL_set_ps; exact L | reflexivity].
    + cbn [fst]. apply FI_intro; [apply PH_set_ps; auto | discriminate | reflexivity].
  - (* PClosed *)
    destruct it; cbn [fst]; apply FI_intro; try (apply PH_set_ps; auto); try discriminate; reflexivity.
  - (* PDead *)
    destruct it; cbn [fst]; apply FI_intro; auto; try discriminate; rewrite Ps; try discriminate; reflexivity.
Qed.
Lemma FI_feed_items : forall n its s, FI s -> FI (fst (fst (feed_items n its s))).
Proof.
  induction its as [|it r IH]; intros s H; cbn [feed_items]; [exact H|].
  destruct (crashed s); [exact H|].
  pose proof (FI_feed_item n it s H) as H1. destruct (feed_item n it s) as [[s1 o1] bad]. cbn [fst] in *.
  destruct bad; [exact H1|]. specialize (IH s1 H1). destruct (feed_items n r s1) as [[s2 o2] bad2]. exact IH.
Qed.

(* ------------------------------------------------------------------ timed handlers *)
Lemma timed_lookup_has : forall k s x, timed_lookup k s = Some x -> timed_has k s = true.
Proof.
  intros k s x. unfold timed_lookup, timed_has. induction (timed s) as [|y l IH]; cbn; [discriminate|].
  destruct (tkind_eqb k (fst (fst y))); cbn; auto.
Qed.
Lemma PH_step_neutral : forall (f : state -> state) s,
  (forall s0 x, HFr s0 x -> HFr s0 (f x)) -> (forall x, TI x -> TI (f x)) -> (forall x, T01 x -> T01 (f x)) ->
  (forall x, CS x -> CS (f x)) -> (forall x, PL x -> PL (f x)) -> (forall x, SmOff x -> SmOff (f x)) ->
  (forall s0 x, Sn s0 x -> Sn s0 (f x)) -> (forall x, T25 x -> T25 (f x)) -> PH s -> PH (f s).
Proof.
  intros f s A B C D E F G T P. apply (PH_neutral s); auto using HFr_refl, Sn_refl; try apply P.
  - apply B, P. - apply C, P. - apply (MT_of f); auto. apply P. - apply F, P. - apply T, P.
Qed.
Lemma PH_xmpp_disconnect : forall n s, PH s -> PH (xmpp_disconnect n s).
Proof.
  intros n s. apply (PH_step_neutral (xmpp_disconnect n)); intros;
    auto using HFr_xmpp_disconnect, TI_xmpp_disconnect, T01_xmpp_disconnect, CS_xmpp_disconnect, PL_xmpp_disconnect, SmOff_xmpp_disconnect, Sn_xmpp_disconnect, T25_xmpp_disconnect.
Qed.
Lemma PH_timed_set_stamp : forall k n s, PH s -> PH (timed_set_stamp k n s).
Proof.
  intros k n s. apply (PH_step_neutral (timed_set_stamp k n)); intros;
    auto using HFr_timed_set_stamp, TI_timed_set_stamp, T01_timed_set_stamp, CS_timed_set_stamp, PL_timed_set_stamp, SmOff_timed_set_stamp, Sn_timed_set_stamp, T25_timed_set_stamp.
Qed.
Lemma PH_timed_del : forall k s, PH s -> PH (timed_del k s).
Proof.
  intros k s. apply (PH_step_neutral (timed_del k)); intros;
    auto using HFr_timed_del, TI_timed_del, T01_timed_del, CS_timed_del, PL_timed_del, SmOff_timed_del, Sn_timed_del, T25_timed_del.
Qed.
Lemma PH_auth_timer : forall n s, PH s -> timed_has TMissingFeatures s = true -> PH (fst (auth 1 n s)).
Proof.
  intros n s P T. destruct (proj2 (ph_t01 _ P) T) as [S0 F0]. constructor.
  - apply TI_auth, P.
  - pose proof (Bd_auth0 1 n 0 s s (proj1 (ph_ti _ P)) S0 (Bd_refl s)) as B. destruct B as [B ? ? ?]. pose proof (ph_amo _ P). lia.
  - apply T01_auth, P.
  - apply MT_auth, P.
  - apply SmOff_auth, P.
  - intros En. pose proof (Sn_auth 1 n s s (Sn_refl s) En) as En0. destruct (ph_se _ P En0) as (A & _).
    pose proof (qmarks_pos HFeatures s eq_refl F0). lia.
  - apply T25_auth, P.
Qed.
Lemma PH_call_timed_step : forall k n s, PH s -> timed_has k s = true ->
  let r := call_timed k n s in PH (if snd r then fst (fst r) else timed_del k (fst (fst r))).
Proof.
  intros k n s P T. cbv zeta. destruct k; unfold call_timed; cbn [fst snd]; auto using PH_timed_del, PH_xmpp_disconnect.
  - pose proof (PH_auth_timer n s P T) as Q. destruct (auth 1 n s) as [s1 o1]. cbn [fst snd] in *. apply PH_timed_del, Q.
  - pose proof (PH_conn_disconnect s P) as Q. destruct (conn_disconnect s) as [s1 o1]. cbn [fst snd] in *. apply PH_timed_del, Q.
Qed.
Lemma PH_visit_timed : forall n r k, PH (fst r) -> PH (fst (visit_timed n r k)).
Proof.
  intros n [s o] k P. cbn [fst] in *. unfold visit_timed.
  destruct (crashed s); auto. destruct (timed_lookup k s) as [[en stp]|] eqn:E; auto.
  destruct (negb en); auto. destruct (tkind_eqb k TUser && negb (neg_done s)); auto.
  destruct (n - stp >=? tperiod s k); auto.
  assert (T : timed_has k (timed_set_stamp k n s) = true) by (rewrite timed_has_timed_set_stamp; eapply timed_lookup_has; eauto).
  pose proof (PH_call_timed_step k n _ (PH_timed_set_stamp k n s P) T) as Q. cbv zeta in Q.
  destruct (call_timed k n (timed_set_stamp k n s)) as [[s2 o2] keep]. cbn [fst snd] in *. exact Q.
Qed.
Lemma PH_fire_timed : forall n s, PH s -> PH (fst (fire_timed n s)).
Proof.
  intros n s P. unfold fire_timed, ret. destruct (st s); auto.
  apply (fold_left_inv (fun r => PH (fst r))); [intros; apply PH_visit_timed; auto|]. cbn [fst].
  apply (PH_neutral s); [apply HFr_set_timed, HFr_refl | apply TI_set_timed, P | apply T01_enable_timed, P
    | apply (MT_of (set_timed _)); [apply CS_set_timed | apply PL_set_timed | apply P]
    | apply SmOff_set_timed, P | apply Sn_set_timed, Sn_refl | apply T25_set_timed, P | exact P].
Qed.

(* ================================================================== the phase invariant along an event-loop iteration *)
Definition CG (s : state) : Prop :=
  st s = Connecting -> hmarks s = 0%nat /\ imarks s = 0%nat /\ secured s = false /\ tls_present s = false.
Definition F24 (s : state) : Prop := f_tls_mandatory s && f_tls_disabled s = false.
Definition PHS (s : state) : Prop := PH s /\ CG s /\ F24 s.

Lemma hmarks0_no_handler : forall k s, hmarks s = 0%nat -> is_main k = true -> h_has k s = false.
Proof. intros k s H M. destruct (h_has k s) eqn:E; auto. pose proof (hmarks_pos k s M E). lia. Qed.

Lemma HFr_conn_established : forall n s0 s, HFr s0 s -> HFr s0 (fst (conn_established n s)).
Proof.
  intros n s0 s H. name_result. unfold conn_established.
  destruct (f_legacy_ssl s && negb (is_raw s)).
  - pose proof (HFr_conn_tls_start s0 s H) as T. destruct (conn_tls_start s) as [[sa oa] ok]. cbn [fst] in T.
    cases; leaf; eauto 20 with hfrdb.
  - cases; leaf; eauto 20 with hfrdb.
Qed.
Lemma PL_conn_established : forall n s, PL s -> PL (fst (conn_established n s)).
Proof.
  intros n s H. name_result. unfold conn_established.
  destruct (f_legacy_ssl s && negb (is_raw s)).
  - pose proof (PL_conn_tls_start s H) as T. destruct (conn_tls_start s) as [[sa oa] ok]. cbn [fst] in T.
    cases; leaf; eauto 20 with pldb.
  - cases; leaf; eauto 20 with pldb.
Qed.
Lemma T25_conn_established : forall n s, st s <> Disconnected -> T25 s -> T25 (fst (conn_established n s)).
Proof.
  intros n s D H. name_result. unfold conn_established.
  destruct (f_legacy_ssl s && negb (is_raw s)).
  - pose proof (T25_conn_tls_start s D) as T. destruct (conn_tls_start s) as [[sa oa] ok]. cbn [fst] in T.
    cases; leaf; eauto 20 with t25db.
  - cases; leaf; eauto 20 with t25db.
Qed.
(* the TCP connect completes: TLS (legacy SSL) may start, the first stream header is queued *)
Lemma PH_conn_established : forall n s, PH s -> st s <> Disconnected -> hmarks s = 0%nat -> (CS s -> f_tls_mandatory s = false) ->
  PH (fst (conn_established n s)).
Proof.
  intros n s P D H0 Cm.
  pose proof (HFr_conn_established n s s (HFr_refl s)) as F. destruct (HFr_obs _ _ F) as (M & _).
  constructor.
  - apply TI_conn_established; [apply hmarks0_no_handler; auto | apply P].
  - rewrite M. apply P.
  - apply T01_conn_established, P.
  - destruct (ph_mt _ P) as [C|Q]; [left; right; left | right; apply PL_conn_established; exact Q].
    pose proof (Fr_conn_established n s s (Fr_refl s)) as Ff. rewrite (fr_f_tls_mandatory _ _ Ff). auto.
  - apply SmOff_conn_established, P.
  - intros En. eapply SE_HFr; eauto. apply (ph_se _ P). apply (Sn_conn_established n s s (Sn_refl s) En).
  - apply T25_conn_established; [exact D | apply P].
Qed.

Ltac ph_setter := intros; eauto with hfrdb tidb t01db csdb pldb smoffdb sndb t25db.
Lemma PHS_of : forall s s', PH s' ->
  (st s' = Connecting -> st s = Connecting /\ hmarks s' = hmarks s /\ imarks s' = imarks s /\ secured s' = secured s /\ tls_present s' = tls_present s) ->
  f_tls_mandatory s' = f_tls_mandatory s -> f_tls_disabled s' = f_tls_disabled s -> PHS s -> PHS s'.
Proof.
  intros s s' P C M D (P0 & C0 & F0). refine (conj P (conj _ _)).
  - intros X. destruct (C X) as (A & B1 & B2 & B3 & B4). destruct (C0 A) as (E1 & E2 & E3 & E4). repeat split; congruence.
  - unfold F24 in *. congruence.
Qed.
Lemma PHS_ph_pre : forall rd s, PHS s -> PHS (ph_pre rd s).
Proof.
  intros rd s H. unfold ph_pre. cases; auto; (eapply PHS_of; [ | | | | exact H]; [apply (PH_step_neutral (set_rxq _)); try apply H; ph_setter | auto | reflexivity | reflexivity]).
Qed.
Lemma PHS_send_phase : forall s, PHS s -> PHS (fst (send_phase s)).
Proof.
  intros s H. unfold send_phase, ret. destruct (st s) eqn:C; auto. cbv zeta.
  match goal with |- context [negb (err ?y =? 0)] => set (x := y) end.
  assert (Px : PH x /\ st x = Connected /\ f_tls_mandatory x = f_tls_mandatory s /\ f_tls_disabled x = f_tls_disabled s).
  { split; [|repeat split; auto]. unfold x.
    apply (PH_step_neutral (set_sm_sent _)); try ph_setter. apply (PH_step_neutral (set_smq _)); try ph_setter.
    apply (PH_step_neutral (set_sendq _)); try ph_setter. apply H. }
  clearbody x. destruct Px as (Px & Cx & M & D).
  destruct (negb (err x =? 0)).
  - pose proof (PH_conn_disconnect _ (PH_step_neutral (set_err ECONNABORTED) x ltac:(ph_setter) ltac:(ph_setter) ltac:(ph_setter) ltac:(ph_setter) ltac:(ph_setter) ltac:(ph_setter) ltac:(ph_setter) ltac:(ph_setter) Px)) as Q.
    pose proof (Fr_conn_disconnect (set_err ECONNABORTED x) _ (Fr_refl _)) as F.
    destruct (conn_disconnect (set_err ECONNABORTED x)) as [s2 o2]. cbn [fst] in *.
    eapply PHS_of; [exact Q | | | | exact H].
    + intros X. exfalso. destruct (fr_st _ _ F) as [E|E]; change (st (set_err ECONNABORTED x)) with (st x) in E; congruence.
    + rewrite (fr_f_tls_mandatory _ _ F). exact M.
    + rewrite (fr_f_tls_disabled _ _ F). exact D.
  - cbn [fst]. eapply PHS_of; [exact Px | intros X; congruence | exact M | exact D | exact H].
Qed.
Lemma PHS_ph_reset : forall s, PHS s -> PHS (ph_reset s) /\ reset_parser (ph_reset s) = false.
Proof.
  intros s H. unfold ph_reset. destruct (reset_parser s) eqn:R; [|auto]. split; [|reflexivity].
  destruct H as (P & C & F).
  assert (P' : PH (set_ps PDepth0 (set_reset_parser false s))).
  { constructor.
    - apply TI_set_ps, TI_set_reset_parser, P.
    - pose proof (ph_amo _ P) as M. unfold marks, pending in *. sproj. rewrite R in M. cbn [orb is_depth0] in *.
      assert (hmarks (set_ps PDepth0 (set_reset_parser false s)) = hmarks s) as -> by reflexivity.
      assert (imarks (set_ps PDepth0 (set_reset_parser false s)) = imarks s) as -> by reflexivity. exact M.
    - destruct (ph_t01 _ P) as [A B]. split; [|exact B]. intros O _. apply A; [exact O|]. rewrite R. reflexivity.
    - apply (MT_of (fun x => set_ps PDepth0 (set_reset_parser false x))); [intros; eauto with csdb | intros; eauto with pldb | apply P].
    - apply SmOff_set_ps, SmOff_set_reset_parser, P.
    - intros En. destruct (ph_se _ P En) as (A & B & Cc). repeat split; auto.
      unfold pending in *. sproj. rewrite R in Cc. cbn [orb is_depth0] in *. exact Cc.
    - apply T25_set_ps, T25_set_reset_parser, P. }
  refine (conj P' (conj _ F)). exact C.
Qed.
Lemma PHS_fire_timed : forall n s, PHS s -> PHS (fst (fire_timed n s)).
Proof.
  intros n s H. pose proof (PH_fire_timed n s (proj1 H)) as P. pose proof (Fr_fire_timed n s s (Fr_refl s)) as F.
  eapply PHS_of; [exact P | | apply (fr_f_tls_mandatory _ _ F) | apply (fr_f_tls_disabled _ _ F) | exact H].
  intros X. assert (C : st s = Connecting) by (destruct (fr_st _ _ F) as [E|E]; congruence).
  unfold fire_timed, ret. rewrite C. cbn [fst]. auto.
Qed.
Lemma PH_timeout : forall e s, PH s -> st s = Connecting -> tls_present s = false ->
  PH (reset_sm_for_reconnect (set_neg_done false (set_st Disconnected (set_err e s)))).
Proof.
  intros e s P C T. constructor.
  - apply TI_reset_sm_for_reconnect, TI_set_neg_done, TI_set_st, TI_set_err, P.
  - assert (F : HFr s (reset_sm_for_reconnect (set_neg_done false (set_st Disconnected (set_err e s))))) by eauto 10 with hfrdb.
    rewrite (proj1 (HFr_obs _ _ F)). apply P.
  - apply T01_reset_sm_for_reconnect, T01_set_neg_done, T01_set_st, T01_set_err, P.
  - left. apply CS_reset_sm_for_reconnect, CS_set_neg_done. left. reflexivity.
  - apply SmOff_reset.
  - intros En. exfalso. revert En. unfold reset_sm_for_reconnect; cases; sproj; discriminate.
  - intros _. unfold reset_sm_for_reconnect; cases; sproj; exact T.
Qed.
Lemma PHS_connect_next : forall n s, PHS s -> st s = Connecting ->
  PHS (fst (fst (connect_next n s))) /\ st (fst (fst (connect_next n s))) = Connecting /\
  tls_present (fst (fst (connect_next n s))) = false /\ reset_parser (fst (fst (connect_next n s))) = reset_parser s.
Proof.
  intros n s H C. destruct (proj1 (proj2 H) C) as (C1 & C2 & C3 & C4).
  unfold connect_next. destruct (sock_connect (cands s)) as [oo [[k r]|]]; cbn [fst].
  - refine (conj _ (conj C (conj C4 eq_refl))).
    eapply PHS_of; [ | | | | exact H]; [ | auto | reflexivity | reflexivity].
    apply (PH_step_neutral (set_rxq _)); try ph_setter. apply (PH_step_neutral (set_stamp _)); try ph_setter.
    apply (PH_step_neutral (set_cur_ep _)); try ph_setter. apply (PH_step_neutral (set_cands _)); try ph_setter. apply H.
  - refine (conj _ (conj C (conj C4 eq_refl))).
    eapply PHS_of; [ | | | | exact H]; [ | auto | reflexivity | reflexivity].
    apply (PH_step_neutral (set_cands _)); try ph_setter. apply H.
Qed.
Lemma PHS_ph_watch : forall n s, PHS s -> reset_parser s = false ->
  PHS (fst (ph_watch n s)) /\ reset_parser (fst (ph_watch n s)) = false.
Proof.
  intros n s H R. unfold ph_watch, ret. destruct (st s) eqn:C; auto.
  destruct (n - stamp s <=? CONNECT_TIMEOUT); auto.
  destruct (PHS_connect_next n s H C) as (H1 & C1 & T1 & R1).
  destruct (connect_next n s) as [[s1 o1] ok]. cbn [fst] in *. destruct ok; cbn [fst]; [split; congruence|].
  split; [|unfold reset_sm_for_reconnect; cases; sproj; congruence].
  eapply PHS_of; [apply PH_timeout; [apply H1 | exact C1 | exact T1] | | | | exact H1].
  - intros X. exfalso. revert X. unfold reset_sm_for_reconnect; cases; sproj; discriminate.
  - unfold reset_sm_for_reconnect; cases; reflexivity.
  - unfold reset_sm_for_reconnect; cases; reflexivity.
Qed.
Lemma PH_set_st_connected : forall s, PH s -> st s = Connecting -> PH (set_st Connected s).
Proof.
  intros s P C. constructor.
  - apply TI_set_st, P.
  - apply P.
  - apply T01_set_st, P.
  - destruct (ph_mt _ P) as [[D|[D|D]]|Q]; [congruence | left; right; left; exact D | left; right; right; exact D | right; apply PL_set_st; exact Q].
  - apply SmOff_live. discriminate.
  - apply (ph_se _ P).
  - apply T25_live. discriminate.
Qed.
Lemma PHS_ph_io : forall n s, PHS s -> reset_parser s = false -> PHS (fst (ph_io n s)).
Proof.
  intros n s H R. unfold ph_io, ret. destruct (st s) eqn:C; auto.
  - (* Connecting *)
    destruct (proj1 (proj2 H) C) as (C1 & C2 & C3 & C4).
    destruct (cur_ep s) eqn:E; auto.
    + (* the TCP connect completes *)
      set (x := set_st Connected s).
      assert (Px : PH x) by (apply PH_set_st_connected; [apply H | exact C]).
      assert (Q : PH (fst (conn_established n x))).
      { apply PH_conn_established; auto; [discriminate|].
        intros [D|[D|D]]; [discriminate | exact D | ]. unfold is_secured in D. change (secured x) with (secured s) in D. rewrite C3 in D. discriminate. }
      pose proof (Fr_conn_established n x x (Fr_refl x)) as F.
      apply (PHS_of s); [exact Q | | exact (fr_f_tls_mandatory _ _ F) | exact (fr_f_tls_disabled _ _ F) | exact H].
      intros X. exfalso. destruct (fr_st _ _ F) as [D|D]; change (st x) with Connected in D; congruence.
    + destruct (PHS_connect_next n s H C) as (H1 & Cc & T1 & R1).
      destruct (connect_next n s) as [[s1 o1] ok]. cbn [fst] in *. destruct ok; cbn [fst]; auto.
      eapply PHS_of; [apply PH_timeout; [apply H1 | exact Cc | exact T1] | | | | exact H1].
      * intros X. exfalso. revert X. unfold reset_sm_for_reconnect; cases; sproj; discriminate.
      * unfold reset_sm_for_reconnect; cases; reflexivity.
      * unfold reset_sm_for_reconnect; cases; reflexivity.
  - (* Connected: one read *)
    cbv zeta. set (x := set_rxq (tl (rxq s)) s).
    assert (Hx : PHS x).
    { eapply PHS_of; [ | | | | exact H]; [apply (PH_step_neutral (set_rxq _)); try ph_setter; apply H | intros X; exfalso; change (st x) with (st s) in X; congruence | reflexivity | reflexivity]. }
    assert (Cx : st x = Connected) by exact C.
    assert (Fin : forall s', PH s' -> Fr x s' -> PHS s').
    { intros s' P' F. eapply PHS_of; [exact P' | | apply (fr_f_tls_mandatory _ _ F) | apply (fr_f_tls_disabled _ _ F) | exact Hx].
      intros X. exfalso. destruct (fr_st _ _ F) as [D|D]; congruence. }
    destruct (match rxq s with [] => RdNone | r :: _ => r end); cbn [fst]; auto.
    + (* a chunk *)
      assert (FIx : FI x).
      { refine (conj (proj1 Hx) (conj _ _)); [intros _ D; congruence | intros _; split; [exact Cx | exact R]]. }
      pose proof (FI_feed_items n its x FIx) as (P1 & _). pose proof (Fr_feed_items n its x x (Fr_refl x)) as F.
      destruct (feed_items n its x) as [[s1 o1] bad]. cbn [fst] in *. destruct bad; cbn [fst]; [|apply Fin; auto].
      apply Fin; [|eauto with frdb].
      apply (PH_step_neutral (send_gated WStreamErr false false)); intros;
        auto using HFr_send_gated, TI_send_gated, T01_send_gated, CS_send_gated, PL_send_gated, SmOff_send_gated, Sn_send_gated, T25_send_gated.
    + destruct (tls_present x); (apply Fin; [apply PH_conn_disconnect; apply (PH_step_neutral (set_err ECONNRESET)); try ph_setter; apply Hx | eauto with frdb]).
    + apply Fin; [apply PH_conn_disconnect; apply (PH_step_neutral (set_err ECONNRESET)); try ph_setter; apply Hx | eauto with frdb].
Qed.
Lemma PHS_run_once : forall n rd s, PHS s -> PHS (fst (run_once n rd s)).
Proof.
  intros n rd s H.
  apply (run_once_ind (fun s _ => PHS s) (fun s _ => PHS s /\ reset_parser s = false) (fun s _ => PHS s /\ reset_parser s = false)
           (fun s _ => PHS s /\ reset_parser s = false) (fun s _ => PHS s) (fun s _ => PHS s) (fun s _ => PHS s)); auto.
  - intros _. apply PHS_send_phase, PHS_ph_pre, H.
  - intros s1 _ H1. apply PHS_ph_reset, H1.
  - intros s1 _ [H1 R1]. split; [apply PHS_fire_timed, H1|].
    pose proof (RPF_fire_timed n s1 s1 (RPF_refl s1)) as F. rewrite (rpf_rp _ _ F). exact R1.
  - intros s1 _ [H1 R1]. exact H1.
  - intros s1 _ [H1 R1]. apply PHS_ph_watch; assumption.
  - intros s1 _ [H1 R1]. exact H1.
  - intros s1 _ [H1 R1]. apply PHS_ph_io; assumption.
  - intros s1 _ H1. apply PHS_fire_timed, H1.
Qed.

(* ------------------------------------------------------------------ _conn_connect *)
Lemma hmarks_user_only : forall (l : list (hkind * bool)),
  List.length (filter (fun x => is_main (fst x)) (filter (fun x => hkind_eqb (fst x) HUser) l)) = 0%nat.
Proof.
  induction l as [|x l IH]; [reflexivity|]. cbn [filter]. destruct (hkind_eqb (fst x) HUser) eqn:E; auto.
  apply hkind_eqb_eq in E. cbn [filter]. rewrite E. exact IH.
Qed.
Lemma h_has_user_only : forall k (l : list (hkind * bool)), hkind_eqb k HUser = false ->
  existsb (fun x => hkind_eqb k (fst x)) (filter (fun x => hkind_eqb (fst x) HUser) l) = false.
Proof.
  intros k l K. induction l as [|x l IH]; [reflexivity|]. cbn [filter]. destruct (hkind_eqb (fst x) HUser) eqn:E; auto.
  apply hkind_eqb_eq in E. cbn [existsb]. rewrite E, K. exact IH.
Qed.
Lemma timed_user_only : forall k (l : list (tkind * bool * Z)), tkind_eqb k TUser = false ->
  existsb (fun x => tkind_eqb k (fst (fst x))) (filter (fun x => tkind_eqb (fst (fst x)) TUser) l) = false.
Proof.
  intros k l K. induction l as [|x l IH]; [reflexivity|]. cbn [filter]. destruct (tkind_eqb (fst (fst x)) TUser) eqn:E; auto.
  apply tkind_eqb_eq in E. cbn [existsb]. rewrite E, K. exact IH.
Qed.

Lemma imarks_user_only : forall (l : list (idk * bool)),
  List.length (filter (fun x => is_main_id (fst x)) (filter (fun x => idk_eqb (fst x) IKUser) l)) = 0%nat.
Proof.
  induction l as [|x l IH]; [reflexivity|]. cbn [filter]. destruct (fst x) eqn:E; cbn [idk_eqb]; auto.
  cbn [filter]. rewrite E. exact IH.
Qed.
Lemma id_has_user_only : forall k (l : list (idk * bool)), idk_eqb k IKUser = false ->
  existsb (fun x => idk_eqb k (fst x)) (filter (fun x => idk_eqb (fst x) IKUser) l) = false.
Proof.
  intros k l K. induction l as [|x l IH]; [reflexivity|]. cbn [filter]. destruct (fst x) eqn:E; cbn [idk_eqb]; auto.
  cbn [existsb]. rewrite E, K. exact IH.
Qed.

Lemma PHS_conn_connect : forall n t s, PHS s -> (t = TComponent -> f_tls_disabled s = true) ->
  PHS (fst (fst (conn_connect n t s))).
Proof.
  intros n t s H Ft. unfold conn_connect. destruct (st s) eqn:C; auto.
  destruct H as (P & Cg & F). cbv zeta.
  assert (T0' : tls_present s = false) by (apply (ph_t25 _ P); exact C).
  destruct (ph_smoff _ P C) as (S1 & S2 & S3).
  match goal with |- context [sock_connect ?c] => destruct (sock_connect c) as [oo [[k r]|]] end; cbn [fst].
  - (* a socket: the attempt starts *)
    unfold conn_reset, prepare_reset. rewrite C. cbv zeta.
    refine (conj _ (conj _ _)); [constructor | | ].
    + refine (conj _ (conj _ _)); sproj; auto; intros; try discriminate; congruence.
    + unfold marks, hmarks, imarks, pending. sproj. rewrite hmarks_user_only, imarks_user_only. cbn [List.length filter].
      match goal with |- (0 + 0 + b2n ?b <= 1)%nat => destruct b; cbn; lia end.
    + split.
      * intros _ _. sproj. reflexivity.
      * intros T. exfalso. revert T. unfold timed_has. sproj. rewrite timed_user_only; [discriminate | reflexivity].
    + destruct t.
      * right. refine (conj _ (conj _ _)).
        -- unfold id_has. sproj. apply id_has_user_only. reflexivity.
        -- unfold h_has. sproj. apply h_has_user_only. reflexivity.
        -- sproj. destruct (is_raw s); discriminate.
      * left. right. left. sproj. unfold F24 in F. rewrite (Ft eq_refl), andb_true_r in F. exact F.
    + apply SmOff_live. sproj. discriminate.
    + intros En. exfalso. revert En. sproj. congruence.
    + apply T25_live. sproj. discriminate.
    + intros _. unfold hmarks, imarks. sproj. rewrite hmarks_user_only, imarks_user_only. auto.
    + unfold F24 in *. sproj. exact F.
  - (* no socket *)
    unfold conn_reset. rewrite C. cbv zeta.
    refine (conj _ (conj _ _)); [constructor | | ].
    + refine (conj _ (conj _ _)); sproj; auto; intros; try discriminate. congruence.
    + pose proof (ph_amo _ P) as M. unfold marks, hmarks, imarks, pending in *. sproj. rewrite hmarks_user_only, imarks_user_only. cbn [List.length filter].
      destruct (client_oh (oh s) && (reset_parser s || is_depth0 (ps s))); cbn; lia.
    + split.
      * intros _ _. sproj. reflexivity.
      * intros T. exfalso. revert T. unfold timed_has. sproj. rewrite timed_user_only; [discriminate | reflexivity].
    + left. left. sproj. exact C.
    + intros _. sproj. auto.
    + intros En. exfalso. revert En. sproj. congruence.
    + intros _. sproj. exact T0'.
    + intros X. exfalso. revert X. sproj. congruence.
    + unfold F24 in *. sproj. exact F.
Qed.

(* ------------------------------------------------------------------ user operations *)
Lemma PH_disc_cfg : forall s s', st s = Disconnected -> st s' = Disconnected ->
  handlers s' = handlers s -> idhandlers s' = idhandlers s -> oh s' = oh s -> reset_parser s' = reset_parser s -> ps s' = ps s ->
  timed s' = timed s -> sasl s' = sasl s -> tls_support s' = tls_support s -> tls_present s' = tls_present s ->
  secured s' = secured s -> sm_enabled s' = sm_enabled s -> sm_support s' = sm_support s -> sm_bind_saved s' = sm_bind_saved s ->
  PH s -> PH s'.
Proof.
  intros s s' D D' E1 E2 E3 E4 E5 E6 E7 E8 E9 E10 E11 E12 E13 P.
  assert (F : HFr s s') by (constructor; assumption). destruct (HFr_obs _ _ F) as (M & _ & _ & Q & Pe & Hh & Hi).
  constructor.
  - destruct (ph_ti _ P) as (A & B & C). refine (conj _ (conj _ _)); rewrite ?E8, ?E9, ?E10, ?Hh; auto.
  - rewrite M. apply P.
  - destruct (ph_t01 _ P) as [A B]. split.
    + intros O R. rewrite E7. apply A; congruence.
    + unfold T1, timed_has. rewrite E6, E7, Hh. exact B.
  - left. left. exact D'.
  - intros _. rewrite E11, E12, E13. apply (ph_smoff _ P D).
  - intros En. rewrite Q, Hi, Pe. apply (ph_se _ P). congruence.
  - intros _. rewrite E9. apply (ph_t25 _ P D).
Qed.
Lemma PHS_disc_cfg : forall s s', st s = Disconnected -> st s' = Disconnected ->
  handlers s' = handlers s -> idhandlers s' = idhandlers s -> oh s' = oh s -> reset_parser s' = reset_parser s -> ps s' = ps s ->
  timed s' = timed s -> sasl s' = sasl s -> tls_support s' = tls_support s -> tls_present s' = tls_present s ->
  secured s' = secured s -> sm_enabled s' = sm_enabled s -> sm_support s' = sm_support s -> sm_bind_saved s' = sm_bind_saved s ->
  F24 s' -> PHS s -> PHS s'.
Proof.
  intros s s' D D' E1 E2 E3 E4 E5 E6 E7 E8 E9 E10 E11 E12 E13 F (P & _ & _).
  refine (conj _ (conj _ F)); [apply (PH_disc_cfg s); assumption | intros X; congruence].
Qed.
Lemma PH_h_add_user : forall s, PH s -> PH (h_add HUser s).
Proof.
  intros s P. constructor.
  - apply TI_h_add; [reflexivity | apply P].
  - pose proof (Bd_h_add HUser 0 s s (Bd_refl s)) as B. destruct B as [B ? ? ?]. pose proof (ph_amo _ P). cbn in B. lia.
  - apply T01_h_add, P.
  - apply (MT_of (h_add HUser)); [apply CS_h_add | intros; apply PL_h_add; auto | apply P].
  - apply SmOff_h_add, P.
  - intros En. pose proof (QFr_h_add HUser s s eq_refl (QFr_refl s)) as Q.
    assert (En0 : sm_enabled s = true) by (revert En; unfold h_add; cases; auto).
    destruct (ph_se _ P En0) as (A & B & C). rewrite (qfr_q _ _ Q). unfold pending. rewrite (qfr_oh _ _ Q), (qfr_rp _ _ Q), (qfr_ps _ _ Q).
    repeat split; auto. destruct (id_has IKBind (h_add HUser s)) eqn:E; auto. rewrite (qfr_bind _ _ Q E) in B. discriminate.
  - apply T25_h_add, P.
Qed.
Lemma PH_id_add_user : forall s, PH s -> PH (id_add IKUser s).
Proof.
  intros s P. constructor.
  - apply TI_id_add, P.
  - pose proof (Bd_id_add IKUser 0 s s (Bd_refl s)) as B. destruct B as [B ? ? ?]. pose proof (ph_amo _ P). cbn in B. lia.
  - apply T01_id_add, P.
  - apply (MT_of (id_add IKUser)); [apply CS_id_add | intros; apply PL_id_add; auto | apply P].
  - apply SmOff_id_add, P.
  - intros En. pose proof (QFr_id_add IKUser s s eq_refl (QFr_refl s)) as Q.
    assert (En0 : sm_enabled s = true) by (revert En; unfold id_add; cases; auto).
    destruct (ph_se _ P En0) as (A & B & C). rewrite (qfr_q _ _ Q). unfold pending. rewrite (qfr_oh _ _ Q), (qfr_rp _ _ Q), (qfr_ps _ _ Q).
    repeat split; auto. destruct (id_has IKBind (id_add IKUser s)) eqn:E; auto. rewrite (qfr_bind _ _ Q E) in B. discriminate.
  - apply T25_id_add, P.
Qed.
Lemma imarks_id_add_user : forall s, imarks (id_add IKUser s) = imarks s.
Proof.
  intros s. unfold id_add. destruct (id_has IKUser s); [reflexivity|]. unfold imarks. sproj.
  rewrite filter_length_app. cbn [filter fst is_main_id List.length]. lia.
Qed.
Lemma PH_timed_add_user : forall n s, PH s -> PH (timed_add TUser n s).
Proof.
  intros n s. apply (PH_step_neutral (timed_add TUser n)); intros;
    auto using HFr_timed_add, TI_timed_add, CS_timed_add, PL_timed_add, SmOff_timed_add, Sn_timed_add, T25_timed_add.
  apply T01_timed_add; auto.
Qed.
Lemma F24_set_flags : forall w s, F24 s -> F24 (fst (set_flags w s)).
Proof.
  intros w s F. unfold set_flags. destruct (st s); auto.
  destruct (testbit w flag_conflict_a && existsb (testbit w) flag_conflict_b) eqn:E; auto.
  cbn [fst]. unfold F24. sproj. unfold flag_conflict_a, flag_conflict_b in E. cbn [existsb] in E.
  destruct (testbit w FLAG_DISABLE_TLS), (testbit w FLAG_MANDATORY_TLS); auto.
Qed.

Lemma PHS_inner : forall s s', PHS s -> PH s' -> Fr s s' ->
  (st s' = Connecting -> hmarks s' = hmarks s /\ imarks s' = imarks s /\ secured s' = secured s /\ tls_present s' = tls_present s) ->
  PHS s'.
Proof.
  intros s s' H P F C. apply (PHS_of s); auto; [ | apply (fr_f_tls_mandatory _ _ F) | apply (fr_f_tls_disabled _ _ F)].
  intros X. split; [destruct (fr_st _ _ F) as [E|E]; congruence | auto].
Qed.
Ltac cg_eq1 := first [reflexivity | cbv beta delta [xmpp_disconnect send_gated send_raw_m q_append timed_add conn_open_stream prepare_reset is_connected_owner]; cases; first [reflexivity | congruence]].
Ltac cg_eq := intros _; repeat split; cg_eq1.

Lemma PH_open_stream_raw : forall s, PH s -> PH (conn_open_stream (prepare_reset OpenRaw s)).
Proof.
  intros s P. constructor.
  - apply TI_conn_open_stream, TI_prepare_reset, P.
  - pose proof (ph_amo _ P) as M.
    assert (F : HFr (prepare_reset OpenRaw s) (conn_open_stream (prepare_reset OpenRaw s))) by eauto with hfrdb.
    rewrite (proj1 (HFr_obs _ _ F)). unfold marks, pending, prepare_reset in *. sproj. cbn [client_oh andb b2n].
    assert (hmarks (set_oh OpenRaw (set_reset_parser true s)) = hmarks s) as -> by reflexivity.
    assert (imarks (set_oh OpenRaw (set_reset_parser true s)) = imarks s) as -> by reflexivity. lia.
  - apply T01_conn_open_stream. apply T01_prepare_reset; [discriminate | apply P].
  - apply (MT_of (fun x => conn_open_stream (prepare_reset OpenRaw x))); [intros; eauto with csdb | intros; eauto with pldb | apply P].
  - apply SmOff_conn_open_stream, SmOff_prepare_reset, P.
  - intros En. assert (En0 : sm_enabled s = true) by (apply (Sn_conn_open_stream _ _ (Sn_prepare_reset OpenRaw s s (Sn_refl s))); exact En).
    destruct (ph_se _ P En0) as (A & B & C).
    assert (F : HFr (prepare_reset OpenRaw s) (conn_open_stream (prepare_reset OpenRaw s))) by eauto with hfrdb.
    destruct (HFr_obs _ _ F) as (_ & _ & _ & Q & Pe & _ & Hi). rewrite Q, Pe, Hi. repeat split; auto.
  - apply T25_conn_open_stream, T25_prepare_reset, P.
Qed.

Ltac ph_chain P :=
  match type of P with PH ?s0 => eapply (PH_neutral s0) end;
  [ eauto 20 with hfrdb | pose proof (ph_ti _ P); eauto 20 with tidb | pose proof (ph_t01 _ P); eauto 20 with t01db
  | destruct (ph_mt _ P); [left; eauto 20 with csdb | right; eauto 20 with pldb]
  | pose proof (ph_smoff _ P); eauto 20 with smoffdb | eauto 20 with sndb | pose proof (ph_t25 _ P); eauto 20 with t25db | exact P ].
Ltac phs_chain H :=
  let P := fresh "P" in pose proof (proj1 H) as P;
  match type of P with PH ?s0 => eapply (PHS_of s0) end; [ ph_chain P | let X := fresh in intros X; repeat split; first [exact X | cg_eq1 | revert X; cg_eq1] | cg_eq1 | cg_eq1 | exact H ].

Lemma PHS_connect_client : forall n s, PHS s -> PHS (fst (fst (connect_client n s))).
Proof.
  intros n s H. unfold connect_client. cbv zeta.
  cases; cbn [fst]; first [apply PHS_conn_connect; [phs_chain H | discriminate] | phs_chain H | exact H].
Qed.
Lemma PHS_set_flags : forall w s, PHS s -> PHS (fst (set_flags w s)).
Proof.
  intros w s H. pose proof (F24_set_flags w s (proj2 (proj2 H))) as F. revert F.
  unfold set_flags. destruct (st s) eqn:C; auto.
  destruct (testbit w flag_conflict_a && existsb (testbit w) flag_conflict_b) eqn:E; auto.
  cbn [fst]. intros F. apply (PHS_disc_cfg s); try reflexivity; auto.
Qed.
Lemma PHS_connect_component : forall n s, PHS s -> PHS (fst (fst (connect_component n s))).
Proof.
  intros n s H. unfold connect_component. destruct (negb (jid_set s && pass_set s)); [exact H|]. cbv zeta.
  match goal with |- context [set_flags ?w s] => pose proof (PHS_set_flags w s H) as Hx; destruct (set_flags w s) as [s1 rc] end.
  cbn [fst] in Hx. destruct (negb (f_tls_disabled s1)) eqn:D; [exact Hx|]. apply negb_false_iff in D.
  apply PHS_conn_connect; [phs_chain Hx | intros _; exact D].
Qed.

Lemma PHS_step0 : forall s op, PHS s -> PHS (fst (step0 s op)).
Proof.
  intros s op H. unfold step0. destruct (crashed s); [exact H|]. destruct op.
  - (* OpSetFlags *) pose proof (PHS_set_flags w s H) as Q. destruct (set_flags w s). exact Q.
  - destruct (st s) eqn:C; cbn [fst ret]; auto. apply (PHS_disc_cfg s); try reflexivity; auto; apply H.
  - destruct (st s) eqn:C; cbn [fst ret]; auto. apply (PHS_disc_cfg s); try reflexivity; auto; apply H.
  - destruct (st s) eqn:C; cbn [fst ret]; auto. apply (PHS_disc_cfg s); try reflexivity; auto; apply H.
  - (* OpUserHandlers *)
    destruct (st s) eqn:C; cbn [fst ret]; auto.
    assert (H1 : PHS (if stanza then id_add IKUser (h_add HUser s) else s)).
    { destruct stanza; auto. apply (PHS_of s); [apply PH_id_add_user, PH_h_add_user, H | intros X; exfalso; revert X; unfold id_add, h_add; cases; sproj; congruence
        | unfold id_add, h_add; cases; reflexivity | unfold id_add, h_add; cases; reflexivity | exact H]. }
    assert (C1 : st (if stanza then id_add IKUser (h_add HUser s) else s) = Disconnected) by (destruct stanza; auto; unfold id_add, h_add; cases; auto).
    generalize dependent (if stanza then id_add IKUser (h_add HUser s) else s). intros x H1 C1.
    assert (H2 : PHS (match timed with Some _ => timed_add TUser now x | None => x end)).
    { destruct timed; auto. apply (PHS_of x); [apply PH_timed_add_user, H1 | intros X; exfalso; revert X; unfold timed_add; cases; sproj; congruence
        | unfold timed_add; cases; reflexivity | unfold timed_add; cases; reflexivity | exact H1]. }
    phs_chain H2.
  - destruct (st s) eqn:C; cbn [fst ret]; auto. apply (PHS_disc_cfg s); try reflexivity; auto; apply H.
  - cbn [fst ret]. phs_chain H.
  - (* OpConnectClient *) pose proof (PHS_connect_client now s H) as Q. destruct (connect_client now s) as [[s1 o] rc]. exact Q.
  - (* OpConnectRaw *)
    destruct (st s) eqn:C; cbn [fst]; auto.
    assert (Hx : PHS (set_is_raw true s)) by phs_chain H.
    pose proof (PHS_connect_client now _ Hx) as Q. destruct (connect_client now (set_is_raw true s)) as [[s1 o] rc]. exact Q.
  - (* OpConnectComponent *) pose proof (PHS_connect_component now s H) as Q. destruct (connect_component now s) as [[s1 o] rc]. exact Q.
  - apply PHS_run_once, H.
  - cbn [fst ret]. apply (PHS_inner s); [exact H | apply PH_xmpp_disconnect, H | eauto with frdb | cg_eq].
  - cbn [fst ret]. pose proof (proj1 H) as P. apply (PHS_inner s); [exact H | ph_chain P | eauto with frdb | cg_eq].
  - cbn [fst ret]. pose proof (proj1 H) as P. apply (PHS_inner s); [exact H | ph_chain P | eauto with frdb | cg_eq].
  - exact H.
  - destruct (is_raw s); cbn [fst ret]; auto.
    apply (PHS_inner s); [exact H | apply PH_open_stream_raw, H | eauto with frdb | cg_eq].
  - destruct (st s); cbn [fst ret]; auto;
      (apply (PHS_inner s); [exact H | apply PH_conn_disconnect, H | eauto with frdb | ]);
      unfold conn_disconnect; cases; cbn [fst]; intros X;
        try (exfalso; revert X; unfold reset_sm_for_reconnect; cases; sproj; congruence); repeat split; reflexivity.
Qed.
Lemma PHS_note_outs : forall outs s, PHS s -> PHS (note_outs outs s).
Proof. intros outs s H. unfold note_outs. phs_chain H. Qed.
Lemma PHS_step : forall s op, PHS s -> PHS (fst (step s op)).
Proof. intros s op H. rewrite step_eq. cbn [fst]. apply PHS_note_outs, PHS_step0, H. Qed.
Lemma PHS_init : PHS init_state.
Proof.
  refine (conj _ (conj _ _)); [constructor | | ].
  - refine (conj _ (conj _ _)); cbn; auto; discriminate.
  - cbn. lia.
  - split; [intros _ _; reflexivity | intros T; discriminate].
  - left. left. reflexivity.
  - intros _. cbn. auto.
  - intros En. discriminate.
  - intros _. reflexivity.
  - intros X. discriminate.
  - reflexivity.
Qed.
