(* Shared infrastructure for the C13 / C01 proofs over NegModel.
   Layout (each part only uses the ones above it):
     1. tactics (projections through setters, one conditional at a time), the "core" and "deep" views of a
        state, frame lemmas for the plumbing functions (one per model function, automatic proofs);
     2. output counters, the ghost observer, the generic induction over operation sequences;
     3. the invariant  Inv mode pend s acc  = lifecycle/crash (LifeI) + stream error (SerrI) + negotiation
        phase (DeepI) + position in the step (ModeI), stated on the two views and on the outputs already
        produced in the step, with one abstract transition lemma per kind of state change;
     4. preservation lemmas, one per model function (auth, the stanza handlers, id handlers, dispatch,
        open handlers, feed_item(s), timed handlers, conn_established, run_once, conn_connect, step0, step).
        The handler bodies are walked by a generic head-first tactic (iwalk / leaf), so that small edits of
        a handler body (HSm in particular) do not require changes here;
     5. the consequences used by NegProofs_C13.v / NegProofs_C01.v (TopInv, step_cases, ok_*_step). *)
Require Import LV.Common.Bytes LV.Gen.Gen_neg LV.Model.NegState LV.Model.NegModel LV.Spec.NegSpec.
From Coq Require Import Lia ZifyBool Bool.
Local Open Scope Z_scope.

(* ------------------------------------------------------------------ tactics *)

(* [p (set_f v s)] where p is a projection of state/ghost: reduce it (no list of field names needed,
   so it survives added fields) *)
Ltac sproj_term p f v s :=
  lazymatch type of s with state => idtac | ghost => idtac end;
  lazymatch type of (f v s) with state => idtac | ghost => idtac end;
  is_const p; is_const f;
  let r := eval cbn [p f] in (p (f v s)) in
  first [ constr_eq r v | constr_eq r (p s) ];
  change (p (f v s)) with r in *.
Ltac sproj1 :=
  match goal with
  | |- context [?p (?f ?v ?s)] => sproj_term p f v s
  | H : context [?p (?f ?v ?s)] |- _ => sproj_term p f v s
  end.
Ltac sproj := repeat sproj1.

(* destruct the scrutinee of the outermost-found if / match of the goal, once *)
Ltac case_goal :=
  match goal with
  | |- context [if ?c then _ else _] =>
      lazymatch c with
      | context [if _ then _ else _] => fail
      | context [match _ with _ => _ end] => fail
      | _ => destruct c eqn:?
      end
  | |- context [match ?c with _ => _ end] =>
      lazymatch c with
      | context [if _ then _ else _] => fail
      | context [match _ with _ => _ end] => fail
      | _ => destruct c eqn:?
      end
  end.

(* frame lemmas: unfold the named functions, split every conditional, conclude by computation *)
Ltac frame_by_cases := repeat (try reflexivity; case_goal); try reflexivity.

(* ------------------------------------------------------------------ the core view *)
(* Every field that the lifecycle / crash / stream-error invariants read.  The plumbing functions of
   the model (queues, timers, handler lists, SM bookkeeping) leave it unchanged. *)
Record core_t : Type := mkCore {
  c_st : cstate; c_nd : bool; c_raw : bool; c_alloc : bool; c_crashed : bool;
  c_se : option (Z * bool);
  c_att : bool; c_nc : nat; c_ndisc : nat; c_rawc : bool; c_serr : option (Z * bool); c_sebad : bool
}.
Definition core (s : state) : core_t :=
  mkCore (st s) (neg_done s) (is_raw s) (sm_alloc s) (crashed s) (stream_error s)
         (g_attempt (gh s)) (g_connects (gh s)) (g_disconnects (gh s)) (g_rawc (gh s))
         (g_serr (gh s)) (g_se_bad (gh s)).

Lemma core_fields s s' : core s' = core s ->
  st s' = st s /\ neg_done s' = neg_done s /\ is_raw s' = is_raw s /\ sm_alloc s' = sm_alloc s /\
  crashed s' = crashed s /\ stream_error s' = stream_error s /\
  g_attempt (gh s') = g_attempt (gh s) /\ g_connects (gh s') = g_connects (gh s) /\
  g_disconnects (gh s') = g_disconnects (gh s) /\ g_rawc (gh s') = g_rawc (gh s) /\
  g_serr (gh s') = g_serr (gh s) /\ g_se_bad (gh s') = g_se_bad (gh s).
Proof. unfold core; intros H; injection H; intros; repeat split; assumption. Qed.

(* ------------------------------------------------------------------ the deep view *)
(* What the "no connect report once disconnected" argument reads in addition. *)
Record deep_t : Type := mkDeep {
  d_handlers : list hkind; d_ids : list idk; d_oh : openh; d_ps : pstate;
  d_secured : bool; d_tlsp : bool; d_tlsf : bool; d_tlss : bool; d_mand : bool; d_dis : bool; d_rp : bool
}.
(* the id handlers of the library (the user's id handler, IKUser, is registered at any time and survives
   a reset: it is not part of the negotiation phase) *)
Definition libids (l : list (idk * bool)) : list idk := filter (fun k => negb (is_user_id k)) (map fst l).
Definition deep (s : state) : deep_t :=
  mkDeep (map fst (handlers s)) (libids (idhandlers s)) (oh s) (ps s)
         (secured s) (tls_present s) (tls_failed s) (tls_support s) (f_tls_mandatory s) (f_tls_disabled s)
         (reset_parser s).

Lemma deep_fields s s' : deep s' = deep s ->
  map fst (handlers s') = map fst (handlers s) /\ libids (idhandlers s') = libids (idhandlers s) /\
  oh s' = oh s /\ ps s' = ps s /\ secured s' = secured s /\ tls_present s' = tls_present s /\
  tls_failed s' = tls_failed s /\ tls_support s' = tls_support s /\
  f_tls_mandatory s' = f_tls_mandatory s /\ f_tls_disabled s' = f_tls_disabled s /\ reset_parser s' = reset_parser s.
Proof. unfold deep; intros H; injection H; intros; repeat split; assumption. Qed.

(* ------------------------------------------------------------------ plumbing: core and deep frames *)
Lemma q_append_core w u m s : core (q_append w u m s) = core s.
Proof. unfold q_append. frame_by_cases. Qed.
Lemma q_append_deep w u m s : deep (q_append w u m s) = deep s.
Proof. unfold q_append. frame_by_cases. Qed.

Lemma send_gated_core w u m s : core (send_gated w u m s) = core s.
Proof. unfold send_gated. case_goal; [apply q_append_core | reflexivity]. Qed.
Lemma send_gated_deep w u m s : deep (send_gated w u m s) = deep s.
Proof. unfold send_gated. case_goal; [apply q_append_deep | reflexivity]. Qed.

Lemma send_raw_m_core w u m s : core (send_raw_m w u m s) = core s.
Proof. unfold send_raw_m. case_goal; try reflexivity; apply q_append_core. Qed.
Lemma send_raw_m_deep w u m s : deep (send_raw_m w u m s) = deep s.
Proof. unfold send_raw_m. case_goal; try reflexivity; apply q_append_deep. Qed.

Lemma timed_add_core k now s : core (timed_add k now s) = core s.
Proof. unfold timed_add. frame_by_cases. Qed.
Lemma timed_add_deep k now s : deep (timed_add k now s) = deep s.
Proof. unfold timed_add. frame_by_cases. Qed.
Lemma timed_del_core k s : core (timed_del k s) = core s.
Proof. reflexivity. Qed.
Lemma timed_del_deep k s : deep (timed_del k s) = deep s.
Proof. reflexivity. Qed.
Lemma timed_reset_all_core now s : core (timed_reset_all now s) = core s.
Proof. reflexivity. Qed.
Lemma timed_reset_all_deep now s : deep (timed_reset_all now s) = deep s.
Proof. reflexivity. Qed.
Lemma timed_set_stamp_core k now s : core (timed_set_stamp k now s) = core s.
Proof. reflexivity. Qed.
Lemma timed_set_stamp_deep k now s : deep (timed_set_stamp k now s) = deep s.
Proof. reflexivity. Qed.

Lemma h_add_core k s : core (h_add k s) = core s.
Proof. unfold h_add. frame_by_cases. Qed.
Lemma h_del_core k s : core (h_del k s) = core s.
Proof. reflexivity. Qed.
Lemma id_add_core k s : core (id_add k s) = core s.
Proof. unfold id_add. frame_by_cases. Qed.
Lemma id_del_core k s : core (id_del k s) = core s.
Proof. reflexivity. Qed.

Lemma sm_queue_cleanup_core h s : core (sm_queue_cleanup h s) = core s.
Proof. reflexivity. Qed.
Lemma sm_queue_cleanup_deep h s : deep (sm_queue_cleanup h s) = deep s.
Proof. reflexivity. Qed.

Lemma fold_send_raw_core (q : list (welem * bool * bool * Z)) : forall s,
  core (fold_left (fun a x => send_raw_m (fst (fst (fst x))) (snd (fst (fst x))) (snd (fst x)) a) q s) = core s.
Proof. induction q as [|x q IH]; intros s; cbn [fold_left]; [reflexivity|]. rewrite IH. apply send_raw_m_core. Qed.
Lemma fold_send_raw_deep (q : list (welem * bool * bool * Z)) : forall s,
  deep (fold_left (fun a x => send_raw_m (fst (fst (fst x))) (snd (fst (fst x))) (snd (fst x)) a) q s) = deep s.
Proof. induction q as [|x q IH]; intros s; cbn [fold_left]; [reflexivity|]. rewrite IH. apply send_raw_m_deep. Qed.
Lemma sm_queue_resend_core s : core (sm_queue_resend s) = core s.
Proof. unfold sm_queue_resend. rewrite fold_send_raw_core. reflexivity. Qed.
Lemma sm_queue_resend_deep s : deep (sm_queue_resend s) = deep s.
Proof. unfold sm_queue_resend. rewrite fold_send_raw_deep. reflexivity. Qed.

Lemma xmpp_disconnect_core now s : core (xmpp_disconnect now s) = core s.
Proof. unfold xmpp_disconnect. case_goal; try reflexivity; rewrite timed_add_core; apply send_gated_core. Qed.
Lemma xmpp_disconnect_deep now s : deep (xmpp_disconnect now s) = deep s.
Proof. unfold xmpp_disconnect. case_goal; try reflexivity; rewrite timed_add_deep; apply send_gated_deep. Qed.

Lemma conn_open_stream_core s : core (conn_open_stream s) = core s.
Proof. apply send_gated_core. Qed.
Lemma conn_open_stream_deep s : deep (conn_open_stream s) = deep s.
Proof. apply send_gated_deep. Qed.

Lemma prepare_reset_core h s : core (prepare_reset h s) = core s.
Proof. reflexivity. Qed.

Lemma reset_sm_core s : core (reset_sm_for_reconnect s) = core s.
Proof. unfold reset_sm_for_reconnect. frame_by_cases. Qed.
Lemma reset_sm_deep s : deep (reset_sm_for_reconnect s) = deep s.
Proof. unfold reset_sm_for_reconnect. frame_by_cases. Qed.

Lemma session_start_core now s : core (session_start now s) = core s.
Proof. unfold session_start. rewrite send_gated_core, timed_add_core. apply id_add_core. Qed.
Lemma sm_enable_core s : core (sm_enable s) = core s.
Proof. unfold sm_enable. change (core (send_gated (WEnable (negb (sm_dont_request (h_add HSm s)))) false true (h_add HSm s)) = core s).
  rewrite send_gated_core. apply h_add_core. Qed.
Lemma auth_legacy_core now s : core (auth_legacy now s) = core s.
Proof. unfold auth_legacy. case_goal; [apply xmpp_disconnect_core|]. rewrite send_gated_core, timed_add_core. apply id_add_core. Qed.
Lemma sm_handle_core e s : core (sm_handle e s) = core s.
Proof. unfold sm_handle. repeat case_goal; try reflexivity; apply send_gated_core. Qed.
Lemma sm_handle_deep e s : deep (sm_handle e s) = deep s.
Proof. unfold sm_handle. repeat case_goal; try reflexivity; apply send_gated_deep. Qed.

Global Hint Rewrite q_append_core send_gated_core send_raw_m_core timed_add_core timed_del_core
  timed_reset_all_core timed_set_stamp_core h_add_core h_del_core id_add_core id_del_core
  sm_queue_cleanup_core sm_queue_resend_core xmpp_disconnect_core conn_open_stream_core
  prepare_reset_core reset_sm_core session_start_core sm_enable_core auth_legacy_core sm_handle_core : ncore.
Global Hint Rewrite q_append_deep send_gated_deep send_raw_m_deep timed_add_deep timed_del_deep
  timed_reset_all_deep timed_set_stamp_deep sm_queue_cleanup_deep sm_queue_resend_deep
  xmpp_disconnect_deep conn_open_stream_deep reset_sm_deep sm_handle_deep : ndeep.

(* ------------------------------------------------------------------ output counters *)
Definition is_conn (o : out) : bool := match o with OConnect => true | _ => false end.
Definition is_dsc (o : out) : bool := match o with ODisconnect _ _ => true | _ => false end.
Definition is_rawc (o : out) : bool := match o with ORawConnect => true | _ => false end.
(* outputs that only a specific place may produce: the crash marker, and the answers of the two query
   operations (which no internal function emits) *)
Definition is_crash (o : out) : bool := match o with OCrash | OIs _ _ _ _ | OFlags _ _ => true | _ => false end.
(* an output that the lifecycle observer ignores *)
Definition neutral (o : out) : bool := negb (is_conn o || is_dsc o || is_rawc o || is_crash o).

Fixpoint cnt (p : out -> bool) (l : emit) : nat :=
  match l with [] => O | x :: r => ((if p x then 1 else 0) + cnt p r)%nat end.
Lemma cnt_app p a b : cnt p (a ++ b) = (cnt p a + cnt p b)%nat.
Proof. induction a as [|x a IH]; cbn [app cnt]; [reflexivity|]. rewrite IH. lia. Qed.
Lemma cnt_zero_existsb p l : cnt p l = O <-> existsb p l = false.
Proof. induction l as [|x l IH]; cbn [cnt existsb]; [tauto|]. destruct (p x); cbn [orb]; [split; [lia|discriminate]|]. rewrite <- IH. lia. Qed.
Lemma cnt_neutral p l : forallb neutral l = true -> (forall o, p o = true -> neutral o = false) -> cnt p l = O.
Proof.
  intros H Hp. induction l as [|x l IH]; [reflexivity|]. cbn [forallb] in H. apply andb_true_iff in H. destruct H as [H1 H2].
  cbn [cnt]. destruct (p x) eqn:E; [apply Hp in E; congruence|]. rewrite IH by assumption. reflexivity.
Qed.
Lemma existsb_neutral p l : forallb neutral l = true -> (forall o, p o = true -> neutral o = false) -> existsb p l = false.
Proof. intros. apply cnt_zero_existsb. now apply cnt_neutral. Qed.

Definition scan_end (b : bool) (l : emit) : bool := b || existsb is_dsc l.
Lemma scan_app b a : forall c, scan_no_connect_after b (a ++ c) = scan_no_connect_after b a && scan_no_connect_after (scan_end b a) c.
Proof.
  revert b. induction a as [|x a IH]; intros b c; cbn [app].
  - unfold scan_end. cbn [existsb scan_no_connect_after]. rewrite orb_false_r. reflexivity.
  - unfold scan_end in *. destruct x; cbn [scan_no_connect_after existsb is_dsc]; rewrite ?IH, ?orb_false_l; try reflexivity.
    + rewrite andb_assoc. reflexivity.
    + rewrite andb_assoc. reflexivity.
    + rewrite orb_true_r. cbn [orb]. reflexivity.
Qed.
Lemma scan_neutral b l : forallb neutral l = true -> scan_no_connect_after b l = true.
Proof.
  induction l as [|x l IH]; intros H; [reflexivity|]. cbn [forallb] in H. apply andb_true_iff in H. destruct H as [H1 H2].
  destruct x; cbn [scan_no_connect_after]; try (now apply IH); discriminate.
Qed.
Lemma scan_end_neutral b l : forallb neutral l = true -> scan_end b l = b.
Proof.
  intros H. unfold scan_end. rewrite (existsb_neutral is_dsc l H); [apply orb_false_r|].
  intros o Ho. destruct o; try discriminate; reflexivity.
Qed.

(* the ghost observer of a step *)
Lemma fold_note_out_fields (o : emit) : forall g,
  let g' := fold_left note_out o g in
  g_connects g' = (g_connects g + cnt is_conn o)%nat /\
  g_disconnects g' = (g_disconnects g + cnt is_dsc o)%nat /\
  g_rawc g' = (g_rawc g || existsb is_rawc o) /\
  g_attempt g' = g_attempt g /\ g_serr g' = g_serr g /\ g_se_bad g' = g_se_bad g /\
  g_conn_unjust g' = g_conn_unjust g.
Proof.
  induction o as [|x o IH]; intros g; cbn [fold_left cnt existsb].
  - rewrite !Nat.add_0_r, orb_false_r. repeat split; reflexivity.
  - specialize (IH (note_out g x)). cbn zeta in IH. destruct IH as (I1 & I2 & I3 & I4 & I5 & I6 & I7).
    cbn zeta. rewrite I1, I2, I3, I4, I5, I6, I7. clear.
    destruct x as [ | | | | [|] | | | | | | | | | ]; cbn [note_out is_conn is_dsc is_rawc]; sproj;
      rewrite ?orb_false_l, ?orb_true_r, ?orb_true_l; repeat split; try reflexivity; try lia.
Qed.

(* ------------------------------------------------------------------ generic induction over operation sequences *)
Section CheckRun.
  Variable Inv : state -> Prop.
  Variable ok : state -> op -> state -> list out -> bool.
  Hypothesis Hstep : forall s o, Inv s -> Inv (fst (step s o)).
  Hypothesis Hok : forall s o, Inv s -> ok s o (fst (step s o)) (snd (step s o)) = true.
  Lemma check_run_inv : forall ops s, Inv s -> check_run ok s ops = true.
  Proof.
    induction ops as [|o r IH]; intros s H; cbn [check_run]; [reflexivity|].
    pose proof (Hstep s o H) as H1. pose proof (Hok s o H) as H2.
    destruct (step s o) as [s' outs]. cbn [fst snd] in *. rewrite H2. cbn [andb]. now apply IH.
  Qed.
End CheckRun.

Lemma run_inv (Inv : state -> Prop) :
  (forall s o, Inv s -> Inv (fst (step s o))) ->
  forall ops s, Inv s -> Inv (fst (run s ops)).
Proof.
  intros Hstep. induction ops as [|o r IH]; intros s H; cbn [run]; [exact H|].
  pose proof (Hstep s o H) as H1. destruct (step s o) as [s1 o1]. cbn [fst] in H1.
  specialize (IH s1 H1). destruct (run s1 r) as [s2 o2]. exact IH.
Qed.

(* ------------------------------------------------------------------ the lifecycle / crash invariant *)
(* Stated on the core view and the outputs already produced in the current step ("acc"): the ghost
   counters are updated from the outputs only when the step is over, so while a step runs the
   observer's count is  (counter in the ghost) + (occurrences in acc). *)
Definition vC (c : core_t) (acc : emit) : nat := (c_nc c + cnt is_conn acc)%nat.
Definition vD (c : core_t) (acc : emit) : nat := (c_ndisc c + cnt is_dsc acc)%nat.
Definition vR (c : core_t) (acc : emit) : bool := c_rawc c || existsb is_rawc acc.
Definition vB (c : core_t) : bool := Nat.ltb 0 (c_ndisc c) && c_att c.
Record LifeI (c : core_t) (acc : emit) : Prop := mkLife {
  L1 : c_st c <> Disconnected -> c_att c = true /\ vD c acc = O;
  L2 : c_st c = Disconnected -> c_att c = true -> vD c acc = 1%nat;
  L3 : c_st c = Disconnected -> c_nd c = false;
  L4 : c_nd c = true -> c_st c = Connected /\ ((0 < vC c acc)%nat \/ vR c acc = true);
  L5 : c_st c <> Disconnected -> c_nd c = false -> vC c acc = O /\ vR c acc = false;
  L6 : c_raw c = true \/ (vC c acc <= 1)%nat;
  L7 : scan_no_connect_after (vB c) acc = true;
  L8 : c_att c = false -> vD c acc = O;
  K1 : c_crashed c = false /\ existsb is_crash acc = false;
  K2 : c_st c <> Disconnected -> c_alloc c = true
}.
Definition Life (s : state) (acc : emit) : Prop := LifeI (core s) acc.

Lemma Life_core s s' acc : core s' = core s -> Life s acc -> Life s' acc.
Proof. unfold Life. intros ->. exact (fun x => x). Qed.

Lemma neutral_facts l : forallb neutral l = true ->
  cnt is_conn l = O /\ cnt is_dsc l = O /\ existsb is_rawc l = false /\ existsb is_crash l = false.
Proof.
  intros H. repeat split; [apply cnt_neutral | apply cnt_neutral | apply existsb_neutral | apply existsb_neutral];
    try assumption; intros o Ho; destruct o; try discriminate; reflexivity.
Qed.

Ltac core_simpl := cbn [c_st c_nd c_raw c_alloc c_crashed c_se c_att c_nc c_ndisc c_rawc c_serr c_sebad] in *.
(* discharge / drop implications whose premise is a decided (dis)equality of connection states *)
Ltac st_clean :=
  repeat match goal with
  | H : ?a <> ?b -> _ |- _ =>
      first [ let H' := fresh in assert (H' : a <> b) by discriminate; specialize (H H'); clear H'
            | constr_eq a b; clear H ]
  | H : ?a = ?b -> _ |- _ =>
      is_constructor_app a; is_constructor_app b;
      first [ constr_eq a b; specialize (H eq_refl) | clear H ]
  end
with is_constructor_app a := lazymatch a with Disconnected => idtac | Connecting => idtac | Connected => idtac end.
Ltac st_goal :=
  repeat match goal with
  | |- _ /\ _ => split
  | |- ?a <> ?b -> _ => let H := fresh in intros H; try (exfalso; apply H; reflexivity)
  | |- ?a = ?b -> _ => let H := fresh in intros H; try discriminate H
  end.

(* neutral outputs *)
Lemma LifeI_neutral c acc l : forallb neutral l = true -> LifeI c acc -> LifeI c (acc ++ l).
Proof.
  intros Hn H. destruct (neutral_facts l Hn) as (N1 & N2 & N3 & N4).
  destruct H. constructor; unfold vC, vD, vR in *;
    rewrite ?cnt_app, ?existsb_app, ?N1, ?N2, ?N3, ?N4, ?Nat.add_0_r, ?orb_false_r; try assumption.
  rewrite scan_app, (scan_neutral _ l Hn), andb_true_r. assumption.
Qed.

Lemma scan_end_zero c acc : c_ndisc c = O -> cnt is_dsc acc = O -> scan_end (vB c) acc = false.
Proof.
  intros H1 H2. unfold scan_end, vB. rewrite H1. cbn [Nat.ltb Nat.leb andb orb]. now apply cnt_zero_existsb.
Qed.

(* "connected" reported by stream_negotiation_success *)
Lemma LifeI_connect c acc :
  c_st c = Connected -> (c_raw c = true \/ c_nd c = false) -> LifeI c acc ->
  LifeI (mkCore (c_st c) true (c_raw c) (c_alloc c) (c_crashed c) (c_se c) (c_att c) (c_nc c) (c_ndisc c) (c_rawc c) (c_serr c) (c_sebad c))
        (acc ++ [OConnect]).
Proof.
  intros Hst Hr H. destruct H as [L1 L2 L3 L4 L5 L6 L7 L8 K1 K2].
  unfold vC, vD, vR, vB in *. rewrite Hst in *. st_clean. destruct L1 as [La Ld].
  assert (Hse : scan_end (vB c) acc = false) by (apply scan_end_zero; clear - Ld; lia).
  unfold vB in Hse.
  constructor; unfold vC, vD, vR, vB; core_simpl; rewrite ?Hst;
    rewrite ?cnt_app, ?existsb_app, ?scan_app; cbn [cnt existsb is_conn is_dsc is_rawc is_crash scan_no_connect_after];
    rewrite ?Nat.add_0_r, ?orb_false_r, ?orb_true_r; st_goal; try assumption; try reflexivity.
  - left. clear. lia.
  - destruct Hr as [Hr|Hr]; [left; exact Hr|]. right. destruct (L5 Hr) as [E _]. clear - E. lia.
  - rewrite Hse, L7. reflexivity.
  - apply K1.
  - apply K1.
Qed.

(* the disconnect notification; everything before it in [l] is neutral *)
Lemma LifeI_disconnect c acc l e se cr sb :
  c_st c <> Disconnected -> forallb neutral l = true -> LifeI c acc ->
  LifeI (mkCore Disconnected false (c_raw c) (c_alloc c) (c_crashed c) cr (c_att c) (c_nc c) (c_ndisc c) (c_rawc c) (c_serr c) sb)
        (acc ++ l ++ [ODisconnect e se]).
Proof.
  intros Hst Hn H. apply (LifeI_neutral _ _ l Hn) in H. rewrite app_assoc. revert H. generalize (acc ++ l). clear acc l Hn. intros acc H.
  destruct H as [L1 L2 L3 L4 L5 L6 L7 L8 K1 K2].
  unfold vC, vD, vR, vB in *. destruct (L1 Hst) as [La Ld].
  constructor; unfold vC, vD, vR, vB; core_simpl; rewrite ?Hst;
    rewrite ?cnt_app, ?existsb_app, ?scan_app; cbn [cnt existsb is_conn is_dsc is_rawc is_crash scan_no_connect_after];
    rewrite ?Nat.add_0_r, ?orb_false_r, ?orb_true_r; st_goal; try assumption; try reflexivity.
  - clear - Ld. lia.
  - rewrite L7. reflexivity.
  - congruence.
  - apply K1.
  - apply K1.
Qed.

(* ORawConnect from conn_established (state just became Connected) *)
Lemma LifeI_rawconnect c acc :
  c_st c = Connecting -> LifeI c acc ->
  LifeI (mkCore Connected true (c_raw c) (c_alloc c) (c_crashed c) (c_se c) (c_att c) (c_nc c) (c_ndisc c) (c_rawc c) (c_serr c) (c_sebad c))
        (acc ++ [ORawConnect]).
Proof.
  intros Hst H. destruct H as [L1 L2 L3 L4 L5 L6 L7 L8 K1 K2].
  unfold vC, vD, vR, vB in *. rewrite Hst in *. st_clean. destruct L1 as [La Ld].
  assert (Hse : scan_end (vB c) acc = false) by (apply scan_end_zero; clear - Ld; lia).
  unfold vB in Hse.
  constructor; unfold vC, vD, vR, vB; core_simpl; rewrite ?Hst;
    rewrite ?cnt_app, ?existsb_app, ?scan_app; cbn [cnt existsb is_conn is_dsc is_rawc is_crash scan_no_connect_after];
    rewrite ?Nat.add_0_r, ?orb_false_r, ?orb_true_r; st_goal; try assumption; try reflexivity.
  - right. reflexivity.
  - rewrite Hse, L7. reflexivity.
  - apply K1.
  - apply K1.
Qed.

(* Connecting -> Connected without a report *)
Lemma LifeI_established c acc :
  c_st c = Connecting -> LifeI c acc ->
  LifeI (mkCore Connected (c_nd c) (c_raw c) (c_alloc c) (c_crashed c) (c_se c) (c_att c) (c_nc c) (c_ndisc c) (c_rawc c) (c_serr c) (c_sebad c)) acc.
Proof.
  intros Hst H. destruct H as [L1 L2 L3 L4 L5 L6 L7 L8 K1 K2].
  unfold vC, vD, vR, vB in *. rewrite Hst in *. st_clean.
  constructor; unfold vC, vD, vR, vB; core_simpl; rewrite ?Hst;
    rewrite ?cnt_app, ?existsb_app, ?scan_app; cbn [cnt existsb is_conn is_dsc is_rawc is_crash scan_no_connect_after];
    rewrite ?Nat.add_0_r, ?orb_false_r, ?orb_true_r; st_goal; try assumption; try reflexivity.
  all: try (apply L1); try (apply K1).
  - destruct (L4 H) as [E _]; discriminate E.
  - apply L5; assumption.
  - apply L5; assumption.
Qed.

(* fields of the core that the lifecycle invariant does not read *)
Lemma LifeI_irrelevant c acc se serr sb :
  LifeI c acc ->
  LifeI (mkCore (c_st c) (c_nd c) (c_raw c) (c_alloc c) (c_crashed c) se (c_att c) (c_nc c) (c_ndisc c) (c_rawc c) serr sb) acc.
Proof. intros H. destruct H. constructor; assumption. Qed.

(* ------------------------------------------------------------------ handler lists seen through the deep view *)
Lemma mech_eqb_eq a b : mech_eqb a b = true <-> a = b.
Proof. destruct a, b; cbn; try (split; [discriminate|congruence]); try tauto. rewrite Nat.eqb_eq. split; congruence. Qed.
Lemma hkind_eqb_eq a b : hkind_eqb a b = true <-> a = b.
Proof.
  destruct a, b; cbn [hkind_eqb]; try (split; [discriminate|congruence]); try tauto.
  - rewrite mech_eqb_eq. split; congruence.
  - rewrite andb_true_iff, !Nat.eqb_eq. split; [intros [-> ->]; reflexivity | intros H; injection H; auto].
Qed.
Lemma hkind_eqb_refl a : hkind_eqb a a = true.
Proof. now apply hkind_eqb_eq. Qed.
Lemma idk_eqb_eq a b : idk_eqb a b = true <-> a = b.
Proof. destruct a, b; cbn; split; congruence. Qed.

Definition hkinds (s : state) : list hkind := map fst (handlers s).
Definition idkinds (s : state) : list idk := libids (idhandlers s).

Lemma h_has_In k s : h_has k s = true <-> In k (hkinds s).
Proof.
  unfold h_has, hkinds. rewrite existsb_exists. split.
  - intros [x [Hx E]]. apply hkind_eqb_eq in E. subst. now apply in_map.
  - intros H. apply in_map_iff in H. destruct H as [x [E Hx]]. exists x. split; [assumption|]. subst. apply hkind_eqb_refl.
Qed.
Lemma id_has_In k s : is_user_id k = false -> (id_has k s = true <-> In k (idkinds s)).
Proof.
  intros U. unfold id_has, idkinds, libids. rewrite existsb_exists, filter_In. split.
  - intros [x [Hx E]]. apply idk_eqb_eq in E. subst. split; [now apply in_map|rewrite U; reflexivity].
  - intros [H _]. apply in_map_iff in H. destruct H as [x [E Hx]]. exists x. split; [assumption|]. subst. now apply idk_eqb_eq.
Qed.

Lemma hkinds_h_add k s k' : In k' (hkinds (h_add k s)) <-> In k' (hkinds s) \/ k' = k.
Proof.
  unfold h_add. destruct (h_has k s) eqn:E.
  - split; [auto|]. intros [H|H]; [assumption|]. subst. now apply h_has_In.
  - unfold hkinds. sproj. rewrite map_app, in_app_iff. cbn. intuition.
Qed.
Lemma hkinds_h_del k s k' : In k' (hkinds (h_del k s)) <-> In k' (hkinds s) /\ k' <> k.
Proof.
  unfold h_del, hkinds. sproj. rewrite !in_map_iff. split.
  - intros [x [E Hx]]. apply filter_In in Hx. destruct Hx as [Hx Hn]. subst. split; [exists x; auto|].
    intros Q. rewrite Q, hkind_eqb_refl in Hn. discriminate.
  - intros [[x [E Hx]] Hn]. exists x. split; [assumption|]. apply filter_In. split; [assumption|]. subst.
    destruct (hkind_eqb k (fst x)) eqn:Q; [|reflexivity]. apply hkind_eqb_eq in Q. congruence.
Qed.
Lemma idkinds_id_add k s k' : In k' (idkinds (id_add k s)) -> In k' (idkinds s) \/ k' = k.
Proof.
  unfold id_add. destruct (id_has k s) eqn:E; [auto|].
  unfold idkinds, libids. sproj. rewrite map_app, filter_app, in_app_iff. cbn [map filter fst].
  intros [H|H]; [left; exact H|]. destruct (negb (is_user_id k)); [destruct H as [H|[]]; auto|destruct H].
Qed.
Lemma idkinds_id_add_user s : idkinds (id_add IKUser s) = idkinds s.
Proof.
  unfold id_add. destruct (id_has IKUser s); [reflexivity|].
  unfold idkinds, libids. sproj. rewrite map_app, filter_app. cbn. apply app_nil_r.
Qed.
Lemma idkinds_id_del k s k' : In k' (idkinds (id_del k s)) -> In k' (idkinds s).
Proof.
  unfold id_del, idkinds, libids. sproj. rewrite !filter_In, !in_map_iff. intros [[x [E Hx]] U]. apply filter_In in Hx.
  split; [exists x; tauto|exact U].
Qed.

(* the rest of the deep view is untouched by the handler-list functions *)
Lemma h_add_deep k s : deep (h_add k s) =
  mkDeep (hkinds (h_add k s)) (d_ids (deep s)) (d_oh (deep s)) (d_ps (deep s)) (d_secured (deep s)) (d_tlsp (deep s))
         (d_tlsf (deep s)) (d_tlss (deep s)) (d_mand (deep s)) (d_dis (deep s)) (d_rp (deep s)).
Proof. unfold h_add. destruct (h_has k s); reflexivity. Qed.
Lemma h_del_deep k s : deep (h_del k s) =
  mkDeep (hkinds (h_del k s)) (d_ids (deep s)) (d_oh (deep s)) (d_ps (deep s)) (d_secured (deep s)) (d_tlsp (deep s))
         (d_tlsf (deep s)) (d_tlss (deep s)) (d_mand (deep s)) (d_dis (deep s)) (d_rp (deep s)).
Proof. reflexivity. Qed.
Lemma id_add_deep k s : deep (id_add k s) =
  mkDeep (d_handlers (deep s)) (idkinds (id_add k s)) (d_oh (deep s)) (d_ps (deep s)) (d_secured (deep s)) (d_tlsp (deep s))
         (d_tlsf (deep s)) (d_tlss (deep s)) (d_mand (deep s)) (d_dis (deep s)) (d_rp (deep s)).
Proof. unfold id_add. destruct (id_has k s); reflexivity. Qed.
Lemma id_add_user_deep s : deep (id_add IKUser s) = deep s.
Proof. rewrite id_add_deep, idkinds_id_add_user. reflexivity. Qed.
Lemma id_del_deep k s : deep (id_del k s) =
  mkDeep (d_handlers (deep s)) (idkinds (id_del k s)) (d_oh (deep s)) (d_ps (deep s)) (d_secured (deep s)) (d_tlsp (deep s))
         (d_tlsf (deep s)) (d_tlss (deep s)) (d_mand (deep s)) (d_dis (deep s)) (d_rp (deep s)).
Proof. reflexivity. Qed.
Lemma prepare_reset_deep h s : deep (prepare_reset h s) =
  mkDeep (d_handlers (deep s)) (d_ids (deep s)) h (d_ps (deep s)) (d_secured (deep s)) (d_tlsp (deep s))
         (d_tlsf (deep s)) (d_tlss (deep s)) (d_mand (deep s)) (d_dis (deep s)) true.
Proof. reflexivity. Qed.

(* ------------------------------------------------------------------ specifications of the basic non-plumbing functions *)
Lemma all_neutral_tls l : forallb neutral (l ++ [OSockClose]) = true <-> forallb neutral l = true.
Proof. rewrite forallb_app. cbn. rewrite andb_true_r. tauto. Qed.

Lemma conn_disconnect_idle s : st s = Disconnected -> conn_disconnect s = (s, []).
Proof. intros H. unfold conn_disconnect. rewrite H. reflexivity. Qed.

Lemma conn_disconnect_spec s : st s <> Disconnected -> sm_alloc s = true ->
  exists s' l sb,
    conn_disconnect s = (s', l ++ [ODisconnect (err s') (stream_error s')]) /\ forallb neutral l = true /\
    core s' = mkCore Disconnected false (is_raw s) (sm_alloc s) (crashed s) (stream_error s)
                     (g_attempt (gh s)) (g_connects (gh s)) (g_disconnects (gh s)) (g_rawc (gh s)) (g_serr (gh s)) sb /\
    (sb = g_se_bad (gh s) \/ (is_raw s = false /\ se_eqb (stream_error s) (g_serr (gh s)) = false)) /\
    deep s' = mkDeep (d_handlers (deep s)) (d_ids (deep s)) (d_oh (deep s)) (d_ps (deep s)) (d_secured (deep s)) false
                     (d_tlsf (deep s)) (d_tlss (deep s)) (d_mand (deep s)) (d_dis (deep s)) (d_rp (deep s)).
Proof.
  intros Hst Ha.
  set (s1 := set_neg_done false (set_st Disconnected s)).
  set (s3 := reset_sm_for_reconnect (set_tls_present false s1)).
  assert (C3 : core s3 = core (set_tls_present false s1)) by apply reset_sm_core.
  assert (D3 : deep s3 = deep (set_tls_present false s1)) by apply reset_sm_deep.
  assert (Hl : forallb neutral ((if tls_present s1 then [OTlsStop] else []) ++ [OSockClose]) = true)
    by (destruct (tls_present s1); reflexivity).
  assert (Hbody : conn_disconnect s =
            ((if is_raw s3 || se_eqb (stream_error s3) (g_serr (gh s3)) then s3 else upg (set_g_se_bad true) s3),
             (if tls_present s1 then [OTlsStop] else []) ++
             [OSockClose; ODisconnect (err (if is_raw s3 || se_eqb (stream_error s3) (g_serr (gh s3)) then s3 else upg (set_g_se_bad true) s3))
                                      (stream_error (if is_raw s3 || se_eqb (stream_error s3) (g_serr (gh s3)) then s3 else upg (set_g_se_bad true) s3))])).
  { unfold conn_disconnect. rewrite Ha. destruct (st s); [congruence| |]; reflexivity. }
  rewrite Hbody. clear Hbody.
  pose proof (core_fields _ _ C3) as (_ & _ & F3 & _ & _ & F6 & _ & _ & _ & _ & F11 & _).
  change (is_raw (set_tls_present false s1)) with (is_raw s) in F3.
  change (stream_error (set_tls_present false s1)) with (stream_error s) in F6.
  change (g_serr (gh (set_tls_present false s1))) with (g_serr (gh s)) in F11.
  destruct (is_raw s3 || se_eqb (stream_error s3) (g_serr (gh s3))) eqn:Q.
  - exists s3, ((if tls_present s1 then [OTlsStop] else []) ++ [OSockClose]), (g_se_bad (gh s)).
    split; [rewrite <- app_assoc; reflexivity|]. split; [exact Hl|].
    split; [rewrite C3; reflexivity|]. split; [left; reflexivity|]. rewrite D3; reflexivity.
  - exists (upg (set_g_se_bad true) s3), ((if tls_present s1 then [OTlsStop] else []) ++ [OSockClose]), true.
    split; [rewrite <- app_assoc; reflexivity|]. split; [exact Hl|].
    split.
    { change (core (upg (set_g_se_bad true) s3)) with
        (mkCore (c_st (core s3)) (c_nd (core s3)) (c_raw (core s3)) (c_alloc (core s3)) (c_crashed (core s3)) (c_se (core s3))
                (c_att (core s3)) (c_nc (core s3)) (c_ndisc (core s3)) (c_rawc (core s3)) (c_serr (core s3)) true).
      rewrite C3. reflexivity. }
    split.
    { right. apply orb_false_iff in Q. destruct Q as [Q1 Q2]. rewrite F3 in Q1. rewrite F6, F11 in Q2. split; assumption. }
    change (deep (upg (set_g_se_bad true) s3)) with (deep s3). rewrite D3. reflexivity.
Qed.

Lemma sns_spec s :
  (is_raw s = false /\ neg_done s = true /\ stream_negotiation_success s = (s, [])) \/
  ((is_raw s = true \/ neg_done s = false) /\
   exists s', stream_negotiation_success s = (s', [OConnect]) /\
     core s' = mkCore (st s) true (is_raw s) (sm_alloc s) (crashed s) (stream_error s)
                      (g_attempt (gh s)) (g_connects (gh s)) (g_disconnects (gh s)) (g_rawc (gh s)) (g_serr (gh s)) (g_se_bad (gh s)) /\
     deep s' = deep s).
Proof.
  unfold stream_negotiation_success. destruct (is_raw s) eqn:R; cbn [negb andb].
  - right. split; [left; reflexivity|]. eexists. split; [reflexivity|].
    destruct (connect_justified s); split; unfold core, deep, upg; sproj; rewrite ?R; reflexivity.
  - destruct (neg_done s) eqn:N.
    + left. auto.
    + right. split; [right; reflexivity|]. eexists. split; [reflexivity|].
      destruct (connect_justified s); split; unfold core, deep, upg; sproj; rewrite ?R; reflexivity.
Qed.

Lemma conn_tls_start_spec s :
  let '(s', o, ok) := conn_tls_start s in
  core s' = core s /\ forallb neutral o = true /\
  ((ok = false /\ o = [] /\ deep s' = deep s) \/
   (ok = true /\ d_dis (deep s) = false /\
    deep s' = mkDeep (d_handlers (deep s)) (d_ids (deep s)) (d_oh (deep s)) (d_ps (deep s)) true true
                     (d_tlsf (deep s)) (d_tlss (deep s)) (d_mand (deep s)) (d_dis (deep s)) (d_rp (deep s))) \/
   (ok = false /\
    deep s' = mkDeep (d_handlers (deep s)) (d_ids (deep s)) (d_oh (deep s)) (d_ps (deep s)) (d_secured (deep s)) false
                     true (d_tlss (deep s)) (d_mand (deep s)) (d_dis (deep s)) (d_rp (deep s)))).
Proof.
  unfold conn_tls_start. destruct (f_tls_disabled s) eqn:Fd; [cbn; auto 6|].
  destruct (negb (tlsnew_ok s)); [cbn; auto 6|].
  destruct (match tls_verdicts s with b :: _ => b | [] => true end).
  - split; [reflexivity|]. split; [reflexivity|]. right. left. split; [reflexivity|]. split; [exact Fd|reflexivity].
  - split; [reflexivity|]. split; [reflexivity|]. right. right. split; reflexivity.
Qed.

(* ------------------------------------------------------------------ the remaining invariants *)
Definition inN3 (k : hkind) : bool := match k with HUser | HError | HProceedTls => true | _ => false end.
Definition inN4 (k : hkind) : bool := match k with HUser | HError | HProceedTls | HFeatures => true | _ => false end.
Definition oh_pre (h : openh) : bool := match h with OpenAuth | OpenTls | OpenRaw | OpenStub => true | _ => false end.
Definition oh_first (h : openh) : bool := match h with OpenAuth | OpenComponent => true | _ => false end.
Definition is_sec (d : deep_t) : bool := d_secured d && negb (d_tlsf d) && d_tlsp d.
Definition near4 (d : deep_t) : Prop := (forall k, In k (d_handlers d) -> inN4 k = true) /\ d_ids d = [] /\ oh_pre (d_oh d) = true.
Definition near3 (d : deep_t) : Prop := (forall k, In k (d_handlers d) -> inN3 k = true) /\ d_ids d = [].
Definition dead (p : pstate) : bool := match p with PClosed | PDead => true | _ => false end.
Definition ps_live (p : pstate) : bool := match p with POpen | PSwallow _ _ => true | _ => false end.

Lemma is_secured_deep s : is_secured s = is_sec (deep s).
Proof. reflexivity. Qed.
Lemma se_eqb_refl x : se_eqb x x = true.
Proof. destruct x as [[c t]|]; cbn; [|reflexivity]. rewrite Z.eqb_refl. destruct t; reflexivity. Qed.

(* stream error: what the library stores is what the observer saw; [pend] is the <stream:error/> being
   dispatched (already seen by the observer, not yet by _handle_error) *)
Record SerrI (pend : option (Z * bool)) (c : core_t) (d : deep_t) : Prop := mkSerr {
  S1 : c_sebad c = false;
  S2 : c_st c <> Disconnected -> c_raw c = false ->
       match pend with None => se_eqb (c_se c) (c_serr c) = true | Some x => c_serr c = Some x end;
  S3 : c_st c <> Disconnected -> c_raw c = false ->
       In HError (d_handlers d) \/ (oh_first (d_oh d) = true /\ (d_rp d = true \/ ps_live (d_ps d) = false))
}.

(* the negotiation phase: under mandatory TLS nothing beyond the pre-authentication handlers exists
   while the stream is not secured *)
Record DeepI (c : core_t) (d : deep_t) : Prop := mkDeepI {
  Df : d_dis d = true -> d_mand d = false;
  Dts : d_tlss d = false;
  DP : c_st c <> Disconnected -> In HProceedTls (d_handlers d) -> d_secured d = false;
  DM : c_st c <> Disconnected -> d_mand d = true -> is_sec d = false -> near4 d;
  DH0 : c_st c = Connecting -> ~ In HProceedTls (d_handlers d)
}.

(* where in a step we are: between steps; inside xmpp_run_once after the parser reset; while handlers of
   one element run; between the items of a chunk *)
Inductive mode : Type := MTop | MRun | MChunk | MFeed.
Definition RunI (c : core_t) (d : deep_t) : Prop :=
  c_st c <> Connecting /\ c_alloc c = true /\
  (c_st c <> Disconnected -> c_raw c = false -> In HError (d_handlers d) \/ (oh_first (d_oh d) = true /\ ps_live (d_ps d) = false)).
Definition ModeI (m : mode) (c : core_t) (d : deep_t) : Prop :=
  match m with
  | MTop => True
  | MRun => RunI c d
  | MChunk => RunI c d /\ (c_st c <> Disconnected -> c_raw c = false -> In HError (d_handlers d)) /\
              (c_st c = Disconnected -> near3 d)
  | MFeed => RunI c d /\ (c_st c = Disconnected -> d_ps d <> PDepth0 /\ (dead (d_ps d) = true \/ near3 d))
  end.

Record InvV (m : mode) (pend : option (Z * bool)) (c : core_t) (d : deep_t) (acc : emit) : Prop := mkInvV {
  IL : LifeI c acc; IS : SerrI pend c d; ID : DeepI c d; IM : ModeI m c d
}.
Definition Inv (m : mode) (pend : option (Z * bool)) (s : state) (acc : emit) : Prop := InvV m pend (core s) (deep s) acc.

Lemma Inv_frame m p s s' acc : core s' = core s -> deep s' = deep s -> Inv m p s acc -> Inv m p s' acc.
Proof. unfold Inv. intros -> ->. exact (fun x => x). Qed.

Lemma InvV_neutral m p c d acc l : forallb neutral l = true -> InvV m p c d acc -> InvV m p c d (acc ++ l).
Proof. intros Hn [A B C D]. constructor; try assumption. now apply LifeI_neutral. Qed.

Lemma ModeI_run m c d : m <> MTop -> ModeI m c d -> RunI c d.
Proof. destruct m; cbn; intros H M; try tauto; apply M. Qed.

(* what allows registering a post-authentication handler *)
Definition Arm (m : mode) (c : core_t) (d : deep_t) : Prop :=
  (m = MChunk -> c_st c <> Disconnected) /\ (c_st c <> Disconnected -> d_mand d = true -> is_sec d = true).

(* ------------------------------------------------------------------ transitions of the invariant: handler lists *)
Ltac deep_simpl := cbn [d_handlers d_ids d_oh d_ps d_secured d_tlsp d_tlsf d_tlss d_mand d_dis d_rp] in *.

Lemma InvV_handlers_add m p c d acc k l' :
  (forall k', In k' l' <-> In k' (d_handlers d) \/ k' = k) ->
  (k = HProceedTls -> c_st c <> Connecting /\ (c_st c <> Disconnected -> d_secured d = false)) ->
  (inN4 k = false -> c_st c <> Disconnected -> d_mand d = true -> is_sec d = true) ->
  (m = MChunk \/ m = MFeed -> inN3 k = false -> c_st c <> Disconnected) ->
  InvV m p c d acc ->
  InvV m p c (mkDeep l' (d_ids d) (d_oh d) (d_ps d) (d_secured d) (d_tlsp d) (d_tlsf d) (d_tlss d) (d_mand d) (d_dis d) (d_rp d)) acc.
Proof.
  intros Hl C1 C2 C3 [HL [s1 s2 s3] [df dts dp dm dh0] HM].
  assert (Hsub : forall k', In k' (d_handlers d) -> In k' l') by (intros k' H; apply Hl; auto).
  constructor; [assumption | constructor | constructor | ]; unfold is_sec, near4, near3 in *; deep_simpl; try assumption.
  - intros A B. destruct (s3 A B) as [H|H]; [left; auto|right; exact H].
  - intros A B. apply Hl in B. destruct B as [B|B]; [auto|]. symmetry in B. apply C1; auto.
  - intros A B C. destruct (dm A B C) as (N1 & N2 & N3). split; [|split; assumption].
    intros k' Hk. apply Hl in Hk. destruct Hk as [Hk| ->]; [auto|].
    destruct (inN4 k) eqn:E; [reflexivity|]. specialize (C2 eq_refl A B). unfold is_sec in C2. congruence.
  - intros A B. apply Hl in B. destruct B as [B|B]; [exact (dh0 A B)|]. symmetry in B. destruct (C1 B) as [C _]. exact (C A).
  - assert (HR : RunI c d -> RunI c (mkDeep l' (d_ids d) (d_oh d) (d_ps d) (d_secured d) (d_tlsp d) (d_tlsf d) (d_tlss d) (d_mand d) (d_dis d) (d_rp d))).
    { unfold RunI; deep_simpl. intros (R1 & R2 & R3). split; [assumption|]. split; [assumption|].
      intros A B. destruct (R3 A B) as [H|H]; [left; auto|right; exact H]. }
    assert (HN : near3 d -> (inN3 k = false -> c_st c <> Disconnected) -> c_st c = Disconnected ->
                 near3 (mkDeep l' (d_ids d) (d_oh d) (d_ps d) (d_secured d) (d_tlsp d) (d_tlsf d) (d_tlss d) (d_mand d) (d_dis d) (d_rp d))).
    { unfold near3; deep_simpl. intros [N1 N2] Q E. split; [|assumption]. intros k' Hk. apply Hl in Hk. destruct Hk as [Hk| ->]; [auto|].
      destruct (inN3 k) eqn:E3; [reflexivity|]. exfalso. exact (Q eq_refl E). }
    destruct m; cbn [ModeI] in *; deep_simpl.
    + exact I.
    + auto.
    + destruct HM as (M1 & M2 & M3). split; [auto|]. split; [intros A B; auto|]. intros E. apply HN; auto.
    + destruct HM as (M1 & M2). split; [auto|]. intros E. destruct (M2 E) as [P1 [P2|P2]]; (split; [exact P1|]); [left; exact P2 | right; apply HN; auto].
Qed.

Lemma InvV_handlers_sub m p c d acc l' :
  (forall k', In k' l' -> In k' (d_handlers d)) ->
  (In HError (d_handlers d) -> In HError l') ->
  InvV m p c d acc ->
  InvV m p c (mkDeep l' (d_ids d) (d_oh d) (d_ps d) (d_secured d) (d_tlsp d) (d_tlsf d) (d_tlss d) (d_mand d) (d_dis d) (d_rp d)) acc.
Proof.
  intros Hsub He [HL [s1 s2 s3] [df dts dp dm dh0] HM].
  constructor; [assumption | constructor | constructor | ]; unfold is_sec, near4, near3 in *; deep_simpl; try assumption.
  - intros A B. destruct (s3 A B) as [H|H]; [left; auto|right; exact H].
  - intros A B. auto.
  - intros A B C. destruct (dm A B C) as (N1 & N2 & N3). split; [|split; assumption]. auto.
  - intros A B. exact (dh0 A (Hsub _ B)).
  - assert (HR : RunI c d -> RunI c (mkDeep l' (d_ids d) (d_oh d) (d_ps d) (d_secured d) (d_tlsp d) (d_tlsf d) (d_tlss d) (d_mand d) (d_dis d) (d_rp d))).
    { unfold RunI; deep_simpl. intros (R1 & R2 & R3). split; [assumption|]. split; [assumption|].
      intros A B. destruct (R3 A B) as [H|H]; [left; auto|right; exact H]. }
    assert (HN : near3 d -> near3 (mkDeep l' (d_ids d) (d_oh d) (d_ps d) (d_secured d) (d_tlsp d) (d_tlsf d) (d_tlss d) (d_mand d) (d_dis d) (d_rp d))).
    { unfold near3; deep_simpl. intros [N1 N2]. split; [|assumption]. auto. }
    destruct m; cbn [ModeI] in *; deep_simpl.
    + exact I.
    + auto.
    + destruct HM as (M1 & M2 & M3). split; [auto|]. split; [intros A B; auto|]. auto.
    + destruct HM as (M1 & M2). split; [auto|]. intros E. destruct (M2 E) as [P1 [P2|P2]]; (split; [exact P1|]); [left; exact P2 | right; apply HN; auto].
Qed.

Lemma InvV_ids m p c d acc i' :
  (i' <> [] -> c_st c <> Disconnected -> d_mand d = true -> is_sec d = true) ->
  (m = MChunk \/ m = MFeed -> i' <> [] -> c_st c <> Disconnected) ->
  InvV m p c d acc ->
  InvV m p c (mkDeep (d_handlers d) i' (d_oh d) (d_ps d) (d_secured d) (d_tlsp d) (d_tlsf d) (d_tlss d) (d_mand d) (d_dis d) (d_rp d)) acc.
Proof.
  intros C2 C3 [HL [s1 s2 s3] [df dts dp dm dh0] HM].
  assert (Hnil : forall (P : Prop), (i' <> [] -> P) -> (i' = [] \/ P)).
  { intros P H. destruct i'; [left; reflexivity|right; apply H; discriminate]. }
  constructor; [assumption | constructor | constructor | ]; unfold is_sec, near4, near3 in *; deep_simpl; try assumption.
  - intros A B C. destruct (dm A B C) as (N1 & N2 & N3). split; [assumption|]. split; [|assumption].
    destruct i'; [reflexivity|]. assert (Q : i :: i' <> []) by discriminate. specialize (C2 Q A B). unfold is_sec in C2. congruence.
  - assert (HN : near3 d -> c_st c = Disconnected -> (i' <> [] -> c_st c <> Disconnected) ->
                 near3 (mkDeep (d_handlers d) i' (d_oh d) (d_ps d) (d_secured d) (d_tlsp d) (d_tlsf d) (d_tlss d) (d_mand d) (d_dis d) (d_rp d))).
    { unfold near3; deep_simpl. intros [N1 N2] E Q. split; [assumption|]. destruct i'; [reflexivity|]. exfalso. apply Q; [discriminate|exact E]. }
    destruct m; cbn [ModeI] in *; deep_simpl.
    + exact I.
    + exact HM.
    + destruct HM as (M1 & M2 & M3). split; [auto|]. split; [auto|]. intros E. apply HN; auto.
    + destruct HM as (M1 & M2). split; [auto|]. intros E. destruct (M2 E) as [P1 [P2|P2]]; (split; [exact P1|]); [left; exact P2 | right; apply HN; auto].
Qed.

Lemma InvV_open m p c d acc h :
  (c_st c <> Disconnected -> c_raw c = false -> In HError (d_handlers d)) ->
  (oh_pre h = false -> c_st c <> Disconnected -> d_mand d = true -> is_sec d = true) ->
  InvV m p c d acc ->
  InvV m p c (mkDeep (d_handlers d) (d_ids d) h (d_ps d) (d_secured d) (d_tlsp d) (d_tlsf d) (d_tlss d) (d_mand d) (d_dis d) true) acc.
Proof.
  intros He C2 [HL [s1 s2 s3] [df dts dp dm dh0] HM].
  constructor; [assumption | constructor | constructor | ]; unfold is_sec, near4, near3 in *; deep_simpl; try assumption.
  - intros A B. left. auto.
  - intros A B C. destruct (dm A B C) as (N1 & N2 & N3). split; [assumption|]. split; [assumption|].
    destruct (oh_pre h) eqn:E; [reflexivity|]. specialize (C2 eq_refl A B). unfold is_sec in C2. congruence.
  - assert (HR : RunI c d -> RunI c (mkDeep (d_handlers d) (d_ids d) h (d_ps d) (d_secured d) (d_tlsp d) (d_tlsf d) (d_tlss d) (d_mand d) (d_dis d) true)).
    { unfold RunI; deep_simpl. intros (R1 & R2 & R3). split; [assumption|]. split; [assumption|]. intros A B. left. auto. }
    destruct m; cbn [ModeI] in *; deep_simpl.
    + exact I.
    + auto.
    + destruct HM as (M1 & M2 & M3). split; [auto|]. split; [auto|]. exact M3.
    + destruct HM as (M1 & M2). split; [auto|]. exact M2.
Qed.

(* ------------------------------------------------------------------ transitions of the invariant: core changes *)
Lemma InvV_core_change m p c c' d acc acc' :
  c_st c' = c_st c -> c_raw c' = c_raw c -> c_alloc c' = c_alloc c -> c_se c' = c_se c ->
  c_serr c' = c_serr c -> c_sebad c' = c_sebad c ->
  LifeI c' acc' -> InvV m p c d acc -> InvV m p c' d acc'.
Proof.
  intros E1 E2 E3 E4 E5 E6 HL' [HL [s1 s2 s3] [df dts dp dm dh0] HM].
  constructor; [assumption | constructor | constructor | ]; rewrite ?E1, ?E2, ?E3, ?E4, ?E5, ?E6; try assumption.
  destruct m; cbn [ModeI] in *; unfold RunI in *; rewrite ?E1, ?E2, ?E3; assumption.
Qed.

(* stream_negotiation_success *)
Lemma sns_inv m p s acc : m <> MTop -> st s <> Disconnected -> Inv m p s acc ->
  Inv m p (fst (stream_negotiation_success s)) (acc ++ snd (stream_negotiation_success s)).
Proof.
  intros Hm Hst H. destruct (sns_spec s) as [(R & N & E)|(Hr & s' & E & C & D)]; rewrite E; cbn [fst snd].
  - rewrite app_nil_r. exact H.
  - unfold Inv in *. rewrite C, D.
    assert (Hc : st s = Connected).
    { destruct H as [_ _ _ HM]. apply (ModeI_run _ _ _ Hm) in HM. destruct HM as (R1 & _). cbn in R1. destruct (st s); congruence. }
    eapply InvV_core_change; [..|exact H]; try reflexivity.
    apply (LifeI_connect (core s) acc Hc Hr). apply H.
Qed.
Lemma sns_core_st s : st (fst (stream_negotiation_success s)) = st s /\ deep (fst (stream_negotiation_success s)) = deep s.
Proof.
  destruct (sns_spec s) as [(R & N & E)|(Hr & s' & E & C & D)]; rewrite E; cbn [fst]; [auto|].
  split; [|assumption]. change (c_st (core s') = st s). rewrite C. reflexivity.
Qed.

(* conn_disconnect from a live state *)
Lemma InvV_disconnect m p c d acc l e se sb d' :
  (m = MTop \/ m = MRun) -> c_st c <> Disconnected ->
  forallb neutral l = true -> LifeI c acc -> c_sebad c = false ->
  (sb = c_sebad c \/ (c_raw c = false /\ se_eqb (c_se c) (c_serr c) = false)) ->
  (c_raw c = false -> se_eqb (c_se c) (c_serr c) = true) ->
  d_dis d' = d_dis d -> d_mand d' = d_mand d -> d_tlss d' = d_tlss d ->
  (d_dis d = true -> d_mand d = false) -> d_tlss d = false ->
  InvV m p (mkCore Disconnected false (c_raw c) (c_alloc c) (c_crashed c) (c_se c) (c_att c) (c_nc c) (c_ndisc c) (c_rawc c) (c_serr c) sb)
       d' (acc ++ l ++ [ODisconnect e se]).
Proof.
  intros Hm Hst Hn HL S1 Hsb S2 E1 E2 E3 Df Dts.
  assert (Hal : c_alloc c = true) by (apply HL; assumption).
  constructor.
  - now apply LifeI_disconnect.
  - constructor; core_simpl; try (intros A; exfalso; apply A; reflexivity).
    destruct Hsb as [->|[R Q]]; [assumption|]. rewrite (S2 R) in Q. discriminate.
  - constructor; core_simpl; rewrite ?E1, ?E2, ?E3; try assumption; try (intros A; exfalso; apply A; reflexivity). intros A; discriminate.
  - destruct Hm as [-> | ->]; cbn [ModeI]; [exact I|]. unfold RunI; core_simpl. split; [discriminate|]. split; [assumption|].
    intros A; exfalso; apply A; reflexivity.
Qed.

Lemma conn_disconnect_inv m s acc : (m = MTop \/ m = MRun) -> Inv m None s acc ->
  Inv m None (fst (conn_disconnect s)) (acc ++ snd (conn_disconnect s)).
Proof.
  intros Hm H. destruct (st s) eqn:E.
  - rewrite conn_disconnect_idle by assumption. cbn [fst snd]. rewrite app_nil_r. exact H.
  - assert (Hst : st s <> Disconnected) by congruence.
    assert (Ha : sm_alloc s = true) by (apply H; exact Hst).
    destruct (conn_disconnect_spec s Hst Ha) as (s' & l & sb & E1 & Hn & C & Hsb & D). rewrite E1. cbn [fst snd].
    unfold Inv. rewrite C, D.
    destruct H as [HL [s1 s2 s3] [df dts dp dm dh0] HM].
    apply (InvV_disconnect m None (core s) (deep s)); try assumption; try reflexivity. intros R. apply (s2 Hst R).
  - assert (Hst : st s <> Disconnected) by congruence.
    assert (Ha : sm_alloc s = true) by (apply H; exact Hst).
    destruct (conn_disconnect_spec s Hst Ha) as (s' & l & sb & E1 & Hn & C & Hsb & D). rewrite E1. cbn [fst snd].
    unfold Inv. rewrite C, D.
    destruct H as [HL [s1 s2 s3] [df dts dp dm dh0] HM].
    apply (InvV_disconnect m None (core s) (deep s)); try assumption; try reflexivity. intros R. apply (s2 Hst R).
Qed.
Lemma conn_disconnect_frame s :
  d_handlers (deep (fst (conn_disconnect s))) = d_handlers (deep s) /\ d_ids (deep (fst (conn_disconnect s))) = d_ids (deep s) /\
  d_oh (deep (fst (conn_disconnect s))) = d_oh (deep s) /\ d_ps (deep (fst (conn_disconnect s))) = d_ps (deep s) /\
  (st s <> Disconnected -> sm_alloc s = true -> st (fst (conn_disconnect s)) = Disconnected).
Proof.
  destruct (st s) eqn:E.
  - rewrite conn_disconnect_idle by assumption. cbn [fst]. repeat split; try reflexivity. congruence.
  - destruct (sm_alloc s) eqn:A.
    + assert (Hst : st s <> Disconnected) by congruence.
      destruct (conn_disconnect_spec s Hst A) as (s' & l & sb & E1 & Hn & C & Hsb & D). rewrite E1. cbn [fst]. rewrite D.
      repeat split; try reflexivity. intros _ _. change (c_st (core s') = Disconnected). rewrite C. reflexivity.
    + unfold conn_disconnect. rewrite E, A. cbn. repeat split; try reflexivity. discriminate.
  - destruct (sm_alloc s) eqn:A.
    + assert (Hst : st s <> Disconnected) by congruence.
      destruct (conn_disconnect_spec s Hst A) as (s' & l & sb & E1 & Hn & C & Hsb & D). rewrite E1. cbn [fst]. rewrite D.
      repeat split; try reflexivity. intros _ _. change (c_st (core s') = Disconnected). rewrite C. reflexivity.
    + unfold conn_disconnect. rewrite E, A. cbn. repeat split; try reflexivity. discriminate.
Qed.

(* ------------------------------------------------------------------ state-level wrappers for the handler lists *)
Definition ArmS (m : mode) (s : state) : Prop :=
  (m = MChunk \/ m = MFeed -> st s <> Disconnected) /\
  (st s <> Disconnected -> f_tls_mandatory s = true -> is_secured s = true).

Lemma Inv_h_add m p k s acc :
  (k = HProceedTls -> st s <> Connecting /\ (st s <> Disconnected -> secured s = false)) ->
  (inN4 k = false -> st s <> Disconnected -> f_tls_mandatory s = true -> is_secured s = true) ->
  (m = MChunk \/ m = MFeed -> inN3 k = false -> st s <> Disconnected) ->
  Inv m p s acc -> Inv m p (h_add k s) acc.
Proof.
  intros C1 C2 C3 H. unfold Inv. rewrite h_add_core, h_add_deep.
  apply (InvV_handlers_add m p (core s) (deep s) acc k); try assumption. intros k'. apply hkinds_h_add.
Qed.
Lemma Inv_h_add_arm m p k s acc : ArmS m s -> k <> HProceedTls -> Inv m p s acc -> Inv m p (h_add k s) acc.
Proof. intros [A1 A2] Hk. apply Inv_h_add; [congruence | intros _; exact A2 | intros Q _; exact (A1 Q)]. Qed.
Lemma Inv_h_del m p k s acc : k <> HError -> Inv m p s acc -> Inv m p (h_del k s) acc.
Proof.
  intros Hk H. unfold Inv. rewrite h_del_core, h_del_deep.
  apply (InvV_handlers_sub m p (core s) (deep s) acc); try assumption.
  - intros k' Q. apply hkinds_h_del in Q. apply Q.
  - intros Q. apply hkinds_h_del. split; [exact Q|congruence].
Qed.
Lemma Inv_id_add m p k s acc : ArmS m s -> Inv m p s acc -> Inv m p (id_add k s) acc.
Proof.
  intros [A1 A2] H. unfold Inv. rewrite id_add_core, id_add_deep.
  apply (InvV_ids m p (core s) (deep s) acc); try assumption; intros; auto.
Qed.
Lemma InvV_ids_sub m p c d acc i' :
  (d_ids d = [] -> i' = []) -> InvV m p c d acc ->
  InvV m p c (mkDeep (d_handlers d) i' (d_oh d) (d_ps d) (d_secured d) (d_tlsp d) (d_tlsf d) (d_tlss d) (d_mand d) (d_dis d) (d_rp d)) acc.
Proof.
  intros Hi [HL [s1 s2 s3] [df dts dp dm dh0] HM].
  constructor; [assumption | constructor | constructor | ]; unfold is_sec, near4, near3 in *; deep_simpl; try assumption.
  - intros A B C. destruct (dm A B C) as (N1 & N2 & N3). auto.
  - destruct m; cbn [ModeI] in *; unfold near3 in *; deep_simpl.
    + exact I.
    + exact HM.
    + destruct HM as (M1 & M2 & M3). split; [auto|]. split; [auto|]. intros E. destruct (M3 E). auto.
    + destruct HM as (M1 & M2). split; [auto|]. intros E. destruct (M2 E) as [P1 [P2|[P2 P3]]]; (split; [exact P1|]); [left; exact P2 | right; auto].
Qed.
Lemma Inv_id_del m p k s acc : Inv m p s acc -> Inv m p (id_del k s) acc.
Proof.
  intros H. unfold Inv. rewrite id_del_core, id_del_deep.
  apply (InvV_ids_sub m p (core s) (deep s) acc); [|exact H].
  cbn [deep d_ids]. intros E. destruct (idkinds (id_del k s)) as [|x r] eqn:F; [reflexivity|].
  assert (I : In x (idkinds s)) by (apply (idkinds_id_del k); rewrite F; left; reflexivity).
  unfold idkinds in I. rewrite E in I. destruct I.
Qed.
Lemma Inv_prepare_reset m p h s acc :
  (st s <> Disconnected -> is_raw s = false -> In HError (hkinds s)) ->
  (oh_pre h = false -> st s <> Disconnected -> f_tls_mandatory s = true -> is_secured s = true) ->
  Inv m p s acc -> Inv m p (prepare_reset h s) acc.
Proof.
  intros H1 H2 H. unfold Inv. rewrite prepare_reset_core, prepare_reset_deep.
  apply (InvV_open m p (core s) (deep s) acc); assumption.
Qed.

(* ------------------------------------------------------------------ walking through a model function *)
Lemma ArmS_frame m s s' : core s' = core s -> deep s' = deep s -> ArmS m s -> ArmS m s'.
Proof.
  intros C D [A1 A2]. pose proof (core_fields _ _ C) as (F1 & _). pose proof (deep_fields _ _ D) as (_ & _ & _ & _ & G5 & G6 & G7 & _ & G9 & _).
  unfold ArmS, is_secured. rewrite F1, G5, G6, G7, G9. split; assumption.
Qed.

Lemma Inv_frame_fun m p (g : state -> state) acc :
  (forall x, core (g x) = core x) -> (forall x, deep (g x) = deep x) -> forall s, Inv m p s acc -> Inv m p (g s) acc.
Proof. intros C D s. apply Inv_frame; auto. Qed.
Lemma ArmS_frame_fun m (g : state -> state) :
  (forall x, core (g x) = core x) -> (forall x, deep (g x) = deep x) -> forall s, ArmS m s -> ArmS m (g s).
Proof. intros C D s. apply ArmS_frame; auto. Qed.

(* peel one state transformer off the state of the goal; the side conditions are proved for a
   variable state, so that neither the tactic nor the kernel ever compares two large states *)
Ltac frame_side_core := intro; first [ reflexivity | autorewrite with ncore; reflexivity ].
Ltac frame_side_deep := intro; first [ reflexivity | autorewrite with ndeep; reflexivity ].
Ltac peel :=
  lazymatch goal with
  | |- Inv _ _ (h_add _ _) _ => apply Inv_h_add_arm; [ | discriminate | ]
  | |- Inv _ _ (h_del _ _) _ => apply Inv_h_del; [ discriminate | ]
  | |- Inv _ _ (id_add _ _) _ => apply Inv_id_add
  | |- Inv _ _ (id_del _ _) _ => apply Inv_id_del
  | |- Inv _ _ (?g ?s') _ =>
      lazymatch type of s' with state => idtac end;
      apply (Inv_frame_fun _ _ g); [ frame_side_core | frame_side_deep | ]
  | |- ArmS _ (?g ?s') =>
      lazymatch type of s' with state => idtac end;
      apply (ArmS_frame_fun _ g); [ frame_side_core | frame_side_deep | ]
  end.
Ltac ret_simpl := cbn [ret fst snd]; repeat match goal with |- context [?a ++ []] => rewrite (app_nil_r a) end.

Lemma auth_no_tls fuel now s : tls_support s = false -> auth fuel now s = auth 0 now s.
Proof. intros H. destruct fuel; cbn [auth]; rewrite H; reflexivity. Qed.

Lemma ArmS_h_add m k s : ArmS m s -> ArmS m (h_add k s).
Proof. intros [A1 A2]. unfold ArmS, is_secured, h_add. destruct (h_has k s); sproj; split; assumption. Qed.
Lemma ArmS_id_add m k s : ArmS m s -> ArmS m (id_add k s).
Proof. intros [A1 A2]. unfold ArmS, is_secured, id_add. destruct (id_has k s); sproj; split; assumption. Qed.

Lemma auth_legacy_inv m p now s acc : ArmS m s -> Inv m p s acc -> Inv m p (auth_legacy now s) acc.
Proof.
  intros A H. unfold auth_legacy. case_goal; repeat peel; assumption.
Qed.

(* _auth once the TLS probe is out of the way and the mandatory-TLS check passes *)
Lemma auth_armed m fuel now s acc : ArmS m s -> tls_support s = false -> Inv m None s acc ->
  Inv m None (fst (auth fuel now s)) (acc ++ snd (auth fuel now s)).
Proof.
  intros A Hts H. rewrite (auth_no_tls fuel now s Hts). cbn [auth]. rewrite Hts.
  destruct (f_tls_mandatory s && negb (is_secured s)) eqn:D.
  - (* only possible when already disconnected *)
    destruct (st s) eqn:E.
    + rewrite conn_disconnect_idle by assumption. ret_simpl. exact H.
    + exfalso. apply andb_true_iff in D. destruct D as [D1 D2]. destruct A as [_ A2]. rewrite A2 in D2; [discriminate|congruence|assumption].
    + exfalso. apply andb_true_iff in D. destruct D as [D1 D2]. destruct A as [_ A2]. rewrite A2 in D2; [discriminate|congruence|assumption].
  - repeat (case_goal; ret_simpl); repeat peel; try assumption; try (apply auth_legacy_inv; assumption).
Qed.

(* the error handler is registered (needed when the open handler is replaced) *)
Definition HE (s : state) : Prop := st s <> Disconnected -> is_raw s = false -> In HError (hkinds s).
Lemma HE_frame s s' : core s' = core s -> deep s' = deep s -> HE s -> HE s'.
Proof.
  intros C D H. pose proof (core_fields _ _ C) as (F1 & _ & F3 & _). pose proof (deep_fields _ _ D) as (G1 & _).
  unfold HE, hkinds. rewrite F1, F3, G1. exact H.
Qed.
Lemma HE_frame_fun (g : state -> state) :
  (forall x, core (g x) = core x) -> (forall x, deep (g x) = deep x) -> forall s, HE s -> HE (g s).
Proof. intros C D s. apply HE_frame; auto. Qed.
Lemma HE_h_add k s : HE s -> HE (h_add k s).
Proof.
  intros H A B. apply hkinds_h_add. left. apply H.
  - pose proof (core_fields _ _ (h_add_core k s)) as (F1 & _). rewrite <- F1. exact A.
  - pose proof (core_fields _ _ (h_add_core k s)) as (_ & _ & F3 & _). rewrite <- F3. exact B.
Qed.
Lemma Inv_tlss m p s acc : Inv m p s acc -> tls_support s = false.
Proof. intros H. apply (Dts _ _ (ID _ _ _ _ _ H)). Qed.
Lemma Inv_HE p s acc : Inv MChunk p s acc -> HE s.
Proof. intros H A B. destruct (IM _ _ _ _ _ H) as (_ & M2 & _). exact (M2 A B). Qed.

Ltac peel2 :=
  lazymatch goal with
  | |- Inv _ _ (prepare_reset _ _) _ => apply Inv_prepare_reset; [ | | ]
  | |- HE (h_add _ _) => apply HE_h_add
  | |- HE (?g ?s') =>
      lazymatch type of s' with state => idtac end;
      apply (HE_frame_fun g); [ frame_side_core | frame_side_deep | ]
  | |- ArmS _ (h_add _ _) => apply ArmS_h_add
  | |- ArmS _ (id_add _ _) => apply ArmS_id_add
  | _ => peel
  end.

Lemma sns_inv_eq m p s acc s' o : stream_negotiation_success s = (s', o) -> m <> MTop -> st s <> Disconnected ->
  Inv m p s acc -> Inv m p s' (acc ++ o).
Proof. intros E Hm Hs H. pose proof (sns_inv m p s acc Hm Hs H) as Q. rewrite E in Q. exact Q. Qed.
Lemma auth_armed_eq m fuel now s acc s' o : auth fuel now s = (s', o) -> ArmS m s -> Inv m None s acc -> Inv m None s' (acc ++ o).
Proof. intros E A H. pose proof (auth_armed m fuel now s acc A (Inv_tlss _ _ _ _ H) H) as Q. rewrite E in Q. exact Q. Qed.

Lemma do_bind_inv m p now s acc : ArmS m s -> Inv m p s acc ->
  Inv m p (fst (do_bind now true s)) (acc ++ snd (do_bind now true s)).
Proof. intros A H. unfold do_bind. cbn [negb]. ret_simpl. repeat peel2; assumption. Qed.
Lemma do_bind_inv_eq m p now s acc s' o : do_bind now true s = (s', o) -> ArmS m s -> Inv m p s acc -> Inv m p s' (acc ++ o).
Proof. intros E A H. pose proof (do_bind_inv m p now s acc A H) as Q. rewrite E in Q. exact Q. Qed.
Lemma session_start_inv m p now s acc : ArmS m s -> Inv m p s acc -> Inv m p (session_start now s) acc.
Proof. intros A H. unfold session_start. repeat peel2; assumption. Qed.
Lemma sm_enable_inv m p s acc : ArmS m s -> Inv m p s acc -> Inv m p (sm_enable s) acc.
Proof. intros A H. unfold sm_enable. cbv zeta. repeat peel2; assumption. Qed.

Lemma sasl_result_inv m now e s acc : ArmS m s -> HE s -> Inv m None s acc ->
  Inv m None (fst (sasl_result now e s)) (acc ++ snd (sasl_result now e s)).
Proof.
  intros A He H. unfold sasl_result. destruct (e_name e); ret_simpl; try (repeat peel2; assumption).
  - apply auth_armed; [assumption | exact (Inv_tlss _ _ _ _ H) | assumption].
  - repeat peel2; try assumption. intros _. apply A.
Qed.
Lemma sasl_result_inv_eq m now e s acc s' o : sasl_result now e s = (s', o) -> ArmS m s -> HE s -> Inv m None s acc -> Inv m None s' (acc ++ o).
Proof. intros E A He H. pose proof (sasl_result_inv m now e s acc A He H) as Q. rewrite E in Q. exact Q. Qed.

Lemma features_sasl_inv m p now e s acc : ArmS m s -> Inv m p s acc ->
  Inv m p (fst (features_sasl now e s)) (acc ++ snd (features_sasl now e s)).
Proof.
  intros A H. unfold features_sasl. cbv zeta.
  repeat (case_goal; ret_simpl); try (apply do_bind_inv); repeat peel2; assumption.
Qed.
Lemma features_sasl_inv_eq m p now e s acc s' o : features_sasl now e s = (s', o) -> ArmS m s -> Inv m p s acc -> Inv m p s' (acc ++ o).
Proof. intros E A H. pose proof (features_sasl_inv m p now e s acc A H) as Q. rewrite E in Q. exact Q. Qed.

(* ------------------------------------------------------------------ stanza handlers *)
Definition hbody (k : hkind) (now : Z) (e : elem) (s : state) : R :=
  let '(s1, o1, keep) := call_handler k now e s in ((if keep then s1 else h_del k s1), o1).

Lemma Inv_prepare_reset_arm m p h s acc : HE s -> ArmS m s -> Inv m p s acc -> Inv m p (prepare_reset h s) acc.
Proof. intros He [A1 A2] H. apply Inv_prepare_reset; [exact He | intros _; exact A2 | exact H]. Qed.
Lemma ArmS_chunk_live s : ArmS MChunk s -> st s <> Disconnected.
Proof. intros [A1 _]. apply A1. left. reflexivity. Qed.

Ltac peel3 :=
  lazymatch goal with
  | |- Inv _ _ (prepare_reset _ _) _ => apply Inv_prepare_reset_arm
  | |- st _ <> Disconnected => apply ArmS_chunk_live
  | |- MChunk <> MTop => discriminate
  | _ => peel2
  end.
Ltac use_eq :=
  match goal with
  | E : stream_negotiation_success ?x = (?s', ?o') |- Inv _ _ ?s' (_ ++ ?o') => eapply sns_inv_eq; [exact E | | | ]
  | E : auth _ _ ?x = (?s', ?o') |- Inv _ _ ?s' (_ ++ ?o') => eapply auth_armed_eq; [exact E | | ]
  | E : sasl_result _ _ ?x = (?s', ?o') |- Inv _ _ ?s' (_ ++ ?o') => eapply sasl_result_inv_eq; [exact E | | | ]
  | E : features_sasl _ _ ?x = (?s', ?o') |- Inv _ _ ?s' (_ ++ ?o') => eapply features_sasl_inv_eq; [exact E | | ]
  | E : do_bind _ true ?x = (?s', ?o') |- Inv _ _ ?s' (_ ++ ?o') => eapply do_bind_inv_eq; [exact E | | ]
  end.
Ltac walk := repeat (case_goal; ret_simpl).
Ltac finish := repeat first [ assumption | peel3 | use_eq | case_goal ].

(* Inside-out walk: the goal is  RInv m p acc E  with E the body of a model function.  Each
   [let x := v in ..] whose value is a state is named, the three facts the later steps need are
   proved for it (one layer over already abstract states), and its body is forgotten; conditionals
   are split one at a time.  Terms stay small whatever the size of the function. *)
Definition RInv (m : mode) (p : option (Z * bool)) (acc : emit) (r : R) : Prop := Inv m p (fst r) (acc ++ snd r).
Ltac facts x' :=
  lazymatch type of x' with
  | state =>
      lazymatch goal with
      | |- RInv ?m ?p ?acc _ =>
          assert (Inv m p x' acc) by (subst x'; walk; finish);
          assert (ArmS m x') by (subst x'; walk; finish);
          assert (HE x') by (subst x'; walk; finish);
          clearbody x'
      end
  | _ => clearbody x'
  end.
(* the scrutinee that decides the head of E (through nested matches), or the let in head position *)
Ltac find_scrut E :=
  lazymatch E with
  | let x := _ in _ => E
  | match ?c with _ => _ end => find_scrut c
  | if ?c then _ else _ => find_scrut c
  | _ => E
  end.
Ltac head_step_with facts :=
  lazymatch goal with
  | |- RInv _ _ _ ?E =>
      lazymatch E with
      | match ?c with _ => _ end =>
          let t := find_scrut c in
          lazymatch t with
          | let x := ?v in @?b x =>
              let x' := fresh "x" in pose (x' := v); change t with (b x'); cbv beta iota; facts x'
          | ret _ => unfold ret at 1; cbv beta iota
          | (_, _) => cbv beta iota
          | _ => destruct t eqn:?; cbv beta iota
          end
      | if ?c then _ else _ =>
          let t := find_scrut c in
          lazymatch t with
          | let x := ?v in @?b x =>
              let x' := fresh "x" in pose (x' := v); change t with (b x'); cbv beta iota; facts x'
          | ret _ => unfold ret at 1; cbv beta iota
          | (_, _) => cbv beta iota
          | _ => destruct t eqn:?; cbv beta iota
          end
      | let x := ?v in @?b x =>
          let x' := fresh "x" in pose (x' := v); change E with (b x'); cbv beta iota; facts x'
      end
  end.
Ltac head_step := head_step_with facts.
Ltac iwalk := repeat head_step.
Ltac leaf := unfold RInv, ret; cbn [fst snd]; repeat match goal with |- context [?a ++ []] => rewrite (app_nil_r a) end; finish.

(* handlers registered only after the mandatory-TLS check has been passed *)
Lemma hbody_post_auth now e k s acc :
  inN4 k = false -> ArmS MChunk s -> HE s -> Inv MChunk None s acc ->
  RInv MChunk None acc (hbody k now e s).
Proof.
  intros Hk A He H. unfold hbody.
  destruct k; try discriminate Hk; cbv beta iota delta [call_handler].
  all: iwalk.
  all: leaf.
Qed.

(* ------------------------------------------------------------------ the pre-authentication handlers *)
Lemma Inv_neutral m p s acc l : forallb neutral l = true -> Inv m p s acc -> Inv m p s (acc ++ l).
Proof. intros Hn H. now apply InvV_neutral. Qed.

Lemma Inv_mode_down p s acc : Inv MChunk p s acc -> Inv MRun p s acc.
Proof. intros [A B C D]. constructor; try assumption. apply D. Qed.
Lemma Inv_mode_up p s acc :
  HE s -> (st s = Disconnected -> near3 (deep s)) -> Inv MRun p s acc -> Inv MChunk p s acc.
Proof. intros He Hn [A B C D]. constructor; try assumption. cbn [ModeI] in *. split; [exact D|]. split; [exact He|exact Hn]. Qed.

Lemma InvV_core_change2 m p p' c c' d acc acc' :
  c_st c' = c_st c -> c_raw c' = c_raw c -> c_alloc c' = c_alloc c ->
  LifeI c' acc' -> SerrI p' c' d -> InvV m p c d acc -> InvV m p' c' d acc'.
Proof.
  intros E1 E2 E3 HL' HS' [HL HS [df dts dp dm dh0] HM].
  constructor; [assumption | assumption | constructor | ]; rewrite ?E1, ?E2, ?E3; try assumption.
  destruct m; cbn [ModeI] in *; unfold RunI in *; rewrite ?E1, ?E2, ?E3; assumption.
Qed.

(* _handle_error: stores what the observer has just recorded *)
Lemma InvV_herror m p x c d acc :
  c_serr c = Some x -> InvV m p c d acc ->
  InvV m None (mkCore (c_st c) (c_nd c) (c_raw c) (c_alloc c) (c_crashed c) (Some x) (c_att c) (c_nc c) (c_ndisc c) (c_rawc c) (c_serr c) (c_sebad c)) d acc.
Proof.
  intros Hx H. apply (InvV_core_change2 m p None c _ d acc acc); [reflexivity | reflexivity | reflexivity | | | exact H].
  - apply LifeI_irrelevant. apply H.
  - destruct H as [_ [s1 s2 s3] _ _]. constructor; core_simpl; try assumption.
    intros _ _. rewrite Hx. apply se_eqb_refl.
Qed.

(* TLS started from _handle_proceedtls_default; the handler is removed in the same step *)
Lemma InvV_tls_ok m p c d acc l' :
  (forall k, In k l' <-> In k (d_handlers d) /\ k <> HProceedTls) ->
  (c_st c <> Disconnected -> c_raw c = false -> In HError (d_handlers d)) ->
  InvV m p c d acc ->
  InvV m p c (mkDeep l' (d_ids d) OpenTls (d_ps d) true true (d_tlsf d) (d_tlss d) (d_mand d) (d_dis d) true) acc.
Proof.
  intros Hl He [HL [s1 s2 s3] [df dts dp dm dh0] HM].
  assert (Hsub : forall k, In k l' -> In k (d_handlers d)) by (intros k Q; apply Hl in Q; apply Q).
  assert (HeP : In HError (d_handlers d) -> In HError l') by (intros Q; apply Hl; split; [exact Q|discriminate]).
  constructor; [assumption | constructor | constructor | ]; unfold is_sec, near4, near3 in *; deep_simpl; try assumption.
  - intros A B. left. auto.
  - intros A B. apply Hl in B. destruct B as [_ B]. congruence.
  - intros A B C. cbn [andb] in C. destruct (d_tlsf d) eqn:F; [|discriminate C].
    assert (Q : d_secured d && negb true && d_tlsp d = false) by (rewrite andb_false_r; reflexivity).
    destruct (dm A B Q) as (N1 & N2 & N3). split; [auto|]. split; [assumption|reflexivity].
  - intros A B. exact (dh0 A (Hsub _ B)).
  - assert (HR : RunI c d -> RunI c (mkDeep l' (d_ids d) OpenTls (d_ps d) true true (d_tlsf d) (d_tlss d) (d_mand d) (d_dis d) true)).
    { unfold RunI; deep_simpl. intros (R1 & R2 & R3). split; [assumption|]. split; [assumption|]. intros A B. left. auto. }
    assert (HN : near3 d -> near3 (mkDeep l' (d_ids d) OpenTls (d_ps d) true true (d_tlsf d) (d_tlss d) (d_mand d) (d_dis d) true)).
    { unfold near3; deep_simpl. intros [N1 N2]. split; [|assumption]. auto. }
    destruct m; cbn [ModeI] in *; deep_simpl.
    + exact I.
    + auto.
    + destruct HM as (M1 & M2 & M3). split; [auto|]. split; [intros A B; auto|]. auto.
    + destruct HM as (M1 & M2). split; [auto|]. intros E. destruct (M2 E) as [P1 [P2|P2]]; (split; [exact P1|]); [left; exact P2 | right; auto].
Qed.

Lemma InvV_tls_fail m p c d acc l' :
  (forall k, In k l' <-> In k (d_handlers d) /\ k <> HProceedTls) ->
  In HProceedTls (d_handlers d) ->
  InvV m p c d acc ->
  InvV m p c (mkDeep l' (d_ids d) (d_oh d) (d_ps d) (d_secured d) false true (d_tlss d) (d_mand d) (d_dis d) (d_rp d)) acc.
Proof.
  intros Hl Hin [HL [s1 s2 s3] [df dts dp dm dh0] HM].
  assert (Hsub : forall k, In k l' -> In k (d_handlers d)) by (intros k Q; apply Hl in Q; apply Q).
  assert (HeP : In HError (d_handlers d) -> In HError l') by (intros Q; apply Hl; split; [exact Q|discriminate]).
  constructor; [assumption | constructor | constructor | ]; unfold is_sec, near4, near3 in *; deep_simpl; try assumption.
  - intros A B. destruct (s3 A B) as [Q|Q]; [left; auto|right; exact Q].
  - intros A B. apply Hl in B. destruct B as [_ B]. congruence.
  - intros A B C.
    assert (Q : d_secured d && negb (d_tlsf d) && d_tlsp d = false) by (rewrite (dp A Hin); reflexivity).
    destruct (dm A B Q) as (N1 & N2 & N3). split; [auto|]. split; assumption.
  - intros A B. exact (dh0 A (Hsub _ B)).
  - assert (HR : RunI c d -> RunI c (mkDeep l' (d_ids d) (d_oh d) (d_ps d) (d_secured d) false true (d_tlss d) (d_mand d) (d_dis d) (d_rp d))).
    { unfold RunI; deep_simpl. intros (R1 & R2 & R3). split; [assumption|]. split; [assumption|].
      intros A B. destruct (R3 A B) as [Q|Q]; [left; auto|right; exact Q]. }
    assert (HN : near3 d -> near3 (mkDeep l' (d_ids d) (d_oh d) (d_ps d) (d_secured d) false true (d_tlss d) (d_mand d) (d_dis d) (d_rp d))).
    { unfold near3; deep_simpl. intros [N1 N2]. split; [|assumption]. auto. }
    destruct m; cbn [ModeI] in *; deep_simpl.
    + exact I.
    + auto.
    + destruct HM as (M1 & M2 & M3). split; [auto|]. split; [intros A B; auto|]. auto.
    + destruct HM as (M1 & M2). split; [auto|]. intros E. destruct (M2 E) as [P1 [P2|P2]]; (split; [exact P1|]); [left; exact P2 | right; auto].
Qed.

Lemma hbody_user m p now e s acc : Inv m p s acc -> RInv m p acc (hbody HUser now e s).
Proof. intros H. unfold hbody, RInv. cbn [call_handler fst snd]. apply Inv_neutral; [reflexivity|exact H]. Qed.

Lemma hbody_error m p now e s acc :
  g_serr (gh s) = Some (e_cond e, e_text e) ->
  Inv m p s acc -> RInv m None acc (hbody HError now e s).
Proof.
  intros Hx H. unfold hbody, RInv. cbn [call_handler fst snd]. rewrite app_nil_r.
  exact (InvV_herror m p _ (core s) (deep s) acc Hx H).
Qed.

Lemma hkinds_deep s : hkinds s = d_handlers (deep s).
Proof. reflexivity. Qed.

Lemma hbody_proceedtls now e s acc :
  In HProceedTls (hkinds s) -> Inv MChunk None s acc -> RInv MChunk None acc (hbody HProceedTls now e s).
Proof.
  intros Hin H. pose proof (Inv_HE _ _ _ H) as He. unfold hbody, RInv. cbn [call_handler].
  destruct (e_name e); try (cbn [fst snd]; rewrite app_nil_r; apply Inv_h_del; [discriminate|exact H]).
  pose proof (conn_tls_start_spec s) as Q. destruct (conn_tls_start s) as [[s1 o] ok].
  destruct Q as (C & Hn & [(Hok & Ho & D)|[(Hok & Hd & D)|(Hok & D)]]); subst ok; cbn [fst snd].
  - subst o. rewrite app_nil_r. apply Inv_h_del; [discriminate|]. apply (Inv_frame _ _ s1); [apply xmpp_disconnect_core|apply xmpp_disconnect_deep|].
    apply (Inv_frame _ _ s); assumption.
  - apply Inv_neutral; [exact Hn|].
    set (Y := conn_open_stream (prepare_reset OpenTls s1)).
    assert (DY : deep Y = mkDeep (hkinds s) (d_ids (deep s)) OpenTls (d_ps (deep s)) true true (d_tlsf (deep s)) (d_tlss (deep s))
                                (d_mand (deep s)) (d_dis (deep s)) true).
    { unfold Y. rewrite conn_open_stream_deep, prepare_reset_deep, D. reflexivity. }
    assert (CY : core Y = core s) by (unfold Y; rewrite conn_open_stream_core, prepare_reset_core; exact C).
    unfold Inv. rewrite h_del_core, h_del_deep, CY, DY. cbn [d_ids d_oh d_ps d_secured d_tlsp d_tlsf d_tlss d_mand d_dis d_rp].
    apply (InvV_tls_ok MChunk None (core s) (deep s) acc); [ | exact He | exact H].
    intros k. rewrite hkinds_h_del, (hkinds_deep Y), DY. reflexivity.
  - apply Inv_neutral; [exact Hn|].
    set (Y := xmpp_disconnect now s1).
    assert (DY : deep Y = mkDeep (hkinds s) (d_ids (deep s)) (d_oh (deep s)) (d_ps (deep s)) (d_secured (deep s)) false true (d_tlss (deep s))
                                (d_mand (deep s)) (d_dis (deep s)) (d_rp (deep s))).
    { unfold Y. rewrite xmpp_disconnect_deep, D. reflexivity. }
    assert (CY : core Y = core s) by (unfold Y; rewrite xmpp_disconnect_core; exact C).
    unfold Inv. rewrite h_del_core, h_del_deep, CY, DY. cbn [d_ids d_oh d_ps d_secured d_tlsp d_tlsf d_tlss d_mand d_dis d_rp].
    apply (InvV_tls_fail MChunk None (core s) (deep s) acc); [ | exact Hin | exact H].
    intros k. rewrite hkinds_h_del, (hkinds_deep Y), DY. reflexivity.
Qed.

(* _auth called from _handle_features (chunk mode, live connection), followed by the removal of the handler *)
Lemma auth_features_tail fuel now x acc :
  tls_support x = false -> st x <> Disconnected -> Inv MChunk None x acc ->
  Inv MChunk None (h_del HFeatures (fst (auth fuel now x))) (acc ++ snd (auth fuel now x)).
Proof.
  intros Hts Hst H.
  destruct (f_tls_mandatory x && negb (is_secured x)) eqn:D.
  - (* mandatory TLS not satisfied: conn_disconnect *)
    assert (E : auth fuel now x = conn_disconnect x).
    { rewrite (auth_no_tls fuel now x Hts). cbn [auth]. rewrite Hts, D. reflexivity. }
    rewrite E. apply andb_true_iff in D. destruct D as [D1 D2]. apply negb_true_iff in D2.
    assert (N4 : near4 (deep x)) by (apply (DM _ _ (ID _ _ _ _ _ H)); assumption).
    pose proof (conn_disconnect_inv MRun x acc (or_intror eq_refl) (Inv_mode_down _ _ _ H)) as Q.
    destruct (conn_disconnect_frame x) as (F1 & F2 & _ & _ & F5).
    assert (Ha : sm_alloc x = true) by (apply (K2 _ _ (IL _ _ _ _ _ H)); exact Hst).
    specialize (F5 Hst Ha).
    apply Inv_mode_up.
    + intros A. exfalso. apply A.
      pose proof (core_fields _ _ (h_del_core HFeatures (fst (conn_disconnect x)))) as (G1 & _). rewrite G1. exact F5.
    + intros _. rewrite h_del_deep. unfold near3. cbn [d_handlers d_ids]. destruct N4 as (N1 & N2 & _). split.
      * intros k Hk. apply hkinds_h_del in Hk. destruct Hk as [Hk Hne]. rewrite hkinds_deep, F1 in Hk. specialize (N1 k Hk).
        destruct k; try discriminate N1; try reflexivity. congruence.
      * rewrite F2. exact N2.
    + apply Inv_h_del; [discriminate|exact Q].
  - apply Inv_h_del; [discriminate|]. apply auth_armed; [|exact Hts|exact H].
    split; [intros _; exact Hst|]. intros _ Hm. rewrite Hm in D. cbn [andb] in D. now apply negb_false_iff in D.
Qed.

Lemma handlers_h_add_congr k a b : handlers a = handlers b -> hkinds (h_add k a) = hkinds (h_add k b).
Proof. intros E. unfold h_add, h_has, hkinds. rewrite E. destruct (existsb _ (handlers b)); sproj; rewrite ?E; reflexivity. Qed.

(* the prefix of _handle_features only touches tls_support, the SASL list and the timers *)
Definition pre_rel (s x : state) : Prop :=
  core x = core s /\ handlers x = handlers s /\ tlsnew_ok x = tlsnew_ok s /\
  (forall t, deep (set_tls_support t x) = deep (set_tls_support t s)) /\
  secured x = secured s /\ f_tls_disabled x = f_tls_disabled s /\
  (tls_support x = true -> secured s = false /\ f_tls_disabled s = false).
Ltac pre_facts s x' :=
  lazymatch type of x' with
  | state =>
      assert (pre_rel s x') by
        (subst x';
         repeat match goal with
                | |- pre_rel _ (if ?c then _ else _) => destruct c eqn:?
                end;
         repeat match goal with H : pre_rel _ _ |- _ => destruct H as (? & ? & ? & ? & ? & ? & ?) end;
         (split; [assumption|]); (split; [assumption|]); (split; [assumption|]);
         (split; [let t := fresh in intro t; match goal with H : forall t, deep _ = deep _ |- _ => exact (H t) end|]);
         (split; [assumption|]); (split; [assumption|]);
         let Q := fresh in intros Q;
         first [ discriminate Q | split; congruence | match goal with H : _ = true -> _ |- _ => exact (H Q) end ]);
      clearbody x'
  | _ => clearbody x'
  end.

Lemma deep_set_tlss_same s : deep (set_tls_support (tls_support s) s) = deep s.
Proof. reflexivity. Qed.
Lemma deep_set_tlss_congr t a b : deep a = deep b -> deep (set_tls_support t a) = deep (set_tls_support t b).
Proof.
  intros E. pose proof (deep_fields _ _ E) as (G1 & G2 & G3 & G4 & G5 & G6 & G7 & G8 & G9 & G10 & G11).
  unfold deep. sproj. congruence.
Qed.
Lemma pre_rel_deep s x : pre_rel s x -> tls_support s = false -> tls_support x = false -> deep x = deep s.
Proof.
  intros (_ & _ & _ & P4 & _) Hs Hx. rewrite <- (deep_set_tlss_same x), <- (deep_set_tlss_same s), Hs, Hx. apply P4.
Qed.
Lemma pre_rel_starttls_deep s x k : pre_rel s x -> tls_support s = false ->
  deep (set_tls_support false (h_add k x)) = deep (h_add k s).
Proof.
  intros (_ & P2 & _ & P4 & _) Hs.
  set (Y := h_add k x).
  change (deep (set_tls_support false Y)) with
    (mkDeep (d_handlers (deep Y)) (d_ids (deep Y)) (d_oh (deep Y)) (d_ps (deep Y)) (d_secured (deep Y)) (d_tlsp (deep Y))
            (d_tlsf (deep Y)) false (d_mand (deep Y)) (d_dis (deep Y)) (d_rp (deep Y))).
  unfold Y. rewrite !h_add_deep. cbn [d_handlers d_ids d_oh d_ps d_secured d_tlsp d_tlsf d_tlss d_mand d_dis d_rp].
  rewrite (handlers_h_add_congr k x s P2).
  specialize (P4 false). pose proof (deep_fields _ _ P4) as (G1 & G2 & G3 & G4 & G5 & G6 & G7 & G8 & G9 & G10 & G11).
  revert G1 G2 G3 G4 G5 G6 G7 G8 G9 G10 G11. sproj. intros.
  unfold deep. cbn [d_handlers d_ids d_oh d_ps d_secured d_tlsp d_tlsf d_tlss d_mand d_dis d_rp]. rewrite Hs. congruence.
Qed.

Lemma auth_probe_fail f now s : tls_support s = true -> negb (tlsnew_ok s) = true ->
  auth (S f) now s = auth f now (set_tls_support false s).
Proof. intros A B. cbn [auth]. rewrite A, B. reflexivity. Qed.
Lemma auth_starttls f now s : tls_support s = true -> negb (tlsnew_ok s) = false ->
  auth (S f) now s = ret (set_tls_support false (send_gated WStartTls false false (h_add HProceedTls s))).
Proof. intros A B. cbn [auth]. rewrite A, B. reflexivity. Qed.

Lemma hkinds_h_del_eq k s : hkinds (h_del k s) = filter (fun y => negb (hkind_eqb k y)) (hkinds s).
Proof.
  unfold hkinds, h_del. sproj. induction (handlers s) as [|x l IH]; [reflexivity|].
  cbn [filter map]. destruct (negb (hkind_eqb k (fst x))); cbn [map]; rewrite IH; reflexivity.
Qed.
Lemma h_del_deep_congr k a b : deep a = deep b -> deep (h_del k a) = deep (h_del k b).
Proof.
  intros E. rewrite !h_del_deep, !hkinds_h_del_eq, !hkinds_deep, E. reflexivity.
Qed.

Lemma hbody_features now e s acc :
  In HFeatures (hkinds s) -> Inv MChunk None s acc -> RInv MChunk None acc (hbody HFeatures now e s).
Proof.
  intros Hin H. unfold hbody. cbv beta iota delta [call_handler].
  (* the connection is live: in a disconnected chunk only the three inert handlers remain *)
  assert (Hst : st s <> Disconnected).
  { intros E. destruct (IM _ _ _ _ _ H) as (_ & _ & M3). destruct (M3 E) as [N1 _]. specialize (N1 _ Hin). discriminate N1. }
  assert (Hts0 : tls_support s = false) by exact (Inv_tlss _ _ _ _ H).
  assert (P0 : pre_rel s s).
  { split; [reflexivity|]. split; [reflexivity|]. split; [reflexivity|]. split; [reflexivity|]. split; [reflexivity|]. split; [reflexivity|]. intros Q; congruence. }
  repeat head_step_with ltac:(pre_facts s).
  unfold RInv. cbn [fst snd].
  pose proof H3 as HP. destruct H3 as (C3 & P2 & P3 & P4 & P5 & P6 & P7).
  assert (Hx : forall y, core y = core s -> deep y = deep s -> Inv MChunk None y acc) by (intros y Cy Dy; apply (Inv_frame _ _ s); assumption).
  destruct (tls_support x3) eqn:T.
  - destruct (P7 eq_refl) as [Hsec Hdis].
    destruct (negb (tlsnew_ok x3)) eqn:Tn.
    + (* the probe fails: continue without TLS *)
      rewrite (auth_probe_fail 0 now x3 T Tn) in Heqr.
      set (x4 := set_tls_support false x3) in *.
      assert (C4 : core x4 = core s) by exact C3.
      assert (D4 : deep x4 = deep s) by (unfold x4; rewrite P4, <- Hts0; apply deep_set_tlss_same).
      pose proof (auth_features_tail 0 now x4 acc eq_refl) as Q. rewrite Heqr in Q. apply Q.
      * pose proof (core_fields _ _ C4) as (F1 & _). rewrite F1. exact Hst.
      * apply Hx; assumption.
    + (* <starttls/> is sent *)
      rewrite (auth_starttls 0 now x3 T Tn) in Heqr. unfold ret in Heqr.
      injection Heqr as <- <-. rewrite app_nil_r.
      apply (Inv_frame _ _ (h_del HFeatures (h_add HProceedTls s))).
      * rewrite !h_del_core. change (core (send_gated WStartTls false false (h_add HProceedTls x3)) = core (h_add HProceedTls s)).
        rewrite send_gated_core, !h_add_core. exact C3.
      * assert (E : deep (set_tls_support false (send_gated WStartTls false false (h_add HProceedTls x3))) = deep (h_add HProceedTls s)).
        { rewrite <- (pre_rel_starttls_deep s x3 HProceedTls HP Hts0). apply deep_set_tlss_congr. apply send_gated_deep. }
        apply h_del_deep_congr. exact E.
      * apply Inv_h_del; [discriminate|]. apply Inv_h_add; try discriminate; try (intros; reflexivity); [|exact H].
        intros _. split; [|intros _; exact Hsec]. destruct (IM _ _ _ _ _ H) as ((R1 & _) & _). exact R1.
  - assert (D3 : deep x3 = deep s) by (apply pre_rel_deep; assumption).
    pose proof (auth_features_tail 1 now x3 acc T) as Q. rewrite Heqr in Q. apply Q.
    + pose proof (core_fields _ _ C3) as (F1 & _). rewrite F1. exact Hst.
    + apply Hx; assumption.
Qed.

(* ------------------------------------------------------------------ id handlers *)
Ltac peel4 :=
  lazymatch goal with
  | |- Inv _ _ (session_start _ _) _ => apply session_start_inv
  | |- Inv _ _ (sm_enable _) _ => apply sm_enable_inv
  | |- Inv _ _ (auth_legacy _ _) _ => apply auth_legacy_inv
  | _ => peel3
  end.
Ltac finish ::= repeat first [ assumption | peel4 | use_eq | case_goal ].

Definition idbody (k : idk) (now : Z) (e : elem) (s : state) : R :=
  let '(s1, o1) := call_id_handler k now e s in ((if is_user_id k then s1 else id_del k s1), o1).
Lemma idbody_inv p now e k s acc : ArmS MChunk s -> HE s -> Inv MChunk p s acc -> RInv MChunk p acc (idbody k now e s).
Proof.
  intros A He H. unfold idbody. destruct k; cbv beta iota delta [call_id_handler is_user_id].
  4: { unfold say, RInv. cbn [fst snd]. apply Inv_neutral; [reflexivity|exact H]. }
  all: iwalk.
  all: leaf.
Qed.

Lemma Inv_arm_of_handler p k s acc : In k (hkinds s) -> inN4 k = false -> Inv MChunk p s acc -> ArmS MChunk s.
Proof.
  intros Hin Hk H. destruct (IM _ _ _ _ _ H) as (_ & _ & M3).
  assert (Hst : st s <> Disconnected).
  { intros E. destruct (M3 E) as [N1 _]. specialize (N1 _ Hin). destruct k; discriminate. }
  split; [intros _; exact Hst|]. intros _ Hm.
  destruct (is_secured s) eqn:Q; [reflexivity|]. exfalso.
  destruct (DM _ _ (ID _ _ _ _ _ H) Hst Hm Q) as (N1 & _). specialize (N1 _ Hin). congruence.
Qed.
Lemma Inv_arm_of_id p k s acc : In k (idkinds s) -> Inv MChunk p s acc -> ArmS MChunk s.
Proof.
  intros Hin H. destruct (IM _ _ _ _ _ H) as (_ & _ & M3).
  assert (Hst : st s <> Disconnected).
  { intros E. destruct (M3 E) as [_ N2]. change (idkinds s = []) in N2. rewrite N2 in Hin. exact Hin. }
  split; [intros _; exact Hst|]. intros _ Hm.
  destruct (is_secured s) eqn:Q; [reflexivity|]. exfalso.
  destruct (DM _ _ (ID _ _ _ _ _ H) Hst Hm Q) as (_ & N2 & _). change (idkinds s = []) in N2. rewrite N2 in Hin. exact Hin.
Qed.

(* ------------------------------------------------------------------ one visited handler *)
Lemma visit_hbody now e s o k :
  visit now e (s, o) k =
    if crashed s then (s, o) else if negb (h_has k s) then (s, o) else
    if hkind_eqb k HUser && negb (neg_done s) then (s, o) else
    if negb (filter_match k e) then (s, o) else
    (fst (hbody k now e s), o ++ snd (hbody k now e s)).
Proof.
  unfold visit, hbody. repeat (case_goal; try reflexivity).
Qed.

Definition is_serr (e : elem) : bool := ns_eqb (e_ns e) NsStreams && ename_eqb (e_name e) NmError.
Lemma filter_match_HError e : filter_match HError e = is_serr e.
Proof. unfold filter_match, is_serr. change (hfilter HError) with (Some NsStreams, Some NmError). destruct (e_ns e), (e_name e); reflexivity. Qed.
Lemma filter_match_serr k e : is_serr e = true -> filter_match k e = true -> k = HUser \/ k = HError.
Proof.
  unfold is_serr. intros Hs. apply andb_true_iff in Hs. destruct Hs as [H1 H2].
  destruct (e_ns e) eqn:En; try discriminate H1. destruct (e_name e) eqn:Ee; try discriminate H2.
  unfold filter_match. rewrite En, Ee.
  destruct k; try (left; reflexivity); try (right; reflexivity); vm_compute; discriminate.
Qed.

Lemma visit_inv now e k s acc : is_serr e = false -> Inv MChunk None s acc ->
  Inv MChunk None (fst (visit now e (s, acc) k)) (snd (visit now e (s, acc) k)).
Proof.
  intros Hns H. rewrite visit_hbody.
  destruct (crashed s); [exact H|]. destruct (h_has k s) eqn:Hh; cbn [negb]; [|exact H].
  destruct (hkind_eqb k HUser && negb (neg_done s)); [exact H|].
  destruct (filter_match k e) eqn:Fm; cbn [negb]; [|exact H]. cbn [fst snd].
  apply h_has_In in Hh.
  destruct (inN4 k) eqn:N4.
  - destruct k; try discriminate N4.
    + apply hbody_user. exact H.
    + rewrite filter_match_HError in Fm. congruence.
    + apply hbody_features; assumption.
    + apply hbody_proceedtls; assumption.
  - apply hbody_post_auth; [exact N4 | exact (Inv_arm_of_handler _ _ _ _ Hh N4 H) | exact (Inv_HE _ _ _ H) | exact H].
Qed.

Lemma fold_visit_inv now e l : forall s acc, is_serr e = false -> Inv MChunk None s acc ->
  Inv MChunk None (fst (fold_left (visit now e) l (s, acc))) (snd (fold_left (visit now e) l (s, acc))).
Proof.
  induction l as [|k l IH]; intros s acc Hns H; cbn [fold_left]; [exact H|].
  pose proof (visit_inv now e k s acc Hns H) as Q. destruct (visit now e (s, acc) k) as [s1 o1]. cbn [fst snd] in Q.
  apply IH; assumption.
Qed.

(* ------------------------------------------------------------------ the handler list through the id pass *)
Lemma q_append_hl w u m s : handlers (q_append w u m s) = handlers s.
Proof. unfold q_append. cbv zeta. repeat case_goal; reflexivity. Qed.
Lemma send_gated_hl w u m s : handlers (send_gated w u m s) = handlers s.
Proof. unfold send_gated. case_goal; [apply q_append_hl|reflexivity]. Qed.
Lemma timed_add_hl k now s : handlers (timed_add k now s) = handlers s.
Proof. unfold timed_add. case_goal; reflexivity. Qed.
Lemma xmpp_disconnect_hl now s : handlers (xmpp_disconnect now s) = handlers s.
Proof. unfold xmpp_disconnect. case_goal; try reflexivity; rewrite timed_add_hl; apply send_gated_hl. Qed.
Lemma id_add_hl k s : handlers (id_add k s) = handlers s.
Proof. unfold id_add. case_goal; reflexivity. Qed.
Lemma id_del_hl k s : handlers (id_del k s) = handlers s.
Proof. reflexivity. Qed.
Lemma timed_del_hl k s : handlers (timed_del k s) = handlers s.
Proof. reflexivity. Qed.
Lemma session_start_hl now s : handlers (session_start now s) = handlers s.
Proof. unfold session_start. rewrite send_gated_hl, timed_add_hl. apply id_add_hl. Qed.
Lemma sns_hl s : handlers (fst (stream_negotiation_success s)) = handlers s.
Proof. unfold stream_negotiation_success, upg. repeat case_goal; reflexivity. Qed.
Lemma sm_enable_hl s : handlers (sm_enable s) = handlers (h_add HSm s).
Proof. unfold sm_enable. cbv zeta. sproj. apply send_gated_hl. Qed.
Lemma h_add_hl_mono k s x : In x (handlers s) -> In x (handlers (h_add k s)).
Proof. unfold h_add. case_goal; [auto|]. sproj. intros H. apply in_or_app. left. exact H. Qed.

Lemma idbody_hl now e k s x : In x (handlers s) -> In x (handlers (fst (idbody k now e s))).
Proof.
  intros H. unfold idbody. destruct k; cbv beta iota zeta delta [call_id_handler is_user_id]; unfold ret, say.
  all: repeat (case_goal; cbv beta iota); cbn [fst]; rewrite ?id_del_hl; sproj;
    repeat match goal with
           | E : stream_negotiation_success ?X = (?s1, _) |- context [handlers ?s1] =>
               replace s1 with (fst (stream_negotiation_success X)) by (rewrite E; reflexivity); rewrite sns_hl; sproj
           end;
    rewrite ?xmpp_disconnect_hl, ?session_start_hl, ?sm_enable_hl; sproj;
    try (apply h_add_hl_mono); rewrite ?timed_del_hl; sproj; exact H.
Qed.

(* ------------------------------------------------------------------ dispatching a <stream:error/> *)
Definition FI (x : Z * bool) (p : option (Z * bool)) (s : state) (acc : emit) : Prop :=
  Inv MChunk p s acc /\ g_serr (gh s) = Some x /\ (p = None \/ p = Some x).

Lemma Inv_pend_irrel m p p' s acc : st s = Disconnected \/ is_raw s = true -> Inv m p s acc -> Inv m p' s acc.
Proof.
  intros Hd [HL [s1 s2 s3] HD HM]. constructor; try assumption. constructor; try assumption.
  intros A B. exfalso. destruct Hd as [Hd|Hd]; [exact (A Hd)| change (is_raw s = false) in B; congruence].
Qed.

Lemma visit_serr now e k s acc p :
  is_serr e = true -> FI (e_cond e, e_text e) p s acc ->
  let r := visit now e (s, acc) k in
  exists p', FI (e_cond e, e_text e) p' (fst r) (snd r) /\ st (fst r) = st s /\ is_raw (fst r) = is_raw s /\
             (p = None -> p' = None) /\ (k = HError -> st s <> Disconnected -> is_raw s = false -> p' = None).
Proof.
  intros Hs (H & Hx & Hp). cbv zeta. rewrite visit_hbody.
  destruct (crashed s) eqn:Cr.
  { exfalso. destruct (K1 _ _ (IL _ _ _ _ _ H)) as [Q _]. change (crashed s = false) in Q. congruence. }
  destruct (h_has k s) eqn:Hh; cbn [negb].
  2:{ exists p. cbn [fst snd]. split; [unfold FI; auto|]. split; [reflexivity|]. split; [reflexivity|]. split; [auto|].
      intros -> A B. exfalso. destruct (IM _ _ _ _ _ H) as (_ & M2 & _). specialize (M2 A B). apply h_has_In in M2. congruence. }
  destruct (hkind_eqb k HUser && negb (neg_done s)) eqn:G.
  { exists p. cbn [fst snd]. split; [unfold FI; auto|]. split; [reflexivity|]. split; [reflexivity|]. split; [auto|]. intros ->. discriminate G. }
  destruct (filter_match k e) eqn:Fm; cbn [negb].
  2:{ exists p. cbn [fst snd]. split; [unfold FI; auto|]. split; [reflexivity|]. split; [reflexivity|]. split; [auto|]. intros ->. rewrite filter_match_HError in Fm. congruence. }
  cbn [fst snd].
  destruct (filter_match_serr k e Hs Fm) as [-> | ->].
  - exists p. unfold hbody. cbn [call_handler fst snd].
    split; [split; [apply Inv_neutral; [reflexivity|exact H]|auto]|]. split; [reflexivity|]. split; [reflexivity|]. split; [auto|discriminate].
  - exists None. pose proof (hbody_error MChunk p now e s acc Hx H) as Q. unfold RInv in Q.
    unfold hbody in *. cbn [call_handler fst snd] in *.
    split; [split; [exact Q|split; [exact Hx|left; reflexivity]]|]. split; [reflexivity|]. split; [reflexivity|]. split; auto.
Qed.

Lemma fold_visit_serr now e l : forall s acc p,
  is_serr e = true -> FI (e_cond e, e_text e) p s acc ->
  let r := fold_left (visit now e) l (s, acc) in
  exists p', FI (e_cond e, e_text e) p' (fst r) (snd r) /\ st (fst r) = st s /\ is_raw (fst r) = is_raw s /\
             (p = None \/ (In HError l /\ st s <> Disconnected /\ is_raw s = false) -> p' = None).
Proof.
  induction l as [|k l IH]; intros s acc p Hs H; cbn [fold_left]; cbv zeta.
  - exists p. cbn [fst snd]. split; [exact H|]. split; [reflexivity|]. split; [reflexivity|]. intros [Q|[[] _]]. exact Q.
  - destruct (visit_serr now e k s acc p Hs H) as (p1 & H1 & E1 & E2 & N1 & N2).
    destruct (visit now e (s, acc) k) as [s1 o1]. cbn [fst snd] in *.
    destruct (IH s1 o1 p1 Hs H1) as (p2 & H2 & E3 & E4 & N3). exists p2. split; [exact H2|].
    split; [congruence|]. split; [congruence|].
    intros [Q|([Q|Q] & A & B)]; apply N3.
    + left. auto.
    + left. apply N2; auto.
    + right. rewrite E1, E2. auto.
Qed.

(* ------------------------------------------------------------------ the observer of received elements *)
Definition gcore (g : ghost) := (g_attempt g, g_connects g, g_disconnects g, g_rawc g, g_se_bad g).
Lemma note_rx_spec e s :
  exists g', note_rx e s = set_gh g' s /\ gcore g' = gcore (gh s) /\
             g_serr g' = if is_serr e then Some (e_cond e, e_text e) else g_serr (gh s).
Proof.
  cbv beta delta [note_rx].
  repeat match goal with
  | |- context C [let x := ?v in @?b x] =>
      let x' := fresh "g" in
      pose (x' := v); let g' := context C [b x'] in change g'; cbv beta;
      first [ assert (gcore x' = gcore (gh s) /\ g_serr x' = g_serr (gh s)) by
                (subst x'; repeat case_goal;
                 repeat match goal with H : _ /\ _ |- _ => destruct H end; split; assumption || reflexivity);
              clearbody x'
            | idtac ]
  end.
  eexists. split; [reflexivity|].
  subst g5. fold (is_serr e). destruct (is_serr e); repeat match goal with H : _ /\ _ |- _ => destruct H end; split; try assumption; reflexivity.
Qed.

Lemma Inv_note_rx e s acc : Inv MChunk None s acc ->
  Inv MChunk (if is_serr e then Some (e_cond e, e_text e) else None) (note_rx e s) acc /\
  handlers (note_rx e s) = handlers s /\ idhandlers (note_rx e s) = idhandlers s.
Proof.
  intros H. destruct (note_rx_spec e s) as (g' & E & Hg & Hs). rewrite E.
  split; [|split; reflexivity].
  unfold gcore in Hg. injection Hg as G1 G2 G3 G4 G5.
  unfold Inv. change (deep (set_gh g' s)) with (deep s).
  assert (C : core (set_gh g' s) =
              mkCore (c_st (core s)) (c_nd (core s)) (c_raw (core s)) (c_alloc (core s)) (c_crashed (core s)) (c_se (core s))
                     (c_att (core s)) (c_nc (core s)) (c_ndisc (core s)) (c_rawc (core s)) (g_serr g') (c_sebad (core s))).
  { unfold core. sproj. core_simpl. rewrite G1, G2, G3, G4, G5. reflexivity. }
  rewrite C.
  apply (InvV_core_change2 MChunk None _ (core s) _ (deep s) acc acc); try reflexivity; [ | | exact H].
  - apply LifeI_irrelevant. apply H.
  - destruct H as [_ [s1 s2 s3] _ _]. constructor; core_simpl; try assumption.
    intros A B. specialize (s2 A B). cbn in s2. rewrite Hs. destruct (is_serr e); [reflexivity|exact s2].
Qed.

Lemma deep_enable s : deep (set_handlers (map (fun x => (fst x, true)) (handlers s)) s) = deep s.
Proof. unfold deep. sproj. rewrite map_map. cbn [fst]. reflexivity. Qed.

Lemma idbody_st now e k s : st (fst (idbody k now e s)) = st s /\ is_raw (fst (idbody k now e s)) = is_raw s /\
  g_serr (gh (fst (idbody k now e s))) = g_serr (gh s).
Proof.
  assert (G : forall x, core x = core s \/ (exists y, core y = core s /\ x = fst (stream_negotiation_success y)) -> st x = st s /\ is_raw x = is_raw s /\ g_serr (gh x) = g_serr (gh s)).
  { intros x [C|(y & C & ->)].
    - pose proof (core_fields _ _ C) as (F1 & _ & F3 & _ & _ & _ & _ & _ & _ & _ & F11 & _). auto.
    - pose proof (core_fields _ _ C) as (F1 & _ & F3 & _ & _ & _ & _ & _ & _ & _ & F11 & _). rewrite <- F1, <- F3, <- F11.
      destruct (sns_spec y) as [(_ & _ & E)|(_ & s' & E & C' & _)]; rewrite E; cbn [fst]; [auto|].
      split; [change (c_st (core s') = st y)|split; [change (c_raw (core s') = is_raw y)|change (c_serr (core s') = g_serr (gh y))]]; rewrite C'; reflexivity. }
  unfold idbody. destruct k; cbv beta iota zeta delta [call_id_handler is_user_id]; unfold ret, say.
  all: repeat (case_goal; cbv beta iota); cbn [fst];
    repeat match goal with
           | E : stream_negotiation_success ?X = (?s1, _) |- _ =>
               replace s1 with (fst (stream_negotiation_success X)) by (rewrite E; reflexivity); clear E
           end.
  all: first [ apply G; left; autorewrite with ncore; reflexivity
             | match goal with |- context [stream_negotiation_success ?X] =>
                 change (st (fst (stream_negotiation_success X)) = st s /\ is_raw (fst (stream_negotiation_success X)) = is_raw s /\ g_serr (gh (fst (stream_negotiation_success X))) = g_serr (gh s));
                 apply G; right; exists X; split; [autorewrite with ncore; reflexivity|reflexivity] end ].
Qed.

Lemma visit_prefix now e a s o k :
  visit now e (s, a ++ o) k = (fst (visit now e (s, o) k), a ++ snd (visit now e (s, o) k)).
Proof. rewrite !visit_hbody. repeat (case_goal; try reflexivity). cbn [fst snd]. rewrite app_assoc. reflexivity. Qed.
Lemma fold_visit_prefix now e a l : forall s o,
  fold_left (visit now e) l (s, a ++ o) =
  (fst (fold_left (visit now e) l (s, o)), a ++ snd (fold_left (visit now e) l (s, o))).
Proof.
  induction l as [|k l IH]; intros s o; cbn [fold_left]; [reflexivity|].
  rewrite visit_prefix. destruct (visit now e (s, o) k) as [s1 o1]. cbn [fst snd]. apply IH.
Qed.

(* ------------------------------------------------------------------ handler_fire_stanza *)
Lemma dispatch_inv now e s0 acc : Inv MChunk None s0 acc -> RInv MChunk None acc (dispatch now e s0).
Proof.
  intros H0. unfold dispatch, RInv.
  destruct (Inv_note_rx e s0 acc H0) as (Ha & Hha & Hia).
  destruct (note_rx_spec e s0) as (g' & Eg & _ & Hserr).
  set (sa := note_rx e s0) in *.
  assert (Hal : sm_alloc sa = true) by (destruct (IM _ _ _ _ _ Ha) as ((_ & R2 & _) & _); exact R2).
  rewrite Hal. cbn [negb].
  set (sb := set_handlers (map (fun x => (fst x, true)) (handlers sa)) sa).
  set (p1 := if is_serr e then Some (e_cond e, e_text e) else None) in *.
  assert (Hb : Inv MChunk p1 sb acc) by (apply (Inv_frame _ _ sa); [reflexivity|apply deep_enable|exact Ha]).
  assert (Hgb : g_serr (gh sb) = if is_serr e then Some (e_cond e, e_text e) else g_serr (gh s0)).
  { change (g_serr (gh sa) = if is_serr e then Some (e_cond e, e_text e) else g_serr (gh s0)). rewrite Eg. exact Hserr. }
  (* id pass *)
  lazymatch goal with |- Inv _ _ (fst ?T) _ => lazymatch T with match ?F with _ => _ end => set (r1 := F) end end.
  assert (H1 : Inv MChunk p1 (fst r1) (acc ++ snd r1) /\ st (fst r1) = st sb /\ is_raw (fst r1) = is_raw sb /\
               g_serr (gh (fst r1)) = g_serr (gh sb) /\ (forall x, In x (handlers sb) -> In x (handlers (fst r1)))).
  { subst r1. destruct (idk_of (e_id e)) as [k|]; [destruct (id_has k sb) eqn:Hid|].
    - match goal with |- context [if is_user_id k && _ then _ else ?X] => change X with (idbody k now e sb) end.
      destruct (is_user_id k) eqn:Uk; cbn [andb].
      + (* the user's id handler: skipped before the connection is up, otherwise it only reports *)
        destruct k; try discriminate Uk. destruct (negb (neg_done sb)); unfold idbody; cbv beta iota delta [call_id_handler is_user_id say];
          cbn [ret fst snd]; [rewrite app_nil_r; auto|].
        split; [apply Inv_neutral; [reflexivity|exact Hb]|auto].
      + apply (id_has_In k sb Uk) in Hid. destruct (idbody_st now e k sb) as (I1 & I2 & I3).
        split; [|split; [exact I1|split; [exact I2|split; [exact I3|intros x; apply idbody_hl]]]].
        apply idbody_inv; [exact (Inv_arm_of_id _ _ _ _ Hid Hb) | exact (Inv_HE _ _ _ Hb) | exact Hb].
    - cbn [ret fst snd]. rewrite app_nil_r. auto.
    - cbn [ret fst snd]. rewrite app_nil_r. auto. }
  destruct r1 as [s1 o1]. cbn [fst snd] in H1. destruct H1 as (H1 & Est & Eraw & Egs & Hmono).
  (* name pass *)
  set (snapshot := map fst (filter (fun x => snd x) (handlers s1))).
  assert (H3 : Inv MChunk None (fst (fold_left (visit now e) snapshot (s1, acc ++ o1))) (snd (fold_left (visit now e) snapshot (s1, acc ++ o1)))).
  { destruct (is_serr e) eqn:Hs.
    - assert (HF : FI (e_cond e, e_text e) p1 s1 (acc ++ o1)).
      { split; [exact H1|]. split; [rewrite Egs; exact Hgb|right; reflexivity]. }
      destruct (fold_visit_serr now e snapshot s1 (acc ++ o1) p1 Hs HF) as (p' & (HI & _) & E3 & E4 & Hn). cbv zeta in *.
      destruct (st s1) eqn:St1.
      { apply (Inv_pend_irrel _ p'); [left; exact E3|exact HI]. }
      all: destruct (is_raw s1) eqn:Rw1; [apply (Inv_pend_irrel _ p'); [right; exact E4|exact HI]|].
      all: assert (Hp' : p' = None);
        [ apply Hn; right; split; [|split; [discriminate|reflexivity]];
          assert (Q : In HError (hkinds sa)) by
            (destruct (IM _ _ _ _ _ Ha) as (_ & M2 & _); apply M2;
             [change (st sb <> Disconnected); rewrite <- Est; discriminate | change (is_raw sb = false); symmetry; exact Eraw]);
          unfold hkinds in Q; apply in_map_iff in Q; destruct Q as ([k b] & Ek & Q); cbn [fst] in Ek; subst k;
          unfold snapshot; apply in_map_iff; exists (HError, true); split; [reflexivity|];
          apply filter_In; split; [|reflexivity]; apply Hmono; unfold sb; sproj;
          apply in_map_iff; exists (HError, b); split; [reflexivity|exact Q]
        | rewrite Hp' in HI; exact HI ].
    - apply fold_visit_inv; [exact Hs|exact H1]. }
  rewrite fold_visit_prefix in H3. cbn [fst snd] in H3.
  lazymatch goal with |- Inv _ _ (fst ?T) _ => lazymatch T with match ?F with _ => _ end =>
    change (Inv MChunk None (fst F) (acc ++ snd F)) in H3; destruct F as [s3 o3] eqn:Ef end end.
  cbn [fst snd] in H3.
  assert (Hc : crashed s3 = false) by (destruct (K1 _ _ (IL _ _ _ _ _ H3)) as [Q _]; exact Q).
  rewrite Hc. destruct (sm_enabled s3); cbn [fst snd].
  - apply (Inv_frame _ _ s3); [apply sm_handle_core|apply sm_handle_deep|exact H3].
  - exact H3.
Qed.

(* ------------------------------------------------------------------ the parser state commutes with the stream handlers *)
Ltac comm_tac := repeat (sproj; try reflexivity; case_goal); sproj; try reflexivity.
Lemma set_ps_q_append p w u m s : q_append w u m (set_ps p s) = set_ps p (q_append w u m s).
Proof. unfold q_append. cbv zeta. comm_tac. Qed.
Lemma set_ps_send_gated p w u m s : send_gated w u m (set_ps p s) = set_ps p (send_gated w u m s).
Proof. unfold send_gated, is_connected_owner. sproj. repeat case_goal; try reflexivity; apply set_ps_q_append. Qed.
Lemma set_ps_timed_add p k now s : timed_add k now (set_ps p s) = set_ps p (timed_add k now s).
Proof. unfold timed_add, timed_has. comm_tac. Qed.
Lemma set_ps_h_add p k s : h_add k (set_ps p s) = set_ps p (h_add k s).
Proof. unfold h_add, h_has. comm_tac. Qed.
Lemma set_ps_xmpp_disconnect p now s : xmpp_disconnect now (set_ps p s) = set_ps p (xmpp_disconnect now s).
Proof. unfold xmpp_disconnect. sproj. case_goal; try reflexivity; rewrite set_ps_send_gated, set_ps_timed_add; reflexivity. Qed.
Lemma set_ps_sns p s : stream_negotiation_success (set_ps p s) =
  (set_ps p (fst (stream_negotiation_success s)), snd (stream_negotiation_success s)).
Proof. unfold stream_negotiation_success, connect_justified, upg, ret. comm_tac. Qed.
Lemma set_ps_open_handler p now s : open_handler now (set_ps p s) =
  (set_ps p (fst (open_handler now s)), snd (open_handler now s)).
Proof.
  unfold open_handler. sproj. destruct (oh s); unfold ret; cbn [fst snd].
  - change (timed_reset_all now (set_ps p s)) with (set_ps p (timed_reset_all now s)).
    rewrite !set_ps_h_add, set_ps_timed_add. reflexivity.
  - rewrite !set_ps_h_add, set_ps_timed_add. reflexivity.
  - rewrite !set_ps_h_add, set_ps_timed_add. reflexivity.
  - rewrite !set_ps_h_add, set_ps_timed_add. reflexivity.
  - change (timed_reset_all now (set_ps p s)) with (set_ps p (timed_reset_all now s)).
    rewrite !set_ps_h_add, set_ps_timed_add. sproj. case_goal; cbn [fst snd]; rewrite ?set_ps_send_gated, ?set_ps_xmpp_disconnect; reflexivity.
  - change (timed_reset_all now (set_ps p s)) with (set_ps p (timed_reset_all now s)). apply set_ps_sns.
  - reflexivity.
Qed.
Lemma set_ps_stream_start p now h s : stream_start now true h (set_ps p s) =
  (set_ps p (fst (stream_start now true h s)), snd (stream_start now true h s)).
Proof.
  unfold stream_start. cbv zeta.
  change (set_stream_id h (set_stream_id false (upg (fun g => set_g_raw_open (true || g_raw_open g) (set_g_feat_seen false g)) (set_ps p s))))
    with (set_ps p (set_stream_id h (set_stream_id false (upg (fun g => set_g_raw_open (true || g_raw_open g) (set_g_feat_seen false g)) s)))).
  apply set_ps_open_handler.
Qed.

(* ------------------------------------------------------------------ parser state changes *)
Lemma InvV_set_ps m p c d acc ps' :
  (c_st c <> Disconnected -> c_raw c = false -> In HError (d_handlers d) \/ (oh_first (d_oh d) = true /\ ps_live ps' = false)) ->
  (m = MFeed -> c_st c = Disconnected -> ps' <> PDepth0 /\ (dead ps' = true \/ near3 d)) ->
  InvV m p c d acc ->
  InvV m p c (mkDeep (d_handlers d) (d_ids d) (d_oh d) ps' (d_secured d) (d_tlsp d) (d_tlsf d) (d_tlss d) (d_mand d) (d_dis d) (d_rp d)) acc.
Proof.
  intros He Hf [HL [s1 s2 s3] [df dts dp dm dh0] HM].
  constructor; [assumption | constructor | constructor | ]; unfold is_sec, near4, near3 in *; deep_simpl; try assumption.
  - intros A B. destruct (He A B) as [Q|[Q1 Q2]]; [left; exact Q|right; auto].
  - assert (HR : RunI c d -> RunI c (mkDeep (d_handlers d) (d_ids d) (d_oh d) ps' (d_secured d) (d_tlsp d) (d_tlsf d) (d_tlss d) (d_mand d) (d_dis d) (d_rp d))).
    { unfold RunI; deep_simpl. intros (R1 & R2 & R3). split; [assumption|]. split; [assumption|]. exact He. }
    destruct m; cbn [ModeI] in *; unfold near3 in *; deep_simpl.
    + exact I.
    + auto.
    + destruct HM as (M1 & M2 & M3). split; [auto|]. split; assumption.
    + destruct HM as (M1 & M2). split; [auto|]. intros E. apply Hf; [reflexivity|exact E].
Qed.
Lemma Inv_set_ps m p ps' s acc :
  (st s <> Disconnected -> is_raw s = false -> In HError (hkinds s) \/ (oh_first (oh s) = true /\ ps_live ps' = false)) ->
  (m = MFeed -> st s = Disconnected -> ps' <> PDepth0 /\ (dead ps' = true \/ near3 (deep s))) ->
  Inv m p s acc -> Inv m p (set_ps ps' s) acc.
Proof. intros A B H. exact (InvV_set_ps m p (core s) (deep s) acc ps' A B H). Qed.

Lemma Inv_h_add_pre m p k s acc :
  inN4 k = true -> k <> HProceedTls -> (m = MChunk \/ m = MFeed -> inN3 k = false -> st s <> Disconnected) ->
  Inv m p s acc -> Inv m p (h_add k s) acc.
Proof. intros A B C. apply Inv_h_add; [congruence | intros Q; congruence | exact C]. Qed.

Lemma ArmS_of_oh m p s acc : st s <> Disconnected -> oh_pre (oh s) = false -> Inv m p s acc -> ArmS m s.
Proof.
  intros Hst Hoh H. split; [intros _; exact Hst|]. intros _ Hm.
  destruct (is_secured s) eqn:Q; [reflexivity|]. exfalso.
  destruct (DM _ _ (ID _ _ _ _ _ H) Hst Hm Q) as (_ & _ & N3). change (oh_pre (oh s) = true) in N3. congruence.
Qed.

Lemma hkinds_timed_add k now s : hkinds (timed_add k now s) = hkinds s.
Proof. unfold hkinds. rewrite timed_add_hl. reflexivity. Qed.

(* the open handlers, on a live connection *)
Lemma open_handler_inv p now s acc : st s <> Disconnected -> Inv MRun p s acc ->
  RInv MRun p acc (open_handler now s) /\ st (fst (open_handler now s)) = st s /\ is_raw (fst (open_handler now s)) = is_raw s /\
  (is_raw s = false -> In HError (hkinds (fst (open_handler now s)))).
Proof.
  intros Hst H. unfold RInv, open_handler.
  assert (Hc : forall x, core x = core s -> st x = st s /\ is_raw x = is_raw s)
    by (intros x C; pose proof (core_fields _ _ C) as (F1 & _ & F3 & _); auto).
  assert (HE0 : oh_first (oh s) = false -> is_raw s = false -> In HError (hkinds s)).
  { intros Q R. destruct (IM _ _ _ _ _ H) as (_ & _ & R3). destruct (R3 Hst R) as [X|[X _]]; [exact X|]. change (oh_first (oh s) = true) in X. congruence. }
  destruct (oh s) eqn:Oh; unfold ret; cbn [fst snd]; rewrite ?app_nil_r.
  - split; [|split; [|split]].
    + apply (Inv_frame_fun _ _ (timed_add TMissingFeatures now)); [intro; apply timed_add_core|intro; apply timed_add_deep|].
      apply Inv_h_add_pre; [reflexivity|discriminate|intros [Q|Q]; discriminate Q|].
      apply Inv_h_add_pre; [reflexivity|discriminate|intros [Q|Q]; discriminate Q|].
      apply (Inv_frame_fun _ _ (timed_reset_all now)); [intro; reflexivity|intro; reflexivity|exact H].
    + apply Hc. autorewrite with ncore. reflexivity.
    + apply Hc. autorewrite with ncore. reflexivity.
    + intros _. rewrite hkinds_timed_add.
      apply hkinds_h_add. left. apply hkinds_h_add. right. reflexivity.
  - split; [|split; [|split]].
    + apply (Inv_frame_fun _ _ (timed_add TMissingFeaturesSasl now)); [intro; apply timed_add_core|intro; apply timed_add_deep|].
      apply Inv_h_add_pre; [reflexivity|discriminate|intros [Q|Q]; discriminate Q|exact H].
    + apply Hc. autorewrite with ncore. reflexivity.
    + apply Hc. autorewrite with ncore. reflexivity.
    + intros R. rewrite hkinds_timed_add. apply hkinds_h_add. left. apply HE0; [reflexivity|exact R].
  - assert (A : ArmS MRun s) by (apply (ArmS_of_oh _ p _ acc); [exact Hst|rewrite Oh; reflexivity|exact H]).
    split; [|split; [|split]].
    + apply (Inv_frame_fun _ _ (timed_add TMissingFeaturesSasl now)); [intro; apply timed_add_core|intro; apply timed_add_deep|].
      apply Inv_h_add_arm; [exact A|discriminate|exact H].
    + apply Hc. autorewrite with ncore. reflexivity.
    + apply Hc. autorewrite with ncore. reflexivity.
    + intros R. rewrite hkinds_timed_add. apply hkinds_h_add. left. apply HE0; [reflexivity|exact R].
  - assert (A : ArmS MRun s) by (apply (ArmS_of_oh _ p _ acc); [exact Hst|rewrite Oh; reflexivity|exact H]).
    split; [|split; [|split]].
    + apply (Inv_frame_fun _ _ (timed_add TMissingFeaturesSasl now)); [intro; apply timed_add_core|intro; apply timed_add_deep|].
      apply Inv_h_add_arm; [exact A|discriminate|exact H].
    + apply Hc. autorewrite with ncore. reflexivity.
    + apply Hc. autorewrite with ncore. reflexivity.
    + intros R. rewrite hkinds_timed_add. apply hkinds_h_add. left. apply HE0; [reflexivity|exact R].
  - assert (A : ArmS MRun s) by (apply (ArmS_of_oh _ p _ acc); [exact Hst|rewrite Oh; reflexivity|exact H]).
    set (s1 := timed_add TMissingHandshake now (h_add HComponentHs (h_add HError (timed_reset_all now s)))).
    assert (H1 : Inv MRun p s1 acc).
    { unfold s1. apply (Inv_frame_fun _ _ (timed_add TMissingHandshake now)); [intro; apply timed_add_core|intro; apply timed_add_deep|].
      apply Inv_h_add_arm; [|discriminate|].
      - apply ArmS_h_add. apply (ArmS_frame_fun _ (timed_reset_all now)); [intro; reflexivity|intro; reflexivity|exact A].
      - apply Inv_h_add_pre; [reflexivity|discriminate|intros [Q|Q]; discriminate Q|].
        apply (Inv_frame_fun _ _ (timed_reset_all now)); [intro; reflexivity|intro; reflexivity|exact H]. }
    assert (C1 : core s1 = core s) by (unfold s1; autorewrite with ncore; reflexivity).
    assert (E1 : In HError (hkinds s1)).
    { unfold s1. rewrite hkinds_timed_add.
      apply hkinds_h_add. left. apply hkinds_h_add. right. reflexivity. }
    clearbody s1.
    destruct (stream_id s1); cbn [fst snd]; rewrite ?app_nil_r.
    + split; [apply (Inv_frame _ _ s1); [apply send_gated_core|apply send_gated_deep|exact H1]|].
      split; [|split]; [apply Hc; rewrite send_gated_core; exact C1 | apply Hc; rewrite send_gated_core; exact C1 |].
      intros _. unfold hkinds. rewrite send_gated_hl. exact E1.
    + split; [apply (Inv_frame _ _ s1); [apply xmpp_disconnect_core|apply xmpp_disconnect_deep|exact H1]|].
      split; [|split]; [apply Hc; rewrite xmpp_disconnect_core; exact C1 | apply Hc; rewrite xmpp_disconnect_core; exact C1 |].
      intros _. unfold hkinds. rewrite xmpp_disconnect_hl. exact E1.
  - set (s1 := timed_reset_all now s).
    assert (H1 : Inv MRun p s1 acc) by (apply (Inv_frame_fun _ _ (timed_reset_all now)); [intro; reflexivity|intro; reflexivity|exact H]).
    split; [apply sns_inv; [discriminate|exact Hst|exact H1]|].
    destruct (sns_core_st s1) as [Q1 Q2].
    split; [exact Q1|]. split.
    + destruct (sns_spec s1) as [(_ & _ & E)|(_ & s' & E & C' & _)]; rewrite E; cbn [fst]; [reflexivity|].
      change (c_raw (core s') = is_raw s1). rewrite C'. reflexivity.
    + intros R. rewrite hkinds_deep, Q2. apply HE0; [reflexivity|exact R].
  - split; [exact H|]. split; [reflexivity|]. split; [reflexivity|]. intros R. apply HE0; [reflexivity|exact R].
Qed.

Lemma stream_start_true_inv p now h s acc : st s <> Disconnected -> Inv MRun p s acc ->
  RInv MRun p acc (stream_start now true h s) /\ st (fst (stream_start now true h s)) = st s /\
  is_raw (fst (stream_start now true h s)) = is_raw s /\
  (is_raw s = false -> In HError (hkinds (fst (stream_start now true h s)))).
Proof.
  intros Hst H. unfold stream_start. cbv zeta.
  set (b := set_stream_id h (set_stream_id false (upg (fun g => set_g_raw_open (true || g_raw_open g) (set_g_feat_seen false g)) s))).
  assert (Cb : core b = core s) by reflexivity.
  assert (Db : deep b = deep s) by reflexivity.
  assert (Hb : Inv MRun p b acc) by (apply (Inv_frame _ _ s); assumption).
  assert (Sb : st b = st s) by reflexivity. assert (Rb : is_raw b = is_raw s) by reflexivity.
  clearbody b. rewrite <- Sb, <- Rb. apply open_handler_inv; [rewrite Sb; exact Hst|exact Hb].
Qed.

(* conn_disconnect on a state that agrees with an invariant-satisfying one on the core and the flags *)
Lemma conn_disconnect_inv_gen m x s acc : (m = MTop \/ m = MRun) ->
  core x = core s -> d_dis (deep x) = d_dis (deep s) -> d_mand (deep x) = d_mand (deep s) -> d_tlss (deep x) = d_tlss (deep s) ->
  Inv m None s acc -> Inv m None (fst (conn_disconnect x)) (acc ++ snd (conn_disconnect x)).
Proof.
  intros Hm C E1 E2 E3 H.
  destruct (H) as [HL [s1 s2 s3] [df dts dp dm dh0] HM].
  pose proof (core_fields _ _ C) as (F1 & _ & _ & F4 & _).
  destruct (st x) eqn:E.
  - rewrite conn_disconnect_idle by assumption. cbn [fst snd]. rewrite app_nil_r.
    (* disconnected: the invariant does not read the fields in which x and s may differ *)
    assert (Es : c_st (core s) = Disconnected) by (change (st s = Disconnected); congruence).
    unfold Inv. rewrite C.
    constructor; [exact HL| | | ].
    + constructor; [exact s1| |]; intros A; exfalso; apply A; exact Es.
    + constructor; rewrite ?E1, ?E2, ?E3; try assumption; try (intros A; exfalso; apply A; exact Es). intros A. rewrite Es in A. discriminate A.
    + destruct Hm as [-> | ->]; cbn [ModeI] in *; [exact I|]. destruct HM as (R1 & R2 & R3). split; [exact R1|]. split; [exact R2|].
      intros A; exfalso; apply A; exact Es.
  - assert (Hst : st x <> Disconnected) by congruence.
    assert (Hst' : c_st (core s) <> Disconnected) by (change (st s <> Disconnected); congruence).
    assert (Ha : sm_alloc x = true) by (rewrite F4; apply (K2 _ _ HL); exact Hst').
    destruct (conn_disconnect_spec x Hst Ha) as (s' & l & sb & Eq & Hn & C' & Hsb & D). rewrite Eq. cbn [fst snd].
    unfold Inv. rewrite C', D.
    change (is_raw x) with (c_raw (core x)). change (sm_alloc x) with (c_alloc (core x)). change (crashed x) with (c_crashed (core x)).
    change (stream_error x) with (c_se (core x)). change (g_attempt (gh x)) with (c_att (core x)). change (g_connects (gh x)) with (c_nc (core x)).
    change (g_disconnects (gh x)) with (c_ndisc (core x)). change (g_rawc (gh x)) with (c_rawc (core x)). change (g_serr (gh x)) with (c_serr (core x)).
    change (g_se_bad (gh x)) with (c_sebad (core x)) in Hsb. change (is_raw x) with (c_raw (core x)) in Hsb.
    change (stream_error x) with (c_se (core x)) in Hsb. change (g_serr (gh x)) with (c_serr (core x)) in Hsb.
    rewrite C in *.
    apply (InvV_disconnect m None (core s) (deep s)); try assumption; try reflexivity.
    intros R. apply (s2 Hst' R).
  - assert (Hst : st x <> Disconnected) by congruence.
    assert (Hst' : c_st (core s) <> Disconnected) by (change (st s <> Disconnected); congruence).
    assert (Ha : sm_alloc x = true) by (rewrite F4; apply (K2 _ _ HL); exact Hst').
    destruct (conn_disconnect_spec x Hst Ha) as (s' & l & sb & Eq & Hn & C' & Hsb & D). rewrite Eq. cbn [fst snd].
    unfold Inv. rewrite C', D.
    change (is_raw x) with (c_raw (core x)). change (sm_alloc x) with (c_alloc (core x)). change (crashed x) with (c_crashed (core x)).
    change (stream_error x) with (c_se (core x)). change (g_attempt (gh x)) with (c_att (core x)). change (g_connects (gh x)) with (c_nc (core x)).
    change (g_disconnects (gh x)) with (c_ndisc (core x)). change (g_rawc (gh x)) with (c_rawc (core x)). change (g_serr (gh x)) with (c_serr (core x)).
    change (g_se_bad (gh x)) with (c_sebad (core x)) in Hsb. change (is_raw x) with (c_raw (core x)) in Hsb.
    change (stream_error x) with (c_se (core x)) in Hsb. change (g_serr (gh x)) with (c_serr (core x)) in Hsb.
    rewrite C in *.
    apply (InvV_disconnect m None (core s) (deep s)); try assumption; try reflexivity.
    intros R. apply (s2 Hst' R).
Qed.

(* ------------------------------------------------------------------ nothing below the parser layer touches the parser state *)
Definition PsR (s0 : state) (r : R) : Prop := ps (fst r) = ps s0.
Lemma ps_deep a b : deep a = deep b -> ps a = ps b.
Proof. intros E. apply (deep_fields _ _ E). Qed.
Lemma ps_frame_fun (g : state -> state) s0 : (forall x, ps (g x) = ps x) -> forall x, ps x = ps s0 -> ps (g x) = ps s0.
Proof. intros H x E. rewrite H. exact E. Qed.
Lemma ps_h_add k x : ps (h_add k x) = ps x.
Proof. unfold h_add. case_goal; reflexivity. Qed.
Lemma ps_id_add k x : ps (id_add k x) = ps x.
Proof. unfold id_add. case_goal; reflexivity. Qed.
Lemma ps_sns_eq x s' o : stream_negotiation_success x = (s', o) -> ps s' = ps x.
Proof. intros E. destruct (sns_core_st x) as [_ D]. rewrite E in D. exact (ps_deep _ _ D). Qed.

Ltac ps_side :=
  intro; first [ reflexivity | apply ps_h_add | apply ps_id_add | apply ps_deep; autorewrite with ndeep; reflexivity ].
Ltac ps_peel :=
  lazymatch goal with
  | |- ps (?g ?x) = ps ?s0 =>
      lazymatch type of x with state => idtac end;
      apply (ps_frame_fun g s0); [ ps_side | ]
  end.
(* generic head-first walk for a goal  P E  *)
Ltac gstep facts :=
  lazymatch goal with
  | |- ?P ?E =>
      lazymatch E with
      | match ?c with _ => _ end =>
          let t := find_scrut c in
          lazymatch t with
          | let x := ?v in @?b x =>
              let x' := fresh "x" in pose (x' := v); change t with (b x'); cbv beta iota; facts x'
          | ret _ => unfold ret at 1; cbv beta iota
          | (_, _) => cbv beta iota
          | _ => destruct t eqn:?; cbv beta iota
          end
      | if ?c then _ else _ =>
          let t := find_scrut c in
          lazymatch t with
          | let x := ?v in @?b x =>
              let x' := fresh "x" in pose (x' := v); change t with (b x'); cbv beta iota; facts x'
          | ret _ => unfold ret at 1; cbv beta iota
          | (_, _) => cbv beta iota
          | _ => destruct t eqn:?; cbv beta iota
          end
      | let x := ?v in @?b x =>
          let x' := fresh "x" in pose (x' := v); change E with (b x'); cbv beta iota; facts x'
      end
  end.
Ltac ps_use_eq := fail.
Ltac ps_fin := repeat first [ assumption | reflexivity | ps_peel | case_goal | ps_use_eq ].
Ltac ps_facts s0 x' :=
  lazymatch type of x' with
  | state => assert (ps x' = ps s0) by (subst x'; ps_fin); clearbody x'
  | _ => clearbody x'
  end.
Ltac ps_walk s0 := repeat gstep ltac:(ps_facts s0).
Ltac ps_leaf := unfold PsR, ret; cbn [fst snd]; ps_fin.

Ltac ps_use_eq ::=
  match goal with
  | E : stream_negotiation_success ?x = (?s', _) |- ps ?s' = _ => rewrite (ps_sns_eq _ _ _ E)
  end.

Lemma ps_auth_legacy now x : ps (auth_legacy now x) = ps x.
Proof. unfold auth_legacy. ps_fin. Qed.
Lemma ps_conn_disconnect x : ps (fst (conn_disconnect x)) = ps x.
Proof. destruct (conn_disconnect_frame x) as (_ & _ & _ & F4 & _). exact F4. Qed.
Lemma ps_auth fuel now : forall x, ps (fst (auth fuel now x)) = ps x.
Proof.
  induction fuel as [|f IH]; intros x; cbn [auth]; repeat (case_goal; unfold ret; cbn [fst]);
    try apply ps_conn_disconnect; try (rewrite IH; reflexivity); try (rewrite ps_auth_legacy; reflexivity); ps_fin.
Qed.
Lemma ps_auth_eq fuel now x s' o : auth fuel now x = (s', o) -> ps s' = ps x.
Proof. intros E. pose proof (ps_auth fuel now x) as Q. rewrite E in Q. exact Q. Qed.
Lemma ps_do_bind now b x : ps (fst (do_bind now b x)) = ps x.
Proof. unfold do_bind. cbv zeta. case_goal; unfold ret; cbn [fst]; ps_fin. Qed.
Lemma ps_do_bind_eq now b x s' o : do_bind now b x = (s', o) -> ps s' = ps x.
Proof. intros E. pose proof (ps_do_bind now b x) as Q. rewrite E in Q. exact Q. Qed.
Lemma ps_session_start now x : ps (session_start now x) = ps x.
Proof. unfold session_start. ps_fin. Qed.
Lemma ps_sm_enable x : ps (sm_enable x) = ps x.
Proof. unfold sm_enable. cbv zeta. ps_fin. Qed.
Lemma ps_sasl_result now e x : ps (fst (sasl_result now e x)) = ps x.
Proof. unfold sasl_result. destruct (e_name e); unfold ret; cbn [fst]; try apply ps_auth; ps_fin. Qed.
Lemma ps_sasl_result_eq now e x s' o : sasl_result now e x = (s', o) -> ps s' = ps x.
Proof. intros E. pose proof (ps_sasl_result now e x) as Q. rewrite E in Q. exact Q. Qed.
Lemma ps_features_sasl now e x : PsR x (features_sasl now e x).
Proof.
  cbv beta delta [features_sasl]. ps_walk x.
  all: try (unfold PsR; rewrite ps_do_bind; assumption).
  all: ps_leaf.
Qed.
Lemma ps_features_sasl_eq now e x s' o : features_sasl now e x = (s', o) -> ps s' = ps x.
Proof. intros E. pose proof (ps_features_sasl now e x) as Q. unfold PsR in Q. rewrite E in Q. exact Q. Qed.
Lemma ps_conn_tls_start x : ps (fst (fst (conn_tls_start x))) = ps x.
Proof.
  pose proof (conn_tls_start_spec x) as Q. destruct (conn_tls_start x) as [[s1 o] ok]. cbn [fst].
  destruct Q as (_ & _ & [(_ & _ & D)|[(_ & _ & D)|(_ & D)]]); change (d_ps (deep s1) = d_ps (deep x)); rewrite D; reflexivity.
Qed.
Lemma ps_conn_tls_start_eq x s1 o ok : conn_tls_start x = (s1, o, ok) -> ps s1 = ps x.
Proof. intros E. pose proof (ps_conn_tls_start x) as Q. rewrite E in Q. exact Q. Qed.

Ltac ps_use_eq ::=
  match goal with
  | E : stream_negotiation_success ?x = (?s', _) |- ps ?s' = _ => rewrite (ps_sns_eq _ _ _ E)
  | E : auth _ _ ?x = (?s', _) |- ps ?s' = _ => rewrite (ps_auth_eq _ _ _ _ _ E)
  | E : do_bind _ _ ?x = (?s', _) |- ps ?s' = _ => rewrite (ps_do_bind_eq _ _ _ _ _ E)
  | E : sasl_result _ _ ?x = (?s', _) |- ps ?s' = _ => rewrite (ps_sasl_result_eq _ _ _ _ _ E)
  | E : features_sasl _ _ ?x = (?s', _) |- ps ?s' = _ => rewrite (ps_features_sasl_eq _ _ _ _ _ E)
  | E : conn_tls_start ?x = (?s', _, _) |- ps ?s' = _ => rewrite (ps_conn_tls_start_eq _ _ _ _ E)
  | |- ps (session_start _ _) = _ => rewrite ps_session_start
  | |- ps (sm_enable _) = _ => rewrite ps_sm_enable
  | |- ps (auth_legacy _ _) = _ => rewrite ps_auth_legacy
  end.

Lemma ps_hbody k now e x : PsR x (hbody k now e x).
Proof.
  unfold hbody. destruct k; cbv beta iota delta [call_handler].
  all: ps_walk x.
  all: ps_leaf.
Qed.
Lemma ps_idbody k now e x : PsR x (idbody k now e x).
Proof.
  unfold idbody. destruct k; cbv beta iota delta [call_id_handler is_user_id].
  4: reflexivity.
  all: ps_walk x.
  all: ps_leaf.
Qed.
Lemma ps_visit now e k x o : ps (fst (visit now e (x, o) k)) = ps x.
Proof. rewrite visit_hbody. repeat (case_goal; try reflexivity). cbn [fst]. apply ps_hbody. Qed.
Lemma ps_fold_visit now e l : forall x o, ps (fst (fold_left (visit now e) l (x, o))) = ps x.
Proof.
  induction l as [|k l IH]; intros x o; cbn [fold_left]; [reflexivity|].
  pose proof (ps_visit now e k x o) as Q. destruct (visit now e (x, o) k) as [x1 o1]. cbn [fst] in Q. rewrite IH. exact Q.
Qed.
Lemma dispatch_ps now e s : ps (fst (dispatch now e s)) = ps s.
Proof.
  unfold dispatch. cbv zeta.
  destruct (note_rx_spec e s) as (g' & Eg & _). rewrite Eg.
  destruct (negb (sm_alloc (set_gh g' s))); [reflexivity|].
  set (sb := set_handlers _ (set_gh g' s)).
  assert (Pb : ps sb = ps s) by reflexivity. clearbody sb.
  lazymatch goal with |- ps (fst ?T) = _ => lazymatch T with match ?F with _ => _ end => set (r1 := F) end end.
  assert (P1 : ps (fst r1) = ps s).
  { subst r1. destruct (idk_of (e_id e)) as [k|]; [destruct (id_has k sb)|]; unfold ret; cbn [fst]; try exact Pb.
    destruct (is_user_id k && negb (neg_done sb)); cbn [fst]; [exact Pb|].
    rewrite <- Pb. apply ps_idbody. }
  destruct r1 as [s1 o1]. cbn [fst] in P1.
  pose proof (ps_fold_visit now e (map fst (filter (fun x => snd x) (handlers s1))) s1 o1) as Q.
  lazymatch goal with |- ps (fst ?T) = _ => lazymatch T with match ?F with _ => _ end =>
    change (ps (fst F) = ps s1) in Q; destruct F as [s3 o3] end end. cbn [fst] in Q.
  repeat case_goal; cbn [fst]; try congruence.
  transitivity (ps s3); [|congruence]. apply ps_deep. apply sm_handle_deep.
Qed.

Lemma stream_end_inv s acc : Inv MRun None s acc ->
  RInv MRun None acc (stream_end s) /\ ps (fst (stream_end s)) = ps s.
Proof.
  intros H. unfold stream_end, RInv.
  assert (Ha : sm_alloc s = true) by (destruct (IM _ _ _ _ _ H) as (_ & R2 & _); exact R2).
  rewrite Ha. cbn [negb].
  set (x := timed_del TDisconnectCleanup (set_sm_can_resume false s)).
  split.
  - apply (conn_disconnect_inv_gen MRun x s acc); try reflexivity; [right; reflexivity|exact H].
  - destruct (conn_disconnect_frame x) as (_ & _ & _ & F4 & _). exact F4.
Qed.

Lemma Inv_feed_to_chunk p s acc : ps_live (ps s) = true -> Inv MFeed p s acc -> Inv MChunk p s acc.
Proof.
  intros Hl [A B C (R & D)]. constructor; try assumption. cbn [ModeI]. split; [exact R|]. split.
  - intros X Y. destruct R as (_ & _ & R3). destruct (R3 X Y) as [Q|[_ Q]]; [exact Q|]. change (ps_live (ps s) = false) in Q. congruence.
  - intros X. destruct (D X) as [_ [Q|Q]]; [|exact Q]. change (dead (ps s) = true) in Q. destruct (ps s); discriminate.
Qed.
Lemma Inv_chunk_to_feed p s acc : ps_live (ps s) = true -> Inv MChunk p s acc -> Inv MFeed p s acc.
Proof.
  intros Hl [A B C (R & _ & D)]. constructor; try assumption. cbn [ModeI]. split; [exact R|].
  intros X. split; [|right; exact (D X)]. change (ps s <> PDepth0). intros Q. rewrite Q in Hl. discriminate.
Qed.
Lemma Inv_feed_to_run p s acc : Inv MFeed p s acc -> Inv MRun p s acc.
Proof. intros [A B C (R & _)]. constructor; assumption. Qed.
Lemma Inv_run_to_feed p s acc :
  (st s = Disconnected -> ps s <> PDepth0 /\ (dead (ps s) = true \/ near3 (deep s))) -> Inv MRun p s acc -> Inv MFeed p s acc.
Proof. intros D [A B C R]. constructor; try assumption. cbn [ModeI]. split; assumption. Qed.

  Lemma feed_item_inv now it s acc : Inv MFeed None s acc ->
    Inv MFeed None (fst (fst (feed_item now it s))) (acc ++ snd (fst (feed_item now it s))).
  Proof.
    intros H.
    assert (HR : Inv MRun None s acc) by exact (Inv_feed_to_run _ _ _ H).
    (* the error handler is there as soon as the parser is live *)
    assert (HErr : forall q, ps_live (ps s) = true \/ ps_live q = true -> st s <> Disconnected -> is_raw s = false ->
                   ps_live (ps s) = true -> In HError (hkinds s) \/ (oh_first (oh s) = true /\ ps_live q = false)).
    { intros q _ A B L. destruct (IM _ _ _ _ _ H) as ((_ & _ & R3) & _). destruct (R3 A B) as [Q|[_ Q]]; [left; exact Q|].
      change (ps_live (ps s) = false) in Q. congruence. }
    (* setting a dead parser state *)
    assert (Hdead : forall q, dead q = true -> Inv MFeed None (set_ps q s) acc).
    { intros q Hq. apply Inv_set_ps; [| |exact H].
      - intros A B. destruct (IM _ _ _ _ _ H) as ((_ & _ & R3) & _). destruct (R3 A B) as [Q|[Q1 Q2]]; [left; exact Q|right].
        split; [exact Q1|]. destruct q; try discriminate Hq; reflexivity.
      - intros _ _. split; [destruct q; discriminate|left; exact Hq]. }
    (* moving between live parser states *)
    assert (Hlive : forall q, ps_live (ps s) = true -> ps_live q = true -> Inv MFeed None (set_ps q s) acc).
    { intros q L Lq. apply Inv_set_ps; [| |exact H].
      - intros A B. destruct (IM _ _ _ _ _ H) as ((_ & _ & R3) & _). destruct (R3 A B) as [Q|[_ Q]]; [left; exact Q|].
        change (ps_live (ps s) = false) in Q. congruence.
      - intros _ E. destruct (IM _ _ _ _ _ H) as (_ & D). destruct (D E) as [_ [Q|Q]].
        + change (dead (ps s) = true) in Q. destruct (ps s); discriminate.
        + split; [destruct q; discriminate|right; exact Q]. }
    assert (Hdisp : forall e x, ps_live (ps x) = true -> Inv MFeed None x acc ->
               Inv MFeed None (fst (dispatch now e x)) (acc ++ snd (dispatch now e x))).
    { intros e x L Hx. apply Inv_chunk_to_feed; [rewrite dispatch_ps; exact L|]. apply dispatch_inv. apply Inv_feed_to_chunk; assumption. }
    unfold feed_item.
    destruct (ps s) eqn:P.
    - (* PDepth0 *)
      assert (Hst : st s <> Disconnected).
      { intros E. destruct (IM _ _ _ _ _ H) as (_ & D). destruct (D E) as [Q _]. apply Q. exact P. }
      destruct it as [h|e| |].
      + (* stream header *)
        rewrite set_ps_stream_start.
        destruct (stream_start_true_inv None now h s acc Hst HR) as (Q1 & Q2 & Q3 & Q4). unfold RInv in Q1.
        destruct (stream_start now true h s) as [s1 o1]. cbn [fst snd] in *.
        apply Inv_run_to_feed; [intros E; change (st s1 = Disconnected) in E; congruence|].
        apply Inv_set_ps; [|discriminate|exact Q1].
        intros A B. left. apply Q4. congruence.
      + destruct (ns_eqb (e_ns e) NsStreams); cbn [fst snd]; [rewrite app_nil_r; apply Hdead; reflexivity|].
        assert (Hfin : forall s1 o1, Inv MRun None s1 (acc ++ o1) -> ps s1 = PClosed ->
                  Inv MFeed None (fst (fst (if crashed s1 then (s1, o1, false) else let '(s2, o2) := stream_end s1 in (s2, o1 ++ o2, false))))
                      (acc ++ snd (fst (if crashed s1 then (s1, o1, false) else let '(s2, o2) := stream_end s1 in (s2, o1 ++ o2, false))))).
        { intros s1 o1 H1 P1.
          assert (Hc : crashed s1 = false) by (destruct (K1 _ _ (IL _ _ _ _ _ H1)) as [Q _]; exact Q).
          rewrite Hc. destruct (stream_end_inv s1 (acc ++ o1) H1) as [Q1 Q2]. unfold RInv in Q1.
          destruct (stream_end s1) as [s2 o2]. cbn [fst snd] in *. rewrite app_assoc.
          apply Inv_run_to_feed; [|exact Q1]. intros _. rewrite Q2, P1. split; [discriminate|left; reflexivity]. }
        destruct (ename_eqb (e_name e) NmStream).
        * rewrite set_ps_stream_start.
          destruct (stream_start_true_inv None now false s acc Hst HR) as (Q1 & Q2 & Q3 & Q4). unfold RInv in Q1.
          destruct (stream_start now true false s) as [s1 o1]. cbn [fst snd] in *.
          apply Hfin; [|reflexivity].
          apply Inv_set_ps; [|discriminate|exact Q1].
          intros A B. left. apply Q4. congruence.
        * unfold stream_start. cbv zeta. cbn [orb].
          set (x := set_stream_id false (upg (fun g => set_g_raw_open (g_raw_open g) (set_g_feat_seen false g)) (set_ps PClosed s))).
          pose proof (conn_disconnect_inv_gen MRun x s acc (or_intror eq_refl) eq_refl eq_refl eq_refl eq_refl HR) as Q1.
          destruct (conn_disconnect_frame x) as (_ & _ & _ & F4 & _).
          destruct (conn_disconnect x) as [s1 o1]. cbn [fst snd] in *.
          apply Hfin; [exact Q1|exact F4].
      + cbn [fst snd]. rewrite app_nil_r. apply Hdead; reflexivity.
      + cbn [fst snd]. rewrite app_nil_r. apply Hdead; reflexivity.
    - (* POpen *)
      destruct it as [h|e| |].
      + cbn [fst snd]. rewrite app_nil_r. apply Hlive; [try rewrite P|]; reflexivity.
      + pose proof (Hdisp e s) as Q. destruct (dispatch now e s) as [s1 o1]. cbn [fst snd] in *. apply Q; [try rewrite P; reflexivity|exact H].
      + assert (Hx : Inv MRun None (set_ps PClosed s) acc).
        { apply Inv_set_ps; [|discriminate|exact HR].
          intros A B. destruct (IM _ _ _ _ _ H) as ((_ & _ & R3) & _). destruct (R3 A B) as [Q|[Q1 Q2]]; [left; exact Q|right; split; [exact Q1|reflexivity]]. }
        destruct (stream_end_inv _ acc Hx) as [Q1 Q2]. unfold RInv in Q1.
        destruct (stream_end (set_ps PClosed s)) as [s2 o2]. cbn [fst snd] in *.
        apply Inv_run_to_feed; [|exact Q1]. intros _. rewrite Q2. split; [discriminate|left; reflexivity].
      + cbn [fst snd]. rewrite app_nil_r. apply Hdead; reflexivity.
    - (* PSwallow *)
      destruct it as [h|e| |].
      + cbn [fst snd]. rewrite app_nil_r. apply Hlive; [try rewrite P|]; reflexivity.
      + cbn [fst snd]. rewrite app_nil_r. apply Hlive; [try rewrite P|]; reflexivity.
      + destruct n as [|[|n']].
        * cbn [fst snd]. rewrite app_nil_r. apply Hlive; [try rewrite P|]; reflexivity.
        * pose proof (Hdisp (nested_stream_elem cns) (set_ps POpen s)) as Q.
          destruct (dispatch now (nested_stream_elem cns) (set_ps POpen s)) as [s1 o1]. cbn [fst snd] in *.
          apply Q; [reflexivity|]. apply Hlive; [try rewrite P|]; reflexivity.
        * cbn [fst snd]. rewrite app_nil_r. apply Hlive; [try rewrite P|]; reflexivity.
      + cbn [fst snd]. rewrite app_nil_r. apply Hdead; reflexivity.
    - (* PClosed *)
      cbn [fst snd]. rewrite app_nil_r. apply Hdead; reflexivity.
    - cbn [fst snd]. rewrite app_nil_r. exact H.
  Qed.

Lemma feed_items_inv now its : forall s acc, Inv MFeed None s acc ->
  Inv MFeed None (fst (fst (feed_items now its s))) (acc ++ snd (fst (feed_items now its s))).
Proof.
  induction its as [|it r IH]; intros s acc H; cbn [feed_items].
  - cbn [fst snd]. rewrite app_nil_r. exact H.
  - destruct (crashed s); [cbn [fst snd]; rewrite app_nil_r; exact H|].
    pose proof (feed_item_inv now it s acc H) as Q.
    destruct (feed_item now it s) as [[s1 o1] bad]. cbn [fst snd] in Q.
    destruct bad; [exact Q|].
    specialize (IH s1 (acc ++ o1) Q).
    destruct (feed_items now r s1) as [[s2 o2] bad2]. cbn [fst snd] in *. rewrite app_assoc. exact IH.
Qed.

(* ------------------------------------------------------------------ timed handlers *)
Lemma Inv_run_to_top p s acc : Inv MRun p s acc -> Inv MTop p s acc.
Proof. intros [A B C D]. constructor; try assumption. exact I. Qed.
Lemma Inv_top_to_run p s acc : st s = Connected -> reset_parser s = false -> Inv MTop p s acc -> Inv MRun p s acc.
Proof.
  intros Hst Hrp [A B C D]. constructor; try assumption. cbn [ModeI]. unfold RunI.
  assert (Hn : c_st (core s) <> Disconnected) by (change (st s <> Disconnected); congruence).
  split; [change (st s <> Connecting); congruence|]. split; [apply (K2 _ _ A); exact Hn|].
  intros X Y. destruct (S3 _ _ _ B X Y) as [Q|[Q1 [Q2|Q2]]]; [left; exact Q| |right; auto].
  change (reset_parser s = true) in Q2. congruence.
Qed.

Lemma auth_run fuel now s acc : Inv MRun None s acc -> RInv MRun None acc (auth fuel now s).
Proof.
  intros H. unfold RInv. pose proof (Inv_tlss _ _ _ _ H) as Hts.
  destruct (f_tls_mandatory s && negb (is_secured s)) eqn:D.
  - assert (E : auth fuel now s = conn_disconnect s).
    { rewrite (auth_no_tls fuel now s Hts). cbn [auth]. rewrite Hts, D. reflexivity. }
    rewrite E. apply conn_disconnect_inv; [right; reflexivity|exact H].
  - apply auth_armed; [|exact Hts|exact H].
    split; [intros [Q|Q]; discriminate Q|]. intros _ Hm. rewrite Hm in D. cbn [andb] in D. now apply negb_false_iff in D.
Qed.

Lemma call_timed_inv k now s acc : Inv MRun None s acc ->
  Inv MRun None (let '(s2, o2, keep) := call_timed k now s in if keep then s2 else timed_del k s2)
                (acc ++ let '(s2, o2, keep) := call_timed k now s in o2).
Proof.
  intros H. destruct k; cbn [call_timed].
  - apply Inv_neutral; [reflexivity|exact H].
  - pose proof (auth_run 1 now s acc H) as Q. unfold RInv in Q. destruct (auth 1 now s) as [s1 o1]. cbn [fst snd] in Q.
    apply (Inv_frame _ _ s1); [reflexivity|reflexivity|exact Q].
  - rewrite app_nil_r. apply (Inv_frame _ _ s); [rewrite timed_del_core; apply xmpp_disconnect_core|rewrite timed_del_deep; apply xmpp_disconnect_deep|exact H].
  - rewrite app_nil_r. apply (Inv_frame _ _ s); [rewrite timed_del_core; apply xmpp_disconnect_core|rewrite timed_del_deep; apply xmpp_disconnect_deep|exact H].
  - rewrite app_nil_r. apply (Inv_frame _ _ s); [rewrite timed_del_core; apply xmpp_disconnect_core|rewrite timed_del_deep; apply xmpp_disconnect_deep|exact H].
  - rewrite app_nil_r. apply (Inv_frame _ _ s); [rewrite timed_del_core; apply xmpp_disconnect_core|rewrite timed_del_deep; apply xmpp_disconnect_deep|exact H].
  - rewrite app_nil_r. apply (Inv_frame _ _ s); [rewrite timed_del_core; apply xmpp_disconnect_core|rewrite timed_del_deep; apply xmpp_disconnect_deep|exact H].
  - pose proof (conn_disconnect_inv MRun s acc (or_intror eq_refl) H) as Q. destruct (conn_disconnect s) as [s1 o1]. cbn [fst snd] in Q.
    apply (Inv_frame _ _ s1); [reflexivity|reflexivity|exact Q].
Qed.

Lemma visit_timed_inv now k s o acc : Inv MRun None s (acc ++ o) ->
  Inv MRun None (fst (visit_timed now (s, o) k)) (acc ++ snd (visit_timed now (s, o) k)).
Proof.
  intros H. unfold visit_timed.
  destruct (crashed s); [exact H|]. destruct (timed_lookup k s) as [[en stp]|]; [|exact H].
  destruct (negb en); [exact H|]. destruct (tkind_eqb k TUser && negb (neg_done s)); [exact H|].
  destruct (now - stp >=? tperiod s k); [|exact H]. cbv zeta.
  assert (H1 : Inv MRun None (timed_set_stamp k now s) (acc ++ o)) by (apply (Inv_frame _ _ s); [reflexivity|reflexivity|exact H]).
  pose proof (call_timed_inv k now _ _ H1) as Q.
  destruct (call_timed k now (timed_set_stamp k now s)) as [[s2 o2] keep]. cbn [fst snd]. rewrite app_assoc. exact Q.
Qed.

Lemma fold_visit_timed_inv now l acc : forall s o, Inv MRun None s (acc ++ o) ->
  Inv MRun None (fst (fold_left (visit_timed now) l (s, o))) (acc ++ snd (fold_left (visit_timed now) l (s, o))).
Proof.
  induction l as [|k l IH]; intros s o H; cbn [fold_left]; [exact H|].
  pose proof (visit_timed_inv now k s o acc H) as Q. destruct (visit_timed now (s, o) k) as [s1 o1]. cbn [fst snd] in Q.
  apply IH. exact Q.
Qed.

Lemma fire_timed_inv now s acc : Inv MRun None s acc -> RInv MRun None acc (fire_timed now s).
Proof.
  intros H. unfold RInv, fire_timed. destruct (st s); try (cbn [ret fst snd]; rewrite app_nil_r; exact H).
  cbv zeta. apply fold_visit_timed_inv. rewrite app_nil_r.
  apply (Inv_frame _ _ s); [reflexivity|reflexivity|exact H].
Qed.
Lemma fire_timed_idle now s : st s <> Connected -> fire_timed now s = (s, []).
Proof. intros H. unfold fire_timed. destruct (st s); try reflexivity. congruence. Qed.

(* ------------------------------------------------------------------ the event loop *)
Lemma InvV_established p c c' d d' acc acc' :
  c_st c = Connecting -> c_st c' = Connected -> c_raw c' = c_raw c -> c_alloc c' = c_alloc c ->
  c_se c' = c_se c -> c_serr c' = c_serr c -> c_sebad c' = c_sebad c ->
  LifeI c' acc' ->
  (* the deep view may change by a TLS start only *)
  d_handlers d' = d_handlers d -> d_ids d' = d_ids d -> d_oh d' = d_oh d -> d_ps d' = d_ps d -> d_rp d' = d_rp d ->
  d_tlss d' = d_tlss d -> d_mand d' = d_mand d -> d_dis d' = d_dis d ->
  (is_sec d' = false -> is_sec d = false) ->
  InvV MTop p c d acc -> InvV MTop p c' d' acc'.
Proof.
  intros E0 E1 E2 E3 E4 E5 E6 HL' G1 G2 G3 G4 G5 G6 G7 G8 Hs [HL [s1 s2 s3] [df dts dp dm dh0] HM].
  assert (N : c_st c <> Disconnected) by congruence.
  constructor; [exact HL'| | |exact I].
  - constructor; rewrite ?E2, ?E4, ?E5, ?E6, ?G1, ?G3, ?G4, ?G5; try assumption; intros _; [apply s2|apply s3]; exact N.
  - constructor; unfold near4 in *; rewrite ?G1, ?G2, ?G3, ?G6, ?G7, ?G8; try assumption.
    + intros _ Q. exfalso. exact (dh0 E0 Q).
    + intros _ B C. apply dm; auto.
    + intros Q. congruence.
Qed.

Lemma conn_established_inv now s acc : st s = Connecting -> Inv MTop None s acc ->
  RInv MTop None acc (conn_established now (set_st Connected s)) /\
  (reset_parser s = false -> reset_parser (fst (conn_established now (set_st Connected s))) = false) /\
  st (fst (conn_established now (set_st Connected s))) <> Connecting.
Proof.
  intros Hst H. unfold RInv, conn_established. cbv zeta.
  set (x := set_st Connected s).
  assert (Hx : Inv MTop None x acc).
  { unfold Inv. apply (InvV_established None (core s) (core x) (deep s) (deep x) acc acc); try reflexivity; try assumption; [|auto].
    exact (LifeI_established (core s) acc Hst (IL _ _ _ _ _ H)). }
  assert (Stx : st x = Connected) by reflexivity.
  assert (Rpx : reset_parser x = reset_parser s) by reflexivity.
  assert (Cx : forall y, core y = core x -> st y <> Connecting)
    by (intros y C; pose proof (core_fields _ _ C) as (F1 & _); rewrite F1; discriminate).
  destruct (f_legacy_ssl x && negb (is_raw x)) eqn:L.
  - (* legacy SSL *)
    apply andb_true_iff in L. destruct L as [_ Lr]. apply negb_true_iff in Lr.
    pose proof (conn_tls_start_spec x) as Q. destruct (conn_tls_start x) as [[s1 o1] ok].
    destruct Q as (C & Hn & [(Hok & Ho & D)|[(Hok & Hd & D)|(Hok & D)]]); subst ok; cbn [negb].
    + subst o1. pose proof (conn_disconnect_inv_gen MTop s1 x acc (or_introl eq_refl) C) as Q. rewrite D in Q.
      specialize (Q eq_refl eq_refl eq_refl Hx).
      destruct (conn_disconnect_frame s1) as (_ & _ & _ & _ & F5).
      assert (Rp1 : reset_parser (fst (conn_disconnect s1)) = reset_parser s1).
      { destruct (st s1) eqn:E; [rewrite conn_disconnect_idle by assumption; reflexivity| |];
          (destruct (sm_alloc s1) eqn:A;
           [ assert (Hs1 : st s1 <> Disconnected) by congruence;
             destruct (conn_disconnect_spec s1 Hs1 A) as (s' & l & sb & E1 & _ & _ & _ & D'); rewrite E1; cbn [fst];
             change (d_rp (deep s') = d_rp (deep s1)); rewrite D'; reflexivity
           | unfold conn_disconnect; rewrite E, A; reflexivity ]). }
      destruct (conn_disconnect s1) as [s2 o2]. cbn [fst snd] in *.
      split; [exact Q|]. split.
      * intros R. rewrite Rp1. change (d_rp (deep s1) = false). rewrite D. rewrite <- Rpx in R. exact R.
      * pose proof (core_fields _ _ C) as (F1 & _ & _ & F4 & _).
        assert (Ha : sm_alloc s1 = true) by (rewrite F4; apply (K2 _ _ (IL _ _ _ _ _ Hx)); change (st x <> Disconnected); congruence).
        rewrite F5; [discriminate|congruence|exact Ha].
    + (* TLS up *)
      assert (R1 : is_raw s1 = false) by (pose proof (core_fields _ _ C) as (_ & _ & F3 & _); congruence).
      rewrite R1. cbn [fst snd].
      split; [|split].
      * apply Inv_neutral; [exact Hn|]. apply (Inv_frame _ _ s1); [apply conn_open_stream_core|apply conn_open_stream_deep|].
        unfold Inv. rewrite C, D.
        assert (Hx' : Inv MTop None s acc) by exact H.
        apply (InvV_established None (core s) (core x) (deep s) _ acc acc); try reflexivity; try assumption.
        -- exact (LifeI_established (core s) acc Hst (IL _ _ _ _ _ H)).
        -- unfold is_sec. cbn [d_secured d_tlsf d_tlsp]. change (d_tlsf (deep x)) with (d_tlsf (deep s)).
           intros Q. rewrite andb_true_r in Q. cbn [andb] in Q. apply negb_false_iff in Q. rewrite Q. cbn [negb]. rewrite andb_false_r. reflexivity.
      * intros R. change (d_rp (deep (conn_open_stream s1)) = false). rewrite conn_open_stream_deep, D. rewrite <- Rpx in R. exact R.
      * apply Cx. rewrite conn_open_stream_core. exact C.
    + (* TLS failed *)
      pose proof (conn_disconnect_inv_gen MTop s1 x (acc ++ o1) (or_introl eq_refl) C) as Q. rewrite D in Q.
      specialize (Q eq_refl eq_refl eq_refl (Inv_neutral _ _ _ _ o1 Hn Hx)).
      destruct (conn_disconnect_frame s1) as (_ & _ & _ & _ & F5).
      assert (Rp1 : reset_parser (fst (conn_disconnect s1)) = reset_parser s1).
      { destruct (st s1) eqn:E; [rewrite conn_disconnect_idle by assumption; reflexivity| |];
          (destruct (sm_alloc s1) eqn:A;
           [ assert (Hs1 : st s1 <> Disconnected) by congruence;
             destruct (conn_disconnect_spec s1 Hs1 A) as (s' & l & sb & E1 & _ & _ & _ & D'); rewrite E1; cbn [fst];
             change (d_rp (deep s') = d_rp (deep s1)); rewrite D'; reflexivity
           | unfold conn_disconnect; rewrite E, A; reflexivity ]). }
      destruct (conn_disconnect s1) as [s2 o2]. cbn [fst snd] in *.
      split; [|split].
      * rewrite app_assoc. exact Q.
      * intros R. rewrite Rp1. change (d_rp (deep s1) = false). rewrite D. rewrite <- Rpx in R. exact R.
      * pose proof (core_fields _ _ C) as (F1 & _ & _ & F4 & _).
        assert (Ha : sm_alloc s1 = true) by (rewrite F4; apply (K2 _ _ (IL _ _ _ _ _ Hx)); change (st x <> Disconnected); congruence).
        rewrite F5; [discriminate|congruence|exact Ha].
  - cbn [negb]. destruct (is_raw x) eqn:Rw; cbn [fst snd].
    + split; [|split].
      * cbn [app]. unfold Inv.
        apply (InvV_established None (core s) _ (deep s) _ acc (acc ++ [ORawConnect])); try reflexivity; try assumption; [|auto].
        exact (LifeI_rawconnect (core s) acc Hst (IL _ _ _ _ _ H)).
      * intros R. exact R.
      * discriminate.
    + rewrite app_nil_r. split; [|split].
      * apply (Inv_frame _ _ x); [apply conn_open_stream_core|apply conn_open_stream_deep|exact Hx].
      * intros R. change (d_rp (deep (conn_open_stream x)) = false). rewrite conn_open_stream_deep. exact R.
      * apply Cx. apply conn_open_stream_core.
Qed.

Lemma sock_connect_neutral c : forallb neutral (fst (sock_connect c)) = true.
Proof. induction c as [|k r IH]; cbn [sock_connect]; [reflexivity|]. destruct k; try reflexivity. destruct (sock_connect r) as [o x]. cbn [fst] in *. exact IH. Qed.
Lemma connect_next_spec now s :
  let '(s', o, ok) := connect_next now s in core s' = core s /\ deep s' = deep s /\ forallb neutral o = true.
Proof.
  unfold connect_next. pose proof (sock_connect_neutral (cands s)) as Q. destruct (sock_connect (cands s)) as [o [[k r]|]]; cbn [fst] in Q;
    (split; [reflexivity|split; [reflexivity|exact Q]]).
Qed.

(* giving up a connection attempt: the model sets the state itself *)
Lemma giveup_inv s acc l e se : st s <> Disconnected -> forallb neutral l = true -> Inv MTop None s acc ->
  Inv MTop None (reset_sm_for_reconnect (set_neg_done false (set_st Disconnected (set_err e s)))) (acc ++ l ++ [ODisconnect e se]).
Proof.
  intros Hst Hn H. unfold Inv. rewrite reset_sm_core, reset_sm_deep.
  destruct H as [HL [s1 s2 s3] [df dts dp dm dh0] HM].
  apply (InvV_disconnect MTop None (core s) (deep s) acc l e se (c_sebad (core s))); try assumption; try reflexivity; auto.
Qed.

Lemma send_phase_inv s acc : Inv MTop None s acc -> RInv MTop None acc (send_phase s) /\
  (st (fst (send_phase s)) = st s \/ st (fst (send_phase s)) = Disconnected) /\
  reset_parser (fst (send_phase s)) = reset_parser s /\ ps (fst (send_phase s)) = ps s.
Proof.
  intros H. unfold RInv, send_phase.
  destruct (st s) eqn:Hst.
  1: { cbn [ret fst snd]. rewrite app_nil_r. auto. }
  1: { cbn [ret fst snd]. rewrite app_nil_r. auto. }
  cbv zeta.
  set (o := map (fun x => OWire (tls_present s) (fst (fst x))) (sendq s)).
  assert (Ho : forallb neutral o = true) by (unfold o; induction (sendq s); [reflexivity|cbn [map forallb]; rewrite IHl; reflexivity]).
  set (s1 := set_sm_sent _ _).
  assert (C1 : core s1 = core s) by reflexivity. assert (D1 : deep s1 = deep s) by reflexivity.
  assert (H1 : Inv MTop None s1 (acc ++ o)) by (apply Inv_neutral; [exact Ho|]; apply (Inv_frame _ _ s); assumption).
  assert (S1' : st s1 = Connected) by (pose proof (core_fields _ _ C1) as (F1 & _); congruence).
  assert (Rp1 : reset_parser s1 = reset_parser s) by (apply (deep_fields _ _ D1)).
  assert (Ps1 : ps s1 = ps s) by (apply (deep_fields _ _ D1)).
  clearbody s1 o.
  destruct (negb (err s1 =? 0)).
  - set (x := set_err ECONNABORTED s1).
    pose proof (conn_disconnect_inv_gen MTop x s1 (acc ++ o) (or_introl eq_refl) eq_refl eq_refl eq_refl eq_refl H1) as Q.
    destruct (conn_disconnect_frame x) as (_ & _ & _ & F4 & F5).
    assert (Ha : sm_alloc x = true) by (apply (K2 _ _ (IL _ _ _ _ _ H1)); change (st s1 <> Disconnected); congruence).
    assert (Rp : reset_parser (fst (conn_disconnect x)) = reset_parser x).
    { assert (Hs1 : st x <> Disconnected) by (change (st s1 <> Disconnected); congruence).
      destruct (conn_disconnect_spec x Hs1 Ha) as (s' & l & sb & E1 & _ & _ & _ & D'). rewrite E1. cbn [fst].
      change (d_rp (deep s') = d_rp (deep x)). rewrite D'. reflexivity. }
    destruct (conn_disconnect x) as [s2 o2]. cbn [fst snd] in *. rewrite app_assoc.
    split; [exact Q|]. split; [right; apply F5; [change (st s1 <> Disconnected); congruence|exact Ha]|].
    split; [rewrite Rp; exact Rp1|change (d_ps (deep s2) = ps s); rewrite F4; exact Ps1].
  - cbn [fst snd]. split; [exact H1|]. split; [left; exact S1'|]. split; assumption.
Qed.

Lemma Inv_reset_parser p s acc : Inv MTop p s acc -> Inv MTop p (set_ps PDepth0 (set_reset_parser false s)) acc.
Proof.
  intros [HL [s1 s2 s3] [df dts dp dm dh0] HM].
  constructor; [exact HL | constructor | constructor | exact I]; try assumption.
  intros A B. destruct (s3 A B) as [Q|[Q1 _]]; [left; exact Q|right; split; [exact Q1|right; reflexivity]].
Qed.

(* what holds between the phases of xmpp_run_once *)
Definition PH (s : state) (a : emit) : Prop :=
  Inv MTop None s a /\ (st s = Connected -> Inv MRun None s a) /\ (st s = Connecting -> reset_parser s = false).

Lemma PH_neutral s a l : forallb neutral l = true -> PH s a -> PH s (a ++ l).
Proof. intros Hn (A & B & C). split; [now apply Inv_neutral|]. split; [intros E; apply Inv_neutral; auto|exact C]. Qed.
Lemma PH_frame s s' a : core s' = core s -> deep s' = deep s -> PH s a -> PH s' a.
Proof.
  intros C D (A & B & R). pose proof (core_fields _ _ C) as (F1 & _). pose proof (deep_fields _ _ D) as (_ & _ & _ & _ & _ & _ & _ & _ & _ & _ & G11).
  split; [apply (Inv_frame _ _ s); assumption|]. split.
  - intros E. apply (Inv_frame _ _ s); try assumption. apply B. congruence.
  - intros E. rewrite G11. apply R. congruence.
Qed.
Lemma PH_of_run s a : Inv MRun None s a -> PH s a.
Proof.
  intros H. split; [exact (Inv_run_to_top _ _ _ H)|]. split; [intros _; exact H|].
  intros E. exfalso. destruct (IM _ _ _ _ _ H) as (R1 & _). exact (R1 E).
Qed.
Lemma PH_disc s a : st s = Disconnected -> Inv MTop None s a -> PH s a.
Proof. intros E H. split; [exact H|]. split; intros Q; congruence. Qed.

Lemma ph_fire now s a : PH s a -> PH (fst (fire_timed now s)) (a ++ snd (fire_timed now s)).
Proof.
  intros (A & B & C). destruct (st s) eqn:E.
  - rewrite fire_timed_idle by congruence. cbn [fst snd]. rewrite app_nil_r. split; [exact A|]. split; [intros Q; congruence|intros Q; congruence].
  - rewrite fire_timed_idle by congruence. cbn [fst snd]. rewrite app_nil_r. split; [exact A|]. split; [intros Q; congruence|intros _; apply C; reflexivity].
  - apply PH_of_run. apply fire_timed_inv. apply B. reflexivity.
Qed.

Lemma ph_giveup s a l e se : st s = Connecting -> forallb neutral l = true -> PH s a ->
  PH (reset_sm_for_reconnect (set_neg_done false (set_st Disconnected (set_err e s)))) (a ++ l ++ [ODisconnect e se]).
Proof.
  intros E Hn (A & _). apply PH_disc.
  - pose proof (core_fields _ _ (reset_sm_core (set_neg_done false (set_st Disconnected (set_err e s))))) as (F1 & _). rewrite F1. reflexivity.
  - apply giveup_inv; [congruence|exact Hn|exact A].
Qed.

(* next candidate or give up; used by the connect time-out and by a late connect failure *)
Lemma ph_next now s a e : st s = Connecting -> PH s a ->
  let r : R := let '(s', o', ok) := connect_next now s in
               if ok then (s', o')
               else let s'' := set_neg_done false (set_st Disconnected (set_err e s')) in
                    (reset_sm_for_reconnect s'', o' ++ [ODisconnect e (stream_error s'')]) in
  PH (fst r) (a ++ snd r).
Proof.
  intros E H. cbv zeta. pose proof (connect_next_spec now s) as Q. destruct (connect_next now s) as [[s' o'] ok].
  destruct Q as (C & D & Hn). destruct ok; cbn [fst snd].
  - apply PH_neutral; [exact Hn|]. apply (PH_frame s); assumption.
  - apply ph_giveup; [pose proof (core_fields _ _ C) as (F1 & _); congruence|exact Hn|apply (PH_frame s); assumption].
Qed.

Lemma ph_established now s a : st s = Connecting -> PH s a ->
  PH (fst (conn_established now (set_st Connected s))) (a ++ snd (conn_established now (set_st Connected s))).
Proof.
  intros E (A & _ & C). destruct (conn_established_inv now s a E A) as (Q1 & Q2 & Q3). unfold RInv in Q1.
  specialize (Q2 (C E)).
  split; [exact Q1|]. split; [intros Q; apply Inv_top_to_run; assumption|intros Q; congruence].
Qed.

Lemma ph_read now rd s a : st s = Connected -> PH s a ->
  let r : R := match rd with
               | RdNone => ret s
               | RdChunk its => let '(s', o', bad) := feed_items now its s in
                                if bad then (send_gated WStreamErr false false s', o') else (s', o')
               | RdClose => if tls_present s then conn_disconnect (set_err ECONNRESET s) else conn_disconnect (set_err ECONNRESET s)
               | RdReset => conn_disconnect (set_err ECONNRESET s)
               end in
  PH (fst r) (a ++ snd r).
Proof.
  intros E (A & B & C). specialize (B E). cbv zeta.
  assert (Hd : PH (fst (conn_disconnect (set_err ECONNRESET s))) (a ++ snd (conn_disconnect (set_err ECONNRESET s)))).
  { apply PH_of_run. apply (conn_disconnect_inv_gen MRun (set_err ECONNRESET s) s a); try reflexivity; [right; reflexivity|exact B]. }
  destruct rd as [|its| |].
  - cbn [ret fst snd]. rewrite app_nil_r. apply PH_of_run. exact B.
  - assert (Hf : Inv MFeed None s a) by (apply Inv_run_to_feed; [intros Q; congruence|exact B]).
    pose proof (feed_items_inv now its s a Hf) as Q. destruct (feed_items now its s) as [[s' o'] bad]. cbn [fst snd] in Q.
    apply Inv_feed_to_run in Q.
    destruct bad; cbn [fst snd]; apply PH_of_run; [|exact Q].
    apply (Inv_frame _ _ s'); [apply send_gated_core|apply send_gated_deep|exact Q].
  - destruct (tls_present s); exact Hd.
  - exact Hd.
Qed.

Lemma run_once_inv now rd s acc : Inv MTop None s acc -> RInv MTop None acc (run_once now rd s).
Proof.
  intros H. unfold RInv, run_once.
  assert (Hc : crashed s = false) by (destruct (K1 _ _ (IL _ _ _ _ _ H)) as [Q _]; exact Q).
  rewrite Hc.
  set (sa := match rd with RdNone => s | _ => match st s with Disconnected => s | _ => set_rxq (rxq s ++ [rd]) s end end).
  assert (Ha : Inv MTop None sa acc).
  { subst sa. destruct rd; try exact H; destruct (st s); try exact H; (apply (Inv_frame _ _ s); [reflexivity|reflexivity|exact H]). }
  clearbody sa.
  (* send phase *)
  destruct (send_phase_inv sa acc Ha) as (H1 & _ & _ & _). unfold RInv in H1.
  destruct (send_phase sa) as [s1 o1]. cbn [fst snd] in H1.
  assert (Hc1 : crashed s1 = false) by (destruct (K1 _ _ (IL _ _ _ _ _ H1)) as [Q _]; exact Q).
  rewrite Hc1.
  (* parser reset *)
  set (s2 := if reset_parser s1 then set_ps PDepth0 (set_reset_parser false s1) else s1).
  assert (H2 : PH s2 (acc ++ o1)).
  { assert (A2 : Inv MTop None s2 (acc ++ o1)) by (subst s2; destruct (reset_parser s1); [apply Inv_reset_parser|]; exact H1).
    assert (R2 : reset_parser s2 = false) by (subst s2; destruct (reset_parser s1) eqn:R; [reflexivity|exact R]).
    split; [exact A2|]. split; [intros E; apply Inv_top_to_run; assumption|intros _; exact R2]. }
  clearbody s2.
  (* timed handlers *)
  pose proof (ph_fire now s2 _ H2) as H3. destruct (fire_timed now s2) as [s3 o3]. cbn [fst snd] in H3.
  assert (Hc3 : crashed s3 = false) by (destruct H3 as (A & _); destruct (K1 _ _ (IL _ _ _ _ _ A)) as [Q _]; exact Q).
  rewrite Hc3.
  (* watch phase *)
  lazymatch goal with |- Inv _ _ (fst ?T) _ => lazymatch T with match ?F with _ => _ end => set (r4 := F) end end.
  assert (H4 : PH (fst r4) ((acc ++ o1 ++ o3) ++ snd r4)).
  { rewrite <- app_assoc in H3. subst r4. destruct (st s3) eqn:E3; try (cbn [ret fst snd]; rewrite app_nil_r; exact H3).
    destruct (now - stamp s3 <=? CONNECT_TIMEOUT); [cbn [ret fst snd]; rewrite app_nil_r; exact H3|].
    exact (ph_next now s3 _ ETIMEDOUT E3 H3). }
  destruct r4 as [s4 o4]. cbn [fst snd] in H4.
  (* anything ready? *)
  match goal with |- context [if negb ?b then _ else _] => destruct (negb b) end.
  { cbn [fst snd]. replace (acc ++ o1 ++ o3 ++ o4 ++ [OIter]) with (((acc ++ o1 ++ o3) ++ o4) ++ [OIter]) by (rewrite <- !app_assoc; reflexivity).
    apply Inv_neutral; [reflexivity|apply H4]. }
  (* connect completion / read *)
  lazymatch goal with |- Inv _ _ (fst ?T) _ => lazymatch T with match ?F with _ => _ end => set (r5 := F) end end.
  assert (H5 : PH (fst r5) (((acc ++ o1 ++ o3) ++ o4) ++ snd r5)).
  { subst r5. destruct (st s4) eqn:E4.
    - cbn [ret fst snd]. rewrite app_nil_r. exact H4.
    - destruct (cur_ep s4); try (cbn [ret fst snd]; rewrite app_nil_r; exact H4).
      + exact (ph_established now s4 _ E4 H4).
      + exact (ph_next now s4 _ (-1) E4 H4).
    - cbv zeta.
      assert (Hx : PH (set_rxq (tl (rxq s4)) s4) ((acc ++ o1 ++ o3) ++ o4)) by (apply (PH_frame s4); [reflexivity|reflexivity|exact H4]).
      exact (ph_read now (match rxq s4 with [] => RdNone | x :: _ => x end) (set_rxq (tl (rxq s4)) s4) _ E4 Hx). }
  destruct r5 as [s5 o5]. cbn [fst snd] in H5.
  assert (Hc5 : crashed s5 = false) by (destruct H5 as (A & _); destruct (K1 _ _ (IL _ _ _ _ _ A)) as [Q _]; exact Q).
  rewrite Hc5.
  pose proof (ph_fire now s5 _ H5) as H6. destruct (fire_timed now s5) as [s6 o6]. cbn [fst snd] in *.
  replace (acc ++ o1 ++ o3 ++ o4 ++ o5 ++ o6 ++ [OIter]) with (((((acc ++ o1 ++ o3) ++ o4) ++ o5) ++ o6) ++ [OIter]) by (rewrite <- !app_assoc; reflexivity).
  apply Inv_neutral; [reflexivity|apply H6].
Qed.

(* ------------------------------------------------------------------ operations on a disconnected object *)
Lemma InvV_disc_change p p' c c' d d' acc :
  c_st c = Disconnected -> c_st c' = Disconnected -> c_nd c' = c_nd c ->
  (c_raw c' = c_raw c \/ c_raw c' = true) -> c_crashed c' = c_crashed c ->
  c_att c' = c_att c -> c_nc c' = c_nc c -> c_ndisc c' = c_ndisc c -> c_rawc c' = c_rawc c -> c_sebad c' = c_sebad c ->
  (d_dis d' = true -> d_mand d' = false) -> d_tlss d' = false ->
  InvV MTop p c d acc -> InvV MTop p' c' d' acc.
Proof.
  intros E0 E1 E2 E3 E4 E5 E6 E7 E8 E9 Df' Dts' [[L1 L2 L3 L4 L5 L6 L7 L8 K1 K2] [s1 s2 s3] HD HM].
  assert (N : forall P : Prop, c_st c' <> Disconnected -> P) by (intros P Q; exfalso; exact (Q E1)).
  constructor; [ | | | exact I].
  - constructor; unfold vC, vD, vR, vB in *; rewrite ?E2, ?E4, ?E5, ?E6, ?E7, ?E8; try (intros Q; apply N; exact Q).
    + intros _. apply L2. exact E0.
    + intros _. apply L3. exact E0.
    + intros Q. rewrite (L3 E0) in Q. discriminate Q.
    + destruct E3 as [-> | ->]; [exact L6|left; reflexivity].
    + exact L7.
    + exact L8.
    + exact K1.
  - constructor; rewrite ?E9; try assumption; intros Q; apply N; exact Q.
  - constructor; try assumption; try (intros Q; apply N; exact Q). intros Q. congruence.
Qed.

Lemma set_flags_Df w s : (f_tls_disabled s = true -> f_tls_mandatory s = false) ->
  f_tls_disabled (fst (set_flags w s)) = true -> f_tls_mandatory (fst (set_flags w s)) = false.
Proof.
  intros H. unfold set_flags. destruct (st s); try exact H.
  destruct (testbit w flag_conflict_a && existsb (testbit w) flag_conflict_b) eqn:C; cbn [fst]; [exact H|].
  sproj. intros D. change flag_conflict_a with FLAG_DISABLE_TLS in C. rewrite D in C. cbn [andb] in C.
  unfold flag_conflict_b in C. cbn [existsb] in C. apply orb_false_iff in C. apply C.
Qed.
Lemma set_flags_frame w s : core (fst (set_flags w s)) = core s /\
  d_handlers (deep (fst (set_flags w s))) = d_handlers (deep s) /\ d_tlss (deep (fst (set_flags w s))) = d_tlss (deep s) /\
  (st s <> Disconnected -> fst (set_flags w s) = s).
Proof.
  unfold set_flags. destruct (st s) eqn:E; cbn [fst]; try (repeat split; try reflexivity; intros _; reflexivity).
  destruct (testbit w flag_conflict_a && existsb (testbit w) flag_conflict_b); cbn [fst]; repeat split; try reflexivity; intros Q; congruence.
Qed.

Lemma Inv_disc_frame p p' s s' acc :
  st s = Disconnected -> st s' = Disconnected -> neg_done s' = neg_done s ->
  (is_raw s' = is_raw s \/ is_raw s' = true) -> crashed s' = crashed s ->
  g_attempt (gh s') = g_attempt (gh s) -> g_connects (gh s') = g_connects (gh s) -> g_disconnects (gh s') = g_disconnects (gh s) ->
  g_rawc (gh s') = g_rawc (gh s) -> g_se_bad (gh s') = g_se_bad (gh s) ->
  (f_tls_disabled s' = true -> f_tls_mandatory s' = false) -> tls_support s' = false ->
  Inv MTop p s acc -> Inv MTop p' s' acc.
Proof. intros. apply (InvV_disc_change p p' (core s) (core s') (deep s) (deep s') acc); assumption. Qed.

Lemma Inv_Df m p s acc : Inv m p s acc -> f_tls_disabled s = true -> f_tls_mandatory s = false.
Proof. intros H. exact (Df _ _ (ID _ _ _ _ _ H)). Qed.

Lemma set_flags_inv w s acc : Inv MTop None s acc -> Inv MTop None (fst (set_flags w s)) acc.
Proof.
  intros H. destruct (st s) eqn:E.
  - destruct (set_flags_frame w s) as (C & _ & T & _). pose proof (core_fields _ _ C) as (F1 & F2 & F3 & _ & F5 & _ & F7 & F8 & F9 & F10 & _ & F12).
    apply (Inv_disc_frame None None s); try assumption; try congruence; auto.
    + apply set_flags_Df. exact (Inv_Df _ _ _ _ H).
    + change (d_tlss (deep (fst (set_flags w s))) = false). rewrite T. exact (Inv_tlss _ _ _ _ H).
  - destruct (set_flags_frame w s) as (_ & _ & _ & Q). rewrite Q by congruence. exact H.
  - destruct (set_flags_frame w s) as (_ & _ & _ & Q). rewrite Q by congruence. exact H.
Qed.

(* ------------------------------------------------------------------ a successful connect starts a new attempt *)
Lemma InvV_connect_ok raw crashed0 l ps0 tlsp mand dis h o :
  crashed0 = false -> forallb neutral o = true ->
  (forall k, In k l -> k = HUser) ->
  (raw = false -> oh_first h = true) -> (oh_pre h = false -> mand = false) -> (dis = true -> mand = false) ->
  InvV MTop None (mkCore Connecting false raw true crashed0 None true O O false None false)
       (mkDeep l [] h ps0 false tlsp false false mand dis true) o.
Proof.
  intros Hc Hn Hl Hr Hm Hd. destruct (neutral_facts o Hn) as (N1 & N2 & N3 & N4).
  constructor; [ | | | exact I].
  - constructor; unfold vC, vD, vR, vB; core_simpl; rewrite ?N1, ?N2, ?N3, ?N4; cbn [Nat.add Nat.ltb Nat.leb andb orb];
      try (intros; discriminate); auto.
    now apply scan_neutral.
  - constructor; core_simpl; deep_simpl; auto.
  - constructor; unfold is_sec, near4; core_simpl; deep_simpl.
    + exact Hd.
    + reflexivity.
    + intros _ Q. apply Hl in Q. discriminate Q.
    + intros _ B _. split; [intros k Q; rewrite (Hl k Q); reflexivity|]. split; [reflexivity|].
      destruct (oh_pre h) eqn:E; [reflexivity|]. rewrite (Hm eq_refl) in B. discriminate B.
    + intros _ Q. apply Hl in Q. discriminate Q.
Qed.

Lemma libids_user_filter l : libids (filter (fun x : idk * bool => idk_eqb (fst x) IKUser) l) = [].
Proof.
  unfold libids. induction l as [|[k b] l IH]; [reflexivity|].
  cbn [filter fst]. destruct k; exact IH.
Qed.
Lemma conn_reset_facts s : st s = Disconnected ->
  st (conn_reset s) = Disconnected /\ neg_done (conn_reset s) = false /\ is_raw (conn_reset s) = is_raw s /\
  crashed (conn_reset s) = crashed s /\ gh (conn_reset s) = gh s /\
  f_tls_disabled (conn_reset s) = f_tls_disabled s /\ f_tls_mandatory (conn_reset s) = f_tls_mandatory s /\
  tls_support (conn_reset s) = false /\ secured (conn_reset s) = false /\ tls_failed (conn_reset s) = false /\
  (forall k, In k (hkinds (conn_reset s)) -> k = HUser) /\ libids (idhandlers (conn_reset s)) = [] /\ stream_error (conn_reset s) = None /\
  cands (conn_reset s) = cands s /\ ps (conn_reset s) = ps s /\ tls_present (conn_reset s) = tls_present s.
Proof.
  intros E. unfold conn_reset. rewrite E. cbv zeta. do 10 (split; [first [reflexivity|exact E]|]). split; [|split; [|repeat split; reflexivity]].
  2: { cbn [idhandlers set_timed set_idhandlers]. apply libids_user_filter. }
  intros k Hk. unfold hkinds in Hk. cbn [handlers set_timed set_idhandlers set_handlers] in Hk. apply in_map_iff in Hk. destruct Hk as (x & <- & Hx). apply filter_In in Hx.
  destruct Hx as [_ Hx]. now apply hkind_eqb_eq.
Qed.

Lemma conn_connect_inv now t s : st s = Disconnected -> Inv MTop None s [] ->
  (t = TComponent -> f_tls_disabled s = true) ->
  let '(s', o, rc) := conn_connect now t s in Inv MTop None s' o /\ forallb neutral o = true.
Proof.
  intros E H Ht. unfold conn_connect. rewrite E. cbv zeta.
  destruct (conn_reset_facts s E) as (R1 & R2 & R3 & R4 & R5 & R6 & R7 & R8 & R9 & R10 & R11 & R12 & R13 & R14 & R15 & R16).
  set (cr := conn_reset s) in *. clearbody cr.
  set (s1 := set_typ t (set_sm_alloc true cr)).
  change (cands s1) with (cands cr). rewrite R14.
  pose proof (sock_connect_neutral (cands s)) as Hn. destruct (sock_connect (cands s)) as [o [[k r]|]]; cbn [fst] in Hn.
  - split; [|exact Hn].
    set (h := if is_raw s1 then OpenStub else match t with TClient => OpenAuth | TComponent => OpenComponent end).
    set (f := set_gh _ _).
    assert (Cf : core f = mkCore Connecting false (is_raw s) true (crashed s) None true O O false None false).
    { transitivity (mkCore Connecting (neg_done cr) (is_raw cr) true (crashed cr) (stream_error cr) true O O false None false); [reflexivity|].
      rewrite R2, R3, R4, R13. reflexivity. }
    assert (Df' : deep f = mkDeep (hkinds cr) [] h (ps s) false (tls_present s) false false (f_tls_mandatory s) (f_tls_disabled s) true).
    { transitivity (mkDeep (hkinds cr) (libids (idhandlers cr)) h (ps cr) (secured cr) (tls_present cr) (tls_failed cr) (tls_support cr) (f_tls_mandatory cr) (f_tls_disabled cr) true); [reflexivity|].
      rewrite R6, R7, R8, R9, R10, R12, R15, R16. reflexivity. }
    unfold Inv. rewrite Cf, Df'.
    apply InvV_connect_ok; try assumption.
    + destruct (K1 _ _ (IL _ _ _ _ _ H)) as [Q _]. exact Q.
    + intros Q. unfold h. change (is_raw s1) with (is_raw cr). rewrite R3, Q. destruct t; reflexivity.
    + intros Q. unfold h in Q. destruct (is_raw s1); [discriminate Q|]. destruct t; [discriminate Q|].
      apply (Inv_Df _ _ _ _ H). apply Ht. reflexivity.
    + exact (Inv_Df _ _ _ _ H).
  - split; [|exact Hn].
    assert (Hnd : neg_done s = false) by (apply (L3 _ _ (IL _ _ _ _ _ H)); exact E).
    pose proof (Inv_Df _ _ _ _ H) as HDf.
    apply Inv_neutral with (l := o) in H; [|exact Hn]. cbn [app] in H.
    apply (Inv_disc_frame None None s (set_cands [] s1) o E).
    + exact R1.
    + change (neg_done cr = neg_done s). congruence.
    + left. exact R3.
    + exact R4.
    + change (g_attempt (gh cr) = g_attempt (gh s)). rewrite R5. reflexivity.
    + change (g_connects (gh cr) = g_connects (gh s)). rewrite R5. reflexivity.
    + change (g_disconnects (gh cr) = g_disconnects (gh s)). rewrite R5. reflexivity.
    + change (g_rawc (gh cr) = g_rawc (gh s)). rewrite R5. reflexivity.
    + change (g_se_bad (gh cr) = g_se_bad (gh s)). rewrite R5. reflexivity.
    + change (f_tls_disabled cr = true -> f_tls_mandatory cr = false). rewrite R6, R7. exact HDf.
    + exact R8.
    + exact H.
Qed.

Lemma conn_connect_live now t s : st s <> Disconnected -> conn_connect now t s = (s, [], XMPP_EINVOP).
Proof. intros H. unfold conn_connect. destruct (st s); [congruence| |]; reflexivity. Qed.

Lemma connect_client_inv now s : Inv MTop None s [] ->
  let '(s', o, rc) := connect_client now s in Inv MTop None s' o /\ forallb neutral o = true.
Proof.
  intros H. unfold connect_client.
  set (s1 := if negb (jid_set s) && cert_set s then set_jid_res false (set_jid_node true (set_jid_set true s)) else s).
  assert (H1 : Inv MTop None s1 []) by (subst s1; destruct (negb (jid_set s) && cert_set s); [apply (Inv_frame _ _ s); [reflexivity|reflexivity|]|]; exact H).
  clearbody s1. destruct (negb (jid_set s1)); [split; [exact H1|reflexivity]|].
  set (s2 := set_cands (next_cands s1) s1).
  assert (H2 : Inv MTop None s2 []) by (apply (Inv_frame _ _ s1); [reflexivity|reflexivity|exact H1]).
  destruct (st s2) eqn:E.
  - apply conn_connect_inv; [exact E|exact H2|discriminate].
  - rewrite conn_connect_live by congruence. split; [exact H2|reflexivity].
  - rewrite conn_connect_live by congruence. split; [exact H2|reflexivity].
Qed.

Lemma connect_component_inv now s : Inv MTop None s [] ->
  let '(s', o, rc) := connect_component now s in Inv MTop None s' o /\ forallb neutral o = true.
Proof.
  intros H. unfold connect_component.
  destruct (negb (jid_set s && pass_set s)); [split; [exact H|reflexivity]|]. cbv zeta.
  set (w' := if f_tls_disabled s then flags_readback s else flags_readback s + FLAG_DISABLE_TLS).
  pose proof (set_flags_inv w' s [] H) as H1. destruct (set_flags w' s) as [s1 rc]. cbn [fst] in H1.
  destruct (f_tls_disabled s1) eqn:D; cbn [negb]; [|split; [exact H1|reflexivity]].
  set (s2 := set_cands (next_cands s1) s1).
  assert (H2 : Inv MTop None s2 []) by (apply (Inv_frame _ _ s1); [reflexivity|reflexivity|exact H1]).
  destruct (st s2) eqn:E.
  - apply conn_connect_inv; [exact E|exact H2|intros _; exact D].
  - rewrite conn_connect_live by congruence. split; [exact H2|reflexivity].
  - rewrite conn_connect_live by congruence. split; [exact H2|reflexivity].
Qed.

(* ------------------------------------------------------------------ one operation *)
Definition query_op (o : op) : bool := match o with OpIs | OpSetFlags _ => true | _ => false end.
Lemma step0_inv s o : query_op o = false -> Inv MTop None s [] -> RInv MTop None [] (step0 s o).
Proof.
  intros Hq H. unfold RInv, step0.
  assert (Hc : crashed s = false) by (destruct (K1 _ _ (IL _ _ _ _ _ H)) as [Q _]; exact Q).
  rewrite Hc. cbn [app].
  assert (Hpl : forall x, core x = core s -> deep x = deep s -> Inv MTop None x []) by (intros x C D; apply (Inv_frame _ _ s); assumption).
  destruct o as [w|n r|b|b|now h t|tn cb v|eps|now|now|now|now rd|now| | | | | ].
  - discriminate Hq.
  - destruct (st s); cbn [ret fst snd]; first [exact H | apply Hpl; reflexivity].
  - destruct (st s); cbn [ret fst snd]; first [exact H | apply Hpl; reflexivity].
  - destruct (st s); cbn [ret fst snd]; first [exact H | apply Hpl; reflexivity].
  - destruct (st s) eqn:E; cbn [ret fst snd]; try exact H.
    set (s1 := if h then id_add IKUser (h_add HUser s) else s).
    assert (H1 : Inv MTop None s1 []).
    { subst s1. destruct h; [|exact H]. apply (Inv_frame _ _ (h_add HUser s)); [apply id_add_core|apply id_add_user_deep|].
      apply Inv_h_add_pre; [reflexivity|discriminate|intros [Q|Q]; discriminate Q|exact H]. }
    clearbody s1.
    apply (Inv_frame_fun _ _ (fun x => set_user_timed t (set_user_handler h x))); [intro; reflexivity|intro; reflexivity|].
    destruct t; [|exact H1]. apply (Inv_frame _ _ s1); [apply timed_add_core|apply timed_add_deep|exact H1].
  - destruct (st s); cbn [ret fst snd]; first [exact H | apply Hpl; reflexivity].
  - cbn [ret fst snd]. first [exact H | apply Hpl; reflexivity].
  - pose proof (connect_client_inv now s H) as Q. destruct (connect_client now s) as [[s1 o1] rc]. cbn [fst snd].
    destruct Q as [Q _]. exact (Inv_neutral _ _ _ _ [ORet rc] eq_refl Q).
  - destruct (st s) eqn:E; cbn [fst snd]; try exact (Inv_neutral _ _ _ _ [ORet XMPP_EINVOP] eq_refl H).
    assert (Hr : Inv MTop None (set_is_raw true s) []).
    { apply (Inv_disc_frame None None s); try reflexivity; try assumption; [right; reflexivity| |].
      - exact (Inv_Df _ _ _ _ H).
      - exact (Inv_tlss _ _ _ _ H). }
    pose proof (connect_client_inv now _ Hr) as Q. destruct (connect_client now (set_is_raw true s)) as [[s1 o1] rc]. cbn [fst snd].
    destruct Q as [Q _]. exact (Inv_neutral _ _ _ _ [ORet rc] eq_refl Q).
  - pose proof (connect_component_inv now s H) as Q. destruct (connect_component now s) as [[s1 o1] rc]. cbn [fst snd].
    destruct Q as [Q _]. exact (Inv_neutral _ _ _ _ [ORet rc] eq_refl Q).
  - exact (run_once_inv now rd s [] H).
  - cbn [ret fst snd]. apply Hpl; [apply xmpp_disconnect_core|apply xmpp_disconnect_deep].
  - cbn [ret fst snd]. apply Hpl; [apply send_gated_core|apply send_gated_deep].
  - cbn [ret fst snd]. apply Hpl; [apply send_raw_m_core|apply send_raw_m_deep].
  - discriminate Hq.
  - destruct (is_raw s) eqn:R; cbn [ret fst snd]; [|exact H].
    apply (Inv_frame _ _ (prepare_reset OpenRaw s)); [apply conn_open_stream_core|apply conn_open_stream_deep|].
    apply Inv_prepare_reset; [intros _ Q; congruence|intros Q; discriminate Q|exact H].
  - destruct (st s) eqn:E; try (cbn [ret fst snd]; exact H); exact (conn_disconnect_inv MTop s [] (or_introl eq_refl) H).
Qed.

(* the observer commits the outputs of the step *)
Lemma note_outs_inv s outs : Inv MTop None s outs -> Inv MTop None (note_outs outs s) [].
Proof.
  intros H. unfold note_outs.
  destruct (fold_note_out_fields outs (gh s)) as (G1 & G2 & G3 & G4 & G5 & G6 & _).
  set (g' := fold_left note_out outs (gh s)) in *. clearbody g'.
  unfold Inv. change (deep (set_gh g' s)) with (deep s).
  assert (C : core (set_gh g' s) =
              mkCore (c_st (core s)) (c_nd (core s)) (c_raw (core s)) (c_alloc (core s)) (c_crashed (core s)) (c_se (core s))
                     (c_att (core s)) (c_nc (core s) + cnt is_conn outs)%nat (c_ndisc (core s) + cnt is_dsc outs)%nat
                     (c_rawc (core s) || existsb is_rawc outs) (c_serr (core s)) (c_sebad (core s))).
  { unfold core. sproj. core_simpl. rewrite G1, G2, G3, G4, G5, G6. reflexivity. }
  rewrite C.
  destruct H as [[L1 L2 L3 L4 L5 L6 L7 L8 K1 K2] HS HD HM].
  apply (InvV_core_change MTop None (core s) _ (deep s) outs []); try reflexivity; [|constructor; try assumption; constructor; assumption].
  constructor; unfold vC, vD, vR, vB in *; core_simpl; cbn [cnt existsb]; rewrite ?Nat.add_0_r, ?orb_false_r; try assumption.
  - reflexivity.
  - split; [apply K1|reflexivity].
Qed.

Definition TopInv (s : state) : Prop := Inv MTop None s [].
Lemma note_outs_silent outs s : forallb (fun o => match o with OConnect | ODisconnect _ _ | OTlsStart true | ORawConnect => false | _ => true end) outs = true ->
  note_outs outs s = set_gh (gh s) s.
Proof.
  intros H. unfold note_outs. f_equal. generalize (gh s). induction outs as [|x r IH]; intros g; [reflexivity|].
  cbn [forallb] in H. apply andb_true_iff in H. destruct H as [H1 H2]. cbn [fold_left].
  assert (E : note_out g x = g) by (destruct x as [ | | | | [|] | | | | | | | | | ]; try discriminate H1; reflexivity).
  rewrite E. apply IH. exact H2.
Qed.
Lemma step_inv s o : TopInv s -> TopInv (fst (step s o)).
Proof.
  intros H. unfold step. destruct (query_op o) eqn:Hq.
  - assert (Hc : crashed s = false) by (destruct (K1 _ _ (IL _ _ _ _ _ H)) as [Q _]; exact Q).
    destruct o; try discriminate Hq; unfold step0; rewrite Hc.
    + pose proof (set_flags_inv w s [] H) as Q. destruct (set_flags w s) as [s1 rc]. cbn [fst snd] in *.
      rewrite note_outs_silent by reflexivity. apply (Inv_frame _ _ s1); [reflexivity|reflexivity|exact Q].
    + cbn [fst]. rewrite note_outs_silent by reflexivity. apply (Inv_frame _ _ s); [reflexivity|reflexivity|exact H].
  - pose proof (step0_inv s o Hq H) as Q. unfold RInv in Q. destruct (step0 s o) as [s1 outs]. cbn [fst snd app] in *.
    apply note_outs_inv. exact Q.
Qed.

(* ================================================================== the lifecycle theorems *)
Lemma TopInv_init : TopInv init_state.
Proof.
  unfold TopInv, Inv. constructor; [ | | | exact I].
  - constructor; unfold vC, vD, vR, vB; cbn; try (intros; discriminate); auto; try (intros Q; exfalso; apply Q; reflexivity).
  - constructor; cbn; auto; intros Q; exfalso; apply Q; reflexivity.
  - constructor; cbn; auto; try (intros Q; exfalso; apply Q; reflexivity).
Qed.

Lemma scan_mono b l : scan_no_connect_after b l = true -> scan_no_connect_after false l = true.
Proof.
  revert b. induction l as [|x l IH]; intros b H; [reflexivity|].
  destruct x; cbn [scan_no_connect_after] in *; try (eapply IH; exact H); try exact H.
  - apply andb_true_iff in H. destruct H as [_ H]. cbn [negb andb]. eapply IH. exact H.
  - apply andb_true_iff in H. destruct H as [_ H]. cbn [negb andb]. eapply IH. exact H.
Qed.

(* nothing is reported by an operation on a disconnected object *)
Lemma run_once_disc now rd s : st s = Disconnected -> crashed s = false -> snd (run_once now rd s) = [OIter].
Proof.
  intros E Hc. unfold run_once. rewrite Hc.
  assert (Ea : match rd with RdNone => s | _ => match st s with Disconnected => s | _ => set_rxq (rxq s ++ [rd]) s end end = s)
    by (destruct rd; rewrite ?E; reflexivity).
  rewrite Ea. unfold send_phase. rewrite E. unfold ret. rewrite Hc.
  set (s2 := if reset_parser s then set_ps PDepth0 (set_reset_parser false s) else s).
  assert (E2 : st s2 = Disconnected /\ crashed s2 = false) by (subst s2; destruct (reset_parser s); auto).
  destruct E2 as [E2 C2]. clearbody s2.
  rewrite fire_timed_idle by congruence. do 4 (cbv beta iota; rewrite ?C2, ?E2). reflexivity.
Qed.

Lemma step0_disc_neutral s o : TopInv s -> st s = Disconnected -> forallb neutral (snd (step0 s o)) = true \/ query_op o = true.
Proof.
  intros H E. destruct (query_op o) eqn:Hq; [right; reflexivity|left].
  assert (Hc : crashed s = false) by (destruct (K1 _ _ (IL _ _ _ _ _ H)) as [Q _]; exact Q).
  unfold step0. rewrite Hc.
  destruct o as [w|n r|b|b|now h t|tn cb v|eps|now|now|now|now rd|now| | | | | ]; try discriminate Hq; rewrite ?E; try reflexivity.
  - pose proof (connect_client_inv now s H) as Q. destruct (connect_client now s) as [[s1 o1] rc]. cbn [snd].
    destruct Q as [_ Q]. rewrite forallb_app, Q. reflexivity.
  - assert (Hr : Inv MTop None (set_is_raw true s) []).
    { apply (Inv_disc_frame None None s); try reflexivity; try assumption; [right; reflexivity| |].
      - exact (Inv_Df _ _ _ _ H).
      - exact (Inv_tlss _ _ _ _ H). }
    pose proof (connect_client_inv now _ Hr) as Q. destruct (connect_client now (set_is_raw true s)) as [[s1 o1] rc]. cbn [snd].
    destruct Q as [_ Q]. rewrite forallb_app, Q. reflexivity.
  - pose proof (connect_component_inv now s H) as Q. destruct (connect_component now s) as [[s1 o1] rc]. cbn [snd].
    destruct Q as [_ Q]. rewrite forallb_app, Q. reflexivity.
  - rewrite run_once_disc by assumption. reflexivity.
  - destruct (is_raw s); reflexivity.
Qed.

(* the shape of a step: either a query (state and counters untouched), or the invariant on the outputs *)
Lemma step_cases s o : TopInv s ->
  exists s1 outs acc, step s o = (note_outs outs s1, outs) /\ Inv MTop None s1 acc /\
    cnt is_conn outs = cnt is_conn acc /\ cnt is_dsc outs = cnt is_dsc acc /\ existsb is_rawc outs = existsb is_rawc acc /\
    scan_no_connect_after (Nat.ltb 0 (g_disconnects (gh s)) && g_attempt (gh s)) outs = true /\
    existsb (fun o => match o with OCrash => true | _ => false end) outs = false /\
    (acc = outs \/ (acc = [] /\ forallb (fun o => match o with OConnect | ODisconnect _ _ | OTlsStart true | ORawConnect => false | _ => true end) outs = true)).
Proof.
  intros H. unfold step.
  assert (Hc : crashed s = false) by (destruct (K1 _ _ (IL _ _ _ _ _ H)) as [Q _]; exact Q).
  destruct (query_op o) eqn:Hq.
  - destruct o; try discriminate Hq; unfold step0; rewrite Hc.
    + pose proof (set_flags_inv w s [] H) as Q. destruct (set_flags w s) as [s1 rc]. cbn [fst snd] in *.
      exists s1, [OFlags rc (flags_readback s1)], [].
      split; [reflexivity|]. split; [exact Q|]. do 5 (split; [reflexivity|]). right. split; reflexivity.
    + eexists s, _, [].
      split; [reflexivity|]. split; [exact H|]. do 5 (split; [reflexivity|]). right. split; reflexivity.
  - pose proof (step0_inv s o Hq H) as Q. unfold RInv in Q.
    assert (Hscan : scan_no_connect_after (Nat.ltb 0 (g_disconnects (gh s)) && g_attempt (gh s)) (snd (step0 s o)) = true).
    { destruct (Nat.ltb 0 (g_disconnects (gh s)) && g_attempt (gh s)) eqn:B.
      - (* the previous attempt is over: the object is disconnected, the operation reports nothing *)
        assert (E : st s = Disconnected).
        { destruct (st s) eqn:E; [reflexivity| |]; exfalso;
            (assert (N : c_st (core s) <> Disconnected) by (change (st s <> Disconnected); congruence);
             destruct (L1 _ _ (IL _ _ _ _ _ H) N) as [_ D]; unfold vD in D; cbn in D;
             apply andb_true_iff in B; destruct B as [B _]; apply Nat.ltb_lt in B; change (c_ndisc (core s)) with (g_disconnects (gh s)) in D; lia). }
        destruct (step0_disc_neutral s o H E) as [N|N]; [|congruence]. now apply scan_neutral.
      - apply (scan_mono (vB (core (fst (step0 s o))))). cbn [app] in Q. apply (L7 _ _ (IL _ _ _ _ _ Q)). }
    destruct (step0 s o) as [s1 outs]. cbn [fst snd app] in *.
    exists s1, outs, outs. split; [reflexivity|]. split; [exact Q|]. do 3 (split; [reflexivity|]). split; [exact Hscan|]. split.
    + destruct (K1 _ _ (IL _ _ _ _ _ Q)) as [_ K]. clear - K. induction outs as [|x r IH]; [reflexivity|].
      cbn [existsb] in *. apply orb_false_iff in K. destruct K as [K1 K2]. rewrite (IH K2). destruct x; try reflexivity; discriminate K1.
    + left. reflexivity.
Qed.

(* the committed counters *)
Lemma commit_fields s1 outs :
  let s' := note_outs outs s1 in
  st s' = st s1 /\ neg_done s' = neg_done s1 /\ is_raw s' = is_raw s1 /\ crashed s' = crashed s1 /\
  g_connects (gh s') = (g_connects (gh s1) + cnt is_conn outs)%nat /\
  g_disconnects (gh s') = (g_disconnects (gh s1) + cnt is_dsc outs)%nat /\
  g_rawc (gh s') = (g_rawc (gh s1) || existsb is_rawc outs) /\ g_attempt (gh s') = g_attempt (gh s1) /\
  g_se_bad (gh s') = g_se_bad (gh s1).
Proof.
  cbv zeta. unfold note_outs. destruct (fold_note_out_fields outs (gh s1)) as (G1 & G2 & G3 & G4 & G5 & G6 & _).
  sproj. repeat split; assumption.
Qed.

Lemma ok_outcome_step s o : TopInv s -> ok_outcome s o (fst (step s o)) (snd (step s o)) = true.
Proof.
  intros H. destruct (step_cases s o H) as (s1 & outs & acc & E & Q & C1 & C2 & C3 & Hscan & _ & _). rewrite E. cbn [fst snd].
  destruct (commit_fields s1 outs) as (F1 & F2 & F3 & F4 & F5 & F6 & F7 & F8 & F9).
  unfold ok_outcome. rewrite F1, F3, F5, F6, F8, Hscan, C1, C2.
  destruct (IL _ _ _ _ _ Q) as [L1 L2 L3 L4 L5 L6 L7 L8 K1 K2]. unfold vC, vD, vR, vB in *. cbn [core c_st c_nd c_raw c_alloc c_crashed c_att c_nc c_ndisc c_rawc] in *.
  assert (P1 : is_raw s1 || Nat.leb (g_connects (gh s1) + cnt is_conn acc) 1 = true).
  { destruct L6 as [R|R]; [rewrite R; reflexivity|]. apply Nat.leb_le in R. rewrite R. apply orb_true_r. }
  assert (P2 : Nat.leb (g_disconnects (gh s1) + cnt is_dsc acc) 1 = true /\
               (negb (g_attempt (gh s1)) || Bool.eqb (is_disc (st s1)) (Nat.eqb (g_disconnects (gh s1) + cnt is_dsc acc) 1)) = true).
  { destruct (st s1) eqn:S.
    - destruct (g_attempt (gh s1)) eqn:A.
      + rewrite (L2 eq_refl eq_refl). split; reflexivity.
      + rewrite (L8 eq_refl). split; reflexivity.
    - assert (N : Connecting <> Disconnected) by discriminate. destruct (L1 N) as [A D]. rewrite D, A. split; reflexivity.
    - assert (N : Connected <> Disconnected) by discriminate. destruct (L1 N) as [A D]. rewrite D, A. split; reflexivity. }
  destruct P2 as [P2 P3]. rewrite P1, P2, P3. reflexivity.
Qed.

Lemma ok_stream_error_step s o : TopInv s -> ok_stream_error s o (fst (step s o)) (snd (step s o)) = true.
Proof.
  intros H. pose proof (step_inv s o H) as Q. unfold ok_stream_error.
  destruct (IS _ _ _ _ _ Q) as [s1 _ _]. change (g_se_bad (gh (fst (step s o))) = false) in s1. rewrite s1. reflexivity.
Qed.

Lemma ok_nocrash_step s o : TopInv s -> ok_nocrash s o (fst (step s o)) (snd (step s o)) = true.
Proof.
  intros H. pose proof (step_inv s o H) as Q. unfold ok_nocrash.
  destruct (K1 _ _ (IL _ _ _ _ _ Q)) as [C _]. change (crashed (fst (step s o)) = false) in C. rewrite C. cbn [negb andb].
  destruct (step_cases s o H) as (s1 & outs & acc & E & _ & _ & _ & _ & _ & Hno & _). rewrite E. cbn [snd]. rewrite Hno. reflexivity.
Qed.
