(* Shared infrastructure for the C13 / C01 proofs over NegModel:
   tactics (record projections through setters, one-if-at-a-time case analysis), the two "views" of a
   state that the invariants read, frame lemmas for the plumbing functions of the model (one per model
   function), output counters, and the generic induction over operation sequences.
   Nothing here depends on the bodies of the stanza handlers. *)
Require Import LV.Common.Bytes LV.Gen.Gen_neg LV.Model.NegState LV.Model.NegModel LV.Spec.NegSpec.
From Coq Require Import Lia ZifyBool Bool.
Local Open Scope Z_scope.

(* ------------------------------------------------------------------ tactics *)

(* [p (set_f v s)] where p is a projection of state/ghost: reduce it (no list of field names needed,
   so it survives added fields) *)
Ltac sproj_term p f v s :=
  lazymatch type of s with state => idtac | ghost => idtac end;
  lazymatch type of (f v s) with state => idtac | ghost => idtac end;
  is_const p; is_const f;
  let r := eval cbn [p f] in (p (f v s)) in
  first [ constr_eq r v | constr_eq r (p s) ];
  change (p (f v s)) with r in *.
Ltac sproj1 :=
  match goal with
  | |- context [?p (?f ?v ?s)] => sproj_term p f v s
  | H : context [?p (?f ?v ?s)] |- _ => sproj_term p f v s
  end.
Ltac sproj := repeat sproj1.

(* destruct the scrutinee of the outermost-found if / match of the goal, once *)
Ltac case_goal :=
  match goal with
  | |- context [if ?c then _ else _] =>
      lazymatch c with
      | context [if _ then _ else _] => fail
      | context [match _ with _ => _ end] => fail
      | _ => destruct c eqn:?
      end
  | |- context [match ?c with _ => _ end] =>
      lazymatch c with
      | context [if _ then _ else _] => fail
      | context [match _ with _ => _ end] => fail
      | _ => destruct c eqn:?
      end
  end.

(* frame lemmas: unfold the named functions, split every conditional, conclude by computation *)
Ltac frame_by_cases := repeat (try reflexivity; case_goal); try reflexivity.

(* ------------------------------------------------------------------ the core view *)
(* Every field that the lifecycle / crash / stream-error invariants read.  The plumbing functions of
   the model (queues, timers, handler lists, SM bookkeeping) leave it unchanged. *)
Record core_t : Type := mkCore {
  c_st : cstate; c_nd : bool; c_raw : bool; c_alloc : bool; c_crashed : bool;
  c_se : option (Z * bool);
  c_att : bool; c_nc : nat; c_ndisc : nat; c_rawc : bool; c_serr : option (Z * bool); c_sebad : bool
}.
Definition core (s : state) : core_t :=
  mkCore (st s) (neg_done s) (is_raw s) (sm_alloc s) (crashed s) (stream_error s)
         (g_attempt (gh s)) (g_connects (gh s)) (g_disconnects (gh s)) (g_rawc (gh s))
         (g_serr (gh s)) (g_se_bad (gh s)).

Lemma core_fields s s' : core s' = core s ->
  st s' = st s /\ neg_done s' = neg_done s /\ is_raw s' = is_raw s /\ sm_alloc s' = sm_alloc s /\
  crashed s' = crashed s /\ stream_error s' = stream_error s /\
  g_attempt (gh s') = g_attempt (gh s) /\ g_connects (gh s') = g_connects (gh s) /\
  g_disconnects (gh s') = g_disconnects (gh s) /\ g_rawc (gh s') = g_rawc (gh s) /\
  g_serr (gh s') = g_serr (gh s) /\ g_se_bad (gh s') = g_se_bad (gh s).
Proof. unfold core; intros H; injection H; intros; repeat split; assumption. Qed.

(* ------------------------------------------------------------------ the deep view *)
(* What the "no connect report once disconnected" argument reads in addition. *)
Record deep_t : Type := mkDeep {
  d_handlers : list hkind; d_ids : list idk; d_oh : openh; d_ps : pstate;
  d_secured : bool; d_tlsp : bool; d_tlsf : bool; d_tlss : bool; d_mand : bool; d_dis : bool
}.
Definition deep (s : state) : deep_t :=
  mkDeep (map fst (handlers s)) (map fst (idhandlers s)) (oh s) (ps s)
         (secured s) (tls_present s) (tls_failed s) (tls_support s) (f_tls_mandatory s) (f_tls_disabled s).

Lemma deep_fields s s' : deep s' = deep s ->
  map fst (handlers s') = map fst (handlers s) /\ map fst (idhandlers s') = map fst (idhandlers s) /\
  oh s' = oh s /\ ps s' = ps s /\ secured s' = secured s /\ tls_present s' = tls_present s /\
  tls_failed s' = tls_failed s /\ tls_support s' = tls_support s /\
  f_tls_mandatory s' = f_tls_mandatory s /\ f_tls_disabled s' = f_tls_disabled s.
Proof. unfold deep; intros H; injection H; intros; repeat split; assumption. Qed.

(* ------------------------------------------------------------------ plumbing: core and deep frames *)
Lemma q_append_core w u m s : core (q_append w u m s) = core s.
Proof. unfold q_append. frame_by_cases. Qed.
Lemma q_append_deep w u m s : deep (q_append w u m s) = deep s.
Proof. unfold q_append. frame_by_cases. Qed.

Lemma send_gated_core w u m s : core (send_gated w u m s) = core s.
Proof. unfold send_gated. case_goal; [apply q_append_core | reflexivity]. Qed.
Lemma send_gated_deep w u m s : deep (send_gated w u m s) = deep s.
Proof. unfold send_gated. case_goal; [apply q_append_deep | reflexivity]. Qed.

Lemma send_raw_m_core w u m s : core (send_raw_m w u m s) = core s.
Proof. unfold send_raw_m. case_goal; try reflexivity; apply q_append_core. Qed.
Lemma send_raw_m_deep w u m s : deep (send_raw_m w u m s) = deep s.
Proof. unfold send_raw_m. case_goal; try reflexivity; apply q_append_deep. Qed.

Lemma timed_add_core k now s : core (timed_add k now s) = core s.
Proof. unfold timed_add. frame_by_cases. Qed.
Lemma timed_add_deep k now s : deep (timed_add k now s) = deep s.
Proof. unfold timed_add. frame_by_cases. Qed.
Lemma timed_del_core k s : core (timed_del k s) = core s.
Proof. reflexivity. Qed.
Lemma timed_del_deep k s : deep (timed_del k s) = deep s.
Proof. reflexivity. Qed.
Lemma timed_reset_all_core now s : core (timed_reset_all now s) = core s.
Proof. reflexivity. Qed.
Lemma timed_reset_all_deep now s : deep (timed_reset_all now s) = deep s.
Proof. reflexivity. Qed.
Lemma timed_set_stamp_core k now s : core (timed_set_stamp k now s) = core s.
Proof. reflexivity. Qed.
Lemma timed_set_stamp_deep k now s : deep (timed_set_stamp k now s) = deep s.
Proof. reflexivity. Qed.

Lemma h_add_core k s : core (h_add k s) = core s.
Proof. unfold h_add. frame_by_cases. Qed.
Lemma h_del_core k s : core (h_del k s) = core s.
Proof. reflexivity. Qed.
Lemma id_add_core k s : core (id_add k s) = core s.
Proof. unfold id_add. frame_by_cases. Qed.
Lemma id_del_core k s : core (id_del k s) = core s.
Proof. reflexivity. Qed.

Lemma sm_queue_cleanup_core h s : core (sm_queue_cleanup h s) = core s.
Proof. reflexivity. Qed.
Lemma sm_queue_cleanup_deep h s : deep (sm_queue_cleanup h s) = deep s.
Proof. reflexivity. Qed.

Lemma fold_send_raw_core (q : list (welem * bool * bool * Z)) : forall s,
  core (fold_left (fun a x => send_raw_m (fst (fst (fst x))) (snd (fst (fst x))) (snd (fst x)) a) q s) = core s.
Proof. induction q as [|x q IH]; intros s; cbn [fold_left]; [reflexivity|]. rewrite IH. apply send_raw_m_core. Qed.
Lemma fold_send_raw_deep (q : list (welem * bool * bool * Z)) : forall s,
  deep (fold_left (fun a x => send_raw_m (fst (fst (fst x))) (snd (fst (fst x))) (snd (fst x)) a) q s) = deep s.
Proof. induction q as [|x q IH]; intros s; cbn [fold_left]; [reflexivity|]. rewrite IH. apply send_raw_m_deep. Qed.
Lemma sm_queue_resend_core s : core (sm_queue_resend s) = core s.
Proof. unfold sm_queue_resend. rewrite fold_send_raw_core. reflexivity. Qed.
Lemma sm_queue_resend_deep s : deep (sm_queue_resend s) = deep s.
Proof. unfold sm_queue_resend. rewrite fold_send_raw_deep. reflexivity. Qed.

Lemma xmpp_disconnect_core now s : core (xmpp_disconnect now s) = core s.
Proof. unfold xmpp_disconnect. case_goal; try reflexivity; rewrite timed_add_core; apply send_gated_core. Qed.
Lemma xmpp_disconnect_deep now s : deep (xmpp_disconnect now s) = deep s.
Proof. unfold xmpp_disconnect. case_goal; try reflexivity; rewrite timed_add_deep; apply send_gated_deep. Qed.

Lemma conn_open_stream_core s : core (conn_open_stream s) = core s.
Proof. apply send_gated_core. Qed.
Lemma conn_open_stream_deep s : deep (conn_open_stream s) = deep s.
Proof. apply send_gated_deep. Qed.

Lemma prepare_reset_core h s : core (prepare_reset h s) = core s.
Proof. reflexivity. Qed.

Lemma reset_sm_core s : core (reset_sm_for_reconnect s) = core s.
Proof. unfold reset_sm_for_reconnect. frame_by_cases. Qed.
Lemma reset_sm_deep s : deep (reset_sm_for_reconnect s) = deep s.
Proof. unfold reset_sm_for_reconnect. frame_by_cases. Qed.

Lemma session_start_core now s : core (session_start now s) = core s.
Proof. unfold session_start. rewrite send_gated_core, timed_add_core. apply id_add_core. Qed.
Lemma sm_enable_core s : core (sm_enable s) = core s.
Proof. unfold sm_enable. change (core (send_gated (WEnable (negb (sm_dont_request (h_add HSm s)))) false true (h_add HSm s)) = core s).
  rewrite send_gated_core. apply h_add_core. Qed.
Lemma auth_legacy_core now s : core (auth_legacy now s) = core s.
Proof. unfold auth_legacy. case_goal; [apply xmpp_disconnect_core|]. rewrite send_gated_core, timed_add_core. apply id_add_core. Qed.
Lemma sm_handle_core e s : core (sm_handle e s) = core s.
Proof. unfold sm_handle. repeat case_goal; try reflexivity; apply send_gated_core. Qed.
Lemma sm_handle_deep e s : deep (sm_handle e s) = deep s.
Proof. unfold sm_handle. repeat case_goal; try reflexivity; apply send_gated_deep. Qed.

Global Hint Rewrite q_append_core send_gated_core send_raw_m_core timed_add_core timed_del_core
  timed_reset_all_core timed_set_stamp_core h_add_core h_del_core id_add_core id_del_core
  sm_queue_cleanup_core sm_queue_resend_core xmpp_disconnect_core conn_open_stream_core
  prepare_reset_core reset_sm_core session_start_core sm_enable_core auth_legacy_core sm_handle_core : ncore.
Global Hint Rewrite q_append_deep send_gated_deep send_raw_m_deep timed_add_deep timed_del_deep
  timed_reset_all_deep timed_set_stamp_deep sm_queue_cleanup_deep sm_queue_resend_deep
  xmpp_disconnect_deep conn_open_stream_deep reset_sm_deep sm_handle_deep : ndeep.
