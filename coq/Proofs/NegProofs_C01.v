(* C01 (model part) - proofs of the no-crash / reusability theorems over NegModel (statements: Properties/Properties_C01.v).
   The invariants and the per-function preservation lemmas are in Proofs/NegFrame_C13.v. *)
Require Import LV.Common.Bytes LV.Gen.Gen_neg LV.Model.NegState LV.Model.NegModel LV.Spec.NegSpec LV.Proofs.NegFrame_C13.
From Coq Require Import Lia ZifyBool Bool.
Local Open Scope Z_scope.

Theorem nocrash_ok : forall ops, check_run ok_nocrash init_state ops = true.
Proof. intros ops. apply (check_run_inv TopInv); [exact step_inv | exact ok_nocrash_step | exact TopInv_init]. Qed.

Theorem one_disconnect_proof : forall ops, Nat.leb (g_disconnects (gh (fst (run init_state ops)))) 1 = true.
Proof.
  intros ops. pose proof (run_inv TopInv step_inv ops init_state TopInv_init) as H.
  set (s := fst (run init_state ops)) in *. clearbody s.
  destruct (IL _ _ _ _ _ H) as [L1 L2 L3 L4 L5 L6 L7 L8 K1 K2]. unfold vD in *. cbn [core c_st c_att c_ndisc cnt] in *.
  rewrite Nat.add_0_r in *.
  destruct (st s) eqn:S.
  - destruct (g_attempt (gh s)) eqn:A; [rewrite (L2 eq_refl eq_refl)|rewrite (L8 eq_refl)]; reflexivity.
  - assert (N : Connecting <> Disconnected) by discriminate. destruct (L1 N) as [_ D]. rewrite D. reflexivity.
  - assert (N : Connected <> Disconnected) by discriminate. destruct (L1 N) as [_ D]. rewrite D. reflexivity.
Qed.

(* a disconnected object accepts a new connect as soon as a candidate of the new list answers *)
Theorem reusable_proof :
  forall ops now k r,
    let s := fst (run init_state ops) in
    st s = Disconnected -> jid_set s = true -> snd (sock_connect (next_cands s)) = Some (k, r) ->
    snd (connect_client now s) = XMPP_EOK /\ st (fst (fst (connect_client now s))) = Connecting.
Proof.
  intros ops now k r s. clearbody s. intros E J C.
  unfold connect_client. rewrite J. cbn [negb andb]. cbv zeta. rewrite J. cbn [negb].
  set (s2 := set_cands (next_cands s) s).
  assert (E2 : st s2 = Disconnected) by exact E.
  unfold conn_connect. rewrite E2. cbv zeta.
  destruct (conn_reset_facts s2 E2) as (_ & _ & _ & _ & _ & _ & _ & _ & _ & _ & _ & _ & _ & R14 & _).
  set (cr := conn_reset s2) in *. clearbody cr.
  change (cands (set_typ TClient (set_sm_alloc true cr))) with (cands cr). rewrite R14.
  change (cands s2) with (next_cands s).
  destruct (sock_connect (next_cands s)) as [o x]. cbn [snd] in C. subst x. cbn [fst snd]. split; reflexivity.
Qed.
Example reusable_hyps : let s := fst (run init_state [OpSetJid true true; OpCands [EpAccept]]) in
  st s = Disconnected /\ jid_set s = true /\ snd (sock_connect (next_cands s)) = Some (EpAccept, []).
Proof. vm_compute. repeat split. Qed.
