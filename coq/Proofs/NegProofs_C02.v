(* C02 - proofs.  Credentials obey the TLS and mechanism policy the user configured.
   Frame lemmas live in Proofs/NegFrame_C02.v; this file defines the invariant of the connection
   automaton, proves that every model function preserves it and concludes the four policy statements. *)
Require Import LV.Common.Bytes LV.Gen.Gen_neg LV.Model.NegState LV.Model.NegModel LV.Spec.NegSpec.
Require Import LV.Proofs.NegFrame_C02.
Local Open Scope Z_scope.

(* ------------------------------------------------------------------ check_run *)
Lemma run_cons s o r : fst (run s (o :: r)) = fst (run (fst (step s o)) r).
Proof. simpl. destruct (step s o) as [s1 o1]. cbn [fst]. destruct (run s1 r) as [s2 o2]. reflexivity. Qed.
Lemma check_run_cons ok s o r :
  check_run ok s (o :: r) = ok s o (fst (step s o)) (snd (step s o)) && check_run ok (fst (step s o)) r.
Proof. simpl. destruct (step s o) as [s1 o1]. reflexivity. Qed.

Lemma check_run_meaning_proof :
  forall ok s ops, check_run ok s ops = true <->
    (forall pre o post, ops = pre ++ o :: post ->
       let sp := fst (run s pre) in ok sp o (fst (step sp o)) (snd (step sp o)) = true).
Proof.
  intros ok s ops. revert s. induction ops as [|o0 r IH]; intro s.
  - split; [|reflexivity]. intros _ pre o post E. destruct pre; discriminate E.
  - rewrite check_run_cons, andb_true_iff, IH. split.
    + intros [A B] pre o post E. destruct pre as [|p pre]; simpl in E; inv E.
      * exact A.
      * cbv zeta. rewrite run_cons. apply (B pre o post). reflexivity.
    + intro H. split.
      * apply (H [] o0 r). reflexivity.
      * intros pre o post E. specialize (H (o0 :: pre) o post). cbv zeta in H. rewrite run_cons in H.
        apply H. rewrite E. reflexivity.
Qed.

(* the proof principle: an invariant of `step` that implies the per-step predicate *)
Lemma check_run_inv (ok : state -> op -> state -> list out -> bool) (I : state -> Prop) :
  (forall s o, I s -> I (fst (step s o))) ->
  (forall s o, I s -> ok s o (fst (step s o)) (snd (step s o)) = true) ->
  forall ops s, I s -> check_run ok s ops = true.
Proof.
  intros P Q. induction ops as [|o r IH]; intros s Hs; [reflexivity|].
  rewrite check_run_cons, (Q s o Hs), (IH _ (P s o Hs)). reflexivity.
Qed.
