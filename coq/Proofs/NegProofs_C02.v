(* C02 - proofs.  Credentials obey the TLS and mechanism policy the user configured.
   Frame lemmas live in Proofs/NegFrame_C02.v; this file defines the invariant of the connection
   automaton, proves that every model function preserves it and concludes the four policy statements. *)
Require Import LV.Common.Bytes LV.Gen.Gen_neg LV.Model.NegState LV.Model.NegModel LV.Spec.NegSpec.
Require Import LV.Proofs.NegFrame_C02.
(* only the fact "DISABLE_TLS excludes MANDATORY_TLS" (Inv_Df) of the lifecycle invariant is used; not imported, to keep the name spaces apart *)
Require LV.Proofs.NegFrame_C13.
Local Open Scope Z_scope.

(* ------------------------------------------------------------------ check_run *)
Lemma run_cons s o r : fst (run s (o :: r)) = fst (run (fst (step s o)) r).
Proof. simpl. destruct (step s o) as [s1 o1]. cbn [fst]. destruct (run s1 r) as [s2 o2]. reflexivity. Qed.
Lemma check_run_cons ok s o r :
  check_run ok s (o :: r) = ok s o (fst (step s o)) (snd (step s o)) && check_run ok (fst (step s o)) r.
Proof. simpl. destruct (step s o) as [s1 o1]. reflexivity. Qed.

Lemma check_run_meaning_proof :
  forall ok s ops, check_run ok s ops = true <->
    (forall pre o post, ops = pre ++ o :: post ->
       let sp := fst (run s pre) in ok sp o (fst (step sp o)) (snd (step sp o)) = true).
Proof.
  intros ok s ops. revert s. induction ops as [|o0 r IH]; intro s.
  - split; [|reflexivity]. intros _ pre o post E. destruct pre; discriminate E.
  - rewrite check_run_cons, andb_true_iff, IH. split.
    + intros [A B] pre o post E. destruct pre as [|p pre]; simpl in E; inv E.
      * exact A.
      * cbv zeta. rewrite run_cons. apply (B pre o post). reflexivity.
    + intro H. split.
      * apply (H [] o0 r). reflexivity.
      * intros pre o post E. specialize (H (o0 :: pre) o post). cbv zeta in H. rewrite run_cons in H.
        apply H. rewrite E. reflexivity.
Qed.

(* the proof principle: an invariant of `step` that implies the per-step predicate *)
Lemma check_run_inv (ok : state -> op -> state -> list out -> bool) (I : state -> Prop) :
  (forall s o, I s -> I (fst (step s o))) ->
  (forall s o, I s -> ok s o (fst (step s o)) (snd (step s o)) = true) ->
  forall ops s, I s -> check_run ok s ops = true.
Proof.
  intros P Q. induction ops as [|o r IH]; intros s Hs; [reflexivity|].
  rewrite check_run_cons, (Q s o Hs), (IH _ (P s o Hs)). reflexivity.
Qed.

(* ------------------------------------------------------------------ the invariant *)
Definition is_baseh (k : hkind) : bool := match k with HUser | HError | HComponentHs => true | _ => false end.
Definition is_posth (k : hkind) : bool :=
  match k with HFeaturesSasl | HFeaturesCompress | HCompressResult | HSm => true | _ => false end.

Definition hasF (s : state) : Prop := In HFeatures (hk s).
Definition hasT (s : state) : Prop := In HProceedTls (hk s).
Definition hasS (s : state) : Prop := exists k, In k (hk s) /\ is_saslh k = true.
Definition hasTMF (s : state) : Prop := In TMissingFeatures (tk s).
Definition noauth (s : state) : Prop := ~ hasF s /\ ~ hasT s /\ ~ hasS s /\ ~ hasTMF s.
Definition prepost (s : state) : Prop := (forall i, In i (ik s) -> i = IKLegacy) /\ sm_enabled s = false.
Definition strong_in (s : state) : Prop := existsb (fun m => negb (is_plain_or_anon m)) (sasl s) = true.
Definition fresh (s : state) : Prop :=
  sasl s = [] /\ sm_enabled s = false /\ (forall k, In k (hk s) -> k = HUser) /\
  (forall i, In i (ik s) -> i = IKLegacy) /\ ~ hasTMF s /\ g_strong (gh s) = false.
Definition quietS (s : state) : Prop :=
  (forall k, In k (hk s) -> is_baseh k = true) /\ ~ hasTMF s /\ prepost s.
(* evidence that the connection is past authentication *)
Definition evP (s : state) : Prop :=
  (exists k, In k (hk s) /\ is_posth k = true) \/ In IKBind (ik s) \/ In IKSession (ik s).

Record LInv (s : state) : Prop := mkLInv {
  li_C : st s = Connecting ->
         fresh s /\ secured s = false /\ sendq s = [] /\ oh s <> OpenTls /\ oh s <> OpenSasl /\ oh s <> OpenCompress;
  li_XF : hasF s ->
          (forall k, In k (hk s) -> is_baseh k = true \/ k = HFeatures) /\ prepost s /\
          (oh s = OpenAuth \/ oh s = OpenTls) /\ (hasTMF s -> oh s = OpenAuth) /\ (hasTMF s -> sasl s = []);
  li_XT : hasT s ->
          (forall k, In k (hk s) -> is_baseh k = true \/ k = HProceedTls) /\ prepost s /\ ~ hasTMF s /\
          secured s = false /\ oh s = OpenAuth /\ g_feat_seen (gh s) = true /\
          (g_strong (gh s) = true -> strong_in s /\ mem_mech MPlain (sasl s) = false);
  li_XS : forall k, In k (hk s) -> is_saslh k = true ->
          (forall k', In k' (hk s) -> is_baseh k' = true \/ k' = k) /\ prepost s /\ ~ hasTMF s /\
          (oh s = OpenAuth \/ oh s = OpenTls) /\ g_feat_seen (gh s) = true /\
          (g_strong (gh s) = true -> mem_mech MPlain (sasl s) = false);
  li_XP : forall k, In k (hk s) -> is_posth k = true ->
          (forall k', In k' (hk s) -> is_baseh k' = true \/ is_posth k' = true) /\ ~ hasTMF s;
  li_TMF : hasTMF s -> hasF s;
  li_POA : st s = Connected -> oh s = OpenAuth -> ps s = PDepth0 -> fresh s;
  li_POT : oh s = OpenTls -> (reset_parser s = true \/ ps s = PDepth0) ->
           quietS s /\ (g_strong (gh s) = true -> strong_in s) /\ (ps s <> PDepth0 -> g_feat_seen (gh s) = true);
  li_POP : (oh s = OpenSasl \/ oh s = OpenCompress) -> noauth s;
  li_O : oh s = OpenTls -> secured s = true /\ st s = Connected;
  li_R : st s = Connected -> oh s = OpenAuth -> reset_parser s = false;
  li_RP : st s = Connected -> is_raw s = false -> reset_parser s = true -> ps s <> PDepth0;
  li_RAW : is_raw s = true ->
           (oh s = OpenStub \/ oh s = OpenRaw) /\ (forall k, In k (hk s) -> k = HUser) /\
           (forall i, In i (ik s) -> i = IKLegacy) /\ ~ hasTMF s;
  li_STUB : (oh s = OpenStub \/ oh s = OpenRaw) -> is_raw s = true;
  li_COMP : oh s = OpenComponent ->
            (forall k, In k (hk s) -> is_baseh k = true) /\ (forall i, In i (ik s) -> i = IKLegacy) /\ ~ hasTMF s /\
            f_tls_mandatory s = false;   (* connect_component forces DISABLE_TLS, which MANDATORY_TLS excludes *)
  li_Q : forall x, In x (sendq s) -> snd x = false -> is_neg (fst (fst x)) = false;
  li_M : f_tls_mandatory s = true ->
         (hasS s \/ exists x, In x (sendq s) /\ is_cred (fst (fst x)) = true) -> is_secured s = true;
  li_D : f_tls_disabled s = true -> forall x, In x (sendq s) -> fst (fst x) <> WStartTls;
  li_L : forall x, In x (sendq s) -> fst (fst x) = WLegacy -> f_legacy_auth s = true /\ typ s = TClient;
  li_PL : forall x, In x (sendq s) -> fst (fst x) = WAuth MPlain ->
          g_strong (gh s) = false /\ g_feat_seen (gh s) = true /\ ps s <> PDepth0
}.
(* while HFeatures waits: a strong mechanism seen so far is still in the list *)
Definition PL3F (s : state) : Prop := hasF s -> crashed s = false -> g_strong (gh s) = true -> strong_in s.

Record GInv (s : state) : Prop := mkGInv {
  gi_T : tls_support s = false;
  gi_S : forall w, In w (sw s) -> is_neg w = false
}.
(* handler granularity *)
Definition HInv (s : state) : Prop := GInv s /\ (live s -> LInv s).
(* step granularity *)
Definition Inv (s : state) : Prop :=
  HInv s /\ (live s -> PL3F s) /\ (st s = Disconnected -> sm_enabled s = false).

Lemma is_cred_neg w : is_cred w = true -> is_neg w = true.
Proof. destruct w; simpl; congruence. Qed.
Lemma class_cases k : is_baseh k = true \/ k = HFeatures \/ k = HProceedTls \/ is_saslh k = true \/ is_posth k = true.
Proof. destruct k; simpl; auto 6. Qed.

(* past authentication nothing of the authentication phase is left *)
Lemma evP_noauth s : LInv s -> evP s -> noauth s.
Proof.
  intros L E.
  assert (X : (exists k, In k (hk s) /\ is_posth k = true) \/ ~ (forall i, In i (ik s) -> i = IKLegacy)).
  { destruct E as [E|[E|E]]; [left; exact E| |]; right; intro A; specialize (A _ E); discriminate. }
  clear E. repeat split.
  - intro F. destruct (li_XF s L F) as [A [[B _] _]]. destruct X as [[k [K1 K2]]|X]; [|tauto].
    destruct (A k K1) as [Y|Y]; [destruct k; discriminate|subst; discriminate].
  - intro F. destruct (li_XT s L F) as [A [[B _] _]]. destruct X as [[k [K1 K2]]|X]; [|tauto].
    destruct (A k K1) as [Y|Y]; [destruct k; discriminate|subst; discriminate].
  - intros [k0 [F1 F2]]. destruct (li_XS s L k0 F1 F2) as [A [[B _] _]]. destruct X as [[k [K1 K2]]|X]; [|tauto].
    destruct (A k K1) as [Y|Y]; [destruct k; discriminate|subst; destruct k0; discriminate].
  - intro F. apply (li_TMF s L) in F. destruct (li_XF s L F) as [A [[B _] _]]. destruct X as [[k [K1 K2]]|X]; [|tauto].
    destruct (A k K1) as [Y|Y]; [destruct k; discriminate|subst; discriminate].
Qed.

(* evidence of the post-authentication phase contradicts every "early" shape *)
Lemma evP_not_early s :
  evP s -> (forall k, In k (hk s) -> is_baseh k = true \/ k = HFeatures \/ k = HProceedTls \/ is_saslh k = true) ->
  (forall i, In i (ik s) -> i = IKLegacy) -> False.
Proof.
  intros [[k [A B]]|[A|A]] H I.
  - destruct (H k A) as [X|[X|[X|X]]]; try (subst; discriminate); destruct k; discriminate.
  - specialize (I _ A). discriminate.
  - specialize (I _ A). discriminate.
Qed.

Section Transfer.
Variables s s' : state.
Variable JL : Prop.
Variable JH : Prop.   (* the component handshake digest may be queued: only without MANDATORY_TLS *)
Hypothesis Edis : f_tls_disabled s' = f_tls_disabled s.
Hypothesis Emand : f_tls_mandatory s' = f_tls_mandatory s.
Hypothesis Elauth : f_legacy_auth s' = f_legacy_auth s.
Hypothesis Etyp : typ s' = typ s.
Hypothesis Eraw : is_raw s' = is_raw s.
Hypothesis Est : st s' = st s.
Hypothesis Esec : secured s' = secured s.
Hypothesis Etlsp : tls_present s' = tls_present s.
Hypothesis Etlsf : tls_failed s' = tls_failed s.
Hypothesis Esasl : sasl s' = sasl s.
Hypothesis Erp : reset_parser s' = reset_parser s.
Hypothesis Eoh : oh s' = oh s.
Hypothesis Eps : ps s' = ps s.
Hypothesis Egs : g_strong (gh s') = g_strong (gh s).
Hypothesis Egf : g_feat_seen (gh s') = g_feat_seen (gh s).
Hypothesis Hh : forall k, In k (hk s') -> In k (hk s) \/ (is_posth k = true /\ evP s).
Hypothesis Hi : forall i, In i (ik s') -> In i (ik s) \/ i = IKLegacy \/ evP s.
Hypothesis Ht : hasTMF s' -> hasTMF s.
Hypothesis Hs : sm_enabled s' = sm_enabled s \/ evP s.
Hypothesis HJL : JL -> f_legacy_auth s = true /\ typ s = TClient /\ (f_tls_mandatory s = true -> is_secured s = true).
Hypothesis HJH : JH -> f_tls_mandatory s = false.
Hypothesis Hq : exists l, sendq s' = sendq s ++ l /\
  Forall (fun x => benignE x \/ In (fst (fst x)) (sw s) \/ (x = (WLegacy, false, true) /\ JL) \/
                   (x = (WHandshake, false, true) /\ JH)) l.
Hypothesis Hoff : st s <> Connected -> sendq s' = sendq s.
Hypothesis H6 : hasTMF s' -> hasF s -> hasF s'.
Hypothesis L : LInv s.
Hypothesis G : GInv s.

Let NA : evP s -> noauth s := evP_noauth s L.

Lemma tr_early (Q : hkind -> Prop) :
  (forall k, In k (hk s) -> Q k) -> (forall k, Q k -> is_posth k = false) -> (forall i, In i (ik s) -> i = IKLegacy) ->
  (forall k, In k (hk s') -> Q k) /\ (forall i, In i (ik s') -> i = IKLegacy) /\ sm_enabled s' = sm_enabled s.
Proof.
  intros A C B.
  assert (NE : ~ evP s).
  { intros [[k [K1 K2]]|[K|K]].
    - rewrite (C k (A k K1)) in K2. discriminate.
    - specialize (B _ K). discriminate.
    - specialize (B _ K). discriminate. }
  repeat split.
  - intros k Hk. destruct (Hh k Hk) as [X|[_ X]]; [auto|tauto].
  - intros i Hi0. destruct (Hi i Hi0) as [X|[X|X]]; [auto|exact X|tauto].
  - destruct Hs; tauto.
Qed.

Lemma tr_new_entry x : In x (sendq s') -> In x (sendq s) \/ is_neg (fst (fst x)) = false \/ (x = (WLegacy, false, true) /\ JL) \/
  (x = (WHandshake, false, true) /\ JH).
Proof.
  destruct Hq as [l [E A]]. rewrite E, in_app_iff. intros [H|H]; [left; exact H|right].
  rewrite Forall_forall in A. destruct (A x H) as [B|[B|B]]; [left; exact B|left; apply (gi_S s G); exact B|right; exact B].
Qed.

Lemma tr_hasS : hasS s' -> hasS s.
Proof.
  intros [k [A B]]. destruct (Hh k A) as [X|[X _]]; [exists k; auto|destruct k; discriminate].
Qed.
Lemma tr_hasF : hasF s' -> hasF s.
Proof. intro A. destruct (Hh _ A) as [X|[X _]]; [exact X|discriminate]. Qed.
Lemma tr_hasT : hasT s' -> hasT s.
Proof. intro A. destruct (Hh _ A) as [X|[X _]]; [exact X|discriminate]. Qed.
Lemma tr_noauth : noauth s -> noauth s'.
Proof.
  intros [A [B [C D]]]. repeat split; intro X; [apply A, tr_hasF|apply B, tr_hasT|apply C, tr_hasS|apply D, Ht]; exact X.
Qed.

Ltac np := let k := fresh "k" in let H := fresh "H" in
  intros k H; first [destruct H as [H|H]; [destruct k; (discriminate H || reflexivity)|subst; reflexivity]
                    | subst; reflexivity | destruct k; (discriminate H || reflexivity)].

Lemma linv_transfer : LInv s'.
Proof.
  constructor.
  - (* C *) intro Hc. rewrite Est in Hc. destruct (li_C s L Hc) as [[F1 [F2 [F3 [F4 [F5 F6]]]]] [A [B [C1 [C2 C3]]]]].
    destruct (tr_early (fun k => k = HUser) F3 ltac:(np) F4) as [X1 [X2 X3]].
    rewrite Esec, Eoh. repeat split; auto; try congruence.
    rewrite Hoff; [exact B|congruence].
  - (* XF *) intro F. pose proof (tr_hasF F) as F0. destruct (li_XF s L F0) as [A [[B1 B2] [C [D E]]]].
    destruct (tr_early (fun k => is_baseh k = true \/ k = HFeatures) A ltac:(np) B1) as [X1 [X2 X3]].
    rewrite Eoh, Esasl. repeat split; auto; congruence.
  - (* XT *) intro F. pose proof (tr_hasT F) as F0. destruct (li_XT s L F0) as [A [[B1 B2] [C [D [E [E2 E3]]]]]].
    destruct (tr_early (fun k => is_baseh k = true \/ k = HProceedTls) A ltac:(np) B1) as [X1 [X2 X3]].
    unfold strong_in. rewrite Eoh, Esasl, Esec, Egs, Egf. repeat split; auto; try congruence; apply E3; assumption.
  - (* XS *) intros k K1 K2.
    assert (K0 : In k (hk s)) by (destruct (Hh k K1) as [X|[X _]]; [exact X|destruct k; discriminate]).
    destruct (li_XS s L k K0 K2) as [A [[B1 B2] [C [D [E E2]]]]].
    destruct (tr_early (fun k' => is_baseh k' = true \/ k' = k) A) as [X1 [X2 X3]]; [|exact B1|].
    { intros k' [H|H]; [destruct k'; (discriminate H || reflexivity)|subst; destruct k; (discriminate K2 || reflexivity)]. }
    rewrite Eoh, Esasl, Egs, Egf. repeat split; auto; congruence.
  - (* XP *) intros k K1 K2.
    assert (NT : forall k', In k' (hk s) -> is_posth k' = true -> ~ hasTMF s') by
      (intros k' A B C; apply Ht in C; destruct (li_XP s L k' A B) as [_ X]; tauto).
    assert (CL : forall k0, In k0 (hk s) -> is_posth k0 = true ->
                 forall k', In k' (hk s') -> is_baseh k' = true \/ is_posth k' = true).
    { intros k0 A B k' K'. destruct (Hh k' K') as [X|[X _]]; [|auto]. destruct (li_XP s L k0 A B) as [Y _]. auto. }
    destruct (Hh k K1) as [X|[_ E]].
    + split; [eapply CL; eassumption|eapply NT; eassumption].
    + pose proof (NA E) as [N1 [N2 [N3 N4]]]. split.
      * intros k' K'. destruct (Hh k' K') as [X|[X _]]; [|auto].
        destruct (class_cases k') as [Y|[Y|[Y|[Y|Y]]]]; auto; exfalso; subst; try tauto. apply N3. exists k'. auto.
      * intro C. apply N4, Ht, C.
  - (* TMF *) intro F. apply H6; [exact F|]. apply (li_TMF s L), Ht, F.
  - (* POA *) intros A B C. rewrite Est in A. rewrite Eoh in B. rewrite Eps in C.
    destruct (li_POA s L A B C) as [F1 [F2 [F3 [F4 [F5 F6]]]]].
    destruct (tr_early (fun k => k = HUser) F3 ltac:(np) F4) as [X1 [X2 X3]].
    unfold fresh. rewrite Esasl, Egs. repeat split; auto; congruence.
  - (* POT *) intros A B. rewrite Eoh in A. rewrite Erp, Eps in B.
    destruct (li_POT s L A B) as [[Q1 [Q2 [Q3 Q4]]] [P1 P2]].
    destruct (tr_early (fun k => is_baseh k = true) Q1 ltac:(np) Q3) as [X1 [X2 X3]].
    unfold quietS, prepost, strong_in. rewrite Esasl, Egs, Egf, Eps. repeat split; auto; congruence.
  - (* POP *) intro A. rewrite Eoh in A. apply tr_noauth. apply (li_POP s L A).
  - (* O *) intro A. rewrite Eoh in A. rewrite Esec, Est. apply (li_O s L A).
  - (* R *) intros A B. rewrite Est in A. rewrite Eoh in B. rewrite Erp. apply (li_R s L A B).
  - (* RP *) intros A B C. rewrite Est in A. rewrite Eraw in B. rewrite Erp in C. rewrite Eps. apply (li_RP s L A B C).
  - (* RAW *) intro A. rewrite Eraw in A. destruct (li_RAW s L A) as [B [C [D E]]].
    destruct (tr_early (fun k => k = HUser) C ltac:(np) D) as [X1 [X2 X3]].
    rewrite Eoh. repeat split; auto.
  - (* STUB *) intro A. rewrite Eoh in A. rewrite Eraw. apply (li_STUB s L A).
  - (* COMP *) intro A. rewrite Eoh in A. destruct (li_COMP s L A) as [B [C [D M0]]].
    destruct (tr_early (fun k => is_baseh k = true) B ltac:(np) C) as [X1 [X2 X3]]. rewrite Emand. repeat split; auto.
  - (* Q *) intros x A B. destruct (tr_new_entry x A) as [X|[X|[[X _]|[X _]]]]; [apply (li_Q s L x X B)|exact X|subst x; discriminate B|subst x; discriminate B].
  - (* M *) intros A B. rewrite Emand in A. unfold is_secured. rewrite Esec, Etlsf, Etlsp.
    destruct B as [B|[x [B1 B2]]]; [apply (li_M s L A); left; apply tr_hasS; exact B|].
    destruct (tr_new_entry x B1) as [X|[X|[[_ X]|[_ X]]]]; [apply (li_M s L A); right; exists x; auto| | |].
    + apply is_cred_neg in B2. congruence.
    + destruct (HJL X) as [_ [_ Y]]. exact (Y A).
    + rewrite (HJH X) in A. discriminate A.
  - (* D *) intros A x B. rewrite Edis in A. destruct (tr_new_entry x B) as [X|[X|[[X _]|[X _]]]]; [apply (li_D s L A x X)| |subst x; discriminate|subst x; discriminate].
    intro E. rewrite E in X. discriminate.
  - (* L *) intros x A B. rewrite Elauth, Etyp. destruct (tr_new_entry x A) as [X|[X|[[_ X]|[X _]]]]; [apply (li_L s L x X B)| | |].
    + rewrite B in X. discriminate.
    + destruct (HJL X) as [Y1 [Y2 _]]. auto.
    + subst x. discriminate B.
  - (* PL *) intros x A B. rewrite Egs, Egf, Eps. destruct (tr_new_entry x A) as [X|[X|[[X _]|[X _]]]]; [apply (li_PL s L x X B)| |subst x; discriminate B|subst x; discriminate B].
    rewrite B in X. discriminate.
Qed.
End Transfer.

Definition cK : list fld := [Fsme; Fh; Fid; Ft; Fsq; Fsmq; Fcr; FhD; FidD; Fdisc].

(* the generic preservation lemma: a function that only adds benign queue entries, removes handlers or
   timers, and adds post-authentication handlers only when the state is already past authentication *)
Lemma hinv_mono_gen (JL JH : Prop) c p s s' :
  (JL -> f_legacy_auth s = true /\ typ s = TClient /\ (f_tls_mandatory s = true -> is_secured s = true)) ->
  (JH -> f_tls_mandatory s = false) ->
  HInv s -> eff c p s s' -> subl c cK = true ->
  (forall x, pw p x -> benignE x \/ (x = (WLegacy, false, true) /\ JL) \/ (x = (WHandshake, false, true) /\ JH)) ->
  (forall k, pt p k -> k <> TMissingFeatures) ->
  (forall k, ph p k -> is_posth k = true /\ evP s) ->
  (forall i, pid p i -> i = IKLegacy \/ evP s) ->
  (fmem Fsme c = true -> evP s) ->
  (hasTMF s' -> hasF s -> hasF s') ->
  HInv s'.
Proof.
  intros HJL HJH [G Lv] E Sub Pw Pt Ph Pi Ps H6.
  pose proof (subl_ok _ _ Sub) as W.
  destruct E as [U Lf St Sme [l [Q A]] Hh Hi Ht M HK IK C O].
  split.
  - constructor.
    + assert (X : fmem Ftlss (c ++ DISC) = false) by (rewrite fmem_app, (W Ftlss eq_refl); reflexivity).
      pose proof (U Ftlss X) as Y. cbn in Y. rewrite Y. apply (gi_T s G).
    + intros w Hw. apply (gi_S s G). apply M. exact Hw.
  - intro L'. destruct (live_back _ _ St L') as [L0 Est]. specialize (Lv L0). specialize (Lf L').
    assert (F : frame cK s s') by (eapply frame_weaken; [exact W|exact Lf]).
    apply (linv_transfer s s' JL JH (F Fdis eq_refl) (F Fmand eq_refl) (F Flauth eq_refl) (F Ftyp eq_refl) (F Fraw eq_refl)
             (F Fst eq_refl) (F Fsec eq_refl) (F Ftlsp eq_refl) (F Ftlsf eq_refl) (F Fsasl eq_refl) (F Frp eq_refl)
             (F Foh eq_refl) (F Fps eq_refl) (F Fgs eq_refl) (F Fgf eq_refl)); try assumption.
    + intros k Hk. destruct (Hh k Hk) as [X|X]; [left; exact X|right; apply Ph; exact X].
    + intros i Hi0. destruct (Hi i Hi0) as [X|X]; [left; exact X|right; eapply Pi; exact X].
    + intro T. destruct (Ht _ T) as [X|X]; [exact X|]. exfalso. apply (Pt _ X). reflexivity.
    + destruct (fmem Fsme c) eqn:Fs; [right; apply Ps; reflexivity|left]. exact (Lf Fsme Fs).
    + exists l. split; [exact Q|]. eapply Forall_impl; [|exact A]. intros x [X|X]; [|right; left; exact X].
      destruct (Pw x X) as [Y|Y]; [left; exact Y|right; right; exact Y].
Qed.
Lemma hinv_mono c p s s' :
  HInv s -> eff c p s s' -> subl c cK = true ->
  (forall x, pw p x -> benignE x) ->
  (forall k, pt p k -> k <> TMissingFeatures) ->
  (forall k, ph p k -> is_posth k = true /\ evP s) ->
  (forall i, pid p i -> i = IKLegacy \/ evP s) ->
  (fmem Fsme c = true -> evP s) ->
  (hasTMF s' -> hasF s -> hasF s') ->
  HInv s'.
Proof.
  intros H E Sub Pw. apply (hinv_mono_gen False False c p s s'); try assumption; [intros []|intros []|]. intros x X. left. apply Pw. exact X.
Qed.

Lemma In_hk_handlers k s : In k (hk s) <-> exists b, In (k, b) (handlers s).
Proof.
  unfold hk. rewrite in_map_iff. split.
  - intros [[k' b] [E H]]. cbn in E. subst. exists b. exact H.
  - intros [b H]. exists (k, b). split; [reflexivity|exact H].
Qed.
Lemma keep_hk c p s s' k : eff c p s s' -> fmem FhD c = false -> In k (hk s) -> In k (hk s').
Proof.
  intros E F H. apply In_hk_handlers in H as [b H]. apply In_hk_handlers. exists b. exact (ef_hkeep _ _ _ _ E F _ H).
Qed.
Lemma keep_evP c p s s' : eff c p s s' -> fmem FhD c = false -> fmem FidD c = false -> evP s -> evP s'.
Proof.
  intros E F1 F2 [[k [A B]]|[A|A]].
  - left. exists k. split; [eapply keep_hk; eassumption|exact B].
  - right. left. exact (ef_ikeep _ _ _ _ E F2 _ A).
  - right. right. exact (ef_ikeep _ _ _ _ E F2 _ A).
Qed.

(* handler-level judgement: the invariant plus the local context:
   ev: evidence of the post-authentication phase; po: the parser is inside a stream; ld: the code does not
   call conn_disconnect and LocD holds (needed while a chunk is processed); never Connecting while handlers run;
   VD eo: what is known about a strong offer while HFeatures waits (eo = the element being dispatched) *)
Definition strongE (eo : option elem * Prop) (t : state) : Prop :=
  exists e, fst eo = Some e /\ is_feat e = true /\ existsb (is_strong (cert_set t)) (e_mechs e) = true.
Definition VD (eo : option elem * Prop) (t : state) : Prop :=
  live t -> hasF t ->
  (forall e, fst eo = Some e -> is_feat e = true -> g_feat_seen (gh t) = true) /\
  (crashed t = false -> g_strong (gh t) = true -> strong_in t \/ strongE eo t).
Definition LocD (t : state) : Prop :=
  st t = Disconnected ->
  sm_enabled t = false /\ (forall k, In k (hk t) -> is_baseh k = true) /\ (forall i, In i (ik t) -> i = IKLegacy).
(* while a stanza is dispatched, a registered HFeatures is enabled (it was there when the dispatch began) *)
Definition ENF (t : state) : Prop := hasF t -> In (HFeatures, true) (handlers t).
Definition Ctx (ev po ld : bool) (eo : option elem * Prop) (t : state) : Prop :=
  (ev = true -> evP t) /\ (po = true -> ps t = POpen) /\ st t <> Connecting /\ VD eo t /\ (ld = true -> LocD t /\ ENF t) /\
  (hasF t -> snd eo).
Definition JT (ev po ld : bool) (eo : option elem * Prop) (t : state) : Prop := HInv t /\ Ctx ev po ld eo t.

Lemma base_not_evP t : (forall k, In k (hk t) -> is_baseh k = true) -> (forall i, In i (ik t) -> i = IKLegacy) -> ~ evP t.
Proof.
  intros A B [[k [K1 K2]]|[K|K]].
  - specialize (A k K1). destruct k; discriminate.
  - specialize (B _ K). discriminate.
  - specialize (B _ K). discriminate.
Qed.

Lemma ctx_step ev po ld eo c p t t' :
  eff c p t t' -> subl c cK = true -> fmem FhD c = false -> fmem FidD c = false ->
  (forall k, ph p k -> is_posth k = true /\ ev = true) -> (forall i, pid p i -> i = IKLegacy \/ ev = true) ->
  (fmem Fsme c = true -> ev = true) -> (ld = true -> fmem Fdisc c = false) ->
  Ctx ev po ld eo t -> Ctx ev po ld eo t'.
Proof.
  intros E Sub F1 F2 Ph Pi Ps Pl [A [B [C [D [LD HF]]]]]. pose proof (subl_ok _ _ Sub) as W.
  split; [|split; [|split; [|split; [|split]]]].
  - intro X. eapply keep_evP; eauto.
  - intro X. assert (Y : fmem Fps (c ++ DISC) = false) by (rewrite fmem_app, (W Fps eq_refl); reflexivity).
    pose proof (ef_U _ _ _ _ E Fps Y) as Z. cbn in Z. rewrite Z. auto.
  - destruct (ef_st _ _ _ _ E) as [X|X]; rewrite X; [exact C|discriminate].
  - intros L' F'. destruct (live_back _ _ (ef_st _ _ _ _ E) L') as [L0 _].
    assert (F0 : hasF t).
    { destruct (ef_h _ _ _ _ E _ F') as [X|X]; [exact X|]. destruct (Ph _ X) as [Y _]. discriminate. }
    destruct (D L0 F0) as [D1 D2]. pose proof (ef_L _ _ _ _ E L') as Fr.
    pose proof (Fr Fgf (W Fgf eq_refl)) as Egf. pose proof (Fr Fgs (W Fgs eq_refl)) as Egs.
    pose proof (Fr Fsasl (W Fsasl eq_refl)) as Esasl. pose proof (Fr Fcert (W Fcert eq_refl)) as Ecert. cbn in *.
    split.
    + intros e X Y. rewrite Egf. eauto.
    + intros X Y. rewrite Egs in Y.
      assert (Z : crashed t = false) by (destruct (crashed t) eqn:Q; [rewrite (ef_cr _ _ _ _ E Q) in X; discriminate|reflexivity]).
      unfold strong_in, strongE. rewrite Esasl, Ecert. exact (D2 Z Y).
  - intros X. destruct (LD X) as [LD1 LD2]. split.
    + intros S'. specialize (Pl X). pose proof (ef_nd _ _ _ _ E Pl) as Est. rewrite Est in S'.
      destruct (LD1 S') as [L1 [L2 L3]]. pose proof (base_not_evP t L2 L3) as NE.
      assert (NEv : ev = true -> False) by (intro Y; apply NE; auto).
      split; [|split].
      * destruct (fmem Fsme c) eqn:Q; [exfalso; auto|]. destruct (ef_sme _ _ _ _ E Q) as [Y|Y]; congruence.
      * intros k K. destruct (ef_h _ _ _ _ E _ K) as [Y|Y]; [auto|]. destruct (Ph _ Y) as [_ Z]. exfalso; auto.
      * intros i K. destruct (ef_i _ _ _ _ E _ K) as [Y|Y]; [auto|]. destruct (Pi _ Y) as [Z|Z]; [exact Z|exfalso; auto].
    + intro F'. apply (ef_hkeep _ _ _ _ E F1). apply LD2.
      destruct (ef_h _ _ _ _ E _ F') as [Y|Y]; [exact Y|]. destruct (Ph _ Y) as [Z _]. discriminate.
  - intro F'. apply HF. destruct (ef_h _ _ _ _ E _ F') as [X|X]; [exact X|]. destruct (Ph _ X) as [Y _]. discriminate.
Qed.

Lemma jt_step ev po ld eo c p t t' :
  JT ev po ld eo t -> eff c p t t' -> subl c cK = true -> fmem FhD c = false -> fmem FidD c = false ->
  (forall x, pw p x -> benignE x) -> (forall k, pt p k -> k <> TMissingFeatures) ->
  (forall k, ph p k -> is_posth k = true /\ ev = true) -> (forall i, pid p i -> i = IKLegacy \/ ev = true) ->
  (fmem Fsme c = true -> ev = true) -> (ld = true -> fmem Fdisc c = false) ->
  JT ev po ld eo t'.
Proof.
  intros [H C] E Sub F1 F2 Pw Pt Ph Pi Ps Pl. split.
  - destruct C as [C1 _]. eapply hinv_mono; try eassumption.
    + intros k X. destruct (Ph k X). auto.
    + intros i X. destruct (Pi i X); auto.
    + intro X. auto.
    + intros _ X. eapply keep_hk; eassumption.
  - eapply ctx_step; eassumption.
Qed.

(* the component handshake digest counts as authentication data: it may be queued because MANDATORY_TLS is off *)
Lemma jt_send_handshake ev po ld eo t :
  JT ev po ld eo t -> f_tls_mandatory t = false -> JT ev po ld eo (send_gated WHandshake false true t).
Proof.
  intros [H C] M. split.
  - eapply (hinv_mono_gen False True _ _ t (send_gated WHandshake false true t));
      [intros []|intros _; exact M|exact H|apply send_gated_eff|reflexivity|..]; cbn.
    + intros x [X|X]; [right; right; split; [exact X|exact I]|left; subst x; reflexivity].
    + intros k [].
    + intros k [].
    + intros i [].
    + intro X. discriminate X.
    + intros _ X. eapply keep_hk; [apply send_gated_eff|reflexivity|exact X].
  - eapply ctx_step; [apply send_gated_eff|reflexivity|reflexivity|reflexivity|..|exact C]; cbn;
      try (intros ? []); try (intro X; discriminate X); try (intros _; reflexivity).
Qed.

(* removing a handler / id handler / timer at the end of a visit *)
Lemma hinv_del c p t t' :
  HInv t -> eff c p t t' -> subl c cK = true -> fmem Fsme c = false ->
  (forall k, ~ ph p k) -> (forall i, ~ pid p i) -> (forall k, ~ pt p k) -> (forall x, ~ pw p x) ->
  (hasTMF t' -> hasF t -> hasF t') -> HInv t'.
Proof.
  intros H E Sub Fs Ph Pi Pt Pw H6. eapply hinv_mono; try eassumption.
  - intros x X. destruct (Pw x X).
  - intros k X. destruct (Pt k X).
  - intros k X. destruct (Ph k X).
  - intros i X. destruct (Pi i X).
  - intro X. rewrite Fs in X. discriminate.
Qed.

(* conn_prepare_reset: only oh and reset_parser change; the clauses that read them are obligations *)
Lemma linv_set_oh h b t :
  LInv t ->
  (st t = Connecting -> h <> OpenTls /\ h <> OpenSasl /\ h <> OpenCompress) ->
  (hasF t -> (h = OpenAuth \/ h = OpenTls) /\ (hasTMF t -> h = OpenAuth)) ->
  (hasT t -> h = OpenAuth) ->
  (hasS t -> h = OpenAuth \/ h = OpenTls) ->
  (st t = Connected -> h = OpenAuth -> ps t = PDepth0 -> fresh t) ->
  (h = OpenTls -> (b = true \/ ps t = PDepth0) ->
     quietS t /\ (g_strong (gh t) = true -> strong_in t) /\ (ps t <> PDepth0 -> g_feat_seen (gh t) = true)) ->
  (h = OpenSasl \/ h = OpenCompress -> noauth t) ->
  (h = OpenTls -> secured t = true /\ st t = Connected) ->
  (st t = Connected -> h = OpenAuth -> b = false) ->
  (st t = Connected -> is_raw t = false -> b = true -> ps t <> PDepth0) ->
  (is_raw t = true -> h = OpenStub \/ h = OpenRaw) ->
  (h = OpenStub \/ h = OpenRaw -> is_raw t = true) ->
  (h = OpenComponent -> (forall k, In k (hk t) -> is_baseh k = true) /\ (forall i, In i (ik t) -> i = IKLegacy) /\ ~ hasTMF t /\
                        f_tls_mandatory t = false) ->
  LInv (set_oh h (set_reset_parser b t)).
Proof.
  intros L OC OXF OXT OXS OPOA OPOT OPOP OO OR ORP ORAW OSTUB OCOMP. constructor.
  - intro A. destruct (li_C t L A) as [F [X [Y _]]]. split; [exact F|split; [exact X|split; [exact Y|exact (OC A)]]].
  - intro A. destruct (li_XF t L A) as [X [Y [_ [_ Z]]]]. destruct (OXF A) as [O1 O2]. split; [exact X|split; [exact Y|split; [exact O1|split; [exact O2|exact Z]]]].
  - intro A. destruct (li_XT t L A) as [X [Y [Z [V [_ W]]]]]. split; [exact X|split; [exact Y|split; [exact Z|split; [exact V|split; [exact (OXT A)|exact W]]]]].
  - intros k A B. destruct (li_XS t L k A B) as [X [Y [Z [_ W]]]].
    split; [exact X|split; [exact Y|split; [exact Z|split; [|exact W]]]]. apply OXS. exists k. auto.
  - exact (li_XP t L).
  - exact (li_TMF t L).
  - exact OPOA.
  - exact OPOT.
  - exact OPOP.
  - exact OO.
  - exact OR.
  - exact ORP.
  - intro A. destruct (li_RAW t L A) as [_ X]. split; [exact (ORAW A)|exact X].
  - exact OSTUB.
  - exact OCOMP.
  - exact (li_Q t L).
  - exact (li_M t L).
  - exact (li_D t L).
  - exact (li_L t L).
  - exact (li_PL t L).
Qed.

(* ------------------------------------------------------------------ symbolic execution for JT *)
Ltac destr_hyps :=
  repeat match goal with
         | H : _ \/ _ |- _ => destruct H
         | H : exists _, _ |- _ => destruct H
         | H : _ /\ _ |- _ => destruct H
         end.
Ltac pw_tac :=
  cbn; let x := fresh "x" in let H := fresh "H" in intros x H; unfold benignE in *;
  first [ exact H | contradiction
        | destr_hyps; subst; cbn;
          first [reflexivity | match goal with H' : fst (fst _) = _ |- _ => rewrite H' end; reflexivity] ].
Ltac pt_tac := cbn; let k := fresh "k" in let H := fresh "H" in intros k H; try contradiction; destr_hyps; subst; discriminate.
Ltac ph_tac := cbn; let k := fresh "k" in let H := fresh "H" in intros k H; try contradiction; destr_hyps; subst; split; reflexivity.
Ltac pi_tac := cbn; let k := fresh "k" in let H := fresh "H" in intros k H; try contradiction; first [right; reflexivity | left; destr_hyps; subst; reflexivity].
Ltac ps_tac := let X := fresh "X" in intro X; first [discriminate X | reflexivity].
Ltac ld_tac := let X := fresh "X" in intro X; first [discriminate X | reflexivity].
Ltac jstep L :=
  eapply jt_step; [ | apply L | vm_compute; reflexivity | reflexivity | reflexivity | pw_tac | pt_tac | ph_tac | pi_tac | ps_tac | ld_tac ].
Ltac jsetter t :=
  first [ eapply (jt_step _ _ _ _ [] pnone t); [ | (let tt := fresh "tt" in set (tt := t); clearbody tt; eff_frame) | vm_compute; reflexivity | reflexivity | reflexivity | pw_tac | pt_tac | ph_tac | pi_tac | ps_tac | ld_tac ]
        | eapply (jt_step _ _ _ _ [Fsme] pnone t); [ | (let tt := fresh "tt" in set (tt := t); clearbody tt; eff_frame) | vm_compute; reflexivity | reflexivity | reflexivity | pw_tac | pt_tac | ph_tac | pi_tac | ps_tac | ld_tac ]
        | eapply (jt_step _ _ _ _ [Fcr] pnone t); [ | (let tt := fresh "tt" in set (tt := t); clearbody tt; eff_frame) | vm_compute; reflexivity | reflexivity | reflexivity | pw_tac | pt_tac | ph_tac | pi_tac | ps_tac | ld_tac ] ].

Ltac peel_extra := fail.
Ltac peelJ :=
  match goal with
  | H : JT ?a ?b ?c ?d ?t |- JT ?a ?b ?c ?d ?t => exact H
  | |- JT _ _ _ _ (if _ then _ else _) => break_if
  | |- JT _ _ _ _ (match _ with _ => _ end) => break_match
  | |- JT _ _ _ _ (send_gated _ _ _ _) => jstep send_gated_eff
  | |- JT _ _ _ _ (send_raw_m _ _ _ _) => jstep send_raw_m_eff
  | |- JT _ _ _ _ (xmpp_disconnect _ _) => jstep xmpp_disconnect_eff
  | |- JT _ _ _ _ (conn_open_stream _) => jstep conn_open_stream_eff
  | |- JT _ _ _ _ (timed_add _ _ _) => jstep timed_add_eff
  | |- JT _ _ _ _ (timed_del _ _) => jstep (timed_del_eff pnone)
  | |- JT _ _ _ _ (timed_reset_all _ _) => jstep (timed_reset_all_eff pnone)
  | |- JT _ _ _ _ (timed_set_stamp _ _ _) => jstep (timed_set_stamp_eff pnone)
  | |- JT _ _ _ _ (h_add _ _) => jstep h_add_eff
  | |- JT _ _ _ _ (id_add _ _) => jstep id_add_eff
  | |- JT _ _ _ _ (sm_queue_resend _) => jstep sm_queue_resend_eff
  | |- JT _ _ _ _ (sm_queue_cleanup _ _) => jstep (sm_queue_cleanup_eff pnone)
  | |- JT _ _ _ _ (sm_enable _) => jstep sm_enable_eff
  | |- JT _ _ _ _ (session_start _ _) => jstep session_start_eff
  | |- JT _ _ _ _ (upg _ _) => unfold upg
  | |- JT _ _ _ _ (prepare_reset _ _) => peel_extra
  | |- JT _ _ _ _ (fst (conn_disconnect _)) => jstep (conn_disconnect_eff pnone)
  | |- JT _ _ _ _ (fst (stream_negotiation_success _)) => jstep (stream_negotiation_success_eff pnone)
  | |- JT _ _ _ _ (fst (do_bind _ _ _)) => jstep do_bind_eff
  | |- JT _ _ _ _ (?f ?v ?t) => jsetter t
  end.

(* results *)
Definition JR (ev po ld : bool) (eo : option elem * Prop) (r : R) : Prop := JT ev po ld eo (fst r).
Definition J3 (ev po ld : bool) (eo : option elem * Prop) (r : state * emit * bool) : Prop := JT ev po ld eo (fst (fst r)).
Lemma J3_let_st ev po ld eo v (B : state -> state * emit * bool) :
  JT ev po ld eo v -> (forall x, JT ev po ld eo x -> J3 ev po ld eo (B x)) -> J3 ev po ld eo (let x := v in B x).
Proof. intros A F. apply F. exact A. Qed.
Lemma JR_let_st ev po ld eo v (B : state -> R) :
  JT ev po ld eo v -> (forall x, JT ev po ld eo x -> JR ev po ld eo (B x)) -> JR ev po ld eo (let x := v in B x).
Proof. intros A F. apply F. exact A. Qed.
Lemma J3_bind ev po ld eo (r : R) (B : state -> emit -> state * emit * bool) :
  JR ev po ld eo r -> (forall x o, JT ev po ld eo x -> J3 ev po ld eo (B x o)) -> J3 ev po ld eo (let '(x, o) := r in B x o).
Proof. destruct r as [x o]. intros A F. apply F. exact A. Qed.
Lemma JR_bind ev po ld eo (r : R) (B : state -> emit -> R) :
  JR ev po ld eo r -> (forall x o, JT ev po ld eo x -> JR ev po ld eo (B x o)) -> JR ev po ld eo (let '(x, o) := r in B x o).
Proof. destruct r as [x o]. intros A F. apply F. exact A. Qed.

Ltac symJR :=
  lazymatch goal with
  | |- JR ?a ?b ?c ?d (let x := ?v in @?B x) =>
      let ty := type of v in
      lazymatch ty with
      | state => apply (JR_let_st a b c d v B); [repeat peelJ|intros ? ?; cbv beta]
      | _ => change (JR a b c d (B v)); cbv beta
      end
  | |- JR _ _ _ _ (ret _) => unfold JR, ret; cbn [fst]; repeat peelJ
  | |- JR _ _ _ _ (if ?c then _ else _) => destruct c eqn:?
  | |- JR ?a ?b ?c ?d (let '(x, o) := ?r in @?B x o) => apply (JR_bind a b c d r B); [|intros ? ? ?]
  | |- JR _ _ _ _ (match ?x with _ => _ end) => destruct x eqn:?
  | |- JR _ _ _ _ (_, _) => unfold JR; cbn [fst]; repeat peelJ
  | |- JR _ _ _ _ _ => unfold JR; repeat peelJ
  end.
Ltac symJ3 :=
  lazymatch goal with
  | |- J3 ?a ?b ?c ?d (let x := ?v in @?B x) =>
      let ty := type of v in
      lazymatch ty with
      | state => apply (J3_let_st a b c d v B); [repeat peelJ|intros ? ?; cbv beta]
      | _ => change (J3 a b c d (B v)); cbv beta
      end
  | |- J3 _ _ _ _ (if ?c then _ else _) => destruct c eqn:?
  | |- J3 ?a ?b ?c ?d (let '(x, o) := ?r in @?B x o) => apply (J3_bind a b c d r B); [repeat symJR|intros ? ? ?]
  | |- J3 _ _ _ _ (match ?x with _ => _ end) => destruct x eqn:?
  | |- J3 _ _ _ _ (_, _, _) => unfold J3; cbn [fst]; repeat peelJ
  end.

Lemma jt_prepare_post ld eo h t :
  h = OpenSasl \/ h = OpenCompress -> JT true true ld eo t -> JT true true ld eo (prepare_reset h t).
Proof.
  intros Hh [[G Lv] C]. split; [|exact C]. split; [destruct G as [G1 G2]; constructor; [exact G1|exact G2]|]. intro L'. specialize (Lv L').
  destruct C as [Ev [Po [Nc _]]]. specialize (Ev eq_refl). specialize (Po eq_refl).
  pose proof (evP_noauth t Lv Ev) as [N1 [N2 [N3 N4]]].
  assert (NR : is_raw t = false).
  { destruct (is_raw t) eqn:R; [|reflexivity]. destruct (li_RAW t Lv R) as [_ [A [B _]]].
    exfalso. apply (base_not_evP t); auto. intros k K. rewrite (A k K). reflexivity. }
  unfold prepare_reset. destruct Hh; subst h.
  all: apply linv_set_oh; [exact Lv|..].
  all: try (intro X; contradiction).
  all: try tauto.
  all: try (intros _ X; discriminate X).
  all: try (intro X; discriminate X).
  all: try (intros _; repeat split; assumption).
  all: try (intros _ _ _; rewrite Po; discriminate).
  all: try (intro X; rewrite NR in X; discriminate X).
  all: intros [X|X]; discriminate X.
Qed.

Ltac peel_extra ::=
  match goal with
  | |- JT true true _ _ (prepare_reset OpenSasl _) => apply jt_prepare_post; [left; reflexivity|]
  | |- JT true true _ _ (prepare_reset OpenCompress _) => apply jt_prepare_post; [right; reflexivity|]
  end.

(* the handlers of the post-authentication phase (evidence: the handler itself is registered), the base handlers
   and the id handlers: everything they do is covered by the generic step lemma *)
Lemma call_post_J k now e eo s : is_posth k = true -> JT true true true eo s -> J3 true true true eo (call_handler k now e s).
Proof.
  intros K H. destruct k; try discriminate K; cbv beta iota delta [call_handler features_sasl]; repeat symJ3.
Qed.

Lemma call_base_J k now e eo s : is_baseh k = true -> JT false true true eo s -> J3 false true true eo (call_handler k now e s).
Proof.
  intros K H. destruct k; try discriminate K; cbv beta iota delta [call_handler]; repeat symJ3.
Qed.
Lemma call_id_J k now e eo s :
  JT (match k with IKLegacy => false | _ => true end) true true eo s ->
  JR (match k with IKLegacy => false | _ => true end) true true eo (call_id_handler k now e s).
Proof. intros H. destruct k; cbv beta iota delta [call_id_handler say]; repeat symJR. Qed.
Lemma sm_handle_J e ev eo s : JT ev true true eo s -> JT ev true true eo (sm_handle e s).
Proof. intro H. unfold sm_handle. repeat peelJ. Qed.
Lemma call_timed_J k now eo s : k <> TMissingFeatures -> JT false false false eo s -> J3 false false false eo (call_timed k now s).
Proof.
  intros K H. destruct k; try congruence; cbv beta iota delta [call_timed]; repeat symJ3.
Qed.

(* ------------------------------------------------------------------ moves inside the authentication phase *)
Definition is_authh (k : hkind) : Prop := k = HFeatures \/ k = HProceedTls \/ is_saslh k = true.
Lemma authh_not_base k : is_authh k -> is_baseh k = false /\ is_posth k = false /\ k <> HUser.
Proof. intros [A|[A|A]]; subst; try (repeat split; (reflexivity || discriminate)). destruct k; try discriminate; repeat split; (reflexivity || discriminate). Qed.

Section Transfer2.
Variables s s' : state.
Variable k0 : hkind.
Hypothesis K0 : In k0 (hk s).
Hypothesis K0a : is_authh k0.
Hypothesis L : LInv s.
Hypothesis Eraw : is_raw s' = is_raw s.
Hypothesis Est : st s' = st s.
Hypothesis Erp : reset_parser s' = reset_parser s.
Hypothesis Eoh : oh s' = oh s.
Hypothesis Eps : ps s' = ps s.
Hypothesis Hhk : forall k, In k (hk s') -> is_baseh k = true \/ is_authh k.
Hypothesis Hpp : prepost s'.
Hypothesis Htm : ~ hasTMF s'.
Hypothesis OXF : hasF s' ->
  (forall k, In k (hk s') -> is_baseh k = true \/ k = HFeatures) /\ prepost s' /\
  (oh s' = OpenAuth \/ oh s' = OpenTls) /\ (hasTMF s' -> oh s' = OpenAuth) /\ (hasTMF s' -> sasl s' = []).
Hypothesis OXT : hasT s' ->
  (forall k, In k (hk s') -> is_baseh k = true \/ k = HProceedTls) /\ prepost s' /\ ~ hasTMF s' /\
  secured s' = false /\ oh s' = OpenAuth /\ g_feat_seen (gh s') = true /\
  (g_strong (gh s') = true -> strong_in s' /\ mem_mech MPlain (sasl s') = false).
Hypothesis OXS : forall k, In k (hk s') -> is_saslh k = true ->
  (forall k', In k' (hk s') -> is_baseh k' = true \/ k' = k) /\ prepost s' /\ ~ hasTMF s' /\
  (oh s' = OpenAuth \/ oh s' = OpenTls) /\ g_feat_seen (gh s') = true /\
  (g_strong (gh s') = true -> mem_mech MPlain (sasl s') = false).
Hypothesis OQ : forall x, In x (sendq s') -> snd x = false -> is_neg (fst (fst x)) = false.
Hypothesis OM : f_tls_mandatory s' = true ->
  (hasS s' \/ exists x, In x (sendq s') /\ is_cred (fst (fst x)) = true) -> is_secured s' = true.
Hypothesis OD : f_tls_disabled s' = true -> forall x, In x (sendq s') -> fst (fst x) <> WStartTls.
Hypothesis OL : forall x, In x (sendq s') -> fst (fst x) = WLegacy -> f_legacy_auth s' = true /\ typ s' = TClient.
Hypothesis OPL : forall x, In x (sendq s') -> fst (fst x) = WAuth MPlain ->
  g_strong (gh s') = false /\ g_feat_seen (gh s') = true /\ ps s' <> PDepth0.
Hypothesis OO : oh s' = OpenTls -> secured s' = true.

Let NB := authh_not_base k0 K0a.

Lemma t2_not_onlyuser : ~ (forall k, In k (hk s) -> k = HUser).
Proof. intro A. destruct NB as [_ [_ X]]. apply X. auto. Qed.
Lemma t2_not_base : ~ (forall k, In k (hk s) -> is_baseh k = true).
Proof. intro A. destruct NB as [X _]. rewrite (A k0 K0) in X. discriminate. Qed.
Lemma t2_not_noauth : ~ noauth s.
Proof.
  intros [A [B [C D]]]. destruct K0a as [X|[X|X]]; subst; [apply A|apply B|apply C; exists k0]; auto.
Qed.

Lemma linv_transfer2 : LInv s'.
Proof.
  constructor.
  - intro A. rewrite Est in A. destruct (li_C s L A) as [[_ [_ [X _]]] _]. destruct (t2_not_onlyuser X).
  - exact OXF.
  - exact OXT.
  - exact OXS.
  - intros k A B. destruct (Hhk k A) as [X|X]; [destruct k; discriminate|].
    destruct (authh_not_base k X) as [_ [Y _]]. congruence.
  - intro A. tauto.
  - intros A B C. rewrite Est in A. rewrite Eoh in B. rewrite Eps in C.
    destruct (li_POA s L A B C) as [_ [_ [X _]]]. destruct (t2_not_onlyuser X).
  - intros A B. rewrite Eoh in A. rewrite Erp, Eps in B. destruct (li_POT s L A B) as [[X _] _]. destruct (t2_not_base X).
  - intro A. rewrite Eoh in A. destruct (t2_not_noauth (li_POP s L A)).
  - intro A. split; [exact (OO A)|]. rewrite Eoh in A. rewrite Est. apply (li_O s L A).
  - intros A B. rewrite Est in A. rewrite Eoh in B. rewrite Erp. apply (li_R s L A B).
  - intros A B C. rewrite Est in A. rewrite Eraw in B. rewrite Erp in C. rewrite Eps. apply (li_RP s L A B C).
  - intro A. rewrite Eraw in A. destruct (li_RAW s L A) as [_ [X _]]. destruct (t2_not_onlyuser X).
  - intro A. rewrite Eoh in A. rewrite Eraw. apply (li_STUB s L A).
  - intro A. rewrite Eoh in A. destruct (li_COMP s L A) as [X _]. destruct (t2_not_base X).
  - exact OQ.
  - exact OM.
  - exact OD.
  - exact OL.
  - exact OPL.
Qed.
End Transfer2.

(* ------------------------------------------------------------------ mechanism lists *)
Lemma mem_mech_In m l : mem_mech m l = true <-> In m l.
Proof.
  unfold mem_mech. rewrite existsb_exists. split.
  - intros [x [A B]]. apply mech_eqb_eq in B. subst. exact A.
  - intro A. exists m. split; [exact A|apply mech_eqb_refl].
Qed.
Lemma In_del_mech a m l : In a (del_mech m l) <-> In a l /\ a <> m.
Proof.
  unfold del_mech. rewrite filter_In. split; intros [A B]; split; try exact A.
  - intro E. subst. rewrite mech_eqb_refl in B. discriminate.
  - destruct (mech_eqb m a) eqn:E; [|reflexivity]. apply mech_eqb_eq in E. congruence.
Qed.
Lemma mem_del_false a m l : mem_mech a l = false -> mem_mech a (del_mech m l) = false.
Proof.
  intro H. destruct (mem_mech a (del_mech m l)) eqn:E; [|reflexivity].
  apply mem_mech_In in E. apply In_del_mech in E as [E _]. apply mem_mech_In in E. congruence.
Qed.
Lemma In_add_mech a m l : In a (add_mech m l) <-> In a l \/ (a = m).
Proof.
  unfold add_mech. destruct (mem_mech m l) eqn:E.
  - split; [auto|]. intros [A|A]; [exact A|]. subst. apply mem_mech_In. exact E.
  - rewrite in_app_iff. simpl. intuition.
Qed.
Lemma In_fold_add a offered : forall l, In a (fold_left (fun l m => add_mech m l) offered l) <-> In a l \/ In a offered.
Proof.
  induction offered as [|m r IH]; intro l; simpl; [tauto|]. rewrite IH, In_add_mech. intuition.
Qed.
Lemma existsb_In {A} (P : A -> bool) l : existsb P l = true <-> exists x, In x l /\ P x = true.
Proof. apply existsb_exists. Qed.

(* what _handle_features makes of the mechanism list *)
Definition sasl_after (cert : bool) (offered0 : list mech) (l : list mech) : list mech :=
  let offered := filter (fun m => match m with MExternal => cert | _ => true end) offered0 in
  let l2 := fold_left (fun l m => add_mech m l) offered l in
  if existsb (fun m => negb (is_plain_or_anon m)) l2 then del_mech MPlain l2 else l2.
Lemma sasl_after_strong cert offered0 l :
  (existsb (fun m => negb (is_plain_or_anon m)) l = true \/ existsb (is_strong cert) offered0 = true) ->
  existsb (fun m => negb (is_plain_or_anon m)) (sasl_after cert offered0 l) = true /\
  mem_mech MPlain (sasl_after cert offered0 l) = false.
Proof.
  intro H. unfold sasl_after. cbv zeta.
  set (offered := filter _ offered0). set (l2 := fold_left _ offered l).
  assert (S2 : existsb (fun m => negb (is_plain_or_anon m)) l2 = true).
  { apply existsb_In. destruct H as [H|H]; apply existsb_In in H as [x [A B]].
    - exists x. split; [|exact B]. apply In_fold_add. left. exact A.
    - exists x. split.
      + apply In_fold_add. right. unfold offered. apply filter_In. split; [exact A|].
        destruct x; try reflexivity. exact B.
      + destruct x; try reflexivity; discriminate B. }
  rewrite S2. split.
  - apply existsb_In. apply existsb_In in S2 as [x [A B]]. exists x. split; [|exact B].
    apply In_del_mech. split; [exact A|]. intro E. subst. discriminate B.
  - destruct (mem_mech MPlain (del_mech MPlain l2)) eqn:E; [|reflexivity].
    apply mem_mech_In, In_del_mech in E. destruct E as [_ E]. congruence.
Qed.
Lemma sasl_after_nil cert : sasl_after cert [] [] = [].
Proof. reflexivity. Qed.

(* ------------------------------------------------------------------ _auth called from a handler of the authentication phase *)
Record APre (k : hkind) (s : state) : Prop := mkAPre {
  ap_in : In k (hk s);
  ap_k : k = HFeatures \/ is_saslh k = true;
  ap_hk : forall k', In k' (hk s) -> is_baseh k' = true \/ k' = k;
  ap_pp : prepost s;
  ap_tm : ~ hasTMF s;
  ap_oh : oh s = OpenAuth \/ oh s = OpenTls;
  ap_gf : g_feat_seen (gh s) = true;
  ap_pl : g_strong (gh s) = true -> mem_mech MPlain (sasl s) = false;
  ap_ps : ps s = POpen;
  ap_st : st s <> Connecting
}.
Lemma apre_authh k s : APre k s -> is_authh k.
Proof. intros A. destruct (ap_k k s A) as [X|X]; [left; exact X|right; right; exact X]. Qed.

Record APre0 (k : hkind) (s : state) : Prop := mkAPre0 {
  a0_in : In k (hk s);
  a0_k : is_authh k;
  a0_hk : forall k', In k' (hk s) -> is_baseh k' = true \/ k' = k;
  a0_pp : prepost s;
  a0_tm : ~ hasTMF s;
  a0_ps : ps s = POpen;
  a0_st : st s <> Connecting
}.
Lemma apre0 k s : APre k s -> APre0 k s.
Proof. intro A. constructor; try apply A. apply (apre_authh k s A). Qed.

(* what the visit leaves behind: the invariant, and the local context for the rest of the dispatch *)
Definition VPost (eo : option elem * Prop) (t : state) : Prop := HInv t /\ Ctx false true true eo t.

Lemma In_app_sendq s t l x : sendq t = sendq s ++ l -> In x (sendq t) -> In x (sendq s) \/ In x l.
Proof. intros E H. rewrite E in H. apply in_app_iff in H. exact H. Qed.

Lemma is_secured_frame s t : secured t = secured s -> tls_failed t = tls_failed s -> tls_present t = tls_present s ->
  is_secured t = is_secured s.
Proof. unfold is_secured. intros -> -> ->. reflexivity. Qed.

(* a credential is queued and the SASL handler kh is (or stays) the one registered *)
Lemma auth_move eo k s t c p w kh :
  GInv s -> live s -> LInv s -> APre k s ->
  eff c p s t -> subl c [Fsasl; Fsq; Fh; FhD] = true ->
  (forall x, pw p x -> x = (w, false, negb (sm_enabled s)) \/ x = (WReq, false, true)) ->
  (forall i, ~ pid p i) -> (forall k0, ~ pt p k0) ->
  (forall k', In k' (hk t) -> is_baseh k' = true \/ k' = kh) -> is_saslh kh = true ->
  (forall a, mem_mech a (sasl s) = false -> mem_mech a (sasl t) = false) ->
  (w = WAuth MPlain -> g_strong (gh s) = false) ->
  (f_tls_mandatory s = true -> is_secured s = true) ->
  w <> WStartTls -> w <> WLegacy ->
  VPost eo t.
Proof.
  intros G Lv L A E Sub Pw Pi Pt HK Kh Hsasl Hpl SEC Wn1 Wn2.
  pose proof (subl_ok _ _ Sub) as W.
  assert (Est : st t = st s) by (apply (ef_nd _ _ _ _ E); apply W; reflexivity).
  assert (Lt : live t) by (unfold live; rewrite Est; exact Lv).
  assert (F : frame [Fsasl; Fsq; Fh; FhD] s t) by (eapply frame_weaken; [exact W|exact (ef_L _ _ _ _ E Lt)]).
  destruct (ap_pp k s A) as [PP1 PP2].
  assert (NF : ~ hasF t).
  { intro X. destruct (HK _ X) as [Y|Y]; [discriminate|]. subst kh. discriminate. }
  assert (NT : ~ hasT t).
  { intro X. destruct (HK _ X) as [Y|Y]; [discriminate|]. subst kh. discriminate. }
  assert (PPt : prepost t).
  { split; [|rewrite (F Fsme eq_refl); exact PP2]. intros i H.
    destruct (ef_i _ _ _ _ E _ H) as [X|X]; [auto|destruct (Pi _ X)]. }
  assert (TMt : ~ hasTMF t).
  { intro X. destruct (ef_t _ _ _ _ E _ X) as [Y|Y]; [apply (ap_tm k s A Y)|destruct (Pt _ Y)]. }
  destruct (ef_sq _ _ _ _ E) as [l [Q Al]]. rewrite Forall_forall in Al.
  assert (NEW : forall x, In x l -> x = (w, false, true) \/ is_neg (fst (fst x)) = false).
  { intros x H. destruct (Al x H) as [X|X]; [|right; apply (gi_S s G _ X)].
    destruct (Pw x X) as [Y|Y]; [left; rewrite Y, PP2; reflexivity|right; rewrite Y; reflexivity]. }
  assert (Esec : is_secured t = is_secured s) by (apply is_secured_frame; [exact (F Fsec eq_refl)|exact (F Ftlsf eq_refl)|exact (F Ftlsp eq_refl)]).
  split.
  - split.
    + constructor.
      * assert (X : fmem Ftlss (c ++ DISC) = false) by (rewrite fmem_app, W; reflexivity).
        pose proof (ef_U _ _ _ _ E Ftlss X) as Y. unfold eq_on in Y. rewrite Y. apply (gi_T s G).
      * intros w0 H. apply (gi_S s G). apply (ef_smq _ _ _ _ E). exact H.
    + intros _.
      apply (linv_transfer2 s t k (ap_in k s A) (apre_authh k s A) L (F Fraw eq_refl)
               Est (F Frp eq_refl) (F Foh eq_refl) (F Fps eq_refl)); try assumption.
      * intros k' H. destruct (HK k' H) as [X|X]; [left; exact X|right; right; right; subst; exact Kh].
      * intro X. contradiction.
      * intro X. contradiction.
      * intros k2 K2 S2. destruct (HK k2 K2) as [X|X]; [destruct k2; discriminate|]. subst k2.
        split; [exact HK|]. split; [exact PPt|]. split; [exact TMt|].
        rewrite (F Foh eq_refl), (F Fgf eq_refl), (F Fgs eq_refl).
        split; [exact (ap_oh k s A)|]. split; [exact (ap_gf k s A)|].
        intro X. apply Hsasl. apply (ap_pl k s A X).
      * intros x H B. destruct (In_app_sendq s t l x Q H) as [X|X]; [apply (li_Q s L x X B)|].
        destruct (NEW x X) as [Y|Y]; [subst x; discriminate B|exact Y].
      * intros M _. rewrite (F Fmand eq_refl) in M. rewrite Esec. auto.
      * intros D x H. rewrite (F Fdis eq_refl) in D. destruct (In_app_sendq s t l x Q H) as [X|X]; [apply (li_D s L D x X)|].
        destruct (NEW x X) as [Y|Y]; [subst x; exact Wn1|]. intro Z. rewrite Z in Y. discriminate.
      * intros x H B. destruct (In_app_sendq s t l x Q H) as [X|X].
        { rewrite (F Flauth eq_refl), (F Ftyp eq_refl). apply (li_L s L x X B). }
        destruct (NEW x X) as [Y|Y]; [subst x; cbn in B; contradiction|]. rewrite B in Y. discriminate.
      * intros x H B. rewrite (F Fgs eq_refl), (F Fgf eq_refl), (F Fps eq_refl).
        destruct (In_app_sendq s t l x Q H) as [X|X]; [apply (li_PL s L x X B)|].
        destruct (NEW x X) as [Y|Y]; [|rewrite B in Y; discriminate]. subst x. cbn in B.
        split; [exact (Hpl B)|split; [exact (ap_gf k s A)|rewrite (ap_ps k s A); discriminate]].
      * intro X. rewrite (F Foh eq_refl) in X. rewrite (F Fsec eq_refl). apply (li_O s L X).
  - split; [intro X; discriminate X|]. split; [intros _; rewrite (F Fps eq_refl); exact (ap_ps k s A)|].
    split; [rewrite Est; exact (ap_st k s A)|]. split; [intros _ X; contradiction|].
    split; [intros _; split; [intro X; rewrite Est in X; contradiction|intro X; contradiction]|intro X; contradiction].
Qed.

Lemma visit_mech eo k s m kh s' :
  GInv s -> live s -> LInv s -> APre k s ->
  f_tls_mandatory s && negb (is_secured s) = false -> mem_mech m (sasl s) = true -> is_saslh kh = true ->
  (let s1 := set_sasl (del_mech m (sasl s)) (send_gated (WAuth m) false false (h_add kh s)) in
   s' = s1 \/ exists n, s' = set_scram_serial n s1) ->
  VPost eo (h_del k s').
Proof.
  intros G Lv L A Em Hm Kh Hs'. cbv zeta in Hs'.
  set (s1 := set_sasl (del_mech m (sasl s)) (send_gated (WAuth m) false false (h_add kh s))) in *.
  pose proof (mech_step_eff m kh s Kh) as E1. fold s1 in E1.
  assert (Esasl1 : sasl s1 = del_mech m (sasl s)) by reflexivity.
  assert (E2 : eff [Fsasl; Fsq; Fh] (mkP (fun x => x = (WAuth m, false, negb (sm_enabled s)) \/ x = (WReq, false, true))
                 (fun k0 => k0 = kh) (fun _ => False) (fun _ => False)) s s' /\ sasl s' = del_mech m (sasl s)).
  { destruct Hs' as [Hs'|[n Hs']]; subst s'; [split; [exact E1|exact Esasl1]|]. split; [|exact Esasl1].
    eapply (eff_seq _ _ _ _ [] pnone); [exact E1|eff_frame|solve_sub|apply pimp_refl|apply pimp_none]. }
  destruct E2 as [E2 Esasl]. clear Hs' E1 Esasl1. clearbody s1. clear s1.
  assert (E : eff [Fsasl; Fsq; Fh; FhD] (mkP (fun x => x = (WAuth m, false, negb (sm_enabled s)) \/ x = (WReq, false, true))
                 (fun k0 => k0 = kh) (fun _ => False) (fun _ => False)) s (h_del k s')).
  { eapply eff_seq; [exact E2|apply (h_del_eff pnone)|solve_sub|apply pimp_refl|apply pimp_none]. }
  eapply (auth_move eo k s (h_del k s') _ _ (WAuth m) kh); try eassumption; try reflexivity; cbn; try tauto; try discriminate.
  - intros k' H. apply In_hk_h_del in H as [H N].
    destruct (ef_h _ _ _ _ E2 _ H) as [X|X]; [|right; exact X].
    destruct (ap_hk k s A k' X) as [Y|Y]; [left; exact Y|contradiction].
  - intros a X. change (sasl (h_del k s')) with (sasl s'). rewrite Esasl. apply mem_del_false. exact X.
  - intro X. inv X. destruct (g_strong (gh s)) eqn:Gs; [|reflexivity]. rewrite (ap_pl k s A Gs) in Hm. discriminate.
  - intro X. rewrite X in Em. destruct (is_secured s); [reflexivity|discriminate].
Qed.

(* the branches of _auth that register no new SASL handler: legacy authentication, xmpp_disconnect, conn_disconnect *)
Lemma visit_quiet eo k s s' c p :
  GInv s -> live s -> LInv s -> APre0 k s ->
  eff c p s s' -> subl c [Fsq; Fid; Ft; Fcr; Fdisc] = true ->
  (forall x, pw p x -> x = (WLegacy, false, negb (sm_enabled s)) \/ benignE x) ->
  (forall k0, ~ ph p k0) -> (forall i, pid p i -> i = IKLegacy) -> (forall k0, pt p k0 -> k0 <> TMissingFeatures) ->
  ((exists x, pw p x /\ x = (WLegacy, false, negb (sm_enabled s))) ->
     f_legacy_auth s = true /\ typ s = TClient /\ (f_tls_mandatory s = true -> is_secured s = true)) ->
  VPost eo (h_del k s').
Proof.
  intros G Lv L A E2 Sub Pw Ph Pi Pt Leg.
  pose proof (subl_ok _ _ Sub) as W.
  assert (E : eff (c ++ [Fh; FhD]) p s (h_del k s')).
  { eapply eff_trans; [exact E2|apply h_del_eff]. }
  set (t := h_del k s') in *.
  destruct (a0_pp k s A) as [PP1 PP2].
  assert (HK : forall k', In k' (hk t) -> is_baseh k' = true).
  { intros k' H. unfold t in H. apply In_hk_h_del in H as [H N].
    destruct (ef_h _ _ _ _ E2 _ H) as [X|X]; [|destruct (Ph _ X)].
    destruct (a0_hk k s A k' X) as [Y|Y]; [exact Y|contradiction]. }
  assert (IKt : forall i, In i (ik t) -> i = IKLegacy).
  { intros i H. destruct (ef_i _ _ _ _ E _ H) as [X|X]; auto. }
  assert (Wc : forall f, fmem f [Fsq; Fid; Ft; Fcr; Fdisc; Fh; FhD] = false -> fmem f (c ++ [Fh; FhD]) = false).
  { intros f X. rewrite fmem_app. destruct f; cbn in X; try discriminate X; rewrite W by reflexivity; reflexivity. }
  split.
  - split.
    + constructor.
      * assert (X : fmem Ftlss ((c ++ [Fh; FhD]) ++ DISC) = false) by (rewrite fmem_app, (Wc Ftlss eq_refl); reflexivity).
        pose proof (ef_U _ _ _ _ E Ftlss X) as Y. unfold eq_on in Y. rewrite Y. apply (gi_T s G).
      * intros w H. apply (gi_S s G). apply (ef_smq _ _ _ _ E). exact H.
    + intros Lt. pose proof (ef_L _ _ _ _ E Lt) as F0.
      assert (F : frame [Fsq; Fid; Ft; Fcr; Fdisc; Fh; FhD] s t) by (eapply frame_weaken; [exact Wc|exact F0]).
      destruct (live_back _ _ (ef_st _ _ _ _ E) Lt) as [_ Est].
      assert (PPt : prepost t) by (split; [exact IKt|rewrite (F Fsme eq_refl); exact PP2]).
      assert (TMt : ~ hasTMF t).
      { intro X. destruct (ef_t _ _ _ _ E _ X) as [Y|Y]; [apply (a0_tm k s A Y)|]. apply (Pt _ Y). reflexivity. }
      destruct (ef_sq _ _ _ _ E) as [l [Q Al]]. rewrite Forall_forall in Al.
      assert (NEW : forall x, In x l -> (x = (WLegacy, false, true) /\ f_legacy_auth s = true /\ typ s = TClient /\
                                          (f_tls_mandatory s = true -> is_secured s = true)) \/ is_neg (fst (fst x)) = false).
      { intros x H. destruct (Al x H) as [X|X]; [|right; apply (gi_S s G _ X)].
        destruct (Pw x X) as [Y|Y]; [|right; exact Y]. left. split; [rewrite Y, PP2; reflexivity|].
        apply Leg. exists x. auto. }
      assert (Esec : is_secured t = is_secured s) by (apply is_secured_frame; [exact (F Fsec eq_refl)|exact (F Ftlsf eq_refl)|exact (F Ftlsp eq_refl)]).
      assert (NB : forall k', In k' (hk t) -> is_authh k' -> False).
      { intros k' H X. specialize (HK k' H). destruct (authh_not_base k' X) as [Y _]. congruence. }
      apply (linv_transfer2 s t k (a0_in k s A) (a0_k k s A) L (F Fraw eq_refl)
               Est (F Frp eq_refl) (F Foh eq_refl) (F Fps eq_refl)); try assumption.
      * intros k' H. left. auto.
      * intro X. exfalso. apply (NB _ X). left. reflexivity.
      * intro X. exfalso. apply (NB _ X). right. left. reflexivity.
      * intros k2 K2 S2. exfalso. apply (NB _ K2). right. right. exact S2.
      * intros x H B. destruct (In_app_sendq s t l x Q H) as [X|X]; [apply (li_Q s L x X B)|].
        destruct (NEW x X) as [[Y _]|Y]; [subst x; discriminate B|exact Y].
      * intros M [[k2 [K2 S2]]|[x [H B]]].
        { exfalso. apply (NB _ K2). right. right. exact S2. }
        rewrite (F Fmand eq_refl) in M. rewrite Esec.
        destruct (In_app_sendq s t l x Q H) as [X|X]; [apply (li_M s L M); right; exists x; auto|].
        destruct (NEW x X) as [[_ [_ [_ Y]]]|Y]; [auto|]. apply is_cred_neg in B. congruence.
      * intros D x H. rewrite (F Fdis eq_refl) in D. destruct (In_app_sendq s t l x Q H) as [X|X]; [apply (li_D s L D x X)|].
        destruct (NEW x X) as [[Y _]|Y]; [subst x; discriminate|]. intro Z. rewrite Z in Y. discriminate.
      * intros x H B. rewrite (F Flauth eq_refl), (F Ftyp eq_refl). destruct (In_app_sendq s t l x Q H) as [X|X].
        { apply (li_L s L x X B). }
        destruct (NEW x X) as [[_ [Y1 [Y2 _]]]|Y]; [auto|]. rewrite B in Y. discriminate.
      * intros x H B. rewrite (F Fgs eq_refl), (F Fgf eq_refl), (F Fps eq_refl).
        destruct (In_app_sendq s t l x Q H) as [X|X]; [apply (li_PL s L x X B)|].
        destruct (NEW x X) as [[Y _]|Y]; [subst x; discriminate B|rewrite B in Y; discriminate].
      * intro X. rewrite (F Foh eq_refl) in X. rewrite (F Fsec eq_refl). apply (li_O s L X).
  - split; [intro X; discriminate X|].
    assert (Eps : ps t = ps s).
    { assert (X : fmem Fps ((c ++ [Fh; FhD]) ++ DISC) = false) by (rewrite fmem_app, (Wc Fps eq_refl); reflexivity).
      exact (ef_U _ _ _ _ E Fps X). }
    split; [intros _; rewrite Eps; exact (a0_ps k s A)|].
    split; [destruct (ef_st _ _ _ _ E) as [X|X]; rewrite X; [exact (a0_st k s A)|discriminate]|].
    split; [|split].
    + intros _ X. specialize (HK _ X). discriminate.
    + intros _. split; [|intro X; specialize (HK _ X); discriminate].
      intros X. split; [|split; [exact HK|exact IKt]].
      destruct (ef_sme _ _ _ _ E (Wc Fsme eq_refl)) as [Y|Y]; congruence.
    + intro X. specialize (HK _ X). discriminate.
Qed.

Lemma visit_body eo now k s s' o :
  GInv s -> live s -> LInv s -> APre k s -> body_res now s s' o -> VPost eo (h_del k s').
Proof.
  intros G Lv L A B. pose proof (apre0 k s A) as A0. destruct B as [Em|m kh s2 Em Hm Kh s1 Hs|Em Ty La _|Em].
  - eapply visit_quiet; try eassumption; [apply (conn_disconnect_eff pnone)|reflexivity|..]; cbn; try tauto.
    intros [x [[] _]].
  - eapply visit_mech; eassumption.
  - eapply visit_quiet; try eassumption; [apply auth_legacy_eff|reflexivity|..]; cbn; try tauto.
    + intros k0 [X|X]; subst; discriminate.
    + intros _. split; [exact La|split; [exact Ty|]]. intro M. rewrite M in Em. destruct (is_secured s); [reflexivity|discriminate].
  - eapply visit_quiet; try eassumption; [apply xmpp_disconnect_eff|reflexivity|..]; cbn; try tauto.
    + intros x [X|X]; right; unfold benignE; rewrite X; reflexivity.
    + intros k0 X; subst; discriminate.
    + intros [x [[X|X] Y]]; subst x; discriminate.
Qed.

(* ------------------------------------------------------------------ leaving the authentication phase *)
Lemma h_del_comm k h s :
  h_del k (conn_open_stream (prepare_reset h s)) = conn_open_stream (prepare_reset h (h_del k s)).
Proof.
  unfold conn_open_stream, send_gated, is_connected_owner, prepare_reset, h_del.
  destruct s. cbn. repeat break_match; try reflexivity.
  all: unfold q_append; cbn; repeat break_match; try reflexivity; try congruence.
Qed.

(* the TLS fields change (conn_tls_start) *)
Lemma linv_tls_up v u :
  LInv u -> st u <> Connecting -> ~ hasT u ->
  (f_tls_mandatory u = true -> (hasS u \/ exists x, In x (sendq u) /\ is_cred (fst (fst x)) = true) -> tls_failed u = false) ->
  LInv (set_tls_present true (set_secured true (set_tls_verdicts v u))).
Proof.
  intros L Nc NT OM. constructor.
  - intro A. contradiction.
  - exact (li_XF u L).
  - intro A. contradiction.
  - exact (li_XS u L).
  - exact (li_XP u L).
  - exact (li_TMF u L).
  - exact (li_POA u L).
  - exact (li_POT u L).
  - exact (li_POP u L).
  - intro A. split; [reflexivity|]. apply (li_O u L A).
  - exact (li_R u L).
  - exact (li_RP u L).
  - exact (li_RAW u L).
  - exact (li_STUB u L).
  - exact (li_COMP u L).
  - exact (li_Q u L).
  - intros A B. unfold is_secured. cbn. change (tls_failed (set_tls_verdicts v u)) with (tls_failed u).
    rewrite (OM A B). reflexivity.
  - exact (li_D u L).
  - exact (li_L u L).
  - exact (li_PL u L).
Qed.
Lemma linv_tls_down v e u :
  LInv u ->
  (f_tls_mandatory u = true -> (hasS u \/ exists x, In x (sendq u) /\ is_cred (fst (fst x)) = true) -> False) ->
  LInv (set_tls_present false (set_tls_failed true (set_err e (set_tls_verdicts v u)))).
Proof.
  intros L OM. constructor.
  - exact (li_C u L).
  - exact (li_XF u L).
  - exact (li_XT u L).
  - exact (li_XS u L).
  - exact (li_XP u L).
  - exact (li_TMF u L).
  - exact (li_POA u L).
  - exact (li_POT u L).
  - exact (li_POP u L).
  - exact (li_O u L).
  - exact (li_R u L).
  - exact (li_RP u L).
  - exact (li_RAW u L).
  - exact (li_STUB u L).
  - exact (li_COMP u L).
  - exact (li_Q u L).
  - intros A B. destruct (OM A B).
  - exact (li_D u L).
  - exact (li_L u L).
  - exact (li_PL u L).
Qed.

Lemma apre0_not_raw k s : LInv s -> APre0 k s -> is_raw s = false.
Proof.
  intros L A. destruct (is_raw s) eqn:R; [|reflexivity]. destruct (li_RAW s L R) as [_ [X _]].
  destruct (authh_not_base k (a0_k k s A)) as [_ [_ Y]]. exfalso. apply Y. apply X. exact (a0_in k s A).
Qed.
Lemma quiet_after_del k s : APre0 k s -> quietS (h_del k s).
Proof.
  intro A. split; [|split].
  - intros k' H. apply In_hk_h_del in H as [H N]. destruct (a0_hk k s A k' H); [assumption|contradiction].
  - exact (a0_tm k s A).
  - exact (a0_pp k s A).
Qed.

Lemma vpost_prepare_post eo h u :
  (h = OpenSasl \/ h = OpenCompress) -> VPost eo u -> quietS u -> is_raw u = false -> VPost eo (prepare_reset h u).
Proof.
  intros Hh [[G Lv] C] [Q1 [Q2 Q3]] NR. split; [|exact C].
  split; [destruct G as [G1 G2]; constructor; [exact G1|exact G2]|]. intro L'. specialize (Lv L').
  destruct C as [_ [Po [Nc _]]]. specialize (Po eq_refl).
  assert (NA : noauth u).
  { repeat split; try exact Q2; intro X.
    - specialize (Q1 _ X). discriminate.
    - specialize (Q1 _ X). discriminate.
    - destruct X as [k [X Y]]. specialize (Q1 _ X). destruct k; discriminate. }
  destruct NA as [N1 [N2 [N3 N4]]].
  unfold prepare_reset. destruct Hh; subst h.
  all: apply linv_set_oh; [exact Lv|..].
  all: try (intro X; contradiction).
  all: try tauto.
  all: try (intros _ X; discriminate X).
  all: try (intro X; discriminate X).
  all: try (intros _; repeat split; assumption).
  all: try (intros _ _ _; rewrite Po; discriminate).
  all: try (intro X; rewrite NR in X; discriminate X).
  all: intros [X|X]; discriminate X.
Qed.

(* SASL success: the handler goes away and the stream is restarted *)
Lemma visit_leave eo k h s :
  GInv s -> live s -> LInv s -> APre0 k s -> (h = OpenSasl \/ h = OpenCompress) ->
  VPost eo (h_del k (conn_open_stream (prepare_reset h s))).
Proof.
  intros G Lv L A Hh. rewrite h_del_comm.
  assert (V : VPost eo (h_del k s)).
  { eapply (visit_quiet eo k s s [] pnone); try eassumption; try reflexivity; cbn; try tauto;
      first [apply eff_refl | intros [x [[] _]]]. }
  assert (V2 : VPost eo (prepare_reset h (h_del k s))).
  { apply vpost_prepare_post; [exact Hh|exact V|apply quiet_after_del; exact A|]. exact (apre0_not_raw k s L A). }
  change (JT false true true eo (conn_open_stream (prepare_reset h (h_del k s)))).
  change (JT false true true eo (prepare_reset h (h_del k s))) in V2. repeat peelJ.
Qed.

Lemma apre_of_XS k s : LInv s -> In k (hk s) -> is_saslh k = true -> ps s = POpen -> st s <> Connecting -> APre k s.
Proof.
  intros L K S P N. destruct (li_XS s L k K S) as [A [B [C [D [E F]]]]].
  constructor; auto.
Qed.

Lemma visit_xd eo now k s : GInv s -> live s -> LInv s -> APre0 k s -> VPost eo (h_del k (xmpp_disconnect now s)).
Proof.
  intros G Lv L A.
  eapply visit_quiet; try eassumption; [apply xmpp_disconnect_eff|reflexivity|..]; cbn; try tauto.
  - intros x [X|X]; right; unfold benignE; rewrite X; reflexivity.
  - intros k0 X; subst; discriminate.
  - intros [x [[X|X] Y]]; subst x; discriminate.
Qed.

Lemma visit_sasl_result eo now e k s :
  GInv s -> live s -> LInv s -> APre k s -> VPost eo (h_del k (fst (sasl_result now e s))).
Proof.
  intros G Lv L A. unfold sasl_result. destruct (e_name e); cbn [fst ret];
    try (apply visit_xd; try assumption; apply apre0; exact A).
  - eapply visit_body; try eassumption. apply auth_body_spec. apply (gi_T s G).
  - apply visit_leave; try assumption; [apply apre0; exact A|]. destruct (f_comp_allowed s); auto.
Qed.

Lemma visit_response eo k s :
  GInv s -> live s -> LInv s -> APre k s -> is_saslh k = true -> VPost eo (send_gated WResponse false false s).
Proof.
  intros G Lv L A S.
  eapply (auth_move eo k s _ _ _ WResponse k); try eassumption; [apply send_gated_eff|reflexivity|..]; cbn; try tauto; try discriminate.
  - intros k' H.
    assert (X : hk (send_gated WResponse false false s) = hk s).
    { pose proof (send_gated_eff WResponse false false s) as E. exact (ef_U _ _ _ _ E Fh eq_refl). }
    rewrite X in H. exact (ap_hk k s A k' H).
  - intros a X. assert (Y : sasl (send_gated WResponse false false s) = sasl s).
    { pose proof (send_gated_eff WResponse false false s) as E. exact (ef_U _ _ _ _ E Fsasl eq_refl). }
    rewrite Y. exact X.
  - intro M. apply (li_M s L M). left. exists k. split; [exact (ap_in k s A)|exact S].
Qed.

Lemma visit_sasl eo now e k s :
  is_saslh k = true -> In k (hk s) -> GInv s -> live s -> LInv s -> ps s = POpen -> st s <> Connecting ->
  VPost eo (if snd (call_handler k now e s) then fst (fst (call_handler k now e s))
            else h_del k (fst (fst (call_handler k now e s)))).
Proof.
  intros S K G Lv L P N. pose proof (apre_of_XS k s L K S P N) as A.
  destruct k; try discriminate S; cbv beta iota delta [call_handler].
  - rewrite (pair_eta (sasl_result now e s)). cbn [fst snd]. apply visit_sasl_result; assumption.
  - destruct (e_name e); try (rewrite (pair_eta (sasl_result now e s)); cbn [fst snd]; apply visit_sasl_result; assumption).
    destruct (negb (e_ch_ok e)); cbn [fst snd]; [apply visit_xd; try assumption; apply apre0; exact A|].
    (* the rspauth handler replaces the challenge handler *)
    assert (E : eff [Fh; Fsq; FhD] (mkP (fun x => x = (WResponse, false, negb (sm_enabled s)) \/ x = (WReq, false, true))
                  (fun k0 => k0 = HDigestRspauth) (fun _ => False) (fun _ => False)) s
                  (h_del HDigestChallenge (send_gated WResponse false false (h_add HDigestRspauth s)))).
    { assert (E1 : eff [Fh; Fsq] (mkP (fun x => x = (WResponse, false, negb (sm_enabled s)) \/ x = (WReq, false, true))
                  (fun k0 => k0 = HDigestRspauth) (fun _ => False) (fun _ => False)) s
                  (send_gated WResponse false false (h_add HDigestRspauth s))).
      { eapply eff_seq; [apply h_add_eff|apply send_gated_eff|solve_sub| |]; psolve.
        assert (Es : sm_enabled (h_add HDigestRspauth s) = sm_enabled s) by (unfold h_add; break_if; reflexivity).
        intros x [X|X]; subst; [left|right; reflexivity]. unfold qa_entry. cbn. rewrite Es. reflexivity. }
      eapply eff_seq; [exact E1|apply (h_del_eff pnone)|solve_sub|apply pimp_refl|apply pimp_none]. }
    eapply (auth_move eo HDigestChallenge s _ _ _ WResponse HDigestRspauth); try eassumption; try reflexivity; try (cbn; tauto); try discriminate.
    + intros k' H. apply In_hk_h_del in H as [H Nk].
      assert (X : In k' (hk (h_add HDigestRspauth s))).
      { pose proof (send_gated_eff WResponse false false (h_add HDigestRspauth s)) as E0.
        pose proof (ef_U _ _ _ _ E0 Fh eq_refl) as Y. unfold eq_on in Y. rewrite <- Y. exact H. }
      apply In_hk_h_add in X as [X|X]; [|right; exact X].
      destruct (ap_hk _ s A k' X); [left; assumption|contradiction].
    + intros a X.
      assert (Y : sasl (h_del HDigestChallenge (send_gated WResponse false false (h_add HDigestRspauth s))) = sasl s).
      { assert (Z : fmem Fsasl ([Fh; Fsq; FhD] ++ DISC) = false) by reflexivity. exact (ef_U _ _ _ _ E Fsasl Z). }
      rewrite Y. exact X.
    + intro M. apply (li_M s L M). left. exists HDigestChallenge. split; [exact K|reflexivity].
  - destruct (e_name e); try (rewrite (pair_eta (sasl_result now e s)); cbn [fst snd]; apply visit_sasl_result; assumption).
    cbn [fst snd]. eapply visit_response; eassumption.
  - destruct (e_name e); try (rewrite (pair_eta (sasl_result now e s)); cbn [fst snd]; apply visit_sasl_result; assumption).
    destruct (negb (e_ch_text e) || negb (e_ch_scram_ok e)); cbn [fst snd]; [apply visit_xd; try assumption; apply apre0; exact A|].
    eapply visit_response; eassumption.
Qed.

(* ------------------------------------------------------------------ <proceed/>: TLS starts, the stream restarts *)
Lemma vpost_prepare_tls eo u :
  VPost eo u -> quietS u -> is_raw u = false -> secured u = true ->
  (g_strong (gh u) = true -> strong_in u) -> g_feat_seen (gh u) = true ->
  VPost eo (prepare_reset OpenTls u).
Proof.
  intros [[G Lv] C] [Q1 [Q2 Q3]] NR Sec Pl Gf. split; [|exact C].
  split; [destruct G as [G1 G2]; constructor; [exact G1|exact G2]|]. intro L'. specialize (Lv L').
  destruct C as [_ [Po [Nc _]]]. specialize (Po eq_refl).
  assert (N1 : ~ hasF u) by (intro X; specialize (Q1 _ X); discriminate).
  assert (N2 : ~ hasT u) by (intro X; specialize (Q1 _ X); discriminate).
  assert (N3 : ~ hasS u) by (intros [k [X Y]]; specialize (Q1 _ X); destruct k; discriminate).
  assert (Cn : st u = Connected) by (destruct (st u) eqn:X; [exfalso; apply L'; exact X|congruence|reflexivity]).
  unfold prepare_reset. apply linv_set_oh; [exact Lv|..].
  all: try (intro X; contradiction).
  all: try tauto.
  all: try (intros _ X; discriminate X).
  all: try (intro X; discriminate X).
  - intros _ _. split; [split; [exact Q1|split; [exact Q2|exact Q3]]|]. split; [exact Pl|intros _; exact Gf].
  - intros [X|X]; discriminate X.
  - intros _ _ _. rewrite Po. discriminate.
  - intro X. rewrite NR in X. discriminate X.
  - intros [X|X]; discriminate X.
Qed.

Lemma apre0_of_XT s : LInv s -> hasT s -> ps s = POpen -> st s <> Connecting -> APre0 HProceedTls s.
Proof.
  intros L K P N. destruct (li_XT s L K) as [A [B [C _]]].
  constructor; auto. right. left. reflexivity.
Qed.

Lemma visit_tls eo now e s :
  hasT s -> GInv s -> live s -> LInv s -> ps s = POpen -> st s <> Connecting ->
  VPost eo (h_del HProceedTls (fst (fst (call_handler HProceedTls now e s)))).
Proof.
  intros K G Lv L P N. pose proof (apre0_of_XT s L K P N) as A.
  destruct (li_XT s L K) as [X1 [X2 [X3 [X4 [X5 [X6 X7]]]]]].
  assert (NOC : f_tls_mandatory s = true -> (hasS s \/ exists x, In x (sendq s) /\ is_cred (fst (fst x)) = true) -> False).
  { intros M B. pose proof (li_M s L M B) as Y. unfold is_secured in Y. rewrite X4 in Y. discriminate. }
  assert (VQ : VPost eo (h_del HProceedTls s)).
  { eapply (visit_quiet eo _ s s [] pnone); try eassumption; try reflexivity; cbn; try tauto;
      first [apply eff_refl | intros [x [[] _]]]. }
  cbv beta iota delta [call_handler].
  destruct (e_name e); cbn [fst]; try exact VQ.
  unfold conn_tls_start. cbv zeta.
  destruct (f_tls_disabled s); [cbn [fst]; apply visit_xd; assumption|].
  destruct (negb (tlsnew_ok s)); [cbn [fst]; apply visit_xd; assumption|].
  set (v := tl (tls_verdicts s)).
  destruct (match tls_verdicts s with [] => true | b :: _ => b end); cbn [fst].
  - (* TLS is up *)
    rewrite h_del_comm.
    set (u := h_del HProceedTls s) in *.
    change (h_del HProceedTls (set_tls_present true (set_secured true (set_tls_verdicts v s))))
      with (set_tls_present true (set_secured true (set_tls_verdicts v u))).
    set (u1 := set_tls_present true (set_secured true (set_tls_verdicts v u))).
    pose proof (quiet_after_del _ s A) as Qu. fold u in Qu.
    assert (V1 : VPost eo u1).
    { destruct VQ as [[Gu Lu] Cu]. split; [|exact Cu]. split; [destruct Gu as [G1 G2]; constructor; [exact G1|exact G2]|].
      intro L1. apply linv_tls_up; [apply Lu; exact L1|exact N| |].
      - intro X. destruct Qu as [Q1 _]. specialize (Q1 _ X). discriminate.
      - intros M B. exfalso. apply (NOC M). destruct B as [[k [B1 B2]]|B]; [|right; exact B].
        left. exists k. split; [|exact B2]. unfold u in B1. apply In_hk_h_del in B1. tauto. }
    assert (V2 : VPost eo (prepare_reset OpenTls u1)).
    { apply vpost_prepare_tls; try assumption; try reflexivity.
      - exact (apre0_not_raw _ s L A).
      - intro Y. apply (X7 Y). }
    change (JT false true true eo (conn_open_stream (prepare_reset OpenTls u1))).
    change (JT false true true eo (prepare_reset OpenTls u1)) in V2. repeat peelJ.
  - (* the handshake failed *)
    set (s1 := set_tls_present false (set_tls_failed true (set_err EPROTO (set_tls_verdicts v s)))).
    apply visit_xd.
    + destruct G as [G1 G2]. constructor; [exact G1|exact G2].
    + exact Lv.
    + apply linv_tls_down; [exact L|exact NOC].
    + destruct A as [A1 A2 A3 A4 A5 A6 A7]. constructor; assumption.
Qed.

(* ------------------------------------------------------------------ <stream:features> in the authentication phase *)
Definition hf_pre (e : elem) (s : state) : state :=
  let s0 := timed_del TMissingFeaturesSasl (timed_del TMissingFeatures s) in
  let s1 := if secured s0 then s0
            else if f_tls_disabled s0 then set_tls_support false s0
            else if e_starttls e then set_tls_support true s0 else s0 in
  let offered := filter (fun m => match m with MExternal => cert_set s1 | _ => true end) (e_mechs e) in
  let s2 := set_sasl (fold_left (fun l m => add_mech m l) offered (sasl s1)) s1 in
  if existsb (fun m => negb (is_plain_or_anon m)) (sasl s2) then set_sasl (del_mech MPlain (sasl s2)) s2 else s2.
Lemma call_HFeatures_eq now e s :
  call_handler HFeatures now e s = let '(s4, o) := auth 1 now (hf_pre e s) in (s4, o, false).
Proof. reflexivity. Qed.

Lemma hf_pre_facts e s :
  eff [Ft; Ftlss; Fsasl] pnone s (hf_pre e s) /\
  ~ hasTMF (hf_pre e s) /\
  (tls_support s = false -> tls_support (hf_pre e s) = true -> secured s = false /\ f_tls_disabled s = false) /\
  sasl (hf_pre e s) = sasl_after (cert_set s) (e_mechs e) (sasl s).
Proof.
  unfold hf_pre. cbv zeta.
  set (s0 := timed_del TMissingFeaturesSasl (timed_del TMissingFeatures s)).
  assert (E0 : eff [Ft] pnone s s0).
  { unfold s0. eapply eff_seq; [apply (timed_del_eff pnone)|apply (timed_del_eff pnone)|solve_sub|apply pimp_refl|apply pimp_refl]. }
  assert (T0 : ~ hasTMF s0).
  { unfold s0, hasTMF. intro X. apply In_tk_timed_del in X as [X _]. apply In_tk_timed_del in X as [_ X]. congruence. }
  assert (P0 : secured s0 = secured s /\ f_tls_disabled s0 = f_tls_disabled s /\ tls_support s0 = tls_support s /\
               sasl s0 = sasl s /\ cert_set s0 = cert_set s) by (repeat split; reflexivity).
  destruct P0 as [P1 [P2 [P3 [P4 P5]]]]. clearbody s0.
  set (s1 := if secured s0 then s0 else _).
  assert (E1 : eff [Ftlss] pnone s0 s1 /\ tk s1 = tk s0 /\ sasl s1 = sasl s0 /\ cert_set s1 = cert_set s0 /\
               (tls_support s0 = false -> tls_support s1 = true -> secured s0 = false /\ f_tls_disabled s0 = false)).
  { unfold s1. destruct (secured s0) eqn:A.
    { split; [apply eff_refl|]. split; [reflexivity|]. split; [reflexivity|]. split; [reflexivity|]. intros; congruence. }
    destruct (f_tls_disabled s0) eqn:B.
    { split; [eff_frame|]. split; [reflexivity|]. split; [reflexivity|]. split; [reflexivity|]. cbn. intros; congruence. }
    destruct (e_starttls e).
    { split; [eff_frame|]. split; [reflexivity|]. split; [reflexivity|]. split; [reflexivity|]. intros; split; reflexivity. }
    split; [apply eff_refl|]. split; [reflexivity|]. split; [reflexivity|]. split; [reflexivity|]. intros; congruence. }
  destruct E1 as [E1 [T1 [S1 [C1 X1]]]]. clearbody s1.
  set (l2 := fold_left _ _ (sasl s1)).
  assert (EQ : l2 = fold_left (fun l m => add_mech m l)
                  (filter (fun m => match m with MExternal => cert_set s | _ => true end) (e_mechs e)) (sasl s)).
  { unfold l2. rewrite C1, P5, S1, P4. reflexivity. }
  change (sasl (set_sasl l2 s1)) with l2.
  assert (R : forall s3, (s3 = set_sasl (del_mech MPlain l2) (set_sasl l2 s1) \/ s3 = set_sasl l2 s1) ->
              eff [Ft; Ftlss; Fsasl] pnone s s3 /\ ~ hasTMF s3 /\
              (tls_support s = false -> tls_support s3 = true -> secured s = false /\ f_tls_disabled s = false)).
  { intros s3 H3.
    assert (E3 : eff [Fsasl] pnone s1 s3) by (destruct H3; subst; eff_frame).
    assert (T3 : tk s3 = tk s1 /\ tls_support s3 = tls_support s1) by (destruct H3; subst; split; reflexivity).
    destruct T3 as [T3 U3]. split; [|split].
    - assert (E01 : eff [Ft; Ftlss] pnone s s1) by
        (eapply eff_seq; [exact E0|exact E1|solve_sub|apply pimp_refl|apply pimp_refl]).
      eapply eff_seq; [exact E01|exact E3|solve_sub|apply pimp_refl|apply pimp_refl].
    - unfold hasTMF. rewrite T3, T1. exact T0.
    - rewrite U3, <- P1, <- P2, <- P3. exact X1. }
  destruct (existsb (fun m => negb (is_plain_or_anon m)) l2) eqn:Ex.
  - destruct (R _ (or_introl eq_refl)) as [A [B C]]. split; [exact A|]. split; [exact B|]. split; [exact C|].
    change (sasl (set_sasl (del_mech MPlain l2) (set_sasl l2 s1))) with (del_mech MPlain l2).
    unfold sasl_after. cbv zeta. rewrite <- EQ, Ex. reflexivity.
  - destruct (R _ (or_intror eq_refl)) as [A [B C]]. split; [exact A|]. split; [exact B|]. split; [exact C|].
    change (sasl (set_sasl l2 s1)) with l2.
    unfold sasl_after. cbv zeta. rewrite <- EQ, Ex. reflexivity.
Qed.

(* STARTTLS is requested: HProceedTls replaces HFeatures *)
Lemma tls_move eo s t c p :
  (forall w, In w (sw s) -> is_neg w = false) -> live s -> LInv s -> APre HFeatures s ->
  eff c p s t -> subl c [Ftlss; Fsq; Fh; FhD] = true -> tls_support t = false ->
  (forall x, pw p x -> x = (WStartTls, false, negb (sm_enabled s)) \/ x = (WReq, false, true)) ->
  (forall i, ~ pid p i) -> (forall k0, ~ pt p k0) ->
  (forall k', In k' (hk t) -> is_baseh k' = true \/ k' = HProceedTls) ->
  secured s = false -> f_tls_disabled s = false ->
  (g_strong (gh s) = true -> strong_in s) ->
  VPost eo t.
Proof.
  intros G Lv L A E Sub Tt Pw Pi Pt HK Sec Dis Pl.
  pose proof (subl_ok _ _ Sub) as W.
  assert (Est : st t = st s) by (apply (ef_nd _ _ _ _ E); apply W; reflexivity).
  assert (Lt : live t) by (unfold live; rewrite Est; exact Lv).
  assert (F : frame [Ftlss; Fsq; Fh; FhD] s t) by (eapply frame_weaken; [exact W|exact (ef_L _ _ _ _ E Lt)]).
  destruct (ap_pp _ s A) as [PP1 PP2].
  assert (NF : ~ hasF t) by (intro X; destruct (HK _ X) as [Y|Y]; discriminate).
  assert (NS : forall k2, In k2 (hk t) -> is_saslh k2 = true -> False).
  { intros k2 K2 S2. destruct (HK _ K2) as [Y|Y]; [destruct k2; discriminate|subst; discriminate]. }
  assert (PPt : prepost t).
  { split; [|rewrite (F Fsme eq_refl); exact PP2]. intros i H.
    destruct (ef_i _ _ _ _ E _ H) as [X|X]; [auto|destruct (Pi _ X)]. }
  assert (TMt : ~ hasTMF t).
  { intro X. destruct (ef_t _ _ _ _ E _ X) as [Y|Y]; [apply (ap_tm _ s A Y)|destruct (Pt _ Y)]. }
  destruct (ef_sq _ _ _ _ E) as [l [Q Al]]. rewrite Forall_forall in Al.
  assert (NEW : forall x, In x l -> x = (WStartTls, false, true) \/ is_neg (fst (fst x)) = false).
  { intros x H. destruct (Al x H) as [X|X]; [|right; apply (G _ X)].
    destruct (Pw x X) as [Y|Y]; [left; rewrite Y, PP2; reflexivity|right; rewrite Y; reflexivity]. }
  assert (Esec : is_secured t = is_secured s) by (apply is_secured_frame; [exact (F Fsec eq_refl)|exact (F Ftlsf eq_refl)|exact (F Ftlsp eq_refl)]).
  assert (OA : oh s = OpenAuth).
  { destruct (ap_oh _ s A) as [X|X]; [exact X|]. destruct (li_O s L X) as [Y _]. congruence. }
  split.
  - split.
    + constructor; [exact Tt|]. intros w0 H. apply G. apply (ef_smq _ _ _ _ E). exact H.
    + intros _.
      apply (linv_transfer2 s t HFeatures (ap_in _ s A) (apre_authh _ s A) L (F Fraw eq_refl)
               Est (F Frp eq_refl) (F Foh eq_refl) (F Fps eq_refl)); try assumption.
      * intros k' H. destruct (HK k' H) as [X|X]; [left; exact X|right; right; left; exact X].
      * intro X. contradiction.
      * intros _. split; [exact HK|]. split; [exact PPt|]. split; [exact TMt|].
        rewrite (F Fsec eq_refl), (F Foh eq_refl), (F Fgf eq_refl), (F Fgs eq_refl).
        split; [exact Sec|]. split; [exact OA|]. split; [exact (ap_gf _ s A)|].
        intro X. unfold strong_in. rewrite (F Fsasl eq_refl). split; [exact (Pl X)|exact (ap_pl _ s A X)].
      * intros k2 K2 S2. destruct (NS k2 K2 S2).
      * intros x H B. destruct (In_app_sendq s t l x Q H) as [X|X]; [apply (li_Q s L x X B)|].
        destruct (NEW x X) as [Y|Y]; [subst x; discriminate B|exact Y].
      * intros M [[k2 [K2 S2]]|[x [H B]]]; [destruct (NS k2 K2 S2)|].
        rewrite (F Fmand eq_refl) in M. rewrite Esec.
        destruct (In_app_sendq s t l x Q H) as [X|X]; [apply (li_M s L M); right; exists x; auto|].
        destruct (NEW x X) as [Y|Y]; [subst x; discriminate B|]. apply is_cred_neg in B. congruence.
      * intros D. rewrite (F Fdis eq_refl) in D. congruence.
      * intros x H B. destruct (In_app_sendq s t l x Q H) as [X|X].
        { rewrite (F Flauth eq_refl), (F Ftyp eq_refl). apply (li_L s L x X B). }
        destruct (NEW x X) as [Y|Y]; [subst x; discriminate B|]. rewrite B in Y. discriminate.
      * intros x H B. rewrite (F Fgs eq_refl), (F Fgf eq_refl), (F Fps eq_refl).
        destruct (In_app_sendq s t l x Q H) as [X|X]; [apply (li_PL s L x X B)|].
        destruct (NEW x X) as [Y|Y]; [subst x; discriminate B|rewrite B in Y; discriminate].
      * intro X. rewrite (F Foh eq_refl) in X. congruence.
  - split; [intro X; discriminate X|]. split; [intros _; rewrite (F Fps eq_refl); exact (ap_ps _ s A)|].
    split; [rewrite Est; exact (ap_st _ s A)|]. split; [intros _ X; contradiction|].
    split; [intros _; split; [intro X; rewrite Est in X; contradiction|intro X; contradiction]|intro X; contradiction].
Qed.

Lemma linv_set_tlss b s : LInv s -> LInv (set_tls_support b s).
Proof.
  intro L. constructor.
  - exact (li_C s L). - exact (li_XF s L). - exact (li_XT s L). - exact (li_XS s L). - exact (li_XP s L).
  - exact (li_TMF s L). - exact (li_POA s L). - exact (li_POT s L). - exact (li_POP s L). - exact (li_O s L).
  - exact (li_R s L). - exact (li_RP s L). - exact (li_RAW s L). - exact (li_STUB s L). - exact (li_COMP s L).
  - exact (li_Q s L). - exact (li_M s L). - exact (li_D s L). - exact (li_L s L). - exact (li_PL s L).
Qed.
Lemma apre_set_tlss b k s : APre k s -> APre k (set_tls_support b s).
Proof. intros [A1 A2 A3 A4 A5 A6 A7 A8 A9 A10]. constructor; assumption. Qed.

Lemma visit_features now e Q s :
  hasF s -> GInv s -> live s -> LInv s -> ps s = POpen -> st s <> Connecting -> crashed s = false ->
  is_feat e = true -> VD (Some e, Q) s ->
  VPost (Some e, Q) (h_del HFeatures (fst (fst (call_handler HFeatures now e s)))).
Proof.
  intros K G Lv L P N Cr Fe D.
  rewrite call_HFeatures_eq. rewrite (pair_eta (auth 1 now (hf_pre e s))). cbn [fst].
  destruct (hf_pre_facts e s) as [E3 [T3 [Tl Sa]]]. set (s3 := hf_pre e s) in *.
  destruct (li_XF s L K) as [X1 [[X2a X2b] [X3 [X4 X5]]]].
  destruct (D Lv K) as [D1 D2]. specialize (D1 e eq_refl Fe). specialize (D2 Cr).
  assert (Est : st s3 = st s) by (apply (ef_nd _ _ _ _ E3); reflexivity).
  assert (L3v : live s3) by (unfold live; rewrite Est; exact Lv).
  pose proof (ef_L _ _ _ _ E3 L3v) as F.
  assert (Ehk : hk s3 = hk s) by exact (F Fh eq_refl).
  assert (Eik : ik s3 = ik s) by exact (F Fid eq_refl).
  assert (Esq : sendq s3 = sendq s) by exact (F Fsq eq_refl).
  assert (PL : g_strong (gh s3) = true -> strong_in s3 /\ mem_mech MPlain (sasl s3) = false).
  { intro Y. rewrite (F Fgs eq_refl) in Y. unfold strong_in. rewrite Sa. apply sasl_after_strong.
    destruct (D2 Y) as [Z|[e' [Z1 [Z2 Z3]]]]; [left; exact Z|right]. cbn in Z1. inv Z1. exact Z3. }
  assert (K3 : In HFeatures (hk s3)) by (rewrite Ehk; exact K).
  assert (PP3 : prepost s3) by (split; [rewrite Eik; exact X2a|rewrite (F Fsme eq_refl); exact X2b]).
  assert (Esec : is_secured s3 = is_secured s) by (apply is_secured_frame; [exact (F Fsec eq_refl)|exact (F Ftlsf eq_refl)|exact (F Ftlsp eq_refl)]).
  assert (L3 : LInv s3).
  { apply (linv_transfer2 s s3 HFeatures K (or_introl eq_refl) L (F Fraw eq_refl) Est (F Frp eq_refl) (F Foh eq_refl) (F Fps eq_refl)); try assumption.
    - intros k' H. rewrite Ehk in H. destruct (X1 k' H) as [Y|Y]; [left; exact Y|right; left; exact Y].
    - intros _. split; [rewrite Ehk; exact X1|]. split; [exact PP3|]. rewrite (F Foh eq_refl).
      split; [exact X3|]. split; intro Y; contradiction.
    - intro Y. unfold hasT in Y. rewrite Ehk in Y. destruct (X1 _ Y); discriminate.
    - intros k2 K2 S2. rewrite Ehk in K2. destruct (X1 _ K2) as [Y|Y]; [destruct k2; discriminate|subst; discriminate].
    - rewrite Esq. exact (li_Q s L).
    - intros M B. rewrite (F Fmand eq_refl) in M. rewrite Esec. apply (li_M s L M).
      destruct B as [[k2 [B1 B2]]|B]; [left; exists k2; rewrite <- Ehk; auto|right; rewrite <- Esq; exact B].
    - rewrite Esq, (F Fdis eq_refl). exact (li_D s L).
    - rewrite Esq, (F Flauth eq_refl), (F Ftyp eq_refl). exact (li_L s L).
    - rewrite Esq, (F Fgs eq_refl), (F Fgf eq_refl), (F Fps eq_refl). exact (li_PL s L).
    - intro Y. rewrite (F Foh eq_refl) in Y. rewrite (F Fsec eq_refl). apply (li_O s L Y). }
  assert (A3 : APre HFeatures s3).
  { constructor; try assumption.
    - left. reflexivity.
    - rewrite Ehk. exact X1.
    - rewrite (F Foh eq_refl). exact X3.
    - rewrite (F Fgf eq_refl). exact D1.
    - intro Y. apply (PL Y).
    - rewrite (F Fps eq_refl). exact P.
    - rewrite Est. exact N. }
  assert (S3 : forall w, In w (sw s3) -> is_neg w = false).
  { intros w H. apply (gi_S s G). pose proof (F Fsmq eq_refl) as Y. unfold eq_on in Y. rewrite <- Y. exact H. }
  pose proof (auth_spec now s3) as AR.
  remember (fst (auth 1 now s3)) as s4. remember (snd (auth 1 now s3)) as o. clear Heqs4 Heqo.
  destruct AR as [Et En|s0 s4 o Hs0 Ht Hb].
  - (* STARTTLS *)
    destruct (Tl (gi_T s G) Et) as [Sec Dis].
    set (t1 := send_gated WStartTls false false (h_add HProceedTls s3)).
    assert (E1 : eff [Fh; Fsq] (mkP (fun x => x = (WStartTls, false, negb (sm_enabled s3)) \/ x = (WReq, false, true))
                   (fun k0 => k0 = HProceedTls) (fun _ => False) (fun _ => False)) s3 t1).
    { unfold t1. eapply eff_seq; [apply h_add_eff|apply send_gated_eff|solve_sub| |]; psolve.
      assert (Es : sm_enabled (h_add HProceedTls s3) = sm_enabled s3) by (unfold h_add; break_if; reflexivity).
      intros x [X|X]; subst; [left|right; reflexivity]. unfold qa_entry. cbn. rewrite Es. reflexivity. }
    assert (E2 : eff [Fh; Fsq; Ftlss] (mkP (fun x => x = (WStartTls, false, negb (sm_enabled s3)) \/ x = (WReq, false, true))
                   (fun k0 => k0 = HProceedTls) (fun _ => False) (fun _ => False)) s3 (set_tls_support false t1)).
    { eapply (eff_seq _ _ _ _ [Ftlss] pnone); [exact E1|eff_frame|solve_sub|apply pimp_refl|apply pimp_none]. }
    assert (E4 : eff [Fh; Fsq; Ftlss; FhD] (mkP (fun x => x = (WStartTls, false, negb (sm_enabled s3)) \/ x = (WReq, false, true))
                   (fun k0 => k0 = HProceedTls) (fun _ => False) (fun _ => False)) s3 (h_del HFeatures (set_tls_support false t1))).
    { eapply eff_seq; [exact E2|apply (h_del_eff pnone)|solve_sub|apply pimp_refl|apply pimp_none]. }
    eapply (tls_move (Some e, Q) s3 _ _ _ S3); try eassumption; try reflexivity; try (cbn; tauto).
    + intros k' H. apply In_hk_h_del in H as [H Nk].
      destruct (ef_h _ _ _ _ E2 _ H) as [X|X]; [|right; exact X].
      rewrite Ehk in X. destruct (X1 k' X) as [Y|Y]; [left; exact Y|contradiction].
    + rewrite (F Fsec eq_refl). exact Sec.
    + rewrite (F Fdis eq_refl). exact Dis.
  - (* the mechanism selection *)
    assert (G0 : GInv s0).
    { destruct Hs0 as [[X Y]|X]; subst s0; constructor; try assumption; try reflexivity. }
    assert (L0 : LInv s0) by (destruct Hs0 as [[X Y]|X]; subst s0; [exact L3|apply linv_set_tlss; exact L3]).
    assert (A0 : APre HFeatures s0) by (destruct Hs0 as [[X Y]|X]; subst s0; [exact A3|apply apre_set_tlss; exact A3]).
    assert (Lv0 : live s0) by (destruct Hs0 as [[X Y]|X]; subst s0; exact L3v).
    eapply visit_body; eassumption.
Qed.

(* ------------------------------------------------------------------ one visited handler *)
Lemma filter_match_features e : filter_match HFeatures e = true -> is_feat e = true.
Proof.
  unfold filter_match. assert (H : hfilter HFeatures = (Some NsStreams, Some NmFeatures)) by (vm_compute; reflexivity).
  rewrite H. unfold is_feat. destruct (e_ns e), (e_name e); cbn; congruence.
Qed.

Lemma vpost_h_del eo k t : VPost eo t -> (k <> HFeatures \/ ~ hasTMF t) -> VPost eo (h_del k t).
Proof.
  intros [H [C1 [C2 [C3 [C4 [C5 C6]]]]]] Hk. split.
  - eapply (hinv_del _ pnone); [exact H|apply h_del_eff|reflexivity|reflexivity|..]; cbn; try tauto.
    intros T F. destruct Hk as [Hk|Hk]; [|contradiction]. apply In_hk_h_del. split; [exact F|congruence].
  - split; [intro X; discriminate X|]. split; [exact C2|]. split; [exact C3|]. split; [|split].
    + intros Lv F. apply In_hk_h_del in F as [F _]. exact (C4 Lv F).
    + intros X. destruct (C5 X) as [C5a C5b]. split.
      * intros S. destruct (C5a S) as [A [B D]]. split; [exact A|split; [|exact D]].
        intros k' K'. apply In_hk_h_del in K' as [K' _]. auto.
      * intro F. apply In_hk_h_del in F as [F Nk]. unfold h_del. cbn. apply filter_In. split; [exact (C5b F)|].
        cbn. destruct k; try reflexivity. congruence.
    + intro F. apply In_hk_h_del in F as [F _]. exact (C6 F).
Qed.
Lemma jt_weaken_ev eo t : JT true true true eo t -> VPost eo t.
Proof. intros [H [C1 C]]. split; [exact H|]. split; [intro X; discriminate X|exact C]. Qed.

Lemma keep_HFeatures now e s : snd (call_handler HFeatures now e s) = false.
Proof. rewrite call_HFeatures_eq. destruct (auth 1 now (hf_pre e s)). reflexivity. Qed.
Lemma keep_HProceedTls now e s : snd (call_handler HProceedTls now e s) = false.
Proof.
  cbv beta iota delta [call_handler]. destruct (e_name e); try reflexivity.
  destruct (conn_tls_start s) as [[s1 o] ok]. destruct ok; reflexivity.
Qed.

Lemma visit_inv now e P r k :
  VPost (Some e, P) (fst r) -> VPost (Some e, P) (fst (visit now e r k)).
Proof.
  destruct r as [s o]. cbn [fst]. intro V. unfold visit.
  destruct (crashed s) eqn:Cr; [exact V|].
  destruct (negb (h_has k s)) eqn:Hk; [exact V|].
  destruct (hkind_eqb k HUser && negb (neg_done s)); [exact V|].
  destruct (negb (filter_match k e)) eqn:Fm; [exact V|].
  assert (K : In k (hk s)) by (apply h_has_In; destruct (h_has k s); [reflexivity|discriminate]).
  assert (FM : filter_match k e = true) by (destruct (filter_match k e); [reflexivity|discriminate]).
  rewrite (pair_eta (call_handler k now e s)), (pair_eta (fst (call_handler k now e s))). cbn [fst].
  destruct V as [[G Lv] C]. pose proof C as [_ [Po [Nc [D [LD _]]]]]. specialize (Po eq_refl). specialize (LD eq_refl).
  destruct (is_baseh k) eqn:Bk.
  - (* base handlers: also when the connection is already gone *)
    assert (J : J3 false true true (Some e, P) (call_handler k now e s)) by (apply call_base_J; [exact Bk|split; [split; assumption|exact C]]).
    unfold J3 in J. destruct (snd (call_handler k now e s)); [exact J|].
    apply vpost_h_del; [exact J|left; intro X; subst; discriminate].
  - assert (Lvs : live s).
    { intro X. destruct LD as [LD _]. destruct (LD X) as [_ [Y _]]. specialize (Y k K). congruence. }
    specialize (Lv Lvs).
    destruct (class_cases k) as [Y|[Y|[Y|[Y|Y]]]]; [congruence| | | |].
    + subst k. rewrite keep_HFeatures.
      apply visit_features; try assumption; apply filter_match_features; exact FM.
    + subst k. rewrite keep_HProceedTls. apply visit_tls; assumption.
    + apply visit_sasl; assumption.
    + assert (Ev : evP s) by (left; exists k; auto).
      assert (J : J3 true true true (Some e, P) (call_handler k now e s)).
      { apply call_post_J; [exact Y|]. split; [split; [exact G|intros _; exact Lv]|].
        destruct C as [_ C']. split; [intros _; exact Ev|exact C']. }
      unfold J3 in J. apply jt_weaken_ev in J. destruct (snd (call_handler k now e s)); [exact J|].
      apply vpost_h_del; [exact J|left; intro X; subst; discriminate].
Qed.
Lemma fold_visit_inv now e P ks : forall r, VPost (Some e, P) (fst r) -> VPost (Some e, P) (fst (fold_left (visit now e) ks r)).
Proof. induction ks as [|k ks IH]; intros r V; simpl; [exact V|]. apply IH. apply visit_inv. exact V. Qed.

Lemma vpost_hf e (P P' : Prop) t : VPost (e, P) t -> (hasF t -> P') -> VPost (e, P') t.
Proof. intros [H [C1 [C2 [C3 [C4 [C5 C6]]]]]] X. split; [exact H|]. repeat (split; [assumption|]). exact X. Qed.

Lemma features_filter_match e : is_feat e = true -> filter_match HFeatures e = true.
Proof.
  unfold filter_match. assert (H : hfilter HFeatures = (Some NsStreams, Some NmFeatures)) by (vm_compute; reflexivity).
  rewrite H. unfold is_feat. destruct (e_ns e), (e_name e); cbn; congruence.
Qed.

(* a <stream:features> element reaches HFeatures if it is registered *)
Definition FoldI (e : elem) (ks : list hkind) (t : state) : Prop :=
  VPost (Some e, True) t /\ (is_feat e = true -> hasF t -> crashed t = true \/ In HFeatures ks).

Lemma visit_foldI now e k ks r : FoldI e (k :: ks) (fst r) -> FoldI e ks (fst (visit now e r k)).
Proof.
  intros [V FF]. destruct r as [s o]. cbn [fst] in *.
  assert (V' : VPost (Some e, hasF s) (fst (visit now e (s, o) k))).
  { apply visit_inv. cbn [fst]. apply (vpost_hf _ True); [exact V|auto]. }
  split; [apply (vpost_hf _ (hasF s)); [exact V'|auto]|].
  intros Fe F'. destruct V' as [_ [_ [_ [_ [_ [_ NFc]]]]]]. pose proof (NFc F') as F0.
  destruct (crashed s) eqn:Cr; [left; unfold visit; rewrite Cr; exact Cr|].
  destruct (FF Fe F0) as [X|[Hk|Hk]]; [discriminate X| |right; exact Hk].
  subst k. exfalso. revert F'. unfold visit. rewrite Cr.
  assert (HH : h_has HFeatures s = true) by (apply h_has_In; exact F0).
  rewrite HH, (features_filter_match e Fe). cbn [negb andb hkind_eqb].
  rewrite (pair_eta (call_handler HFeatures now e s)), (pair_eta (fst (call_handler HFeatures now e s))).
  rewrite keep_HFeatures. cbn [fst].
  destruct V as [[G Lv] [_ [Po [Nc [D [LD _]]]]]].
  assert (Lvs : live s).
  { intro X. destruct (LD eq_refl) as [LD1 _]. destruct (LD1 X) as [_ [Y _]]. specialize (Y _ F0). discriminate. }
  pose proof (visit_features now e False s F0 G Lvs (Lv Lvs) (Po eq_refl) Nc Cr Fe D) as [_ [_ [_ [_ [_ [_ Z]]]]]].
  exact Z.
Qed.
Lemma fold_visit_foldI now e ks : forall r, FoldI e ks (fst r) -> FoldI e [] (fst (fold_left (visit now e) ks r)).
Proof. induction ks as [|k ks IH]; intros r V; simpl; [exact V|]. apply IH. apply visit_foldI. exact V. Qed.

(* ------------------------------------------------------------------ dispatch of one element *)
Definition DPre (s : state) : Prop :=
  HInv s /\ ps s = POpen /\ st s <> Connecting /\ VD (None, True) s /\ LocD s.

Lemma linv_note_rx e s : LInv s -> ps s = POpen -> st s <> Connecting -> LInv (note_rx e s).
Proof.
  intros L P N. destruct (note_rx_gh e s) as [Gf Gs].
  assert (K : g_feat_seen (gh s) = true ->
              g_feat_seen (gh (note_rx e s)) = true /\ g_strong (gh (note_rx e s)) = g_strong (gh s)).
  { intro X. rewrite Gf, Gs, X. cbn. rewrite andb_false_r, orb_false_r. auto. }
  constructor.
  - intro A. contradiction.
  - exact (li_XF s L).
  - intro A. destruct (li_XT s L A) as [X1 [X2 [X3 [X4 [X5 [X6 X7]]]]]]. destruct (K X6) as [K1 K2].
    rewrite K1, K2. split; [exact X1|]. split; [exact X2|]. split; [exact X3|]. split; [exact X4|]. split; [exact X5|]. split; [reflexivity|exact X7].
  - intros k A B. destruct (li_XS s L k A B) as [X1 [X2 [X3 [X4 [X5 X6]]]]]. destruct (K X5) as [K1 K2].
    rewrite K1, K2. split; [exact X1|]. split; [exact X2|]. split; [exact X3|]. split; [exact X4|]. split; [reflexivity|exact X6].
  - exact (li_XP s L).
  - exact (li_TMF s L).
  - intros A B C. change (ps (note_rx e s)) with (ps s) in C. congruence.
  - intros A B. destruct (li_POT s L A B) as [X1 [X2 X3]].
    assert (Y : ps s <> PDepth0) by (rewrite P; discriminate). destruct (K (X3 Y)) as [K1 K2].
    rewrite K2. split; [exact X1|]. split; [exact X2|intros _; exact K1].
  - exact (li_POP s L).
  - exact (li_O s L).
  - exact (li_R s L).
  - exact (li_RP s L).
  - exact (li_RAW s L).
  - exact (li_STUB s L).
  - exact (li_COMP s L).
  - exact (li_Q s L).
  - exact (li_M s L).
  - exact (li_D s L).
  - exact (li_L s L).
  - intros x A B. destruct (li_PL s L x A B) as [X1 [X2 X3]]. destruct (K X2) as [K1 K2].
    rewrite K1, K2. split; [exact X1|]. split; [reflexivity|exact X3].
Qed.

Lemma ginv_conv s s' : tls_support s' = tls_support s -> sw s' = sw s -> GInv s -> GInv s'.
Proof. intros A B [G1 G2]. constructor; [congruence|]. intros w H. apply G2. rewrite <- B. exact H. Qed.

Lemma linv_same s s' :
  LInv s -> (forall P : state -> Prop, P s -> P s') -> LInv s'.
Proof. intros L H. apply H. exact L. Qed.

Lemma hinv_set_crashed b s : HInv s -> HInv (set_crashed b s).
Proof.
  intros [[G1 G2] Lv]. split; [constructor; [exact G1|exact G2]|]. intro L'. specialize (Lv L'). constructor.
  - exact (li_C s Lv). - exact (li_XF s Lv). - exact (li_XT s Lv). - exact (li_XS s Lv). - exact (li_XP s Lv).
  - exact (li_TMF s Lv). - exact (li_POA s Lv). - exact (li_POT s Lv). - exact (li_POP s Lv). - exact (li_O s Lv).
  - exact (li_R s Lv). - exact (li_RP s Lv). - exact (li_RAW s Lv). - exact (li_STUB s Lv). - exact (li_COMP s Lv).
  - exact (li_Q s Lv). - exact (li_M s Lv). - exact (li_D s Lv). - exact (li_L s Lv). - exact (li_PL s Lv).
Qed.

(* from the dispatch-local knowledge back to the step-level one *)
Lemma dpre_restore e t :
  VPost (Some e, True) t -> (is_feat e = true -> hasF t -> crashed t = true) -> DPre t.
Proof.
  intros [H [_ [Po [Nc [D [LD _]]]]]] FF. split; [exact H|]. split; [exact (Po eq_refl)|]. split; [exact Nc|].
  split; [|apply (LD eq_refl)].
  intros L' F. destruct (D L' F) as [_ D2]. split; [intros e' X; discriminate X|].
  intros Cr Y. destruct (D2 Cr Y) as [Z|[e' [Z1 [Z2 _]]]]; [left; exact Z|]. cbn in Z1. inv Z1.
  rewrite (FF Z2 F) in Cr. discriminate.
Qed.

Lemma vpost_id_del eo k t : VPost eo t -> VPost eo (id_del k t).
Proof.
  intros [H [C1 [C2 [C3 [C4 [C5 C6]]]]]]. split.
  - eapply (hinv_del _ pnone); [exact H|apply id_del_eff|reflexivity|reflexivity|..]; cbn; try tauto.
  - split; [intro X; discriminate X|]. split; [exact C2|]. split; [exact C3|]. split; [exact C4|]. split; [|exact C6].
    intro X. destruct (C5 X) as [A B]. split; [|exact B].
    intro S. destruct (A S) as [A1 [A2 A3]]. split; [exact A1|split; [exact A2|]].
    intros i K. apply In_ik_id_del in K. auto.
Qed.

Lemma dispatch_inv now e s : DPre s -> DPre (fst (dispatch now e s)).
Proof.
  intros [[G Lv] [P [N [D LD]]]]. destruct (note_rx_gh e s) as [Gf Gs].
  unfold dispatch. cbv zeta. set (s0 := note_rx e s).
  assert (H0 : HInv s0).
  { split; [apply (ginv_conv s); [reflexivity|reflexivity|exact G]|]. intro L'. apply linv_note_rx; auto. }
  assert (D0 : VD (Some e, True) s0).
  { intros L' F. destruct (D L' F) as [_ D2]. split.
    - intros e' X Y. cbn in X. inv X. unfold s0. rewrite Gf, Y. apply orb_true_r.
    - intros Cr Y. unfold s0 in Y. rewrite Gs in Y. apply orb_true_iff in Y as [Y|Y].
      + destruct (D2 Cr Y) as [Z|[e' [Z _]]]; [left; exact Z|discriminate Z].
      + right. exists e. apply andb_true_iff in Y as [Y1 Y2]. apply andb_true_iff in Y1 as [Y1 _]. auto. }
  destruct (negb (sm_alloc s0)); cbn [fst].
  { (* the model's crash branch *)
    split; [apply hinv_set_crashed; exact H0|]. split; [exact P|]. split; [exact N|]. split; [|exact LD].
    intros L' F. split; [intros e' X; discriminate X|]. intros Cr. discriminate Cr. }
  set (sE := set_handlers (map (fun x => (fst x, true)) (handlers s0)) s0).
  assert (Ehk : hk sE = hk s0) by (unfold sE, hk; simpl; rewrite map_map; reflexivity).
  assert (VE : VPost (Some e, True) sE).
  { split.
    - eapply (hinv_del _ pnone); [exact H0|apply enable_all_eff|reflexivity|reflexivity|..]; cbn; try tauto.
      intros _ X. rewrite map_map. cbn. exact X.
    - split; [intro X; discriminate X|]. split; [intros _; exact P|]. split; [exact N|]. split; [|split; [|intros _; exact I]].
      + intros L' F. unfold hasF in F. rewrite Ehk in F. exact (D0 L' F).
      + intros _. split.
        * intro S. destruct (LD S) as [A [B C]]. split; [exact A|split; [|exact C]]. rewrite Ehk. exact B.
        * intro F. apply In_hk_handlers in F as [b F]. unfold sE in F |- *. cbn in *.
          apply in_map_iff in F as [x [X1 X2]]. inv X1. apply in_map_iff. exists x. split; [reflexivity|exact X2]. }
  clearbody sE.
  set (r1 := match idk_of (e_id e) with Some k => _ | None => _ end).
  assert (V1 : VPost (Some e, True) (fst r1)).
  { unfold r1. destruct (idk_of (e_id e)) as [k|]; [|exact VE].
    destruct (id_has k sE) eqn:Hi; [|exact VE].
    destruct (is_user_id k) eqn:Uk; cbn [andb].
    { (* the user's id handler: skipped during the negotiation, otherwise it only reports; it stays registered *)
      destruct k; try discriminate Uk. destruct (negb (neg_done sE)); exact VE. }
    rewrite (pair_eta (call_id_handler k now e sE)). cbn [fst].
    apply vpost_id_del.
    assert (J : JR (match k with IKLegacy => false | _ => true end) true true (Some e, True) (call_id_handler k now e sE)).
    { apply call_id_J. destruct VE as [HE [_ CE]]. split; [exact HE|]. split; [|exact CE].
      intro X. apply (id_has_In k sE Uk) in Hi. destruct k; [right; left; exact Hi|right; right; exact Hi|discriminate X|discriminate Uk]. }
    unfold JR in J. destruct J as [HJ [_ CJ]]. split; [exact HJ|]. split; [intro X; discriminate X|exact CJ]. }
  clearbody r1. destruct r1 as [s1 o1]. cbn [fst] in V1.
  set (snapshot := map fst (filter (fun x => snd x) (handlers s1))).
  assert (FI : FoldI e snapshot s1).
  { split; [exact V1|]. intros _ F. right. destruct V1 as [_ [_ [_ [_ [_ [LD1 _]]]]]].
    destruct (LD1 eq_refl) as [_ En]. specialize (En F). unfold snapshot.
    apply in_map_iff. exists (HFeatures, true). split; [reflexivity|]. apply filter_In. split; [exact En|reflexivity]. }
  pose proof (fold_visit_foldI now e snapshot (s1, o1) FI) as [V3 FF].
  destruct (fold_left (visit now e) snapshot (s1, o1)) as [s3 o3]. cbn [fst] in *.
  destruct (crashed s3) eqn:Cr3; cbn [fst].
  { apply (dpre_restore e); [exact V3|auto]. }
  assert (NF3 : is_feat e = true -> hasF s3 -> False).
  { intros A B. destruct (FF A B) as [X|[]]. congruence. }
  destruct (sm_enabled s3); cbn [fst]; [|apply (dpre_restore e); [exact V3|intros A B; destruct (NF3 A B)]].
  assert (V4 : VPost (Some e, hasF s3) (sm_handle e s3)).
  { apply sm_handle_J. apply (vpost_hf _ True); [exact V3|auto]. }
  apply (dpre_restore e); [apply (vpost_hf _ (hasF s3)); [exact V4|auto]|].
  intros A B. destruct V4 as [_ [_ [_ [_ [_ [_ X]]]]]]. destruct (NF3 A (X B)).
Qed.

(* ------------------------------------------------------------------ the parser state changes *)
Lemma linv_set_ps v s : v <> PDepth0 -> LInv s -> LInv (set_ps v s).
Proof.
  intros V L. constructor.
  - exact (li_C s L). - exact (li_XF s L). - exact (li_XT s L). - exact (li_XS s L). - exact (li_XP s L).
  - exact (li_TMF s L).
  - intros _ _ X. cbn in X. congruence.
  - intros A [B|B]; [|cbn in B; congruence]. change (oh s = OpenTls) in A. change (reset_parser s = true) in B.
    destruct (li_POT s L A (or_introl B)) as [X1 [X2 X3]]. split; [exact X1|]. split; [exact X2|]. intros _. apply X3.
    destruct (li_O s L A) as [_ C]. apply (li_RP s L C); [|exact B].
    destruct (is_raw s) eqn:R; [|reflexivity]. destruct (li_RAW s L R) as [[Y|Y] _]; congruence.
  - exact (li_POP s L). - exact (li_O s L). - exact (li_R s L).
  - intros _ _ _. exact V.
  - exact (li_RAW s L). - exact (li_STUB s L). - exact (li_COMP s L).
  - exact (li_Q s L). - exact (li_M s L). - exact (li_D s L). - exact (li_L s L).
  - intros x A B. destruct (li_PL s L x A B) as [X1 [X2 _]]. split; [exact X1|]. split; [exact X2|exact V].
Qed.

(* what is known when a stream is about to be opened *)
Lemma p0_facts s : LInv s -> st s = Connected -> ps s = PDepth0 ->
  ~ hasT s /\ ~ hasS s /\ (forall x, In x (sendq s) -> fst (fst x) <> WAuth MPlain) /\
  (is_raw s = false -> reset_parser s = false).
Proof.
  intros L C P.
  assert (PL : forall x, In x (sendq s) -> fst (fst x) <> WAuth MPlain).
  { intros x A B. destruct (li_PL s L x A B) as [_ [_ X]]. contradiction. }
  assert (RP : is_raw s = false -> reset_parser s = false).
  { intro R. destruct (reset_parser s) eqn:X; [|reflexivity]. destruct (li_RP s L C R X P). }
  assert (TS : ~ hasT s /\ ~ hasS s).
  { destruct (oh s) eqn:O.
    - destruct (li_POA s L C O P) as [_ [_ [X _]]]. split; [intro Y; specialize (X _ Y); discriminate|].
      intros [k [Y Z]]. specialize (X _ Y). subst. discriminate.
    - destruct (li_POT s L O (or_intror P)) as [[X _] _]. split; [intro Y; specialize (X _ Y); discriminate|].
      intros [k [Y Z]]. specialize (X _ Y). destruct k; discriminate.
    - destruct (li_POP s L (or_introl O)) as [_ [X [Y _]]]. tauto.
    - destruct (li_POP s L (or_intror O)) as [_ [X [Y _]]]. tauto.
    - destruct (li_COMP s L O) as [X _]. split; [intro Y; specialize (X _ Y); discriminate|].
      intros [k [Y Z]]. specialize (X _ Y). destruct k; discriminate.
    - pose proof (li_STUB s L (or_intror O)) as R. destruct (li_RAW s L R) as [_ [X _]].
      split; [intro Y; specialize (X _ Y); discriminate|]. intros [k [Y Z]]. specialize (X _ Y). subst. discriminate.
    - pose proof (li_STUB s L (or_introl O)) as R. destruct (li_RAW s L R) as [_ [X _]].
      split; [intro Y; specialize (X _ Y); discriminate|]. intros [k [Y Z]]. specialize (X _ Y). subst. discriminate. }
  tauto.
Qed.

(* _handle_stream_start begins: the parser is inside the stream, no features seen on it yet *)
Definition start0 (b : bool) (v : pstate) (s : state) : state :=
  set_stream_id false (upg (fun g => set_g_raw_open (b || g_raw_open g) (set_g_feat_seen false g)) (set_ps v s)).
Definition start_st (v : pstate) (has_id : bool) (s : state) : state := set_stream_id has_id (start0 true v s).
Ltac linv_start_tac s L C P V :=
  let NT := fresh "NT" in let NS := fresh "NS" in let NPL := fresh "NPL" in let RPf := fresh "RPf" in
  destruct (p0_facts s L C P) as [NT [NS [NPL RPf]]];
  constructor;
  [ let X := fresh in intro X; change (st s = Connecting) in X; congruence
  | exact (li_XF s L)
  | let X := fresh in intro X; contradiction
  | let k := fresh in let A := fresh in let B := fresh in intros k A B; exfalso; apply NS; exists k; auto
  | exact (li_XP s L)
  | exact (li_TMF s L)
  | let X := fresh in intros _ _ X; cbn in X; congruence
  | let A := fresh in let B := fresh in
    intros A [B|B]; [|cbn in B; congruence]; exfalso; change (oh s = OpenTls) in A; change (reset_parser s = true) in B;
    assert (R : is_raw s = false) by
      (destruct (is_raw s) eqn:R; [|reflexivity]; destruct (li_RAW s L R) as [[Y|Y] _]; congruence);
    rewrite (RPf R) in B; discriminate
  | exact (li_POP s L) | exact (li_O s L) | exact (li_R s L)
  | intros _ _ _; exact V
  | exact (li_RAW s L) | exact (li_STUB s L) | exact (li_COMP s L)
  | exact (li_Q s L) | exact (li_M s L) | exact (li_D s L) | exact (li_L s L)
  | let x := fresh in let A := fresh in let B := fresh in intros x A B; destruct (NPL x A B) ].
Lemma linv_start0 b v s : v <> PDepth0 -> LInv s -> st s = Connected -> ps s = PDepth0 -> LInv (start0 b v s).
Proof. intros V L C P. linv_start_tac s L C P V. Qed.
Lemma linv_start v has_id s : v <> PDepth0 -> LInv s -> st s = Connected -> ps s = PDepth0 -> LInv (start_st v has_id s).
Proof. intros V L C P. linv_start_tac s L C P V. Qed.

(* ------------------------------------------------------------------ the open handlers register the handlers of the new stream *)
Section OpenTransfer.
Variables s s' : state.
Hypothesis L : LInv s.
Hypothesis F : frame [Fh; Ft] s s'.
Hypothesis Hps : ps s <> PDepth0.
Hypothesis Hst : st s = Connected.
Hypothesis Hraw : is_raw s = false.
Hypothesis NT : ~ hasT s.
Hypothesis NS : ~ hasS s.
Hypothesis Hrp : oh s = OpenTls -> reset_parser s = false.
Hypothesis Hh : forall k, In k (hk s') -> In k (hk s) \/ is_baseh k = true \/ k = HFeatures \/ is_posth k = true.
Hypothesis OXF : hasF s' ->
  (forall k, In k (hk s') -> is_baseh k = true \/ k = HFeatures) /\ prepost s' /\
  (oh s' = OpenAuth \/ oh s' = OpenTls) /\ (hasTMF s' -> oh s' = OpenAuth) /\ (hasTMF s' -> sasl s' = []).
Hypothesis OXP : forall k, In k (hk s') -> is_posth k = true ->
  (forall k', In k' (hk s') -> is_baseh k' = true \/ is_posth k' = true) /\ ~ hasTMF s'.
Hypothesis OTMF : hasTMF s' -> hasF s'.
Hypothesis OPOP : (oh s' = OpenSasl \/ oh s' = OpenCompress) -> noauth s'.
Hypothesis OCOMP : oh s' = OpenComponent ->
  (forall k, In k (hk s') -> is_baseh k = true) /\ (forall i, In i (ik s') -> i = IKLegacy) /\ ~ hasTMF s' /\
  f_tls_mandatory s' = false.

Lemma linv_open : LInv s'.
Proof.
  assert (T' : ~ hasT s').
  { intro X. destruct (Hh _ X) as [Y|[Y|[Y|Y]]]; try discriminate. contradiction. }
  assert (S' : forall k, In k (hk s') -> is_saslh k = true -> False).
  { intros k X Y. destruct (Hh _ X) as [Z|[Z|[Z|Z]]]; [apply NS; exists k; auto|destruct k; discriminate|subst; discriminate|destruct k; discriminate]. }
  constructor.
  - intro X. rewrite (F Fst eq_refl) in X. congruence.
  - exact OXF.
  - intro X. contradiction.
  - intros k X Y. destruct (S' k X Y).
  - exact OXP.
  - exact OTMF.
  - intros _ _ X. rewrite (F Fps eq_refl) in X. contradiction.
  - intros A [B|B]; exfalso.
    + rewrite (F Foh eq_refl) in A. rewrite (F Frp eq_refl), (Hrp A) in B. discriminate.
    + rewrite (F Fps eq_refl) in B. contradiction.
  - exact OPOP.
  - intro A. rewrite (F Foh eq_refl) in A. rewrite (F Fsec eq_refl), (F Fst eq_refl). apply (li_O s L A).
  - intros A B. rewrite (F Fst eq_refl) in A. rewrite (F Foh eq_refl) in B. rewrite (F Frp eq_refl). apply (li_R s L A B).
  - intros _ _ _. rewrite (F Fps eq_refl). exact Hps.
  - intro A. rewrite (F Fraw eq_refl) in A. congruence.
  - intro A. rewrite (F Foh eq_refl) in A. rewrite (F Fraw eq_refl). apply (li_STUB s L A).
  - exact OCOMP.
  - rewrite (F Fsq eq_refl). exact (li_Q s L).
  - intros A B. rewrite (F Fmand eq_refl) in A. unfold is_secured. rewrite (F Fsec eq_refl), (F Ftlsf eq_refl), (F Ftlsp eq_refl).
    apply (li_M s L A). destruct B as [[k [B1 B2]]|B]; [destruct (S' k B1 B2)|right; rewrite <- (F Fsq eq_refl); exact B].
  - rewrite (F Fsq eq_refl), (F Fdis eq_refl). exact (li_D s L).
  - rewrite (F Fsq eq_refl), (F Flauth eq_refl), (F Ftyp eq_refl). exact (li_L s L).
  - rewrite (F Fsq eq_refl), (F Fgs eq_refl), (F Fgf eq_refl), (F Fps eq_refl). exact (li_PL s L).
Qed.
End OpenTransfer.

Lemma ginv_start v h s : GInv s -> GInv (start_st v h s).
Proof. intros [G1 G2]. constructor; [exact G1|exact G2]. Qed.

Lemma open_handler_inv now v h s :
  v <> PDepth0 -> GInv s -> LInv s -> st s = Connected -> ps s = PDepth0 -> VD (None, True) s ->
  JT false false false (None, True) (fst (open_handler now (start_st v h s))) /\
  st (fst (open_handler now (start_st v h s))) = Connected.
Proof.
  intros V G L C P D.
  pose proof (linv_start v h s V L C P) as Lt. pose proof (ginv_start v h s G) as Gt.
  destruct (p0_facts s L C P) as [NT [NS [_ RPf]]].
  set (t := start_st v h s) in *.
  assert (Ct : st t = Connected) by exact C. assert (Pt : ps t <> PDepth0) by exact V.
  assert (Lvt : live t) by (unfold live; rewrite Ct; discriminate).
  assert (NTt : ~ hasT t) by exact NT. assert (NSt : ~ hasS t) by exact NS.
  assert (Dt : VD (None, True) t).
  { intros _ Ft. destruct (D ltac:(unfold live; rewrite C; discriminate) Ft) as [_ D2].
    split; [intros e X; discriminate X|]. exact D2. }
  assert (Base : JT false false false (None, True) t).
  { split; [split; [exact Gt|intros _; exact Lt]|]. split; [intro X; discriminate X|]. split; [intro X; discriminate X|].
    split; [rewrite Ct; discriminate|]. split; [exact Dt|]. split; [intro X; discriminate X|intros _; exact I]. }
  assert (mk : forall res, LInv res -> GInv res -> st res = Connected -> True ->
               (hasF res -> crashed res = false -> g_strong (gh res) = true -> strong_in res) ->
               JT false false false (None, True) res /\ st res = Connected).
  { intros res Lr Gr Cr Pr Dr. split; [|exact Cr]. split; [split; [exact Gr|intros _; exact Lr]|]. split; [intro X; discriminate X|].
    split; [intro X; discriminate X|]. split; [rewrite Cr; discriminate|]. split; [|split; [intro X; discriminate X|intros _; exact I]].
    intros _ Fr. split; [intros e X; discriminate X|]. intros A B. left. exact (Dr Fr A B). }
  assert (NRaw : oh t <> OpenStub -> oh t <> OpenRaw -> is_raw t = false).
  { intros A B. destruct (is_raw t) eqn:R; [|reflexivity]. destruct (li_RAW t Lt R) as [[X|X] _]; contradiction. }
  unfold open_handler. destruct (oh t) eqn:O; cbn [fst ret].
  - (* OpenAuth *)
    destruct (li_POA s L C O P) as [F1 [F2 [F3 [F4 [F5 F6]]]]].
    set (res := timed_add TMissingFeatures now (h_add HFeatures (h_add HError (timed_reset_all now t)))).
    assert (E : eff [Fh; Ft] (mkP (fun _ => False) (fun k => k = HError \/ k = HFeatures) (fun _ => False)
                               (fun k => k = TMissingFeatures)) t res).
    { unfold res.
      assert (E1 : eff [Fh] (mkP (fun _ => False) (fun k => k = HError \/ k = HFeatures) (fun _ => False)
                               (fun k => k = TMissingFeatures)) t (h_add HError (timed_reset_all now t))).
      { eseq ltac:(apply (timed_reset_all_eff pnone)) ltac:(apply h_add_eff); psolve. }
      assert (E2 : eff [Fh] (mkP (fun _ => False) (fun k => k = HError \/ k = HFeatures) (fun _ => False)
                               (fun k => k = TMissingFeatures)) t (h_add HFeatures (h_add HError (timed_reset_all now t)))).
      { eseq ltac:(exact E1) ltac:(apply h_add_eff); psolve. }
      eseq ltac:(exact E2) ltac:(apply timed_add_eff); psolve. }
    assert (Fr : frame [Fh; Ft] t res) by (apply (ef_L _ _ _ _ E); unfold live; rewrite (ef_nd _ _ _ _ E eq_refl), Ct; discriminate).
    assert (HF : hasF res).
    { unfold res, hasF. eapply keep_hk; [apply timed_add_eff|reflexivity|]. apply In_hk_h_add. right. reflexivity. }
    assert (HK : forall k, In k (hk res) -> is_baseh k = true \/ k = HFeatures).
    { intros k X. destruct (ef_h _ _ _ _ E _ X) as [Y|[Y|Y]]; [left; rewrite (F3 k Y); reflexivity|left; subst; reflexivity|right; exact Y]. }
    apply mk.
    + apply (linv_open t res Lt Fr Pt Ct); try assumption.
      * apply NRaw; congruence.
      * intro X. congruence.
      * intros k X. destruct (HK k X) as [Y|Y]; auto.
      * intros _. split; [exact HK|]. split; [split; [rewrite (Fr Fid eq_refl); exact F4|rewrite (Fr Fsme eq_refl); exact F2]|].
        rewrite (Fr Foh eq_refl), (Fr Fsasl eq_refl). split; [left; exact O|]. split; [intros _; exact O|intros _; exact F1].
      * intros k X Y. destruct (HK k X) as [Z|Z]; [destruct k; discriminate|subst; discriminate].
      * intros _. exact HF.
      * intros [X|X]; rewrite (Fr Foh eq_refl) in X; congruence.
      * intro X. rewrite (Fr Foh eq_refl) in X. congruence.
    + apply (ginv_conv t); [exact (ef_U _ _ _ _ E Ftlss eq_refl)|exact (ef_U _ _ _ _ E Fsmq eq_refl)|exact Gt].
    + rewrite (Fr Fst eq_refl). exact Ct.
    + exact I.
    + intros _ _ X. rewrite (Fr Fgs eq_refl) in X. change (g_strong (gh t)) with (g_strong (gh s)) in X. congruence.
  - (* OpenTls *)
    destruct (li_POT s L O (or_intror P)) as [[Q1 [Q2 [Q3 Q4]]] [PL3 _]].
    set (res := timed_add TMissingFeaturesSasl now (h_add HFeatures t)).
    assert (E : eff [Fh; Ft] (mkP (fun _ => False) (fun k => k = HFeatures) (fun _ => False)
                               (fun k => k = TMissingFeaturesSasl)) t res).
    { unfold res. eseq ltac:(apply h_add_eff) ltac:(apply timed_add_eff); psolve. }
    assert (Fr : frame [Fh; Ft] t res) by (apply (ef_L _ _ _ _ E); unfold live; rewrite (ef_nd _ _ _ _ E eq_refl), Ct; discriminate).
    assert (HF : hasF res).
    { unfold res, hasF. eapply keep_hk; [apply timed_add_eff|reflexivity|]. apply In_hk_h_add. right. reflexivity. }
    assert (HK : forall k, In k (hk res) -> is_baseh k = true \/ k = HFeatures).
    { intros k X. destruct (ef_h _ _ _ _ E _ X) as [Y|Y]; [left; exact (Q1 k Y)|right; exact Y]. }
    assert (NTM : ~ hasTMF res).
    { intro X. destruct (ef_t _ _ _ _ E _ X) as [Y|Y]; [exact (Q2 Y)|discriminate Y]. }
    apply mk.
    + apply (linv_open t res Lt Fr Pt Ct); try assumption.
      * apply NRaw; congruence.
      * intros _. apply RPf. change (is_raw s) with (is_raw t). apply NRaw; congruence.
      * intros k X. destruct (HK k X) as [Y|Y]; auto.
      * intros _. split; [exact HK|]. split; [split; [rewrite (Fr Fid eq_refl); exact Q3|rewrite (Fr Fsme eq_refl); exact Q4]|].
        rewrite (Fr Foh eq_refl). split; [right; exact O|]. split; intro X; contradiction.
      * intros k X Y. destruct (HK k X) as [Z|Z]; [destruct k; discriminate|subst; discriminate].
      * intro X. contradiction.
      * intros [X|X]; rewrite (Fr Foh eq_refl) in X; congruence.
      * intro X. rewrite (Fr Foh eq_refl) in X. congruence.
    + apply (ginv_conv t); [exact (ef_U _ _ _ _ E Ftlss eq_refl)|exact (ef_U _ _ _ _ E Fsmq eq_refl)|exact Gt].
    + rewrite (Fr Fst eq_refl). exact Ct.
    + exact I.
    + intros _ _ X. rewrite (Fr Fgs eq_refl) in X. unfold strong_in. rewrite (Fr Fsasl eq_refl). apply PL3. exact X.
  - (* post-authentication stream *)
    pose proof (li_POP s L ltac:(auto)) as [N1 [N2 [N3 N4]]].
    set (res := timed_add TMissingFeaturesSasl now (h_add HFeaturesSasl t)).
    assert (E : eff [Fh; Ft] (mkP (fun _ => False) (fun k => k = HFeaturesSasl) (fun _ => False)
                               (fun k => k = TMissingFeaturesSasl)) t res).
    { unfold res. eseq ltac:(apply h_add_eff) ltac:(apply timed_add_eff); psolve. }
    assert (Fr : frame [Fh; Ft] t res) by (apply (ef_L _ _ _ _ E); unfold live; rewrite (ef_nd _ _ _ _ E eq_refl), Ct; discriminate).
    assert (NF : ~ hasF res).
    { intro X. destruct (ef_h _ _ _ _ E _ X) as [Y|Y]; [exact (N1 Y)|discriminate Y]. }
    assert (NTM : ~ hasTMF res).
    { intro X. destruct (ef_t _ _ _ _ E _ X) as [Y|Y]; [exact (N4 Y)|discriminate Y]. }
    assert (HK : forall k, In k (hk res) -> is_baseh k = true \/ is_posth k = true).
    { intros k X. destruct (ef_h _ _ _ _ E _ X) as [Y|Y]; [|right; cbn in Y; subst; reflexivity].
      destruct (class_cases k) as [Z|[Z|[Z|[Z|Z]]]]; auto; exfalso; subst; try tauto. apply N3. exists k. auto. }
    apply mk.
    + apply (linv_open t res Lt Fr Pt Ct); try assumption.
      * apply NRaw; congruence.
      * intro X. congruence.
      * intros k X. destruct (HK k X) as [Y|Y]; auto.
      * intro X. contradiction.
      * intros k X Y. split; [exact HK|exact NTM].
      * intro X. contradiction.
      * intros _. split; [exact NF|]. split; [|split; [|exact NTM]].
        { intro X. destruct (HK _ X); discriminate. }
        { intros [k [X Y]]. destruct (HK _ X); destruct k; discriminate. }
      * intro X. rewrite (Fr Foh eq_refl) in X. congruence.
    + apply (ginv_conv t); [exact (ef_U _ _ _ _ E Ftlss eq_refl)|exact (ef_U _ _ _ _ E Fsmq eq_refl)|exact Gt].
    + rewrite (Fr Fst eq_refl). exact Ct.
    + exact I.
    + intros X. contradiction.
  - (* post-authentication stream *)
    pose proof (li_POP s L ltac:(auto)) as [N1 [N2 [N3 N4]]].
    set (res := timed_add TMissingFeaturesSasl now (h_add HFeaturesCompress t)).
    assert (E : eff [Fh; Ft] (mkP (fun _ => False) (fun k => k = HFeaturesCompress) (fun _ => False)
                               (fun k => k = TMissingFeaturesSasl)) t res).
    { unfold res. eseq ltac:(apply h_add_eff) ltac:(apply timed_add_eff); psolve. }
    assert (Fr : frame [Fh; Ft] t res) by (apply (ef_L _ _ _ _ E); unfold live; rewrite (ef_nd _ _ _ _ E eq_refl), Ct; discriminate).
    assert (NF : ~ hasF res).
    { intro X. destruct (ef_h _ _ _ _ E _ X) as [Y|Y]; [exact (N1 Y)|discriminate Y]. }
    assert (NTM : ~ hasTMF res).
    { intro X. destruct (ef_t _ _ _ _ E _ X) as [Y|Y]; [exact (N4 Y)|discriminate Y]. }
    assert (HK : forall k, In k (hk res) -> is_baseh k = true \/ is_posth k = true).
    { intros k X. destruct (ef_h _ _ _ _ E _ X) as [Y|Y]; [|right; cbn in Y; subst; reflexivity].
      destruct (class_cases k) as [Z|[Z|[Z|[Z|Z]]]]; auto; exfalso; subst; try tauto. apply N3. exists k. auto. }
    apply mk.
    + apply (linv_open t res Lt Fr Pt Ct); try assumption.
      * apply NRaw; congruence.
      * intro X. congruence.
      * intros k X. destruct (HK k X) as [Y|Y]; auto.
      * intro X. contradiction.
      * intros k X Y. split; [exact HK|exact NTM].
      * intro X. contradiction.
      * intros _. split; [exact NF|]. split; [|split; [|exact NTM]].
        { intro X. destruct (HK _ X); discriminate. }
        { intros [k [X Y]]. destruct (HK _ X); destruct k; discriminate. }
      * intro X. rewrite (Fr Foh eq_refl) in X. congruence.
    + apply (ginv_conv t); [exact (ef_U _ _ _ _ E Ftlss eq_refl)|exact (ef_U _ _ _ _ E Fsmq eq_refl)|exact Gt].
    + rewrite (Fr Fst eq_refl). exact Ct.
    + exact I.
    + intros X. contradiction.
  - (* component *)
    destruct (li_COMP s L O) as [B1 [B2 [B3 B4]]].
    set (res := timed_add TMissingHandshake now (h_add HComponentHs (h_add HError (timed_reset_all now t)))).
    assert (E : eff [Fh; Ft] (mkP (fun _ => False) (fun k => k = HError \/ k = HComponentHs) (fun _ => False)
                               (fun k => k = TMissingHandshake)) t res).
    { unfold res.
      assert (E1 : eff [Fh] (mkP (fun _ => False) (fun k => k = HError \/ k = HComponentHs) (fun _ => False)
                               (fun k => k = TMissingHandshake)) t (h_add HError (timed_reset_all now t))).
      { eseq ltac:(apply (timed_reset_all_eff pnone)) ltac:(apply h_add_eff); psolve. }
      assert (E2 : eff [Fh] (mkP (fun _ => False) (fun k => k = HError \/ k = HComponentHs) (fun _ => False)
                               (fun k => k = TMissingHandshake)) t (h_add HComponentHs (h_add HError (timed_reset_all now t)))).
      { eseq ltac:(exact E1) ltac:(apply h_add_eff); psolve. }
      eseq ltac:(exact E2) ltac:(apply timed_add_eff); psolve. }
    assert (Fr : frame [Fh; Ft] t res) by (apply (ef_L _ _ _ _ E); unfold live; rewrite (ef_nd _ _ _ _ E eq_refl), Ct; discriminate).
    assert (HK : forall k, In k (hk res) -> is_baseh k = true).
    { intros k X. destruct (ef_h _ _ _ _ E _ X) as [Y|[Y|Y]]; [exact (B1 k Y)|subst; reflexivity|subst; reflexivity]. }
    assert (NTM : ~ hasTMF res).
    { intro X. destruct (ef_t _ _ _ _ E _ X) as [Y|Y]; [exact (B3 Y)|discriminate Y]. }
    assert (JR0 : JT false false false (None, True) res /\ st res = Connected).
    { apply mk.
      + apply (linv_open t res Lt Fr Pt Ct); try assumption.
        * apply NRaw; congruence.
        * intro X. congruence.
        * intros k X. right. left. exact (HK k X).
        * intro X. specialize (HK _ X). discriminate.
        * intros k X Y. specialize (HK _ X). destruct k; discriminate.
        * intro X. contradiction.
        * intros [X|X]; rewrite (Fr Foh eq_refl) in X; congruence.
        * intros _. split; [exact HK|]. split; [rewrite (Fr Fid eq_refl); exact B2|split; [exact NTM|rewrite (Fr Fmand eq_refl); exact B4]].
      + apply (ginv_conv t); [exact (ef_U _ _ _ _ E Ftlss eq_refl)|exact (ef_U _ _ _ _ E Fsmq eq_refl)|exact Gt].
      + rewrite (Fr Fst eq_refl). exact Ct.
      + exact I.
      + intros X. specialize (HK _ X). discriminate. }
    destruct JR0 as [JR0 JC]. fold res. destruct (stream_id res); cbn [fst ret]; (split; [try (apply jt_send_handshake; [|rewrite (Fr Fmand eq_refl); exact B4]); repeat peelJ|]).
    + rewrite (ef_nd _ _ _ _ (send_gated_eff WHandshake false true res) eq_refl). exact JC.
    + rewrite (ef_nd _ _ _ _ (xmpp_disconnect_eff now res) eq_refl). exact JC.
  - (* raw *) split; [repeat peelJ|].
    rewrite (ef_nd _ _ _ _ (stream_negotiation_success_eff pnone (timed_reset_all now t)) eq_refl).
    rewrite (ef_nd _ _ _ _ (timed_reset_all_eff pnone now t) eq_refl). exact Ct.
  - (* stub *) split; [exact Base|exact Ct].
Qed.

(* ------------------------------------------------------------------ one chunk of parsed items *)
Definition LocC (s : state) : Prop :=
  st s = Disconnected ->
  sm_enabled s = false /\
  (ps s = PClosed \/ ps s = PDead \/
   (ps s <> PDepth0 /\ (forall k, In k (hk s) -> is_baseh k = true) /\ (forall i, In i (ik s) -> i = IKLegacy))).
Definition CInv (s : state) : Prop := HInv s /\ st s <> Connecting /\ VD (None, True) s /\ LocC s.

Lemma cinv_jt s : CInv s -> JT false false false (None, True) s.
Proof.
  intros [H [N [D _]]]. split; [exact H|]. split; [intro X; discriminate X|]. split; [intro X; discriminate X|].
  split; [exact N|]. split; [exact D|]. split; [intro X; discriminate X|intros _; exact I].
Qed.
Lemma jt_cinv s : JT false false false (None, True) s -> LocC s -> CInv s.
Proof. intros [H [_ [_ [N [D _]]]]] LC. split; [exact H|]. split; [exact N|]. split; [exact D|exact LC]. Qed.

Lemma conn_disconnect_sme s :
  st (fst (conn_disconnect s)) = Disconnected -> (st s = Disconnected -> sm_enabled s = false) ->
  sm_enabled (fst (conn_disconnect s)) = false.
Proof.
  unfold conn_disconnect. destruct (st s) eqn:E; cbn [fst ret]; [auto| |].
  all: destruct (negb (sm_alloc s)); cbn [fst]; [intro X; cbn in X; congruence|].
  all: intros _ _; cbv zeta; break_if; unfold reset_sm_for_reconnect, upg; cbv zeta; break_if; reflexivity.
Qed.

Lemma stream_end_J eo s : JT false false false eo s -> JT false false false eo (fst (stream_end s)).
Proof. intro H. change (JR false false false eo (stream_end s)). cbv beta iota delta [stream_end]. repeat symJR. Qed.
Lemma stream_end_loc s : (st s = Disconnected -> sm_enabled s = false) ->
  ps (fst (stream_end s)) = ps s /\ (st (fst (stream_end s)) = Disconnected -> sm_enabled (fst (stream_end s)) = false).
Proof.
  intro H. split.
  - destruct (stream_end_good s) as [E _]. exact (ef_U _ _ _ _ E Fps eq_refl).
  - unfold stream_end. destruct (negb (sm_alloc s)); cbn [fst]; [exact H|].
    intro X. apply conn_disconnect_sme; [exact X|exact H].
Qed.

Lemma hinv_set_ps v s : v <> PDepth0 -> HInv s -> HInv (set_ps v s).
Proof.
  intros V [[G1 G2] Lv]. split; [constructor; [exact G1|exact G2]|]. intro L'. apply linv_set_ps; [exact V|apply Lv; exact L'].
Qed.
Lemma cinv_set_ps v s :
  v <> PDepth0 -> (v = PDead \/ v = PClosed \/ (ps s <> PClosed /\ ps s <> PDead /\ ps s <> PDepth0)) ->
  CInv s -> CInv (set_ps v s).
Proof.
  intros V W [H [N [D LC]]]. split; [apply hinv_set_ps; assumption|]. split; [exact N|]. split; [exact D|].
  intro X. destruct (LC X) as [A B]. split; [exact A|].
  destruct W as [W|[W|[W1 [W2 W3]]]]; [right; left; exact W|left; exact W|].
  destruct B as [B|[B|[B1 [B2 B3]]]]; [contradiction|contradiction|].
  right. right. split; [exact V|split; [exact B2|exact B3]].
Qed.

Lemma cinv_connected_p0 s : CInv s -> ps s = PDepth0 -> st s = Connected.
Proof.
  intros [_ [N [_ LC]]] P. destruct (st s) eqn:E; [|congruence|reflexivity].
  destruct (LC E) as [_ [X|[X|[X _]]]]; congruence.
Qed.
Lemma cinv_dpre s : CInv s -> ps s = POpen -> DPre s.
Proof.
  intros [H [N [D LC]]] P. split; [exact H|]. split; [exact P|]. split; [exact N|]. split; [exact D|].
  intro X. destruct (LC X) as [A [B|[B|[_ [B C]]]]]; try congruence. auto.
Qed.
Lemma dpre_cinv s : DPre s -> CInv s.
Proof.
  intros [H [P [N [D LD]]]]. split; [exact H|]. split; [exact N|]. split; [exact D|].
  intro X. destruct (LD X) as [A [B C]]. split; [exact A|]. right. right. split; [rewrite P; discriminate|auto].
Qed.

Lemma jt_start0 b v s :
  v <> PDepth0 -> CInv s -> st s = Connected -> ps s = PDepth0 -> JT false false false (None, True) (start0 b v s).
Proof.
  intros V [[G Lv] [N [D _]]] C P.
  assert (Ls : live s) by (unfold live; rewrite C; discriminate).
  split; [split; [destruct G as [G1 G2]; constructor; [exact G1|exact G2]|intros _; apply linv_start0; auto]|].
  split; [intro X; discriminate X|]. split; [intro X; discriminate X|]. split; [exact N|].
  split; [|split; [intro X; discriminate X|intros _; exact I]].
  intros _ F. destruct (D Ls F) as [_ D2]. split; [intros e X; discriminate X|exact D2].
Qed.

Lemma stream_start_true now h v s : stream_start now true h (set_ps v s) = open_handler now (start_st v h s).
Proof. reflexivity. Qed.
Lemma stream_start_false now h v s :
  stream_start now false h (set_ps v s) = conn_disconnect (start0 false v s).
Proof. reflexivity. Qed.

Lemma fst3_let {A B C} (r : A * B) (c : C) : fst (fst (let '(a, b) := r in (a, b, c))) = fst r.
Proof. destruct r; reflexivity. Qed.
Lemma fst3_let' {A B C} (r : A * list B) (b0 : list B) (c : C) : fst (fst (let '(a, b) := r in (a, b0 ++ b, c))) = fst r.
Proof. destruct r; reflexivity. Qed.
Lemma feed_item_inv now it s : CInv s -> CInv (fst (fst (feed_item now it s))).
Proof.
  intro CI. unfold feed_item.
  destruct (ps s) eqn:Eps.
  - (* no stream yet *)
    pose proof (cinv_connected_p0 s CI Eps) as Cn.
    destruct it; cbn [fst]; try (apply cinv_set_ps; [discriminate|left; reflexivity|exact CI]).
    + rewrite stream_start_true.
      rewrite fst3_let.
      destruct CI as [[G Lv] [N [D LC]]].
      destruct (open_handler_inv now POpen has_id s ltac:(discriminate) G (Lv ltac:(unfold live; rewrite Cn; discriminate)) Cn Eps D) as [J C].
      apply jt_cinv; [exact J|]. intro X. congruence.
    + destruct (ns_eqb (e_ns e) NsStreams); cbn [fst]; [apply cinv_set_ps; [discriminate|left; reflexivity|exact CI]|].
      set (r := stream_start now (ename_eqb (e_name e) NmStream) false (set_ps PClosed s)).
      assert (J : JT false false false (None, True) (fst r) /\ ps (fst r) = PClosed /\
                  (st (fst r) = Disconnected -> sm_enabled (fst r) = false)).
      { unfold r. destruct (ename_eqb (e_name e) NmStream).
        - rewrite stream_start_true.
          destruct CI as [[G Lv] [N [D LC]]].
          destruct (open_handler_inv now PClosed false s ltac:(discriminate) G (Lv ltac:(unfold live; rewrite Cn; discriminate)) Cn Eps D) as [J C].
          split; [exact J|]. split; [|intro X; congruence].
          destruct (open_handler_good now (start_st PClosed false s)) as [E _]. rewrite (ef_U _ _ _ _ E Fps eq_refl). reflexivity.
        - rewrite stream_start_false.
          pose proof (jt_start0 false PClosed s ltac:(discriminate) CI Cn Eps) as J0.
          split; [repeat peelJ|]. split.
          + destruct (conn_disconnect_good (start0 false PClosed s)) as [E _]. rewrite (ef_U _ _ _ _ E Fps eq_refl). reflexivity.
          + intro X. apply conn_disconnect_sme; [exact X|]. intro Y. change (st s = Disconnected) in Y. congruence. }
      clearbody r. destruct r as [s1 o1]. cbn [fst] in J. destruct J as [J [P1 S1]].
      destruct (crashed s1); cbn [fst].
      * apply jt_cinv; [exact J|]. intro X. split; [exact (S1 X)|left; exact P1].
      * destruct (stream_end_loc s1 S1) as [P2 S2]. pose proof (stream_end_J _ s1 J) as J2.
        destruct (stream_end s1) as [s2 o2]. cbn [fst] in *.
        apply jt_cinv; [exact J2|]. intro X. split; [exact (S2 X)|left; congruence].
  - (* inside the stream *)
    destruct it; cbn [fst].
    + apply cinv_set_ps; [discriminate|right; right; rewrite Eps; repeat split; discriminate|exact CI].
    + rewrite fst3_let. apply dpre_cinv, dispatch_inv, cinv_dpre; assumption.
    + rewrite fst3_let.
      assert (C1 : CInv (set_ps PClosed s)) by (apply cinv_set_ps; [discriminate|right; left; reflexivity|exact CI]).
      assert (S1 : st (set_ps PClosed s) = Disconnected -> sm_enabled (set_ps PClosed s) = false).
      { intro X. destruct C1 as [_ [_ [_ LC]]]. destruct (LC X) as [A _]. exact A. }
      destruct (stream_end_loc _ S1) as [P2 S2].
      apply jt_cinv; [apply stream_end_J, cinv_jt; exact C1|]. intro X. split; [exact (S2 X)|left; rewrite P2; reflexivity].
    + apply cinv_set_ps; [discriminate|left; reflexivity|exact CI].
  - (* a nested stream element is swallowed *)
    destruct it; cbn [fst]; try (apply cinv_set_ps; [discriminate|first [left; reflexivity|right; right; rewrite Eps; repeat split; discriminate]|exact CI]).
    destruct n as [|[|m]]; cbn [fst]; try (apply cinv_set_ps; [discriminate|right; right; rewrite Eps; repeat split; discriminate|exact CI]).
    rewrite fst3_let.
    apply dpre_cinv, dispatch_inv, cinv_dpre; [|reflexivity].
    apply cinv_set_ps; [discriminate|right; right; rewrite Eps; repeat split; discriminate|exact CI].
  - destruct it; cbn [fst]; apply cinv_set_ps; try discriminate; try exact CI; left; reflexivity.
  - destruct it; cbn [fst]; exact CI.
Qed.

Lemma feed_items_inv now its : forall s, CInv s -> CInv (fst (fst (feed_items now its s))).
Proof.
  induction its as [|it r IH]; intros s CI; simpl; [exact CI|].
  destruct (crashed s); [exact CI|].
  pose proof (feed_item_inv now it s CI) as C1. destruct (feed_item now it s) as [[s1 o1] bad]. cbn [fst] in C1.
  destruct bad; [exact C1|].
  pose proof (IH s1 C1) as C2. destruct (feed_items now r s1) as [[s2 o2] bad2]. exact C2.
Qed.

(* ------------------------------------------------------------------ timed handlers *)
Definition GG (s : state) : Prop := st s = Disconnected -> sm_enabled s = false.
Lemma gg_of_eff c p s s' : eff c p s s' -> fmem Fsme c = false -> fmem Fdisc c = false -> GG s -> GG s'.
Proof.
  intros E A B G X. rewrite (ef_nd _ _ _ _ E B) in X. specialize (G X).
  destruct (ef_sme _ _ _ _ E A) as [Y|Y]; congruence.
Qed.
Lemma gg_conn_disconnect s : GG s -> GG (fst (conn_disconnect s)).
Proof. intros G X. apply conn_disconnect_sme; [exact X|exact G]. Qed.


Lemma classic_live s : live s \/ ~ live s.
Proof. unfold live. destruct (st s); [right; tauto|left; discriminate|left; discriminate]. Qed.

Lemma jt_dead e c p s s' :
  ~ live s -> GInv s -> eff c p s s' -> tls_support s' = false -> JT false false false (e, True) s'.
Proof.
  intros NL G E T.
  assert (D : st s' = Disconnected).
  { destruct (ef_st _ _ _ _ E) as [X|X]; [|exact X]. rewrite X. destruct (st s) eqn:Y; [reflexivity| |]; exfalso; apply NL; unfold live; congruence. }
  assert (NL' : ~ live s') by (unfold live; rewrite D; tauto).
  split; [split; [constructor; [exact T|intros w H; apply (gi_S s G), (ef_smq _ _ _ _ E), H]|intro X; contradiction]|].
  split; [intro X; discriminate X|]. split; [intro X; discriminate X|]. split; [rewrite D; discriminate|].
  split; [intros X; contradiction|]. split; [intro X; discriminate X|intros _; exact I].
Qed.

Lemma jt_auth_legacy e now s :
  JT false false false (e, True) s ->
  (live s -> f_legacy_auth s = true /\ typ s = TClient /\ (f_tls_mandatory s = true -> is_secured s = true) /\
             sm_enabled s = false) ->
  JT false false false (e, True) (auth_legacy now s).
Proof.
  intros [[G Lv] C] J.
  assert (T : tls_support (auth_legacy now s) = false).
  { pose proof (ef_U _ _ _ _ (auth_legacy_eff now s) Ftlss eq_refl) as X. unfold eq_on in X. rewrite X. apply (gi_T s G). }
  destruct (classic_live s) as [Ls|Ls]; [|eapply jt_dead; [exact Ls|exact G|apply auth_legacy_eff|exact T]].
  destruct (J Ls) as [J1 [J2 [J3 J4]]].
  split.
  - eapply (hinv_mono_gen (f_legacy_auth s = true /\ typ s = TClient /\ (f_tls_mandatory s = true -> is_secured s = true)) False _ _ s (auth_legacy now s));
      [intro X; exact X|intros []|split; [exact G|exact Lv]|apply auth_legacy_eff|reflexivity|..]; cbn.
    + unfold eLegacy. intros x [X|X]; [right; left; rewrite X, J4; auto|left; exact X].
    + intros k [X|X]; subst; discriminate.
    + tauto.
    + intros i X. left. exact X.
    + intro X. discriminate X.
    + intros _ X. eapply keep_hk; [apply auth_legacy_eff|reflexivity|exact X].
  - eapply ctx_step; [apply auth_legacy_eff|reflexivity|reflexivity|reflexivity|..|exact C]; cbn; try tauto;
      try (intros ? X; left; exact X); try (intro X; discriminate X).
Qed.

Definition TJ (e : option elem) (s : state) : Prop := JT false false false (e, True) s /\ GG s.

Lemma tj_auth_timer e now s :
  TJ e s -> (live s -> hasTMF s) -> TJ e (fst (auth 1 now s)).
Proof.
  intros [J Gg] HT. pose proof J as [[G Lv] C].
  destruct (auth_eff now s) as [EA TA].
  assert (GGa : GG (fst (auth 1 now s))).
  { pose proof (auth_body_spec 1 now s (gi_T s G)) as B.
    remember (fst (auth 1 now s)) as s'. remember (snd (auth 1 now s)) as o. clear Heqs' Heqo EA TA.
    destruct B as [Em|m kh s2 Em Hm Kh s1 Hs|Em _ _ _|Em].
    - apply gg_conn_disconnect. exact Gg.
    - pose proof (mech_step_eff m kh s Kh) as E1.
      destruct Hs as [Hs|[n Hs]]; subst s2; intro X;
        [|change (st s1 = Disconnected) in X; change (sm_enabled s1 = false)];
        apply (gg_of_eff _ _ s s1 E1 eq_refl eq_refl Gg X).
    - exact (gg_of_eff _ _ s _ (auth_legacy_eff now s) eq_refl eq_refl Gg).
    - exact (gg_of_eff _ _ s _ (xmpp_disconnect_eff now s) eq_refl eq_refl Gg). }
  split; [|exact GGa].
  destruct (classic_live s) as [Ls|Ls]; [|eapply jt_dead; [exact Ls|exact G|exact EA|exact TA]].
  specialize (Lv Ls). pose proof (li_TMF s Lv (HT Ls)) as HF.
  destruct (li_XF s Lv HF) as [X1 [[X2a X2b] [X3 [X4 X5]]]]. specialize (X5 (HT Ls)).
  pose proof (auth_body_spec 1 now s (gi_T s G)) as B.
  remember (fst (auth 1 now s)) as s'. remember (snd (auth 1 now s)) as o. clear Heqs' Heqo EA TA GGa.
  destruct B as [Em|m kh s2 Em Hm Kh s1 Hs|Em Ty La _|Em].
  - repeat peelJ.
  - rewrite X5 in Hm. discriminate Hm.
  - apply jt_auth_legacy; [exact J|]. intros _. split; [exact La|]. split; [exact Ty|]. split; [|exact X2b].
    intro M. rewrite M in Em. destruct (is_secured s); [reflexivity|discriminate].
  - repeat peelJ.
Qed.

Lemma tj_step e c p s s' :
  TJ e s -> eff c p s s' -> subl c cK = true -> fmem FhD c = false -> fmem FidD c = false ->
  fmem Fsme c = false -> fmem Fdisc c = false ->
  (forall x, pw p x -> benignE x) -> (forall k, pt p k -> k <> TMissingFeatures) ->
  (forall k, ~ ph p k) -> (forall i, pid p i -> i = IKLegacy) ->
  TJ e s'.
Proof.
  intros [J G] E Sub F1 F2 F3 F4 Pw Pt Ph Pi. split; [|eapply gg_of_eff; eassumption].
  eapply jt_step; try eassumption.
  - intros k X. destruct (Ph k X).
  - intros i X. left. auto.
  - intro X. congruence.
  - intros X. discriminate X.
Qed.

Lemma call_timed_TJ e k now s :
  TJ e s -> (live s -> k = TMissingFeatures -> hasTMF s) ->
  TJ e (fst (fst (call_timed k now s))).
Proof.
  intros T HT. destruct k; cbv beta iota delta [call_timed]; cbn [fst];
    try (eapply tj_step; [exact T|apply xmpp_disconnect_eff|reflexivity|reflexivity|reflexivity|reflexivity|reflexivity|..];
         [pw_tac|pt_tac|cbn; tauto|cbn; tauto]).
  - exact T.
  - rewrite fst3_let. apply tj_auth_timer; [exact T|]. intro L. apply HT; [exact L|reflexivity].
  - rewrite fst3_let. destruct T as [J G]. split; [repeat peelJ|apply gg_conn_disconnect; exact G].
Qed.

Lemma timed_lookup_In k s x : timed_lookup k s = Some x -> In k (tk s).
Proof.
  unfold timed_lookup. destruct (find (fun y => tkind_eqb k (fst (fst y))) (timed s)) as [[[k' en] stp]|] eqn:E; [|discriminate].
  intros _. apply find_some in E as [A B]. cbn in B. apply tkind_eqb_eq in B. subst k'.
  unfold tk. apply in_map_iff. exists (k, en, stp). split; [reflexivity|exact A].
Qed.

Lemma visit_timed_TJ e now r k : TJ e (fst r) -> TJ e (fst (visit_timed now r k)).
Proof.
  destruct r as [s o]. cbn [fst]. intro T. unfold visit_timed.
  destruct (crashed s); [exact T|].
  destruct (timed_lookup k s) as [[en stp]|] eqn:Lk; [|exact T].
  destruct (negb en); [exact T|].
  destruct (tkind_eqb k TUser && negb (neg_done s)); [exact T|].
  destruct (now - stp >=? tperiod s k); [|exact T].
  pose proof (timed_lookup_In k s _ Lk) as Ik.
  assert (T1 : TJ e (timed_set_stamp k now s)).
  { eapply tj_step; [exact T|apply (timed_set_stamp_eff pnone)|reflexivity|reflexivity|reflexivity|reflexivity|reflexivity|..]; cbn; tauto. }
  assert (T2 : TJ e (fst (fst (call_timed k now (timed_set_stamp k now s))))).
  { apply call_timed_TJ; [exact T1|]. intros _ X. subst k. unfold hasTMF.
    pose proof (ef_U _ _ _ _ (timed_set_stamp_eff pnone TMissingFeatures now s) Ft eq_refl) as Y. unfold eq_on in Y. rewrite Y. exact Ik. }
  destruct (call_timed k now (timed_set_stamp k now s)) as [[s2 o2] keep]. cbn [fst] in *.
  destruct keep; [exact T2|].
  eapply tj_step; [exact T2|apply (timed_del_eff pnone)|reflexivity|reflexivity|reflexivity|reflexivity|reflexivity|..]; cbn; tauto.
Qed.
Lemma fold_visit_timed_TJ e now ks : forall r, TJ e (fst r) -> TJ e (fst (fold_left (visit_timed now) ks r)).
Proof. induction ks as [|k ks IH]; intros r T; simpl; [exact T|]. apply IH. apply visit_timed_TJ. exact T. Qed.

Lemma fire_timed_TJ e now s : TJ e s -> TJ e (fst (fire_timed now s)).
Proof.
  intro T. unfold fire_timed. destruct (st s); try exact T. cbv zeta.
  apply fold_visit_timed_TJ. cbn [fst].
  eapply (tj_step e [] pnone); [exact T| |reflexivity|reflexivity|reflexivity|reflexivity|reflexivity|..]; cbn; try tauto.
  apply eff_of_frame; try reflexivity; try (intros X; exact X).
  intros f H; destruct f; try discriminate H; try reflexivity.
  unfold eq_on, tk. simpl. rewrite ?map_map. simpl. apply map_ext. intros [[a b] c]. reflexivity.
Qed.

(* ------------------------------------------------------------------ step level *)
Lemma inv_tj s : Inv s -> st s <> Connecting -> TJ None s.
Proof.
  intros [H [P G]] N. split; [|exact G]. split; [exact H|].
  split; [intro X; discriminate X|]. split; [intro X; discriminate X|]. split; [exact N|].
  split; [|split; [intro X; discriminate X|intros _; exact I]].
  intros L F. split; [intros e X; discriminate X|]. intros A B. left. exact (P L F A B).
Qed.
Lemma tj_inv s : TJ None s -> Inv s.
Proof.
  intros [[H [_ [_ [_ [D _]]]]] G]. split; [exact H|]. split; [|exact G].
  intros L F A B. destruct (D L F) as [_ D2]. destruct (D2 A B) as [X|[e [X _]]]; [exact X|discriminate X].
Qed.
Lemma cinv_tj s : CInv s -> TJ None s.
Proof.
  intros C. split; [apply cinv_jt; exact C|]. destruct C as [_ [_ [_ LC]]]. intro X. apply (LC X).
Qed.
Lemma tj_cinv s : TJ None s -> st s = Connected -> CInv s.
Proof.
  intros [[H [_ [_ [N [D _]]]]] G] C. split; [exact H|]. split; [exact N|]. split; [exact D|]. intro X. congruence.
Qed.

(* the send phase *)
Lemma stamped_In (l : list entry) : forall n acc x,
  In x (snd (fold_left (fun a y => (fst a + 1, snd a ++ [(fst (fst y), snd (fst y), snd y, fst a)])) l (n, acc))) ->
  In x acc \/ exists y, In y l /\ fst (fst (fst x)) = fst (fst y).
Proof.
  induction l as [|y r IH]; intros n acc x H; simpl in H; [left; exact H|].
  destruct (IH _ _ _ H) as [A|[z [A B]]].
  - apply in_app_iff in A as [A|[A|[]]]; [left; exact A|right]. exists y. split; [left; reflexivity|subst x; reflexivity].
  - right. exists z. split; [right; exact A|exact B].
Qed.

Definition flushed (s : state) : state :=
  let countable := if sm_enabled s then filter (fun x => negb (snd x)) (sendq s) else [] in
  let stamped := snd (fold_left (fun a x => (fst a + 1, snd a ++ [(fst (fst x), snd (fst x), snd x, fst a)])) countable (sm_sent s, [])) in
  set_sm_sent (sm_sent s + Z.of_nat (List.length countable)) (set_smq (smq s ++ stamped) (set_sendq [] s)).

Lemma hinv_flushed s : HInv s -> live s -> HInv (flushed s).
Proof.
  intros [[G1 G2] Lv] Ls. specialize (Lv Ls). unfold flushed. cbv zeta. split.
  - constructor; [exact G1|]. intros w H. unfold sw in H. cbn in H. rewrite map_app in H. apply in_app_iff in H as [H|H]; [apply G2; exact H|].
    apply in_map_iff in H as [x [X1 X2]]. subst w.
    destruct (stamped_In _ _ _ _ X2) as [[]|[y [Y1 Y2]]]. rewrite Y2.
    destruct (sm_enabled s); [|destruct Y1]. apply filter_In in Y1 as [Y1 Y3].
    apply (li_Q s Lv y Y1). destruct (snd y); [discriminate|reflexivity].
  - intros _. constructor.
    + intro A. destruct (li_C s Lv A) as [X1 [X2 [X3 X4]]]. split; [exact X1|]. split; [exact X2|]. split; [reflexivity|exact X4].
    + exact (li_XF s Lv). + exact (li_XT s Lv). + exact (li_XS s Lv). + exact (li_XP s Lv).
    + exact (li_TMF s Lv). + exact (li_POA s Lv). + exact (li_POT s Lv). + exact (li_POP s Lv). + exact (li_O s Lv).
    + exact (li_R s Lv). + exact (li_RP s Lv). + exact (li_RAW s Lv). + exact (li_STUB s Lv). + exact (li_COMP s Lv).
    + intros x [].
    + intros A [B|[x [[] _]]]. apply (li_M s Lv A). left. exact B.
    + intros _ x [].
    + intros x [].
    + intros x [].
Qed.

Lemma send_phase_eq s : st s = Connected ->
  send_phase s =
    (let o := map (fun x => OWire (tls_present s) (fst (fst x))) (sendq s) in
     if negb (err (flushed s) =? 0) then let '(s2, o2) := conn_disconnect (set_err ECONNABORTED (flushed s)) in (s2, o ++ o2)
     else (flushed s, o)).
Proof. intro C. unfold send_phase. rewrite C. reflexivity. Qed.

Lemma tj_flushed s : TJ None s -> st s = Connected -> TJ None (flushed s).
Proof.
  intros [[H [C1 [C2 [C3 [C4 [C5 C6]]]]]] G] Cn.
  assert (Ls : live s) by (unfold live; rewrite Cn; discriminate).
  split; [|exact G]. split; [apply hinv_flushed; assumption|].
  split; [exact C1|]. split; [exact C2|]. split; [exact C3|]. split; [exact C4|]. split; [exact C5|exact C6].
Qed.

Lemma send_phase_inv s :
  Inv s -> Inv (fst (send_phase s)) /\ (live (fst (send_phase s)) -> sendq (fst (send_phase s)) = []) /\
  reset_parser (fst (send_phase s)) = reset_parser s.
Proof.
  intro I. destruct (st s) eqn:Cn.
  - unfold send_phase. rewrite Cn. cbn [fst ret]. split; [exact I|]. split; [|reflexivity]. intro L. unfold live in L. congruence.
  - unfold send_phase. rewrite Cn. cbn [fst ret]. split; [exact I|]. split; [|reflexivity]. intros _.
    destruct I as [[_ Lv] _]. destruct (li_C s (Lv ltac:(unfold live; rewrite Cn; discriminate)) Cn) as [_ [_ [X _]]]. exact X.
  - rewrite (send_phase_eq s Cn). cbv zeta.
    assert (T : TJ None (flushed s)) by (apply tj_flushed; [apply inv_tj; [exact I|congruence]|exact Cn]).
    destruct (negb (err (flushed s) =? 0)).
    + set (u := set_err ECONNABORTED (flushed s)).
      assert (Tu : TJ None u).
      { destruct T as [J G]. split; [unfold u; repeat peelJ|exact G]. }
      pose proof (conn_disconnect_eff pnone u) as E.
      assert (T2 : TJ None (fst (conn_disconnect u))).
      { destruct Tu as [J G]. split; [repeat peelJ|apply gg_conn_disconnect; exact G]. }
      pose proof (ef_U _ _ _ _ E Fsq eq_refl) as Q1. pose proof (ef_U _ _ _ _ E Frp eq_refl) as Q2. unfold eq_on in Q1, Q2.
      destruct (conn_disconnect u) as [s2 o2]. cbn [fst] in *.
      split; [apply tj_inv; exact T2|]. split; [intros _; rewrite Q1; reflexivity|rewrite Q2; reflexivity].
    + cbn [fst]. split; [apply tj_inv; exact T|]. split; [intros _; reflexivity|reflexivity].
Qed.

(* the parser reset at the beginning of an iteration *)
Definition do_reset (s : state) : state := if reset_parser s then set_ps PDepth0 (set_reset_parser false s) else s.
Lemma inv_reset s : Inv s -> (live s -> sendq s = []) -> Inv (do_reset s) /\ reset_parser (do_reset s) = false /\
  st (do_reset s) = st s /\ (live s -> sendq (do_reset s) = []).
Proof.
  intros I Q. unfold do_reset. destruct (reset_parser s) eqn:R; [|split; [exact I|split; [exact R|split; [reflexivity|exact Q]]]].
  split; [|split; [reflexivity|split; [reflexivity|exact Q]]].
  destruct I as [[[G1 G2] Lv] [P G]]. split; [|split; [exact P|exact G]].
  split; [constructor; [exact G1|exact G2]|]. intro L'. specialize (Lv L'). specialize (Q L'). constructor.
  - exact (li_C s Lv). - exact (li_XF s Lv). - exact (li_XT s Lv). - exact (li_XS s Lv). - exact (li_XP s Lv).
  - exact (li_TMF s Lv).
  - intros A B _. rewrite (li_R s Lv A B) in R. discriminate.
  - intros A _. destruct (li_POT s Lv A (or_introl R)) as [X1 [X2 _]]. split; [exact X1|]. split; [exact X2|]. intro X. contradiction.
  - exact (li_POP s Lv). - exact (li_O s Lv).
  - intros _ _. reflexivity.
  - intros _ _ X. discriminate X.
  - exact (li_RAW s Lv). - exact (li_STUB s Lv). - exact (li_COMP s Lv).
  - exact (li_Q s Lv). - exact (li_M s Lv). - exact (li_D s Lv). - exact (li_L s Lv).
  - intros x A. change (sendq (set_ps PDepth0 (set_reset_parser false s))) with (sendq s) in A. rewrite Q in A. destruct A.
Qed.

(* a connection attempt ends without a connection *)
Lemma inv_dead s : GInv s -> st s = Disconnected -> sm_enabled s = false -> Inv s.
Proof.
  intros G D S. split; [split; [exact G|intro L; unfold live in L; contradiction]|].
  split; [intro L; unfold live in L; contradiction|intros _; exact S].
Qed.

(* the socket connects *)
Lemma linv_connected s : LInv s -> st s = Connecting -> reset_parser s = false -> LInv (set_st Connected s).
Proof.
  intros L C R. destruct (li_C s L C) as [[F1 [F2 [F3 [F4 [F5 F6]]]]] [S1 [S2 [O1 [O2 O3]]]]].
  assert (NH : forall k, In k (hk s) -> k <> HUser -> False) by (intros k A B; apply B, F3, A).
  constructor.
  - intro X. discriminate X.
  - intro X. exfalso. apply (NH _ X). discriminate.
  - intro X. exfalso. apply (NH _ X). discriminate.
  - intros k X Y. exfalso. apply (NH _ X). intro Z. subst. discriminate.
  - intros k X Y. exfalso. apply (NH _ X). intro Z. subst. discriminate.
  - intro X. contradiction.
  - intros _ _ _. repeat split; assumption.
  - intro X. contradiction.
  - intros [X|X]; contradiction.
  - intro X. contradiction.
  - intros _ _. exact R.
  - intros _ _ X. change (reset_parser s = true) in X. congruence.
  - exact (li_RAW s L).
  - exact (li_STUB s L).
  - intros OC. split; [intros k X; rewrite (F3 k X); reflexivity|]. split; [exact F4|split; [exact F5|exact (proj2 (proj2 (proj2 (li_COMP s L OC))))]].
  - intros x X. change (In x (sendq s)) in X. rewrite S2 in X. destruct X.
  - intros _ [[k [X Y]]|[x [X _]]]; [exfalso; apply (NH _ X); intro Z; subst; discriminate|].
    change (In x (sendq s)) in X. rewrite S2 in X. destruct X.
  - intros _ x X. change (In x (sendq s)) in X. rewrite S2 in X. destruct X.
  - intros x X. change (In x (sendq s)) in X. rewrite S2 in X. destruct X.
  - intros x X. change (In x (sendq s)) in X. rewrite S2 in X. destruct X.
Qed.

Lemma tj_connected s : Inv s -> st s = Connecting -> reset_parser s = false -> TJ None (set_st Connected s).
Proof.
  intros [[[G1 G2] Lv] [P G]] C R.
  assert (Ls : live s) by (unfold live; rewrite C; discriminate). specialize (Lv Ls).
  destruct (li_C s Lv C) as [[F1 [F2 [F3 _]]] _].
  split; [|intro X; discriminate X].
  split; [split; [constructor; [exact G1|exact G2]|intros _; apply linv_connected; assumption]|].
  split; [intro X; discriminate X|]. split; [intro X; discriminate X|]. split; [discriminate|].
  split; [|split; [intro X; discriminate X|intros _; exact I]].
  intros _ X. specialize (F3 _ X). discriminate.
Qed.

Lemma conn_established_inv now s :
  Inv s -> st s = Connecting -> reset_parser s = false -> TJ None (fst (conn_established now (set_st Connected s))).
Proof.
  intros I C R. pose proof (tj_connected s I C R) as T. set (u := set_st Connected s) in *.
  assert (NHu : ~ hasT u /\ ~ hasS u /\ sendq u = []).
  { destruct I as [[_ Lv] _]. destruct (li_C s (Lv ltac:(unfold live; rewrite C; discriminate)) C) as [[_ [_ [F3 _]]] [_ [S2 _]]].
    split; [intro X; specialize (F3 _ X); discriminate|]. split; [|exact S2].
    intros [k [X Y]]. specialize (F3 _ X). subst. discriminate. }
  destruct NHu as [NT [NS SQ]].
  unfold conn_established. cbv zeta.
  assert (FIN : forall s1 o1 (ok : bool), TJ None s1 ->
            TJ None (fst (if negb ok then let '(s2, o2) := conn_disconnect s1 in (s2, o1 ++ o2)
                          else if is_raw s1 then (set_neg_done true (timed_reset_all now s1), o1 ++ [ORawConnect])
                          else (conn_open_stream s1, o1)))).
  { intros s1 o1 ok [J G]. destruct ok; cbn [negb].
    - destruct (is_raw s1); cbn [fst].
      + split; [repeat peelJ|]. eapply (gg_of_eff [] pnone s1); [|reflexivity|reflexivity|exact G].
        eapply eff_trans with (c1 := []) (c2 := []); [apply (timed_reset_all_eff pnone)|eff_frame].
      + split; [repeat peelJ|]. exact (gg_of_eff _ _ s1 _ (conn_open_stream_eff s1) eq_refl eq_refl G).
    - pose proof (gg_conn_disconnect s1 G) as G2.
      assert (J2 : JT false false false (None, True) (fst (conn_disconnect s1))) by (repeat peelJ).
      destruct (conn_disconnect s1) as [s2 o2]. cbn [fst] in *. split; assumption. }
  destruct (f_legacy_ssl u && negb (is_raw u)); [|apply FIN; exact T].
  unfold conn_tls_start. cbv zeta.
  destruct (f_tls_disabled u); [apply FIN; exact T|].
  destruct (negb (tlsnew_ok u)); [apply FIN; exact T|].
  set (v := tl (tls_verdicts u)).
  assert (NOC : f_tls_mandatory u = true -> (hasS u \/ exists x, In x (sendq u) /\ is_cred (fst (fst x)) = true) -> False).
  { intros _ [X|[x [X _]]]; [contradiction|]. rewrite SQ in X. destruct X. }
  destruct T as [[[Gu Lu] Cu] GGu]. pose proof (Lu ltac:(unfold live; discriminate)) as Lu'.
  destruct (match tls_verdicts u with [] => true | b :: _ => b end); apply FIN.
  - split; [|intro X; discriminate X]. split; [|exact Cu].
    split; [destruct Gu as [G1 G2]; constructor; [exact G1|exact G2]|]. intros _.
    apply linv_tls_up; [exact Lu'|discriminate|exact NT|]. intros M B. destruct (NOC M B).
  - split; [|intro X; discriminate X]. split; [|exact Cu].
    split; [destruct Gu as [G1 G2]; constructor; [exact G1|exact G2]|]. intros _.
    apply linv_tls_down; [exact Lu'|exact NOC].
Qed.

(* states that differ only in fields the invariant does not read *)
Ltac linv_conv s L :=
  constructor;
  [ exact (li_C s L) | exact (li_XF s L) | exact (li_XT s L) | exact (li_XS s L) | exact (li_XP s L)
  | exact (li_TMF s L) | exact (li_POA s L) | exact (li_POT s L) | exact (li_POP s L) | exact (li_O s L)
  | exact (li_R s L) | exact (li_RP s L) | exact (li_RAW s L) | exact (li_STUB s L) | exact (li_COMP s L)
  | exact (li_Q s L) | exact (li_M s L) | exact (li_D s L) | exact (li_L s L) | exact (li_PL s L) ].
Ltac inv_conv :=
  let G1 := fresh in let G2 := fresh in let Lv := fresh in let P := fresh in let G := fresh in
  intros [[[G1 G2] Lv] [P G]];
  split; [split; [constructor; [exact G1|exact G2]|let L' := fresh in intro L'; specialize (Lv L'); linv_conv_goal Lv]|split; [exact P|exact G]]
with linv_conv_goal Lv :=
  match type of Lv with LInv ?s => linv_conv s Lv end.

Lemma inv_set_rxq v s : Inv s -> Inv (set_rxq v s).
Proof. inv_conv. Qed.
Lemma inv_connect_next v1 v2 v3 v4 s : Inv s -> Inv (set_rxq v1 (set_stamp v2 (set_cur_ep v3 (set_cands v4 s)))).
Proof. inv_conv. Qed.
Lemma ginv_conv' s s' : GInv s -> tls_support s' = tls_support s -> sw s' = sw s -> GInv s'.
Proof. intros G A B. apply (ginv_conv s); assumption. Qed.

Lemma connect_next_inv now s :
  Inv s -> st s = Connecting ->
  let r := connect_next now s in
  Inv (fst (fst r)) /\ st (fst (fst r)) = Connecting /\ reset_parser (fst (fst r)) = reset_parser s /\
  GInv (fst (fst r)).
Proof.
  intros I C. unfold connect_next. destruct (sock_connect (cands s)) as [o [[k r]|]]; cbn [fst].
  - split; [apply inv_connect_next; exact I|]. split; [exact C|]. split; [reflexivity|].
    destruct I as [[[G1 G2] _] _]. constructor; [exact G1|exact G2].
  - assert (I2 : Inv (set_cands [] s)) by (revert I; inv_conv).
    split; [exact I2|]. split; [exact C|]. split; [reflexivity|]. destruct I as [[[G1 G2] _] _]. constructor; [exact G1|exact G2].
Qed.

(* the attempt is given up: err, st := Disconnected, neg_done, the SM state is reset *)
Lemma inv_give_up e s : GInv s -> Inv (reset_sm_for_reconnect (set_neg_done false (set_st Disconnected (set_err e s)))).
Proof.
  intros [G1 G2]. apply inv_dead.
  - unfold reset_sm_for_reconnect. cbv zeta. break_if; constructor; [exact G1|exact G2|exact G1|exact G2].
  - unfold reset_sm_for_reconnect. cbv zeta. break_if; reflexivity.
  - apply reset_sm_sme.
Qed.

Lemma fire_timed_inv now s : Inv s -> Inv (fst (fire_timed now s)) /\
  (st s = Connecting -> fst (fire_timed now s) = s).
Proof.
  intro I. split.
  - destruct (st s) eqn:C; try (unfold fire_timed; rewrite C; exact I).
    apply tj_inv. apply fire_timed_TJ. apply inv_tj; [exact I|congruence].
  - intro C. unfold fire_timed. rewrite C. reflexivity.
Qed.

Lemma run_once_inv now rd s0 : Inv s0 -> Inv (fst (run_once now rd s0)).
Proof.
  intro I0. unfold run_once. destruct (crashed s0); [exact I0|].
  set (s := match rd with RdNone => s0 | _ => match st s0 with Disconnected => s0 | _ => set_rxq (rxq s0 ++ [rd]) s0 end end).
  assert (I : Inv s) by (unfold s; destruct rd; try exact I0; destruct (st s0); try exact I0; apply inv_set_rxq; exact I0).
  clearbody s. clear I0.
  destruct (send_phase_inv s I) as [I1 [Q1 R1]]. destruct (send_phase s) as [s1 o1]. cbn [fst] in *.
  destruct (crashed s1); [exact I1|].
  destruct (inv_reset s1 I1 Q1) as [I2 [R2 [St2 Q2]]]. fold (do_reset s1).
  set (s2 := do_reset s1) in *. clearbody s2.
  destruct (fire_timed_inv now s2 I2) as [I3 F3].
  assert (R3 : st (fst (fire_timed now s2)) = Connecting -> reset_parser (fst (fire_timed now s2)) = false).
  { intro X. destruct (st s2) eqn:C.
    - unfold fire_timed in X. rewrite C in X. cbn in X. congruence.
    - rewrite (F3 eq_refl). exact R2.
    - exfalso. pose proof (fire_timed_good now s2) as [E _]. destruct (ef_st _ _ _ _ E) as [Y|Y]; congruence. }
  destruct (fire_timed now s2) as [s3 o3]. cbn [fst] in *.
  destruct (crashed s3); [exact I3|].
  (* the connect time-out *)
  match goal with |- Inv (fst (let '(s4, o4) := ?r4 in _)) =>
    assert (I4 : Inv (fst r4) /\ (st (fst r4) = Connecting -> reset_parser (fst r4) = false)) end.
  { destruct (st s3) eqn:C3; cbn [fst ret]; try (split; [exact I3|intro X; congruence]).
    destruct (now - stamp s3 <=? CONNECT_TIMEOUT); cbn [fst ret]; [split; [exact I3|intros _; apply R3; reflexivity]|].
    destruct (connect_next_inv now s3 I3 C3) as [A [B [C D]]].
    destruct (connect_next now s3) as [[s' o'] ok]. cbn [fst] in *. destruct ok; cbn [fst].
    - split; [exact A|]. intros _. rewrite C. apply R3. reflexivity.
    - split; [apply inv_give_up; exact D|]. intro X. exfalso. revert X.
      unfold reset_sm_for_reconnect. cbv zeta. break_if; discriminate. }
  match goal with |- Inv (fst (let '(s4, o4) := ?r4 in _)) => destruct r4 as [s4 o4] end. cbn [fst] in I4. destruct I4 as [I4 R4].
  match goal with |- Inv (fst (if negb ?ready then _ else _)) => destruct (negb ready) end; [exact I4|].
  match goal with |- Inv (fst (let '(s5, o5) := ?r5 in _)) => assert (I5 : Inv (fst r5)) end.
  { destruct (st s4) eqn:C4; cbn [fst ret]; [exact I4| |].
    - destruct (cur_ep s4); cbn [fst ret]; try exact I4.
      + apply tj_inv. apply conn_established_inv; [exact I4|exact C4|exact (R4 eq_refl)].
      + destruct (connect_next_inv now s4 I4 C4) as [A [B [C D]]].
        destruct (connect_next now s4) as [[s' o'] ok]. cbn [fst] in *. destruct ok; cbn [fst]; [exact A|].
        apply inv_give_up; exact D.
    - set (u := set_rxq (tl (rxq s4)) s4).
      assert (Iu : Inv u) by (apply inv_set_rxq; exact I4).
      assert (Cu : st u = Connected) by exact C4.
      assert (Tu : TJ None u) by (apply inv_tj; [exact Iu|congruence]).
      destruct (match rxq s4 with [] => RdNone | x :: _ => x end); cbn [fst ret]; try exact Iu.
      + pose proof (feed_items_inv now its u (tj_cinv u Tu Cu)) as CF.
        destruct (feed_items now its u) as [[s' o'] bad]. cbn [fst] in *.
        apply cinv_tj in CF. destruct bad; cbn [fst]; [|apply tj_inv; exact CF].
        apply tj_inv. eapply tj_step; [exact CF|apply send_gated_eff|reflexivity|reflexivity|reflexivity|reflexivity|reflexivity|..];
          [pw_tac|pt_tac|cbn; tauto|cbn; tauto].
      + assert (Tv : TJ None (fst (conn_disconnect (set_err ECONNRESET u)))).
        { destruct Tu as [J G]. split; [repeat peelJ|apply gg_conn_disconnect; exact G]. }
        apply tj_inv. destruct (tls_present u); exact Tv.
      + destruct Tu as [J G]. apply tj_inv. split; [repeat peelJ|apply gg_conn_disconnect; exact G]. }
  match goal with |- Inv (fst (let '(s5, o5) := ?r5 in _)) => destruct r5 as [s5 o5] end. cbn [fst] in I5.
  destruct (crashed s5); [exact I5|].
  destruct (fire_timed_inv now s5 I5) as [I6 _]. destruct (fire_timed now s5) as [s6 o6]. exact I6.
Qed.

(* ------------------------------------------------------------------ user operations *)
Lemma inv_step_eff_g c p s s' :
  Inv s -> eff c p s s' -> subl c cK = true -> fmem FhD c = false -> fmem FidD c = false ->
  fmem Fsme c = false ->
  (forall x, pw p x -> benignE x) -> (forall k, pt p k -> k <> TMissingFeatures) ->
  (forall k, ~ ph p k) -> (forall i, pid p i -> i = IKLegacy) -> GG s' ->
  Inv s'.
Proof.
  intros [H [P G]] E Sub F1 F2 F3 Pw Pt Ph Pi G'. pose proof (subl_ok _ _ Sub) as W. split; [|split].
  - eapply hinv_mono; try eassumption.
    + intros k X. destruct (Ph k X).
    + intros i X. left. auto.
    + intro X. congruence.
    + intros _ X. eapply keep_hk; eassumption.
  - intros L' F' Cr Gs. destruct (live_back _ _ (ef_st _ _ _ _ E) L') as [L0 _].
    pose proof (ef_L _ _ _ _ E L') as Fr.
    assert (F0 : hasF s) by (destruct (ef_h _ _ _ _ E _ F') as [X|X]; [exact X|destruct (Ph _ X)]).
    pose proof (Fr Fgs (W Fgs eq_refl)) as Egs. pose proof (Fr Fsasl (W Fsasl eq_refl)) as Esasl. cbn in Egs, Esasl.
    unfold strong_in. rewrite Esasl. apply (P L0 F0); [|congruence].
    destruct (crashed s) eqn:Q; [rewrite (ef_cr _ _ _ _ E Q) in Cr; discriminate|reflexivity].
  - exact G'.
Qed.
Lemma inv_step_eff c p s s' :
  Inv s -> eff c p s s' -> subl c cK = true -> fmem FhD c = false -> fmem FidD c = false ->
  fmem Fsme c = false -> fmem Fdisc c = false ->
  (forall x, pw p x -> benignE x) -> (forall k, pt p k -> k <> TMissingFeatures) ->
  (forall k, ~ ph p k) -> (forall i, pid p i -> i = IKLegacy) ->
  Inv s'.
Proof.
  intros I E Sub F1 F2 F3 F4 Pw Pt Ph Pi. eapply inv_step_eff_g; try eassumption.
  destruct I as [_ [_ G]]. eapply gg_of_eff; eassumption.
Qed.

Lemma inv_dead_eff c p s s' :
  Inv s -> eff c p s s' -> fmem Ftlss c = false -> st s' = Disconnected -> sm_enabled s' = false -> Inv s'.
Proof.
  intros [[G _] _] E F D S. apply inv_dead; [|exact D|exact S].
  constructor.
  - assert (X : fmem Ftlss (c ++ DISC) = false) by (rewrite fmem_app, F; reflexivity).
    pose proof (ef_U _ _ _ _ E Ftlss X) as Y. cbn in Y. rewrite Y. apply (gi_T s G).
  - intros w H. apply (gi_S s G), (ef_smq _ _ _ _ E), H.
Qed.

Lemma inv_xmpp_disconnect now s : Inv s -> Inv (xmpp_disconnect now s).
Proof.
  intro I. eapply inv_step_eff; [exact I|apply xmpp_disconnect_eff|reflexivity|reflexivity|reflexivity|reflexivity|reflexivity|..];
    [pw_tac|pt_tac|cbn; tauto|cbn; tauto].
Qed.
Lemma inv_send_user s : Inv s -> Inv (send_gated WUser true false s).
Proof.
  intro I. eapply inv_step_eff; [exact I|apply send_gated_eff|reflexivity|reflexivity|reflexivity|reflexivity|reflexivity|..];
    [pw_tac|pt_tac|cbn; tauto|cbn; tauto].
Qed.
Lemma inv_send_raw s : Inv s -> Inv (send_raw_m WUserRaw true false s).
Proof.
  intro I. eapply inv_step_eff; [exact I|apply send_raw_m_eff|reflexivity|reflexivity|reflexivity|reflexivity|reflexivity|..];
    [pw_tac|pt_tac|cbn; tauto|cbn; tauto].
Qed.
Lemma inv_note_outs o s : Inv s -> Inv (note_outs o s).
Proof.
  intro I. eapply inv_step_eff; [exact I|apply (note_outs_eff pnone)|reflexivity|reflexivity|reflexivity|reflexivity|reflexivity|..]; cbn; tauto.
Qed.
Lemma inv_release s : Inv s -> Inv (fst (conn_disconnect s)).
Proof.
  intro I. eapply inv_step_eff_g; [exact I|apply (conn_disconnect_eff pnone)|reflexivity|reflexivity|reflexivity|reflexivity|..]; cbn; try tauto.
  apply gg_conn_disconnect. destruct I as [_ [_ G]]. exact G.
Qed.

Lemma conn_reset_facts s : st s = Disconnected ->
  let r := conn_reset s in
  sendq r = [] /\ secured r = false /\ tls_support r = false /\ sasl r = [] /\ ik r = [] /\
  (forall k, In k (hk r) -> k = HUser) /\ (forall k, In k (tk r) -> k = TUser) /\
  sm_enabled r = sm_enabled s /\ sw r = sw s /\ is_raw r = is_raw s /\ st r = Disconnected /\
  f_tls_mandatory r = f_tls_mandatory s.
Proof.
  intro D. unfold conn_reset. rewrite D. cbv zeta. repeat split; try reflexivity.
  - (* handler_system_delete_all keeps the user's id handler only *)
    unfold ik. cbn [idhandlers set_timed set_idhandlers].
    match goal with |- context [filter _ (idhandlers ?x)] => generalize (idhandlers x) end.
    intro l. induction l as [|[i b] l IH]; [reflexivity|]. cbn [filter fst]. destruct i; exact IH.
  - intros k H. unfold hk in H. cbn in H.
    rewrite (map_filter_proj (@fst hkind bool) (fun y => hkind_eqb y HUser)) in H.
    apply filter_In in H as [_ H]. apply hkind_eqb_eq in H. exact H.
  - intros k H. unfold tk in H. cbn in H.
    rewrite (map_filter_proj (fun x : tkind * bool * Z => fst (fst x)) (fun y => tkind_eqb y TUser)) in H.
    apply filter_In in H as [_ H]. apply tkind_eqb_eq in H. exact H.
  - exact D.
Qed.

Lemma conn_connect_inv now t s :
  Inv s -> (t = TComponent -> f_tls_mandatory s = false) -> Inv (fst (fst (conn_connect now t s))).
Proof.
  intros I HM. unfold conn_connect. destruct (st s) eqn:D; cbn [fst]; try exact I.
  destruct (conn_reset_facts s D) as [R1 [R2 [R3 [R4 [R5 [R6 [R7 [R8 [R9 [R10 [R11 R12]]]]]]]]]]].
  cbv zeta in *. set (r := conn_reset s) in *. clearbody r.
  destruct I as [[[G1 G2] _] [_ G]]. specialize (G D).
  set (s1 := set_typ t (set_sm_alloc true r)).
  destruct (sock_connect (cands s1)) as [o [[k rest]|]]; cbn [fst].
  2: { apply inv_dead; [constructor; [exact R3|intros w H; apply G2; change (In w (sw r)) in H; rewrite R9 in H; exact H]|exact R11|].
       change (sm_enabled r = false). congruence. }
  set (h := if is_raw s1 then OpenStub else match t with TClient => OpenAuth | TComponent => OpenComponent end).
  split; [|split].
  - split; [constructor; [exact R3|intros w H; apply G2; change (In w (sw r)) in H; rewrite R9 in H; exact H]|].
    intros _.
    assert (HK : forall k0, In k0 (hk r) -> k0 = HUser) by exact R6.
    assert (NT : ~ In TMissingFeatures (tk r)) by (intro X; specialize (R7 _ X); discriminate).
    assert (IK : forall i, In i (ik r) -> i = IKLegacy) by (rewrite R5; intros i []).
    assert (Hh : h = OpenStub \/ h = OpenAuth \/ h = OpenComponent) by (unfold h; destruct (is_raw s1), t; auto).
    constructor.
    + intros _. split; [split; [exact R4|split; [change (sm_enabled r = false); congruence|split; [exact HK|split; [exact IK|split; [exact NT|reflexivity]]]]]|]. split; [exact R2|]. split; [exact R1|].
      change (h <> OpenTls /\ h <> OpenSasl /\ h <> OpenCompress). destruct Hh as [X|[X|X]]; rewrite X; repeat split; discriminate.
    + intro X. specialize (HK _ X). discriminate.
    + intro X. specialize (HK _ X). discriminate.
    + intros k0 X Y. specialize (HK _ X). subst. discriminate.
    + intros k0 X Y. specialize (HK _ X). subst. discriminate.
    + intro X. contradiction.
    + intro X. discriminate X.
    + intro X. change (h = OpenTls) in X. destruct Hh as [Y|[Y|Y]]; congruence.
    + intros [X|X]; change (h = OpenSasl) in X || change (h = OpenCompress) in X; destruct Hh as [Y|[Y|Y]]; congruence.
    + intro X. change (h = OpenTls) in X. destruct Hh as [Y|[Y|Y]]; congruence.
    + intro X. discriminate X.
    + intro X. discriminate X.
    + intro X. change (is_raw r = true) in X. split; [left; unfold h; change (is_raw s1) with (is_raw r); rewrite X; reflexivity|].
      split; [exact HK|split; [exact IK|exact NT]].
    + intros [X|X]; change (h = OpenStub) in X || change (h = OpenRaw) in X; change (is_raw r = true);
        unfold h in X; change (is_raw s1) with (is_raw r) in X; destruct (is_raw r); [reflexivity|destruct t; discriminate|reflexivity|destruct t; discriminate].
    + intros X. split; [intros k0 X0; rewrite (HK _ X0); reflexivity|split; [exact IK|split; [exact NT|]]].
      change (h = OpenComponent) in X. change (f_tls_mandatory r = false). rewrite R12. apply HM.
      unfold h in X. destruct (is_raw s1); [discriminate X|]. destruct t; [discriminate X|reflexivity].
    + intros x X. change (In x (sendq r)) in X. rewrite R1 in X. destruct X.
    + intros _ [[k0 [X Y]]|[x [X _]]]; [specialize (HK _ X); subst; discriminate|]. change (In x (sendq r)) in X. rewrite R1 in X. destruct X.
    + intros _ x X. change (In x (sendq r)) in X. rewrite R1 in X. destruct X.
    + intros x X. change (In x (sendq r)) in X. rewrite R1 in X. destruct X.
    + intros x X. change (In x (sendq r)) in X. rewrite R1 in X. destruct X.
  - intros _ X. specialize (R6 _ X). discriminate.
  - intro X. discriminate X.
Qed.

Lemma inv_disc_conv s s' :
  Inv s -> st s = Disconnected -> st s' = Disconnected -> tls_support s' = tls_support s -> sw s' = sw s ->
  sm_enabled s' = sm_enabled s -> Inv s'.
Proof.
  intros [[G _] [_ Gg]] D D' T S M. apply inv_dead; [apply (ginv_conv s); assumption|exact D'|]. rewrite M. apply Gg. exact D.
Qed.

Lemma set_flags_inv w s : Inv s -> Inv (fst (set_flags w s)).
Proof.
  intro I. unfold set_flags. destruct (st s) eqn:D; cbn [fst]; try exact I.
  break_if; cbn [fst]; [exact I|]. cbv zeta. cbn [fst]. eapply inv_disc_conv; [exact I|exact D|exact D|reflexivity|reflexivity|reflexivity].
Qed.
Lemma set_flags_st w s : st (fst (set_flags w s)) = st s.
Proof. unfold set_flags. destruct (st s) eqn:D; cbn [fst]; try exact D. break_if; cbn [fst]; [exact D|]. cbv zeta. exact D. Qed.

Lemma connect_client_inv now s : Inv s -> Inv (fst (fst (connect_client now s))).
Proof.
  intro I. unfold connect_client. cbv zeta.
  set (s1 := if negb (jid_set s) && cert_set s then _ else s).
  assert (I1 : Inv s1) by (unfold s1; break_if; [revert I; inv_conv|exact I]). clearbody s1.
  break_if; cbn [fst]; [exact I1|]. apply conn_connect_inv; [revert I1; inv_conv|intro X; discriminate X].
Qed.
(* DISABLE_TLS and MANDATORY_TLS exclude each other (xmpp_conn_set_flags refuses the combination) *)
Definition Kf (s : state) : Prop := f_tls_disabled s = true -> f_tls_mandatory s = false.
Lemma set_flags_Kf w s : Kf s -> Kf (fst (set_flags w s)).
Proof.
  unfold Kf. intros H. unfold set_flags. destruct (st s); try exact H.
  destruct (testbit w flag_conflict_a && existsb (testbit w) flag_conflict_b) eqn:C; cbn [fst]; [exact H|].
  cbv zeta. cbn [fst]. change (testbit w FLAG_DISABLE_TLS = true -> testbit w FLAG_MANDATORY_TLS = false).
  intros Dd. change flag_conflict_a with FLAG_DISABLE_TLS in C. rewrite Dd in C. cbn [andb] in C.
  unfold flag_conflict_b in C. cbn [existsb] in C. apply orb_false_iff in C. apply C.
Qed.
Lemma connect_component_inv now s : Inv s -> Kf s -> Inv (fst (fst (connect_component now s))).
Proof.
  intros I K. unfold connect_component. break_if; cbn [fst]; [exact I|]. cbv zeta.
  pose proof (set_flags_inv (if f_tls_disabled s then flags_readback s else flags_readback s + FLAG_DISABLE_TLS) s I) as I1.
  pose proof (set_flags_Kf (if f_tls_disabled s then flags_readback s else flags_readback s + FLAG_DISABLE_TLS) s K) as K1.
  destruct (set_flags (if f_tls_disabled s then flags_readback s else flags_readback s + FLAG_DISABLE_TLS) s) as [s1 rc]. cbn [fst] in I1, K1.
  break_if; cbn [fst]; [exact I1|]. apply conn_connect_inv; [revert I1; inv_conv|].
  intros _. apply K1. destruct (f_tls_disabled s1); [reflexivity|discriminate].
Qed.

Lemma open_stream_inv s : Inv s -> is_raw s = true -> Inv (conn_open_stream (prepare_reset OpenRaw s)).
Proof.
  intros I R.
  assert (I1 : Inv (prepare_reset OpenRaw s)).
  { destruct I as [[[G1 G2] Lv] [P G]]. split; [|split; [exact P|exact G]].
    split; [constructor; [exact G1|exact G2]|]. intro L'. specialize (Lv L').
    destruct (li_RAW s Lv R) as [A [B [C D]]].
    unfold prepare_reset. apply linv_set_oh; [exact Lv|..].
    - intros _. repeat split; discriminate.
    - intro X. specialize (B _ X). discriminate.
    - intro X. specialize (B _ X). discriminate.
    - intros [k [X Y]]. specialize (B _ X). subst. discriminate.
    - intros _ X. discriminate X.
    - intro X. discriminate X.
    - intros [X|X]; discriminate X.
    - intro X. discriminate X.
    - intros _ X. discriminate X.
    - intros _ X. congruence.
    - intros _. right. reflexivity.
    - intros _. exact R.
    - intro X. discriminate X. }
  eapply inv_step_eff; [exact I1|apply conn_open_stream_eff|reflexivity|reflexivity|reflexivity|reflexivity|reflexivity|..];
    [pw_tac|pt_tac|cbn; tauto|cbn; tauto].
Qed.

Lemma step0_inv s o : Inv s -> Kf s -> Inv (fst (step0 s o)).
Proof.
  intros I K. unfold step0. destruct (crashed s); [exact I|].
  destruct o.
  - pose proof (set_flags_inv w s I) as X. destruct (set_flags w s). exact X.
  - destruct (st s) eqn:D; cbn [fst ret]; try exact I. eapply inv_disc_conv; [exact I|exact D|exact D|reflexivity|reflexivity|reflexivity].
  - destruct (st s) eqn:D; cbn [fst ret]; try exact I. eapply inv_disc_conv; [exact I|exact D|exact D|reflexivity|reflexivity|reflexivity].
  - destruct (st s) eqn:D; cbn [fst ret]; try exact I. eapply inv_disc_conv; [exact I|exact D|exact D|reflexivity|reflexivity|reflexivity].
  - destruct (st s) eqn:D; cbn [fst ret]; try exact I.
    eapply inv_disc_conv; [exact I|exact D|..]; destruct stanza, timed; cbn; unfold h_add, id_add, timed_add; repeat break_if; try reflexivity; exact D.
  - destruct (st s) eqn:D; cbn [fst ret]; try exact I. eapply inv_disc_conv; [exact I|exact D|exact D|reflexivity|reflexivity|reflexivity].
  - cbn [fst ret]. revert I. inv_conv.
  - pose proof (connect_client_inv now s I) as X. destruct (connect_client now s) as [[s1 o1] rc]. exact X.
  - destruct (st s) eqn:D; cbn [fst]; try exact I.
    assert (I1 : Inv (set_is_raw true s)) by (eapply inv_disc_conv; [exact I|exact D|exact D|reflexivity|reflexivity|reflexivity]).
    pose proof (connect_client_inv now _ I1) as X. destruct (connect_client now (set_is_raw true s)) as [[s1 o1] rc]. exact X.
  - pose proof (connect_component_inv now s I K) as X. destruct (connect_component now s) as [[s1 o1] rc]. exact X.
  - apply run_once_inv. exact I.
  - cbn [fst ret]. apply inv_xmpp_disconnect. exact I.
  - cbn [fst ret]. apply inv_send_user. exact I.
  - cbn [fst ret]. apply inv_send_raw. exact I.
  - exact I.
  - destruct (is_raw s) eqn:R; cbn [fst ret]; [apply open_stream_inv; assumption|exact I].
  - destruct (st s) eqn:D; cbn [fst ret]; try exact I; apply inv_release; exact I.
Qed.

Lemma step_inv s o : Inv s -> Kf s -> Inv (fst (step s o)).
Proof.
  intros I K. unfold step. pose proof (step0_inv s o I K) as X. destruct (step0 s o) as [s1 outs]. cbn [fst] in *.
  apply inv_note_outs. exact X.
Qed.

Lemma init_inv : Inv init_state.
Proof.
  apply inv_dead; [constructor; [reflexivity|intros w []]|reflexivity|reflexivity].
Qed.

(* ------------------------------------------------------------------ what a step can emit *)
Definition good_out (s : state) (o' : out) : Prop :=
  quiet (f_tls_disabled s) o' = true \/
  (st s = Connected /\ exists x, In x (sendq s) /\ o' = OWire (tls_present s) (fst (fst x))).
Definition good_outs (s : state) (outs : list out) : Prop := forall o', In o' outs -> good_out s o'.
Lemma good_outs_q s outs : outs_q (f_tls_disabled s) outs -> good_outs s outs.
Proof. unfold outs_q. rewrite forallb_forall. intros H o' X. left. auto. Qed.
Lemma good_outs_app s a b : good_outs s a -> good_outs s b -> good_outs s (a ++ b).
Proof. intros A B o' X. apply in_app_iff in X as [X|X]; auto. Qed.

Lemma sock_connect_quiet d c : outs_q d (fst (sock_connect c)).
Proof.
  induction c as [|k r IH]; simpl; [reflexivity|]. destruct k; try reflexivity.
  destruct (sock_connect r) as [o x]. exact IH.
Qed.
Lemma connect_next_good now s : goodTP s (connect_next now s).
Proof.
  unfold connect_next. pose proof (sock_connect_quiet (f_tls_disabled s) (cands s)) as Q.
  destruct (sock_connect (cands s)) as [o [[k r]|]]; split; cbn [fst snd]; try exact Q.
  - eapply (eff_weaken [] _ pnone); [solve_sub|apply pimp_true|eff_frame].
  - eapply (eff_weaken [] _ pnone); [solve_sub|apply pimp_true|eff_frame].
Qed.

Lemma conn_established_good now s : goodR s (conn_established now s).
Proof.
  unfold conn_established. cbv zeta.
  assert (FIN : forall s1 o1 (ok : bool), eff cAll pTrue s s1 -> outs_q (f_tls_disabled s) o1 ->
            goodR s (if negb ok then let '(s2, o2) := conn_disconnect s1 in (s2, o1 ++ o2)
                     else if is_raw s1 then (set_neg_done true (timed_reset_all now s1), o1 ++ [ORawConnect])
                     else (conn_open_stream s1, o1))).
  { intros s1 o1 ok E Q. destruct ok; cbn [negb].
    - destruct (is_raw s1); split; cbn [fst snd]; try (apply outs_q_app; [exact Q|reflexivity]); try exact Q.
      + eapply effA_trans; [exact E|]. peels.
      + eapply effA_trans; [exact E|]. peels.
    - pose proof (conn_disconnect_good s1) as [E2 Q2]. destruct (conn_disconnect s1) as [s2 o2]. cbn [fst snd] in *.
      split; cbn [fst snd]; [eapply effA_trans; eassumption|].
      apply outs_q_app; [exact Q|]. rewrite <- (effA_dis _ _ (effA_P _ _ E)). exact Q2. }
  destruct (f_legacy_ssl s && negb (is_raw s)); [|apply FIN; [apply eff_refl|reflexivity]].
  pose proof (conn_tls_start_spec s) as Sp. pose proof (conn_tls_start_eff pnone s) as Ef.
  destruct (conn_tls_start s) as [[s1 o1] ok]. cbn [fst snd] in *.
  apply FIN; [eapply eff_weaken; [|apply pimp_true|exact Ef]; solve_sub|].
  destruct Sp as [Sp|[Sp|Sp]]; decompose [and] Sp; subst o1; try reflexivity; unfold outs_q; cbn; rewrite H1; reflexivity.
Qed.

Lemma send_phase_outs s :
  good_outs s (snd (send_phase s)) /\ f_tls_disabled (fst (send_phase s)) = f_tls_disabled s.
Proof.
  destruct (st s) eqn:C; try (unfold send_phase; rewrite C; split; [intros o' []|reflexivity]).
  rewrite (send_phase_eq s C). cbv zeta.
  assert (W : good_outs s (map (fun x => OWire (tls_present s) (fst (fst x))) (sendq s))).
  { intros o' X. apply in_map_iff in X as [x [X1 X2]]. right. split; [exact C|]. exists x. auto. }
  destruct (negb (err (flushed s) =? 0)); cbn [fst snd]; [|split; [exact W|reflexivity]].
  pose proof (conn_disconnect_good (set_err ECONNABORTED (flushed s))) as [E Q].
  destruct (conn_disconnect (set_err ECONNABORTED (flushed s))) as [s2 o2]. cbn [fst snd] in *.
  split; [apply good_outs_app; [exact W|apply good_outs_q; exact Q]|]. exact (effA_dis _ _ (effA_P _ _ E)).
Qed.

Lemma run_once_outs now rd s0 : good_outs s0 (snd (run_once now rd s0)).
Proof.
  unfold run_once. destruct (crashed s0); [intros o' []|].
  set (s := match rd with RdNone => s0 | _ => match st s0 with Disconnected => s0 | _ => set_rxq (rxq s0 ++ [rd]) s0 end end).
  assert (Es : good_outs s = good_outs s0 /\ f_tls_disabled s = f_tls_disabled s0).
  { unfold s. destruct rd; try (split; reflexivity); destruct (st s0); split; reflexivity. }
  destruct Es as [Es Ed]. clearbody s.
  destruct (send_phase_outs s) as [W D1]. rewrite Es in W. rewrite Ed in D1.
  destruct (send_phase s) as [s1 o1]. cbn [fst snd] in *.
  destruct (crashed s1); [exact W|].
  set (d := f_tls_disabled s0) in *.
  assert (Q : forall rest, outs_q d rest -> good_outs s0 (o1 ++ rest)).
  { intros rest X. apply good_outs_app; [exact W|apply good_outs_q; exact X]. }
  match goal with |- context [fire_timed now ?x] => set (s2 := x) end.
  assert (D2 : f_tls_disabled s2 = d) by (unfold s2; destruct (reset_parser s1); exact D1). clearbody s2.
  pose proof (fire_timed_good now s2) as [E3 Q3]. rewrite D2 in Q3.
  assert (D3 : f_tls_disabled (fst (fire_timed now s2)) = d) by (rewrite (effA_dis _ _ (effA_P _ _ E3)); exact D2).
  destruct (fire_timed now s2) as [s3 o3]. cbn [fst snd] in *.
  destruct (crashed s3); [apply Q; exact Q3|].
  match goal with |- good_outs s0 (snd (let '(s4, o4) := ?r4 in _)) =>
    assert (G4 : f_tls_disabled (fst r4) = d /\ outs_q d (snd r4)) end.
  { destruct (st s3); cbn [fst snd ret]; try (split; [exact D3|reflexivity]).
    destruct (now - stamp s3 <=? CONNECT_TIMEOUT); cbn [fst snd ret]; [split; [exact D3|reflexivity]|].
    pose proof (connect_next_good now s3) as [E Qn]. rewrite D3 in Qn.
    pose proof (effA_dis _ _ E) as Dn. rewrite D3 in Dn.
    destruct (connect_next now s3) as [[s' o'] ok]. cbn [fst snd] in *. destruct ok; cbn [fst snd]; [split; assumption|].
    split; [unfold reset_sm_for_reconnect; cbv zeta; break_if; exact Dn|apply outs_q_app; [exact Qn|reflexivity]]. }
  match goal with |- good_outs s0 (snd (let '(s4, o4) := ?r4 in _)) => destruct r4 as [s4 o4] end.
  cbn [fst snd] in G4. destruct G4 as [D4 Q4].
  match goal with |- good_outs s0 (snd (if negb ?ready then _ else _)) => destruct (negb ready) end;
    [apply Q; repeat apply outs_q_app; try assumption; reflexivity|].
  match goal with |- good_outs s0 (snd (let '(s5, o5) := ?r5 in _)) =>
    assert (G5 : f_tls_disabled (fst r5) = d /\ outs_q d (snd r5)) end.
  { destruct (st s4); cbn [fst snd ret]; try (split; [exact D4|reflexivity]).
    - destruct (cur_ep s4); cbn [fst snd ret]; try (split; [exact D4|reflexivity]).
      + pose proof (conn_established_good now (set_st Connected s4)) as [E Qe].
        split; [rewrite (effA_dis _ _ (effA_P _ _ E)); exact D4|]. change (f_tls_disabled (set_st Connected s4)) with (f_tls_disabled s4) in Qe.
        rewrite D4 in Qe. exact Qe.
      + pose proof (connect_next_good now s4) as [E Qn]. rewrite D4 in Qn.
        pose proof (effA_dis _ _ E) as Dn. rewrite D4 in Dn.
        destruct (connect_next now s4) as [[s' o'] ok]. cbn [fst snd] in *. destruct ok; cbn [fst snd]; [split; assumption|].
        split; [unfold reset_sm_for_reconnect; cbv zeta; break_if; exact Dn|apply outs_q_app; [exact Qn|reflexivity]].
    - set (u := set_rxq (tl (rxq s4)) s4). assert (Du : f_tls_disabled u = d) by exact D4.
      destruct (match rxq s4 with [] => RdNone | x :: _ => x end); cbn [fst snd ret]; try (split; [exact Du|reflexivity]).
      + pose proof (feed_items_good now its u) as [E Qf]. rewrite Du in Qf. pose proof (effA_dis _ _ E) as Df. rewrite Du in Df.
        destruct (feed_items now its u) as [[s' o'] bad]. cbn [fst snd] in *. destruct bad; cbn [fst snd]; [|split; assumption].
        split; [|exact Qf]. rewrite (effA_dis _ _ (effA_P _ _ ltac:(toA send_gated_eff))). exact Df.
      + assert (X : f_tls_disabled (fst (conn_disconnect (set_err ECONNRESET u))) = d /\ outs_q d (snd (conn_disconnect (set_err ECONNRESET u)))).
        { pose proof (conn_disconnect_good (set_err ECONNRESET u)) as [E Qc]. split; [rewrite (effA_dis _ _ (effA_P _ _ E)); exact Du|].
          change (f_tls_disabled (set_err ECONNRESET u)) with (f_tls_disabled u) in Qc. rewrite Du in Qc. exact Qc. }
        destruct (tls_present u); exact X.
      + pose proof (conn_disconnect_good (set_err ECONNRESET u)) as [E Qc]. split; [rewrite (effA_dis _ _ (effA_P _ _ E)); exact Du|].
        change (f_tls_disabled (set_err ECONNRESET u)) with (f_tls_disabled u) in Qc. rewrite Du in Qc. exact Qc. }
  match goal with |- good_outs s0 (snd (let '(s5, o5) := ?r5 in _)) => destruct r5 as [s5 o5] end.
  cbn [fst snd] in G5. destruct G5 as [D5 Q5].
  destruct (crashed s5); [apply Q; repeat apply outs_q_app; assumption|].
  pose proof (fire_timed_good now s5) as [E6 Q6]. rewrite D5 in Q6.
  destruct (fire_timed now s5) as [s6 o6]. cbn [fst snd] in *.
  apply Q. repeat apply outs_q_app; try assumption; reflexivity.
Qed.

Lemma conn_connect_outs d now t s : outs_q d (snd (fst (conn_connect now t s))).
Proof.
  unfold conn_connect. destruct (st s); try reflexivity. cbv zeta.
  match goal with |- context [sock_connect ?c] => pose proof (sock_connect_quiet d c) as Q; destruct (sock_connect c) as [o [[k r]|]] end; exact Q.
Qed.
Lemma connect_client_outs d now s : outs_q d (snd (fst (connect_client now s))).
Proof.
  unfold connect_client. cbv zeta. set (s1 := if negb (jid_set s) && cert_set s then _ else s). clearbody s1.
  break_if; [reflexivity|]. apply conn_connect_outs.
Qed.

Lemma step0_outs s o : good_outs s (snd (step0 s o)).
Proof.
  unfold step0. destruct (crashed s); [intros o' []|].
  destruct o; try (cbn [snd ret]; intros o' []; fail).
  - destruct (set_flags w s). apply good_outs_q. reflexivity.
  - destruct (st s); intros o' [].
  - destruct (st s); intros o' [].
  - destruct (st s); intros o' [].
  - destruct (st s); intros o' [].
  - destruct (st s); intros o' [].
  - pose proof (connect_client_outs (f_tls_disabled s) now s) as Q. destruct (connect_client now s) as [[s1 o1] rc]. cbn [fst snd] in *.
    apply good_outs_q. apply outs_q_app; [exact Q|reflexivity].
  - destruct (st s); try (apply good_outs_q; reflexivity).
    pose proof (connect_client_outs (f_tls_disabled s) now (set_is_raw true s)) as Q. destruct (connect_client now (set_is_raw true s)) as [[s1 o1] rc]. cbn [fst snd] in *.
    apply good_outs_q. apply outs_q_app; [exact Q|reflexivity].
  - unfold connect_component. break_if; [apply good_outs_q; reflexivity|]. cbv zeta.
    destruct (set_flags (if f_tls_disabled s then flags_readback s else flags_readback s + FLAG_DISABLE_TLS) s) as [s1 rc0].
    break_if; [apply good_outs_q; reflexivity|].
    pose proof (conn_connect_outs (f_tls_disabled s) now TComponent (set_cands (next_cands s1) s1)) as Q.
    destruct (conn_connect now TComponent (set_cands (next_cands s1) s1)) as [[s2 o2] rc]. cbn [fst snd] in *.
    apply good_outs_q. apply outs_q_app; [exact Q|reflexivity].
  - apply run_once_outs.
  - apply good_outs_q. reflexivity.
  - destruct (is_raw s); intros o' [].
  - destruct (st s); try (intros o' []; fail); apply good_outs_q; apply conn_disconnect_good.
Qed.

(* ------------------------------------------------------------------ the four policy statements *)
Lemma step_outs s o : snd (step s o) = snd (step0 s o).
Proof. unfold step. destruct (step0 s o). reflexivity. Qed.

Lemma linv_of_wire s : Inv s -> st s = Connected -> LInv s.
Proof. intros [[_ Lv] _] C. apply Lv. unfold live. rewrite C. discriminate. Qed.

Lemma ok_from_good (P : out -> bool) s outs :
  good_outs s outs ->
  (forall o', quiet (f_tls_disabled s) o' = true -> P o' = true) ->
  (st s = Connected -> forall x, In x (sendq s) -> P (OWire (tls_present s) (fst (fst x))) = true) ->
  forallb P outs = true.
Proof.
  intros G Q W. apply forallb_forall. intros o' X. destruct (G o' X) as [A|[C [x [B1 B2]]]]; [auto|]. subst o'. auto.
Qed.

Lemma step_ok_mandatory s o : Inv s -> ok_mandatory s o (fst (step s o)) (snd (step s o)) = true.
Proof.
  intro I. unfold ok_mandatory. rewrite step_outs. destruct (f_tls_mandatory s) eqn:M; [|reflexivity]. cbn [negb orb].
  apply (ok_from_good _ s); [apply step0_outs| |].
  - intros o' Q. destruct o'; try reflexivity. discriminate Q.
  - intros C x X. destruct (tls_present s) eqn:T; [reflexivity|].
    destruct (is_cred (fst (fst x))) eqn:Cr; [|reflexivity]. exfalso.
    pose proof (li_M s (linv_of_wire s I C) M (or_intror (ex_intro _ x (conj X Cr)))) as S.
    unfold is_secured in S. rewrite T in S. rewrite andb_false_r in S. discriminate.
Qed.

Lemma step_ok_disabled s o : Inv s -> ok_disabled s o (fst (step s o)) (snd (step s o)) = true.
Proof.
  intro I. unfold ok_disabled. rewrite step_outs. destruct (f_tls_disabled s) eqn:D; [|reflexivity]. cbn [negb orb].
  apply (ok_from_good _ s); [apply step0_outs| |].
  - intros o' Q. rewrite D in Q. destruct o'; try reflexivity; discriminate Q.
  - intros C x X. pose proof (li_D s (linv_of_wire s I C) D x X) as N. destruct (fst (fst x)); try reflexivity. congruence.
Qed.

Lemma step_ok_plain s o : Inv s -> ok_plain s o (fst (step s o)) (snd (step s o)) = true.
Proof.
  intro I. unfold ok_plain. rewrite step_outs.
  apply (ok_from_good _ s); [apply step0_outs| |].
  - intros o' Q. destruct o'; try reflexivity. discriminate Q.
  - intros C x X. destruct (fst (fst x)) eqn:W; try reflexivity. destruct m; try reflexivity.
    destruct (li_PL s (linv_of_wire s I C) x X W) as [G _]. rewrite G. reflexivity.
Qed.

Lemma step_ok_legacy s o : Inv s -> ok_legacy s o (fst (step s o)) (snd (step s o)) = true.
Proof.
  intro I. unfold ok_legacy. rewrite step_outs.
  apply (ok_from_good _ s); [apply step0_outs| |].
  - intros o' Q. destruct o'; try reflexivity. discriminate Q.
  - intros C x X. destruct (fst (fst x)) eqn:W; try reflexivity.
    destruct (li_L s (linv_of_wire s I C) x X W) as [A B]. rewrite A, B. reflexivity.
Qed.

(* the invariant of this file together with the lifecycle invariant of NegFrame_C13, which knows that
   DISABLE_TLS (forced by connect_component) and MANDATORY_TLS exclude each other *)
Definition Inv2 (s : state) : Prop := Inv s /\ LV.Proofs.NegFrame_C13.TopInv s.
Lemma inv2_Kf s : Inv2 s -> Kf s.
Proof. intros [_ T]. exact (LV.Proofs.NegFrame_C13.Inv_Df _ _ _ _ T). Qed.
Lemma step_inv2 s o : Inv2 s -> Inv2 (fst (step s o)).
Proof.
  intros I2. split; [apply step_inv; [exact (proj1 I2)|exact (inv2_Kf s I2)]|apply LV.Proofs.NegFrame_C13.step_inv; exact (proj2 I2)].
Qed.
Lemma init_inv2 : Inv2 init_state.
Proof. split; [exact init_inv|exact LV.Proofs.NegFrame_C13.TopInv_init]. Qed.

Theorem mandatory_ok : forall ops, check_run ok_mandatory init_state ops = true.
Proof. intro ops. apply (check_run_inv ok_mandatory Inv2 step_inv2 (fun s o I => step_ok_mandatory s o (proj1 I)) ops init_state init_inv2). Qed.
Theorem disabled_ok : forall ops, check_run ok_disabled init_state ops = true.
Proof. intro ops. apply (check_run_inv ok_disabled Inv2 step_inv2 (fun s o I => step_ok_disabled s o (proj1 I)) ops init_state init_inv2). Qed.
Theorem plain_ok : forall ops, check_run ok_plain init_state ops = true.
Proof. intro ops. apply (check_run_inv ok_plain Inv2 step_inv2 (fun s o I => step_ok_plain s o (proj1 I)) ops init_state init_inv2). Qed.
Theorem legacy_ok : forall ops, check_run ok_legacy init_state ops = true.
Proof. intro ops. apply (check_run_inv ok_legacy Inv2 step_inv2 (fun s o I => step_ok_legacy s o (proj1 I)) ops init_state init_inv2). Qed.
