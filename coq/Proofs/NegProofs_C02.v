(* C02 - proofs.  Credentials obey the TLS and mechanism policy the user configured.
   Frame lemmas live in Proofs/NegFrame_C02.v; this file defines the invariant of the connection
   automaton, proves that every model function preserves it and concludes the four policy statements. *)
Require Import LV.Common.Bytes LV.Gen.Gen_neg LV.Model.NegState LV.Model.NegModel LV.Spec.NegSpec.
Require Import LV.Proofs.NegFrame_C02.
Local Open Scope Z_scope.

(* ------------------------------------------------------------------ check_run *)
Lemma run_cons s o r : fst (run s (o :: r)) = fst (run (fst (step s o)) r).
Proof. simpl. destruct (step s o) as [s1 o1]. cbn [fst]. destruct (run s1 r) as [s2 o2]. reflexivity. Qed.
Lemma check_run_cons ok s o r :
  check_run ok s (o :: r) = ok s o (fst (step s o)) (snd (step s o)) && check_run ok (fst (step s o)) r.
Proof. simpl. destruct (step s o) as [s1 o1]. reflexivity. Qed.

Lemma check_run_meaning_proof :
  forall ok s ops, check_run ok s ops = true <->
    (forall pre o post, ops = pre ++ o :: post ->
       let sp := fst (run s pre) in ok sp o (fst (step sp o)) (snd (step sp o)) = true).
Proof.
  intros ok s ops. revert s. induction ops as [|o0 r IH]; intro s.
  - split; [|reflexivity]. intros _ pre o post E. destruct pre; discriminate E.
  - rewrite check_run_cons, andb_true_iff, IH. split.
    + intros [A B] pre o post E. destruct pre as [|p pre]; simpl in E; inv E.
      * exact A.
      * cbv zeta. rewrite run_cons. apply (B pre o post). reflexivity.
    + intro H. split.
      * apply (H [] o0 r). reflexivity.
      * intros pre o post E. specialize (H (o0 :: pre) o post). cbv zeta in H. rewrite run_cons in H.
        apply H. rewrite E. reflexivity.
Qed.

(* the proof principle: an invariant of `step` that implies the per-step predicate *)
Lemma check_run_inv (ok : state -> op -> state -> list out -> bool) (I : state -> Prop) :
  (forall s o, I s -> I (fst (step s o))) ->
  (forall s o, I s -> ok s o (fst (step s o)) (snd (step s o)) = true) ->
  forall ops s, I s -> check_run ok s ops = true.
Proof.
  intros P Q. induction ops as [|o r IH]; intros s Hs; [reflexivity|].
  rewrite check_run_cons, (Q s o Hs), (IH _ (P s o Hs)). reflexivity.
Qed.

(* ------------------------------------------------------------------ the invariant *)
Definition is_baseh (k : hkind) : bool := match k with HUser | HError | HComponentHs => true | _ => false end.
Definition is_posth (k : hkind) : bool :=
  match k with HFeaturesSasl | HFeaturesCompress | HCompressResult | HSm => true | _ => false end.

Definition hasF (s : state) : Prop := In HFeatures (hk s).
Definition hasT (s : state) : Prop := In HProceedTls (hk s).
Definition hasS (s : state) : Prop := exists k, In k (hk s) /\ is_saslh k = true.
Definition hasTMF (s : state) : Prop := In TMissingFeatures (tk s).
Definition noauth (s : state) : Prop := ~ hasF s /\ ~ hasT s /\ ~ hasS s /\ ~ hasTMF s.
Definition prepost (s : state) : Prop := (forall i, In i (ik s) -> i = IKLegacy) /\ sm_enabled s = false.
Definition strong_in (s : state) : Prop := existsb (fun m => negb (is_plain_or_anon m)) (sasl s) = true.
Definition fresh (s : state) : Prop :=
  sasl s = [] /\ sm_enabled s = false /\ (forall k, In k (hk s) -> k = HUser) /\
  (forall i, In i (ik s) -> i = IKLegacy) /\ ~ hasTMF s /\ g_strong (gh s) = false.
Definition quietS (s : state) : Prop :=
  (forall k, In k (hk s) -> is_baseh k = true) /\ ~ hasTMF s /\ prepost s.
(* evidence that the connection is past authentication *)
Definition evP (s : state) : Prop :=
  (exists k, In k (hk s) /\ is_posth k = true) \/ In IKBind (ik s) \/ In IKSession (ik s).

Record LInv (s : state) : Prop := mkLInv {
  li_C : st s = Connecting ->
         fresh s /\ secured s = false /\ sendq s = [] /\ oh s <> OpenTls /\ oh s <> OpenSasl /\ oh s <> OpenCompress;
  li_XF : hasF s ->
          (forall k, In k (hk s) -> is_baseh k = true \/ k = HFeatures) /\ prepost s /\
          (oh s = OpenAuth \/ oh s = OpenTls) /\ (hasTMF s -> oh s = OpenAuth) /\ (oh s = OpenAuth -> sasl s = []);
  li_XT : hasT s ->
          (forall k, In k (hk s) -> is_baseh k = true \/ k = HProceedTls) /\ prepost s /\ ~ hasTMF s /\
          secured s = false /\ oh s = OpenAuth /\ g_feat_seen (gh s) = true /\
          (g_strong (gh s) = true -> strong_in s /\ mem_mech MPlain (sasl s) = false);
  li_XS : forall k, In k (hk s) -> is_saslh k = true ->
          (forall k', In k' (hk s) -> is_baseh k' = true \/ k' = k) /\ prepost s /\ ~ hasTMF s /\
          (oh s = OpenAuth \/ oh s = OpenTls) /\ g_feat_seen (gh s) = true /\
          (g_strong (gh s) = true -> mem_mech MPlain (sasl s) = false);
  li_XP : forall k, In k (hk s) -> is_posth k = true ->
          (forall k', In k' (hk s) -> is_baseh k' = true \/ is_posth k' = true) /\ ~ hasTMF s;
  li_TMF : hasTMF s -> hasF s;
  li_POA : st s = Connected -> oh s = OpenAuth -> ps s = PDepth0 -> fresh s;
  li_POT : oh s = OpenTls -> (reset_parser s = true \/ ps s = PDepth0) ->
           quietS s /\ (g_strong (gh s) = true -> strong_in s) /\ (ps s <> PDepth0 -> g_feat_seen (gh s) = true);
  li_POP : (oh s = OpenSasl \/ oh s = OpenCompress) -> noauth s;
  li_O : oh s = OpenTls -> secured s = true /\ st s = Connected;
  li_R : st s = Connected -> oh s = OpenAuth -> reset_parser s = false;
  li_RP : st s = Connected -> is_raw s = false -> reset_parser s = true -> ps s <> PDepth0;
  li_RAW : is_raw s = true ->
           (oh s = OpenStub \/ oh s = OpenRaw) /\ (forall k, In k (hk s) -> k = HUser) /\
           (forall i, In i (ik s) -> i = IKLegacy) /\ ~ hasTMF s;
  li_STUB : (oh s = OpenStub \/ oh s = OpenRaw) -> is_raw s = true;
  li_COMP : oh s = OpenComponent ->
            (forall k, In k (hk s) -> is_baseh k = true) /\ (forall i, In i (ik s) -> i = IKLegacy) /\ ~ hasTMF s;
  li_Q : forall x, In x (sendq s) -> snd x = false -> is_neg (fst (fst x)) = false;
  li_M : f_tls_mandatory s = true ->
         (hasS s \/ exists x, In x (sendq s) /\ is_cred (fst (fst x)) = true) -> is_secured s = true;
  li_D : f_tls_disabled s = true -> forall x, In x (sendq s) -> fst (fst x) <> WStartTls;
  li_L : forall x, In x (sendq s) -> fst (fst x) = WLegacy -> f_legacy_auth s = true /\ typ s = TClient;
  li_PL : forall x, In x (sendq s) -> fst (fst x) = WAuth MPlain ->
          g_strong (gh s) = false /\ g_feat_seen (gh s) = true /\ ps s <> PDepth0
}.
(* while HFeatures waits: a strong mechanism seen so far is still in the list *)
Definition PL3F (s : state) : Prop := hasF s -> crashed s = false -> g_strong (gh s) = true -> strong_in s.

Record GInv (s : state) : Prop := mkGInv {
  gi_T : tls_support s = false;
  gi_S : forall w, In w (sw s) -> is_neg w = false
}.
(* handler granularity *)
Definition HInv (s : state) : Prop := GInv s /\ (live s -> LInv s).
(* step granularity *)
Definition Inv (s : state) : Prop :=
  HInv s /\ (live s -> PL3F s) /\ (st s = Disconnected -> sm_enabled s = false).

Lemma is_cred_neg w : is_cred w = true -> is_neg w = true.
Proof. destruct w; simpl; congruence. Qed.
Lemma class_cases k : is_baseh k = true \/ k = HFeatures \/ k = HProceedTls \/ is_saslh k = true \/ is_posth k = true.
Proof. destruct k; simpl; auto 6. Qed.

(* past authentication nothing of the authentication phase is left *)
Lemma evP_noauth s : LInv s -> evP s -> noauth s.
Proof.
  intros L E.
  assert (X : (exists k, In k (hk s) /\ is_posth k = true) \/ ~ (forall i, In i (ik s) -> i = IKLegacy)).
  { destruct E as [E|[E|E]]; [left; exact E| |]; right; intro A; specialize (A _ E); discriminate. }
  clear E. repeat split.
  - intro F. destruct (li_XF s L F) as [A [[B _] _]]. destruct X as [[k [K1 K2]]|X]; [|tauto].
    destruct (A k K1) as [Y|Y]; [destruct k; discriminate|subst; discriminate].
  - intro F. destruct (li_XT s L F) as [A [[B _] _]]. destruct X as [[k [K1 K2]]|X]; [|tauto].
    destruct (A k K1) as [Y|Y]; [destruct k; discriminate|subst; discriminate].
  - intros [k0 [F1 F2]]. destruct (li_XS s L k0 F1 F2) as [A [[B _] _]]. destruct X as [[k [K1 K2]]|X]; [|tauto].
    destruct (A k K1) as [Y|Y]; [destruct k; discriminate|subst; destruct k0; discriminate].
  - intro F. apply (li_TMF s L) in F. destruct (li_XF s L F) as [A [[B _] _]]. destruct X as [[k [K1 K2]]|X]; [|tauto].
    destruct (A k K1) as [Y|Y]; [destruct k; discriminate|subst; discriminate].
Qed.

(* evidence of the post-authentication phase contradicts every "early" shape *)
Lemma evP_not_early s :
  evP s -> (forall k, In k (hk s) -> is_baseh k = true \/ k = HFeatures \/ k = HProceedTls \/ is_saslh k = true) ->
  (forall i, In i (ik s) -> i = IKLegacy) -> False.
Proof.
  intros [[k [A B]]|[A|A]] H I.
  - destruct (H k A) as [X|[X|[X|X]]]; try (subst; discriminate); destruct k; discriminate.
  - specialize (I _ A). discriminate.
  - specialize (I _ A). discriminate.
Qed.

Section Transfer.
Variables s s' : state.
Hypothesis Edis : f_tls_disabled s' = f_tls_disabled s.
Hypothesis Emand : f_tls_mandatory s' = f_tls_mandatory s.
Hypothesis Elauth : f_legacy_auth s' = f_legacy_auth s.
Hypothesis Etyp : typ s' = typ s.
Hypothesis Eraw : is_raw s' = is_raw s.
Hypothesis Est : st s' = st s.
Hypothesis Esec : secured s' = secured s.
Hypothesis Etlsp : tls_present s' = tls_present s.
Hypothesis Etlsf : tls_failed s' = tls_failed s.
Hypothesis Esasl : sasl s' = sasl s.
Hypothesis Erp : reset_parser s' = reset_parser s.
Hypothesis Eoh : oh s' = oh s.
Hypothesis Eps : ps s' = ps s.
Hypothesis Egs : g_strong (gh s') = g_strong (gh s).
Hypothesis Egf : g_feat_seen (gh s') = g_feat_seen (gh s).
Hypothesis Hh : forall k, In k (hk s') -> In k (hk s) \/ (is_posth k = true /\ evP s).
Hypothesis Hi : forall i, In i (ik s') -> In i (ik s) \/ evP s.
Hypothesis Ht : hasTMF s' -> hasTMF s.
Hypothesis Hs : sm_enabled s' = sm_enabled s \/ evP s.
Hypothesis Hq : exists l, sendq s' = sendq s ++ l /\ Forall (fun x => benignE x \/ In (fst (fst x)) (sw s)) l.
Hypothesis Hoff : st s <> Connected -> sendq s' = sendq s.
Hypothesis H6 : hasTMF s' -> hasF s -> hasF s'.
Hypothesis L : LInv s.
Hypothesis G : GInv s.

Let NA : evP s -> noauth s := evP_noauth s L.

Lemma tr_early (Q : hkind -> Prop) :
  (forall k, In k (hk s) -> Q k) -> (forall k, Q k -> is_posth k = false) -> (forall i, In i (ik s) -> i = IKLegacy) ->
  (forall k, In k (hk s') -> Q k) /\ (forall i, In i (ik s') -> i = IKLegacy) /\ sm_enabled s' = sm_enabled s.
Proof.
  intros A C B.
  assert (NE : ~ evP s).
  { intros [[k [K1 K2]]|[K|K]].
    - rewrite (C k (A k K1)) in K2. discriminate.
    - specialize (B _ K). discriminate.
    - specialize (B _ K). discriminate. }
  repeat split.
  - intros k Hk. destruct (Hh k Hk) as [X|[_ X]]; [auto|tauto].
  - intros i Hi0. destruct (Hi i Hi0) as [X|X]; [auto|tauto].
  - destruct Hs; tauto.
Qed.

Lemma tr_new_entry x : In x (sendq s') -> In x (sendq s) \/ is_neg (fst (fst x)) = false.
Proof.
  destruct Hq as [l [E A]]. rewrite E, in_app_iff. intros [H|H]; [left; exact H|right].
  rewrite Forall_forall in A. destruct (A x H) as [B|B]; [exact B|apply (gi_S s G); exact B].
Qed.

Lemma tr_hasS : hasS s' -> hasS s.
Proof.
  intros [k [A B]]. destruct (Hh k A) as [X|[X _]]; [exists k; auto|destruct k; discriminate].
Qed.
Lemma tr_hasF : hasF s' -> hasF s.
Proof. intro A. destruct (Hh _ A) as [X|[X _]]; [exact X|discriminate]. Qed.
Lemma tr_hasT : hasT s' -> hasT s.
Proof. intro A. destruct (Hh _ A) as [X|[X _]]; [exact X|discriminate]. Qed.
Lemma tr_noauth : noauth s -> noauth s'.
Proof.
  intros [A [B [C D]]]. repeat split; intro X; [apply A, tr_hasF|apply B, tr_hasT|apply C, tr_hasS|apply D, Ht]; exact X.
Qed.

Ltac np := let k := fresh "k" in let H := fresh "H" in
  intros k H; first [destruct H as [H|H]; [destruct k; (discriminate H || reflexivity)|subst; reflexivity]
                    | subst; reflexivity | destruct k; (discriminate H || reflexivity)].

Lemma linv_transfer : LInv s'.
Proof.
  constructor.
  - (* C *) intro Hc. rewrite Est in Hc. destruct (li_C s L Hc) as [[F1 [F2 [F3 [F4 [F5 F6]]]]] [A [B [C1 [C2 C3]]]]].
    destruct (tr_early (fun k => k = HUser) F3 ltac:(np) F4) as [X1 [X2 X3]].
    rewrite Esec, Eoh. repeat split; auto; try congruence.
    rewrite Hoff; [exact B|congruence].
  - (* XF *) intro F. pose proof (tr_hasF F) as F0. destruct (li_XF s L F0) as [A [[B1 B2] [C [D E]]]].
    destruct (tr_early (fun k => is_baseh k = true \/ k = HFeatures) A ltac:(np) B1) as [X1 [X2 X3]].
    rewrite Eoh, Esasl. repeat split; auto; congruence.
  - (* XT *) intro F. pose proof (tr_hasT F) as F0. destruct (li_XT s L F0) as [A [[B1 B2] [C [D [E [E2 E3]]]]]].
    destruct (tr_early (fun k => is_baseh k = true \/ k = HProceedTls) A ltac:(np) B1) as [X1 [X2 X3]].
    unfold strong_in. rewrite Eoh, Esasl, Esec, Egs, Egf. repeat split; auto; try congruence; apply E3; assumption.
  - (* XS *) intros k K1 K2.
    assert (K0 : In k (hk s)) by (destruct (Hh k K1) as [X|[X _]]; [exact X|destruct k; discriminate]).
    destruct (li_XS s L k K0 K2) as [A [[B1 B2] [C [D [E E2]]]]].
    destruct (tr_early (fun k' => is_baseh k' = true \/ k' = k) A) as [X1 [X2 X3]]; [|exact B1|].
    { intros k' [H|H]; [destruct k'; (discriminate H || reflexivity)|subst; destruct k; (discriminate K2 || reflexivity)]. }
    rewrite Eoh, Esasl, Egs, Egf. repeat split; auto; congruence.
  - (* XP *) intros k K1 K2.
    assert (NT : forall k', In k' (hk s) -> is_posth k' = true -> ~ hasTMF s') by
      (intros k' A B C; apply Ht in C; destruct (li_XP s L k' A B) as [_ X]; tauto).
    assert (CL : forall k0, In k0 (hk s) -> is_posth k0 = true ->
                 forall k', In k' (hk s') -> is_baseh k' = true \/ is_posth k' = true).
    { intros k0 A B k' K'. destruct (Hh k' K') as [X|[X _]]; [|auto]. destruct (li_XP s L k0 A B) as [Y _]. auto. }
    destruct (Hh k K1) as [X|[_ E]].
    + split; [eapply CL; eassumption|eapply NT; eassumption].
    + pose proof (NA E) as [N1 [N2 [N3 N4]]]. split.
      * intros k' K'. destruct (Hh k' K') as [X|[X _]]; [|auto].
        destruct (class_cases k') as [Y|[Y|[Y|[Y|Y]]]]; auto; exfalso; subst; try tauto. apply N3. exists k'. auto.
      * intro C. apply N4, Ht, C.
  - (* TMF *) intro F. apply H6; [exact F|]. apply (li_TMF s L), Ht, F.
  - (* POA *) intros A B C. rewrite Est in A. rewrite Eoh in B. rewrite Eps in C.
    destruct (li_POA s L A B C) as [F1 [F2 [F3 [F4 [F5 F6]]]]].
    destruct (tr_early (fun k => k = HUser) F3 ltac:(np) F4) as [X1 [X2 X3]].
    unfold fresh. rewrite Esasl, Egs. repeat split; auto; congruence.
  - (* POT *) intros A B. rewrite Eoh in A. rewrite Erp, Eps in B.
    destruct (li_POT s L A B) as [[Q1 [Q2 [Q3 Q4]]] [P1 P2]].
    destruct (tr_early (fun k => is_baseh k = true) Q1 ltac:(np) Q3) as [X1 [X2 X3]].
    unfold quietS, prepost, strong_in. rewrite Esasl, Egs, Egf, Eps. repeat split; auto; congruence.
  - (* POP *) intro A. rewrite Eoh in A. apply tr_noauth. apply (li_POP s L A).
  - (* O *) intro A. rewrite Eoh in A. rewrite Esec, Est. apply (li_O s L A).
  - (* R *) intros A B. rewrite Est in A. rewrite Eoh in B. rewrite Erp. apply (li_R s L A B).
  - (* RP *) intros A B C. rewrite Est in A. rewrite Eraw in B. rewrite Erp in C. rewrite Eps. apply (li_RP s L A B C).
  - (* RAW *) intro A. rewrite Eraw in A. destruct (li_RAW s L A) as [B [C [D E]]].
    destruct (tr_early (fun k => k = HUser) C ltac:(np) D) as [X1 [X2 X3]].
    rewrite Eoh. repeat split; auto.
  - (* STUB *) intro A. rewrite Eoh in A. rewrite Eraw. apply (li_STUB s L A).
  - (* COMP *) intro A. rewrite Eoh in A. destruct (li_COMP s L A) as [B [C D]].
    destruct (tr_early (fun k => is_baseh k = true) B ltac:(np) C) as [X1 [X2 X3]]. repeat split; auto.
  - (* Q *) intros x A B. destruct (tr_new_entry x A) as [X|X]; [apply (li_Q s L x X B)|exact X].
  - (* M *) intros A B. rewrite Emand in A. unfold is_secured. rewrite Esec, Etlsf, Etlsp. apply (li_M s L A).
    destruct B as [B|[x [B1 B2]]]; [left; apply tr_hasS; exact B|].
    destruct (tr_new_entry x B1) as [X|X]; [right; exists x; auto|]. apply is_cred_neg in B2. congruence.
  - (* D *) intros A x B. rewrite Edis in A. destruct (tr_new_entry x B) as [X|X]; [apply (li_D s L A x X)|].
    intro E. rewrite E in X. discriminate.
  - (* L *) intros x A B. rewrite Elauth, Etyp. destruct (tr_new_entry x A) as [X|X]; [apply (li_L s L x X B)|].
    rewrite B in X. discriminate.
  - (* PL *) intros x A B. rewrite Egs, Egf, Eps. destruct (tr_new_entry x A) as [X|X]; [apply (li_PL s L x X B)|].
    rewrite B in X. discriminate.
Qed.
End Transfer.

Definition cK : list fld := [Fsme; Fh; Fid; Ft; Fsq; Fsmq; Fcr; FhD; FidD].

(* the generic preservation lemma: a function that only adds benign queue entries, removes handlers or
   timers, and adds post-authentication handlers only when the state is already past authentication *)
Lemma hinv_mono c p s s' :
  HInv s -> eff c p s s' -> subl c cK = true ->
  (forall x, pw p x -> benignE x) ->
  (forall k, pt p k -> k <> TMissingFeatures) ->
  (forall k, ph p k -> is_posth k = true /\ evP s) ->
  (forall i, pid p i -> evP s) ->
  (fmem Fsme c = true -> evP s) ->
  (hasTMF s' -> hasF s -> hasF s') ->
  HInv s'.
Proof.
  intros [G Lv] E Sub Pw Pt Ph Pi Ps H6.
  pose proof (subl_ok _ _ Sub) as W.
  destruct E as [U Lf St Sme [l [Q A]] Hh Hi Ht M HK IK C O].
  split.
  - constructor.
    + assert (X : fmem Ftlss (c ++ DISC) = false) by (rewrite fmem_app, (W Ftlss eq_refl); reflexivity).
      pose proof (U Ftlss X) as Y. cbn in Y. rewrite Y. apply (gi_T s G).
    + intros w Hw. apply (gi_S s G). apply M. exact Hw.
  - intro L'. destruct (live_back _ _ St L') as [L0 Est]. specialize (Lv L0). specialize (Lf L').
    assert (F : frame cK s s') by (eapply frame_weaken; [exact W|exact Lf]).
    apply (linv_transfer s s' (F Fdis eq_refl) (F Fmand eq_refl) (F Flauth eq_refl) (F Ftyp eq_refl) (F Fraw eq_refl)
             (F Fst eq_refl) (F Fsec eq_refl) (F Ftlsp eq_refl) (F Ftlsf eq_refl) (F Fsasl eq_refl) (F Frp eq_refl)
             (F Foh eq_refl) (F Fps eq_refl) (F Fgs eq_refl) (F Fgf eq_refl)); try assumption.
    + intros k Hk. destruct (Hh k Hk) as [X|X]; [left; exact X|right; apply Ph; exact X].
    + intros i Hi0. destruct (Hi i Hi0) as [X|X]; [left; exact X|right; eapply Pi; exact X].
    + intro T. destruct (Ht _ T) as [X|X]; [exact X|]. exfalso. apply (Pt _ X). reflexivity.
    + destruct (fmem Fsme c) eqn:Fs; [right; apply Ps; reflexivity|left]. exact (Lf Fsme Fs).
    + exists l. split; [exact Q|]. eapply Forall_impl; [|exact A]. intros x [X|X]; [left; apply Pw; exact X|right; exact X].
Qed.

Lemma In_hk_handlers k s : In k (hk s) <-> exists b, In (k, b) (handlers s).
Proof.
  unfold hk. rewrite in_map_iff. split.
  - intros [[k' b] [E H]]. cbn in E. subst. exists b. exact H.
  - intros [b H]. exists (k, b). split; [reflexivity|exact H].
Qed.
Lemma keep_hk c p s s' k : eff c p s s' -> fmem FhD c = false -> In k (hk s) -> In k (hk s').
Proof.
  intros E F H. apply In_hk_handlers in H as [b H]. apply In_hk_handlers. exists b. exact (ef_hkeep _ _ _ _ E F _ H).
Qed.
Lemma keep_evP c p s s' : eff c p s s' -> fmem FhD c = false -> fmem FidD c = false -> evP s -> evP s'.
Proof.
  intros E F1 F2 [[k [A B]]|[A|A]].
  - left. exists k. split; [eapply keep_hk; eassumption|exact B].
  - right. left. exact (ef_ikeep _ _ _ _ E F2 _ A).
  - right. right. exact (ef_ikeep _ _ _ _ E F2 _ A).
Qed.

(* handler-level judgement: the invariant plus the local context (evidence of the post-authentication
   phase if ev; the parser is inside a stream if po; never Connecting while handlers run) *)
Definition Ctx (ev po : bool) (t : state) : Prop :=
  (ev = true -> evP t) /\ (po = true -> ps t = POpen) /\ st t <> Connecting.
Definition JT (ev po : bool) (t : state) : Prop := HInv t /\ Ctx ev po t.

Lemma ctx_step ev po c p t t' :
  eff c p t t' -> subl c cK = true -> fmem FhD c = false -> fmem FidD c = false -> Ctx ev po t -> Ctx ev po t'.
Proof.
  intros E Sub F1 F2 [A [B C]]. pose proof (subl_ok _ _ Sub) as W. repeat split.
  - intro X. eapply keep_evP; eauto.
  - intro X. assert (Y : fmem Fps (c ++ DISC) = false) by (rewrite fmem_app, (W Fps eq_refl); reflexivity).
    pose proof (ef_U _ _ _ _ E Fps Y) as Z. cbn in Z. rewrite Z. auto.
  - destruct (ef_st _ _ _ _ E) as [X|X]; rewrite X; [exact C|discriminate].
Qed.

Lemma jt_step ev po c p t t' :
  JT ev po t -> eff c p t t' -> subl c cK = true -> fmem FhD c = false -> fmem FidD c = false ->
  (forall x, pw p x -> benignE x) -> (forall k, pt p k -> k <> TMissingFeatures) ->
  (forall k, ph p k -> is_posth k = true /\ ev = true) -> (forall i, pid p i -> ev = true) ->
  (fmem Fsme c = true -> ev = true) ->
  JT ev po t'.
Proof.
  intros [H C] E Sub F1 F2 Pw Pt Ph Pi Ps. split; [|eapply ctx_step; eassumption].
  destruct C as [C1 _].
  eapply hinv_mono; try eassumption.
  - intros k X. destruct (Ph k X). auto.
  - intros i X. eauto.
  - intro X. auto.
  - intros _ X. eapply keep_hk; eassumption.
Qed.

(* removing a handler / id handler / timer at the end of a visit *)
Lemma hinv_del c p t t' :
  HInv t -> eff c p t t' -> subl c cK = true -> fmem Fsme c = false ->
  (forall k, ~ ph p k) -> (forall i, ~ pid p i) -> (forall k, ~ pt p k) -> (forall x, ~ pw p x) ->
  (hasTMF t' -> hasF t -> hasF t') -> HInv t'.
Proof.
  intros H E Sub Fs Ph Pi Pt Pw H6. eapply hinv_mono; try eassumption.
  - intros x X. destruct (Pw x X).
  - intros k X. destruct (Pt k X).
  - intros k X. destruct (Ph k X).
  - intros i X. destruct (Pi i X).
  - intro X. rewrite Fs in X. discriminate.
Qed.

(* ------------------------------------------------------------------ symbolic execution for JT *)
Ltac destr_hyps :=
  repeat match goal with
         | H : _ \/ _ |- _ => destruct H
         | H : exists _, _ |- _ => destruct H
         | H : _ /\ _ |- _ => destruct H
         end.
Ltac pw_tac :=
  cbn; let x := fresh "x" in let H := fresh "H" in intros x H; unfold benignE in *;
  first [ exact H | contradiction
        | destr_hyps; subst; cbn;
          first [reflexivity | match goal with H' : fst (fst _) = _ |- _ => rewrite H' end; reflexivity] ].
Ltac pt_tac := cbn; let k := fresh "k" in let H := fresh "H" in intros k H; try contradiction; destr_hyps; subst; discriminate.
Ltac ph_tac := cbn; let k := fresh "k" in let H := fresh "H" in intros k H; try contradiction; destr_hyps; subst; split; reflexivity.
Ltac pi_tac := cbn; let k := fresh "k" in let H := fresh "H" in intros k H; try contradiction; reflexivity.
Ltac ps_tac := let X := fresh "X" in intro X; first [discriminate X | reflexivity].
Ltac jstep L :=
  eapply jt_step; [ | apply L | vm_compute; reflexivity | reflexivity | reflexivity | pw_tac | pt_tac | ph_tac | pi_tac | ps_tac ].
Ltac jsetter t :=
  first [ eapply (jt_step _ _ [] pnone t); [ | eff_frame | vm_compute; reflexivity | reflexivity | reflexivity | pw_tac | pt_tac | ph_tac | pi_tac | ps_tac ]
        | eapply (jt_step _ _ [Fsme] pnone t); [ | eff_frame | vm_compute; reflexivity | reflexivity | reflexivity | pw_tac | pt_tac | ph_tac | pi_tac | ps_tac ] ].

Ltac peelJ :=
  match goal with
  | H : JT ?a ?b ?t |- JT ?a ?b ?t => exact H
  | |- JT _ _ (if _ then _ else _) => break_if
  | |- JT _ _ (match _ with _ => _ end) => break_match
  | |- JT _ _ (send_gated _ _ _ _) => jstep send_gated_eff
  | |- JT _ _ (send_raw_m _ _ _ _) => jstep send_raw_m_eff
  | |- JT _ _ (xmpp_disconnect _ _) => jstep xmpp_disconnect_eff
  | |- JT _ _ (conn_open_stream _) => jstep conn_open_stream_eff
  | |- JT _ _ (timed_add _ _ _) => jstep timed_add_eff
  | |- JT _ _ (timed_reset_all _ _) => jstep (timed_reset_all_eff pnone)
  | |- JT _ _ (timed_set_stamp _ _ _) => jstep (timed_set_stamp_eff pnone)
  | |- JT _ _ (h_add _ _) => jstep h_add_eff
  | |- JT _ _ (id_add _ _) => jstep id_add_eff
  | |- JT _ _ (sm_queue_resend _) => jstep sm_queue_resend_eff
  | |- JT _ _ (sm_queue_cleanup _ _) => jstep (sm_queue_cleanup_eff pnone)
  | |- JT _ _ (sm_enable _) => jstep sm_enable_eff
  | |- JT _ _ (session_start _ _) => jstep session_start_eff
  | |- JT _ _ (upg _ _) => unfold upg
  | |- JT _ _ (fst (conn_disconnect _)) => jstep (conn_disconnect_eff pnone)
  | |- JT _ _ (fst (stream_negotiation_success _)) => jstep (stream_negotiation_success_eff pnone)
  | |- JT _ _ (fst (do_bind _ _ _)) => jstep do_bind_eff
  | |- JT _ _ (?f ?v ?t) => jsetter t
  end.

(* results *)
Definition JR (ev po : bool) (r : R) : Prop := JT ev po (fst r).
Definition J3 (ev po : bool) (r : state * emit * bool) : Prop := JT ev po (fst (fst r)).
Lemma J3_let_st ev po v (B : state -> state * emit * bool) :
  JT ev po v -> (forall x, JT ev po x -> J3 ev po (B x)) -> J3 ev po (let x := v in B x).
Proof. intros A F. apply F. exact A. Qed.
Lemma JR_let_st ev po v (B : state -> R) :
  JT ev po v -> (forall x, JT ev po x -> JR ev po (B x)) -> JR ev po (let x := v in B x).
Proof. intros A F. apply F. exact A. Qed.
Lemma J3_bind ev po (r : R) (B : state -> emit -> state * emit * bool) :
  JR ev po r -> (forall x o, JT ev po x -> J3 ev po (B x o)) -> J3 ev po (let '(x, o) := r in B x o).
Proof. destruct r as [x o]. intros A F. apply F. exact A. Qed.
Lemma JR_bind ev po (r : R) (B : state -> emit -> R) :
  JR ev po r -> (forall x o, JT ev po x -> JR ev po (B x o)) -> JR ev po (let '(x, o) := r in B x o).
Proof. destruct r as [x o]. intros A F. apply F. exact A. Qed.

Ltac symJR :=
  lazymatch goal with
  | |- JR ?a ?b (let x := ?v in @?B x) =>
      let ty := type of v in
      lazymatch ty with
      | state => apply (JR_let_st a b v B); [repeat peelJ|intros ? ?; cbv beta]
      | _ => change (JR a b (B v)); cbv beta
      end
  | |- JR _ _ (ret _) => unfold JR, ret; cbn [fst]; repeat peelJ
  | |- JR _ _ (if ?c then _ else _) => destruct c eqn:?
  | |- JR ?a ?b (let '(x, o) := ?r in @?B x o) => apply (JR_bind a b r B); [|intros ? ? ?]
  | |- JR _ _ (match ?x with _ => _ end) => destruct x eqn:?
  | |- JR _ _ (_, _) => unfold JR; cbn [fst]; repeat peelJ
  | |- JR _ _ _ => unfold JR; repeat peelJ
  end.
Ltac symJ3 :=
  lazymatch goal with
  | |- J3 ?a ?b (let x := ?v in @?B x) =>
      let ty := type of v in
      lazymatch ty with
      | state => apply (J3_let_st a b v B); [repeat peelJ|intros ? ?; cbv beta]
      | _ => change (J3 a b (B v)); cbv beta
      end
  | |- J3 _ _ (if ?c then _ else _) => destruct c eqn:?
  | |- J3 ?a ?b (let '(x, o) := ?r in @?B x o) => apply (J3_bind a b r B); [repeat symJR|intros ? ? ?]
  | |- J3 _ _ (match ?x with _ => _ end) => destruct x eqn:?
  | |- J3 _ _ (_, _, _) => unfold J3; cbn [fst]; repeat peelJ
  end.

(* the stream-management handler: everything it does is harmless once HSm is registered *)
Lemma call_HSm_J now e s : JT true true s -> J3 true true (call_handler HSm now e s).
Proof. intro H. cbv beta iota delta [call_handler]. repeat symJ3. Qed.
