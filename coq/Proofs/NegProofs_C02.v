(* C02 - proofs.  Credentials obey the TLS and mechanism policy the user configured.
   Frame lemmas live in Proofs/NegFrame_C02.v; this file defines the invariant of the connection
   automaton, proves that every model function preserves it and concludes the four policy statements. *)
Require Import LV.Common.Bytes LV.Gen.Gen_neg LV.Model.NegState LV.Model.NegModel LV.Spec.NegSpec.
Require Import LV.Proofs.NegFrame_C02.
Local Open Scope Z_scope.

(* ------------------------------------------------------------------ check_run *)
Lemma run_cons s o r : fst (run s (o :: r)) = fst (run (fst (step s o)) r).
Proof. simpl. destruct (step s o) as [s1 o1]. cbn [fst]. destruct (run s1 r) as [s2 o2]. reflexivity. Qed.
Lemma check_run_cons ok s o r :
  check_run ok s (o :: r) = ok s o (fst (step s o)) (snd (step s o)) && check_run ok (fst (step s o)) r.
Proof. simpl. destruct (step s o) as [s1 o1]. reflexivity. Qed.

Lemma check_run_meaning_proof :
  forall ok s ops, check_run ok s ops = true <->
    (forall pre o post, ops = pre ++ o :: post ->
       let sp := fst (run s pre) in ok sp o (fst (step sp o)) (snd (step sp o)) = true).
Proof.
  intros ok s ops. revert s. induction ops as [|o0 r IH]; intro s.
  - split; [|reflexivity]. intros _ pre o post E. destruct pre; discriminate E.
  - rewrite check_run_cons, andb_true_iff, IH. split.
    + intros [A B] pre o post E. destruct pre as [|p pre]; simpl in E; inv E.
      * exact A.
      * cbv zeta. rewrite run_cons. apply (B pre o post). reflexivity.
    + intro H. split.
      * apply (H [] o0 r). reflexivity.
      * intros pre o post E. specialize (H (o0 :: pre) o post). cbv zeta in H. rewrite run_cons in H.
        apply H. rewrite E. reflexivity.
Qed.

(* the proof principle: an invariant of `step` that implies the per-step predicate *)
Lemma check_run_inv (ok : state -> op -> state -> list out -> bool) (I : state -> Prop) :
  (forall s o, I s -> I (fst (step s o))) ->
  (forall s o, I s -> ok s o (fst (step s o)) (snd (step s o)) = true) ->
  forall ops s, I s -> check_run ok s ops = true.
Proof.
  intros P Q. induction ops as [|o r IH]; intros s Hs; [reflexivity|].
  rewrite check_run_cons, (Q s o Hs), (IH _ (P s o Hs)). reflexivity.
Qed.

(* ------------------------------------------------------------------ the invariant *)
Definition is_baseh (k : hkind) : bool := match k with HUser | HError | HComponentHs => true | _ => false end.
Definition is_posth (k : hkind) : bool :=
  match k with HFeaturesSasl | HFeaturesCompress | HCompressResult | HSm => true | _ => false end.

Definition hasF (s : state) : Prop := In HFeatures (hk s).
Definition hasT (s : state) : Prop := In HProceedTls (hk s).
Definition hasS (s : state) : Prop := exists k, In k (hk s) /\ is_saslh k = true.
Definition hasTMF (s : state) : Prop := In TMissingFeatures (tk s).
Definition noauth (s : state) : Prop := ~ hasF s /\ ~ hasT s /\ ~ hasS s /\ ~ hasTMF s.
Definition prepost (s : state) : Prop := (forall i, In i (ik s) -> i = IKLegacy) /\ sm_enabled s = false.
Definition strong_in (s : state) : Prop := existsb (fun m => negb (is_plain_or_anon m)) (sasl s) = true.
Definition fresh (s : state) : Prop :=
  sasl s = [] /\ sm_enabled s = false /\ (forall k, In k (hk s) -> k = HUser) /\
  (forall i, In i (ik s) -> i = IKLegacy) /\ ~ hasTMF s /\ g_strong (gh s) = false.
Definition quietS (s : state) : Prop :=
  (forall k, In k (hk s) -> is_baseh k = true) /\ ~ hasTMF s /\ prepost s.
(* evidence that the connection is past authentication *)
Definition evP (s : state) : Prop :=
  (exists k, In k (hk s) /\ is_posth k = true) \/ In IKBind (ik s) \/ In IKSession (ik s).

Record LInv (s : state) : Prop := mkLInv {
  li_C : st s = Connecting ->
         fresh s /\ secured s = false /\ sendq s = [] /\ oh s <> OpenTls /\ oh s <> OpenSasl /\ oh s <> OpenCompress;
  li_XF : hasF s ->
          (forall k, In k (hk s) -> is_baseh k = true \/ k = HFeatures) /\ prepost s /\
          (oh s = OpenAuth \/ oh s = OpenTls) /\ (hasTMF s -> oh s = OpenAuth) /\ (oh s = OpenAuth -> sasl s = []);
  li_XT : hasT s ->
          (forall k, In k (hk s) -> is_baseh k = true \/ k = HProceedTls) /\ prepost s /\ ~ hasTMF s /\
          secured s = false /\ oh s = OpenAuth /\ g_feat_seen (gh s) = true /\
          (g_strong (gh s) = true -> strong_in s /\ mem_mech MPlain (sasl s) = false);
  li_XS : forall k, In k (hk s) -> is_saslh k = true ->
          (forall k', In k' (hk s) -> is_baseh k' = true \/ k' = k) /\ prepost s /\ ~ hasTMF s /\
          (oh s = OpenAuth \/ oh s = OpenTls) /\ g_feat_seen (gh s) = true /\
          (g_strong (gh s) = true -> mem_mech MPlain (sasl s) = false);
  li_XP : forall k, In k (hk s) -> is_posth k = true ->
          (forall k', In k' (hk s) -> is_baseh k' = true \/ is_posth k' = true) /\ ~ hasTMF s;
  li_TMF : hasTMF s -> hasF s;
  li_POA : st s = Connected -> oh s = OpenAuth -> ps s = PDepth0 -> fresh s;
  li_POT : oh s = OpenTls -> (reset_parser s = true \/ ps s = PDepth0) ->
           quietS s /\ (g_strong (gh s) = true -> strong_in s) /\ (ps s <> PDepth0 -> g_feat_seen (gh s) = true);
  li_POP : (oh s = OpenSasl \/ oh s = OpenCompress) -> noauth s;
  li_O : oh s = OpenTls -> secured s = true /\ st s = Connected;
  li_R : st s = Connected -> oh s = OpenAuth -> reset_parser s = false;
  li_RP : st s = Connected -> is_raw s = false -> reset_parser s = true -> ps s <> PDepth0;
  li_RAW : is_raw s = true ->
           (oh s = OpenStub \/ oh s = OpenRaw) /\ (forall k, In k (hk s) -> k = HUser) /\
           (forall i, In i (ik s) -> i = IKLegacy) /\ ~ hasTMF s;
  li_STUB : (oh s = OpenStub \/ oh s = OpenRaw) -> is_raw s = true;
  li_COMP : oh s = OpenComponent ->
            (forall k, In k (hk s) -> is_baseh k = true) /\ (forall i, In i (ik s) -> i = IKLegacy) /\ ~ hasTMF s;
  li_Q : forall x, In x (sendq s) -> snd x = false -> is_neg (fst (fst x)) = false;
  li_M : f_tls_mandatory s = true ->
         (hasS s \/ exists x, In x (sendq s) /\ is_cred (fst (fst x)) = true) -> is_secured s = true;
  li_D : f_tls_disabled s = true -> forall x, In x (sendq s) -> fst (fst x) <> WStartTls;
  li_L : forall x, In x (sendq s) -> fst (fst x) = WLegacy -> f_legacy_auth s = true /\ typ s = TClient;
  li_PL : forall x, In x (sendq s) -> fst (fst x) = WAuth MPlain ->
          g_strong (gh s) = false /\ g_feat_seen (gh s) = true /\ ps s <> PDepth0
}.
(* while HFeatures waits: a strong mechanism seen so far is still in the list *)
Definition PL3F (s : state) : Prop := hasF s -> crashed s = false -> g_strong (gh s) = true -> strong_in s.

Record GInv (s : state) : Prop := mkGInv {
  gi_T : tls_support s = false;
  gi_S : forall w, In w (sw s) -> is_neg w = false
}.
(* handler granularity *)
Definition HInv (s : state) : Prop := GInv s /\ (live s -> LInv s).
(* step granularity *)
Definition Inv (s : state) : Prop :=
  HInv s /\ (live s -> PL3F s) /\ (st s = Disconnected -> sm_enabled s = false).

Lemma is_cred_neg w : is_cred w = true -> is_neg w = true.
Proof. destruct w; simpl; congruence. Qed.
Lemma class_cases k : is_baseh k = true \/ k = HFeatures \/ k = HProceedTls \/ is_saslh k = true \/ is_posth k = true.
Proof. destruct k; simpl; auto 6. Qed.

(* past authentication nothing of the authentication phase is left *)
Lemma evP_noauth s : LInv s -> evP s -> noauth s.
Proof.
  intros L E.
  assert (X : (exists k, In k (hk s) /\ is_posth k = true) \/ ~ (forall i, In i (ik s) -> i = IKLegacy)).
  { destruct E as [E|[E|E]]; [left; exact E| |]; right; intro A; specialize (A _ E); discriminate. }
  clear E. repeat split.
  - intro F. destruct (li_XF s L F) as [A [[B _] _]]. destruct X as [[k [K1 K2]]|X]; [|tauto].
    destruct (A k K1) as [Y|Y]; [destruct k; discriminate|subst; discriminate].
  - intro F. destruct (li_XT s L F) as [A [[B _] _]]. destruct X as [[k [K1 K2]]|X]; [|tauto].
    destruct (A k K1) as [Y|Y]; [destruct k; discriminate|subst; discriminate].
  - intros [k0 [F1 F2]]. destruct (li_XS s L k0 F1 F2) as [A [[B _] _]]. destruct X as [[k [K1 K2]]|X]; [|tauto].
    destruct (A k K1) as [Y|Y]; [destruct k; discriminate|subst; destruct k0; discriminate].
  - intro F. apply (li_TMF s L) in F. destruct (li_XF s L F) as [A [[B _] _]]. destruct X as [[k [K1 K2]]|X]; [|tauto].
    destruct (A k K1) as [Y|Y]; [destruct k; discriminate|subst; discriminate].
Qed.

(* evidence of the post-authentication phase contradicts every "early" shape *)
Lemma evP_not_early s :
  evP s -> (forall k, In k (hk s) -> is_baseh k = true \/ k = HFeatures \/ k = HProceedTls \/ is_saslh k = true) ->
  (forall i, In i (ik s) -> i = IKLegacy) -> False.
Proof.
  intros [[k [A B]]|[A|A]] H I.
  - destruct (H k A) as [X|[X|[X|X]]]; try (subst; discriminate); destruct k; discriminate.
  - specialize (I _ A). discriminate.
  - specialize (I _ A). discriminate.
Qed.

Section Transfer.
Variables s s' : state.
Hypothesis Edis : f_tls_disabled s' = f_tls_disabled s.
Hypothesis Emand : f_tls_mandatory s' = f_tls_mandatory s.
Hypothesis Elauth : f_legacy_auth s' = f_legacy_auth s.
Hypothesis Etyp : typ s' = typ s.
Hypothesis Eraw : is_raw s' = is_raw s.
Hypothesis Est : st s' = st s.
Hypothesis Esec : secured s' = secured s.
Hypothesis Etlsp : tls_present s' = tls_present s.
Hypothesis Etlsf : tls_failed s' = tls_failed s.
Hypothesis Esasl : sasl s' = sasl s.
Hypothesis Erp : reset_parser s' = reset_parser s.
Hypothesis Eoh : oh s' = oh s.
Hypothesis Eps : ps s' = ps s.
Hypothesis Egs : g_strong (gh s') = g_strong (gh s).
Hypothesis Egf : g_feat_seen (gh s') = g_feat_seen (gh s).
Hypothesis Hh : forall k, In k (hk s') -> In k (hk s) \/ (is_posth k = true /\ evP s).
Hypothesis Hi : forall i, In i (ik s') -> In i (ik s) \/ i = IKLegacy \/ evP s.
Hypothesis Ht : hasTMF s' -> hasTMF s.
Hypothesis Hs : sm_enabled s' = sm_enabled s \/ evP s.
Hypothesis Hq : exists l, sendq s' = sendq s ++ l /\ Forall (fun x => benignE x \/ In (fst (fst x)) (sw s)) l.
Hypothesis Hoff : st s <> Connected -> sendq s' = sendq s.
Hypothesis H6 : hasTMF s' -> hasF s -> hasF s'.
Hypothesis L : LInv s.
Hypothesis G : GInv s.

Let NA : evP s -> noauth s := evP_noauth s L.

Lemma tr_early (Q : hkind -> Prop) :
  (forall k, In k (hk s) -> Q k) -> (forall k, Q k -> is_posth k = false) -> (forall i, In i (ik s) -> i = IKLegacy) ->
  (forall k, In k (hk s') -> Q k) /\ (forall i, In i (ik s') -> i = IKLegacy) /\ sm_enabled s' = sm_enabled s.
Proof.
  intros A C B.
  assert (NE : ~ evP s).
  { intros [[k [K1 K2]]|[K|K]].
    - rewrite (C k (A k K1)) in K2. discriminate.
    - specialize (B _ K). discriminate.
    - specialize (B _ K). discriminate. }
  repeat split.
  - intros k Hk. destruct (Hh k Hk) as [X|[_ X]]; [auto|tauto].
  - intros i Hi0. destruct (Hi i Hi0) as [X|[X|X]]; [auto|exact X|tauto].
  - destruct Hs; tauto.
Qed.

Lemma tr_new_entry x : In x (sendq s') -> In x (sendq s) \/ is_neg (fst (fst x)) = false.
Proof.
  destruct Hq as [l [E A]]. rewrite E, in_app_iff. intros [H|H]; [left; exact H|right].
  rewrite Forall_forall in A. destruct (A x H) as [B|B]; [exact B|apply (gi_S s G); exact B].
Qed.

Lemma tr_hasS : hasS s' -> hasS s.
Proof.
  intros [k [A B]]. destruct (Hh k A) as [X|[X _]]; [exists k; auto|destruct k; discriminate].
Qed.
Lemma tr_hasF : hasF s' -> hasF s.
Proof. intro A. destruct (Hh _ A) as [X|[X _]]; [exact X|discriminate]. Qed.
Lemma tr_hasT : hasT s' -> hasT s.
Proof. intro A. destruct (Hh _ A) as [X|[X _]]; [exact X|discriminate]. Qed.
Lemma tr_noauth : noauth s -> noauth s'.
Proof.
  intros [A [B [C D]]]. repeat split; intro X; [apply A, tr_hasF|apply B, tr_hasT|apply C, tr_hasS|apply D, Ht]; exact X.
Qed.

Ltac np := let k := fresh "k" in let H := fresh "H" in
  intros k H; first [destruct H as [H|H]; [destruct k; (discriminate H || reflexivity)|subst; reflexivity]
                    | subst; reflexivity | destruct k; (discriminate H || reflexivity)].

Lemma linv_transfer : LInv s'.
Proof.
  constructor.
  - (* C *) intro Hc. rewrite Est in Hc. destruct (li_C s L Hc) as [[F1 [F2 [F3 [F4 [F5 F6]]]]] [A [B [C1 [C2 C3]]]]].
    destruct (tr_early (fun k => k = HUser) F3 ltac:(np) F4) as [X1 [X2 X3]].
    rewrite Esec, Eoh. repeat split; auto; try congruence.
    rewrite Hoff; [exact B|congruence].
  - (* XF *) intro F. pose proof (tr_hasF F) as F0. destruct (li_XF s L F0) as [A [[B1 B2] [C [D E]]]].
    destruct (tr_early (fun k => is_baseh k = true \/ k = HFeatures) A ltac:(np) B1) as [X1 [X2 X3]].
    rewrite Eoh, Esasl. repeat split; auto; congruence.
  - (* XT *) intro F. pose proof (tr_hasT F) as F0. destruct (li_XT s L F0) as [A [[B1 B2] [C [D [E [E2 E3]]]]]].
    destruct (tr_early (fun k => is_baseh k = true \/ k = HProceedTls) A ltac:(np) B1) as [X1 [X2 X3]].
    unfold strong_in. rewrite Eoh, Esasl, Esec, Egs, Egf. repeat split; auto; try congruence; apply E3; assumption.
  - (* XS *) intros k K1 K2.
    assert (K0 : In k (hk s)) by (destruct (Hh k K1) as [X|[X _]]; [exact X|destruct k; discriminate]).
    destruct (li_XS s L k K0 K2) as [A [[B1 B2] [C [D [E E2]]]]].
    destruct (tr_early (fun k' => is_baseh k' = true \/ k' = k) A) as [X1 [X2 X3]]; [|exact B1|].
    { intros k' [H|H]; [destruct k'; (discriminate H || reflexivity)|subst; destruct k; (discriminate K2 || reflexivity)]. }
    rewrite Eoh, Esasl, Egs, Egf. repeat split; auto; congruence.
  - (* XP *) intros k K1 K2.
    assert (NT : forall k', In k' (hk s) -> is_posth k' = true -> ~ hasTMF s') by
      (intros k' A B C; apply Ht in C; destruct (li_XP s L k' A B) as [_ X]; tauto).
    assert (CL : forall k0, In k0 (hk s) -> is_posth k0 = true ->
                 forall k', In k' (hk s') -> is_baseh k' = true \/ is_posth k' = true).
    { intros k0 A B k' K'. destruct (Hh k' K') as [X|[X _]]; [|auto]. destruct (li_XP s L k0 A B) as [Y _]. auto. }
    destruct (Hh k K1) as [X|[_ E]].
    + split; [eapply CL; eassumption|eapply NT; eassumption].
    + pose proof (NA E) as [N1 [N2 [N3 N4]]]. split.
      * intros k' K'. destruct (Hh k' K') as [X|[X _]]; [|auto].
        destruct (class_cases k') as [Y|[Y|[Y|[Y|Y]]]]; auto; exfalso; subst; try tauto. apply N3. exists k'. auto.
      * intro C. apply N4, Ht, C.
  - (* TMF *) intro F. apply H6; [exact F|]. apply (li_TMF s L), Ht, F.
  - (* POA *) intros A B C. rewrite Est in A. rewrite Eoh in B. rewrite Eps in C.
    destruct (li_POA s L A B C) as [F1 [F2 [F3 [F4 [F5 F6]]]]].
    destruct (tr_early (fun k => k = HUser) F3 ltac:(np) F4) as [X1 [X2 X3]].
    unfold fresh. rewrite Esasl, Egs. repeat split; auto; congruence.
  - (* POT *) intros A B. rewrite Eoh in A. rewrite Erp, Eps in B.
    destruct (li_POT s L A B) as [[Q1 [Q2 [Q3 Q4]]] [P1 P2]].
    destruct (tr_early (fun k => is_baseh k = true) Q1 ltac:(np) Q3) as [X1 [X2 X3]].
    unfold quietS, prepost, strong_in. rewrite Esasl, Egs, Egf, Eps. repeat split; auto; congruence.
  - (* POP *) intro A. rewrite Eoh in A. apply tr_noauth. apply (li_POP s L A).
  - (* O *) intro A. rewrite Eoh in A. rewrite Esec, Est. apply (li_O s L A).
  - (* R *) intros A B. rewrite Est in A. rewrite Eoh in B. rewrite Erp. apply (li_R s L A B).
  - (* RP *) intros A B C. rewrite Est in A. rewrite Eraw in B. rewrite Erp in C. rewrite Eps. apply (li_RP s L A B C).
  - (* RAW *) intro A. rewrite Eraw in A. destruct (li_RAW s L A) as [B [C [D E]]].
    destruct (tr_early (fun k => k = HUser) C ltac:(np) D) as [X1 [X2 X3]].
    rewrite Eoh. repeat split; auto.
  - (* STUB *) intro A. rewrite Eoh in A. rewrite Eraw. apply (li_STUB s L A).
  - (* COMP *) intro A. rewrite Eoh in A. destruct (li_COMP s L A) as [B [C D]].
    destruct (tr_early (fun k => is_baseh k = true) B ltac:(np) C) as [X1 [X2 X3]]. repeat split; auto.
  - (* Q *) intros x A B. destruct (tr_new_entry x A) as [X|X]; [apply (li_Q s L x X B)|exact X].
  - (* M *) intros A B. rewrite Emand in A. unfold is_secured. rewrite Esec, Etlsf, Etlsp. apply (li_M s L A).
    destruct B as [B|[x [B1 B2]]]; [left; apply tr_hasS; exact B|].
    destruct (tr_new_entry x B1) as [X|X]; [right; exists x; auto|]. apply is_cred_neg in B2. congruence.
  - (* D *) intros A x B. rewrite Edis in A. destruct (tr_new_entry x B) as [X|X]; [apply (li_D s L A x X)|].
    intro E. rewrite E in X. discriminate.
  - (* L *) intros x A B. rewrite Elauth, Etyp. destruct (tr_new_entry x A) as [X|X]; [apply (li_L s L x X B)|].
    rewrite B in X. discriminate.
  - (* PL *) intros x A B. rewrite Egs, Egf, Eps. destruct (tr_new_entry x A) as [X|X]; [apply (li_PL s L x X B)|].
    rewrite B in X. discriminate.
Qed.
End Transfer.

Definition cK : list fld := [Fsme; Fh; Fid; Ft; Fsq; Fsmq; Fcr; FhD; FidD; Fdisc].

(* the generic preservation lemma: a function that only adds benign queue entries, removes handlers or
   timers, and adds post-authentication handlers only when the state is already past authentication *)
Lemma hinv_mono c p s s' :
  HInv s -> eff c p s s' -> subl c cK = true ->
  (forall x, pw p x -> benignE x) ->
  (forall k, pt p k -> k <> TMissingFeatures) ->
  (forall k, ph p k -> is_posth k = true /\ evP s) ->
  (forall i, pid p i -> i = IKLegacy \/ evP s) ->
  (fmem Fsme c = true -> evP s) ->
  (hasTMF s' -> hasF s -> hasF s') ->
  HInv s'.
Proof.
  intros [G Lv] E Sub Pw Pt Ph Pi Ps H6.
  pose proof (subl_ok _ _ Sub) as W.
  destruct E as [U Lf St Sme [l [Q A]] Hh Hi Ht M HK IK C O].
  split.
  - constructor.
    + assert (X : fmem Ftlss (c ++ DISC) = false) by (rewrite fmem_app, (W Ftlss eq_refl); reflexivity).
      pose proof (U Ftlss X) as Y. cbn in Y. rewrite Y. apply (gi_T s G).
    + intros w Hw. apply (gi_S s G). apply M. exact Hw.
  - intro L'. destruct (live_back _ _ St L') as [L0 Est]. specialize (Lv L0). specialize (Lf L').
    assert (F : frame cK s s') by (eapply frame_weaken; [exact W|exact Lf]).
    apply (linv_transfer s s' (F Fdis eq_refl) (F Fmand eq_refl) (F Flauth eq_refl) (F Ftyp eq_refl) (F Fraw eq_refl)
             (F Fst eq_refl) (F Fsec eq_refl) (F Ftlsp eq_refl) (F Ftlsf eq_refl) (F Fsasl eq_refl) (F Frp eq_refl)
             (F Foh eq_refl) (F Fps eq_refl) (F Fgs eq_refl) (F Fgf eq_refl)); try assumption.
    + intros k Hk. destruct (Hh k Hk) as [X|X]; [left; exact X|right; apply Ph; exact X].
    + intros i Hi0. destruct (Hi i Hi0) as [X|X]; [left; exact X|right; eapply Pi; exact X].
    + intro T. destruct (Ht _ T) as [X|X]; [exact X|]. exfalso. apply (Pt _ X). reflexivity.
    + destruct (fmem Fsme c) eqn:Fs; [right; apply Ps; reflexivity|left]. exact (Lf Fsme Fs).
    + exists l. split; [exact Q|]. eapply Forall_impl; [|exact A]. intros x [X|X]; [left; apply Pw; exact X|right; exact X].
Qed.

Lemma In_hk_handlers k s : In k (hk s) <-> exists b, In (k, b) (handlers s).
Proof.
  unfold hk. rewrite in_map_iff. split.
  - intros [[k' b] [E H]]. cbn in E. subst. exists b. exact H.
  - intros [b H]. exists (k, b). split; [reflexivity|exact H].
Qed.
Lemma keep_hk c p s s' k : eff c p s s' -> fmem FhD c = false -> In k (hk s) -> In k (hk s').
Proof.
  intros E F H. apply In_hk_handlers in H as [b H]. apply In_hk_handlers. exists b. exact (ef_hkeep _ _ _ _ E F _ H).
Qed.
Lemma keep_evP c p s s' : eff c p s s' -> fmem FhD c = false -> fmem FidD c = false -> evP s -> evP s'.
Proof.
  intros E F1 F2 [[k [A B]]|[A|A]].
  - left. exists k. split; [eapply keep_hk; eassumption|exact B].
  - right. left. exact (ef_ikeep _ _ _ _ E F2 _ A).
  - right. right. exact (ef_ikeep _ _ _ _ E F2 _ A).
Qed.

(* handler-level judgement: the invariant plus the local context:
   ev: evidence of the post-authentication phase; po: the parser is inside a stream; ld: the code does not
   call conn_disconnect and LocD holds (needed while a chunk is processed); never Connecting while handlers run;
   VD eo: what is known about a strong offer while HFeatures waits (eo = the element being dispatched) *)
Definition strongE (eo : option elem) (t : state) : Prop :=
  exists e, eo = Some e /\ is_feat e = true /\ existsb (is_strong (cert_set t)) (e_mechs e) = true.
Definition VD (eo : option elem) (t : state) : Prop :=
  live t -> hasF t ->
  (forall e, eo = Some e -> is_feat e = true -> g_feat_seen (gh t) = true) /\
  (crashed t = false -> g_strong (gh t) = true -> strong_in t \/ strongE eo t).
Definition LocD (t : state) : Prop :=
  st t = Disconnected ->
  sm_enabled t = false /\ (forall k, In k (hk t) -> is_baseh k = true) /\ (forall i, In i (ik t) -> i = IKLegacy).
Definition Ctx (ev po ld : bool) (eo : option elem) (t : state) : Prop :=
  (ev = true -> evP t) /\ (po = true -> ps t = POpen) /\ st t <> Connecting /\ VD eo t /\ (ld = true -> LocD t).
Definition JT (ev po ld : bool) (eo : option elem) (t : state) : Prop := HInv t /\ Ctx ev po ld eo t.

Lemma base_not_evP t : (forall k, In k (hk t) -> is_baseh k = true) -> (forall i, In i (ik t) -> i = IKLegacy) -> ~ evP t.
Proof.
  intros A B [[k [K1 K2]]|[K|K]].
  - specialize (A k K1). destruct k; discriminate.
  - specialize (B _ K). discriminate.
  - specialize (B _ K). discriminate.
Qed.

Lemma ctx_step ev po ld eo c p t t' :
  eff c p t t' -> subl c cK = true -> fmem FhD c = false -> fmem FidD c = false ->
  (forall k, ph p k -> is_posth k = true /\ ev = true) -> (forall i, pid p i -> i = IKLegacy \/ ev = true) ->
  (fmem Fsme c = true -> ev = true) -> (ld = true -> fmem Fdisc c = false) ->
  Ctx ev po ld eo t -> Ctx ev po ld eo t'.
Proof.
  intros E Sub F1 F2 Ph Pi Ps Pl [A [B [C [D LD]]]]. pose proof (subl_ok _ _ Sub) as W.
  split; [|split; [|split; [|split]]].
  - intro X. eapply keep_evP; eauto.
  - intro X. assert (Y : fmem Fps (c ++ DISC) = false) by (rewrite fmem_app, (W Fps eq_refl); reflexivity).
    pose proof (ef_U _ _ _ _ E Fps Y) as Z. cbn in Z. rewrite Z. auto.
  - destruct (ef_st _ _ _ _ E) as [X|X]; rewrite X; [exact C|discriminate].
  - intros L' F'. destruct (live_back _ _ (ef_st _ _ _ _ E) L') as [L0 _].
    assert (F0 : hasF t).
    { destruct (ef_h _ _ _ _ E _ F') as [X|X]; [exact X|]. destruct (Ph _ X) as [Y _]. discriminate. }
    destruct (D L0 F0) as [D1 D2]. pose proof (ef_L _ _ _ _ E L') as Fr.
    pose proof (Fr Fgf (W Fgf eq_refl)) as Egf. pose proof (Fr Fgs (W Fgs eq_refl)) as Egs.
    pose proof (Fr Fsasl (W Fsasl eq_refl)) as Esasl. pose proof (Fr Fcert (W Fcert eq_refl)) as Ecert. cbn in *.
    split.
    + intros e X Y. rewrite Egf. eauto.
    + intros X Y. rewrite Egs in Y.
      assert (Z : crashed t = false) by (destruct (crashed t) eqn:Q; [rewrite (ef_cr _ _ _ _ E Q) in X; discriminate|reflexivity]).
      unfold strong_in, strongE. rewrite Esasl, Ecert. exact (D2 Z Y).
  - intros X S'. specialize (Pl X). pose proof (ef_nd _ _ _ _ E Pl) as Est. rewrite Est in S'.
    destruct (LD X S') as [L1 [L2 L3]]. pose proof (base_not_evP t L2 L3) as NE.
    assert (NEv : ev = true -> False) by (intro Y; apply NE; auto).
    split; [|split].
    + destruct (fmem Fsme c) eqn:Q; [exfalso; auto|]. destruct (ef_sme _ _ _ _ E Q) as [Y|Y]; congruence.
    + intros k K. destruct (ef_h _ _ _ _ E _ K) as [Y|Y]; [auto|]. destruct (Ph _ Y) as [_ Z]. exfalso; auto.
    + intros i K. destruct (ef_i _ _ _ _ E _ K) as [Y|Y]; [auto|]. destruct (Pi _ Y) as [Z|Z]; [exact Z|exfalso; auto].
Qed.

Lemma jt_step ev po ld eo c p t t' :
  JT ev po ld eo t -> eff c p t t' -> subl c cK = true -> fmem FhD c = false -> fmem FidD c = false ->
  (forall x, pw p x -> benignE x) -> (forall k, pt p k -> k <> TMissingFeatures) ->
  (forall k, ph p k -> is_posth k = true /\ ev = true) -> (forall i, pid p i -> i = IKLegacy \/ ev = true) ->
  (fmem Fsme c = true -> ev = true) -> (ld = true -> fmem Fdisc c = false) ->
  JT ev po ld eo t'.
Proof.
  intros [H C] E Sub F1 F2 Pw Pt Ph Pi Ps Pl. split.
  - destruct C as [C1 _]. eapply hinv_mono; try eassumption.
    + intros k X. destruct (Ph k X). auto.
    + intros i X. destruct (Pi i X); auto.
    + intro X. auto.
    + intros _ X. eapply keep_hk; eassumption.
  - eapply ctx_step; eassumption.
Qed.

(* removing a handler / id handler / timer at the end of a visit *)
Lemma hinv_del c p t t' :
  HInv t -> eff c p t t' -> subl c cK = true -> fmem Fsme c = false ->
  (forall k, ~ ph p k) -> (forall i, ~ pid p i) -> (forall k, ~ pt p k) -> (forall x, ~ pw p x) ->
  (hasTMF t' -> hasF t -> hasF t') -> HInv t'.
Proof.
  intros H E Sub Fs Ph Pi Pt Pw H6. eapply hinv_mono; try eassumption.
  - intros x X. destruct (Pw x X).
  - intros k X. destruct (Pt k X).
  - intros k X. destruct (Ph k X).
  - intros i X. destruct (Pi i X).
  - intro X. rewrite Fs in X. discriminate.
Qed.

(* conn_prepare_reset: only oh and reset_parser change; the clauses that read them are obligations *)
Lemma linv_set_oh h b t :
  LInv t ->
  (st t = Connecting -> h <> OpenTls /\ h <> OpenSasl /\ h <> OpenCompress) ->
  (hasF t -> (h = OpenAuth \/ h = OpenTls) /\ (hasTMF t -> h = OpenAuth) /\ (h = OpenAuth -> sasl t = [])) ->
  (hasT t -> h = OpenAuth) ->
  (hasS t -> h = OpenAuth \/ h = OpenTls) ->
  (st t = Connected -> h = OpenAuth -> ps t = PDepth0 -> fresh t) ->
  (h = OpenTls -> (b = true \/ ps t = PDepth0) ->
     quietS t /\ (g_strong (gh t) = true -> strong_in t) /\ (ps t <> PDepth0 -> g_feat_seen (gh t) = true)) ->
  (h = OpenSasl \/ h = OpenCompress -> noauth t) ->
  (h = OpenTls -> secured t = true /\ st t = Connected) ->
  (st t = Connected -> h = OpenAuth -> b = false) ->
  (st t = Connected -> is_raw t = false -> b = true -> ps t <> PDepth0) ->
  (is_raw t = true -> h = OpenStub \/ h = OpenRaw) ->
  (h = OpenStub \/ h = OpenRaw -> is_raw t = true) ->
  (h = OpenComponent -> (forall k, In k (hk t) -> is_baseh k = true) /\ (forall i, In i (ik t) -> i = IKLegacy) /\ ~ hasTMF t) ->
  LInv (set_oh h (set_reset_parser b t)).
Proof.
  intros L OC OXF OXT OXS OPOA OPOT OPOP OO OR ORP ORAW OSTUB OCOMP. constructor.
  - intro A. destruct (li_C t L A) as [F [X [Y _]]]. split; [exact F|split; [exact X|split; [exact Y|exact (OC A)]]].
  - intro A. destruct (li_XF t L A) as [X [Y _]]. split; [exact X|split; [exact Y|exact (OXF A)]].
  - intro A. destruct (li_XT t L A) as [X [Y [Z [V [_ W]]]]]. split; [exact X|split; [exact Y|split; [exact Z|split; [exact V|split; [exact (OXT A)|exact W]]]]].
  - intros k A B. destruct (li_XS t L k A B) as [X [Y [Z [_ W]]]].
    split; [exact X|split; [exact Y|split; [exact Z|split; [|exact W]]]]. apply OXS. exists k. auto.
  - exact (li_XP t L).
  - exact (li_TMF t L).
  - exact OPOA.
  - exact OPOT.
  - exact OPOP.
  - exact OO.
  - exact OR.
  - exact ORP.
  - intro A. destruct (li_RAW t L A) as [_ X]. split; [exact (ORAW A)|exact X].
  - exact OSTUB.
  - exact OCOMP.
  - exact (li_Q t L).
  - exact (li_M t L).
  - exact (li_D t L).
  - exact (li_L t L).
  - exact (li_PL t L).
Qed.

(* ------------------------------------------------------------------ symbolic execution for JT *)
Ltac destr_hyps :=
  repeat match goal with
         | H : _ \/ _ |- _ => destruct H
         | H : exists _, _ |- _ => destruct H
         | H : _ /\ _ |- _ => destruct H
         end.
Ltac pw_tac :=
  cbn; let x := fresh "x" in let H := fresh "H" in intros x H; unfold benignE in *;
  first [ exact H | contradiction
        | destr_hyps; subst; cbn;
          first [reflexivity | match goal with H' : fst (fst _) = _ |- _ => rewrite H' end; reflexivity] ].
Ltac pt_tac := cbn; let k := fresh "k" in let H := fresh "H" in intros k H; try contradiction; destr_hyps; subst; discriminate.
Ltac ph_tac := cbn; let k := fresh "k" in let H := fresh "H" in intros k H; try contradiction; destr_hyps; subst; split; reflexivity.
Ltac pi_tac := cbn; let k := fresh "k" in let H := fresh "H" in intros k H; try contradiction; first [right; reflexivity | left; destr_hyps; subst; reflexivity].
Ltac ps_tac := let X := fresh "X" in intro X; first [discriminate X | reflexivity].
Ltac ld_tac := let X := fresh "X" in intro X; first [discriminate X | reflexivity].
Ltac jstep L :=
  eapply jt_step; [ | apply L | vm_compute; reflexivity | reflexivity | reflexivity | pw_tac | pt_tac | ph_tac | pi_tac | ps_tac | ld_tac ].
Ltac jsetter t :=
  first [ eapply (jt_step _ _ _ _ [] pnone t); [ | (let tt := fresh "tt" in set (tt := t); clearbody tt; eff_frame) | vm_compute; reflexivity | reflexivity | reflexivity | pw_tac | pt_tac | ph_tac | pi_tac | ps_tac | ld_tac ]
        | eapply (jt_step _ _ _ _ [Fsme] pnone t); [ | (let tt := fresh "tt" in set (tt := t); clearbody tt; eff_frame) | vm_compute; reflexivity | reflexivity | reflexivity | pw_tac | pt_tac | ph_tac | pi_tac | ps_tac | ld_tac ] ].

Ltac peel_extra := fail.
Ltac peelJ :=
  match goal with
  | H : JT ?a ?b ?c ?d ?t |- JT ?a ?b ?c ?d ?t => exact H
  | |- JT _ _ _ _ (if _ then _ else _) => break_if
  | |- JT _ _ _ _ (match _ with _ => _ end) => break_match
  | |- JT _ _ _ _ (send_gated _ _ _ _) => jstep send_gated_eff
  | |- JT _ _ _ _ (send_raw_m _ _ _ _) => jstep send_raw_m_eff
  | |- JT _ _ _ _ (xmpp_disconnect _ _) => jstep xmpp_disconnect_eff
  | |- JT _ _ _ _ (conn_open_stream _) => jstep conn_open_stream_eff
  | |- JT _ _ _ _ (timed_add _ _ _) => jstep timed_add_eff
  | |- JT _ _ _ _ (timed_del _ _) => jstep (timed_del_eff pnone)
  | |- JT _ _ _ _ (timed_reset_all _ _) => jstep (timed_reset_all_eff pnone)
  | |- JT _ _ _ _ (timed_set_stamp _ _ _) => jstep (timed_set_stamp_eff pnone)
  | |- JT _ _ _ _ (h_add _ _) => jstep h_add_eff
  | |- JT _ _ _ _ (id_add _ _) => jstep id_add_eff
  | |- JT _ _ _ _ (sm_queue_resend _) => jstep sm_queue_resend_eff
  | |- JT _ _ _ _ (sm_queue_cleanup _ _) => jstep (sm_queue_cleanup_eff pnone)
  | |- JT _ _ _ _ (sm_enable _) => jstep sm_enable_eff
  | |- JT _ _ _ _ (session_start _ _) => jstep session_start_eff
  | |- JT _ _ _ _ (upg _ _) => unfold upg
  | |- JT _ _ _ _ (prepare_reset _ _) => peel_extra
  | |- JT _ _ _ _ (fst (conn_disconnect _)) => jstep (conn_disconnect_eff pnone)
  | |- JT _ _ _ _ (fst (stream_negotiation_success _)) => jstep (stream_negotiation_success_eff pnone)
  | |- JT _ _ _ _ (fst (do_bind _ _ _)) => jstep do_bind_eff
  | |- JT _ _ _ _ (?f ?v ?t) => jsetter t
  end.

(* results *)
Definition JR (ev po ld : bool) (eo : option elem) (r : R) : Prop := JT ev po ld eo (fst r).
Definition J3 (ev po ld : bool) (eo : option elem) (r : state * emit * bool) : Prop := JT ev po ld eo (fst (fst r)).
Lemma J3_let_st ev po ld eo v (B : state -> state * emit * bool) :
  JT ev po ld eo v -> (forall x, JT ev po ld eo x -> J3 ev po ld eo (B x)) -> J3 ev po ld eo (let x := v in B x).
Proof. intros A F. apply F. exact A. Qed.
Lemma JR_let_st ev po ld eo v (B : state -> R) :
  JT ev po ld eo v -> (forall x, JT ev po ld eo x -> JR ev po ld eo (B x)) -> JR ev po ld eo (let x := v in B x).
Proof. intros A F. apply F. exact A. Qed.
Lemma J3_bind ev po ld eo (r : R) (B : state -> emit -> state * emit * bool) :
  JR ev po ld eo r -> (forall x o, JT ev po ld eo x -> J3 ev po ld eo (B x o)) -> J3 ev po ld eo (let '(x, o) := r in B x o).
Proof. destruct r as [x o]. intros A F. apply F. exact A. Qed.
Lemma JR_bind ev po ld eo (r : R) (B : state -> emit -> R) :
  JR ev po ld eo r -> (forall x o, JT ev po ld eo x -> JR ev po ld eo (B x o)) -> JR ev po ld eo (let '(x, o) := r in B x o).
Proof. destruct r as [x o]. intros A F. apply F. exact A. Qed.

Ltac symJR :=
  lazymatch goal with
  | |- JR ?a ?b ?c ?d (let x := ?v in @?B x) =>
      let ty := type of v in
      lazymatch ty with
      | state => apply (JR_let_st a b c d v B); [repeat peelJ|intros ? ?; cbv beta]
      | _ => change (JR a b c d (B v)); cbv beta
      end
  | |- JR _ _ _ _ (ret _) => unfold JR, ret; cbn [fst]; repeat peelJ
  | |- JR _ _ _ _ (if ?c then _ else _) => destruct c eqn:?
  | |- JR ?a ?b ?c ?d (let '(x, o) := ?r in @?B x o) => apply (JR_bind a b c d r B); [|intros ? ? ?]
  | |- JR _ _ _ _ (match ?x with _ => _ end) => destruct x eqn:?
  | |- JR _ _ _ _ (_, _) => unfold JR; cbn [fst]; repeat peelJ
  | |- JR _ _ _ _ _ => unfold JR; repeat peelJ
  end.
Ltac symJ3 :=
  lazymatch goal with
  | |- J3 ?a ?b ?c ?d (let x := ?v in @?B x) =>
      let ty := type of v in
      lazymatch ty with
      | state => apply (J3_let_st a b c d v B); [repeat peelJ|intros ? ?; cbv beta]
      | _ => change (J3 a b c d (B v)); cbv beta
      end
  | |- J3 _ _ _ _ (if ?c then _ else _) => destruct c eqn:?
  | |- J3 ?a ?b ?c ?d (let '(x, o) := ?r in @?B x o) => apply (J3_bind a b c d r B); [repeat symJR|intros ? ? ?]
  | |- J3 _ _ _ _ (match ?x with _ => _ end) => destruct x eqn:?
  | |- J3 _ _ _ _ (_, _, _) => unfold J3; cbn [fst]; repeat peelJ
  end.

Lemma jt_prepare_post ld eo h t :
  h = OpenSasl \/ h = OpenCompress -> JT true true ld eo t -> JT true true ld eo (prepare_reset h t).
Proof.
  intros Hh [[G Lv] C]. split; [|exact C]. split; [destruct G as [G1 G2]; constructor; [exact G1|exact G2]|]. intro L'. specialize (Lv L').
  destruct C as [Ev [Po [Nc _]]]. specialize (Ev eq_refl). specialize (Po eq_refl).
  pose proof (evP_noauth t Lv Ev) as [N1 [N2 [N3 N4]]].
  assert (NR : is_raw t = false).
  { destruct (is_raw t) eqn:R; [|reflexivity]. destruct (li_RAW t Lv R) as [_ [A [B _]]].
    exfalso. apply (base_not_evP t); auto. intros k K. rewrite (A k K). reflexivity. }
  unfold prepare_reset. destruct Hh; subst h.
  all: apply linv_set_oh; [exact Lv|..].
  all: try (intro X; contradiction).
  all: try tauto.
  all: try (intros _ X; discriminate X).
  all: try (intro X; discriminate X).
  all: try (intros _; repeat split; assumption).
  all: try (intros _ _ _; rewrite Po; discriminate).
  all: try (intro X; rewrite NR in X; discriminate X).
  all: intros [X|X]; discriminate X.
Qed.

Ltac peel_extra ::=
  match goal with
  | |- JT true true _ _ (prepare_reset OpenSasl _) => apply jt_prepare_post; [left; reflexivity|]
  | |- JT true true _ _ (prepare_reset OpenCompress _) => apply jt_prepare_post; [right; reflexivity|]
  end.

(* the handlers of the post-authentication phase (evidence: the handler itself is registered), the base handlers
   and the id handlers: everything they do is covered by the generic step lemma *)
Lemma call_post_J k now e eo s : is_posth k = true -> JT true true true eo s -> J3 true true true eo (call_handler k now e s).
Proof.
  intros K H. destruct k; try discriminate K; cbv beta iota delta [call_handler features_sasl]; repeat symJ3.
Qed.

Lemma call_base_J k now e eo s : is_baseh k = true -> JT false true true eo s -> J3 false true true eo (call_handler k now e s).
Proof.
  intros K H. destruct k; try discriminate K; cbv beta iota delta [call_handler]; repeat symJ3.
Qed.
Lemma call_id_J k now e eo s :
  JT (match k with IKLegacy => false | _ => true end) true true eo s ->
  JR (match k with IKLegacy => false | _ => true end) true true eo (call_id_handler k now e s).
Proof. intros H. destruct k; cbv beta iota delta [call_id_handler]; repeat symJR. Qed.
Lemma sm_handle_J e ev eo s : JT ev true true eo s -> JT ev true true eo (sm_handle e s).
Proof. intro H. unfold sm_handle. repeat peelJ. Qed.
Lemma call_timed_J k now s : k <> TMissingFeatures -> JT false false false None s -> J3 false false false None (call_timed k now s).
Proof.
  intros K H. destruct k; try congruence; cbv beta iota delta [call_timed]; repeat symJ3.
Qed.

(* ------------------------------------------------------------------ moves inside the authentication phase *)
Definition is_authh (k : hkind) : Prop := k = HFeatures \/ k = HProceedTls \/ is_saslh k = true.
Lemma authh_not_base k : is_authh k -> is_baseh k = false /\ is_posth k = false /\ k <> HUser.
Proof. intros [A|[A|A]]; subst; try (repeat split; (reflexivity || discriminate)). destruct k; try discriminate; repeat split; (reflexivity || discriminate). Qed.

Section Transfer2.
Variables s s' : state.
Variable k0 : hkind.
Hypothesis K0 : In k0 (hk s).
Hypothesis K0a : is_authh k0.
Hypothesis L : LInv s.
Hypothesis Eraw : is_raw s' = is_raw s.
Hypothesis Est : st s' = st s.
Hypothesis Erp : reset_parser s' = reset_parser s.
Hypothesis Eoh : oh s' = oh s.
Hypothesis Eps : ps s' = ps s.
Hypothesis Hhk : forall k, In k (hk s') -> is_baseh k = true \/ is_authh k.
Hypothesis Hpp : prepost s'.
Hypothesis Htm : ~ hasTMF s'.
Hypothesis OXF : hasF s' ->
  (forall k, In k (hk s') -> is_baseh k = true \/ k = HFeatures) /\ prepost s' /\
  (oh s' = OpenAuth \/ oh s' = OpenTls) /\ (hasTMF s' -> oh s' = OpenAuth) /\ (oh s' = OpenAuth -> sasl s' = []).
Hypothesis OXT : hasT s' ->
  (forall k, In k (hk s') -> is_baseh k = true \/ k = HProceedTls) /\ prepost s' /\ ~ hasTMF s' /\
  secured s' = false /\ oh s' = OpenAuth /\ g_feat_seen (gh s') = true /\
  (g_strong (gh s') = true -> strong_in s' /\ mem_mech MPlain (sasl s') = false).
Hypothesis OXS : forall k, In k (hk s') -> is_saslh k = true ->
  (forall k', In k' (hk s') -> is_baseh k' = true \/ k' = k) /\ prepost s' /\ ~ hasTMF s' /\
  (oh s' = OpenAuth \/ oh s' = OpenTls) /\ g_feat_seen (gh s') = true /\
  (g_strong (gh s') = true -> mem_mech MPlain (sasl s') = false).
Hypothesis OQ : forall x, In x (sendq s') -> snd x = false -> is_neg (fst (fst x)) = false.
Hypothesis OM : f_tls_mandatory s' = true ->
  (hasS s' \/ exists x, In x (sendq s') /\ is_cred (fst (fst x)) = true) -> is_secured s' = true.
Hypothesis OD : f_tls_disabled s' = true -> forall x, In x (sendq s') -> fst (fst x) <> WStartTls.
Hypothesis OL : forall x, In x (sendq s') -> fst (fst x) = WLegacy -> f_legacy_auth s' = true /\ typ s' = TClient.
Hypothesis OPL : forall x, In x (sendq s') -> fst (fst x) = WAuth MPlain ->
  g_strong (gh s') = false /\ g_feat_seen (gh s') = true /\ ps s' <> PDepth0.
Hypothesis OO : oh s' = OpenTls -> secured s' = true.

Let NB := authh_not_base k0 K0a.

Lemma t2_not_onlyuser : ~ (forall k, In k (hk s) -> k = HUser).
Proof. intro A. destruct NB as [_ [_ X]]. apply X. auto. Qed.
Lemma t2_not_base : ~ (forall k, In k (hk s) -> is_baseh k = true).
Proof. intro A. destruct NB as [X _]. rewrite (A k0 K0) in X. discriminate. Qed.
Lemma t2_not_noauth : ~ noauth s.
Proof.
  intros [A [B [C D]]]. destruct K0a as [X|[X|X]]; subst; [apply A|apply B|apply C; exists k0]; auto.
Qed.

Lemma linv_transfer2 : LInv s'.
Proof.
  constructor.
  - intro A. rewrite Est in A. destruct (li_C s L A) as [[_ [_ [X _]]] _]. destruct (t2_not_onlyuser X).
  - exact OXF.
  - exact OXT.
  - exact OXS.
  - intros k A B. destruct (Hhk k A) as [X|X]; [destruct k; discriminate|].
    destruct (authh_not_base k X) as [_ [Y _]]. congruence.
  - intro A. tauto.
  - intros A B C. rewrite Est in A. rewrite Eoh in B. rewrite Eps in C.
    destruct (li_POA s L A B C) as [_ [_ [X _]]]. destruct (t2_not_onlyuser X).
  - intros A B. rewrite Eoh in A. rewrite Erp, Eps in B. destruct (li_POT s L A B) as [[X _] _]. destruct (t2_not_base X).
  - intro A. rewrite Eoh in A. destruct (t2_not_noauth (li_POP s L A)).
  - intro A. split; [exact (OO A)|]. rewrite Eoh in A. rewrite Est. apply (li_O s L A).
  - intros A B. rewrite Est in A. rewrite Eoh in B. rewrite Erp. apply (li_R s L A B).
  - intros A B C. rewrite Est in A. rewrite Eraw in B. rewrite Erp in C. rewrite Eps. apply (li_RP s L A B C).
  - intro A. rewrite Eraw in A. destruct (li_RAW s L A) as [_ [X _]]. destruct (t2_not_onlyuser X).
  - intro A. rewrite Eoh in A. rewrite Eraw. apply (li_STUB s L A).
  - intro A. rewrite Eoh in A. destruct (li_COMP s L A) as [X _]. destruct (t2_not_base X).
  - exact OQ.
  - exact OM.
  - exact OD.
  - exact OL.
  - exact OPL.
Qed.
End Transfer2.

(* ------------------------------------------------------------------ mechanism lists *)
Lemma mem_mech_In m l : mem_mech m l = true <-> In m l.
Proof.
  unfold mem_mech. rewrite existsb_exists. split.
  - intros [x [A B]]. apply mech_eqb_eq in B. subst. exact A.
  - intro A. exists m. split; [exact A|apply mech_eqb_refl].
Qed.
Lemma In_del_mech a m l : In a (del_mech m l) <-> In a l /\ a <> m.
Proof.
  unfold del_mech. rewrite filter_In. split; intros [A B]; split; try exact A.
  - intro E. subst. rewrite mech_eqb_refl in B. discriminate.
  - destruct (mech_eqb m a) eqn:E; [|reflexivity]. apply mech_eqb_eq in E. congruence.
Qed.
Lemma mem_del_false a m l : mem_mech a l = false -> mem_mech a (del_mech m l) = false.
Proof.
  intro H. destruct (mem_mech a (del_mech m l)) eqn:E; [|reflexivity].
  apply mem_mech_In in E. apply In_del_mech in E as [E _]. apply mem_mech_In in E. congruence.
Qed.
Lemma In_add_mech a m l : In a (add_mech m l) <-> In a l \/ (a = m).
Proof.
  unfold add_mech. destruct (mem_mech m l) eqn:E.
  - split; [auto|]. intros [A|A]; [exact A|]. subst. apply mem_mech_In. exact E.
  - rewrite in_app_iff. simpl. intuition.
Qed.
Lemma In_fold_add a offered : forall l, In a (fold_left (fun l m => add_mech m l) offered l) <-> In a l \/ In a offered.
Proof.
  induction offered as [|m r IH]; intro l; simpl; [tauto|]. rewrite IH, In_add_mech. intuition.
Qed.
Lemma existsb_In {A} (P : A -> bool) l : existsb P l = true <-> exists x, In x l /\ P x = true.
Proof. apply existsb_exists. Qed.

(* what _handle_features makes of the mechanism list *)
Definition sasl_after (cert : bool) (offered0 : list mech) (l : list mech) : list mech :=
  let offered := filter (fun m => match m with MExternal => cert | _ => true end) offered0 in
  let l2 := fold_left (fun l m => add_mech m l) offered l in
  if existsb (fun m => negb (is_plain_or_anon m)) l2 then del_mech MPlain l2 else l2.
Lemma sasl_after_strong cert offered0 l :
  (existsb (fun m => negb (is_plain_or_anon m)) l = true \/ existsb (is_strong cert) offered0 = true) ->
  existsb (fun m => negb (is_plain_or_anon m)) (sasl_after cert offered0 l) = true /\
  mem_mech MPlain (sasl_after cert offered0 l) = false.
Proof.
  intro H. unfold sasl_after. cbv zeta.
  set (offered := filter _ offered0). set (l2 := fold_left _ offered l).
  assert (S2 : existsb (fun m => negb (is_plain_or_anon m)) l2 = true).
  { apply existsb_In. destruct H as [H|H]; apply existsb_In in H as [x [A B]].
    - exists x. split; [|exact B]. apply In_fold_add. left. exact A.
    - exists x. split.
      + apply In_fold_add. right. unfold offered. apply filter_In. split; [exact A|].
        destruct x; try reflexivity. exact B.
      + destruct x; try reflexivity; discriminate B. }
  rewrite S2. split.
  - apply existsb_In. apply existsb_In in S2 as [x [A B]]. exists x. split; [|exact B].
    apply In_del_mech. split; [exact A|]. intro E. subst. discriminate B.
  - destruct (mem_mech MPlain (del_mech MPlain l2)) eqn:E; [|reflexivity].
    apply mem_mech_In, In_del_mech in E. destruct E as [_ E]. congruence.
Qed.
Lemma sasl_after_nil cert : sasl_after cert [] [] = [].
Proof. reflexivity. Qed.

(* ------------------------------------------------------------------ _auth called from a handler of the authentication phase *)
Record APre (k : hkind) (s : state) : Prop := mkAPre {
  ap_in : In k (hk s);
  ap_k : k = HFeatures \/ is_saslh k = true;
  ap_hk : forall k', In k' (hk s) -> is_baseh k' = true \/ k' = k;
  ap_pp : prepost s;
  ap_tm : ~ hasTMF s;
  ap_oh : oh s = OpenAuth \/ oh s = OpenTls;
  ap_gf : g_feat_seen (gh s) = true;
  ap_pl : g_strong (gh s) = true -> mem_mech MPlain (sasl s) = false;
  ap_ps : ps s = POpen;
  ap_st : st s <> Connecting
}.
Lemma apre_authh k s : APre k s -> is_authh k.
Proof. intros A. destruct (ap_k k s A) as [X|X]; [left; exact X|right; right; exact X]. Qed.

(* what the visit leaves behind: the invariant, and the local context for the rest of the dispatch *)
Definition VPost (eo : option elem) (t : state) : Prop := HInv t /\ Ctx false true true eo t.

Lemma In_app_sendq s t l x : sendq t = sendq s ++ l -> In x (sendq t) -> In x (sendq s) \/ In x l.
Proof. intros E H. rewrite E in H. apply in_app_iff in H. exact H. Qed.

Lemma is_secured_frame s t : secured t = secured s -> tls_failed t = tls_failed s -> tls_present t = tls_present s ->
  is_secured t = is_secured s.
Proof. unfold is_secured. intros -> -> ->. reflexivity. Qed.

Lemma visit_mech eo k s m kh s' :
  GInv s -> live s -> LInv s -> APre k s ->
  f_tls_mandatory s && negb (is_secured s) = false -> mem_mech m (sasl s) = true -> is_saslh kh = true ->
  (let s1 := set_sasl (del_mech m (sasl s)) (send_gated (WAuth m) false false (h_add kh s)) in
   s' = s1 \/ exists n, s' = set_scram_serial n s1) ->
  VPost eo (h_del k s').
Proof.
  intros G Lv L A Em Hm Kh Hs'. cbv zeta in Hs'.
  set (s1 := set_sasl (del_mech m (sasl s)) (send_gated (WAuth m) false false (h_add kh s))) in *.
  pose proof (mech_step_eff m kh s Kh) as E1. fold s1 in E1.
  assert (Esasl1 : sasl s1 = del_mech m (sasl s)) by reflexivity.
  assert (E2 : eff [Fsasl; Fsq; Fh] (mkP (fun x => x = (WAuth m, false, negb (sm_enabled s)) \/ x = (WReq, false, true))
                 (fun k0 => k0 = kh) (fun _ => False) (fun _ => False)) s s' /\ sasl s' = del_mech m (sasl s)).
  { destruct Hs' as [Hs'|[n Hs']]; subst s'; [split; [exact E1|exact Esasl1]|]. split; [|exact Esasl1].
    eapply (eff_seq _ _ _ _ [] pnone); [exact E1|eff_frame|solve_sub|apply pimp_refl|apply pimp_none]. }
  destruct E2 as [E2 Esasl]. clear Hs' E1 Esasl1. clearbody s1. clear s1.
  assert (E : eff [Fsasl; Fsq; Fh; FhD] (mkP (fun x => x = (WAuth m, false, negb (sm_enabled s)) \/ x = (WReq, false, true))
                 (fun k0 => k0 = kh) (fun _ => False) (fun _ => False)) s (h_del k s')).
  { eapply eff_seq; [exact E2|apply (h_del_eff pnone)|solve_sub|apply pimp_refl|apply pimp_none]. }
  assert (Esaslt : sasl (h_del k s') = del_mech m (sasl s)) by exact Esasl.
  set (t := h_del k s') in *.
  assert (Est : st t = st s) by (apply (ef_nd _ _ _ _ E); reflexivity).
  assert (Lt : live t) by (unfold live; rewrite Est; exact Lv).
  pose proof (ef_L _ _ _ _ E Lt) as F.
  destruct (ap_pp k s A) as [PP1 PP2].
  assert (HK : forall k', In k' (hk t) -> (is_baseh k' = true \/ k' = kh) /\ k' <> k).
  { intros k' H. unfold t in H. apply In_hk_h_del in H as [H N]. split; [|exact N].
    destruct (ef_h _ _ _ _ E2 _ H) as [X|X]; [|right; exact X].
    destruct (ap_hk k s A k' X) as [Y|Y]; [left; exact Y|contradiction]. }
  assert (NF : ~ hasF t).
  { intro X. destruct (HK _ X) as [[Y|Y] N]; [discriminate|]. subst kh. discriminate. }
  assert (NT : ~ hasT t).
  { intro X. destruct (HK _ X) as [[Y|Y] N]; [discriminate|]. subst kh. discriminate. }
  assert (PPt : prepost t).
  { split; [|rewrite (F Fsme eq_refl); exact PP2]. intros i H.
    destruct (ef_i _ _ _ _ E _ H) as [X|X]; [auto|destruct X]. }
  assert (TMt : ~ hasTMF t).
  { intro X. destruct (ef_t _ _ _ _ E _ X) as [Y|Y]; [apply (ap_tm k s A Y)|destruct Y]. }
  destruct (ef_sq _ _ _ _ E) as [l [Q Al]]. rewrite Forall_forall in Al.
  assert (NEW : forall x, In x l -> x = (WAuth m, false, true) \/ is_neg (fst (fst x)) = false).
  { intros x H. destruct (Al x H) as [[X|X]|X].
    - left. rewrite X, PP2. reflexivity.
    - right. rewrite X. reflexivity.
    - right. apply (gi_S s G _ X). }
  assert (SEC : f_tls_mandatory s = true -> is_secured s = true).
  { intro X. rewrite X in Em. destruct (is_secured s); [reflexivity|discriminate]. }
  assert (Esec : is_secured t = is_secured s) by (apply is_secured_frame; [exact (F Fsec eq_refl)|exact (F Ftlsf eq_refl)|exact (F Ftlsp eq_refl)]).
  split.
  - split.
    + constructor.
      * pose proof (ef_U _ _ _ _ E Ftlss eq_refl) as X. unfold eq_on in X. rewrite X. apply (gi_T s G).
      * intros w H. apply (gi_S s G). apply (ef_smq _ _ _ _ E). exact H.
    + intros _.
      apply (linv_transfer2 s t k (ap_in k s A) (apre_authh k s A) L (F Fraw eq_refl)
               Est (F Frp eq_refl) (F Foh eq_refl) (F Fps eq_refl)); try assumption.
      * intros k' H. destruct (HK k' H) as [[X|X] _]; [left; exact X|right; right; right; subst; exact Kh].
      * intro X. contradiction.
      * intro X. contradiction.
      * intros k2 K2 S2. destruct (HK k2 K2) as [[X|X] N]; [destruct k2; discriminate|]. subst k2.
        split; [intros k' H; destruct (HK k' H) as [Y _]; exact Y|]. split; [exact PPt|]. split; [exact TMt|].
        rewrite (F Foh eq_refl), (F Fgf eq_refl), (F Fgs eq_refl), Esaslt.
        split; [exact (ap_oh k s A)|]. split; [exact (ap_gf k s A)|].
        intro X. apply mem_del_false. apply (ap_pl k s A X).
      * intros x H B. destruct (In_app_sendq s t l x Q H) as [X|X]; [apply (li_Q s L x X B)|].
        destruct (NEW x X) as [Y|Y]; [subst x; discriminate B|exact Y].
      * intros M _. rewrite (F Fmand eq_refl) in M. rewrite Esec. auto.
      * intros D x H. rewrite (F Fdis eq_refl) in D. destruct (In_app_sendq s t l x Q H) as [X|X]; [apply (li_D s L D x X)|].
        destruct (NEW x X) as [Y|Y]; [subst x; discriminate|]. intro Z. rewrite Z in Y. discriminate.
      * intros x H B. destruct (In_app_sendq s t l x Q H) as [X|X].
        { rewrite (F Flauth eq_refl), (F Ftyp eq_refl). apply (li_L s L x X B). }
        destruct (NEW x X) as [Y|Y]; [subst x; discriminate B|]. rewrite B in Y. discriminate.
      * intros x H B. rewrite (F Fgs eq_refl), (F Fgf eq_refl), (F Fps eq_refl).
        destruct (In_app_sendq s t l x Q H) as [X|X]; [apply (li_PL s L x X B)|].
        destruct (NEW x X) as [Y|Y]; [|rewrite B in Y; discriminate]. subst x. cbn in B. inv B.
        split; [|split; [exact (ap_gf k s A)|rewrite (ap_ps k s A); discriminate]].
        destruct (g_strong (gh s)) eqn:Gs; [|reflexivity]. rewrite (ap_pl k s A eq_refl) in Hm. discriminate.
      * intro X. rewrite (F Foh eq_refl) in X. rewrite (F Fsec eq_refl). apply (li_O s L X).
  - split; [intro X; discriminate X|]. split; [intros _; rewrite (F Fps eq_refl); exact (ap_ps k s A)|].
    split; [rewrite Est; exact (ap_st k s A)|]. split; [intros _ X; contradiction|].
    intros _ X. rewrite Est in X. contradiction.
Qed.
