(* C02 - proofs.  Credentials obey the TLS and mechanism policy the user configured.
   Frame lemmas live in Proofs/NegFrame_C02.v; this file defines the invariant of the connection
   automaton, proves that every model function preserves it and concludes the four policy statements. *)
Require Import LV.Common.Bytes LV.Gen.Gen_neg LV.Model.NegState LV.Model.NegModel LV.Spec.NegSpec.
Require Import LV.Proofs.NegFrame_C02.
Local Open Scope Z_scope.

(* ------------------------------------------------------------------ check_run *)
Lemma run_cons s o r : fst (run s (o :: r)) = fst (run (fst (step s o)) r).
Proof. simpl. destruct (step s o) as [s1 o1]. cbn [fst]. destruct (run s1 r) as [s2 o2]. reflexivity. Qed.
Lemma check_run_cons ok s o r :
  check_run ok s (o :: r) = ok s o (fst (step s o)) (snd (step s o)) && check_run ok (fst (step s o)) r.
Proof. simpl. destruct (step s o) as [s1 o1]. reflexivity. Qed.

Lemma check_run_meaning_proof :
  forall ok s ops, check_run ok s ops = true <->
    (forall pre o post, ops = pre ++ o :: post ->
       let sp := fst (run s pre) in ok sp o (fst (step sp o)) (snd (step sp o)) = true).
Proof.
  intros ok s ops. revert s. induction ops as [|o0 r IH]; intro s.
  - split; [|reflexivity]. intros _ pre o post E. destruct pre; discriminate E.
  - rewrite check_run_cons, andb_true_iff, IH. split.
    + intros [A B] pre o post E. destruct pre as [|p pre]; simpl in E; inv E.
      * exact A.
      * cbv zeta. rewrite run_cons. apply (B pre o post). reflexivity.
    + intro H. split.
      * apply (H [] o0 r). reflexivity.
      * intros pre o post E. specialize (H (o0 :: pre) o post). cbv zeta in H. rewrite run_cons in H.
        apply H. rewrite E. reflexivity.
Qed.

(* the proof principle: an invariant of `step` that implies the per-step predicate *)
Lemma check_run_inv (ok : state -> op -> state -> list out -> bool) (I : state -> Prop) :
  (forall s o, I s -> I (fst (step s o))) ->
  (forall s o, I s -> ok s o (fst (step s o)) (snd (step s o)) = true) ->
  forall ops s, I s -> check_run ok s ops = true.
Proof.
  intros P Q. induction ops as [|o r IH]; intros s Hs; [reflexivity|].
  rewrite check_run_cons, (Q s o Hs), (IH _ (P s o Hs)). reflexivity.
Qed.

(* ------------------------------------------------------------------ the invariant *)
Definition is_baseh (k : hkind) : bool := match k with HUser | HError | HComponentHs => true | _ => false end.
Definition is_posth (k : hkind) : bool :=
  match k with HFeaturesSasl | HFeaturesCompress | HCompressResult | HSm => true | _ => false end.

Definition hasF (s : state) : Prop := In HFeatures (hk s).
Definition hasT (s : state) : Prop := In HProceedTls (hk s).
Definition hasS (s : state) : Prop := exists k, In k (hk s) /\ is_saslh k = true.
Definition hasTMF (s : state) : Prop := In TMissingFeatures (tk s).
Definition noauth (s : state) : Prop := ~ hasF s /\ ~ hasT s /\ ~ hasS s /\ ~ hasTMF s.
Definition prepost (s : state) : Prop := (forall i, In i (ik s) -> i = IKLegacy) /\ sm_enabled s = false.
Definition strong_in (s : state) : Prop := existsb (fun m => negb (is_plain_or_anon m)) (sasl s) = true.
Definition fresh (s : state) : Prop :=
  sasl s = [] /\ sm_enabled s = false /\ (forall k, In k (hk s) -> k = HUser) /\
  (forall i, In i (ik s) -> i = IKLegacy) /\ ~ hasTMF s /\ g_strong (gh s) = false.
Definition quietS (s : state) : Prop :=
  (forall k, In k (hk s) -> is_baseh k = true) /\ ~ hasTMF s /\ prepost s.
(* evidence that the connection is past authentication *)
Definition evP (s : state) : Prop :=
  (exists k, In k (hk s) /\ is_posth k = true) \/ In IKBind (ik s) \/ In IKSession (ik s).

Record LInv (s : state) : Prop := mkLInv {
  li_C : st s = Connecting ->
         fresh s /\ secured s = false /\ sendq s = [] /\ oh s <> OpenTls /\ oh s <> OpenSasl /\ oh s <> OpenCompress;
  li_XF : hasF s ->
          (forall k, In k (hk s) -> is_baseh k = true \/ k = HFeatures) /\ prepost s /\
          (oh s = OpenAuth \/ oh s = OpenTls) /\ (hasTMF s -> oh s = OpenAuth) /\ (oh s = OpenAuth -> sasl s = []);
  li_XT : hasT s ->
          (forall k, In k (hk s) -> is_baseh k = true \/ k = HProceedTls) /\ prepost s /\ ~ hasTMF s /\
          secured s = false /\ oh s = OpenAuth /\ g_feat_seen (gh s) = true /\
          (g_strong (gh s) = true -> strong_in s /\ mem_mech MPlain (sasl s) = false);
  li_XS : forall k, In k (hk s) -> is_saslh k = true ->
          (forall k', In k' (hk s) -> is_baseh k' = true \/ k' = k) /\ prepost s /\ ~ hasTMF s /\
          (oh s = OpenAuth \/ oh s = OpenTls) /\ g_feat_seen (gh s) = true /\
          (g_strong (gh s) = true -> mem_mech MPlain (sasl s) = false);
  li_XP : forall k, In k (hk s) -> is_posth k = true ->
          (forall k', In k' (hk s) -> is_baseh k' = true \/ is_posth k' = true) /\ ~ hasTMF s;
  li_TMF : hasTMF s -> hasF s;
  li_POA : st s = Connected -> oh s = OpenAuth -> ps s = PDepth0 -> fresh s;
  li_POT : oh s = OpenTls -> (reset_parser s = true \/ ps s = PDepth0) ->
           quietS s /\ (g_strong (gh s) = true -> strong_in s) /\ (ps s <> PDepth0 -> g_feat_seen (gh s) = true);
  li_POP : (oh s = OpenSasl \/ oh s = OpenCompress) -> noauth s;
  li_O : oh s = OpenTls -> secured s = true /\ st s = Connected;
  li_R : st s = Connected -> oh s = OpenAuth -> reset_parser s = false;
  li_RP : st s = Connected -> is_raw s = false -> reset_parser s = true -> ps s <> PDepth0;
  li_RAW : is_raw s = true ->
           (oh s = OpenStub \/ oh s = OpenRaw) /\ (forall k, In k (hk s) -> k = HUser) /\
           (forall i, In i (ik s) -> i = IKLegacy) /\ ~ hasTMF s;
  li_STUB : (oh s = OpenStub \/ oh s = OpenRaw) -> is_raw s = true;
  li_COMP : oh s = OpenComponent ->
            (forall k, In k (hk s) -> is_baseh k = true) /\ (forall i, In i (ik s) -> i = IKLegacy) /\ ~ hasTMF s;
  li_Q : forall x, In x (sendq s) -> snd x = false -> is_neg (fst (fst x)) = false;
  li_M : f_tls_mandatory s = true ->
         (hasS s \/ exists x, In x (sendq s) /\ is_cred (fst (fst x)) = true) -> is_secured s = true;
  li_D : f_tls_disabled s = true -> forall x, In x (sendq s) -> fst (fst x) <> WStartTls;
  li_L : forall x, In x (sendq s) -> fst (fst x) = WLegacy -> f_legacy_auth s = true /\ typ s = TClient;
  li_PL : forall x, In x (sendq s) -> fst (fst x) = WAuth MPlain ->
          g_strong (gh s) = false /\ g_feat_seen (gh s) = true /\ ps s <> PDepth0
}.
(* while HFeatures waits: a strong mechanism seen so far is still in the list *)
Definition PL3F (s : state) : Prop := hasF s -> crashed s = false -> g_strong (gh s) = true -> strong_in s.

Record GInv (s : state) : Prop := mkGInv {
  gi_T : tls_support s = false;
  gi_S : forall w, In w (sw s) -> is_neg w = false
}.
(* handler granularity *)
Definition HInv (s : state) : Prop := GInv s /\ (live s -> LInv s).
(* step granularity *)
Definition Inv (s : state) : Prop :=
  HInv s /\ (live s -> PL3F s) /\ (st s = Disconnected -> sm_enabled s = false).

Lemma is_cred_neg w : is_cred w = true -> is_neg w = true.
Proof. destruct w; simpl; congruence. Qed.
Lemma class_cases k : is_baseh k = true \/ k = HFeatures \/ k = HProceedTls \/ is_saslh k = true \/ is_posth k = true.
Proof. destruct k; simpl; auto 6. Qed.

(* past authentication nothing of the authentication phase is left *)
Lemma evP_noauth s : LInv s -> evP s -> noauth s.
Proof.
  intros L E.
  assert (X : (exists k, In k (hk s) /\ is_posth k = true) \/ ~ (forall i, In i (ik s) -> i = IKLegacy)).
  { destruct E as [E|[E|E]]; [left; exact E| |]; right; intro A; specialize (A _ E); discriminate. }
  clear E. repeat split.
  - intro F. destruct (li_XF s L F) as [A [[B _] _]]. destruct X as [[k [K1 K2]]|X]; [|tauto].
    destruct (A k K1) as [Y|Y]; [destruct k; discriminate|subst; discriminate].
  - intro F. destruct (li_XT s L F) as [A [[B _] _]]. destruct X as [[k [K1 K2]]|X]; [|tauto].
    destruct (A k K1) as [Y|Y]; [destruct k; discriminate|subst; discriminate].
  - intros [k0 [F1 F2]]. destruct (li_XS s L k0 F1 F2) as [A [[B _] _]]. destruct X as [[k [K1 K2]]|X]; [|tauto].
    destruct (A k K1) as [Y|Y]; [destruct k; discriminate|subst; destruct k0; discriminate].
  - intro F. apply (li_TMF s L) in F. destruct (li_XF s L F) as [A [[B _] _]]. destruct X as [[k [K1 K2]]|X]; [|tauto].
    destruct (A k K1) as [Y|Y]; [destruct k; discriminate|subst; discriminate].
Qed.

(* evidence of the post-authentication phase contradicts every "early" shape *)
Lemma evP_not_early s :
  evP s -> (forall k, In k (hk s) -> is_baseh k = true \/ k = HFeatures \/ k = HProceedTls \/ is_saslh k = true) ->
  (forall i, In i (ik s) -> i = IKLegacy) -> False.
Proof.
  intros [[k [A B]]|[A|A]] H I.
  - destruct (H k A) as [X|[X|[X|X]]]; try (subst; discriminate); destruct k; discriminate.
  - specialize (I _ A). discriminate.
  - specialize (I _ A). discriminate.
Qed.

Section Transfer.
Variables s s' : state.
Hypothesis Edis : f_tls_disabled s' = f_tls_disabled s.
Hypothesis Emand : f_tls_mandatory s' = f_tls_mandatory s.
Hypothesis Elauth : f_legacy_auth s' = f_legacy_auth s.
Hypothesis Etyp : typ s' = typ s.
Hypothesis Eraw : is_raw s' = is_raw s.
Hypothesis Est : st s' = st s.
Hypothesis Esec : secured s' = secured s.
Hypothesis Etlsp : tls_present s' = tls_present s.
Hypothesis Etlsf : tls_failed s' = tls_failed s.
Hypothesis Esasl : sasl s' = sasl s.
Hypothesis Erp : reset_parser s' = reset_parser s.
Hypothesis Eoh : oh s' = oh s.
Hypothesis Eps : ps s' = ps s.
Hypothesis Egs : g_strong (gh s') = g_strong (gh s).
Hypothesis Egf : g_feat_seen (gh s') = g_feat_seen (gh s).
Hypothesis Hh : forall k, In k (hk s') -> In k (hk s) \/ (is_posth k = true /\ evP s).
Hypothesis Hi : forall i, In i (ik s') -> In i (ik s) \/ evP s.
Hypothesis Ht : hasTMF s' -> hasTMF s.
Hypothesis Hs : sm_enabled s' = sm_enabled s \/ evP s.
Hypothesis Hq : exists l, sendq s' = sendq s ++ l /\ Forall (fun x => benignE x \/ In (fst (fst x)) (sw s)) l.
Hypothesis Hoff : st s <> Connected -> sendq s' = sendq s.
Hypothesis H6 : hasTMF s' -> hasF s -> hasF s'.
Hypothesis L : LInv s.
Hypothesis G : GInv s.

Let NA : evP s -> noauth s := evP_noauth s L.

Lemma tr_early (Q : hkind -> Prop) :
  (forall k, In k (hk s) -> Q k) -> (forall k, Q k -> is_posth k = false) -> (forall i, In i (ik s) -> i = IKLegacy) ->
  (forall k, In k (hk s') -> Q k) /\ (forall i, In i (ik s') -> i = IKLegacy) /\ sm_enabled s' = sm_enabled s.
Proof.
  intros A C B.
  assert (NE : ~ evP s).
  { intros [[k [K1 K2]]|[K|K]].
    - rewrite (C k (A k K1)) in K2. discriminate.
    - specialize (B _ K). discriminate.
    - specialize (B _ K). discriminate. }
  repeat split.
  - intros k Hk. destruct (Hh k Hk) as [X|[_ X]]; [auto|tauto].
  - intros i Hi0. destruct (Hi i Hi0) as [X|X]; [auto|tauto].
  - destruct Hs; tauto.
Qed.

Lemma tr_new_entry x : In x (sendq s') -> In x (sendq s) \/ is_neg (fst (fst x)) = false.
Proof.
  destruct Hq as [l [E A]]. rewrite E, in_app_iff. intros [H|H]; [left; exact H|right].
  rewrite Forall_forall in A. destruct (A x H) as [B|B]; [exact B|apply (gi_S s G); exact B].
Qed.

Lemma tr_hasS : hasS s' -> hasS s.
Proof.
  intros [k [A B]]. destruct (Hh k A) as [X|[X _]]; [exists k; auto|destruct k; discriminate].
Qed.
Lemma tr_hasF : hasF s' -> hasF s.
Proof. intro A. destruct (Hh _ A) as [X|[X _]]; [exact X|discriminate]. Qed.
Lemma tr_hasT : hasT s' -> hasT s.
Proof. intro A. destruct (Hh _ A) as [X|[X _]]; [exact X|discriminate]. Qed.
Lemma tr_noauth : noauth s -> noauth s'.
Proof.
  intros [A [B [C D]]]. repeat split; intro X; [apply A, tr_hasF|apply B, tr_hasT|apply C, tr_hasS|apply D, Ht]; exact X.
Qed.

Ltac np := let k := fresh "k" in let H := fresh "H" in
  intros k H; first [destruct H as [H|H]; [destruct k; (discriminate H || reflexivity)|subst; reflexivity]
                    | subst; reflexivity | destruct k; (discriminate H || reflexivity)].

Lemma linv_transfer : LInv s'.
Proof.
  constructor.
  - (* C *) intro Hc. rewrite Est in Hc. destruct (li_C s L Hc) as [[F1 [F2 [F3 [F4 [F5 F6]]]]] [A [B [C1 [C2 C3]]]]].
    destruct (tr_early (fun k => k = HUser) F3 ltac:(np) F4) as [X1 [X2 X3]].
    rewrite Esec, Eoh. repeat split; auto; try congruence.
    rewrite Hoff; [exact B|congruence].
  - (* XF *) intro F. pose proof (tr_hasF F) as F0. destruct (li_XF s L F0) as [A [[B1 B2] [C [D E]]]].
    destruct (tr_early (fun k => is_baseh k = true \/ k = HFeatures) A ltac:(np) B1) as [X1 [X2 X3]].
    rewrite Eoh, Esasl. repeat split; auto; congruence.
  - (* XT *) intro F. pose proof (tr_hasT F) as F0. destruct (li_XT s L F0) as [A [[B1 B2] [C [D [E [E2 E3]]]]]].
    destruct (tr_early (fun k => is_baseh k = true \/ k = HProceedTls) A ltac:(np) B1) as [X1 [X2 X3]].
    unfold strong_in. rewrite Eoh, Esasl, Esec, Egs, Egf. repeat split; auto; try congruence; apply E3; assumption.
  - (* XS *) intros k K1 K2.
    assert (K0 : In k (hk s)) by (destruct (Hh k K1) as [X|[X _]]; [exact X|destruct k; discriminate]).
    destruct (li_XS s L k K0 K2) as [A [[B1 B2] [C [D [E E2]]]]].
    destruct (tr_early (fun k' => is_baseh k' = true \/ k' = k) A) as [X1 [X2 X3]]; [|exact B1|].
    { intros k' [H|H]; [destruct k'; (discriminate H || reflexivity)|subst; destruct k; (discriminate K2 || reflexivity)]. }
    rewrite Eoh, Esasl, Egs, Egf. repeat split; auto; congruence.
  - (* XP *) intros k K1 K2.
    assert (NT : forall k', In k' (hk s) -> is_posth k' = true -> ~ hasTMF s') by
      (intros k' A B C; apply Ht in C; destruct (li_XP s L k' A B) as [_ X]; tauto).
    assert (CL : forall k0, In k0 (hk s) -> is_posth k0 = true ->
                 forall k', In k' (hk s') -> is_baseh k' = true \/ is_posth k' = true).
    { intros k0 A B k' K'. destruct (Hh k' K') as [X|[X _]]; [|auto]. destruct (li_XP s L k0 A B) as [Y _]. auto. }
    destruct (Hh k K1) as [X|[_ E]].
    + split; [eapply CL; eassumption|eapply NT; eassumption].
    + pose proof (NA E) as [N1 [N2 [N3 N4]]]. split.
      * intros k' K'. destruct (Hh k' K') as [X|[X _]]; [|auto].
        destruct (class_cases k') as [Y|[Y|[Y|[Y|Y]]]]; auto; exfalso; subst; try tauto. apply N3. exists k'. auto.
      * intro C. apply N4, Ht, C.
  - (* TMF *) intro F. apply H6; [exact F|]. apply (li_TMF s L), Ht, F.
  - (* POA *) intros A B C. rewrite Est in A. rewrite Eoh in B. rewrite Eps in C.
    destruct (li_POA s L A B C) as [F1 [F2 [F3 [F4 [F5 F6]]]]].
    destruct (tr_early (fun k => k = HUser) F3 ltac:(np) F4) as [X1 [X2 X3]].
    unfold fresh. rewrite Esasl, Egs. repeat split; auto; congruence.
  - (* POT *) intros A B. rewrite Eoh in A. rewrite Erp, Eps in B.
    destruct (li_POT s L A B) as [[Q1 [Q2 [Q3 Q4]]] [P1 P2]].
    destruct (tr_early (fun k => is_baseh k = true) Q1 ltac:(np) Q3) as [X1 [X2 X3]].
    unfold quietS, prepost, strong_in. rewrite Esasl, Egs, Egf, Eps. repeat split; auto; congruence.
  - (* POP *) intro A. rewrite Eoh in A. apply tr_noauth. apply (li_POP s L A).
  - (* O *) intro A. rewrite Eoh in A. rewrite Esec, Est. apply (li_O s L A).
  - (* R *) intros A B. rewrite Est in A. rewrite Eoh in B. rewrite Erp. apply (li_R s L A B).
  - (* RP *) intros A B C. rewrite Est in A. rewrite Eraw in B. rewrite Erp in C. rewrite Eps. apply (li_RP s L A B C).
  - (* RAW *) intro A. rewrite Eraw in A. destruct (li_RAW s L A) as [B [C [D E]]].
    destruct (tr_early (fun k => k = HUser) C ltac:(np) D) as [X1 [X2 X3]].
    rewrite Eoh. repeat split; auto.
  - (* STUB *) intro A. rewrite Eoh in A. rewrite Eraw. apply (li_STUB s L A).
  - (* COMP *) intro A. rewrite Eoh in A. destruct (li_COMP s L A) as [B [C D]].
    destruct (tr_early (fun k => is_baseh k = true) B ltac:(np) C) as [X1 [X2 X3]]. repeat split; auto.
  - (* Q *) intros x A B. destruct (tr_new_entry x A) as [X|X]; [apply (li_Q s L x X B)|exact X].
  - (* M *) intros A B. rewrite Emand in A. unfold is_secured. rewrite Esec, Etlsf, Etlsp. apply (li_M s L A).
    destruct B as [B|[x [B1 B2]]]; [left; apply tr_hasS; exact B|].
    destruct (tr_new_entry x B1) as [X|X]; [right; exists x; auto|]. apply is_cred_neg in B2. congruence.
  - (* D *) intros A x B. rewrite Edis in A. destruct (tr_new_entry x B) as [X|X]; [apply (li_D s L A x X)|].
    intro E. rewrite E in X. discriminate.
  - (* L *) intros x A B. rewrite Elauth, Etyp. destruct (tr_new_entry x A) as [X|X]; [apply (li_L s L x X B)|].
    rewrite B in X. discriminate.
  - (* PL *) intros x A B. rewrite Egs, Egf, Eps. destruct (tr_new_entry x A) as [X|X]; [apply (li_PL s L x X B)|].
    rewrite B in X. discriminate.
Qed.
End Transfer.

Definition cK : list fld := [Fsme; Fh; Fid; Ft; Fsq; Fsmq; Fcr; FhD; FidD].

(* the generic preservation lemma: a function that only adds benign queue entries, removes handlers or
   timers, and adds post-authentication handlers only when the state is already past authentication *)
Lemma hinv_mono c p s s' :
  HInv s -> eff c p s s' -> subl c cK = true ->
  (forall x, pw p x -> benignE x) ->
  (forall k, pt p k -> k <> TMissingFeatures) ->
  (forall k, ph p k -> is_posth k = true /\ evP s) ->
  (forall i, pid p i -> evP s) ->
  (fmem Fsme c = true -> evP s) ->
  (hasTMF s' -> hasF s -> hasF s') ->
  HInv s'.
Proof.
  intros [G Lv] E Sub Pw Pt Ph Pi Ps H6.
  pose proof (subl_ok _ _ Sub) as W.
  destruct E as [U Lf St Sme [l [Q A]] Hh Hi Ht M HK IK C O].
  split.
  - constructor.
    + assert (X : fmem Ftlss (c ++ DISC) = false) by (rewrite fmem_app, (W Ftlss eq_refl); reflexivity).
      pose proof (U Ftlss X) as Y. cbn in Y. rewrite Y. apply (gi_T s G).
    + intros w Hw. apply (gi_S s G). apply M. exact Hw.
  - intro L'. destruct (live_back _ _ St L') as [L0 Est]. specialize (Lv L0). specialize (Lf L').
    assert (F : frame cK s s') by (eapply frame_weaken; [exact W|exact Lf]).
    apply (linv_transfer s s' (F Fdis eq_refl) (F Fmand eq_refl) (F Flauth eq_refl) (F Ftyp eq_refl) (F Fraw eq_refl)
             (F Fst eq_refl) (F Fsec eq_refl) (F Ftlsp eq_refl) (F Ftlsf eq_refl) (F Fsasl eq_refl) (F Frp eq_refl)
             (F Foh eq_refl) (F Fps eq_refl) (F Fgs eq_refl) (F Fgf eq_refl)); try assumption.
    + intros k Hk. destruct (Hh k Hk) as [X|X]; [left; exact X|right; apply Ph; exact X].
    + intros i Hi0. destruct (Hi i Hi0) as [X|X]; [left; exact X|right; eapply Pi; exact X].
    + intro T. destruct (Ht _ T) as [X|X]; [exact X|]. exfalso. apply (Pt _ X). reflexivity.
    + destruct (fmem Fsme c) eqn:Fs; [right; apply Ps; reflexivity|left]. exact (Lf Fsme Fs).
    + exists l. split; [exact Q|]. eapply Forall_impl; [|exact A]. intros x [X|X]; [left; apply Pw; exact X|right; exact X].
Qed.
